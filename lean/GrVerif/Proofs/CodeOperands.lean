import GrVerif.Proofs.CodeLoad
set_option linter.unusedVariables false
set_option linter.unusedSimpArgs false
/-!
# What the code loader has checked about the operands of an accepted program   (C01 → C02)

`OperandsOK l opc ps`: the class, feature, glyph-attribute, metric and slot-attribute numbers among the parameter bytes `ps` of an
instruction `opc` are below the limits `l` the loader was given.  `loaded_operands_ok`: every instruction of a program that
`Machine::Code::Code` accepts satisfies it – in particular every class number is below `silf.numClasses()`, the hypothesis under
which `Silf::getClassGlyph` / `findClassIndex` stay inside the class map (`C01.class_lookups_in_bounds`; the look-ups themselves
do not guard `cid == numClasses`).
-/
namespace GrVerif.CodeLoad
open GrVerif GrVerif.Gen.Vm GrVerif.Loader

/-- parameter byte `k` as the interpreter reads it -/
def g (ps : List Nat) (k : Nat) : Nat := ps.getD k 0

theorem g_eq (ps : List Nat) (k : Nat) (h : k < ps.length) : g ps k = ps[k] := by
  unfold g; simp [List.getD_eq_getElem?_getD, h]

theorem notUpto_false {lim x : Nat} (h : notUpto lim x = false) : x < lim := by
  simp [notUpto] at h; exact h.2

def OperandsOK (l : Limits) (opc : Nat) (ps : List Nat) : Prop :=
  (opc = 59 → g ps 0 * 256 + g ps 1 < l.classes) ∧
  (opc = 28 → g ps 0 < l.classes) ∧
  (opc = 56 → g ps 1 * 256 + g ps 2 < l.classes ∧ g ps 3 * 256 + g ps 4 < l.classes) ∧
  (opc = 29 → g ps 1 < l.classes ∧ g ps 2 < l.classes) ∧
  ((opc = 43 ∨ opc = 66) → g ps 0 < l.features) ∧
  ((opc = 41 ∨ opc = 44) → g ps 0 < l.glyfAttrs) ∧
  ((opc = 60 ∨ opc = 61) → g ps 0 * 256 + g ps 1 < l.glyfAttrs) ∧
  ((opc = 42 ∨ opc = 45) → g ps 0 < kgmetDescent) ∧
  ((opc = 35 ∨ opc = 36 ∨ opc = 37 ∨ opc = 38 ∨ opc = 40) → g ps 0 < slatMax ∧ g ps 0 ≠ slatUserDefn) ∧
  ((opc = 39 ∨ opc = 51 ∨ opc = 52 ∨ opc = 53) → g ps 0 < slatMax ∧ g ps 1 < attridLimit l.numUser (g ps 0)) ∧
  (opc = 46 → g ps 0 < slatMax ∧ g ps 2 < attridLimit l.numUser (g ps 0))

theorem op59_cls (l : Limits) (constraint : Bool) (pt : Nat) (d : Dec) (pos : Nat) (ps : List Nat) (b : Book) (ts : List (Bool × Nat))
    (hn : 2 ≤ ps.length) (h : fetchCase l constraint pt d 59 pos ps = .ok (b, ts)) (hf : lastFail ts = none) :
    g ps 0 * 256 + g ps 1 < l.classes := by
  simp [fetchCase, pure, Except.pure, bind, Except.bind, arg_ok ps 0 (by omega), arg_ok ps 1 (by omega)] at h
  obtain ⟨_, rfl⟩ := h
  have hm := lastFail_none_mem _ hf
  have a0 := hm (notUpto l.classes (ps[0] * 256 + ps[1]), S_out_of_range) (by simp)
  rw [g_eq ps 0 (by omega), g_eq ps 1 (by omega)]
  exact notUpto_false a0

theorem op28_cls (l : Limits) (constraint : Bool) (pt : Nat) (d : Dec) (pos : Nat) (ps : List Nat) (b : Book) (ts : List (Bool × Nat))
    (hn : 1 ≤ ps.length) (h : fetchCase l constraint pt d 28 pos ps = .ok (b, ts)) (hf : lastFail ts = none) :
    g ps 0 < l.classes := by
  simp [fetchCase, pure, Except.pure, bind, Except.bind, arg_ok ps 0 (by omega)] at h
  obtain ⟨_, rfl⟩ := h
  have hm := lastFail_none_mem _ hf
  have a0 := hm (notUpto l.classes ps[0], S_out_of_range) (by simp)
  rw [g_eq ps 0 (by omega)]
  exact notUpto_false a0

theorem op56_cls (l : Limits) (constraint : Bool) (pt : Nat) (d : Dec) (pos : Nat) (ps : List Nat) (b : Book) (ts : List (Bool × Nat))
    (hn : 5 ≤ ps.length) (h : fetchCase l constraint pt d 56 pos ps = .ok (b, ts)) (hf : lastFail ts = none) :
    g ps 1 * 256 + g ps 2 < l.classes ∧ g ps 3 * 256 + g ps 4 < l.classes := by
  simp [fetchCase, pure, Except.pure, bind, Except.bind, arg_ok ps 0 (by omega), arg_ok ps 1 (by omega), arg_ok ps 2 (by omega), arg_ok ps 3 (by omega), arg_ok ps 4 (by omega)] at h
  obtain ⟨_, rfl⟩ := h
  have hm := lastFail_none_mem _ hf
  have a0 := hm (notUpto l.classes (ps[1] * 256 + ps[2]), S_out_of_range) (by simp)
  have a1 := hm (notUpto l.classes (ps[3] * 256 + ps[4]), S_out_of_range) (by simp)
  rw [g_eq ps 1 (by omega), g_eq ps 2 (by omega), g_eq ps 3 (by omega), g_eq ps 4 (by omega)]
  exact ⟨notUpto_false a0, notUpto_false a1⟩

theorem op29_cls (l : Limits) (constraint : Bool) (pt : Nat) (d : Dec) (pos : Nat) (ps : List Nat) (b : Book) (ts : List (Bool × Nat))
    (hn : 3 ≤ ps.length) (h : fetchCase l constraint pt d 29 pos ps = .ok (b, ts)) (hf : lastFail ts = none) :
    g ps 1 < l.classes ∧ g ps 2 < l.classes := by
  simp [fetchCase, pure, Except.pure, bind, Except.bind, arg_ok ps 0 (by omega), arg_ok ps 1 (by omega), arg_ok ps 2 (by omega)] at h
  obtain ⟨_, rfl⟩ := h
  have hm := lastFail_none_mem _ hf
  have a0 := hm (notUpto l.classes ps[1], S_out_of_range) (by simp)
  have a1 := hm (notUpto l.classes ps[2], S_out_of_range) (by simp)
  rw [g_eq ps 1 (by omega), g_eq ps 2 (by omega)]
  exact ⟨notUpto_false a0, notUpto_false a1⟩

theorem op43_feat (l : Limits) (constraint : Bool) (pt : Nat) (d : Dec) (pos : Nat) (ps : List Nat) (b : Book) (ts : List (Bool × Nat))
    (hn : 2 ≤ ps.length) (h : fetchCase l constraint pt d 43 pos ps = .ok (b, ts)) (hf : lastFail ts = none) :
    g ps 0 < l.features := by
  simp [fetchCase, pure, Except.pure, bind, Except.bind, arg_ok ps 0 (by omega), arg_ok ps 1 (by omega)] at h
  obtain ⟨_, rfl⟩ := h
  have hm := lastFail_none_mem _ hf
  have a0 := hm (notUpto l.features ps[0], S_out_of_range) (by simp)
  rw [g_eq ps 0 (by omega)]
  exact notUpto_false a0

theorem op66_feat (l : Limits) (constraint : Bool) (pt : Nat) (d : Dec) (pos : Nat) (ps : List Nat) (b : Book) (ts : List (Bool × Nat))
    (hn : 2 ≤ ps.length) (h : fetchCase l constraint pt d 66 pos ps = .ok (b, ts)) (hf : lastFail ts = none) :
    g ps 0 < l.features := by
  simp [fetchCase, pure, Except.pure, bind, Except.bind, arg_ok ps 0 (by omega), arg_ok ps 1 (by omega)] at h
  obtain ⟨_, rfl⟩ := h
  have hm := lastFail_none_mem _ hf
  have a0 := hm (notUpto l.features ps[0], S_out_of_range) (by simp)
  rw [g_eq ps 0 (by omega)]
  exact notUpto_false a0

theorem op41_gattr (l : Limits) (constraint : Bool) (pt : Nat) (d : Dec) (pos : Nat) (ps : List Nat) (b : Book) (ts : List (Bool × Nat))
    (hn : 2 ≤ ps.length) (h : fetchCase l constraint pt d 41 pos ps = .ok (b, ts)) (hf : lastFail ts = none) :
    g ps 0 < l.glyfAttrs := by
  simp [fetchCase, pure, Except.pure, bind, Except.bind, arg_ok ps 0 (by omega), arg_ok ps 1 (by omega)] at h
  obtain ⟨_, rfl⟩ := h
  have hm := lastFail_none_mem _ hf
  have a0 := hm (notUpto l.glyfAttrs ps[0], S_out_of_range) (by simp)
  rw [g_eq ps 0 (by omega)]
  exact notUpto_false a0

theorem op44_gattr (l : Limits) (constraint : Bool) (pt : Nat) (d : Dec) (pos : Nat) (ps : List Nat) (b : Book) (ts : List (Bool × Nat))
    (hn : 2 ≤ ps.length) (h : fetchCase l constraint pt d 44 pos ps = .ok (b, ts)) (hf : lastFail ts = none) :
    g ps 0 < l.glyfAttrs := by
  simp [fetchCase, pure, Except.pure, bind, Except.bind, arg_ok ps 0 (by omega), arg_ok ps 1 (by omega)] at h
  obtain ⟨_, rfl⟩ := h
  have hm := lastFail_none_mem _ hf
  have a0 := hm (notUpto l.glyfAttrs ps[0], S_out_of_range) (by simp)
  rw [g_eq ps 0 (by omega)]
  exact notUpto_false a0

theorem op60_gattr (l : Limits) (constraint : Bool) (pt : Nat) (d : Dec) (pos : Nat) (ps : List Nat) (b : Book) (ts : List (Bool × Nat))
    (hn : 3 ≤ ps.length) (h : fetchCase l constraint pt d 60 pos ps = .ok (b, ts)) (hf : lastFail ts = none) :
    g ps 0 * 256 + g ps 1 < l.glyfAttrs := by
  simp [fetchCase, pure, Except.pure, bind, Except.bind, arg_ok ps 0 (by omega), arg_ok ps 1 (by omega), arg_ok ps 2 (by omega)] at h
  obtain ⟨_, rfl⟩ := h
  have hm := lastFail_none_mem _ hf
  have a0 := hm (notUpto l.glyfAttrs (ps[0] * 256 + ps[1]), S_out_of_range) (by simp)
  rw [g_eq ps 0 (by omega), g_eq ps 1 (by omega)]
  exact notUpto_false a0

theorem op61_gattr (l : Limits) (constraint : Bool) (pt : Nat) (d : Dec) (pos : Nat) (ps : List Nat) (b : Book) (ts : List (Bool × Nat))
    (hn : 3 ≤ ps.length) (h : fetchCase l constraint pt d 61 pos ps = .ok (b, ts)) (hf : lastFail ts = none) :
    g ps 0 * 256 + g ps 1 < l.glyfAttrs := by
  simp [fetchCase, pure, Except.pure, bind, Except.bind, arg_ok ps 0 (by omega), arg_ok ps 1 (by omega), arg_ok ps 2 (by omega)] at h
  obtain ⟨_, rfl⟩ := h
  have hm := lastFail_none_mem _ hf
  have a0 := hm (notUpto l.glyfAttrs (ps[0] * 256 + ps[1]), S_out_of_range) (by simp)
  rw [g_eq ps 0 (by omega), g_eq ps 1 (by omega)]
  exact notUpto_false a0

theorem op42_met (l : Limits) (constraint : Bool) (pt : Nat) (d : Dec) (pos : Nat) (ps : List Nat) (b : Book) (ts : List (Bool × Nat))
    (hn : 2 ≤ ps.length) (h : fetchCase l constraint pt d 42 pos ps = .ok (b, ts)) (hf : lastFail ts = none) :
    g ps 0 < kgmetDescent := by
  simp [fetchCase, pure, Except.pure, bind, Except.bind, arg_ok ps 0 (by omega), arg_ok ps 1 (by omega)] at h
  obtain ⟨_, rfl⟩ := h
  have hm := lastFail_none_mem _ hf
  have a0 := hm (notUpto kgmetDescent ps[0], S_out_of_range) (by simp)
  rw [g_eq ps 0 (by omega)]
  exact notUpto_false a0

theorem op45_met (l : Limits) (constraint : Bool) (pt : Nat) (d : Dec) (pos : Nat) (ps : List Nat) (b : Book) (ts : List (Bool × Nat))
    (hn : 2 ≤ ps.length) (h : fetchCase l constraint pt d 45 pos ps = .ok (b, ts)) (hf : lastFail ts = none) :
    g ps 0 < kgmetDescent := by
  simp [fetchCase, pure, Except.pure, bind, Except.bind, arg_ok ps 0 (by omega), arg_ok ps 1 (by omega)] at h
  obtain ⟨_, rfl⟩ := h
  have hm := lastFail_none_mem _ hf
  have a0 := hm (notUpto kgmetDescent ps[0], S_out_of_range) (by simp)
  rw [g_eq ps 0 (by omega)]
  exact notUpto_false a0

theorem op35_attr (l : Limits) (constraint : Bool) (pt : Nat) (d : Dec) (pos : Nat) (ps : List Nat) (b : Book) (ts : List (Bool × Nat))
    (hn : 1 ≤ ps.length) (h : fetchCase l constraint pt d 35 pos ps = .ok (b, ts)) (hf : lastFail ts = none) :
    g ps 0 < slatMax ∧ g ps 0 ≠ slatUserDefn := by
  simp [fetchCase, pure, Except.pure, bind, Except.bind, arg_ok ps 0 (by omega)] at h
  obtain ⟨_, rfl⟩ := h
  have hm := lastFail_none_mem _ hf
  have a0 := hm (notUpto slatMax ps[0], S_out_of_range) (by simp)
  have a1 := hm (decide (ps[0] = slatUserDefn), S_out_of_range) (by simp)
  rw [g_eq ps 0 (by omega)]
  exact ⟨notUpto_false a0, by simpa using a1⟩

theorem op36_attr (l : Limits) (constraint : Bool) (pt : Nat) (d : Dec) (pos : Nat) (ps : List Nat) (b : Book) (ts : List (Bool × Nat))
    (hn : 1 ≤ ps.length) (h : fetchCase l constraint pt d 36 pos ps = .ok (b, ts)) (hf : lastFail ts = none) :
    g ps 0 < slatMax ∧ g ps 0 ≠ slatUserDefn := by
  simp [fetchCase, pure, Except.pure, bind, Except.bind, arg_ok ps 0 (by omega)] at h
  obtain ⟨_, rfl⟩ := h
  have hm := lastFail_none_mem _ hf
  have a0 := hm (notUpto slatMax ps[0], S_out_of_range) (by simp)
  have a1 := hm (decide (ps[0] = slatUserDefn), S_out_of_range) (by simp)
  rw [g_eq ps 0 (by omega)]
  exact ⟨notUpto_false a0, by simpa using a1⟩

theorem op37_attr (l : Limits) (constraint : Bool) (pt : Nat) (d : Dec) (pos : Nat) (ps : List Nat) (b : Book) (ts : List (Bool × Nat))
    (hn : 1 ≤ ps.length) (h : fetchCase l constraint pt d 37 pos ps = .ok (b, ts)) (hf : lastFail ts = none) :
    g ps 0 < slatMax ∧ g ps 0 ≠ slatUserDefn := by
  simp [fetchCase, pure, Except.pure, bind, Except.bind, arg_ok ps 0 (by omega)] at h
  obtain ⟨_, rfl⟩ := h
  have hm := lastFail_none_mem _ hf
  have a0 := hm (notUpto slatMax ps[0], S_out_of_range) (by simp)
  have a1 := hm (decide (ps[0] = slatUserDefn), S_out_of_range) (by simp)
  rw [g_eq ps 0 (by omega)]
  exact ⟨notUpto_false a0, by simpa using a1⟩

theorem op38_attr (l : Limits) (constraint : Bool) (pt : Nat) (d : Dec) (pos : Nat) (ps : List Nat) (b : Book) (ts : List (Bool × Nat))
    (hn : 1 ≤ ps.length) (h : fetchCase l constraint pt d 38 pos ps = .ok (b, ts)) (hf : lastFail ts = none) :
    g ps 0 < slatMax ∧ g ps 0 ≠ slatUserDefn := by
  simp [fetchCase, pure, Except.pure, bind, Except.bind, arg_ok ps 0 (by omega)] at h
  obtain ⟨_, rfl⟩ := h
  have hm := lastFail_none_mem _ hf
  have a0 := hm (notUpto slatMax ps[0], S_out_of_range) (by simp)
  have a1 := hm (decide (ps[0] = slatUserDefn), S_out_of_range) (by simp)
  rw [g_eq ps 0 (by omega)]
  exact ⟨notUpto_false a0, by simpa using a1⟩

theorem op40_attr (l : Limits) (constraint : Bool) (pt : Nat) (d : Dec) (pos : Nat) (ps : List Nat) (b : Book) (ts : List (Bool × Nat))
    (hn : 2 ≤ ps.length) (h : fetchCase l constraint pt d 40 pos ps = .ok (b, ts)) (hf : lastFail ts = none) :
    g ps 0 < slatMax ∧ g ps 0 ≠ slatUserDefn := by
  simp [fetchCase, pure, Except.pure, bind, Except.bind, arg_ok ps 0 (by omega), arg_ok ps 1 (by omega)] at h
  obtain ⟨_, rfl⟩ := h
  have hm := lastFail_none_mem _ hf
  have a0 := hm (notUpto slatMax ps[0], S_out_of_range) (by simp)
  have a1 := hm (decide (ps[0] = slatUserDefn), S_out_of_range) (by simp)
  rw [g_eq ps 0 (by omega)]
  exact ⟨notUpto_false a0, by simpa using a1⟩

theorem op39_iattr (l : Limits) (constraint : Bool) (pt : Nat) (d : Dec) (pos : Nat) (ps : List Nat) (b : Book) (ts : List (Bool × Nat))
    (hn : 2 ≤ ps.length) (h : fetchCase l constraint pt d 39 pos ps = .ok (b, ts)) (hf : lastFail ts = none) :
    g ps 0 < slatMax ∧ g ps 1 < attridLimit l.numUser (g ps 0) := by
  simp [fetchCase, pure, Except.pure, bind, Except.bind, arg_ok ps 0 (by omega), arg_ok ps 1 (by omega)] at h
  obtain ⟨_, rfl⟩ := h
  have hm := lastFail_none_mem _ hf
  have a0 := hm (notUpto slatMax ps[0], S_out_of_range) (by simp)
  have a1 := hm (!(notUpto slatMax ps[0]) && notUpto (attridLimit l.numUser ps[0]) ps[1], S_out_of_range) (by simp)
  rw [g_eq ps 0 (by omega), g_eq ps 1 (by omega)]
  exact ⟨notUpto_false a0, notUpto_false ((by simpa using a1 : notUpto slatMax ps[0] = false → _) a0)⟩

theorem op51_iattr (l : Limits) (constraint : Bool) (pt : Nat) (d : Dec) (pos : Nat) (ps : List Nat) (b : Book) (ts : List (Bool × Nat))
    (hn : 2 ≤ ps.length) (h : fetchCase l constraint pt d 51 pos ps = .ok (b, ts)) (hf : lastFail ts = none) :
    g ps 0 < slatMax ∧ g ps 1 < attridLimit l.numUser (g ps 0) := by
  simp [fetchCase, pure, Except.pure, bind, Except.bind, arg_ok ps 0 (by omega), arg_ok ps 1 (by omega)] at h
  obtain ⟨_, rfl⟩ := h
  have hm := lastFail_none_mem _ hf
  have a0 := hm (notUpto slatMax ps[0], S_out_of_range) (by simp)
  have a1 := hm (!(notUpto slatMax ps[0]) && notUpto (attridLimit l.numUser ps[0]) ps[1], S_out_of_range) (by simp)
  rw [g_eq ps 0 (by omega), g_eq ps 1 (by omega)]
  exact ⟨notUpto_false a0, notUpto_false ((by simpa using a1 : notUpto slatMax ps[0] = false → _) a0)⟩

theorem op52_iattr (l : Limits) (constraint : Bool) (pt : Nat) (d : Dec) (pos : Nat) (ps : List Nat) (b : Book) (ts : List (Bool × Nat))
    (hn : 2 ≤ ps.length) (h : fetchCase l constraint pt d 52 pos ps = .ok (b, ts)) (hf : lastFail ts = none) :
    g ps 0 < slatMax ∧ g ps 1 < attridLimit l.numUser (g ps 0) := by
  simp [fetchCase, pure, Except.pure, bind, Except.bind, arg_ok ps 0 (by omega), arg_ok ps 1 (by omega)] at h
  obtain ⟨_, rfl⟩ := h
  have hm := lastFail_none_mem _ hf
  have a0 := hm (notUpto slatMax ps[0], S_out_of_range) (by simp)
  have a1 := hm (!(notUpto slatMax ps[0]) && notUpto (attridLimit l.numUser ps[0]) ps[1], S_out_of_range) (by simp)
  rw [g_eq ps 0 (by omega), g_eq ps 1 (by omega)]
  exact ⟨notUpto_false a0, notUpto_false ((by simpa using a1 : notUpto slatMax ps[0] = false → _) a0)⟩

theorem op53_iattr (l : Limits) (constraint : Bool) (pt : Nat) (d : Dec) (pos : Nat) (ps : List Nat) (b : Book) (ts : List (Bool × Nat))
    (hn : 2 ≤ ps.length) (h : fetchCase l constraint pt d 53 pos ps = .ok (b, ts)) (hf : lastFail ts = none) :
    g ps 0 < slatMax ∧ g ps 1 < attridLimit l.numUser (g ps 0) := by
  simp [fetchCase, pure, Except.pure, bind, Except.bind, arg_ok ps 0 (by omega), arg_ok ps 1 (by omega)] at h
  obtain ⟨_, rfl⟩ := h
  have hm := lastFail_none_mem _ hf
  have a0 := hm (notUpto slatMax ps[0], S_out_of_range) (by simp)
  have a1 := hm (!(notUpto slatMax ps[0]) && notUpto (attridLimit l.numUser ps[0]) ps[1], S_out_of_range) (by simp)
  rw [g_eq ps 0 (by omega), g_eq ps 1 (by omega)]
  exact ⟨notUpto_false a0, notUpto_false ((by simpa using a1 : notUpto slatMax ps[0] = false → _) a0)⟩

theorem op46_iattr (l : Limits) (constraint : Bool) (pt : Nat) (d : Dec) (pos : Nat) (ps : List Nat) (b : Book) (ts : List (Bool × Nat))
    (hn : 3 ≤ ps.length) (h : fetchCase l constraint pt d 46 pos ps = .ok (b, ts)) (hf : lastFail ts = none) :
    g ps 0 < slatMax ∧ g ps 2 < attridLimit l.numUser (g ps 0) := by
  simp [fetchCase, pure, Except.pure, bind, Except.bind, arg_ok ps 0 (by omega), arg_ok ps 1 (by omega), arg_ok ps 2 (by omega)] at h
  obtain ⟨_, rfl⟩ := h
  have hm := lastFail_none_mem _ hf
  have a0 := hm (notUpto slatMax ps[0], S_out_of_range) (by simp)
  have a1 := hm (!(notUpto slatMax ps[0]) && notUpto (attridLimit l.numUser ps[0]) ps[2], S_out_of_range) (by simp)
  rw [g_eq ps 0 (by omega), g_eq ps 2 (by omega)]
  exact ⟨notUpto_false a0, notUpto_false ((by simpa using a1 : notUpto slatMax ps[0] = false → _) a0)⟩

theorem need_of (opc k : Nat) (ps : List Nat) (hn : need opc ≤ ps.length) (hk : k ≤ need opc) : k ≤ ps.length := Nat.le_trans hk hn

/-- what the tests of `fetch_opcode` that an accepted opcode passed say about its operands -/
theorem fetchCase_operands (l : Limits) (constraint : Bool) (pt : Nat) (d : Dec) (opc pos : Nat) (ps : List Nat) (b : Book) (ts : List (Bool × Nat))
    (hn : need opc ≤ ps.length) (h : fetchCase l constraint pt d opc pos ps = .ok (b, ts)) (hf : lastFail ts = none) : OperandsOK l opc ps := by
  refine ⟨?_, ?_, ?_, ?_, ?_, ?_, ?_, ?_, ?_, ?_, ?_⟩
  · intro ho; subst ho; exact op59_cls l constraint pt d pos ps b ts hn h hf
  · intro ho; subst ho; exact op28_cls l constraint pt d pos ps b ts hn h hf
  · intro ho; subst ho; exact op56_cls l constraint pt d pos ps b ts hn h hf
  · intro ho; subst ho; exact op29_cls l constraint pt d pos ps b ts hn h hf
  · intro ho; rcases ho with rfl | rfl
    · exact op43_feat l constraint pt d pos ps b ts hn h hf
    · exact op66_feat l constraint pt d pos ps b ts hn h hf
  · intro ho; rcases ho with rfl | rfl
    · exact op41_gattr l constraint pt d pos ps b ts hn h hf
    · exact op44_gattr l constraint pt d pos ps b ts hn h hf
  · intro ho; rcases ho with rfl | rfl
    · exact op60_gattr l constraint pt d pos ps b ts hn h hf
    · exact op61_gattr l constraint pt d pos ps b ts hn h hf
  · intro ho; rcases ho with rfl | rfl
    · exact op42_met l constraint pt d pos ps b ts hn h hf
    · exact op45_met l constraint pt d pos ps b ts hn h hf
  · intro ho; rcases ho with rfl | rfl | rfl | rfl | rfl
    · exact op35_attr l constraint pt d pos ps b ts hn h hf
    · exact op36_attr l constraint pt d pos ps b ts hn h hf
    · exact op37_attr l constraint pt d pos ps b ts hn h hf
    · exact op38_attr l constraint pt d pos ps b ts hn h hf
    · exact op40_attr l constraint pt d pos ps b ts hn h hf
  · intro ho; rcases ho with rfl | rfl | rfl | rfl
    · exact op39_iattr l constraint pt d pos ps b ts hn h hf
    · exact op51_iattr l constraint pt d pos ps b ts hn h hf
    · exact op52_iattr l constraint pt d pos ps b ts hn h hf
    · exact op53_iattr l constraint pt d pos ps b ts hn h hf
  · intro ho; subst ho; exact op46_iattr l constraint pt d pos ps b ts hn h hf

end GrVerif.CodeLoad

import GrVerif.Proofs.HeapLift
/-!
# C05: every heap primitive and every opcode keeps `before/after/original` inside `[0, n)`
-/
set_option linter.unusedVariables false
namespace GrVerif.Action
open GrVerif.Vm GrVerif.Seg GrVerif.Gen.Vm

theorem get_grow (s : Seg) (k j : Nat) (fr : List Nat) : ({ s with slots := s.slots ++ Array.replicate k {}, free := fr } : Seg).get j = s.get j := by
  unfold Seg.get
  simp only [Array.getD_eq_getD_getElem?, Array.getElem?_append]
  split
  · rfl
  · rename_i h
    rw [Array.getElem?_eq_none (by omega : s.slots.size ≤ j)]
    simp [Array.getElem?_replicate]
    split <;> rfl

theorem newSlot_assoc {n : Int} {s s' : Seg} {g a : Nat} (h : AssocOK n s) (e : s.newSlot g = some (a, s')) : AssocOK n s' := by
  unfold Seg.newSlot at e
  split at e
  · simp only [Option.some.injEq, Prod.mk.injEq] at e
    rw [← e.2]
    have := h.upd (s := s) ‹Nat› (fun sl => { sl with next := none }) (h.1 _)
    exact ⟨this.1, this.2⟩
  · split at e
    · cases e
    · simp only [Option.some.injEq, Prod.mk.injEq] at e
      rw [← e.2]
      exact ⟨fun j => by rw [get_grow]; exact h.1 j, h.2⟩


/-- segment-level fields do not matter -/
theorem AssocOK.congr {n : Int} {s s' : Seg} (h : AssocOK n s) (hs : ∀ j, s'.get j = s.get j) (hd : s'.defaultOriginal = s.defaultOriginal) : AssocOK n s' :=
  ⟨fun j => by rw [hs]; exact h.1 j, by rw [hd]; exact h.2⟩

theorem AssocOK.setFirst {n : Int} {s : Seg} (h : AssocOK n s) (v : Option Nat) : AssocOK n (s.setFirst v) := h.congr (fun _ => rfl) rfl
theorem AssocOK.setLast {n : Int} {s : Seg} (h : AssocOK n s) (v : Option Nat) : AssocOK n (s.setLast v) := h.congr (fun _ => rfl) rfl
theorem AssocOK.addGlyphs {n : Int} {s : Seg} (h : AssocOK n s) (d : Int) : AssocOK n (s.addGlyphs d) := h.congr (fun _ => rfl) rfl

def PA (n : Int) (c : Ctx) : Prop := AssocOK n c.seg

theorem next_PA {n : Int} (c : Ctx) (h : PA n c) : OutcomeP (PA n) (opNext c) := by
  unfold opNext
  split
  · exact h
  · split
    · show AssocOK n _
      simp only [setMap_seg, setIs_seg, markHighpassed_seg]; exact h
    · exact h

/-- an update that keeps the three association fields -/
theorem AssocOK.updKeep {n : Int} {s : Seg} (h : AssocOK n s) (i : Nat) (f : Slot → Slot)
    (hf : ∀ a, (f a).before = a.before ∧ (f a).after = a.after ∧ (f a).original = a.original) : AssocOK n (s.upd i f) := by
  refine h.upd i f ?_
  have := h.1 i
  unfold RangeOK at *
  rw [(hf _).1, (hf _).2.1, (hf _).2.2]; exact this


theorem RangeOK.setPrev {n : Int} {a : Slot} (h : RangeOK n a) (v : Option Nat) : RangeOK n (a.setPrev v) := h
theorem RangeOK.setNext {n : Int} {a : Slot} (h : RangeOK n a) (v : Option Nat) : RangeOK n (a.setNext v) := h
theorem RangeOK.setBefore {n : Int} {a : Slot} (h : RangeOK n a) (x : Int) (hx : 0 ≤ x ∧ x < n) : RangeOK n (a.setBefore x) :=
  ⟨hx.1, hx.2, h.2.2.1, h.2.2.2.1, h.2.2.2.2.1, h.2.2.2.2.2⟩
theorem RangeOK.setAfter {n : Int} {a : Slot} (h : RangeOK n a) (x : Int) (hx : 0 ≤ x ∧ x < n) : RangeOK n (a.setAfter x) :=
  ⟨h.1, h.2.1, hx.1, hx.2, h.2.2.2.2.1, h.2.2.2.2.2⟩
theorem RangeOK.setOriginal {n : Int} {a : Slot} (h : RangeOK n a) (x : Int) (hx : 0 ≤ x ∧ x < n) : RangeOK n (a.setOriginal x) :=
  ⟨h.1, h.2.1, h.2.2.1, h.2.2.2.1, hx.1, hx.2⟩

theorem AssocOK.updWith {n : Int} {s : Seg} (h : AssocOK n s) (i : Nat) (f : Slot → Slot) (hf : ∀ a, RangeOK n a → RangeOK n (f a)) :
    AssocOK n (s.upd i f) := h.upd i f (hf _ (h.1 i))

theorem AssocOK.bef {n : Int} {s : Seg} (h : AssocOK n s) (j : Nat) : 0 ≤ (s.get j).before ∧ (s.get j).before < n := ⟨(h.1 j).1, (h.1 j).2.1⟩
theorem AssocOK.aft {n : Int} {s : Seg} (h : AssocOK n s) (j : Nat) : 0 ≤ (s.get j).after ∧ (s.get j).after < n := ⟨(h.1 j).2.2.1, (h.1 j).2.2.2.1⟩
theorem AssocOK.orig {n : Int} {s : Seg} (h : AssocOK n s) (j : Nat) : 0 ≤ (s.get j).original ∧ (s.get j).original < n := ⟨(h.1 j).2.2.2.2.1, (h.1 j).2.2.2.2.2⟩

theorem setNextOf_assoc {n : Int} {s : Seg} (h : AssocOK n s) (p v : Option Nat) : AssocOK n (s.setNextOf p v) := by
  unfold Seg.setNextOf
  split
  · exact h.updKeep _ _ (fun _ => ⟨rfl, rfl, rfl⟩)
  · exact h.setFirst _

theorem setPrevOf_assoc {n : Int} {s : Seg} (h : AssocOK n s) (p v : Option Nat) : AssocOK n (s.setPrevOf p v) := by
  unfold Seg.setPrevOf
  split
  · exact h.updKeep _ _ (fun _ => ⟨rfl, rfl, rfl⟩)
  · exact h.setLast _

theorem unlink_assoc {n : Int} {s : Seg} (h : AssocOK n s) (i : Nat) : AssocOK n (s.unlink i) :=
  setPrevOf_assoc (setNextOf_assoc h _ _) _ _

theorem unparent_same (s : Seg) (i : Nat) : SameT s (s.unparent i) := by
  unfold Seg.unparent
  split
  · exact SameT.tr (removeChild_same _ _ _) (SameT.updParent _ _ _)
  · exact SameT.rfl' _

theorem detach_assoc {n : Int} {s : Seg} (h : AssocOK n s) (i : Nat) : AssocOK n (s.detach i) := by
  unfold Seg.detach
  exact h.sameT (SameT.tr (unparent_same s i) (detachChildren_same _ _ _))

theorem delete_PA {n : Int} (c : Ctx) (h : PA n c) : OutcomeP (PA n) (opDelete c) := by
  unfold opDelete
  split
  · exact h
  · simp only []
    split
    · exact h
    · rename_i i _ _
      have h1 : AssocOK n (c.seg.upd i fun sl => sl.setDeleted true) := AssocOK.updKeep h _ _ (fun _ => ⟨rfl, rfl, rfl⟩)
      have h2 := (detach_assoc (unlink_assoc h1 i) i).addGlyphs (-1)
      show AssocOK n (Ctx.backOnto _ _).seg
      rw [backOnto_seg]
      exact h2

theorem linkAtEnd_assoc {n : Int} {s : Seg} (h : AssocOK n s) (k : Nat) : AssocOK n (s.linkAtEnd k) := by
  unfold Seg.linkAtEnd
  split
  · rename_i l _
    simp only []
    apply AssocOK.setLast
    have h1 : AssocOK n (s.upd l fun sl => sl.setNext (some k)) := h.updKeep _ _ (fun _ => ⟨rfl, rfl, rfl⟩)
    exact h1.updWith _ _ (fun a ha => (ha.setPrev _).setBefore _ (h1.bef l))
  · exact (h.setFirst _).setLast _

theorem linkBefore_assoc {n : Int} {s : Seg} (h : AssocOK n s) (k i : Nat) : AssocOK n (s.linkBefore k i) := by
  unfold Seg.linkBefore
  split
  · rename_i p _
    simp only []
    have h1 : AssocOK n (s.upd p fun sl => sl.setNext (some k)) := h.updKeep _ _ (fun _ => ⟨rfl, rfl, rfl⟩)
    exact h1.updWith _ _ (fun a ha => (ha.setPrev _).setBefore _ (h1.aft p))
  · simp only []
    apply AssocOK.setFirst
    exact h.updWith _ _ (fun a ha => (ha.setPrev _).setBefore _ (h.bef i))

theorem finishNew_assoc {n : Int} {s : Seg} (h : AssocOK n s) (k : Nat) (iss : Option Nat) : AssocOK n (s.finishNew k iss) := by
  unfold Seg.finishNew
  have h2 : AssocOK n (s.upd k fun sl => sl.setNext iss) := h.updKeep _ _ (fun _ => ⟨rfl, rfl, rfl⟩)
  simp only []
  split
  · rename_i i
    have h3 : AssocOK n ((s.upd k fun sl => sl.setNext (some i)).upd i fun sl => sl.setPrev (some k)) := h2.updKeep _ _ (fun _ => ⟨rfl, rfl, rfl⟩)
    exact h3.updWith _ _ (fun a ha => (ha.setOriginal _ (h3.orig i)).setAfter _ (h3.bef i))
  · split
    · rename_i p _
      exact h2.updWith _ _ (fun a ha => (ha.setOriginal _ (h2.orig p)).setAfter _ (h2.aft p))
    · exact h2.updWith _ _ (fun a ha => ha.setOriginal _ ⟨h2.2.1, h2.2.2⟩)

theorem linkNew_assoc {n : Int} {s : Seg} (h : AssocOK n s) (k : Nat) (iss : Option Nat) : AssocOK n (s.linkNew k iss) := by
  unfold Seg.linkNew
  apply finishNew_assoc
  split
  · exact linkAtEnd_assoc h k
  · exact linkBefore_assoc h k _

theorem insert_PA {n : Int} (c : Ctx) (h : PA n c) : OutcomeP (PA n) (opInsert c) := by
  unfold opInsert
  simp only []
  split
  · exact h
  · split
    · exact h
    · rename_i k seg heq
      have h1 := newSlot_assoc h heq
      have h2 := (linkNew_assoc h1 k (skipDeleted seg (seg.slots.size + 1) c.is)).addGlyphs 1
      split <;> exact h2

theorem slotat_seg (c : Ctx) (x : Int) : (slotat c x).2.seg = c.seg := by
  unfold slotat; simp only []; split <;> rfl
theorem slotat_is (c : Ctx) (x : Int) : (slotat c x).2.is = c.is := by
  unfold slotat; simp only []; split <;> rfl

theorem copySlot_assoc {n : Int} {s : Seg} (h : AssocOK n s) (i rf : Nat) : AssocOK n (s.copySlot i rf) := by
  unfold Seg.copySlot
  simp only []
  have h1 : AssocOK n (s.upd i fun si => si.copyFrom (s.get rf)) := h.upd _ _ (h.1 rf)
  split
  · split
    · exact h1.sameT (SameT.updParent _ _ _)
    · split
      · exact h1.sameT (child_same _ _ _)
      · exact h1.sameT (SameT.tr (child_same _ _ _) (SameT.updParent _ _ _))
  · exact h1

theorem unmark_assoc {n : Int} {s : Seg} (h : AssocOK n s) (i : Nat) : AssocOK n (s.unmark i) :=
  h.updKeep _ _ (fun _ => ⟨rfl, rfl, rfl⟩)

theorem putCopy_PA {n : Int} (c : Ctx) (r : Int) (h : PA n c) : OutcomeP (PA n) (opPutCopy c r) := by
  unfold opPutCopy
  split
  · exact h
  · split
    · exact h
    · simp only []
      have h' : AssocOK n (slotat c r).2.seg := by rw [slotat_seg]; exact h
      split
      · split
        · split
          · exact h'
          · exact unmark_assoc (copySlot_assoc h' _ _) _
        · exact unmark_assoc h' _
      · exact unmark_assoc h' _

/-- the accumulator of `assoc`: nothing seen yet, or both bounds are association values of slots -/
def AccOK (n : Int) (acc : Int × Int × Ctx) : Prop :=
  ((acc.1 = -1 ∧ acc.2.1 = -1) ∨ (0 ≤ acc.1 ∧ acc.1 < n ∧ 0 ≤ acc.2.1 ∧ acc.2.1 < n))

theorem assocStep_ok {n : Int} (c0 : Ctx) (h : AssocOK n c0.seg) (acc : Int × Int × Ctx) (sr : Int)
    (hs : acc.2.2.seg = c0.seg ∧ acc.2.2.is = c0.is) (ha : AccOK n acc) :
    ((assocStep acc sr).2.2.seg = c0.seg ∧ (assocStep acc sr).2.2.is = c0.is) ∧ AccOK n (assocStep acc sr) := by
  unfold assocStep
  simp only []
  have e1 : (slotat acc.2.2 sr).2.seg = c0.seg := by rw [slotat_seg]; exact hs.1
  have e2 : (slotat acc.2.2 sr).2.is = c0.is := by rw [slotat_is]; exact hs.2
  split
  · rename_i t _
    refine ⟨⟨e1, e2⟩, ?_⟩
    have hb := (h.1 t)
    rw [← e1] at hb
    unfold RangeOK at hb
    unfold AccOK at *
    simp only []
    rcases ha with ⟨a1, a2⟩ | ⟨a1, a2, a3, a4⟩
    · right
      rw [a1, a2]
      simp only [true_or, if_true]
      split <;> omega
    · right
      split <;> split <;> omega
  · exact ⟨⟨e1, e2⟩, ha⟩

theorem assocFold_ok {n : Int} (c0 : Ctx) (h : AssocOK n c0.seg) : ∀ (refs : List Int) (acc : Int × Int × Ctx),
    (acc.2.2.seg = c0.seg ∧ acc.2.2.is = c0.is) → AccOK n acc →
    ((refs.foldl assocStep acc).2.2.seg = c0.seg ∧ (refs.foldl assocStep acc).2.2.is = c0.is) ∧ AccOK n (refs.foldl assocStep acc) := by
  intro refs
  induction refs with
  | nil => intro acc hs ha; exact ⟨hs, ha⟩
  | cons r rest ih =>
    intro acc hs ha
    have := assocStep_ok c0 h acc r hs ha
    exact ih _ this.1 this.2

theorem assoc_PA {n : Int} (c : Ctx) (rs : List Int) (h : PA n c) : OutcomeP (PA n) (opAssoc c rs) := by
  unfold opAssoc
  simp only []
  have := assocFold_ok c h rs (-1, -1, c) ⟨rfl, rfl⟩ (.inl ⟨rfl, rfl⟩)
  obtain ⟨⟨e1, e2⟩, ha⟩ := this
  have h' : AssocOK n (rs.foldl assocStep (-1, -1, c)).2.2.seg := by rw [e1]; exact h
  split
  · rename_i hgt
    split
    · unfold AccOK at ha
      have hv : 0 ≤ (rs.foldl assocStep (-1, -1, c)).1 ∧ (rs.foldl assocStep (-1, -1, c)).1 < n ∧
          0 ≤ (rs.foldl assocStep (-1, -1, c)).2.1 ∧ (rs.foldl assocStep (-1, -1, c)).2.1 < n := by
        rcases ha with ⟨a1, _⟩ | a
        · omega
        · exact a
      exact h'.updWith _ _ (fun a ha => (ha.setBefore _ ⟨hv.1, hv.2.1⟩).setAfter _ ⟨hv.2.2.1, hv.2.2.2⟩)
    · trivial
  · exact h'

theorem tempCopy_PA {n : Int} (c : Ctx) (h : PA n c) : OutcomeP (PA n) (opTempCopy c) := by
  unfold opTempCopy
  split
  · rename_i k seg i heq _
    have h1 := newSlot_assoc h heq
    split
    · exact h1.upd _ _ (h1.1 i)
    · trivial
  · exact h

theorem attach_same (s : Seg) (i other : Nat) (ws : Bool := false) : SameT s (s.attach i other ws) := by
  unfold Seg.attach
  simp only []
  have hA := unparent_same s i
  have keepT : ∀ (t : Seg) (k : Nat) (f : Slot → Slot), (∀ a, TreeOnly a (f a)) → SameT t (t.upd k f) :=
    fun t k f hf => Same.upd TreeOnly.rfl' t k f hf
  split
  · split
    · split
      · exact SameT.tr hA (SameT.tr (child_same _ _ _) (SameT.tr (SameT.updParent _ _ _) (keepT _ _ _ (fun a => ⟨rfl, rfl, rfl, rfl, rfl, rfl, rfl, rfl, rfl⟩))))
      · exact SameT.tr hA (SameT.tr (child_same _ _ _) (SameT.tr (SameT.updParent _ _ _) (keepT _ _ _ (fun a => ⟨rfl, rfl, rfl, rfl, rfl, rfl, rfl, rfl, rfl⟩))))
    · exact hA
  · exact hA

theorem setAttTo_same (c : Ctx) (i sub : Nat) (v : Int) : SameT c.seg (setAttTo c i sub v).seg := by
  unfold setAttTo
  simp only []
  split
  · split
    · exact SameT.rfl' _
    · split
      · exact SameT.rfl' _
      · exact attach_same _ _ _ _
  · exact SameT.rfl' _

theorem attrSet_PA {n : Int} (c : Ctx) (a b : Nat) (v : Int) (h : PA n c) : OutcomeP (PA n) (opAttrSet c a b v) := by
  unfold opAttrSet
  split
  · trivial
  · split
    · exact AssocOK.sameT h (setAttTo_same _ _ _ _)
    · simp only []
      split <;> first | exact AssocOK.updKeep h _ _ (fun _ => ⟨rfl, rfl, rfl⟩) | exact h

theorem slotat_PA {n : Int} (c : Ctx) (x : Int) (h : PA n c) : PA n (slotat c x).2 := by
  show AssocOK n _; rw [slotat_seg]; exact h

theorem putGlyph_PA {n : Int} (c : Ctx) (k : Nat) (h : PA n c) : OutcomeP (PA n) (opPutGlyph c k) := by
  unfold opPutGlyph
  split
  · exact AssocOK.updKeep h _ _ (fun _ => ⟨rfl, rfl, rfl⟩)
  · trivial

theorem putSubs_PA {n : Int} (c : Ctx) (r : Int) (i o : Nat) (h : PA n c) : OutcomeP (PA n) (opPutSubs c r i o) := by
  unfold opPutSubs
  simp only []
  have h' := slotat_PA c r h
  split
  · split
    · exact AssocOK.updKeep h' _ _ (fun _ => ⟨rfl, rfl, rfl⟩)
    · trivial
  · exact h'

theorem ops_PA (n : Int) : OpsPreserve (PA n) :=
  ⟨next_PA, insert_PA, delete_PA, putCopy_PA, assoc_PA, tempCopy_PA, attrSet_PA, putGlyph_PA, putSubs_PA, slotat_PA⟩

theorem freeSlot_assoc {n : Int} (hn : 0 < n) {s : Seg} (h : AssocOK n s) (a : Nat) : AssocOK n (s.freeSlot a) := by
  unfold Seg.freeSlot
  simp only []
  have h1 : AssocOK n (s.dropEnds a) := by
    unfold Seg.dropEnds
    simp only []
    split <;> split <;> first | exact (h.setLast _).setFirst _ | exact h.setLast _ | exact h.setFirst _ | exact h
  have h2 : AssocOK n ((s.dropEnds a).unchild a) := by
    unfold Seg.unchild
    split
    · exact h1.sameT (removeChild_same _ _ _)
    · exact h1
  have h3 := h2.sameT (detachChildren_same (((s.dropEnds a).unchild a).slots.size + 1) _ a)
  unfold Seg.recycle
  exact (h3.upd a _ (rangeOK_default n hn)).congr (fun _ => rfl) rfl

theorem gcStep_assoc {n : Int} (hn : 0 < n) (acc : Ctx × Option Nat) (k : Nat) (h : PA n acc.1) : PA n (gcStep acc k).1 := by
  unfold gcStep
  split
  · simp only []
    split
    · exact freeSlot_assoc hn h _
    · exact h
  · exact h

theorem gc_assoc {n : Int} (hn : 0 < n) (c : Ctx) (a : Option Nat) (h : PA n c) : PA n (collectGarbage c a).1 := by
  rw [collectGarbage_fst]; unfold gcCells
  generalize (List.range (c.size - 1)) = ks
  have : ∀ (ks : List Nat) (acc : Ctx × Option Nat), PA n acc.1 → PA n (ks.foldl gcStep acc).1 := by
    intro ks
    induction ks with
    | nil => intro acc h; exact h
    | cons k rest ih => intro acc h; exact ih _ (gcStep_assoc hn acc k h)
  exact this ks (c, a) h

theorem finishAction_assoc {n : Int} (hn : 0 < n) (s : St) (dl : Bool) (h : AssocOK n s.ctx.seg)
    {r : Int} {st : Status} {so : Option Nat} {c : Ctx} (e : finishAction s dl = .ok (r, st, so, c)) : AssocOK n c.seg := by
  unfold finishAction at e
  simp only [] at e
  split at e
  · cases e
  · split at e
    · cases e
    · split at e
      · cases e; exact h
      · split at e
        · cases e; exact gc_assoc hn _ _ h
        · cases e; exact h

/-- **C05, rule actions.** Whatever action code a rule runs (any instruction list, any data bytes, any outcome – finished,
died, out-of-bounds slot reference), and after the garbage collection that follows it, every slot's `before`, `after` and
`original` is still a character index in `[0, n)`. -/
theorem doAction_assoc {n : Int} (hn : 0 < n) (is : List Instr) (dl : Bool) (mr : Nat) (data : List Nat) (ctx : Ctx)
    (h : AssocOK n ctx.seg) {r : Int} {st : Status} {so : Option Nat} {c : Ctx}
    (e : doAction is dl mr data ctx = .ok (r, st, so, c)) : AssocOK n c.seg := by
  unfold doAction at e
  simp only [] at e
  split at e
  · cases e; exact h
  · have hr := runLoop_preserves (PA n) (ops_PA n) is { vm := initVm data, ctx := enterCtx (startCtx ctx) } h
    split at e
    · cases e
    · rename_i s heq
      rw [heq] at hr
      exact finishAction_assoc hn s dl hr e
end GrVerif.Action

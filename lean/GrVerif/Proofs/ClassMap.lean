import GrVerif.Model.ClassMap
import GrVerif.Proofs.PassLoad
set_option linter.unusedVariables false
set_option linter.unusedSimpArgs false
/-!
# The class map: loading is total and in bounds, and an accepted map makes both look-ups safe   (C01, C02)
-/
namespace GrVerif.Loader
open GrVerif.Gen.Err

theorem rdT_ok (b : List Nat) (wide : Bool) (i : Nat) (h : i + (if wide then 4 else 2) ≤ b.length) : ∃ v, rdT b wide i = .ok v := by
  unfold rdT
  cases wide with
  | true => exact be32_ok b i (by simpa using h)
  | false => exact be16_ok b i (by simpa using h)

theorem readOffsets_ok (b : List Nat) (wide : Bool) (clsOff maxOff : Nat) : ∀ (n p : Nat), p + (if wide then 4 else 2) * n ≤ b.length →
    ∃ r, readOffsets b wide clsOff maxOff n p = .ok r ∧ ∀ os, r = some os → os.length = n ∧ ∀ o ∈ os, o ≤ maxOff := by
  intro n
  induction n with
  | zero => intro p _; exact ⟨_, rfl, fun os h => by cases h; exact ⟨rfl, fun o ho => by cases ho⟩⟩
  | succ n ih =>
    intro p h
    have hsz : (if wide then 4 else 2) * (n + 1) = (if wide then 4 else 2) * n + (if wide then 4 else 2) := by rw [Nat.mul_succ]
    obtain ⟨x, hx⟩ := rdT_ok b wide p (by omega)
    unfold readOffsets
    simp only [bind, Except.bind, pure, Except.pure, hx]
    by_cases c : relOff x clsOff > maxOff
    · rw [if_pos c]; exact ⟨_, rfl, fun os h => by cases h⟩
    rw [if_neg c]
    obtain ⟨r, hr, hp⟩ := ih (p + (if wide then 4 else 2)) (by omega)
    rw [hr]
    cases r with
    | none => exact ⟨_, rfl, fun os h => by cases h⟩
    | some os =>
      obtain ⟨h1, h2⟩ := hp os rfl
      refine ⟨_, rfl, fun os' h' => ?_⟩
      simp only [Option.some.injEq] at h'
      subst h'
      refine ⟨by simp [h1], fun o ho => ?_⟩
      rcases List.mem_cons.mp ho with rfl | ho
      · omega
      · exact h2 o ho

/-- what the loader establishes about one non-linear class -/
def LookupOK (data : List Nat) (o o1 : Nat) : Prop :=
  o + 4 ≤ data.length ∧ 1 ≤ data.getD o 0 ∧ data.getD o 0 * 2 + o + 4 ≤ data.length ∧ ((o1 + 4294967296 - o) % 4294967296) % 2 = 0

theorem lookupBad_ok (data : List Nat) (o o1 : Nat) :
    ∃ r, lookupBad data data.length o o1 = .ok r ∧ (r = none → LookupOK data o o1) := by
  unfold lookupBad
  simp only [bind, Except.bind, pure, Except.pure]
  by_cases c1 : o + 4 > data.length
  · rw [if_pos c1]; exact ⟨_, rfl, fun h => by cases h⟩
  rw [if_neg c1]
  rw [List.getElem?_eq_getElem (show o < data.length by omega), List.getElem?_eq_getElem (show o + 1 < data.length by omega),
    List.getElem?_eq_getElem (show o + 3 < data.length by omega)]
  simp only []
  by_cases c2 : data[o]'(by omega) = 0 ∨ data[o]'(by omega) * 2 + o + 4 > data.length ∨ data[o + 3]'(by omega) + data[o + 1]'(by omega) ≠ data[o]'(by omega)
  · rw [if_pos c2]; exact ⟨_, rfl, fun h => by cases h⟩
  rw [if_neg c2]
  by_cases c3 : ((o1 + 4294967296 - o) % 4294967296) % 2 ≠ 0
  · rw [if_pos c3]; exact ⟨_, rfl, fun h => by cases h⟩
  rw [if_neg c3]
  refine ⟨_, rfl, fun _ => ?_⟩
  have hg : data.getD o 0 = data[o]'(by omega) := by simp [List.getD_eq_getElem?_getD, List.getElem?_eq_getElem (show o < data.length by omega)]
  unfold LookupOK
  rw [hg]
  refine ⟨by omega, ?_, ?_, ?_⟩
  · apply Classical.byContradiction; intro hn; exact c2 (.inl (by omega))
  · apply Classical.byContradiction; intro hn; exact c2 (.inr (.inl (by omega)))
  · apply Classical.byContradiction; intro hn; exact c3 hn

/-- every consecutive pair of the list satisfies `R` -/
def PairsAll (R : Nat → Nat → Prop) : List Nat → Prop
  | a :: b :: rest => R a b ∧ PairsAll R (b :: rest)
  | _ => True

theorem checkLookups_ok (data : List Nat) : ∀ (os : List Nat),
    ∃ r, checkLookups data data.length os = .ok r ∧ (r = none → PairsAll (LookupOK data) os) := by
  intro os
  induction os with
  | nil => exact ⟨_, rfl, fun _ => trivial⟩
  | cons o rest ih =>
    cases rest with
    | nil => exact ⟨_, rfl, fun _ => trivial⟩
    | cons o1 rest' =>
      unfold checkLookups
      simp only [bind, Except.bind, pure, Except.pure]
      obtain ⟨r1, h1, p1⟩ := lookupBad_ok data o o1
      rw [h1]
      cases r1 with
      | some e => exact ⟨_, rfl, fun h => by cases h⟩
      | none =>
        simp only []
        obtain ⟨r2, h2, p2⟩ := ih
        exact ⟨r2, h2, fun h => ⟨p1 rfl, p2 h⟩⟩

/-- the shape of a class map the loader accepted -/
structure ClassMapOK (m : ClassMap) : Prop where
  counts : m.nLinear ≤ m.nClass ∧ m.offsets.length = m.nClass + 1
  inData : ∀ o ∈ m.offsets, o ≤ m.data.length
  linear : PairsAll (fun a b => a ≤ b) (m.offsets.take (m.nLinear + 1))
  lookups : PairsAll (LookupOK m.data) (m.offsets.drop m.nLinear)
  small : m.data.length < 2147483648

theorem pairsAll_of_not_any : ∀ (l : List Nat), ¬ ((l.zip (l.drop 1)).any (fun (r : Nat × Nat) => decide (r.1 > r.2))) = true →
    PairsAll (fun a b => a ≤ b) l := by
  intro l
  induction l with
  | nil => intro _; trivial
  | cons a rest ih =>
    intro h
    cases rest with
    | nil => trivial
    | cons b rest' =>
      simp only [List.drop_succ_cons, List.drop_zero, List.zip_cons_cons, List.any_cons, Bool.or_eq_true, decide_eq_true_eq, not_or] at h
      refine ⟨by omega, ih ?_⟩
      simpa using h.2

theorem finishClassMap_total (b : List Nat) (nClass nLinear clsOff maxOff : Nat) (offsets : List Nat) (hlin : nLinear ≤ nClass)
    (hfit : clsOff + 2 * maxOff ≤ b.length) (ol : offsets.length = nClass + 1) (ob : ∀ o ∈ offsets, o ≤ maxOff) :
    ∃ r, finishClassMap b nClass nLinear clsOff maxOff offsets = .ok r ∧ ∀ m, r = .ok m → ClassMapOK m := by
  unfold finishClassMap
  simp only [bind, Except.bind, pure, Except.pure]
  have bail : ∀ (e : Nat), ∃ r, (Except.ok (Except.error e) : Except Fault (Except Nat ClassMap)) = .ok r ∧ ∀ m, r = .ok m → ClassMapOK m :=
    fun e => ⟨_, rfl, fun L h => by cases h⟩
  by_cases h5 : maxOff ≥ 2147483648 ∨ maxOff < nLinear + (nClass - nLinear) * 6
  · rw [if_pos h5]; exact bail _
  rw [if_neg h5]
  by_cases h6 : (((offsets.take (nLinear + 1)).zip ((offsets.take (nLinear + 1)).drop 1)).any fun (r : Nat × Nat) => decide (r.1 > r.2)) = true
  · rw [if_pos h6]; exact bail _
  rw [if_neg h6]
  obtain ⟨data, e6, dl, _⟩ := readU16s_ok b maxOff clsOff hfit
  rw [e6]; simp only []
  obtain ⟨rl, e7, p7⟩ := checkLookups_ok data (offsets.drop nLinear)
  rw [dl] at e7
  rw [e7]
  cases rl with
  | some e => exact bail _
  | none =>
    simp only []
    refine ⟨_, rfl, fun m hm => ?_⟩
    simp only [Except.ok.injEq] at hm
    subst hm
    exact ⟨⟨hlin, ol⟩, fun o ho => by show o ≤ data.length; rw [dl]; exact ob o ho, pairsAll_of_not_any _ h6, p7 rfl, by show data.length < _; rw [dl]; omega⟩

/-- **`Silf::readClassMap`: total and in bounds for every byte string, and an accepted map has the shape the look-ups need** -/
theorem readClassMap_total (b : List Nat) (wide : Bool) : ∃ r, readClassMap b wide = .ok r ∧ ∀ m, r = .ok m → ClassMapOK m := by
  unfold readClassMap
  simp only [bind, Except.bind, pure, Except.pure]
  have bail : ∀ (e : Nat), ∃ r, (Except.ok (Except.error e) : Except Fault (Except Nat ClassMap)) = .ok r ∧ ∀ m, r = .ok m → ClassMapOK m :=
    fun e => ⟨_, rfl, fun L h => by cases h⟩
  by_cases h0 : b.length < 4
  · rw [if_pos h0]; exact bail _
  rw [if_neg h0]
  obtain ⟨nClass, e1⟩ := be16_ok b 0 (by omega)
  obtain ⟨nLinear, e2⟩ := be16_ok b 2 (by omega)
  rw [e1, e2]; simp only []
  by_cases h1 : nLinear > nClass
  · rw [if_pos h1]; exact bail _
  rw [if_neg h1]
  generalize hsz : (if wide = true then 4 else 2) = sz
  have hszv : sz = 4 ∨ sz = 2 := by cases wide <;> simp at hsz <;> omega
  by_cases h2 : (nClass + 1) * sz > b.length - 4
  · rw [if_pos h2]; exact bail _
  rw [if_neg h2]
  have hfit : 4 + sz * (nClass + 1) ≤ b.length := by rw [Nat.mul_comm]; omega
  obtain ⟨lastRaw, e3⟩ := rdT_ok b wide (4 + sz * nClass) (by rw [hsz]; rw [Nat.mul_succ] at hfit; omega)
  rw [e3]; simp only []
  obtain ⟨firstRaw, e4⟩ := rdT_ok b wide 4 (by rw [hsz]; rw [Nat.mul_succ] at hfit; omega)
  rw [e4]; simp only []
  by_cases h3 : firstRaw ≠ 4 + sz * (nClass + 1)
  · rw [if_pos h3]; exact bail _
  rw [if_neg h3]
  generalize hmo : relOff lastRaw (4 + sz * (nClass + 1)) = maxOff
  by_cases h4 : maxOff > (b.length - (4 + sz * (nClass + 1))) / 2
  · rw [if_pos h4]; exact bail _
  rw [if_neg h4]
  obtain ⟨ro, e5, p5⟩ := readOffsets_ok b wide (4 + sz * (nClass + 1)) maxOff (nClass + 1) 4 (by rw [hsz]; omega)
  rw [e5]
  cases ro with
  | none => exact bail _
  | some offsets =>
    simp only []
    obtain ⟨ol, ob⟩ := p5 offsets rfl
    exact finishClassMap_total b nClass nLinear _ maxOff offsets (by omega) (by omega) ol ob

/-! ## the look-ups on an accepted map -/

theorem pairsAll_get {R : Nat → Nat → Prop} : ∀ (l : List Nat), PairsAll R l → ∀ i, i + 1 < l.length → R (l.getD i 0) (l.getD (i + 1) 0) := by
  intro l
  induction l with
  | nil => intro _ i hi; simp at hi
  | cons a rest ih =>
    intro h i hi
    cases rest with
    | nil => simp at hi
    | cons b rest' =>
      cases i with
      | zero => exact h.1
      | succ i =>
        have := ih h.2 i (by simpa using hi)
        simpa using this

theorem dat_ok (m : ClassMap) (i : Nat) (h : i < m.data.length) : ∃ v, dat? m i = .ok v ∧ v = m.data.getD i 0 := by
  unfold dat?
  rw [List.getElem?_eq_getElem h]
  exact ⟨_, rfl, by simp [List.getD_eq_getElem?_getD, List.getElem?_eq_getElem h]⟩

theorem off_ok (m : ClassMap) (i : Nat) (h : i < m.offsets.length) : off? m i = .ok (m.offsets.getD i 0) := by
  unfold off?
  rw [List.getElem?_eq_getElem h]
  simp [List.getD_eq_getElem?_getD, List.getElem?_eq_getElem h]

theorem scanPairs_ok (m : ClassMap) (index stop : Nat) (hs : stop ≤ m.data.length) : ∀ (fuel i : Nat), i % 2 = stop % 2 →
    ∃ v, scanPairs m index fuel i stop = .ok v := by
  intro fuel
  induction fuel with
  | zero => intro i _; exact ⟨_, rfl⟩
  | succ f ih =>
    intro i hi
    unfold scanPairs
    by_cases c : i < stop
    · rw [if_pos c]
      obtain ⟨v, hv, _⟩ := dat_ok m (i + 1) (by omega)
      simp only [bind, Except.bind, hv]
      by_cases c2 : v = index
      · rw [if_pos c2]; obtain ⟨w, hw, _⟩ := dat_ok m i (by omega); exact ⟨w, hw⟩
      · rw [if_neg c2]; exact ih (i + 2) (by omega)
    · rw [if_neg c]; exact ⟨_, rfl⟩

theorem scanLinear_ok (m : ClassMap) (gid base n : Nat) (hs : base + n ≤ m.data.length) : ∀ (fuel i : Nat),
    ∃ v, scanLinear m gid base fuel i n = .ok v := by
  intro fuel
  induction fuel with
  | zero => intro i; exact ⟨_, rfl⟩
  | succ f ih =>
    intro i
    unfold scanLinear
    by_cases c : i < n
    · rw [if_pos c]
      obtain ⟨v, hv, _⟩ := dat_ok m (base + i) (by omega)
      simp only [bind, Except.bind, pure, Except.pure, hv]
      by_cases c2 : v = gid
      · rw [if_pos c2]; exact ⟨_, rfl⟩
      · rw [if_neg c2]; exact ih (i + 1)
    · rw [if_neg c]; exact ⟨_, rfl⟩

/-- the binary search stays among the pairs of the class: `lo` … `hi` -/
theorem bsearch_ok (m : ClassMap) (gid lo hi : Nat) (hhi : hi ≤ m.data.length) : ∀ (fuel mn mx : Nat),
    lo ≤ mn → mn ≤ mx → mx ≤ hi → mn + 2 ≤ hi → mn % 2 = lo % 2 → mx % 2 = lo % 2 →
    ∃ r, bsearch m gid fuel mn mx = .ok r ∧ lo ≤ r ∧ r + 2 ≤ hi := by
  intro fuel
  induction fuel with
  | zero => intro mn mx h1 _ _ h4 _ _; exact ⟨mn, rfl, h1, h4⟩
  | succ f ih =>
    intro mn mx h1 h2 h3 h4 h5 h6
    unfold bsearch
    simp only [bind, Except.bind, pure, Except.pure]
    have hp : mn + (mx - mn) / 2 / 2 * 2 + 2 ≤ hi := by omega
    obtain ⟨v, hv, _⟩ := dat_ok m (mn + (mx - mn) / 2 / 2 * 2) (by omega)
    rw [hv]
    simp only []
    by_cases c : v > gid
    · rw [if_pos c]
      simp only []
      by_cases c2 : mn + (mx - mn) / 2 / 2 * 2 - mn > 2
      · rw [if_pos c2]; exact ih mn _ h1 (by omega) (by omega) h4 h5 (by omega)
      · rw [if_neg c2]; exact ⟨mn, rfl, h1, h4⟩
    · rw [if_neg c]
      simp only []
      by_cases c2 : mx - (mn + (mx - mn) / 2 / 2 * 2) > 2
      · rw [if_pos c2]; exact ih _ mx (by omega) (by omega) h3 hp (by omega) h6
      · rw [if_neg c2]; exact ⟨_, rfl, by omega, hp⟩

theorem parity_of_wrap (o o1 : Nat) (h : ((o1 + 4294967296 - o) % 4294967296) % 2 = 0) (ho : o ≤ 4294967296) : o1 % 2 = o % 2 := by omega

/-- **`Silf::getClassGlyph` on an accepted class map reads only inside `m_classOffsets` and `m_classData`** – for every class the
code loader lets through (`cid < numClasses`) and every index -/
theorem getClassGlyph_in_bounds (m : ClassMap) (h : ClassMapOK m) (cid index : Nat) (hc : cid < m.nClass) :
    ∃ v, getClassGlyph m cid index = .ok v := by
  unfold getClassGlyph
  simp only [bind, Except.bind, pure, Except.pure]
  rw [if_neg (by omega)]
  have hl := h.counts.2
  rw [off_ok m cid (by omega), off_ok m (cid + 1) (by omega)]
  simp only []
  have hloc : m.offsets.getD cid 0 ≤ m.data.length := h.inData _ (by
    rw [List.getD_eq_getElem?_getD, List.getElem?_eq_getElem (show cid < m.offsets.length by omega)]; exact List.getElem_mem _)
  have hnxt : m.offsets.getD (cid + 1) 0 ≤ m.data.length := h.inData _ (by
    rw [List.getD_eq_getElem?_getD, List.getElem?_eq_getElem (show cid + 1 < m.offsets.length by omega)]; exact List.getElem_mem _)
  have hsm := h.small
  by_cases cl : cid < m.nLinear
  · rw [if_pos cl]
    have hmono := pairsAll_get _ h.linear cid (by simp; omega)
    have e1 : (m.offsets.take (m.nLinear + 1)).getD cid 0 = m.offsets.getD cid 0 := by
      simp [List.getD_eq_getElem?_getD, List.getElem?_take, show cid < m.nLinear + 1 by omega]
    have e2 : (m.offsets.take (m.nLinear + 1)).getD (cid + 1) 0 = m.offsets.getD (cid + 1) 0 := by
      simp [List.getD_eq_getElem?_getD, List.getElem?_take, show cid + 1 < m.nLinear + 1 by omega]
    rw [e1, e2] at hmono
    by_cases ci : index < (m.offsets.getD (cid + 1) 0 + 4294967296 - m.offsets.getD cid 0) % 4294967296
    · rw [if_pos ci]
      obtain ⟨v, hv, _⟩ := dat_ok m (index + m.offsets.getD cid 0) (by omega)
      exact ⟨v, hv⟩
    · rw [if_neg ci]; exact ⟨_, rfl⟩
  · rw [if_neg cl]
    have hlk := pairsAll_get _ h.lookups (cid - m.nLinear) (by simp; omega)
    have e1 : (m.offsets.drop m.nLinear).getD (cid - m.nLinear) 0 = m.offsets.getD cid 0 := by
      simp [List.getD_eq_getElem?_getD, List.getElem?_drop, show m.nLinear + (cid - m.nLinear) = cid by omega]
    have e2 : (m.offsets.drop m.nLinear).getD (cid - m.nLinear + 1) 0 = m.offsets.getD (cid + 1) 0 := by
      simp [List.getD_eq_getElem?_getD, List.getElem?_drop, show m.nLinear + (cid - m.nLinear + 1) = cid + 1 by omega]
    rw [e1, e2] at hlk
    have hpar := parity_of_wrap _ _ hlk.2.2.2 (by omega)
    exact scanPairs_ok m index _ hnxt _ (m.offsets.getD cid 0 + 4) (by omega)

/-- **`Silf::findClassIndex` on an accepted class map reads only inside `m_classOffsets` and `m_classData`** -/
theorem findClassIndex_in_bounds (m : ClassMap) (h : ClassMapOK m) (cid gid : Nat) (hc : cid < m.nClass) :
    ∃ v, findClassIndex m cid gid = .ok v := by
  unfold findClassIndex
  simp only [bind, Except.bind, pure, Except.pure]
  rw [if_neg (by omega)]
  have hl := h.counts.2
  rw [off_ok m cid (by omega)]
  simp only []
  have hloc : m.offsets.getD cid 0 ≤ m.data.length := h.inData _ (by
    rw [List.getD_eq_getElem?_getD, List.getElem?_eq_getElem (show cid < m.offsets.length by omega)]; exact List.getElem_mem _)
  have hnxt : m.offsets.getD (cid + 1) 0 ≤ m.data.length := h.inData _ (by
    rw [List.getD_eq_getElem?_getD, List.getElem?_eq_getElem (show cid + 1 < m.offsets.length by omega)]; exact List.getElem_mem _)
  have hsm := h.small
  by_cases cl : cid < m.nLinear
  · rw [if_pos cl, off_ok m (cid + 1) (by omega)]
    simp only []
    have hmono := pairsAll_get _ h.linear cid (by simp; omega)
    have e1 : (m.offsets.take (m.nLinear + 1)).getD cid 0 = m.offsets.getD cid 0 := by
      simp [List.getD_eq_getElem?_getD, List.getElem?_take, show cid < m.nLinear + 1 by omega]
    have e2 : (m.offsets.take (m.nLinear + 1)).getD (cid + 1) 0 = m.offsets.getD (cid + 1) 0 := by
      simp [List.getD_eq_getElem?_getD, List.getElem?_take, show cid + 1 < m.nLinear + 1 by omega]
    rw [e1, e2] at hmono
    exact scanLinear_ok m gid _ _ (by omega) _ 0
  · rw [if_neg cl]
    have hlk := pairsAll_get _ h.lookups (cid - m.nLinear) (by simp; omega)
    have e1 : (m.offsets.drop m.nLinear).getD (cid - m.nLinear) 0 = m.offsets.getD cid 0 := by
      simp [List.getD_eq_getElem?_getD, List.getElem?_drop, show m.nLinear + (cid - m.nLinear) = cid by omega]
    rw [e1] at hlk
    obtain ⟨n, hn, hnv⟩ := dat_ok m (m.offsets.getD cid 0) (by have := hlk.1; omega)
    rw [hn]
    simp only []
    unfold LookupOK at hlk
    rw [← hnv] at hlk
    obtain ⟨r, hr, r1, r2⟩ := bsearch_ok m gid (m.offsets.getD cid 0 + 4) (m.offsets.getD cid 0 + 4 + n * 2) (by have := hlk.2.2.1; omega)
      (n + 1) (m.offsets.getD cid 0 + 4) (m.offsets.getD cid 0 + 4 + n * 2) (Nat.le_refl _) (by omega) (Nat.le_refl _) (by have := hlk.2.1; omega) rfl (by omega)
    rw [hr]
    simp only []
    obtain ⟨k, hk, _⟩ := dat_ok m r (by have := hlk.2.2.1; omega)
    rw [hk]
    simp only []
    by_cases ck : k = gid
    · rw [if_pos ck]
      obtain ⟨w, hw, _⟩ := dat_ok m (r + 1) (by have := hlk.2.2.1; omega)
      exact ⟨w, hw⟩
    · rw [if_neg ck]; exact ⟨_, rfl⟩

end GrVerif.Loader

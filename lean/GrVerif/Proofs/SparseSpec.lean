import GrVerif.Proofs.GlyphLoad
set_option linter.unusedVariables false
set_option linter.unusedSimpArgs false
/-!
# `sparse` answers what it was built from   (C01 → C06/C08)

`sparse_get_spec`: for every sequence of (key, value) pairs whose non-zero values have strictly increasing keys (the only sequences the
constructor accepts) and whose allocation is addressable with 16-bit offsets, `operator[]` on the result answers, for every key, the
value paired with it – 0 for a key that is absent or was given the value 0.
-/
namespace GrVerif.Loader

/-- the value the pairs give key `k` -/
def lookupPairs (ps : List (Nat × Nat)) (k : Nat) : Nat :=
  match ps.find? (fun p => p.1 = k ∧ p.2 ≠ 0) with
  | some p => p.2
  | none => 0

/-- non-zero values with strictly increasing keys above `lk` -/
def IncFrom : Int → List (Nat × Nat) → Prop
  | _, [] => True
  | lk, p :: rest => lk < p.1 ∧ p.2 ≠ 0 ∧ IncFrom p.1 rest

/-! ### bit lists -/

theorem getD_set_self (l : List Bool) (i : Nat) (h : i < l.length) : (l.set i true).getD i false = true := by
  induction l generalizing i with
  | nil => simp at h
  | cons b rest ih =>
    cases i with
    | zero => simp
    | succ i => simp only [List.set_cons_succ, List.getD_cons_succ]; exact ih i (by simpa using h)

theorem getD_set_ne (l : List Bool) (i j : Nat) (h : i ≠ j) : (l.set i true).getD j false = l.getD j false := by
  induction l generalizing i j with
  | nil => simp
  | cons b rest ih =>
    cases i with
    | zero =>
      cases j with
      | zero => exact absurd rfl h
      | succ j => simp
    | succ i =>
      cases j with
      | zero => simp
      | succ j => simp only [List.set_cons_succ, List.getD_cons_succ]; exact ih i j (by omega)

theorem take_set_ge (l : List Bool) (i r : Nat) (h : r ≤ i) : (l.set i true).take r = l.take r := by
  induction l generalizing i r with
  | nil => simp
  | cons b rest ih =>
    cases r with
    | zero => simp
    | succ r =>
      cases i with
      | zero => omega
      | succ i => simp only [List.set_cons_succ, List.take_succ_cons]; rw [ih i r (by omega)]

theorem count_set_false (l : List Bool) (i : Nat) (h : i < l.length) (hf : l.getD i false = false) : (l.set i true).count true = l.count true + 1 := by
  induction l generalizing i with
  | nil => simp at h
  | cons b rest ih =>
    cases i with
    | zero =>
      simp only [List.getD_cons_zero] at hf
      subst hf
      simp [List.count_cons]
    | succ i =>
      simp only [List.getD_cons_succ] at hf
      have := ih i (by simpa using h) hf
      simp only [List.set_cons_succ, List.count_cons, this]
      omega

/-- all set bits below `r`: the count of the first `r` is the count of all -/
theorem count_take_all (l : List Bool) (r : Nat) (h : ∀ j, l.getD j false = true → j < r) : (l.take r).count true = l.count true := by
  induction l generalizing r with
  | nil => simp
  | cons b rest ih =>
    cases r with
    | zero =>
      have hb : b = false := by
        cases b with
        | false => rfl
        | true => have := h 0 (by simp); omega
      subst hb
      have hrest := ih 0 (fun j hj => by have := h (j + 1) (by simpa using hj); omega)
      simp only [List.take_zero, List.count_nil] at hrest ⊢
      simp [List.count_cons]
      omega
    | succ r =>
      have := ih r (fun j hj => by have := h (j + 1) (by simpa using hj); omega)
      simp only [List.take_succ_cons, List.count_cons, this]

theorem getD_of_count_zero (l : List Bool) (h : l.count true = 0) (j : Nat) : l.getD j false = false := by
  induction l generalizing j with
  | nil => simp
  | cons b rest ih =>
    cases b with
    | true => simp [List.count_cons] at h
    | false =>
      simp only [List.count_cons] at h
      cases j with
      | zero => simp
      | succ j => simp only [List.getD_cons_succ]; exact ih (by simpa using h) j

theorem count_zero_of_all_false (l : List Bool) (h : ∀ r, l.getD r false = false) : l.count true = 0 := by
  induction l with
  | nil => rfl
  | cons b rest ih =>
    have hb : b = false := by have := h 0; simpa using this
    subst hb
    have := ih (fun r => by have := h (r + 1); simpa using this)
    simp [List.count_cons, this]

/-! ### the second pass, with its meaning -/

/-- the state of the second pass after the pairs `Q` (non-zero values, increasing keys, the last one `lk`) -/
structure Spec (N V : Nat) (s : Sparse) (ci vi : Nat) (lk : Int) (Q : List (Nat × Nat)) : Prop where
  n : s.nchunks = N
  cl : s.chunks.length = N
  vl : s.values.length = V
  bl : ∀ c ∈ s.chunks, c.bits.length = 48
  fresh : ∀ j, ci < j → ∀ c, s.chunks[j]? = some c → ∀ r, c.bits.getD r false = false
  exact : ∀ c, s.chunks[ci]? = some c → c.offset + c.bits.count true = vi
  below : ∀ c, s.chunks[ci]? = some c → ∀ r, c.bits.getD r false = true → ((ci * 48 + r : Nat) : Int) ≤ lk
  base : chunkCells * N ≤ vi
  spec : ∀ p ∈ Q, ∃ c, s.chunks[p.1 / 48]? = some c ∧ c.bits.getD (p.1 % 48) false = true ∧
           chunkCells * N ≤ c.offset + (c.bits.take (p.1 % 48)).count true ∧
           c.offset + (c.bits.take (p.1 % 48)).count true < vi ∧
           s.values[c.offset + (c.bits.take (p.1 % 48)).count true - chunkCells * N]? = some p.2
  nosp : ∀ j c r, s.chunks[j]? = some c → r < 48 → c.bits.getD r false = true → ∃ v, (j * 48 + r, v) ∈ Q
  qle : ∀ p ∈ Q, (p.1 : Int) ≤ lk ∧ p.1 / 48 ≤ ci

/-- entering the chunk of the next key -/
theorem Spec.enter {N V : Nat} {s : Sparse} {ci vi : Nat} {lk : Int} {Q : List (Nat × Nat)} (h : Spec N V s ci vi lk Q)
    (ci' : Nat) (hlt : ci < ci') (hN : ci' < N) (hvi : vi < 65536) :
    ∃ c, s.chunks[ci']? = some c ∧
      Spec N V { s with chunks := s.chunks.set ci' { c with offset := vi % 65536 } } ci' vi lk Q := by
  obtain ⟨c, hc⟩ : ∃ c, s.chunks[ci']? = some c := ⟨_, List.getElem?_eq_getElem (by rw [h.cl]; exact hN)⟩
  have hfr := h.fresh ci' hlt c hc
  have hcnt := count_zero_of_all_false c.bits hfr
  have hmod : vi % 65536 = vi := Nat.mod_eq_of_lt hvi
  refine ⟨c, hc, ⟨h.n, by simp only [List.length_set]; exact h.cl, h.vl, ?_, ?_, ?_, ?_, h.base, ?_, ?_, ?_⟩⟩
  · intro c' hc'
    rcases mem_set_cases _ _ _ _ hc' with rfl | hm
    · exact h.bl c (List.mem_of_getElem? hc)
    · exact h.bl c' hm
  · intro j hj c' hc'
    simp only [] at hc'
    rw [List.getElem?_set_ne (by omega)] at hc'
    exact h.fresh j (by omega) c' hc'
  · intro c' hc'
    simp only [] at hc'
    rw [List.getElem?_set_self (by rw [h.cl]; exact hN)] at hc'
    cases hc'
    simp only [hcnt, hmod]; omega
  · intro c' hc' r hr
    simp only [] at hc'
    rw [List.getElem?_set_self (by rw [h.cl]; exact hN)] at hc'
    cases hc'
    simp only [] at hr
    rw [hfr r] at hr; cases hr
  · intro p hp
    obtain ⟨c0, hc0, hb, h1, h2, h3⟩ := h.spec p hp
    have hq := (h.qle p hp).2
    refine ⟨c0, ?_, hb, h1, h2, h3⟩
    simp only []
    rw [List.getElem?_set_ne (by omega)]
    exact hc0
  · intro j c' r hc' hr hb
    simp only [] at hc'
    by_cases hj : j = ci'
    · subst hj
      rw [List.getElem?_set_self (by rw [h.cl]; exact hN)] at hc'
      cases hc'
      simp only [] at hb
      rw [hfr r] at hb; cases hb
    · rw [List.getElem?_set_ne (by omega)] at hc'
      exact h.nosp j c' r hc' hr hb
  · intro p hp
    have := h.qle p hp
    exact ⟨this.1, by omega⟩

/-- storing the next key's bit and value in the current chunk -/
theorem Spec.add {N V : Nat} {s : Sparse} {ci vi : Nat} {lk : Int} {Q : List (Nat × Nat)} (h : Spec N V s ci vi lk Q)
    (k v : Nat) (hk : lk < k) (hci : k / 48 = ci) (hN : ci < N) (hroom : vi - chunkCells * N < V) :
    ∃ c, s.chunks[ci]? = some c ∧
      Spec N V { s with chunks := s.chunks.set ci { c with bits := c.bits.set (k % 48) true }, values := s.values.set (vi - chunkCells * N) v }
        ci (vi + 1) k (Q ++ [(k, v)]) := by
  obtain ⟨c, hc⟩ : ∃ c, s.chunks[ci]? = some c := ⟨_, List.getElem?_eq_getElem (by rw [h.cl]; exact hN)⟩
  have hlen := h.bl c (List.mem_of_getElem? hc)
  have hr : k % 48 < c.bits.length := by rw [hlen]; omega
  have hkeq : ci * 48 + k % 48 = k := by omega
  have hbelow : ∀ r0, c.bits.getD r0 false = true → r0 < k % 48 := by
    intro r0 hr0
    have := h.below c hc r0 hr0
    omega
  have hfalse : c.bits.getD (k % 48) false = false := by
    cases hb : c.bits.getD (k % 48) false with
    | false => rfl
    | true => have := hbelow _ hb; omega
  have hcount := count_take_all c.bits (k % 48) hbelow
  have hexact := h.exact c hc
  have hbase := h.base
  refine ⟨c, hc, ⟨h.n, by simp only [List.length_set]; exact h.cl, by simp only [List.length_set]; exact h.vl, ?_, ?_, ?_, ?_, by omega, ?_, ?_, ?_⟩⟩
  · intro c' hc'
    simp only [] at hc'
    rcases mem_set_cases _ _ _ _ hc' with rfl | hm
    · simp only [List.length_set]; exact hlen
    · exact h.bl c' hm
  · intro j hj c' hc'
    simp only [] at hc'
    rw [List.getElem?_set_ne (by omega)] at hc'
    exact h.fresh j hj c' hc'
  · intro c' hc'
    simp only [] at hc'
    rw [List.getElem?_set_self (by rw [h.cl]; exact hN)] at hc'
    cases hc'
    simp only []
    rw [count_set_false c.bits (k % 48) hr hfalse]; omega
  · intro c' hc' r0 hr0
    simp only [] at hc'
    rw [List.getElem?_set_self (by rw [h.cl]; exact hN)] at hc'
    cases hc'
    simp only [] at hr0
    by_cases he : k % 48 = r0
    · subst he; rw [hkeq]; exact Int.le_refl _
    · rw [getD_set_ne c.bits _ _ he] at hr0
      have := h.below c hc r0 hr0
      omega
  · intro p hp
    rcases List.mem_append.mp hp with hp | hp
    · obtain ⟨c0, hc0, hb, h1, h2, h3⟩ := h.spec p hp
      have hq := h.qle p hp
      have hval : (s.values.set (vi - chunkCells * N) v)[c0.offset + (c0.bits.take (p.1 % 48)).count true - chunkCells * N]? = some p.2 := by
        rw [List.getElem?_set_ne (by omega)]; exact h3
      by_cases hsame : p.1 / 48 = ci
      · have hcc : c0 = c := by rw [hsame] at hc0; rw [hc0] at hc; cases hc; rfl
        subst hcc
        have hpr : p.1 % 48 < k % 48 := by omega
        refine ⟨{ c0 with bits := c0.bits.set (k % 48) true }, ?_, ?_, ?_, ?_, ?_⟩
        · simp only []; rw [hsame, List.getElem?_set_self (by rw [h.cl]; exact hN)]
        · simp only []; rw [getD_set_ne c0.bits _ _ (by omega)]; exact hb
        · simp only []; rw [take_set_ge c0.bits _ _ (by omega)]; exact h1
        · simp only []; rw [take_set_ge c0.bits _ _ (by omega)]; omega
        · simp only []; rw [take_set_ge c0.bits _ _ (by omega)]; exact hval
      · refine ⟨c0, ?_, hb, h1, by omega, hval⟩
        simp only []
        rw [List.getElem?_set_ne (by omega)]; exact hc0
    · simp only [List.mem_singleton] at hp
      subst hp
      refine ⟨{ c with bits := c.bits.set (k % 48) true }, ?_, ?_, ?_, ?_, ?_⟩
      · simp only []; rw [hci, List.getElem?_set_self (by rw [h.cl]; exact hN)]
      · simp only []; exact getD_set_self c.bits _ hr
      · simp only []; rw [take_set_ge c.bits _ _ (Nat.le_refl _), hcount]; omega
      · simp only []; rw [take_set_ge c.bits _ _ (Nat.le_refl _), hcount]; omega
      · simp only []
        rw [take_set_ge c.bits _ _ (Nat.le_refl _), hcount, hexact, List.getElem?_set_self (by rw [h.vl]; exact hroom)]
  · intro j c' r0 hc' hr0 hb
    simp only [] at hc'
    by_cases hj : j = ci
    · subst hj
      rw [List.getElem?_set_self (by rw [h.cl]; exact hN)] at hc'
      cases hc'
      simp only [] at hb
      by_cases he : k % 48 = r0
      · subst he
        exact ⟨v, by rw [hkeq]; exact List.mem_append_right _ (List.mem_singleton.mpr rfl)⟩
      · rw [getD_set_ne c.bits _ _ he] at hb
        obtain ⟨v0, hv0⟩ := h.nosp j c r0 hc hr0 hb
        exact ⟨v0, List.mem_append_left _ hv0⟩
    · rw [List.getElem?_set_ne (by omega)] at hc'
      obtain ⟨v0, hv0⟩ := h.nosp j c' r0 hc' hr0 hb
      exact ⟨v0, List.mem_append_left _ hv0⟩
  · intro p hp
    rcases List.mem_append.mp hp with hp | hp
    · have := h.qle p hp
      exact ⟨by omega, this.2⟩
    · simp only [List.mem_singleton] at hp
      subst hp
      exact ⟨Int.le_refl _, by simp only []; omega⟩

theorem sparseFill_spec : ∀ (ps : List (Nat × Nat)) (lk : Int) (nc nv N V : Nat) (s : Sparse) (ci vi : Nat) (Q : List (Nat × Nat)),
    sparseExtent ps lk nc nv = some (N, V) → Spec N V s ci vi lk Q → vi = chunkCells * N + nv → (ci : Int) * 48 ≤ lk + 1 →
    chunkCells * N + V < 65536 →
    ∃ s' ci' vi' lk', sparseFill ps ci vi s = .ok s' ∧ Spec N V s' ci' vi' lk' (Q ++ ps.filter (fun p => p.2 ≠ 0)) := by
  intro ps
  induction ps with
  | nil =>
    intro lk nc nv N V s ci vi Q he hs hvi hci hsz
    exact ⟨s, ci, vi, lk, rfl, by simpa using hs⟩
  | cons p rest ih =>
    intro lk nc nv N V s ci vi Q he hs hvi hci hsz
    obtain ⟨k, v⟩ := p
    have hn := hs.n
    subst hn
    unfold sparseExtent at he
    unfold sparseFill
    by_cases hv : v = 0
    · rw [if_pos hv] at he ⊢
      obtain ⟨s', ci', vi', lk', e, hsp⟩ := ih lk nc nv _ V s ci vi Q he hs hvi hci hsz
      refine ⟨s', ci', vi', lk', e, ?_⟩
      have : List.filter (fun p => decide (p.2 ≠ 0)) ((k, v) :: rest) = List.filter (fun p => decide (p.2 ≠ 0)) rest := by
        rw [List.filter_cons]; simp [hv]
      rw [this]; exact hsp
    rw [if_neg hv] at he ⊢
    by_cases hk : (k : Int) ≤ lk
    · rw [if_pos hk] at he; cases he
    rw [if_neg hk] at he
    obtain ⟨hN, hV⟩ := sparseExtent_mono _ _ _ _ _ _ he
    have hkN : k / 48 < s.nchunks := by unfold chunkBits at *; split at hN <;> omega
    have hcik : ci ≤ k / 48 := by omega
    have hvilt : vi < 65536 := by omega
    have hroom : vi - chunkCells * s.nchunks < V := by omega
    simp only [bind, Except.bind, pure, Except.pure]
    have hfilt : List.filter (fun p => decide (p.2 ≠ 0)) ((k, v) :: rest) = (k, v) :: List.filter (fun p => decide (p.2 ≠ 0)) rest := by
      rw [List.filter_cons]; simp [hv]
    rw [hfilt]
    have happ : Q ++ (k, v) :: List.filter (fun p => decide (p.2 ≠ 0)) rest = (Q ++ [(k, v)]) ++ List.filter (fun p => decide (p.2 ≠ 0)) rest := by
      simp
    rw [happ]
    by_cases hne : ci ≠ k / chunkBits
    · rw [if_pos hne]
      have hlt : ci < k / 48 := by unfold chunkBits at hne; omega
      obtain ⟨c, hc, hs1⟩ := hs.enter (k / 48) hlt hkN hvilt
      obtain ⟨c', hc', e1⟩ := updChunk_ok s (k / chunkBits) (fun c => { c with offset := vi % 65536 }) (by rw [hs.cl]; exact hkN)
      have hcc : c' = c := by
        have : s.chunks[k / chunkBits]? = s.chunks[k / 48]? := rfl
        rw [this, hc] at hc'; cases hc'; rfl
      subst hcc
      rw [e1]
      simp only []
      obtain ⟨c2, hc2, hs2⟩ := hs1.add k v (by omega) rfl hkN hroom
      obtain ⟨c3, hc3, e2⟩ := updChunk_ok { s with chunks := s.chunks.set (k / chunkBits) { c' with offset := vi % 65536 } } (k / chunkBits)
        (fun c => { c with bits := c.bits.set (k % chunkBits) true }) (by simp only [List.length_set]; rw [hs.cl]; exact hkN)
      have hcc2 : c3 = c2 := by
        have hh : ({ s with chunks := s.chunks.set (k / chunkBits) { c' with offset := vi % 65536 } } : Sparse).chunks[k / chunkBits]? =
            ({ s with chunks := s.chunks.set (k / 48) { c' with offset := vi % 65536 } } : Sparse).chunks[k / 48]? := rfl
        rw [hh, hc2] at hc3; cases hc3; rfl
      subst hcc2
      rw [e2]
      simp only []
      unfold setValue
      simp only []
      rw [if_pos (by rw [hs.n, hs.vl]; omega)]
      simp only []
      exact ih (k : Int) _ (nv + 1) _ V _ (k / chunkBits) (vi + 1) (Q ++ [(k, v)]) he hs2 (by omega) (by unfold chunkBits; omega) hsz
    · rw [if_neg hne]
      have hcie : k / 48 = ci := by unfold chunkBits at hne; omega
      simp only []
      obtain ⟨c2, hc2, hs2⟩ := hs.add k v (by omega) hcie (by omega) hroom
      obtain ⟨c3, hc3, e2⟩ := updChunk_ok s (k / chunkBits) (fun c => { c with bits := c.bits.set (k % chunkBits) true }) (by rw [hs.cl]; exact hkN)
      have hcc2 : c3 = c2 := by
        have hh : s.chunks[k / chunkBits]? = s.chunks[ci]? := by rw [← hcie]; rfl
        rw [hh, hc2] at hc3; cases hc3; rfl
      subst hcc2
      rw [e2]
      simp only []
      unfold setValue
      simp only []
      rw [if_pos (by rw [hs.n, hs.vl]; omega)]
      simp only []
      have hidx : k / chunkBits = ci := hcie
      rw [hidx]
      exact ih (k : Int) _ (nv + 1) _ V _ ci (vi + 1) (Q ++ [(k, v)]) he hs2 (by omega) (by omega) hsz

theorem sparseExtent_keys : ∀ (ps : List (Nat × Nat)) (lk : Int) (nc nv N V : Nat),
    sparseExtent ps lk nc nv = some (N, V) → ∀ p ∈ ps, p.2 ≠ 0 → p.1 / 48 < N := by
  intro ps
  induction ps with
  | nil => intro _ _ _ _ _ _ p hp; cases hp
  | cons q rest ih =>
    intro lk nc nv N V h p hp hnz
    obtain ⟨k, v⟩ := q
    unfold sparseExtent at h
    by_cases hv : v = 0
    · rw [if_pos hv] at h
      rcases List.mem_cons.mp hp with rfl | hp
      · exact absurd hv hnz
      · exact ih _ _ _ _ _ h p hp hnz
    rw [if_neg hv] at h
    by_cases hk : (k : Int) ≤ lk
    · rw [if_pos hk] at h; cases h
    rw [if_neg hk] at h
    rcases List.mem_cons.mp hp with rfl | hp
    · have := (sparseExtent_mono _ _ _ _ _ _ h).1
      unfold chunkBits at this
      simp only []
      split at this <;> omega
    · exact ih _ _ _ _ _ h p hp hnz

theorem lookupPairs_some (ps : List (Nat × Nat)) (k : Nat) (p : Nat × Nat) (h : ps.find? (fun p => decide (p.1 = k ∧ p.2 ≠ 0)) = some p) :
    p ∈ ps ∧ p.1 = k ∧ p.2 ≠ 0 := by
  have h1 := List.mem_of_find?_eq_some h
  have h2 := List.find?_some h
  simp only [decide_eq_true_eq] at h2
  exact ⟨h1, h2.1, h2.2⟩

/-- **`sparse` answers what it was built from** – for every sequence of pairs the constructor accepts (non-zero values with strictly
increasing keys) whose allocation 16-bit offsets can address, and every key: `operator[]` is the value the pairs give that key, 0 for a
key that is absent or whose value is 0 -/
theorem sparse_get_spec (pairs : List (Nat × Nat)) (s : Sparse) (hb : sparseBuild pairs = .ok (some s))
    (hsmall : chunkCells * s.nchunks + s.values.length < 65536) (k : Nat) : s.get k = .ok (lookupPairs pairs k) := by
  unfold sparseBuild at hb
  cases he : sparseExtent pairs (-1) 0 0 with
  | none => rw [he] at hb; cases hb
  | some nv =>
    obtain ⟨N, V⟩ := nv
    rw [he] at hb
    simp only [] at hb
    have hkeys := sparseExtent_keys pairs (-1) 0 0 N V he
    by_cases h0 : N = 0
    · rw [if_pos h0] at hb
      cases hb
      -- no non-zero pair at all
      have hl : lookupPairs pairs k = 0 := by
        unfold lookupPairs
        cases hf : pairs.find? (fun p => decide (p.1 = k ∧ p.2 ≠ 0)) with
        | none => rfl
        | some p =>
          obtain ⟨hm, _, hnz⟩ := lookupPairs_some pairs k p hf
          have := hkeys p hm hnz
          omega
      rw [hl]
      simp [Sparse.get, Sparse.chunk, Sparse.cell, chunkCells, bind, Except.bind, pure, Except.pure]
    rw [if_neg h0] at hb
    simp only [bind, Except.bind, pure, Except.pure] at hb
    obtain ⟨c0, hc0, e0⟩ := updChunk_ok { nchunks := N, chunks := List.replicate N Chunk.empty, values := List.replicate V 0 } 0
      (fun c => { c with offset := chunkCells * N }) (by simp only [List.length_replicate]; omega)
    rw [e0] at hb
    simp only [] at hb
    have hc0e : c0 = Chunk.empty := by
      simp only [] at hc0
      rw [List.getElem?_replicate] at hc0
      split at hc0
      · cases hc0; rfl
      · cases hc0
    have hempty : ∀ r, Chunk.empty.bits.getD r false = false := by
      intro r
      exact getD_of_count_zero _ (by decide) r
    have hinit : Spec N V { nchunks := N, chunks := (List.replicate N Chunk.empty).set 0 { c0 with offset := chunkCells * N }, values := List.replicate V 0 } 0 (chunkCells * N) (-1) [] := by
      refine ⟨rfl, by simp only [List.length_set, List.length_replicate], by simp only [List.length_replicate], ?_, ?_, ?_, ?_, Nat.le_refl _, ?_, ?_, ?_⟩
      · intro c hc
        simp only [] at hc
        rcases mem_set_cases _ _ _ _ hc with rfl | h
        · rw [hc0e]; rfl
        · rw [(List.mem_replicate.mp h).2]; rfl
      · intro j hj c hc r
        simp only [] at hc
        rw [List.getElem?_set_ne (by omega)] at hc
        rw [(List.mem_replicate.mp (List.mem_of_getElem? hc)).2]
        exact hempty r
      · intro c hc
        simp only [] at hc
        rw [List.getElem?_set_self (by simp only [List.length_replicate]; omega)] at hc
        cases hc
        rw [hc0e]
        show chunkCells * N + Chunk.empty.bits.count true = chunkCells * N
        have : Chunk.empty.bits.count true = 0 := by decide
        omega
      · intro c hc r hr
        simp only [] at hc
        rw [List.getElem?_set_self (by simp only [List.length_replicate]; omega)] at hc
        cases hc
        rw [hc0e] at hr
        simp only [] at hr
        rw [hempty r] at hr; cases hr
      · intro p hp; cases hp
      · intro j c r hc hr hb'
        simp only [] at hc
        by_cases hj : j = 0
        · subst hj
          rw [List.getElem?_set_self (by simp only [List.length_replicate]; omega)] at hc
          cases hc
          rw [hc0e] at hb'
          simp only [] at hb'
          rw [hempty r] at hb'; cases hb'
        · rw [List.getElem?_set_ne (by omega)] at hc
          rw [(List.mem_replicate.mp (List.mem_of_getElem? hc)).2, hempty r] at hb'
          cases hb'
      · intro p hp; cases hp
    -- sizes of the result
    have hsz := sparseBuild_sizes pairs s N V (by unfold sparseBuild; rw [he]; simp only []; rw [if_neg h0]; simp only [bind, Except.bind, pure, Except.pure, e0]; exact hb) he h0
    obtain ⟨s', ci', vi', lk', es, hsp⟩ := sparseFill_spec pairs (-1) 0 0 N V _ 0 (chunkCells * N) [] he hinit (by omega) (by omega)
      (by rw [← hsz.1, ← hsz.2]; exact hsmall)
    have hss : s = s' := by rw [es] at hb; cases hb; rfl
    subst hss
    simp only [List.nil_append] at hsp
    -- the look-up
    unfold lookupPairs
    cases hf : pairs.find? (fun p => decide (p.1 = k ∧ p.2 ≠ 0)) with
    | some p =>
      simp only []
      obtain ⟨hm, hpk, hnz⟩ := lookupPairs_some pairs k p hf
      have hq : p ∈ pairs.filter (fun p => decide (p.2 ≠ 0)) := List.mem_filter.mpr ⟨hm, by simpa using hnz⟩
      obtain ⟨c, hc, hbit, h1, h2, h3⟩ := hsp.spec p hq
      rw [hpk] at hc hbit h1 h2 h3
      have hlt : k / 48 < s.chunks.length := by
        by_cases hh : k / 48 < s.chunks.length
        · exact hh
        · rw [List.getElem?_eq_none (by omega)] at hc; cases hc
      have hn := hsp.n
      have hcl := hsp.cl
      unfold Sparse.get
      simp only [bind, Except.bind, pure, Except.pure]
      rw [if_pos (by unfold chunkBits; omega)]
      simp only [Nat.one_mul]
      unfold Sparse.chunk
      rw [if_neg (by omega)]
      have hc' : s.chunks[k / chunkBits]? = some c := hc
      rw [hc']
      simp only []
      have hbit' : c.bits.getD (k % chunkBits) false = true := hbit
      rw [hbit']
      simp only [if_true, Nat.one_mul]
      unfold Sparse.cell
      rw [if_neg (by omega)]
      have h1' : chunkCells * s.nchunks ≤ c.offset + (c.bits.take (k % chunkBits)).count true := by rw [hn]; exact h1
      rw [if_neg (by omega)]
      have h3' : s.values[c.offset + (c.bits.take (k % chunkBits)).count true - chunkCells * s.nchunks]? = some p.2 := by rw [hn]; exact h3
      rw [h3']
    | none =>
      simp only []
      have hn := hsp.n
      have hcl := hsp.cl
      unfold Sparse.get
      simp only [bind, Except.bind, pure, Except.pure]
      by_cases hg : k / chunkBits < s.nchunks
      · rw [if_pos hg]
        simp only [Nat.one_mul]
        unfold Sparse.chunk
        rw [if_neg (by omega)]
        obtain ⟨c, hc⟩ : ∃ c, s.chunks[k / chunkBits]? = some c := ⟨_, List.getElem?_eq_getElem (by omega)⟩
        rw [hc]
        simp only []
        have hnb : c.bits.getD (k % chunkBits) false = false := by
          cases hbv : c.bits.getD (k % chunkBits) false with
          | false => rfl
          | true =>
            obtain ⟨v, hv⟩ := hsp.nosp (k / 48) c (k % 48) hc (by omega) hbv
            have hkk : k / 48 * 48 + k % 48 = k := by omega
            rw [hkk] at hv
            obtain ⟨hm, hnz⟩ := List.mem_filter.mp hv
            have := List.find?_eq_none.mp hf (k, v) hm
            simp at this hnz
            exact absurd (this) hnz
        rw [hnb]
        simp only [Bool.false_eq_true, if_false, Nat.mul_zero, Nat.zero_mul]
        unfold Sparse.cell
        rw [if_neg (by omega), if_pos (by unfold chunkCells; omega)]
        obtain ⟨c2, hc2⟩ : ∃ c2, s.chunks[0 / chunkCells]? = some c2 := ⟨_, List.getElem?_eq_getElem (by unfold chunkCells; omega)⟩
        rw [hc2]
      · rw [if_neg hg]
        simp only [Nat.zero_mul, Nat.zero_div]
        unfold Sparse.chunk Sparse.cell
        rw [if_neg (by omega), if_neg (by omega)]
        obtain ⟨c, hc⟩ : ∃ c, s.chunks[0]? = some c := ⟨_, List.getElem?_eq_getElem (by omega)⟩
        rw [hc]
        simp only [Nat.zero_mul]
        rw [if_pos (by unfold chunkCells; omega)]
        obtain ⟨c2, hc2⟩ : ∃ c2, s.chunks[0 / chunkCells]? = some c2 := ⟨_, List.getElem?_eq_getElem (by unfold chunkCells; omega)⟩
        rw [hc2]

end GrVerif.Loader

import GrVerif.Model.Vm
/-! Canonical presentation of machine states (`build`) and the stack primitives as rewrite rules on it. -/
set_option linter.unusedSimpArgs false
set_option linter.unusedVariables false
namespace GrVerif.Vm

/-- the machine state whose stack array is `below ++ reverse st ++ above`, with `sp` on the head of `st`
(`below` = the cells up to and including `sb`, `above` = the cells beyond the top of stack) -/
def build (below st above : List Int) (dp : Nat) (data : Array Nat) (status : Status) : Vm :=
  { stack := (below ++ st.reverse ++ above).toArray, sp := (below.length : Int) - 1 + st.length, dp, data, status }

theorem idx_top (below st above : List Int) (a : Int) (hb : below ≠ []) :
    ((below.length : Int) - 1 + ((a :: st).length : Nat)).toNat = below.length + st.length := by
  have : 0 < below.length := List.length_pos_iff.mpr hb
  simp only [List.length_cons]; omega

theorem get_top (below st above : List Int) (a : Int) :
    (below ++ (a :: st).reverse ++ above)[below.length + st.length]? = some a := by
  simp [List.getElem?_append]

theorem set_top (below st above : List Int) (a v : Int) :
    (below ++ (a :: st).reverse ++ above).set (below.length + st.length) v = below ++ (v :: st).reverse ++ above := by
  simp only [List.reverse_cons, List.append_assoc]
  rw [List.set_append_right _ _ (by omega)]
  simp only [Nat.add_sub_cancel_left]
  rw [List.set_append_right _ _ (by simp)]
  simp

@[simp] theorem top_build (below st above : List Int) (a : Int) (dp data status) (hb : below ≠ []) :
    top (build below (a :: st) above dp data status) = .ok a (build below (a :: st) above dp data status) := by
  have hpos : 0 < below.length := List.length_pos_iff.mpr hb
  have hi := idx_top below st above a hb
  have h0 : (0 : Int) ≤ (below.length : Int) - 1 + ((a :: st).length : Nat) := by simp only [List.length_cons]; omega
  simp only [top, rdStack, build, h0, if_true, hi, List.getElem?_toArray, get_top]

@[simp] theorem pop_build (below st above : List Int) (a : Int) (dp data status) (hb : below ≠ []) :
    pop (build below (a :: st) above dp data status) = .ok a (build below st (a :: above) dp data status) := by
  have h := top_build below st above a dp data status hb
  simp only [top] at h
  simp only [pop]
  have e : rdStack (build below (a :: st) above dp data status).sp (build below (a :: st) above dp data status)
      = .ok a (build below (a :: st) above dp data status) := h
  rw [e]
  simp only [build, List.reverse_cons, List.append_assoc, List.length_cons, List.singleton_append]
  congr 2
  omega

@[simp] theorem setTop_build (below st above : List Int) (a v : Int) (dp data status) (hb : below ≠ []) :
    setTop v (build below (a :: st) above dp data status) = .ok () (build below (v :: st) above dp data status) := by
  have hpos : 0 < below.length := List.length_pos_iff.mpr hb
  have hi := idx_top below st above a hb
  have hlt : below.length + st.length < (below ++ (a :: st).reverse ++ above).length := by simp
  have h0 : (0 : Int) ≤ (below.length : Int) - 1 + ((a :: st).length : Nat) := by simp only [List.length_cons]; omega
  simp only [setTop, wrStack, build, hi, List.size_toArray, h0, hlt, and_self, if_true, List.setIfInBounds_toArray, set_top]
  simp [List.length_cons]

@[simp] theorem push_build (below st above : List Int) (j v : Int) (dp data status) (hb : below ≠ []) :
    push v (build below st (j :: above) dp data status) = .ok () (build below (v :: st) above dp data status) := by
  have h := setTop_build below st above j v dp data status hb
  simp only [setTop, build] at h
  simp only [push, build]
  have e1 : (below ++ st.reverse ++ j :: above) = (below ++ (j :: st).reverse ++ above) := by simp
  have e2 : ((below.length : Int) - 1 + (st.length : Nat) + 1) = ((below.length : Int) - 1 + ((j :: st).length : Nat)) := by
    simp only [List.length_cons]; omega
  rw [e1, e2]
  exact h

@[simp] theorem declareParams_build (below st above : List Int) (n : Nat) (dp data status) :
    declareParams n (build below st above dp data status) = .ok dp (build below st above (dp + n) data status) := rfl

@[simp] theorem useParams_build (below st above : List Int) (n : Nat) (dp data status) :
    useParams n (build below st above dp data status) = .ok () (build below st above (dp + n) data status) := rfl

theorem param_build (below st above : List Int) (base : Nat) (i : Int) (dp data status) (hi : 0 ≤ i)
    (h : base + i.toNat < data.size) :
    param base i (build below st above dp data status) = .ok (data[base + i.toNat] : Nat) (build below st above dp data status) := by
  simp [param, build, Array.getElem?_eq_getElem h]

@[simp] theorem exit_build (below st above : List Int) (j v : Int) (dp data status) (hb : below ≠ []) :
    exit v (build below st (j :: above) dp data status) = .stop .exited (build below (v :: st) above dp data status) := by
  simp only [exit, push_build _ _ _ _ _ _ _ _ hb]

@[simp] theorem die_build (below st above : List Int) (j : Int) (dp data status) (hb : below ≠ []) :
    die (build below st (j :: above) dp data status) = .stop .exited (build below (1 :: st) above dp data .died_early) := by
  simp only [die]
  exact exit_build below st above j 1 dp data .died_early hb

end GrVerif.Vm

import GrVerif.Proofs.AssocCover
import GrVerif.Proofs.PassAssoc
/-!
# `Segment::associateChars` never indexes the char-info array out of range

`associateChars` reads and writes `charinfo(j)` for `j` between a slot's `before` and `after`, and for the characters next to that range,
without testing `j` against the number of char-infos; the model (`Model/Assoc.lean`) raises its fault flag where such an access would
leave `[0, numChars)`.  With every slot's `before`/`after` in `[0, n)` – the range invariant of C05, which every opcode, the garbage
collection and the direction steps keep (`Proofs/PassAssoc.lean`) – the flag is never raised, whatever the order of the two numbers.
-/
set_option linter.unusedVariables false
set_option linter.unusedSimpArgs false
namespace GrVerif.Assoc

/-- every slot's `before` and `after` are character indices -/
def InRange (n : Int) (S : List (Int × Int)) : Prop := ∀ p ∈ S, 0 ≤ p.1 ∧ p.1 < n ∧ 0 ≤ p.2 ∧ p.2 < n

theorem cover_noFault (i : Int) : ∀ (fuel : Nat) (j : Int) (cs : List CI) (f : Bool), 0 ≤ j → j + fuel ≤ cs.length →
    (cover i fuel j cs f).1.length = cs.length ∧ (cover i fuel j cs f).2 = f := by
  intro fuel
  induction fuel with
  | zero => intro j cs f _ _; unfold cover; exact ⟨rfl, rfl⟩
  | succ k ih =>
    intro j cs f h0 hl
    unfold cover
    obtain ⟨c, hc, _⟩ := getC_some h0 (by omega : j < cs.length)
    rw [hc]
    simp only []
    obtain ⟨e1, e2⟩ := ih (j + 1) (cs.set j.toNat _) f (by omega) (by simp only [List.length_set]; omega)
    exact ⟨by rw [e1, List.length_set], e2⟩

theorem loop2_noFault (n : Int) : ∀ (S : List (Int × Int)) (i : Int) (cs : List CI) (f : Bool), InRange n S → (cs.length : Int) = n →
    (loop2 S i cs f).1.length = cs.length ∧ (loop2 S i cs f).2 = f := by
  intro S
  induction S with
  | nil => intro i cs f _ _; unfold loop2; exact ⟨rfl, rfl⟩
  | cons p rest ih =>
    intro i cs f hP hl
    obtain ⟨b, a⟩ := p
    have hba := hP (b, a) List.mem_cons_self
    simp only [] at hba
    have hrest : InRange n rest := fun q hq => hP q (List.mem_cons_of_mem _ hq)
    unfold loop2
    rw [if_neg (by omega)]
    simp only []
    obtain ⟨c1, c2⟩ := cover_noFault i (a - b + 1).toNat b cs f hba.1 (by omega)
    obtain ⟨e1, e2⟩ := ih (i + 1) (cover i (a - b + 1).toNat b cs f).1 (cover i (a - b + 1).toNat b cs f).2 hrest (by rw [c1]; exact hl)
    exact ⟨by rw [e1, c1], by rw [e2, c2]⟩

theorem fwd_noFault (n i : Int) : ∀ (fuel : Nat) (s : Int) (cs : List CI) (f : Bool), 0 ≤ s → (cs.length : Int) = n →
    (fwd n i fuel s cs f).2.1.length = cs.length ∧ (fwd n i fuel s cs f).2.2 = f := by
  intro fuel
  induction fuel with
  | zero => intro s cs f _ _; unfold fwd; exact ⟨rfl, rfl⟩
  | succ k ih =>
    intro s cs f h0 hl
    unfold fwd
    split
    · rename_i hsn
      obtain ⟨c, hc, _⟩ := getC_some h0 (by omega : s < cs.length)
      rw [hc]
      simp only []
      split
      · obtain ⟨e1, e2⟩ := ih (s + 1) (cs.set s.toNat _) f (by omega) (by simp only [List.length_set]; exact hl)
        exact ⟨by rw [e1, List.length_set], e2⟩
      · exact ⟨rfl, rfl⟩
    · exact ⟨rfl, rfl⟩

theorem bwd_noFault (i : Int) : ∀ (fuel : Nat) (s : Int) (cs : List CI) (f : Bool), s < (cs.length : Int) →
    (bwd i fuel s cs f).2.1.length = cs.length ∧ (bwd i fuel s cs f).2.2 = f := by
  intro fuel
  induction fuel with
  | zero => intro s cs f _; unfold bwd; exact ⟨rfl, rfl⟩
  | succ k ih =>
    intro s cs f hl
    unfold bwd
    split
    · rename_i hs0
      obtain ⟨c, hc, _⟩ := getC_some hs0 hl
      rw [hc]
      simp only []
      split
      · obtain ⟨e1, e2⟩ := ih (s - 1) (cs.set s.toNat _) f (by simp only [List.length_set]; omega)
        exact ⟨by rw [e1, List.length_set], e2⟩
      · exact ⟨rfl, rfl⟩
    · exact ⟨rfl, rfl⟩

theorem loop3_noFault (n : Int) : ∀ (S : List (Int × Int)) (i : Int) (cs : List CI) (f : Bool), InRange n S → (cs.length : Int) = n →
    (loop3 n S i cs f).2.2 = f := by
  intro S
  induction S with
  | nil => intro i cs f _ _; unfold loop3; rfl
  | cons p rest ih =>
    intro i cs f hP hl
    obtain ⟨b, a⟩ := p
    have hba := hP (b, a) List.mem_cons_self
    simp only [] at hba
    have hrest : InRange n rest := fun q hq => hP q (List.mem_cons_of_mem _ hq)
    unfold loop3
    simp only []
    obtain ⟨f1, f2⟩ := fwd_noFault n i (cs.length + 1) (a + 1) cs f (by omega) hl
    obtain ⟨b1, b2⟩ := bwd_noFault i (cs.length + 1) (b - 1) (fwd n i (cs.length + 1) (a + 1) cs f).2.1 (fwd n i (cs.length + 1) (a + 1) cs f).2.2 (by rw [f1]; omega)
    rw [ih (i + 1) _ _ hrest (by rw [b1, f1]; exact hl), b2, f2]

/-- **`associateChars` stays inside the char-info array** when every slot's `before` and `after` are character indices -/
theorem associateChars_noFault (n : Nat) (S : List (Int × Int)) (hP : InRange n S) : (associateChars n S).2.2 = false := by
  unfold associateChars
  simp only []
  obtain ⟨e1, e2⟩ := loop2_noFault n S 0 (List.replicate n ({} : CI)) false hP (by simp)
  rw [loop3_noFault n S 0 _ _ hP (by rw [e1]; simp), e2]

end GrVerif.Assoc

namespace GrVerif.Pass
open GrVerif.Vm GrVerif.Seg GrVerif.Action GrVerif.Gen.Vm GrVerif.Assoc

/-- with the range invariant the re-association between the two runs of passes goes through -/
theorem reassoc_some {seg : Seg} {n : Nat} (h : AssocOK (n : Int) seg) : ∃ r, reassoc seg n = some r := by
  unfold reassoc
  simp only []
  have hP : InRange (n : Int) ((ahead seg (2 * seg.slots.size + 8) seg.first).map fun i => ((seg.get i).before, (seg.get i).after)) := by
    intro p hp
    obtain ⟨i, _, rfl⟩ := List.mem_map.mp hp
    have := h.1 i
    exact ⟨this.1, this.2.1, this.2.2.1, this.2.2.2.1⟩
  rw [associateChars_noFault n _ hP]
  exact ⟨_, rfl⟩

/-- **The pipeline, every font, every text**: when the substitution passes have run, `associateChars` never reads or writes a char-info
outside the array - the model's `reassoc` does not fail, so `shape` never stops with "associateChars: char-info access out of range" -/
theorem reassociation_stays_inside_cinfo (font : Font) (text : List Nat) (fuel : Nat) (dir : Nat) (hn : 0 < text.length) {c1 : Ctx}
    (h1 : runPhase font.passes font.bPass (startMirror font (initCtx font text dir)) 0 font.ipos true fuel font.aMirror = .ok (some c1)) :
    ∃ r, reassoc c1.seg text.length = some r := by
  have hk : ActionKeeps (AssocOK (text.length : Int)) := fun is dl mr data ctx r st so c h e => doAction_assoc (by omega) is dl mr data ctx h e
  have w1 : AssocOK (text.length : Int) c1.seg := runPhase_keeps _ hk (reverse_assoc _) (glyph_assoc _) _ _ _ _ _ _ _ (startMirror_keeps _ (glyph_assoc _) font _ (initSeg_assoc font text hn dir)) h1
  exact reassoc_some w1

end GrVerif.Pass

import GrVerif.Proofs.Lz4Sound
/-!
# `lz4_complete`: a valid block shorter than its plaintext decodes   (C14)

If the reference decoder of the block format accepts a block, the block ends with at least five literals (the format's rule for
encoders; the decoder's `MINCODA`/`LASTLITERALS` tests are exactly this rule), the output buffer has the size of the plaintext and is
larger than the block, then `lz4::decompress` returns that size – and by `lz4_sound` the buffer then holds the plaintext.
-/
set_option linter.unusedSimpArgs false
set_option linter.unusedVariables false
namespace GrVerif.Lz4
open GrVerif

theorem ext_ge (src : Buf) : ∀ fuel s acc s' l', Lz4Ref.ext src fuel s acc = some (s', l') → acc ≤ l' ∧ s < s' ∧ s' ≤ src.size := by
  intro fuel
  induction fuel with
  | zero => intro s acc s' l' h; simp only [Lz4Ref.ext] at h; cases h
  | succ fuel ih =>
    intro s acc s' l' h
    unfold Lz4Ref.ext at h
    by_cases hs : s < src.size
    · rw [getElem?_lt src s hs] at h
      simp only [] at h
      by_cases hb : src.getD s 0 = 255
      · rw [if_pos hb] at h
        have := ih _ _ _ _ h
        omega
      · rw [if_neg hb] at h
        cases h
        omega
    · have : src[s]? = none := by simp [hs]
      rw [this] at h
      cases h

theorem len_ge (src : Buf) (s l s' l' : Nat) (h : Lz4Ref.len src s l = some (s', l')) (hs : s ≤ src.size) : s ≤ s' ∧ s' ≤ src.size := by
  unfold Lz4Ref.len at h
  by_cases h15 : l = 15
  · rw [if_pos h15] at h
    have := ext_ge src _ _ _ _ _ h
    omega
  · rw [if_neg h15] at h
    cases h
    omega

/-- the format's length is what the decoder reads, as long as it fits 32 bits -/
theorem readLitGo_of_ext (src : Buf) : ∀ fuel s l s' l', Lz4Ref.ext src (src.size - s + 1) s l = some (s', l') → l' < 2 ^ 32 - 1 →
    s < src.size → src.size - s ≤ fuel → readLitGo src src.size fuel s l = .ok (s', l') := by
  intro fuel
  induction fuel with
  | zero => intro s l s' l' _ _ h1 h2; omega
  | succ fuel ih =>
    intro s l s' l' h hl hs hf
    have hr : rd src s = .ok (src[s]'hs) := rd_ok hs
    simp only [readLitGo, hr, bind, Except.bind, pure, Except.pure]
    have hext : src.size - s + 1 = (src.size - s) + 1 := rfl
    rw [hext] at h
    unfold Lz4Ref.ext at h
    rw [getElem?_lt src s hs, getD_lt src s hs] at h
    simp only [] at h
    by_cases hb : src[s]'hs = 255
    · rw [if_pos hb] at h
      have hge := ext_ge src _ _ _ _ _ h
      have hu : sat32 (l + src[s]) = l + 255 := by unfold sat32; rw [hb, if_neg (by omega)]
      rw [hu]
      have hne : s + 1 ≠ src.size := by
        intro he
        rw [he] at hge
        omega
      rw [if_pos ⟨hb, hne⟩]
      have h2 : Lz4Ref.ext src (src.size - (s + 1) + 1) (s + 1) (l + 255) = some (s', l') := by
        rw [show src.size - (s + 1) + 1 = src.size - s by omega]; exact h
      exact ih (s + 1) (l + 255) s' l' h2 hl (by omega) (by omega)
    · rw [if_neg hb] at h
      cases h
      have hu : sat32 (l + src[s]) = l + src[s] := by unfold sat32; rw [if_neg (by omega)]
      rw [hu, if_neg (fun hc => hb hc.1)]

theorem readLiteral_of_len (src : Buf) (s l s' l' : Nat) (h : Lz4Ref.len src s l = some (s', l')) (hl : l' < 2 ^ 32 - 1) (hs : s ≤ src.size) :
    readLiteral src src.size s l = .ok (s', l') := by
  unfold Lz4Ref.len at h
  unfold readLiteral
  by_cases h15 : l = 15
  · rw [if_pos h15] at h
    have hge := ext_ge src _ _ _ _ _ h
    rw [if_pos ⟨h15, by omega⟩, h15]
    exact readLitGo_of_ext src _ s 15 s' l' h hl (by omega) (by omega)
  · rw [if_neg h15] at h
    cases h
    rw [if_neg (fun hc => h15 hc.1)]

theorem copyMatch_length (dist : Nat) : ∀ n (L : List Nat), (Lz4Ref.copyMatch dist n L).length = L.length + n := by
  intro n
  induction n with
  | zero => intro L; rfl
  | succ n ih => intro L; unfold Lz4Ref.copyMatch; rw [ih]; simp; omega

/-- the pieces of `read_sequence`, both ways -/
theorem readSequence_parts2 (src : Buf) (s ml0 md0 : Nat) (q : Seq) (hs : s < src.size) (h : readSequence src s ml0 md0 = .ok q) :
    ∃ s1 ll, readLiteral src src.size (s + 1) (src.getD s 0 >>> 4) = .ok (s1, ll) ∧ q.literal = s1 ∧ q.literalLen = ll ∧
      ((s1 + ll + 2 > src.size ∧ q.more = false) ∨
       (s1 + ll + 2 ≤ src.size ∧ ∃ s2 ml, readLiteral src src.size (s1 + ll + 2) (src.getD s 0 &&& 0xf) = .ok (s2, ml) ∧
        q.matchLen = u32 (ml + 4) ∧ q.matchDist = (src.getD (s1 + ll) 0 ||| (src.getD (s1 + ll + 1) 0 <<< 8)) ∧ q.src = s2 ∧
        q.more = decide (s2 + 6 ≤ src.size))) := by
  have hr : rd src s = .ok (src[s]'hs) := rd_ok hs
  obtain ⟨s1, ll, h1, h1a, h1b⟩ := readLiteral_ok src src.size (s + 1) (src[s] >>> 4) (Nat.le_refl _) (by omega)
  simp only [readSequence, hr, h1, bind, Except.bind, pure, Except.pure] at h
  rw [getD_lt src s hs]
  refine ⟨s1, ll, h1, ?_⟩
  by_cases hc : s1 + ll + 2 > src.size
  · simp only [hc, if_true] at h
    cases h
    exact ⟨rfl, rfl, Or.inl ⟨hc, rfl⟩⟩
  · simp only [hc, if_false] at h
    have r0 : rd src (s1 + ll) = .ok (src[s1 + ll]'(by omega)) := rd_ok (by omega)
    have r1 : rd src (s1 + ll + 1) = .ok (src[s1 + ll + 1]'(by omega)) := rd_ok (by omega)
    obtain ⟨s2, ml, h2, h2a, h2b⟩ := readLiteral_ok src src.size (s1 + ll + 2) (src[s] &&& 0xf) (Nat.le_refl _) (by omega)
    simp only [r0, r1, h2] at h
    cases h
    refine ⟨rfl, rfl, Or.inr ⟨by omega, s2, ml, h2, rfl, ?_, rfl, rfl⟩⟩
    rw [getD_lt src (s1 + ll) (by omega), getD_lt src (s1 + ll + 1) (by omega)]

/-- a block the reference accepts leaves at least its final literals of room: in the input behind any sequence start … -/
theorem finalLits_room (src : Buf) : ∀ fuel s k, Lz4Ref.finalLits src fuel s = some k → s + 1 + k ≤ src.size := by
  intro fuel
  induction fuel with
  | zero => intro s k h; simp only [Lz4Ref.finalLits] at h; cases h
  | succ fuel ih =>
    intro s k h
    unfold Lz4Ref.finalLits at h
    by_cases hs : s < src.size
    · rw [getElem?_lt src s hs] at h
      simp only [] at h
      cases h1 : Lz4Ref.len src (s + 1) (src.getD s 0 >>> 4) with
      | none => rw [h1] at h; cases h
      | some p =>
        obtain ⟨s1, ll⟩ := p
        rw [h1] at h
        simp only [] at h
        have g1 := len_ge src _ _ _ _ h1 (by omega)
        by_cases c1 : s1 + ll > src.size
        · rw [if_pos c1] at h; cases h
        · rw [if_neg c1] at h
          by_cases c2 : s1 + ll = src.size
          · rw [if_pos c2] at h; cases h; omega
          · rw [if_neg c2] at h
            by_cases c3 : s1 + ll + 2 > src.size
            · rw [if_pos c3] at h; cases h
            · rw [if_neg c3] at h
              cases h2 : Lz4Ref.len src (s1 + ll + 2) (src.getD s 0 &&& 0xf) with
              | none => rw [h2] at h; cases h
              | some p2 =>
                obtain ⟨s2, ml⟩ := p2
                rw [h2] at h
                simp only [] at h
                have g2 := len_ge src _ _ _ _ h2 (by omega)
                have := ih s2 k h
                omega
    · have : src[s]? = none := by simp [hs]
      rw [this] at h
      cases h

/-- one step of the reference decoder, read backwards -/
theorem decode_step (src : Buf) (fuel s : Nat) (L R : List Nat) (h : Lz4Ref.decode src (fuel + 1) s L = some R) :
    s < src.size ∧ ∃ s1 ll, Lz4Ref.len src (s + 1) (src.getD s 0 >>> 4) = some (s1, ll) ∧ s1 + ll ≤ src.size ∧
      ((s1 + ll = src.size ∧ R = L ++ Lz4Ref.lits src s1 ll) ∨
       (s1 + ll ≠ src.size ∧ s1 + ll + 2 ≤ src.size ∧ ∃ s2 ml, Lz4Ref.len src (s1 + ll + 2) (src.getD s 0 &&& 0xf) = some (s2, ml) ∧
          src.getD (s1 + ll) 0 + 256 * src.getD (s1 + ll + 1) 0 ≠ 0 ∧
          src.getD (s1 + ll) 0 + 256 * src.getD (s1 + ll + 1) 0 ≤ (L ++ Lz4Ref.lits src s1 ll).length ∧
          Lz4Ref.decode src fuel s2 (Lz4Ref.copyMatch (src.getD (s1 + ll) 0 + 256 * src.getD (s1 + ll + 1) 0) (ml + 4) (L ++ Lz4Ref.lits src s1 ll)) = some R)) := by
  unfold Lz4Ref.decode at h
  by_cases hs : s < src.size
  · refine ⟨hs, ?_⟩
    rw [getElem?_lt src s hs] at h
    simp only [] at h
    cases h1 : Lz4Ref.len src (s + 1) (src.getD s 0 >>> 4) with
    | none => rw [h1] at h; cases h
    | some p =>
      obtain ⟨s1, ll⟩ := p
      rw [h1] at h
      simp only [] at h
      refine ⟨s1, ll, rfl, ?_⟩
      by_cases c1 : s1 + ll > src.size
      · rw [if_pos c1] at h; cases h
      · rw [if_neg c1] at h
        refine ⟨by omega, ?_⟩
        by_cases c2 : s1 + ll = src.size
        · rw [if_pos c2] at h; cases h; exact Or.inl ⟨c2, rfl⟩
        · rw [if_neg c2] at h
          by_cases c3 : s1 + ll + 2 > src.size
          · rw [if_pos c3] at h; cases h
          · rw [if_neg c3] at h
            cases h2 : Lz4Ref.len src (s1 + ll + 2) (src.getD s 0 &&& 0xf) with
            | none => rw [h2] at h; cases h
            | some p2 =>
              obtain ⟨s2, ml⟩ := p2
              rw [h2] at h
              simp only [] at h
              by_cases c4 : src.getD (s1 + ll) 0 + 256 * src.getD (s1 + ll + 1) 0 = 0 ∨
                  src.getD (s1 + ll) 0 + 256 * src.getD (s1 + ll + 1) 0 > (L ++ Lz4Ref.lits src s1 ll).length
              · rw [if_pos c4] at h; cases h
              · rw [if_neg c4] at h
                exact Or.inr ⟨c2, by omega, s2, ml, rfl, by omega, by omega, h⟩
  · have : src[s]? = none := by simp [hs]
    rw [this] at h
    cases h

theorem finalLits_final (src : Buf) (fuel s s1 ll : Nat) (hs : s < src.size) (h1 : Lz4Ref.len src (s + 1) (src.getD s 0 >>> 4) = some (s1, ll))
    (c2 : s1 + ll = src.size) : Lz4Ref.finalLits src (fuel + 1) s = some ll := by
  unfold Lz4Ref.finalLits
  rw [getElem?_lt src s hs]
  simp only []
  rw [h1]
  simp only []
  rw [if_neg (by omega), if_pos c2]

theorem finalLits_more (src : Buf) (fuel s s1 ll s2 ml : Nat) (hs : s < src.size) (h1 : Lz4Ref.len src (s + 1) (src.getD s 0 >>> 4) = some (s1, ll))
    (c2 : s1 + ll ≠ src.size) (c3 : s1 + ll + 2 ≤ src.size) (h2 : Lz4Ref.len src (s1 + ll + 2) (src.getD s 0 &&& 0xf) = some (s2, ml)) :
    Lz4Ref.finalLits src (fuel + 1) s = Lz4Ref.finalLits src fuel s2 := by
  conv => lhs; unfold Lz4Ref.finalLits
  rw [getElem?_lt src s hs]
  simp only []
  rw [h1]
  simp only []
  rw [if_neg (by omega), if_neg c2, if_neg (by omega), h2]

/-- … and in the output: what is decoded ends with the final literals -/
theorem decode_length (src : Buf) : ∀ fuel s (L R : List Nat) k, Lz4Ref.decode src fuel s L = some R → Lz4Ref.finalLits src fuel s = some k →
    L.length + k ≤ R.length := by
  intro fuel
  induction fuel with
  | zero => intro s L R k h; simp only [Lz4Ref.decode] at h; cases h
  | succ fuel ih =>
    intro s L R k h hk
    obtain ⟨hs, s1, ll, h1, hle, hcase⟩ := decode_step src fuel s L R h
    rcases hcase with ⟨c2, hR⟩ | ⟨c2, c3, s2, ml, h2, _, _, hrec⟩
    · rw [finalLits_final src fuel s s1 ll hs h1 c2] at hk
      cases hk
      rw [hR, List.length_append, lits_length]; omega
    · rw [finalLits_more src fuel s s1 ll s2 ml hs h1 c2 c3 h2] at hk
      have := ih s2 _ R k hrec hk
      rw [copyMatch_length, List.length_append, lits_length] at this
      omega

/-- **completeness of the main loop**: from any state with room for exactly what the reference still decodes, the decoder runs through every
test and returns the full length -/
theorem loop_complete (src : Buf) (hbyte : ∀ i (h : i < src.size), src[i] < 256) :
    ∀ fuel s d rem ml0 md0 (out : Buf) (L R : List Nat) k, s < src.size → d + rem = out.size → L.length = d →
      Lz4Ref.decode src fuel s L = some R → R.length = d + rem → Lz4Ref.finalLits src fuel s = some k → 5 ≤ k → R.length < 2 ^ 32 - 8 →
      ∃ out', loop src fuel s d rem ml0 md0 out = .ok (some R.length, out') := by
  intro fuel
  induction fuel with
  | zero => intro s d rem ml0 md0 out L R k _ _ _ h; simp only [Lz4Ref.decode] at h; cases h
  | succ fuel ih =>
    intro s d rem ml0 md0 out L R k hs hinv hL hdec hRlen hk hk5 hR32
    obtain ⟨_, s1, ll, h1, hle, hcase⟩ := decode_step src fuel s L R hdec
    have g1 := len_ge src _ _ _ _ h1 (by omega)
    obtain ⟨q, hq, hok⟩ := readSequence_ok src s ml0 md0 hs
    obtain ⟨s1', ll', hl1, hql, hqll, hparts⟩ := readSequence_parts2 src s ml0 md0 q hs hq
    have hlen_tot := decode_length src (fuel + 1) s L R k hdec hk
    simp only [loop, hq, bind, Except.bind, pure, Except.pure]
    rcases hcase with ⟨c2, hR⟩ | ⟨c2, c3, s2, ml, h2, hd0, hdle, hrec⟩
    · -- the last sequence
      have hRl : R.length = d + ll := by rw [hR, List.length_append, lits_length, hL]
      have hrl1 := readLiteral_of_len src (s + 1) _ s1 ll h1 (by omega) (by omega)
      rw [hrl1] at hl1
      injection hl1 with hl1
      injection hl1 with e1 e2
      subst e1; subst e2
      have hmore : q.more = false := by
        rcases hparts with ⟨_, hm⟩ | ⟨hc, _⟩
        · exact hm
        · omega
      simp only [hmore, Bool.not_false, if_true]
      have hbad : ¬ (q.literal + q.literalLen > src.size ∨ q.literalLen > rem ∨ q.literal + q.literalLen ≠ src.size) := by
        rw [hql, hqll]; omega
      simp only [hbad, if_false]
      obtain ⟨o, ho, _⟩ := fastFrom_ok src out q.literalLen q.literal d (by rw [hql, hqll]; omega) (by rw [hqll]; omega)
      simp only [ho]
      exact ⟨o, by rw [hRl, hqll]⟩
    · -- a sequence with a match
      have g2 := len_ge src _ _ _ _ h2 (by omega)
      have hk' : Lz4Ref.finalLits src fuel s2 = some k := by
        rw [← finalLits_more src fuel s s1 ll s2 ml hs h1 c2 c3 h2]; exact hk
      have hroom := finalLits_room src fuel s2 k hk'
      have hlen2 := decode_length src fuel s2 _ R k hrec hk'
      rw [copyMatch_length, List.length_append, lits_length, hL] at hlen2
      have hrl1 := readLiteral_of_len src (s + 1) _ s1 ll h1 (by omega) (by omega)
      rw [hrl1] at hl1
      injection hl1 with hl1
      injection hl1 with e1 e2
      subst e1; subst e2
      rcases hparts with ⟨hc, _⟩ | ⟨_, s2', ml', hl2, hqml, hqmd, hqsrc, hqmore⟩
      · omega
      · have hrl2 := readLiteral_of_len src (s1 + ll + 2) _ s2 ml h2 (by omega) (by omega)
        rw [hrl2] at hl2
        injection hl2 with hl2
        injection hl2 with e1 e2
        subst e1; subst e2
        have hmore : q.more = true := by rw [hqmore]; exact decide_eq_true (by omega)
        have hu : u32 (ml + 4) = ml + 4 := by unfold u32; exact Nat.mod_eq_of_lt (by omega)
        rw [hu] at hqml
        have hdist : q.matchDist = src.getD (s1 + ll) 0 + 256 * src.getD (s1 + ll + 1) 0 := by
          rw [hqmd]; exact dist_eq _ _ (by rw [getD_lt src (s1 + ll) (by omega)]; exact hbyte _ _)
        rw [List.length_append, lits_length, hL] at hdle
        simp only [hmore, Bool.not_true, Bool.false_eq_true, if_false]
        have ⟨hadv, hlit, hsrc⟩ := hok.adv hmore
        simp only [Gen.MINCODA] at hlit hsrc
        -- the match step, from the state after the literals
        have step : ∀ (o1 : Buf), (d + ll) + (rem - ll) = o1.size →
            ∃ out', (do
              let lim := (((rem - ll) + 2^64 - Gen.LASTLITERALS) % 2^64) % 2^32
              if q.matchDist > (d + ll) ∨ q.matchLen < Gen.MINMATCH ∨ q.matchLen > lim ∨ (rem - ll) < Gen.LASTLITERALS ∨ q.matchDist = 0 then pure (none, o1) else
              let pcpy := (d + ll) - q.matchDist
              let o ← if (d + ll) > pcpy + WS ∧ align q.matchLen ≤ (rem - ll) then overrunSelf (nWords q.matchLen) pcpy (d + ll) o1
                        else safeSelf q.matchLen pcpy (d + ll) o1
              loop src fuel q.src ((d + ll) + q.matchLen) ((rem - ll) - q.matchLen) q.matchLen q.matchDist o : Except Fault (Option Nat × Buf)) = .ok (some R.length, out') := by
          intro o1 hinv'
          simp only [Gen.LASTLITERALS, Gen.MINMATCH, Nat.reducePow]
          have hbad : ¬ (q.matchDist > d + ll ∨ q.matchLen < 4 ∨ q.matchLen > ((rem - ll + 18446744073709551616 - 5) % 18446744073709551616) % 4294967296 ∨ rem - ll < 5 ∨ q.matchDist = 0) := by
            rw [hdist, hqml]
            simp only [Nat.reducePow] at hR32
            omega
          simp only [hbad, if_false, bind, Except.bind]
          have hfin : ∀ o2 : Buf, o2.size = o1.size →
              ∃ out', loop src fuel q.src (d + ll + q.matchLen) (rem - ll - q.matchLen) q.matchLen q.matchDist o2 = .ok (some R.length, out') := by
            intro o2 hsz2
            rw [hqsrc]
            exact ih s2 (d + ll + q.matchLen) (rem - ll - q.matchLen) q.matchLen q.matchDist o2 _ R k (by omega) (by omega)
              (by rw [copyMatch_length, List.length_append, lits_length, hL, hqml]) hrec (by omega) hk' hk5 hR32
          by_cases hov : d + ll > d + ll - q.matchDist + WS ∧ align q.matchLen ≤ rem - ll
          · simp only [hov, and_self, if_true]
            have hw : nWords q.matchLen * WS ≤ rem - ll := by rw [nWords_mul _ (by omega)]; exact hov.2
            obtain ⟨o2, e2, z2⟩ := overrunSelf_ok (nWords q.matchLen) (d + ll - q.matchDist) (d + ll) o1 (by omega) (by omega)
            simp only [e2]
            exact hfin o2 z2
          · simp only [hov, if_false]
            obtain ⟨o2, e2, z2⟩ := safeSelf_ok q.matchLen (d + ll - q.matchDist) (d + ll) o1 (by omega) (by omega)
            simp only [e2]
            exact hfin o2 z2
        rw [hql, hqll]
        by_cases hll : ll = 0
        · simp only [hll, ne_eq, not_true_eq_false, if_false]
          have := step out (by omega)
          simp only [hll, Nat.add_zero, Nat.sub_zero] at this
          exact this
        · simp only [hll, ne_eq, not_false_eq_true, if_true]
          have ha := align_le ll
          have hal : ¬ align ll > rem := by omega
          simp only [hal, if_false]
          obtain ⟨o1, e1, z1⟩ := overrunFrom_ok src (nWords ll) s1 d out
            (by rw [nWords_mul _ hll]; omega) (by rw [nWords_mul _ hll]; omega)
          simp only [e1]
          exact step o1 (by omega)

end GrVerif.Lz4

import GrVerif.Proofs.PassAssoc
import GrVerif.Proofs.HeapGid
/-!
# Glyph ids through the whole pass engine (C03, glyph-id clause)

`PGid N K c`: the rule context carries the class map `K` and every slot of the heap has a glyph id below `N`.  The matcher, `adjustSlot`,
the rule loop, the pass sequencing and the reversal between passes write neither the class map nor a glyph id; rule actions keep `PGid`
(`doAction_gid`); `read_text` takes the glyph ids from the cmap; `associateChars` does not touch them.  Hence: on a font whose cmap and
class map name only glyphs below `N`, every slot of a segment the modelled pipeline returns has a glyph id below `N`.
-/
set_option linter.unusedVariables false
set_option linter.unusedSimpArgs false
namespace GrVerif.Pass
open GrVerif.Vm GrVerif.Seg GrVerif.Action GrVerif.Gen.Vm

theorem runFSM_classes (p : PassT) (c : Ctx) (slot : Nat) : (runFSM p c slot).2.1.classes = c.classes := by
  unfold runFSM
  simp only []
  split <;> rfl

theorem adjustBack_classes : ∀ (fuel : Nat) (c : Ctx) (d : Int) (so : Option Nat), (adjustBack fuel c d so).1.classes = c.classes := by
  intro fuel
  induction fuel with
  | zero => intro c d so; unfold adjustBack; rfl
  | succ f ih =>
    intro c d so
    cases so with
    | none => unfold adjustBack; rfl
    | some s =>
      unfold adjustBack
      split
      · split
        · rw [ih]; rfl
        · rw [ih]
      · rfl

theorem adjustFwd_classes : ∀ (fuel : Nat) (c : Ctx) (d : Int) (so : Option Nat), (adjustFwd fuel c d so).1.classes = c.classes := by
  intro fuel
  induction fuel with
  | zero => intro c d so; unfold adjustFwd; rfl
  | succ f ih =>
    intro c d so
    cases so with
    | none => unfold adjustFwd; rfl
    | some s =>
      unfold adjustFwd
      split
      · split
        · rw [ih]; rfl
        · rw [ih]
      · rfl

theorem adjustStart_classes (c : Ctx) (d : Int) : (adjustStart c d).1.classes = c.classes := by
  unfold adjustStart
  split
  · split <;> rfl
  · rfl

theorem adjustSlot_classes (c : Ctx) (d : Int) (so : Option Nat) : (adjustSlot c d so).1.classes = c.classes := by
  unfold adjustSlot
  cases so with
  | some x =>
    simp only []
    split
    · exact adjustBack_classes _ _ _ _
    · split
      · exact adjustFwd_classes _ _ _ _
      · rfl
  | none =>
    simp only []
    split
    · rw [adjustBack_classes]; exact adjustStart_classes c d
    · split
      · rw [adjustFwd_classes]; exact adjustStart_classes c d
      · exact adjustStart_classes c d

theorem noteLoop_classes (c : Ctx) (a b : Nat) : (noteLoop c a b).classes = c.classes := by
  unfold noteLoop; simp only []; split <;> rfl

/-- `PGid` depends on the segment and the class map only -/
theorem PGid_frame {N : Nat} {K : Array (List Nat)} {c c' : Ctx} (h : PGid N K c) (hs : c'.seg = c.seg) (hc : c'.classes = c.classes) : PGid N K c' :=
  ⟨by rw [hc]; exact h.1, by rw [hs]; exact h.2⟩

section engine
variable {N : Nat} {K : Array (List Nat)} (hN : 0 < N) (hK : ClassesOK N K)
include hN hK

theorem findNDoRule_PGid (p : PassT) (c : Ctx) (slot : Nat) (h : PGid N K c)
    {c' : Ctx} {s' : Option Nat} {st : Status} (e : findNDoRule p c slot = .ok (c', s', st)) : PGid N K c' := by
  have f1 := runFSM_seg p c slot
  have f2 := runFSM_classes p c slot
  unfold findNDoRule at e
  revert f1 f2 e
  generalize runFSM p c slot = r
  obtain ⟨ok, c1, rules⟩ := r
  intro e f1 f2
  simp only [] at f1 f2 e
  have h1 : PGid N K c1 := PGid_frame h f1 f2
  split at e
  · cases e; exact h1
  · split at e
    · cases e
    · split at e
      · cases e; exact h1
      · cases e; exact h1
    · split at e
      · cases e; exact h1
      · split at e
        · cases e
        · rename_i k hk
          split at e
          · cases e
          · rename_i ret status slotOut c2 hact
            have h2 : PGid N K c2 := doAction_gid hN hK _ _ _ _ _ h1 hact
            split at e
            · cases e; exact h2
            · have a1 := adjustSlot_seg c2 ret slotOut
              have a2 := adjustSlot_classes c2 ret slotOut
              revert a1 a2 e
              generalize adjustSlot c2 ret slotOut = ar
              obtain ⟨c3, so3⟩ := ar
              intro e a1 a2
              simp only [] at a1 a2 e
              cases e
              exact PGid_frame h2 a1 a2

theorem ruleLoop_PGid (p : PassT) : ∀ (fuel : Nat) (c : Ctx) (s : Nat) (lc : Int) (it : Nat),
    PGid N K c → ∀ {c' : Ctx} {n : Nat}, ruleLoop p fuel c s lc it = .ok (some c', n) → PGid N K c' := by
  intro fuel
  induction fuel with
  | zero => intro c s lc it _ c' n e; unfold ruleLoop at e; cases e
  | succ f ih =>
    intro c s lc it h c' n e
    unfold ruleLoop at e
    split at e
    · cases e
    · rename_i c1 s1 st hf
      have h1 : PGid N K c1 := findNDoRule_PGid hN hK p c s h hf
      split at e
      · cases e
      · split at e
        · cases e; exact h1
        · rename_i s2
          simp only [] at e
          by_cases hit : (some s2 = c1.highwater ∨ c1.highpassed = true)
          · simp only [hit, if_true, true_or] at e
            split at e
            · exact ih _ _ _ _ (show PGid N K (c1.restartAt _) from ⟨h1.1, h1.2⟩) e
            · cases e; exact h1
          · simp only [hit, if_false, false_or] at e
            split at e
            · split at e
              · exact ih _ _ _ _ (show PGid N K (c1.restartAt _) from ⟨h1.1, h1.2⟩) e
              · cases e; exact h1
            · exact ih _ _ _ _ h1 e

theorem runPass_PGid (p : PassT) (c : Ctx) (fuel : Nat) (h : PGid N K c) {c' : Ctx}
    (e : runPass p c fuel = .ok (some c')) : PGid N K c' := by
  unfold runPass at e
  split at e
  · cases e; exact h
  · split at e
    · cases e; exact h
    · simp only [] at e
      split at e
      · cases e
      · cases e
      · rename_i c2 it hr
        cases e
        have := ruleLoop_PGid hN hK p _ _ _ _ 0 (show PGid N K (c.restartAt _) from ⟨h.1, h.2⟩) hr
        exact PGid_frame this (noteLoop_seg _ _ _) (noteLoop_classes _ _ _)

omit hN hK in
theorem reverse_gid (s : Seg) (mark : Nat → Bool) (h : GidOK N s) : GidOK N (s.reverseSlots mark) := by
  have hs := reverseSlots_same s mark
  intro j
  have := hs.slot j
  unfold LinkOnly at this
  rw [this]
  exact h j

theorem runPassDir_PGid (p : PassT) (c : Ctx) (fuel : Nat) (ar : Bool) (h : PGid N K c) {c' : Ctx}
    (e : runPassDir p c fuel ar = .ok (some c')) : PGid N K c' := by
  unfold runPassDir at e
  split at e
  · cases e; exact h
  · simp only [] at e
    split at e
    · cases e
    · split at e
      · cases e
      · split at e
        · cases e; exact h
        · refine runPass_PGid hN hK p _ fuel ?_ e
          split
          · exact ⟨h.1, reverse_gid _ _ h.2⟩
          · exact h

theorem runPhase_PGid (passes : Array PassT) (bPass : Nat) (c : Ctx) (lo hi : Nat) (dobidi : Bool) (fuel : Nat) (h : PGid N K c)
    {c' : Ctx} (e : runPhase passes bPass c lo hi dobidi fuel 0 = .ok (some c')) : PGid N K c' := by
  refine runPhase_ind (PGid N K) passes bPass lo hi dobidi fuel 0
    (fun ar k _ _ c1 c2 h1 e1 => runPassDir_PGid hN hK _ c1 fuel ar h1 e1) (fun x l hx => ⟨hx.1, hx.2⟩) (fun x hx => ?_) c h e
  -- a font without a mirror attribute: the bidi step only turns the stream
  refine ⟨(bidiStep_classes x 0).trans hx.1, ?_⟩
  unfold bidiStep
  rw [if_neg (fun hc => hc.1 rfl)]
  unfold turnStep
  split
  · exact reverse_gid _ _ hx.2
  · exact hx.2

end engine

/-! ## `read_text` and `associateChars` -/

theorem pushBack_gid {N : Nat} {s : Seg} (h : GidOK N s) (a : Nat) : GidOK N (s.pushBack a) := by
  unfold Seg.pushBack
  simp only []
  have h1 : GidOK N (match s.last with
      | some l => s.upd l fun sl => sl.setNext (some a)
      | none => s) := by
    split
    · exact h.updKeep _ _ (fun x => setNext_gid x _)
    · exact h
  have h2 := (h1.updKeep a (fun sl => sl.setPrev s.last) (fun x => setPrev_gid x _)).setLast (some a)
  split
  · exact h2.setFirst _
  · exact h2

theorem appendSlot_gid {N : Nat} (hN : 0 < N) {s : Seg} (h : GidOK N s) (id gid g : Nat) (adv : Int) (hg : gid < N) :
    GidOK N (s.appendSlot id gid g adv) := by
  unfold Seg.appendSlot
  split
  · exact h
  · rename_i a s1 e
    have h1 := newSlot_gid hN h e
    apply pushBack_gid
    exact h1.upd _ _ hg

theorem appendAll_gid {N : Nat} (hN : 0 < N) (gf : Nat → Nat) (af : Nat → Int) (hgf : ∀ u, gf u < N) : ∀ (xs : List (Nat × Nat)) (s : Seg), GidOK N s →
    GidOK N (xs.foldl (fun s (x : Nat × Nat) => s.appendSlot x.2 (gf x.1) 64 (af x.1)) s) := by
  intro xs
  induction xs with
  | nil => intro s h; exact h
  | cons x rest ih =>
    intro s h
    simp only [List.foldl_cons]
    exact ih _ (appendSlot_gid hN h _ _ _ _ (hgf _))

/-- `read_text`: the glyph ids are the cmap's -/
theorem initSeg_gid {N : Nat} (hN : 0 < N) (font : Font) (hcm : ∀ u, font.cmap u < N) (text : List Nat) (dir : Nat := 0) : GidOK N (initSeg font text dir) := by
  unfold initSeg
  simp only []
  refine appendAll_gid hN font.cmap (fun ch => font.gadv.getD (font.cmap ch) 0) hcm text.zipIdx _ (fun j => ?_)
  rw [get_replicate_default (text.length + 10) j _ rfl]; exact hN

theorem foldl_upd_gid {α : Type} {N : Nat} (ix : α → Nat) (f : α → Slot → Slot) (hf : ∀ x a, (f x a).gid = a.gid) : ∀ (xs : List α) (s : Seg), GidOK N s →
    GidOK N (xs.foldl (fun s x => s.upd (ix x) (f x)) s) := by
  intro xs
  induction xs with
  | nil => intro s h; exact h
  | cons x rest ih =>
    intro s h
    simp only [List.foldl_cons]
    exact ih _ (h.updKeep _ _ (hf x))

theorem reassoc_gid {N : Nat} {seg seg' : Seg} {n : Nat} {ci : List Assoc.CI} (h : GidOK N seg) (e : reassoc seg n = some (seg', ci)) : GidOK N seg' := by
  unfold reassoc at e
  simp only [] at e
  split at e
  · cases e
  · simp only [Option.some.injEq, Prod.mk.injEq] at e
    rw [← e.1]
    apply foldl_upd_gid (fun (x : Nat × Nat) => x.1) (fun x sl => sl.setIndex x.2) (fun _ _ => rfl)
    exact foldl_upd_gid (fun (x : Nat × Int × Int) => x.1) (fun x sl => (sl.setBefore x.2.1).setAfter x.2.2)
      (fun x a => by rw [setAfter_gid, setBefore_gid]) _ _ h

/-- **C03, glyph-id clause, whole pipeline.**  On a font whose cmap and class map name only glyphs below `N`, whatever its passes, rules
and action programs and whatever the text, every slot record of a segment the modelled pipeline returns has a glyph id below `N`. -/
theorem shape_gid {N : Nat} (hN : 0 < N) (font : Font) (hcm : ∀ u, font.cmap u < N) (hK : ClassesOK N font.classes) (hM : font.aMirror = 0)
    (text : List Nat) (fuel : Nat) (dir : Nat) {c : Ctx} {ci : List Assoc.CI}
    (e : shape font text fuel dir = .ok (some (c, ci))) : GidOK N c.seg := by
  unfold shape at e
  split at e
  · simp only [Except.ok.injEq, Option.some.injEq, Prod.mk.injEq] at e
    rw [← e.1]
    intro j
    show (({} : Seg).get j).gid < N
    unfold Seg.get
    simp only [Array.getD_eq_getD_getElem?]
    exact hN
  · split at e
    · cases e
    · cases e
    · rename_i c1 h1
      rw [hM] at h1
      have hsm : startMirror font (initCtx font text dir) = initCtx font text dir := by
        unfold startMirror
        rw [if_neg (fun hc => hc.2.2 hM)]
      rw [hsm] at h1
      have w0 : PGid N font.classes (initCtx font text dir) := ⟨rfl, initSeg_gid hN font hcm text dir⟩
      have w1 := runPhase_PGid hN hK _ _ _ _ _ _ _ w0 h1
      split at e
      · cases e
      · rename_i seg' ci' hre
        have w2 := reassoc_gid w1.2 hre
        split at e
        · cases e
        · cases e
        · rename_i c2 h2
          rw [hM] at h2
          simp only [Except.ok.injEq, Option.some.injEq, Prod.mk.injEq] at e
          rw [← e.1]
          exact (runPhase_PGid hN hK _ _ _ _ _ _ _ (show PGid N font.classes (c1.withSeg seg') from ⟨w1.1, w2⟩) h2).2

/-! ## the hypothesis as a test that can be run -/

/-- the class map names only glyphs below `N`, so does a cmap whose values do not exceed `cmapMax`, and the font has no mirror attribute -/
def gidHypCheck (font : Font) (N cmapMax : Nat) : Bool :=
  decide (cmapMax < N) && decide (font.aMirror = 0) && font.classes.all fun l => l.all fun g => decide (g < N)

theorem gidHypCheck_spec {font : Font} {N cmapMax : Nat} (h : gidHypCheck font N cmapMax = true) : cmapMax < N ∧ font.aMirror = 0 ∧ ClassesOK N font.classes := by
  unfold gidHypCheck at h
  rw [Bool.and_eq_true, Bool.and_eq_true, decide_eq_true_eq, decide_eq_true_eq] at h
  refine ⟨h.1.1, h.1.2, fun l hl g hg => ?_⟩
  have := (Array.all_eq_true_iff_forall_mem.1 h.2) l hl
  have := (List.all_eq_true.1 this) g hg
  simpa using this

/-- the cmap of the fonts `tools/fontsynth.py` builds (and of the shape driver): `a`…`i` ↦ glyphs 1…9 -/
def synthCmap (ch : Nat) : Nat := if 0x61 ≤ ch ∧ ch ≤ 0x69 then ch - 0x60 else 0

theorem synthCmap_le (ch : Nat) : synthCmap ch ≤ 9 := by unfold synthCmap; split <;> omega

end GrVerif.Pass

import GrVerif.Proofs.HeapStream2
set_option linter.unusedVariables false
set_option linter.unusedSimpArgs false
namespace GrVerif.Action
open GrVerif.Vm GrVerif.Seg GrVerif.Gen.Vm

/-- stream invariant without the `is` register (between rule actions) -/
def QS (s : Seg) : Prop := ∃ l, Linked s l ∧ Clean s l

theorem freeSlot_QS {s : Seg} {l : List Nat} (hl : Linked s l) (hc : Clean s l) (a : Nat)
    (hf : (s.get a).deleted = true ∨ (s.get a).copied = true) : Linked (s.freeSlot a) l ∧ Clean (s.freeSlot a) l ∧
      (∀ j, j ≠ a → ((s.freeSlot a).get j).next = (s.get j).next ∧ ((s.freeSlot a).get j).prev = (s.get j).prev ∧
        ((s.freeSlot a).get j).deleted = (s.get j).deleted ∧ ((s.freeSlot a).get j).copied = (s.get j).copied) ∧
      (s.freeSlot a).slots.size = s.slots.size ∧ (s.freeSlot a).free = a :: s.free := by
  have hal : a ∉ l := fun hh => by
    have := hc.live a hh
    rcases hf with hf | hf
    · rw [this.1] at hf; cases hf
    · rw [this.2] at hf; cases hf
  have has : a < s.slots.size := by
    apply Classical.byContradiction
    intro hn
    rw [get_oob s a (by omega)] at hf
    rcases hf with hf | hf <;> cases hf
  have hafree : a ∉ s.free := fun hh => by
    have := hc.freeClean a hh
    rcases hf with hf | hf
    · rw [this.2.1] at hf; cases hf
    · rw [this.2.2] at hf; cases hf
  have hde : s.dropEnds a = s := by
    unfold Seg.dropEnds
    simp only []
    have h1 : ¬ s.last = some a := fun hh => hal (getLast?_mem (by rw [← hl.last]; exact hh))
    have h2 : ¬ s.first = some a := fun hh => hal (head?_mem (by rw [← hl.first]; exact hh))
    rw [if_neg h1, if_neg h2]
  unfold Seg.freeSlot
  simp only []
  rw [hde]
  have hT : SameT s (detachChildren (s.unchild a) a ((s.unchild a).slots.size + 1)) := by
    refine SameT.tr ?_ (detachChildren_same _ _ _)
    unfold Seg.unchild
    split
    · exact removeChild_same _ _ _
    · exact SameT.rfl' _
  have ss := StreamSame.ofSameT hT
  have l1 := hl.same ss
  have c1 := hc.same ss
  revert l1 c1
  have hsz := ss.size
  have hfr := ss.free
  have hsl := ss.slot
  revert hsz hfr hsl
  generalize (detachChildren (s.unchild a) a ((s.unchild a).slots.size + 1)) = t
  intro hsz hfr hsl l1 c1
  unfold Seg.recycle
  have has' : a < t.slots.size := by rw [hsz]; exact has
  have hafree' : a ∉ t.free := by rw [hfr]; exact hafree
  have gne : ∀ j, j ≠ a → ({ (t.upd a fun _ => { next := t.free.head? }) with free := a :: t.free } : Seg).get j = t.get j :=
    fun j hj => get_upd_ne t a j _ hj
  have ga : ({ (t.upd a fun _ => { next := t.free.head? }) with free := a :: t.free } : Seg).get a = { next := t.free.head? } :=
    get_upd_self t a _ has'
  refine ⟨⟨l1.nodup, fun x hx => by simpa using l1.inb x hx, l1.first, l1.last, ?_⟩, ?_, ?_, by simp [hsz], by simp [hfr]⟩
  rotate_left 2
  · intro j hj
    rw [gne j hj]
    exact ⟨(hsl j).1, (hsl j).2.1, (hsl j).2.2.1, (hsl j).2.2.2⟩
  · exact chain_congr (fun j hj => by rw [gne j (fun hh => hal (hh ▸ hj))]; exact ⟨rfl, rfl⟩) l1.chain
  · refine ⟨fun j hj => ?_, ?_, ?_, ?_, ?_, c1.count⟩
    · rw [gne j (fun hh => hal (hh ▸ hj))]; exact c1.live j hj
    · exact List.nodup_cons.mpr ⟨hafree', c1.freeNodup⟩
    · intro f hf'
      rcases List.mem_cons.mp hf' with hf' | hf'
      · rw [hf']; simpa using has'
      · simpa using c1.freeInb f hf'
    · intro f hf'
      rcases List.mem_cons.mp hf' with hf' | hf'
      · rw [hf']; exact hal
      · exact c1.freeOut f hf'
    · intro f hf'
      rcases List.mem_cons.mp hf' with hf' | hf'
      · rw [hf', ga]; exact ⟨rfl, rfl, rfl⟩
      · have hfa : f ≠ a := fun hh => hafree' (hh ▸ hf')
        rw [gne f hfa]; exact c1.freeClean f hf'

theorem gcStep_QS (acc : Ctx × Option Nat) (k : Nat) (h : QS acc.1.seg) : QS (gcStep acc k).1.seg := by
  unfold gcStep
  split
  · simp only []
    split
    · rename_i hfl
      obtain ⟨l, hl, hc⟩ := h
      have := freeSlot_QS hl hc _ (by simpa using hfl)
      exact ⟨l, this.1, this.2.1⟩
    · exact h
  · exact h

theorem gc_QS (c : Ctx) (a : Option Nat) (h : QS c.seg) : QS (collectGarbage c a).1.seg := by
  rw [collectGarbage_fst]; unfold gcCells
  generalize (List.range (c.size - 1)) = ks
  have : ∀ (ks : List Nat) (acc : Ctx × Option Nat), QS acc.1.seg → QS (ks.foldl gcStep acc).1.seg := by
    intro ks
    induction ks with
    | nil => intro acc h; exact h
    | cons k rest ih => intro acc h; exact ih _ (gcStep_QS acc k h)
  exact this ks (c, a) h

theorem PS.toQS {c : Ctx} (h : PS c) : QS c.seg := by obtain ⟨l, hj⟩ := h; exact ⟨l, hj.linked, hj.clean⟩

theorem finishAction_QS (s : St) (dl : Bool) (h : QS s.ctx.seg)
    {r : Int} {st : Status} {so : Option Nat} {c : Ctx} (e : finishAction s dl = .ok (r, st, so, c)) : QS c.seg := by
  unfold finishAction at e
  simp only [] at e
  split at e
  · cases e
  · split at e
    · cases e
    · split at e
      · cases e; exact h
      · split at e
        · cases e; exact gc_QS _ _ h
        · cases e; exact h

/-- what a rule action hands back: the stream `l` is well formed, the high-water mark is in it, and the slot `so` it
returns is null, a slot of the stream, or the deleted former first slot -/
def JO (c : Ctx) (l : List Nat) (so : Option Nat) : Prop := J (c.setIs so) l

theorem JO.mk' {c : Ctx} {l : List Nat} {so : Option Nat} (hl : Linked c.seg l) (hc : Clean c.seg l) (hi : IsOK c.seg l so)
    (hh : HwOK c.highwater l) (ha : Alloc c.seg l) : JO c l so := ⟨hl, hc, hi, hh, ha⟩
theorem JO.alloc {c : Ctx} {l : List Nat} {so : Option Nat} (h : JO c l so) : Alloc c.seg l := (show J (c.setIs so) l from h).alloc

/-- freeing a marked slot: every other slot in use keeps its flags, and the freed one is no longer in use -/
theorem freeSlot_alloc {s : Seg} {l : List Nat} (hl : Linked s l) (hc : Clean s l) (ha : Alloc s l) (a : Nat)
    (hf : (s.get a).deleted = true ∨ (s.get a).copied = true) : Alloc (s.freeSlot a) l := by
  obtain ⟨_, _, hfr, hsz, hfree⟩ := freeSlot_QS hl hc a hf
  intro j h1 h2 h3 h4
  rw [hsz] at h1; rw [hfree] at h2
  have hja : j ≠ a := fun hh => h2 (by rw [hh]; exact List.mem_cons_self)
  rw [(hfr j hja).2.2.2] at h3; rw [(hfr j hja).2.2.1] at h4
  exact ha j h1 (fun hh => h2 (List.mem_cons_of_mem _ hh)) h3 h4
theorem JO.linked {c : Ctx} {l : List Nat} {so : Option Nat} (h : JO c l so) : Linked c.seg l := (show J (c.setIs so) l from h).linked
theorem JO.clean {c : Ctx} {l : List Nat} {so : Option Nat} (h : JO c l so) : Clean c.seg l := (show J (c.setIs so) l from h).clean
theorem JO.isok {c : Ctx} {l : List Nat} {so : Option Nat} (h : JO c l so) : IsOK c.seg l so := (show J (c.setIs so) l from h).isok
theorem JO.hw {c : Ctx} {l : List Nat} {so : Option Nat} (h : JO c l so) : HwOK c.highwater l := (show J (c.setIs so) l from h).hw

/-- freeing a marked slot moves a cursor that sat on it to a neighbour, and the cursor stays where a cursor may be -/
theorem freeSlot_isok {s : Seg} {l : List Nat} (hl : Linked s l) (hc : Clean s l) (a : Nat)
    (hf : (s.get a).deleted = true ∨ (s.get a).copied = true) (o : Option Nat) (ho : IsOK s l o) :
    IsOK (s.freeSlot a) l
      (if o = some a then (s.get a).prev.or (s.get a).next else o) := by
  have hal : a ∉ l := fun hh => by
    have := hc.live a hh
    rcases hf with hf | hf
    · rw [this.1] at hf; cases hf
    · rw [this.2] at hf; cases hf
  obtain ⟨_, _, hfr, _, _⟩ := freeSlot_QS hl hc a hf
  split
  · rename_i hoa
    rcases ho with h0 | ⟨i, h1, h2⟩ | ⟨d, h1, h2, h3, h4, h5, h6⟩
    · rw [h0] at hoa; cases hoa
    · rw [h1] at hoa; cases hoa; exact absurd h2 hal
    · rw [h1] at hoa; cases hoa
      rw [h5, Option.none_or, h4]
      exact isok_opt_mem (fun x hx => head?_mem hx)
  · rename_i hoa
    rcases ho with h0 | ⟨i, h1, h2⟩ | ⟨d, h1, h2, h3, h4, h5, h6⟩
    · exact .inl h0
    · exact .inr (.inl ⟨i, h1, h2⟩)
    · have hda : d ≠ a := fun e => hoa (by rw [h1, e])
      have := hfr d hda
      exact .inr (.inr ⟨d, h1, h2, by rw [this.2.2.1]; exact h3, by rw [this.1]; exact h4, by rw [this.2.1]; exact h5, by rw [this.2.2.2]; exact h6⟩)

theorem gcStep_JO (acc : Ctx × Option Nat) (k : Nat) {l : List Nat} (h : JO acc.1 l acc.2) :
    JO (gcStep acc k).1 l (gcStep acc k).2 := by
  unfold gcStep
  split
  · simp only []
    split
    · rename_i sl hsl hfl
      have hf : (acc.1.seg.get sl).deleted = true ∨ (acc.1.seg.get sl).copied = true := by simpa using hfl
      obtain ⟨h1, h2, _⟩ := freeSlot_QS h.linked h.clean sl hf
      have h3 := freeSlot_isok h.linked h.clean sl hf acc.2 h.isok
      have h4 := freeSlot_alloc h.linked h.clean h.alloc sl hf
      exact JO.mk' (by simpa using h1) (by simpa using h2) (by simpa using h3) (by simpa using h.hw) (by simpa using h4)
    · exact h
  · exact h

theorem gcCells_JO (c : Ctx) (a : Option Nat) {l : List Nat} (h : JO c l a) :
    JO (gcCells c a).1 l (gcCells c a).2 := by
  unfold gcCells
  generalize (List.range (c.size - 1)) = ks
  have : ∀ (ks : List Nat) (acc : Ctx × Option Nat), JO acc.1 l acc.2 → JO (ks.foldl gcStep acc).1 l (ks.foldl gcStep acc).2 := by
    intro ks
    induction ks with
    | nil => intro acc h; exact h
    | cons k rest ih => intro acc h; exact ih _ (gcStep_JO acc k h)
  exact this ks (c, a) h

/-- the last step of `collectGarbage`: a cursor on the deleted former first slot moves to the head of the stream, so the
cursor handed back is null or a slot of the stream -/
theorem offDeleted_mem {r : Ctx × Option Nat} {l : List Nat} (h : JO r.1 l r.2) : ∀ x, (offDeleted r).2 = some x → x ∈ l := by
  intro x hx
  unfold offDeleted at hx
  rcases h.isok with h0 | ⟨i, h1, h2⟩ | ⟨d, h1, h2, h3, h4, h5, h6⟩
  · rw [h0] at hx; simp only [] at hx; rw [h0] at hx; cases hx
  · rw [h1] at hx
    simp only [] at hx
    rw [(h.clean.live i h2).1] at hx
    simp only [Bool.false_eq_true, if_false] at hx
    rw [h1] at hx; cases hx; exact h2
  · rw [h1] at hx
    simp only [] at hx
    rw [h3] at hx
    simp only [if_true] at hx
    rw [h5, Option.none_or, h4] at hx
    exact head?_mem hx

theorem offDeleted_live {r : Ctx × Option Nat} {l : List Nat} (h : JO r.1 l r.2) (hc : r.2 = none ∨ ∃ x, r.2 = some x ∧ x ∈ l) :
    offDeleted r = r := by
  unfold offDeleted
  rcases hc with h0 | ⟨x, h1, h2⟩
  · rw [h0]
  · rw [h1]
    simp only []
    rw [(h.clean.live x h2).1]
    simp

theorem gc_mem (c : Ctx) (a : Option Nat) {l : List Nat} (h : JO c l a) : ∀ x, (collectGarbage c a).2 = some x → x ∈ l :=
  offDeleted_mem (gcCells_JO c a h)

theorem gc_JO (c : Ctx) (a : Option Nat) {l : List Nat} (h : JO c l a) :
    JO (collectGarbage c a).1 l (collectGarbage c a).2 := by
  have h1 := gcCells_JO c a h
  have h2 := gc_mem c a h
  rw [collectGarbage_fst]
  exact JO.mk' h1.linked h1.clean (isok_opt_mem h2) h1.hw h1.alloc

/-- `*map = is` followed by reading the cell back -/
theorem storeIs_read (c : Ctx) (h : 0 ≤ c.map ∧ c.map.toNat < c.smap.size) :
    c.storeIs.smap.getD c.storeIs.map.toNat none = c.is := by
  unfold Ctx.storeIs Ctx.setCell
  simp only []
  simp [Array.getD_eq_getD_getElem?, h.2]

theorem finishAction_JO (s : St) (dl : Bool) {l : List Nat} (h : J s.ctx l)
    {r : Int} {st : Status} {so : Option Nat} {c : Ctx} (e : finishAction s dl = .ok (r, st, so, c)) : JO c l so := by
  unfold finishAction at e
  simp only [] at e
  split at e
  · cases e
  · rename_i hb
    have hb' : 0 ≤ s.ctx.map ∧ s.ctx.map.toNat < s.ctx.smap.size := by
      apply Classical.byContradiction; intro hn; exact hb hn
    have hrd := storeIs_read s.ctx hb'
    have hbase : JO s.ctx.storeIs l (s.ctx.storeIs.smap.getD s.ctx.storeIs.map.toNat none) := by
      rw [hrd]; exact JO.mk' h.linked h.clean h.isok h.hw h.alloc
    split at e
    · cases e
    · split at e
      · cases e
        exact JO.mk' h.linked h.clean (.inl rfl) (fun x hx => by cases hx) h.alloc
      · split at e
        · cases e; exact gc_JO _ _ hbase
        · cases e; exact hbase

/-- **C03, rule actions (with the cursor).** If the glyph stream is a well-formed doubly linked list `l` before a rule's
action runs, the high-water mark is a slot of it and the slot map's current cell holds a slot a cursor may be at, then
after the action – any instruction list, any outcome – and the garbage collection that follows, the stream is again a
well-formed doubly linked list `l'`, the high-water mark is a slot of it, and so is the slot handed back (or it is null
or the deleted former first slot). -/
theorem doAction_cursor {is : List Instr} {dl : Bool} {mr : Nat} {data : List Nat} {ctx : Ctx} {l : List Nat}
    (hl : Linked ctx.seg l) (hc : Clean ctx.seg l) (hh : HwOK ctx.highwater l)
    (hcell : IsOK ctx.seg l (ctx.smap.getD ((ctx.context : Int) + 1).toNat none)) (ha : Alloc ctx.seg l)
    {r : Int} {st : Status} {so : Option Nat} {c : Ctx}
    (e : doAction is dl mr data ctx = .ok (r, st, so, c)) : ∃ l', JO c l' so := by
  unfold doAction at e
  simp only [] at e
  split at e
  · cases e; exact ⟨l, JO.mk' hl hc (.inl rfl) (fun x hx => by cases hx) ha⟩
  · have h0 : PS (enterCtx (startCtx ctx)) := ⟨l, ⟨hl, hc, hcell, hh, ha⟩⟩
    have hr := runLoop_preserves PS ops_PS is { vm := initVm data, ctx := enterCtx (startCtx ctx) } h0
    split at e
    · cases e
    · rename_i s heq
      rw [heq] at hr
      obtain ⟨l', hj⟩ := hr
      exact ⟨l', finishAction_JO s dl hj e⟩

/-- **C03, rule actions.** If the glyph stream is a well-formed doubly linked list `l` before a rule's action runs and the
slot map's current cell holds a slot of the stream, then after the action – any instruction list, any outcome – and the
garbage collection that follows it the stream is again a well-formed doubly linked list whose length is the glyph count. -/
theorem doAction_stream {is : List Instr} {dl : Bool} {mr : Nat} {data : List Nat} {ctx : Ctx} {l : List Nat}
    (hl : Linked ctx.seg l) (hc : Clean ctx.seg l) (hh : HwOK ctx.highwater l)
    (hmap : ∀ x, ctx.smap.getD ((ctx.context : Int) + 1).toNat none = some x → x ∈ l) (ha : Alloc ctx.seg l)
    {r : Int} {st : Status} {so : Option Nat} {c : Ctx}
    (e : doAction is dl mr data ctx = .ok (r, st, so, c)) : QS c.seg := by
  obtain ⟨l', h⟩ := doAction_cursor hl hc hh (isok_opt_mem hmap) ha e
  exact ⟨l', h.linked, h.clean⟩

end GrVerif.Action

import GrVerif.Proofs.HeapStream2
set_option linter.unusedVariables false
set_option linter.unusedSimpArgs false
namespace GrVerif.Action
open GrVerif.Vm GrVerif.Seg GrVerif.Gen.Vm

/-- stream invariant without the `is` register (between rule actions) -/
def QS (s : Seg) : Prop := ∃ l, Linked s l ∧ Clean s l

theorem freeSlot_QS {s : Seg} {l : List Nat} (hl : Linked s l) (hc : Clean s l) (a : Nat)
    (hf : (s.get a).deleted = true ∨ (s.get a).copied = true) : Linked (s.freeSlot a) l ∧ Clean (s.freeSlot a) l := by
  have hal : a ∉ l := fun hh => by
    have := hc.live a hh
    rcases hf with hf | hf
    · rw [this.1] at hf; cases hf
    · rw [this.2] at hf; cases hf
  have has : a < s.slots.size := by
    apply Classical.byContradiction
    intro hn
    rw [get_oob s a (by omega)] at hf
    rcases hf with hf | hf <;> cases hf
  have hafree : a ∉ s.free := fun hh => by
    have := hc.freeClean a hh
    rcases hf with hf | hf
    · rw [this.2.1] at hf; cases hf
    · rw [this.2.2] at hf; cases hf
  have hde : s.dropEnds a = s := by
    unfold Seg.dropEnds
    simp only []
    have h1 : ¬ s.last = some a := fun hh => hal (getLast?_mem (by rw [← hl.last]; exact hh))
    have h2 : ¬ s.first = some a := fun hh => hal (head?_mem (by rw [← hl.first]; exact hh))
    rw [if_neg h1, if_neg h2]
  unfold Seg.freeSlot
  simp only []
  rw [hde]
  have hT : SameT s (detachChildren (s.unchild a) a ((s.unchild a).slots.size + 1)) := by
    refine SameT.tr ?_ (detachChildren_same _ _ _)
    unfold Seg.unchild
    split
    · exact removeChild_same _ _ _
    · exact SameT.rfl' _
  have ss := StreamSame.ofSameT hT
  have l1 := hl.same ss
  have c1 := hc.same ss
  revert l1 c1
  have hsz := ss.size
  have hfr := ss.free
  revert hsz hfr
  generalize (detachChildren (s.unchild a) a ((s.unchild a).slots.size + 1)) = t
  intro hsz hfr l1 c1
  unfold Seg.recycle
  have has' : a < t.slots.size := by rw [hsz]; exact has
  have hafree' : a ∉ t.free := by rw [hfr]; exact hafree
  have gne : ∀ j, j ≠ a → ({ (t.upd a fun _ => { next := t.free.head? }) with free := a :: t.free } : Seg).get j = t.get j :=
    fun j hj => get_upd_ne t a j _ hj
  have ga : ({ (t.upd a fun _ => { next := t.free.head? }) with free := a :: t.free } : Seg).get a = { next := t.free.head? } :=
    get_upd_self t a _ has'
  refine ⟨⟨l1.nodup, fun x hx => by simpa using l1.inb x hx, l1.first, l1.last, ?_⟩, ?_⟩
  · exact chain_congr (fun j hj => by rw [gne j (fun hh => hal (hh ▸ hj))]; exact ⟨rfl, rfl⟩) l1.chain
  · refine ⟨fun j hj => ?_, ?_, ?_, ?_, ?_, c1.count⟩
    · rw [gne j (fun hh => hal (hh ▸ hj))]; exact c1.live j hj
    · exact List.nodup_cons.mpr ⟨hafree', c1.freeNodup⟩
    · intro f hf'
      rcases List.mem_cons.mp hf' with hf' | hf'
      · rw [hf']; simpa using has'
      · simpa using c1.freeInb f hf'
    · intro f hf'
      rcases List.mem_cons.mp hf' with hf' | hf'
      · rw [hf']; exact hal
      · exact c1.freeOut f hf'
    · intro f hf'
      rcases List.mem_cons.mp hf' with hf' | hf'
      · rw [hf', ga]; exact ⟨rfl, rfl, rfl⟩
      · have hfa : f ≠ a := fun hh => hafree' (hh ▸ hf')
        rw [gne f hfa]; exact c1.freeClean f hf'

theorem gcStep_QS (acc : Ctx × Option Nat) (k : Nat) (h : QS acc.1.seg) : QS (gcStep acc k).1.seg := by
  unfold gcStep
  split
  · simp only []
    split
    · rename_i hfl
      obtain ⟨l, hl, hc⟩ := h
      have := freeSlot_QS hl hc _ (by simpa using hfl)
      exact ⟨l, this.1, this.2⟩
    · exact h
  · exact h

theorem gc_QS (c : Ctx) (a : Option Nat) (h : QS c.seg) : QS (collectGarbage c a).1.seg := by
  unfold collectGarbage
  generalize (List.range (c.size - 1)) = ks
  have : ∀ (ks : List Nat) (acc : Ctx × Option Nat), QS acc.1.seg → QS (ks.foldl gcStep acc).1.seg := by
    intro ks
    induction ks with
    | nil => intro acc h; exact h
    | cons k rest ih => intro acc h; exact ih _ (gcStep_QS acc k h)
  exact this ks (c, a) h

theorem PS.toQS {c : Ctx} (h : PS c) : QS c.seg := by obtain ⟨l, hj⟩ := h; exact ⟨l, hj.linked, hj.clean⟩

theorem finishAction_QS (s : St) (dl : Bool) (h : QS s.ctx.seg)
    {r : Int} {st : Status} {so : Option Nat} {c : Ctx} (e : finishAction s dl = .ok (r, st, so, c)) : QS c.seg := by
  unfold finishAction at e
  simp only [] at e
  split at e
  · cases e
  · split at e
    · cases e
    · split at e
      · cases e; exact h
      · split at e
        · cases e; exact gc_QS _ _ h
        · cases e; exact h

/-- **C03, rule actions.** If the glyph stream is a well-formed doubly linked list `l` before a rule's action runs and the
slot map's current cell holds a slot of the stream, then after the action – any instruction list, any outcome – and the
garbage collection that follows it the stream is again a well-formed doubly linked list whose length is the glyph count. -/
theorem doAction_stream {is : List Instr} {dl : Bool} {mr : Nat} {data : List Nat} {ctx : Ctx} {l : List Nat}
    (hl : Linked ctx.seg l) (hc : Clean ctx.seg l)
    (hmap : ∀ x, ctx.smap.getD ((ctx.context : Int) + 1).toNat none = some x → x ∈ l)
    {r : Int} {st : Status} {so : Option Nat} {c : Ctx}
    (e : doAction is dl mr data ctx = .ok (r, st, so, c)) : QS c.seg := by
  unfold doAction at e
  simp only [] at e
  split at e
  · cases e; exact ⟨l, hl, hc⟩
  · have h0 : PS (enterCtx (startCtx ctx)) := ⟨l, ⟨hl, hc, isok_opt_mem hmap⟩⟩
    have hr := runLoop_preserves PS ops_PS is { vm := initVm data, ctx := enterCtx (startCtx ctx) } h0
    split at e
    · cases e
    · rename_i s heq
      rw [heq] at hr
      exact finishAction_QS s dl hr.toQS e

end GrVerif.Action

import GrVerif.Model.Borrow
set_option linter.unusedVariables false
set_option linter.unusedSimpArgs false
namespace GrVerif.Borrow

/-- what is outstanding after a log (newest event first): `(borrowed, owned)`; `none` = the discipline was broken -/
def stateOf : List Ev → Option (List Nat × List Nat)
  | [] => some ([], [])
  | e :: older =>
    match stateOf older with
    | none => none
    | some (b, o) =>
      match e with
      | .get id => if b.contains id ∨ o.contains id then none else some (id :: b, o)
      | .rel id => if b.contains id then some (b.erase id, o) else none
      | .alloc id => if o.contains id ∨ b.contains id then none else some (b, id :: o)
      | .free id => if o.contains id then some (b, o.erase id) else none

def borrowedOf (t : Tbl) : List Nat := match t.p with | some id => if t.compressed then [] else [id] | none => []
def ownedOf (t : Tbl) : List Nat := match t.p with | some id => if t.compressed then [id] else [] | none => []

/-- the invariant of one live table object: the log is disciplined so far, what is outstanding is exactly what the table
holds, and every id in use is below the allocation counter -/
def Inv (w : World) (t : Tbl) : Prop :=
  stateOf w.log = some (borrowedOf t, ownedOf t) ∧ (∀ id, t.p = some id → id < w.next)

theorem release_inv (w : World) (t : Tbl) (h : Inv w t) :
    stateOf (release w t).1.log = some ([], []) ∧ (release w t).2.p = none ∧ (release w t).1.next = w.next := by
  unfold Inv at h
  unfold release
  cases hp : t.p with
  | none => simp [hp, borrowedOf, ownedOf] at h ⊢; exact h
  | some id =>
    cases hc : t.compressed <;> simp [hp, hc, borrowedOf, ownedOf, stateOf] at h ⊢ <;> simp [h.1]

/-- two live objects during a move-assignment: the old value `t` and the temporary `tmp` -/
def Inv2 (w : World) (t tmp : Tbl) : Prop :=
  stateOf w.log = some (borrowedOf tmp ++ borrowedOf t, ownedOf tmp ++ ownedOf t) ∧
  (∀ id, t.p = some id → id < w.next) ∧ (∀ id, tmp.p = some id → id < w.next) ∧
  (∀ a b, t.p = some a → tmp.p = some b → a ≠ b)

theorem ctor_inv2 (w : World) (t : Tbl) (q : Params) (h : Inv w t) : Inv2 (ctor w q).1 t (ctor w q).2 := by
  obtain ⟨hs, hb⟩ := h
  unfold Inv2
  cases hp : t.p with
  | none =>
    obtain ⟨pr, ck, wd, dz⟩ := q
    cases pr <;> cases ck <;> cases wd <;> cases dz <;>
      simp [ctor, release, decompress, stateOf, borrowedOf, ownedOf, hp, hs] at hs ⊢ <;> (try omega)
  | some id =>
    have hid := hb id hp
    have h1 : ¬ w.next = id := by omega
    have h2 : ¬ id = w.next := by omega
    have h3 : ¬ w.next + 1 = id := by omega
    have h4 : ¬ id = w.next + 1 := by omega
    obtain ⟨pr, ck, wd, dz⟩ := q
    cases hc : t.compressed <;> cases pr <;> cases ck <;> cases wd <;> cases dz <;>
      simp [ctor, release, decompress, stateOf, borrowedOf, ownedOf, hp, hc, hs, h1, h2, h3, h4] at hs ⊢ <;> (try omega)

end GrVerif.Borrow

namespace GrVerif.Borrow

theorem release_old_inv (w : World) (t tmp : Tbl) (h : Inv2 w t tmp) : Inv (release w t).1 tmp := by
  obtain ⟨hs, h1, h2, h3⟩ := h
  unfold Inv release
  cases hp : t.p with
  | none => simp [hp, borrowedOf, ownedOf] at hs ⊢; exact ⟨hs, h2⟩
  | some a =>
    cases hq : tmp.p with
    | none =>
      cases hc : t.compressed <;> simp [hp, hq, hc, borrowedOf, ownedOf, stateOf] at hs ⊢ <;> simp [hs]
    | some b =>
      have hne : a ≠ b := h3 a b hp hq
      have hne' : ¬ b = a := fun e => hne e.symm
      have hb := h2 b hq
      cases hc : t.compressed <;> cases hd : tmp.compressed <;>
        simp [hp, hq, hc, hd, borrowedOf, ownedOf, stateOf, hne, hne'] at hs ⊢ <;> simp [hs, hne, hne', List.erase_cons] <;>
        (first | exact hb | skip)

theorem ctor_inv (q : Params) : Inv (ctor {} q).1 (ctor {} q).2 := by
  obtain ⟨pr, ck, wd, dz⟩ := q
  cases pr <;> cases ck <;> cases wd <;> cases dz <;>
    simp [Inv, ctor, release, decompress, stateOf, borrowedOf, ownedOf]

/-- **C16, one table object.** However the table was obtained (absent, failing its check, compressed with any outcome of the
decoder) and however often it is re-assigned from freshly constructed tables, when it is finally destroyed every pointer
obtained from `get_table` has been passed to `release_table` exactly once – never twice, never one that was not
outstanding – and every buffer the library allocated for a decompressed table has been freed exactly once. -/
theorem life_disciplined (q : Params) (moves : List Params) : stateOf (life q moves).log = some ([], []) := by
  unfold life
  have h0 := ctor_inv q
  revert h0
  generalize (ctor {} q) = wt
  intro h0
  have gen : ∀ (ms : List Params) (wt : World × Tbl), Inv wt.1 wt.2 →
      Inv (ms.foldl (fun (acc : World × Tbl) m =>
        let (w, tmp) := ctor acc.1 m
        let (w, _) := release w acc.2
        (w, tmp)) wt).1 (ms.foldl (fun (acc : World × Tbl) m =>
        let (w, tmp) := ctor acc.1 m
        let (w, _) := release w acc.2
        (w, tmp)) wt).2 := by
    intro ms
    induction ms with
    | nil => intro wt h; exact h
    | cons m rest ih =>
      intro wt h
      simp only [List.foldl_cons]
      apply ih
      exact release_old_inv _ _ _ (ctor_inv2 wt.1 wt.2 m h)
  have := gen moves wt h0
  exact (release_inv _ _ this).1

end GrVerif.Borrow

namespace GrVerif.Borrow

/-- the cache holds only glyphs that are what reading them from the tables gives -/
def Consistent {G : Type} (load : Nat → Option G) (n : Nat) (c : GCache G) : Prop :=
  c.cache.length = n ∧ ∀ gid g, c.cache.getD gid none = some g → load gid = some g

theorem lazy_consistent {G : Type} (load : Nat → Option G) (n : Nat) : Consistent load n (lazy n) := by
  refine ⟨by simp [lazy], fun gid g h => ?_⟩
  simp [lazy, List.getD_eq_getElem?_getD, List.getElem?_replicate] at h
  split at h <;> simp at h

theorem glyph_consistent {G : Type} (load : Nat → Option G) (n : Nat) (c : GCache G) (gid : Nat) (h : Consistent load n c) :
    Consistent load n (glyph load c gid).2 := by
  unfold glyph
  split
  · exact h
  · split
    · exact h
    · split
      · split
        · rename_i g hg
          refine ⟨by simp [h.1], fun k x hk => ?_⟩
          simp only [List.getD_eq_getElem?_getD, List.getElem?_set] at hk
          split at hk
          · rename_i hh
            split at hk
            · simp at hk; rw [← hh, ← hk]; exact hg
            · simp at hk
          · exact h.2 k x (by simpa [List.getD_eq_getElem?_getD] using hk)
        · exact h
      · exact h

/-- **C08/C10, glyph cache.** On a font all of whose glyphs can be read, `glyph(gid)` hands out exactly what the tables say,
whatever was asked before (any consistent cache state) and whether the cache is lazy or was preloaded. -/
theorem glyph_value {G : Type} (load : Nat → Option G) (n : Nat) (c : GCache G) (gid : Nat) (h : Consistent load n c)
    (hwf : ∀ g, g < n → (load g).isSome) (hfull : c.loader = true ∨ ∀ g, g < n → (c.cache.getD g none).isSome) (hg : gid < n) :
    (glyph load c gid).1 = load gid := by
  unfold glyph
  rw [if_neg (by rw [h.1]; omega)]
  split
  · rename_i g hgg
    exact (h.2 gid g hgg).symm
  · rename_i hnone
    rcases hfull with hl | hf
    · rw [if_pos hl]
      have := hwf gid hg
      cases hld : load gid with
      | none => rw [hld] at this; cases this
      | some g => rfl
    · have := hf gid hg
      rw [hnone] at this; cases this

/-- any history of glyph requests leaves a lazy cache consistent and with its loader -/
theorem history_consistent {G : Type} (load : Nat → Option G) (n : Nat) : ∀ (hist : List Nat) (c : GCache G),
    Consistent load n c → c.loader = true →
    Consistent load n (hist.foldl (fun c g => (glyph load c g).2) c) ∧ (hist.foldl (fun c g => (glyph load c g).2) c).loader = true := by
  intro hist
  induction hist with
  | nil => intro c h hl; exact ⟨h, hl⟩
  | cons g rest ih =>
    intro c h hl
    simp only [List.foldl_cons]
    refine ih _ (glyph_consistent load n c g h) ?_
    unfold glyph
    split
    · exact hl
    · split
      · exact hl
      · cases load g <;> exact hl

theorem preload_consistent {G : Type} (load : Nat → Option G) (n : Nat) (c : GCache G) (h : preload load n = some c) :
    Consistent load n c ∧ c.loader = false ∧ ∀ g, g < n → (c.cache.getD g none).isSome := by
  unfold preload at h
  split at h
  · rename_i hall
    simp only [Option.some.injEq] at h
    subst h
    refine ⟨⟨by simp, fun gid g hg => ?_⟩, rfl, fun g hg => ?_⟩
    · simp only [List.getD_eq_getElem?_getD, List.getElem?_map, List.getElem?_range] at hg
      by_cases hlt : gid < n
      · simpa [List.getElem?_range hlt] using hg
      · simp [List.getElem?_eq_none (by simp; omega : (List.range n).length ≤ gid)] at hg
    · simp only [List.getD_eq_getElem?_getD, List.getElem?_map, List.getElem?_range hg]
      have := (List.all_eq_true.mp hall) g (List.mem_range.mpr hg)
      simpa using this
  · cases h

/-- **history independence and option independence of the glyph cache**: a probe after any history on a lazy cache gives
what a preloaded cache gives -/
theorem lazy_history_eq_preloaded {G : Type} (load : Nat → Option G) (n : Nat) (hist : List Nat) (gid : Nat) (hg : gid < n)
    (hwf : ∀ g, g < n → (load g).isSome) (cp : GCache G) (hp : preload load n = some cp) :
    (glyph load (hist.foldl (fun c g => (glyph load c g).2) (lazy n)) gid).1 = (glyph load cp gid).1 := by
  obtain ⟨hc, hl⟩ := history_consistent load n hist (lazy n) (lazy_consistent load n) rfl
  obtain ⟨pc, pl, pf⟩ := preload_consistent load n cp hp
  rw [glyph_value load n _ gid hc hwf (.inl hl) hg, glyph_value load n cp gid pc hwf (.inr pf) hg]

/-- **C09, the preloaded cache is read-only**: a request never changes it, so concurrent readers share it without a write -/
theorem preloaded_readonly {G : Type} (load : Nat → Option G) (n : Nat) (cp : GCache G) (hp : preload load n = some cp) (gid : Nat) :
    (glyph load cp gid).2 = cp := by
  obtain ⟨pc, pl, pf⟩ := preload_consistent load n cp hp
  unfold glyph
  split
  · rfl
  · split
    · rfl
    · rw [pl]; simp


/-! ## hinted-advance cache -/

/-- every cell is invalid or holds what the callback says for its glyph -/
def AdvOK {V : Type} (sent : V) (f : Nat → V) (c : List V) : Prop := ∀ g v, c[g]? = some v → v = sent ∨ v = f g

theorem advInit_ok {V : Type} (sent : V) (f : Nat → V) (n : Nat) : AdvOK sent f (advInit sent n) := by
  intro g v h
  unfold advInit at h
  rw [List.getElem?_replicate] at h
  split at h
  · cases h; exact .inl rfl
  · cases h

/-- one request: the value is the callback's, the cache stays consistent and keeps its size, and the callback is called
exactly when the cell was invalid -/
theorem advance_spec {V : Type} [DecidableEq V] (sent : V) (f : Nat → V) (c : List V) (gid : Nat) (h : AdvOK sent f c)
    (hg : gid < c.length) :
    ∃ c' called, advance sent f c gid = some (f gid, c', called) ∧ AdvOK sent f c' ∧ c'.length = c.length ∧
      (called = true ↔ c[gid]? = some sent) := by
  unfold advance
  have hv : c[gid]? = some c[gid] := List.getElem?_eq_getElem hg
  rw [hv]
  simp only []
  split
  · rename_i hs
    refine ⟨c.set gid (f gid), true, ?_, ?_, by simp, by simp [hs]⟩
    · simp [List.getD_eq_getElem?_getD, hg]
    · intro g v hgv
      rw [List.getElem?_set] at hgv
      split at hgv
      · rename_i e
        first
          | (cases hgv; exact .inr (by rw [e]))
          | (split at hgv
             · cases hgv; exact .inr (by rw [e])
             · cases hgv)
      · exact h g v hgv
  · rename_i hs
    refine ⟨c, false, ?_, h, rfl, by simp [hs]⟩
    rcases h gid c[gid] hv with h1 | h1
    · exact absurd h1 hs
    · rw [← h1]

/-- any history of requests for glyphs of the face: every answer is the callback's value for that glyph -/
theorem advRun_values {V : Type} [DecidableEq V] (sent : V) (f : Nat → V) : ∀ (ops : List Nat) (c : List V),
    AdvOK sent f c → (∀ g ∈ ops, g < c.length) →
    (advRun sent f c ops).1.map (Option.map Prod.fst) = ops.map (fun g => some (f g)) ∧ AdvOK sent f (advRun sent f c ops).2 ∧
      (advRun sent f c ops).2.length = c.length := by
  intro ops
  induction ops with
  | nil => intro c h _; exact ⟨rfl, h, rfl⟩
  | cons g rest ih =>
    intro c h hb
    obtain ⟨c', called, e, h', hl, _⟩ := advance_spec sent f c g h (hb g List.mem_cons_self)
    unfold advRun
    rw [e]
    simp only []
    obtain ⟨i1, i2, i3⟩ := ih c' h' (fun x hx => by rw [hl]; exact hb x (List.mem_cons_of_mem _ hx))
    exact ⟨by simp [i1], i2, by rw [i3, hl]⟩

end GrVerif.Borrow

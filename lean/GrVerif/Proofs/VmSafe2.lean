import GrVerif.Proofs.VmSafe
import GrVerif.Model.Pass
set_option linter.unusedVariables false
set_option linter.unusedSimpArgs false
/-!
# The machine stack under action and constraint code (C02, C07)

`Proofs/VmSafe.lean` is about the translated scalar opcode bodies.  Rule code also contains the slot opcodes of
`Model/Action.lean`, some of which pop a value or push one; and `Machine::run`'s epilogue reads `*sp`.  Here: for every
instruction list whatsoever, no step of `Action.runLoop`, and neither epilogue, reports the fault `"stack"` – the model's word
for an access outside `_stack[]`.
-/
namespace GrVerif.Action
open GrVerif.Vm GrVerif.Seg GrVerif.Gen.Vm

/-- the machine's stack geometry at the start of an instruction -/
def VOK (v : Vm) : Prop := v.stack.size = stackSize ∧ (STACK_GUARD : Int) ≤ v.sp ∧ v.sp ≤ STACK_GUARD + STACK_MAX - 1
/-- … and after one (before the `ENDOP` test) -/
def VMid (v : Vm) : Prop := v.stack.size = stackSize ∧ (STACK_GUARD : Int) - 3 ≤ v.sp ∧ v.sp ≤ STACK_GUARD + STACK_MAX

theorem VOK.mid {v : Vm} (h : VOK v) : VMid v := ⟨h.1, by have := h.2.1; omega, by have := h.2.2; omega⟩

theorem push_ok (v : Vm) (x : Int) (h : VOK v) : ∃ v', Vm.push x v = .ok () v' ∧ VMid v' := by
  have e1 : ((STACK_GUARD : Nat) : Int) = 2 := rfl
  have e2 : ((STACK_MAX : Nat) : Int) = 1024 := rfl
  obtain ⟨hs, h1, h2⟩ := h
  rw [e1] at h1 h2; rw [e2] at h2
  have hN : ((stackSize : Nat) : Int) = 1028 := rfl
  unfold Vm.push
  rw [wrStack_ok { v with sp := v.sp + 1 } (v.sp + 1) x hs (by omega) (by rw [hN]; omega)]
  refine ⟨_, rfl, by simp [hs], ?_, ?_⟩
  · rw [e1]; show (2 : Int) - 3 ≤ v.sp + 1; omega
  · rw [e1, e2]; show v.sp + 1 ≤ 2 + 1024; omega

theorem pop_ok (v : Vm) (h : VOK v) : ∃ x v', Vm.pop v = .ok x v' ∧ VMid v' := by
  have e1 : ((STACK_GUARD : Nat) : Int) = 2 := rfl
  have e2 : ((STACK_MAX : Nat) : Int) = 1024 := rfl
  obtain ⟨hs, h1, h2⟩ := h
  rw [e1] at h1 h2; rw [e2] at h2
  have hN : ((stackSize : Nat) : Int) = 1028 := rfl
  obtain ⟨x, hx⟩ := rdStack_ok v v.sp hs (by omega) (by rw [hN]; omega)
  unfold Vm.pop
  rw [hx]
  refine ⟨x, _, rfl, hs, ?_, ?_⟩
  · rw [e1]; show (2 : Int) - 3 ≤ v.sp - 1; omega
  · rw [e1, e2]; show v.sp - 1 ≤ 2 + 1024; omega

theorem VOK.withDp {v : Vm} (h : VOK v) (d : Nat) : VOK { v with dp := d } := h
theorem VOK.withStatus {v : Vm} (h : VOK v) (st : Status) : VOK { v with status := st } := h
theorem VMid.withDp {v : Vm} (h : VMid v) (d : Nat) : VMid { v with dp := d } := h

/-- an opcode's own faults are not stack faults -/
def NoStack : Outcome → Prop
  | .fault w => w ≠ "stack"
  | _ => True

theorem die_noStack (c : Ctx) : NoStack (die c) := trivial
theorem next_noStack (c : Ctx) : NoStack (opNext c) := by unfold opNext; split; trivial; split <;> trivial
theorem insert_noStack (c : Ctx) : NoStack (opInsert c) := by
  unfold opInsert; simp only []; split; trivial; split <;> trivial
theorem delete_noStack (c : Ctx) : NoStack (opDelete c) := by
  unfold opDelete; split; trivial; simp only []; split <;> trivial
theorem putCopy_noStack (c : Ctx) (r : Int) : NoStack (opPutCopy c r) := by
  unfold opPutCopy
  split
  · trivial
  · split
    · trivial
    · simp only []
      split
      · split
        · split <;> trivial
        · trivial
      · trivial
theorem assoc_noStack (c : Ctx) (rs : List Int) : NoStack (opAssoc c rs) := by
  unfold opAssoc; simp only []
  split
  · split
    · trivial
    · show _ ≠ _; decide
  · trivial
theorem tempCopy_noStack (c : Ctx) : NoStack (opTempCopy c) := by
  unfold opTempCopy
  split
  · split
    · trivial
    · show _ ≠ _; decide
  · trivial
theorem putGlyph_noStack (c : Ctx) (k : Nat) : NoStack (opPutGlyph c k) := by
  unfold opPutGlyph
  split
  · trivial
  · show _ ≠ _; decide
theorem putSubs_noStack (c : Ctx) (r : Int) (i o : Nat) : NoStack (opPutSubs c r i o) := by
  unfold opPutSubs; simp only []
  split
  · split
    · trivial
    · show _ ≠ _; decide
  · trivial
theorem attrSet_noStack (c : Ctx) (a b : Nat) (v : Int) : NoStack (opAttrSet c a b v) := by
  unfold opAttrSet
  split
  · show _ ≠ _; decide
  · split
    · trivial
    · simp only []
      split <;> trivial

/-- what one instruction does to the machine stack -/
def StepSafe : Sum St End → Prop
  | .inl s => VMid s.vm
  | .inr (.normal s) => s.vm.stack.size = stackSize
  | .inr (.fault w) => w ≠ "stack"

theorem withCtx_safe (v : Vm) (h : VOK v) (o : Outcome) (ho : NoStack o) (d : Nat) : StepSafe (withCtx v o d) := by
  unfold withCtx
  cases o with
  | cont c => exact (h.withDp _).mid
  | died c =>
    obtain ⟨v', hv, hm⟩ := push_ok { v with status := .died_early } 1 (h.withStatus _)
    simp only []
    rw [hv]
    exact hm.1
  | fault w => exact ho

/-- **one instruction of rule code, any opcode, any operands**: no access outside `_stack[]` -/
theorem stepInstr_safe (s : St) (i : Instr) (h : VOK s.vm) : StepSafe (stepInstr s i) := by
  obtain ⟨opc, ps⟩ := i
  unfold stepInstr
  simp only []
  split
  · exact withCtx_safe s.vm h _ (next_noStack _) _
  · exact withCtx_safe s.vm h _ (next_noStack _) _
  · exact withCtx_safe s.vm h _ (insert_noStack _) _
  · exact withCtx_safe s.vm h _ (delete_noStack _) _
  · exact withCtx_safe s.vm h _ (putCopy_noStack _ _) _
  · exact withCtx_safe s.vm h _ (assoc_noStack _ _) _
  · exact withCtx_safe s.vm h _ (tempCopy_noStack _) _
  · exact withCtx_safe s.vm h _ (putGlyph_noStack _ _) _
  · exact withCtx_safe s.vm h _ (putSubs_noStack _ _ _ _) _
  · -- PUSH_GLYPH_ATTR_OBS
    split
    · rename_i sl hsl
      obtain ⟨v', hv, hm⟩ := push_ok { s.vm with dp := s.vm.dp + 2 } (glyphAttr (slotat s.ctx (s8 (ps.getD 1 0))).2
        ((slotat s.ctx (s8 (ps.getD 1 0))).2.seg.get sl).gid (ps.getD 0 0)) (h.withDp _)
      rw [hv]
      exact hm
    · exact (h.withDp _).mid
  · -- PUSH_GLYPH_ATTR
    split
    · rename_i sl hsl
      obtain ⟨v', hv, hm⟩ := push_ok { s.vm with dp := s.vm.dp + 3 } (glyphAttr (slotat s.ctx (s8 (ps.getD 2 0))).2
        ((slotat s.ctx (s8 (ps.getD 2 0))).2.seg.get sl).gid ((ps.getD 0 0) * 256 + ps.getD 1 0)) (h.withDp _)
      rw [hv]
      exact hm
    · exact (h.withDp _).mid
  · -- PUSH_SLOT_ATTR
    split
    · rename_i sl hsl
      obtain ⟨v', hv, hm⟩ := push_ok { s.vm with dp := s.vm.dp + 2 } (slotAttr ((slotat s.ctx (s8 (ps.getD 1 0))).2.seg.get sl) (ps.getD 0 0)) (h.withDp _)
      rw [hv]
      exact hm
    · exact (h.withDp _).mid
  · -- ATTR_SET
    obtain ⟨x, v', hv, hm⟩ := pop_ok s.vm h
    rw [hv]
    simp only []
    have hn := attrSet_noStack s.ctx (ps.getD 0 0) 0 (i16 x)
    revert hn
    cases opAttrSet s.ctx (ps.getD 0 0) 0 (i16 x) with
    | cont c => intro _; exact hm.withDp _
    | died c => intro _; exact hm.1
    | fault w => intro hn; exact hn
  · -- ATTR_ADD
    obtain ⟨x, v', hv, hm⟩ := pop_ok s.vm h
    rw [hv]
    simp only []
    have hn := attrSet_noStack s.ctx (ps.getD 0 0) 0 (i16 (i32 (x + curAttr s.ctx (ps.getD 0 0))))
    revert hn
    cases opAttrSet s.ctx (ps.getD 0 0) 0 (i16 (i32 (x + curAttr s.ctx (ps.getD 0 0)))) with
    | cont c => intro _; exact hm.withDp _
    | died c => intro _; exact hm.1
    | fault w => intro hn; exact hn
  · -- ATTR_SUB
    obtain ⟨x, v', hv, hm⟩ := pop_ok s.vm h
    rw [hv]
    simp only []
    have hn := attrSet_noStack s.ctx (ps.getD 0 0) 0 (i16 (i32 (curAttr s.ctx (ps.getD 0 0) - x)))
    revert hn
    cases opAttrSet s.ctx (ps.getD 0 0) 0 (i16 (i32 (curAttr s.ctx (ps.getD 0 0) - x))) with
    | cont c => intro _; exact hm.withDp _
    | died c => intro _; exact hm.1
    | fault w => intro hn; exact hn
  · -- ATTR_SET_SLOT
    obtain ⟨x, v', hv, hm⟩ := pop_ok s.vm h
    rw [hv]
    simp only []
    have hn := attrSet_noStack s.ctx (ps.getD 0 0) (((if ps.getD 0 0 = 2 then s.ctx.map - 1 else 0) % 256).toNat)
      (i16 (i32 (x + (if ps.getD 0 0 = 2 then s.ctx.map - 1 else 0))))
    revert hn
    cases opAttrSet s.ctx (ps.getD 0 0) (((if ps.getD 0 0 = 2 then s.ctx.map - 1 else 0) % 256).toNat)
      (i16 (i32 (x + (if ps.getD 0 0 = 2 then s.ctx.map - 1 else 0)))) with
    | cont c => intro _; exact hm.withDp _
    | died c => intro _; exact hm.1
    | fault w => intro hn; exact hn
  · exact withCtx_safe s.vm h _ (putGlyph_noStack _ _) _
  · exact withCtx_safe s.vm h _ (putSubs_noStack _ _ _ _) _
  · -- the scalar opcodes
    cases hop : scalarOp opc with
    | none => show _ ≠ _; decide
    | some op =>
      simp only []
      have hsafe := (scalar_safe opc op hop).run s.vm h.1 h.2.1 h.2.2
      revert hsafe
      cases op s.vm with
      | ok u v' => intro hsafe; exact hsafe
      | stop w v' =>
        intro hsafe
        cases w with
        | exited => exact hsafe.2
        | stackFault k => exact absurd rfl (hsafe.1 k)
        | dataFault k => show _ ≠ _; decide

/-- how a run of rule code may end, as far as the stack is concerned -/
def EndSafe : End → Prop
  | .normal s => s.vm.stack.size = stackSize
  | .fault w => w ≠ "stack"

/-- **any instruction list**: the run never leaves `_stack[]` -/
theorem runLoop_safe : ∀ (is : List Instr) (s : St), VOK s.vm → EndSafe (runLoop is s) := by
  intro is
  induction is with
  | nil => intro s h; exact h.1
  | cons i rest ih =>
    intro s h
    unfold runLoop
    have hs := stepInstr_safe s i h
    revert hs
    cases stepInstr s i with
    | inr e =>
      intro hs
      cases e with
      | normal s' => exact hs
      | fault w => exact hs
    | inl s' =>
      intro hs
      simp only []
      by_cases hc : continues (s'.vm.sp - STACK_GUARD) = true
      · rw [if_pos hc]
        obtain ⟨w1, w2⟩ := continues_window s'.vm.sp hs.2.1 hs.2.2 hc
        exact ih s' ⟨hs.1, w1, w2⟩
      · rw [if_neg hc]
        exact hs.1

theorem initVm_VOK (data : List Nat) : VOK (initVm data) :=
  ⟨by simp [initVm, stackSize], by simp [initVm], by simp [initVm]; decide⟩

/-- `Machine::run`'s epilogue reads `*sp` only for `sp = _stack + STACK_GUARD + 1`: inside the array -/
theorem epilogue_no_error (v : Vm) (h : v.stack.size = stackSize) : ∃ rs, epilogue v = .ok rs := by
  unfold epilogue
  split
  · rename_i hsp
    obtain ⟨x, hx⟩ := rdStack_ok v v.sp h (by rw [hsp]; decide) (by rw [hsp]; decide)
    rw [hx]
    exact ⟨_, rfl⟩
  · exact ⟨_, rfl⟩

theorem finishAction_noStack (s : St) (dl : Bool) (h : s.vm.stack.size = stackSize) {w : String}
    (e : finishAction s dl = .error w) : w ≠ "stack" := by
  unfold finishAction at e
  simp only [] at e
  split at e
  · cases e; decide
  · obtain ⟨rs, hrs⟩ := epilogue_no_error { s.vm with status := if s.ctx.storeIs.status ≠ .finished then s.ctx.storeIs.status else s.vm.status } h
    rw [hrs] at e
    simp only [] at e
    split at e
    · cases e
    · split at e <;> cases e

/-- **a rule's action, any code**: an error of the model is never a stack access outside the array -/
theorem doAction_noStack {is : List Instr} {dl : Bool} {mr : Nat} {data : List Nat} {ctx : Ctx} {w : String}
    (e : doAction is dl mr data ctx = .error w) : w ≠ "stack" := by
  unfold doAction at e
  simp only [] at e
  split at e
  · cases e
  · have hr := runLoop_safe is { vm := initVm data, ctx := enterCtx (startCtx ctx) } (initVm_VOK data)
    split at e
    · rename_i w' hw
      cases e
      rw [hw] at hr
      exact hr
    · rename_i s hs
      rw [hs] at hr
      exact finishAction_noStack s dl hr e

end GrVerif.Action

namespace GrVerif.Pass
open GrVerif.Vm GrVerif.Seg GrVerif.Action GrVerif.Gen.Vm

/-- a constraint, any code -/
theorem runConstraint_noStack (k : Code) (c : Ctx) (cell : Int) {w : String} (e : runConstraint k c cell = .error w) : w ≠ "stack" := by
  unfold runConstraint at e
  split at e
  · cases e
  · have hr := runLoop_safe k.instrs { vm := initVm k.data, ctx := enterCtx (c.setMap cell) } (initVm_VOK k.data)
    split at e
    · rename_i w' hw
      cases e
      rw [hw] at hr
      exact hr
    · rename_i s hs
      rw [hs] at hr
      obtain ⟨rs, hrs⟩ := epilogue_no_error { s.vm with status := if s.ctx.status ≠ .finished then s.ctx.status else s.vm.status } hr
      rw [hrs] at e
      cases e

theorem testConstraint_go_noStack (c : Ctx) (k : Code) : ∀ (n cell : Nat) {w : String}, testConstraint.go c k n cell = .error w → w ≠ "stack" := by
  intro n
  induction n with
  | zero => intro cell w e; unfold testConstraint.go at e; cases e
  | succ n ih =>
    intro cell w e
    unfold testConstraint.go at e
    split at e
    · exact ih _ e
    · split at e
      · rename_i w' hw
        cases e
        exact runConstraint_noStack k c cell hw
      · split at e
        · cases e
        · exact ih _ e

theorem testConstraint_noStack (r : Rule) (c : Ctx) {w : String} (e : testConstraint r c = .error w) : w ≠ "stack" := by
  unfold testConstraint at e
  split at e
  · cases e
  · simp only [] at e
    split at e
    · cases e
    · split at e
      · cases e
      · split at e
        · cases e; decide
        · exact testConstraint_go_noStack c _ _ _ e

theorem pickRule_noStack (p : PassT) (c : Ctx) : ∀ (rs : List Nat) {w : String}, pickRule p c rs = .error w → w ≠ "stack" := by
  intro rs
  induction rs with
  | nil => intro w e; unfold pickRule at e; cases e
  | cons r rest ih =>
    intro w e
    unfold pickRule at e
    split at e
    · rename_i w' hw
      cases e
      exact testConstraint_noStack _ c hw
    · cases e
    · split at e
      · cases e
      · exact ih e

/-- **one rule application, any pass**: whatever error the model reports, it is not a stack access outside `_stack[]` -/
theorem findNDoRule_noStack (p : PassT) (c : Ctx) (slot : Nat) {w : String} (e : findNDoRule p c slot = .error w) : w ≠ "stack" := by
  unfold findNDoRule at e
  revert e
  generalize runFSM p c slot = r
  obtain ⟨ok, c1, rules⟩ := r
  intro e
  simp only [] at e
  split at e
  · cases e
  · split at e
    · rename_i w' hw
      cases e
      exact pickRule_noStack p c1 rules hw
    · split at e <;> cases e
    · split at e
      · cases e
      · split at e
        · cases e; decide
        · split at e
          · rename_i w' hw
            cases e
            exact doAction_noStack hw
          · split at e <;> cases e

/-- a pass constraint, any code: whatever error the model reports, it is not a stack access outside `_stack[]` -/
theorem testPassConstraint_noStack (p : PassT) (c : Ctx) (s0 : Nat) {w : String} (e : testPassConstraint p c s0 = .error w) : w ≠ "stack" := by
  unfold testPassConstraint at e
  split at e
  · cases e
  · split at e
    · cases e; decide
    · simp only [] at e
      split at e
      · rename_i w' hw
        cases e
        exact runConstraint_noStack _ _ _ hw
      · cases e

end GrVerif.Pass

import GrVerif.Proofs.Forest7
/-!
# Attachment parents are slots of the stream

`PND s`: the parent of a real slot is not marked deleted.  Together with the forest (`par`: parents are real and not on
the free list), `forest_parent_inb` (inside the arena) and `Alloc` (every live slot in use that is not a temporary copy is
in the stream) this gives: **the parent of a stream slot is a stream slot** – `gr_slot_attached_to` never leaves the
segment.

`PND` is kept by every opcode (`ops_PG`), by garbage collection and by the pass engine.
-/
set_option linter.unusedSimpArgs false
set_option linter.unusedVariables false
namespace GrVerif.Action
open GrVerif.Vm GrVerif.Seg GrVerif.Gen.Vm

/-- the parent of a real slot is not marked deleted -/
def PND (s : Seg) : Prop := ∀ j p, Real s j → (s.get j).parent = some p → (s.get p).deleted = false

/-- a frame under which `PND` survives: real slots were real, keep or lose their parent, and parents keep their flag -/
theorem PND.frame {s s' : Seg} (h : PND s) (hr : ∀ j, Real s' j → Real s j)
    (hp : ∀ j p, Real s' j → (s'.get j).parent = some p → (s.get j).parent = some p ∧ (s'.get p).deleted = (s.get p).deleted) : PND s' := by
  intro j p hj hjp
  obtain ⟨h1, h2⟩ := hp j p hj hjp
  rw [h2]
  exact h j p (hr j hj) h1

/-- the invariant of a rule context, with `PND` -/
def PG (c : Ctx) : Prop := PF c ∧ PND c.seg

theorem die_PN (c : Ctx) (h : PND c.seg) : OutcomeP (fun c => PND c.seg) (die c) := h

theorem PND.updKeep {s : Seg} (h : PND s) (i : Nat) (f : Slot → Slot)
    (hf : ∀ a, (f a).parent = a.parent ∧ (f a).copied = a.copied ∧ (f a).deleted = a.deleted) : PND (s.upd i f) := by
  have g : ∀ j, ((s.upd i f).get j).parent = (s.get j).parent ∧ ((s.upd i f).get j).copied = (s.get j).copied ∧
      ((s.upd i f).get j).deleted = (s.get j).deleted := fun j => by
    rw [get_upd]; split
    · exact hf _
    · exact ⟨rfl, rfl, rfl⟩
  exact h.frame (fun j hj => by unfold Real at hj ⊢; rw [← (g j).2.1]; exact hj)
    (fun j p _ hjp => ⟨by rw [← (g j).1]; exact hjp, (g p).2.2⟩)

theorem next_PN (c : Ctx) (h : PND c.seg) : OutcomeP (fun c => PND c.seg) (opNext c) := by
  unfold opNext
  split
  · exact h
  · split
    · show PND (_ : Ctx).seg
      simp only [setMap_seg, setIs_seg, markHighpassed_seg]; exact h
    · exact h

theorem slotat_PN (c : Ctx) (x : Int) (h : PND c.seg) : PND (slotat c x).2.seg := by rw [slotat_seg]; exact h

theorem assoc_PN (c : Ctx) (rs : List Int) (h : PND c.seg) : OutcomeP (fun c => PND c.seg) (opAssoc c rs) := by
  unfold opAssoc
  simp only []
  obtain ⟨e1, _, _⟩ := assocFold_same c rs (-1, -1, c) ⟨rfl, rfl, rfl⟩
  split
  · split
    · show PND (_ : Ctx).seg
      simp only [withSeg_seg]; rw [e1]; exact h.updKeep _ _ (fun _ => ⟨rfl, rfl, rfl⟩)
    · trivial
  · show PND (rs.foldl assocStep (-1, -1, c)).2.2.seg
    rw [e1]; exact h

theorem putGlyph_PN (c : Ctx) (k : Nat) (h : PND c.seg) : OutcomeP (fun c => PND c.seg) (opPutGlyph c k) := by
  unfold opPutGlyph
  split
  · exact h.updKeep _ _ (fun _ => ⟨rfl, rfl, rfl⟩)
  · trivial

theorem putSubs_PN (c : Ctx) (r : Int) (i o : Nat) (h : PND c.seg) : OutcomeP (fun c => PND c.seg) (opPutSubs c r i o) := by
  unfold opPutSubs
  simp only []
  have h' := slotat_PN c r h
  split
  · split
    · exact h'.updKeep _ _ (fun _ => ⟨rfl, rfl, rfl⟩)
    · trivial
  · exact h'

theorem attrSet_PN (c : Ctx) (a b : Nat) (v : Int) (hpf : PF c) (h : PND c.seg) : OutcomeP (fun c => PND c.seg) (opAttrSet c a b v) := by
  unfold opAttrSet
  split
  · trivial
  · rename_i i hi
    obtain ⟨⟨l, hj⟩, hF, hcells⟩ := hpf
    obtain ⟨his, hif, hir⟩ := hj.is_facts hi
    split
    · unfold setAttTo
      simp only []
      split
      · split
        · exact h
        · rename_i other hcell
          split
          · exact h
          · rename_i hguard
            have hg1 : ¬ (other = i) := fun hh => hguard (.inl hh)
            have hg3 : ¬ ((c.seg.get other).copied = true) := fun hh => hguard (.inr (.inr (.inl hh)))
            have hg4 : ¬ ((c.seg.get other).deleted = true) := fun hh => hguard (.inr (.inr (.inr hh)))
            obtain ⟨hos, hof, _⟩ := hcells _ other hcell
            have hor : Real c.seg other := by
              unfold Real; cases hq : (c.seg.get other).copied with
              | false => rfl
              | true => exact absurd hq hg3
            obtain ⟨_, _, hcop', hpar', hpi'⟩ := attach_forest hF (decide (c.dir ≠ 0) != decide ((v % 65536).toNat > b))
              hir hor (fun hh => hg1 hh.symm) his hos hif hof
            have hdel : ∀ j, ((c.seg.attach i other (decide (c.dir ≠ 0) != decide ((v % 65536).toNat > b))).get j).deleted = (c.seg.get j).deleted := fun j => by
              have := (attach_same c.seg i other (decide (c.dir ≠ 0) != decide ((v % 65536).toNat > b))).slot j
              unfold TreeOnly at this
              exact this.2.2.2.2.2.2.2.1
            show PND (_ : Ctx).seg
            simp only [withSeg_seg]
            intro j p hjr hjp
            rw [hdel p]
            by_cases hji : j = i
            · rw [hji] at hjp
              rcases hpi' with h1 | h1
              · rw [h1] at hjp; cases hjp
                cases hq : (c.seg.get other).deleted with
                | false => rfl
                | true => exact absurd hq hg4
              · rw [h1] at hjp; cases hjp
            · rw [hpar' j hji] at hjp
              exact h j p (by unfold Real at hjr ⊢; rw [← hcop' j]; exact hjr) hjp
      · exact h
    · simp only []
      split <;> first
        | exact h.updKeep _ _ (fun _ => ⟨rfl, rfl, rfl⟩)
        | exact h

theorem sameT_deleted {s s' : Seg} (h : SameT s s') (j : Nat) : (s'.get j).deleted = (s.get j).deleted := by
  have := h.slot j; unfold TreeOnly at this; exact this.2.2.2.2.2.2.2.1

theorem unlink_deleted (s : Seg) (i j : Nat) : ((s.unlink i).get j).deleted = (s.get j).deleted := (unlink_TS s i).2.2 j

theorem delete_PN (c : Ctx) (hpf : PF c) (h : PND c.seg) : OutcomeP (fun c => PND c.seg) (opDelete c) := by
  unfold opDelete
  split
  · exact h
  · rename_i i hi
    simp only []
    split
    · exact h
    · obtain ⟨⟨l, hj⟩, hF, hcells⟩ := hpf
      obtain ⟨his, hif, hir⟩ := hj.is_facts hi
      have t1 : TreeSame c.seg ((c.seg.upd i fun sl => sl.setDeleted true).unlink i) ∧ True :=
        ⟨(TreeSame.upd c.seg i (fun sl => sl.setDeleted true) (fun _ => ⟨rfl, rfl, rfl, rfl⟩)).trans (unlink_TS _ i).1, trivial⟩
      have hF1 := forest_congr t1.1 hF
      have hir1 : Real ((c.seg.upd i fun sl => sl.setDeleted true).unlink i) i := by unfold Real; rw [(t1.1.fld i).2.2.2]; exact hir
      obtain ⟨hF2, _, hcop2, _, hpar2, hch2⟩ := detach_forest hF1 hir1
      have hsd : SameT ((c.seg.upd i fun sl => sl.setDeleted true).unlink i) (((c.seg.upd i fun sl => sl.setDeleted true).unlink i).detach i) := by
        unfold Seg.detach
        exact (unparent_same _ i).tr (detachChildren_same _ _ _)
      show PND (_ : Ctx).seg
      simp only [backOnto_seg, setIs_seg, withSeg_seg]
      intro j p hjr hjp
      simp only [addGlyphs_get] at hjp ⊢
      have hjr2 : Real (((c.seg.upd i fun sl => sl.setDeleted true).unlink i).detach i) j := hjr
      -- the deleted slot has no children any more, so it is nobody's parent
      have hpi : p ≠ i := fun hh => by
        obtain ⟨li, hki⟩ := hF2.kids i (by unfold Real; rw [hcop2]; exact hir1)
        have := hki.all j hjr2 (by rw [hjp, hh])
        have hc := hki.chain
        rw [hch2] at hc
        cases li with
        | nil => cases this
        | cons x r => cases hc.1
      have hold : (c.seg.get j).parent = some p := by
        rcases hpar2 j with h1 | h1
        · rw [h1, (t1.1.fld j).1] at hjp; exact hjp
        · rw [h1] at hjp; cases hjp
      rw [sameT_deleted hsd p, unlink_deleted, get_upd_ne _ _ _ _ hpi]
      exact h j p (by unfold Real at hjr2 ⊢; rw [← (t1.1.fld j).2.2.2, ← hcop2 j]; exact hjr2) hold

theorem linkNew_deleted (s : Seg) (n : Nat) (iss : Option Nat) (j : Nat) : ((s.linkNew n iss).get j).deleted = (s.get j).deleted :=
  (linkNew_TS s n iss).2.2 j

theorem insert_PN (c : Ctx) (hpf : PF c) (h : PND c.seg) : OutcomeP (fun c => PND c.seg) (opInsert c) := by
  unfold opInsert
  simp only []
  split
  · exact h
  · split
    · exact h
    · rename_i k seg heq
      obtain ⟨⟨l, hj⟩, hF, hcells⟩ := hpf
      simp only [setMaxSize_seg] at heq
      obtain ⟨_, _, _, _, _, hcop1, _, _, hpar1, hdel1⟩ := newSlot_forest hF hj.clean.freeNodup heq
      have t2 := linkNew_TS seg k (skipDeleted seg (seg.slots.size + 1) (c.setMaxSize (c.maxSize - 1)).is)
      show PND (_ : Ctx).seg
      simp only [setMap_seg, setIs_seg, withSeg_seg]
      refine h.frame (fun j hj' => ?_) (fun j p hj' hjp => ?_)
      · unfold Real at hj' ⊢
        simp only [addGlyphs_get] at hj'
        rw [(t2.1.fld j).2.2.2, hcop1 j] at hj'; exact hj'
      · simp only [addGlyphs_get] at hjp ⊢
        rw [(t2.1.fld j).1, hpar1 j] at hjp
        exact ⟨hjp, by rw [linkNew_deleted, hdel1 p]⟩

theorem copySlot_deleted (s : Seg) (i rf q : Nat) (hq : q ≠ i) : ((s.copySlot i rf).get q).deleted = (s.get q).deleted := by
  have g1 : ((s.upd i fun si => si.copyFrom (s.get rf)).get q).deleted = (s.get q).deleted := by rw [get_upd_ne _ _ _ _ hq]
  unfold Seg.copySlot
  simp only []
  split
  · split
    · rw [get_upd_ne _ _ _ _ hq]; exact g1
    · split
      · rw [sameT_deleted (child_same _ _ _) q]; exact g1
      · rw [get_upd_ne _ _ _ _ hq, sameT_deleted (child_same _ _ _) q]; exact g1
  · exact g1

theorem putCopy_PN (c : Ctx) (r : Int) (hpf : PF c) (h : PND c.seg) : OutcomeP (fun c => PND c.seg) (opPutCopy c r) := by
  unfold opPutCopy
  split
  · exact h
  · rename_i i hi
    split
    · exact h
    · rename_i hnd
      obtain ⟨⟨l, hj⟩, hF, hcells⟩ := hpf
      obtain ⟨his, hif, hir⟩ := hj.is_facts hi
      have hdi : (c.seg.get i).deleted = false := by
        cases hq : (c.seg.get i).deleted with
        | false => rfl
        | true => exact absurd hq hnd
      simp only []
      have hseg : (slotat c r).2.seg = c.seg := slotat_seg c r
      -- `unmark` changes no flag of `i` here
      have hunm : PND ((slotat c r).2.seg.unmark i) := by
        rw [hseg]
        unfold Seg.unmark
        have g : ∀ j, ((c.seg.upd i fun sl => (sl.setCopied false).setDeleted false).get j).parent = (c.seg.get j).parent ∧
            ((c.seg.upd i fun sl => (sl.setCopied false).setDeleted false).get j).copied = (c.seg.get j).copied ∧
            ((c.seg.upd i fun sl => (sl.setCopied false).setDeleted false).get j).deleted = (c.seg.get j).deleted := fun j => by
          rw [get_upd]; split
          · rename_i hh; rw [hh.1]
            exact ⟨rfl, by show false = _; rw [show (c.seg.get i).copied = false from hir], by show false = _; rw [hdi]⟩
          · exact ⟨rfl, rfl, rfl⟩
        exact h.frame (fun j hj' => by unfold Real at hj' ⊢; rw [← (g j).2.1]; exact hj')
          (fun j p _ hjp => ⟨by rw [← (g j).1]; exact hjp, (g p).2.2⟩)
      split
      · rename_i rf hrf
        split
        · split
          · exact slotat_PN c r h
          · rename_i hguard
            have hp0 : ((slotat c r).2.seg.get i).parent = none := by
              cases hq : ((slotat c r).2.seg.get i).parent with
              | none => rfl
              | some x => exact absurd (.inl (by rw [hq]; rfl)) hguard
            have hc0 : ((slotat c r).2.seg.get i).child = none := by
              cases hq : ((slotat c r).2.seg.get i).child with
              | none => rfl
              | some x => exact absurd (.inr (by rw [hq]; rfl)) hguard
            obtain ⟨k, hk⟩ := slotat_cell hrf
            obtain ⟨hrs, hrfree, hrr⟩ := hcells k rf hk
            rw [hseg] at hp0 hc0
            have hgood : ∀ p, (c.seg.get rf).parent = some p → Real c.seg p ∧ p ∉ c.seg.free ∧ p < c.seg.slots.size := by
              intro p hp
              by_cases hreal : Real c.seg rf
              · exact ⟨(hF.par rf p hreal hp).1, (hF.par rf p hreal hp).2, forest_parent_inb hF hreal hp⟩
              · rcases hrr with hrr | hrr
                · exact absurd hrr hreal
                · exact hrr p hp
            obtain ⟨_, _, hcop', hpar', hpi'⟩ := copySlot_forest hF hir hp0 hc0 hif his hgood
            show PND (_ : Ctx).seg
            simp only [withSeg_seg]
            rw [hseg]
            have hdel : ∀ q, q ≠ i → (((c.seg.copySlot i rf).unmark i).get q).deleted = (c.seg.get q).deleted := fun q hq => by
              unfold Seg.unmark
              rw [get_upd_ne _ _ _ _ hq]
              exact copySlot_deleted c.seg i rf q hq
            have hdeli : (((c.seg.copySlot i rf).unmark i).get i).deleted = false := by
              unfold Seg.unmark
              rw [get_upd_self _ _ _ (by rw [copySlot_assoc_size]; exact his)]
              rfl
            intro j p hjr hjp
            by_cases hji : j = i
            · rw [hji] at hjp
              obtain ⟨h1, h2⟩ := hpi' p hjp
              rw [hdel p h2]; exact h1
            · rw [hpar' j hji] at hjp
              have hold := h j p (by unfold Real at hjr ⊢; rw [← hcop' j]; exact hjr) hjp
              by_cases hpi2 : p = i
              · rw [hpi2]; exact hdeli
              · rw [hdel p hpi2]; exact hold
        · exact hunm
      · exact hunm

theorem tempCopy_PN (c : Ctx) (hpf : PF c) (h : PND c.seg) : OutcomeP (fun c => PND c.seg) (opTempCopy c) := by
  unfold opTempCopy
  split
  · rename_i n seg i heq hisq
    obtain ⟨⟨l, hj⟩, hF, hcells⟩ := hpf
    split
    · obtain ⟨hF1, hrn, hpn, hcn, hnf, hcop1, _, hnold, hpar1, hdel1⟩ := newSlot_forest hF hj.clean.freeNodup heq
      obtain ⟨_, hns, _⟩ := newSlot_copyFrame hj.clean.freeInb heq
      show PND (_ : Ctx).seg
      simp only [setCell_seg, withSeg_seg]
      -- nobody real has the new slot as parent
      have hnopar : ∀ j, Real seg j → (seg.get j).parent ≠ some n := fun j hjr hjp => by
        obtain ⟨ln, hkn⟩ := hF1.kids n hrn
        have := hkn.all j hjr hjp
        have hc := hkn.chain
        rw [hcn] at hc
        cases ln with
        | nil => cases this
        | cons x r => cases hc.1
      intro j p hjr hjp
      have hjn : j ≠ n := fun hh => by
        unfold Real at hjr
        rw [hh, get_upd_self _ _ _ hns] at hjr
        simp at hjr
      rw [get_upd_ne _ _ _ _ hjn] at hjp
      have hjr1 : Real seg j := by unfold Real at hjr ⊢; rw [get_upd_ne _ _ _ _ hjn] at hjr; exact hjr
      have hpn' : p ≠ n := fun hh => hnopar j hjr1 (hh ▸ hjp)
      rw [get_upd_ne _ _ _ _ hpn', hdel1 p]
      exact h j p (by unfold Real at hjr1 ⊢; rw [← hcop1 j]; exact hjr1) (by rw [← hpar1 j]; exact hjp)
    · trivial
  · exact h

/-- **every opcode keeps the whole invariant** -/
theorem ops_PG : OpsPreserve PG := by
  refine ⟨?_, ?_, ?_, ?_, ?_, ?_, ?_, ?_, ?_, ?_⟩
  · intro c h; exact outcomeP_and (ops_PF.next c h.1) (next_PN c h.2)
  · intro c h; exact outcomeP_and (ops_PF.insert c h.1) (insert_PN c h.1 h.2)
  · intro c h; exact outcomeP_and (ops_PF.delete c h.1) (delete_PN c h.1 h.2)
  · intro c r h; exact outcomeP_and (ops_PF.putCopy c r h.1) (putCopy_PN c r h.1 h.2)
  · intro c rs h; exact outcomeP_and (ops_PF.assoc c rs h.1) (assoc_PN c rs h.2)
  · intro c h; exact outcomeP_and (ops_PF.tempCopy c h.1) (tempCopy_PN c h.1 h.2)
  · intro c a b v h; exact outcomeP_and (ops_PF.attrSet c a b v h.1) (attrSet_PN c a b v h.1 h.2)
  · intro c k h; exact outcomeP_and (ops_PF.putGlyph c k h.1) (putGlyph_PN c k h.2)
  · intro c r i o h; exact outcomeP_and (ops_PF.putSubs c r i o h.1) (putSubs_PN c r i o h.2)
  · intro c x h; exact ⟨ops_PF.slotat c x h.1, slotat_PN c x h.2⟩

/-! ## garbage collection -/

theorem removeSib_parent (s : Seg) (ap : Nat) : ∀ (fuel : Nat) (o : Option Nat) (j : Nat),
    ((removeSib s ap fuel o).2.get j).parent = (s.get j).parent := by
  intro fuel
  induction fuel with
  | zero => intro o j; unfold removeSib; rfl
  | succ f ih =>
    intro o j
    cases o with
    | none => unfold removeSib; rfl
    | some p =>
      unfold removeSib
      split
      · simp only []
        rw [upd_parent_keep, upd_parent_keep] <;> (intro _; rfl)
      · exact ih _ j

theorem removeChild_parent (s : Seg) (i ap j : Nat) : ((removeChild s i ap).2.get j).parent = (s.get j).parent := by
  unfold removeChild
  split
  · rfl
  · split
    · rfl
    · split
      · simp only []
        rw [upd_parent_keep, upd_parent_keep] <;> (intro _; rfl)
      · exact removeSib_parent s ap _ _ j

theorem detachChildren_parent : ∀ (fuel : Nat) (s : Seg) (a j : Nat),
    ((detachChildren s a fuel).get j).parent = (s.get j).parent ∨ ((detachChildren s a fuel).get j).parent = none := by
  intro fuel
  induction fuel with
  | zero => intro s a j; exact .inl rfl
  | succ f ih =>
    intro s a j
    unfold detachChildren
    split
    · exact .inl rfl
    · rename_i c hc
      split
      · rcases ih (removeChild (s.upd c fun sl => sl.setParent none) a c).2 a j with h | h
        · rw [h, removeChild_parent, get_upd]
          split
          · exact .inr rfl
          · exact .inl rfl
        · exact .inr h
      · rcases ih (s.upd a fun sl => sl.setChild none) a j with h | h
        · left; rw [h, upd_parent_keep]; intro _; rfl
        · exact .inr h

theorem freeSlot_parent (s : Seg) (a j : Nat) (hj : j ≠ a) :
    ((s.freeSlot a).get j).parent = (s.get j).parent ∨ ((s.freeSlot a).get j).parent = none := by
  unfold Seg.freeSlot
  simp only []
  rw [recycle_get_ne _ a j hj]
  have h0 : ((s.dropEnds a).get j).parent = (s.get j).parent := ((dropEnds_treeSame s a).fld j).1
  have h1 : (((s.dropEnds a).unchild a).get j).parent = (s.get j).parent := by
    unfold Seg.unchild
    split
    · rw [removeChild_parent]; exact h0
    · exact h0
  rcases detachChildren_parent (((s.dropEnds a).unchild a).slots.size + 1) ((s.dropEnds a).unchild a) a j with h | h
  · left; rw [h, h1]
  · exact .inr h

/-- freeing a marked slot keeps `PND` -/
theorem freeSlot_PND {s : Seg} {l : List Nat} (hl : Linked s l) (hc : Clean s l) (hF : Forest s) (h : PND s) (a : Nat)
    (hf : (s.get a).deleted = true ∨ (s.get a).copied = true) : PND (s.freeSlot a) := by
  obtain ⟨_, _, hfr, hsz, hfree⟩ := freeSlot_QS hl hc a hf
  have has : a < s.slots.size := by
    apply Classical.byContradiction
    intro hn
    rw [get_oob s a (by omega)] at hf
    rcases hf with hf | hf <;> cases hf
  have hF' := freeSlot_forest hF has
  intro j p hjr hjp
  -- the freed slot is blank: it has no parent; and nobody's parent is on the free list
  have hja : j ≠ a := fun hh => by
    have := (hF'.free a (by rw [hfree]; exact List.mem_cons_self)).2.2
    rw [hh, this] at hjp; cases hjp
  have hpa : p ≠ a := fun hh => (hF'.par j p hjr hjp).2 (by rw [hfree, hh]; exact List.mem_cons_self)
  rw [(hfr p hpa).2.2.1]
  have hjr0 : Real s j := by unfold Real at hjr ⊢; rw [← (hfr j hja).2.2.2]; exact hjr
  rcases freeSlot_parent s a j hja with h1 | h1
  · rw [h1] at hjp; exact h j p hjr0 hjp
  · rw [h1] at hjp; cases hjp

theorem gcStep_PND (acc : Ctx × Option Nat) (k : Nat) {l : List Nat} (hjo : JO acc.1 l acc.2) (hF : Forest acc.1.seg) (h : PND acc.1.seg) :
    PND (gcStep acc k).1.seg := by
  unfold gcStep
  split
  · simp only []
    split
    · rename_i sl hsl hfl
      exact freeSlot_PND (JO.linked hjo) (JO.clean hjo) hF h sl (by simpa using hfl)
    · exact h
  · exact h

theorem gc_PND (c : Ctx) (a : Option Nat) {l : List Nat} (hjo : JO c l a) (hF : Forest c.seg)
    (hc : ∀ k x, c.smap.getD k none = some x → x < c.seg.slots.size) (h : PND c.seg) : PND (collectGarbage c a).1.seg := by
  rw [collectGarbage_fst]; unfold gcCells
  generalize (List.range (c.size - 1)) = ks
  have : ∀ (ks : List Nat) (acc : Ctx × Option Nat), JO acc.1 l acc.2 → Forest acc.1.seg →
      (∀ k x, acc.1.smap.getD k none = some x → x < acc.1.seg.slots.size) → PND acc.1.seg → PND (ks.foldl gcStep acc).1.seg := by
    intro ks
    induction ks with
    | nil => intro acc _ _ _ h; exact h
    | cons k rest ih =>
      intro acc hjo' hF' hc' h'
      obtain ⟨g1, g2, g3⟩ := gcStep_forest acc k hF' hc'
      exact ih _ (gcStep_JO acc k hjo') g1 (fun k' x hx => by rw [g2] at hx; rw [g3]; exact hc' k' x hx) (gcStep_PND acc k hjo' hF' h')
  exact this ks (c, a) hjo hF hc h

theorem finishAction_PND (s : St) (dl : Bool) (hpg : PG s.ctx)
    {r : Int} {st : Status} {so : Option Nat} {c : Ctx} (e : finishAction s dl = .ok (r, st, so, c)) : PND c.seg := by
  obtain ⟨⟨⟨l, hj⟩, hF, hcells⟩, h⟩ := hpg
  unfold finishAction at e
  simp only [] at e
  split at e
  · cases e
  · rename_i hb
    have hb' : 0 ≤ s.ctx.map ∧ s.ctx.map.toNat < s.ctx.smap.size := by
      apply Classical.byContradiction; intro hn; exact hb hn
    have hrd := storeIs_read s.ctx hb'
    have hbase : JO s.ctx.storeIs l (s.ctx.storeIs.smap.getD s.ctx.storeIs.map.toNat none) := by
      rw [hrd]; exact JO.mk' hj.linked hj.clean hj.isok hj.hw hj.alloc
    split at e
    · cases e
    · split at e
      · cases e; exact h
      · split at e
        · cases e
          refine gc_PND s.ctx.storeIs _ hbase (show Forest s.ctx.storeIs.seg from hF) ?_ (show PND s.ctx.storeIs.seg from h)
          intro k x hx
          show x < s.ctx.seg.slots.size
          unfold Ctx.storeIs Ctx.setCell at hx
          simp only [] at hx
          rw [Array.getD_eq_getD_getElem?, Array.getElem?_setIfInBounds] at hx
          split at hx
          · split at hx
            · simp only [Option.getD_some] at hx
              exact (hj.is_facts hx).1
            · simp at hx
          · exact (hcells k x (by rw [Array.getD_eq_getD_getElem?]; exact hx)).1
        · cases e; exact h

theorem doAction_PND {is : List Instr} {dl : Bool} {mr : Nat} {data : List Nat} {ctx : Ctx} {l : List Nat}
    (hl : Linked ctx.seg l) (hc : Clean ctx.seg l) (hh : HwOK ctx.highwater l)
    (hcell : IsOK ctx.seg l (ctx.smap.getD ((ctx.context : Int) + 1).toNat none)) (ha : Alloc ctx.seg l)
    (hF : Forest ctx.seg) (hcells : CellsOK ctx) (h : PND ctx.seg)
    {r : Int} {st : Status} {so : Option Nat} {c : Ctx}
    (e : doAction is dl mr data ctx = .ok (r, st, so, c)) : PND c.seg := by
  unfold doAction at e
  simp only [] at e
  split at e
  · cases e; exact h
  · have h0 : PG (enterCtx (startCtx ctx)) := ⟨⟨⟨l, ⟨hl, hc, hcell, hh, ha⟩⟩, hF, hcells⟩, h⟩
    have hr := runLoop_preserves PG ops_PG is { vm := initVm data, ctx := enterCtx (startCtx ctx) } h0
    split at e
    · cases e
    · rename_i s heq
      rw [heq] at hr
      exact finishAction_PND s dl hr e

end GrVerif.Action

namespace GrVerif.Pass
open GrVerif.Vm GrVerif.Seg GrVerif.Action GrVerif.Gen.Vm

theorem findNDoRule_PND (p : PassT) (c : Ctx) (slot : Nat) {l : List Nat} (h : JO c l (some slot)) (hF : Forest c.seg) (hP : PND c.seg)
    {c' : Ctx} {s' : Option Nat} {st : Status} (e : findNDoRule p c slot = .ok (c', s', st)) : PND c'.seg := by
  obtain ⟨f1, f2, f3⟩ := runFSM_spec p c slot (JO.linked h) (JO.isok h)
  unfold findNDoRule at e
  revert f1 f2 f3 e
  generalize runFSM p c slot = r
  obtain ⟨ok, c1, rules⟩ := r
  intro e f1 f2 f3
  simp only [] at f1 f2 f3 e
  have h1 : JO c1 l (some slot) := JO.congr h f1 f2
  have hF1 : Forest c1.seg := by rw [f1]; exact hF
  have hP1 : PND c1.seg := by rw [f1]; exact hP
  split at e
  · cases e; exact hP1
  · split at e
    · cases e
    · split at e
      · cases e; exact hP1
      · cases e; exact hP1
    · split at e
      · cases e; exact hP1
      · split at e
        · cases e
        · split at e
          · cases e
          · rename_i ret status slotOut c2 hact
            have hcell : IsOK c1.seg l (c1.smap.getD ((c1.context : Int) + 1).toNat none) := by rw [f1]; exact f3 _
            have hcells : CellsOK c1 := cellsOK_of_isok (JO.linked h1) (JO.clean h1) (fun k => by rw [f1]; exact f3 k)
            have hP2 := doAction_PND (JO.linked h1) (JO.clean h1) (JO.hw h1) hcell (JO.alloc h1) hF1 hcells hP1 hact
            split at e
            · cases e; exact hP2
            · have a1 := adjustSlot_seg c2 ret slotOut
              revert a1 e
              generalize adjustSlot c2 ret slotOut = ar
              obtain ⟨c3, so3⟩ := ar
              intro e a1
              simp only [] at a1 e
              cases e
              rw [a1]; exact hP2

theorem ruleLoop_PND (p : PassT) : ∀ (fuel : Nat) (c : Ctx) (s : Nat) (lc : Int) (it : Nat) {l : List Nat}, JO c l (some s) →
    Forest c.seg → PND c.seg → ∀ {c' : Ctx} {n : Nat}, ruleLoop p fuel c s lc it = .ok (some c', n) → PND c'.seg := by
  intro fuel
  induction fuel with
  | zero => intro c s lc it l _ _ _ c' n e; unfold ruleLoop at e; cases e
  | succ f ih =>
    intro c s lc it l h hF hP c' n e
    unfold ruleLoop at e
    split at e
    · cases e
    · rename_i c1 s1 st hf
      obtain ⟨l1, j1⟩ := findNDoRule_spec p c s h hf
      have hF1 := findNDoRule_forest p c s h hF hf
      have hP1 := findNDoRule_PND p c s h hF hP hf
      split at e
      · cases e
      · split at e
        · cases e; exact hP1
        · rename_i s2
          simp only [] at e
          have hs3ok : ∀ (q : Prop) [Decidable q] (s3 : Nat), (if q then c1.highwater else some s2) = some s3 →
              IsOK c1.seg l1 (some s3) := by
            intro q _ s3 hs3
            split at hs3
            · exact isok_of_mem (JO.hw j1 s3 hs3)
            · cases hs3; exact JO.isok j1
          by_cases hit : (some s2 = c1.highwater ∨ c1.highpassed = true)
          · simp only [hit, if_true, true_or] at e
            split at e
            · rename_i s3 hs3
              first
                | exact ih _ s3 _ _ (restartAt_JO j1 (hs3ok _ s3 hs3)) (show Forest (c1.restartAt s3).seg from hF1) (show PND (c1.restartAt s3).seg from hP1) e
                | exact ih _ s3 _ _ (restartAt_JO j1 (isok_of_mem (JO.hw j1 s3 hs3))) (show Forest (c1.restartAt s3).seg from hF1) (show PND (c1.restartAt s3).seg from hP1) e
            · cases e; exact hP1
          · simp only [hit, if_false, false_or] at e
            split at e
            · split at e
              · rename_i s3 hs3
                first
                  | exact ih _ s3 _ _ (restartAt_JO j1 (hs3ok _ s3 hs3)) (show Forest (c1.restartAt s3).seg from hF1) (show PND (c1.restartAt s3).seg from hP1) e
                  | exact ih _ s3 _ _ (restartAt_JO j1 (isok_of_mem (JO.hw j1 s3 hs3))) (show Forest (c1.restartAt s3).seg from hF1) (show PND (c1.restartAt s3).seg from hP1) e
              · cases e; exact hP1
            · exact ih _ s2 _ _ j1 hF1 hP1 e

theorem runPass_PND (p : PassT) (c : Ctx) (fuel : Nat) (h : WF c.seg) (hF : Forest c.seg) (hP : PND c.seg) {c' : Ctx}
    (e : runPass p c fuel = .ok (some c')) : PND c'.seg := by
  obtain ⟨l, hl, hc, hal⟩ := h
  unfold runPass at e
  split at e
  · cases e; exact hP
  · rename_i s0 hs0
    split at e
    · cases e; exact hP
    · simp only [] at e
      split at e
      · cases e
      · cases e
      · rename_i c2 it hr
        cases e
        have hs0l : s0 ∈ l := head?_mem (by rw [← hl.first]; exact hs0)
        have j0 : JO (c.restartAt s0) l (some s0) :=
          JO.mk' hl hc (isok_of_mem hs0l) (fun x hx => next_mem hl hs0l x hx) hal
        rw [noteLoop_seg]
        exact ruleLoop_PND p _ _ s0 _ 0 j0 (show Forest (c.restartAt s0).seg from hF) (show PND (c.restartAt s0).seg from hP) hr

/-- reversing the stream keeps "parents are not deleted" -/
theorem reverse_PND {s : Seg} (h : PND s) (mark : Nat → Bool) : PND (s.reverseSlots mark) := by
  have hs := reverseSlots_same s mark
  have hf : ∀ j, ((s.reverseSlots mark).get j).parent = (s.get j).parent ∧ ((s.reverseSlots mark).get j).copied = (s.get j).copied ∧
      ((s.reverseSlots mark).get j).deleted = (s.get j).deleted := fun j => by
    have := hs.slot j; unfold LinkOnly at this; rw [this]; exact ⟨rfl, rfl, rfl⟩
  refine h.frame (fun j hj => ?_) (fun j p hj hjp => ?_)
  · unfold Real at hj ⊢; rw [← (hf j).2.1]; exact hj
  · exact ⟨by rw [← (hf j).1]; exact hjp, (hf p).2.2⟩

theorem runPassDir_PND (p : PassT) (c : Ctx) (fuel : Nat) (ar : Bool) (h : WF c.seg) (hF : Forest c.seg) (hP : PND c.seg) {c' : Ctx}
    (e : runPassDir p c fuel ar = .ok (some c')) : PND c'.seg := by
  unfold runPassDir at e
  split at e
  · cases e; exact hP
  · simp only [] at e
    split at e
    · cases e
    · split at e
      · cases e
      · split at e
        · cases e; exact hP
        · split at e
          · exact runPass_PND p (c.withSeg (c.seg.reverseSlots (isMark c c.seg))) fuel (reverse_wf h _) (forest_congr (reverse_treeSame _ _) hF)
              (reverse_PND hP _) e
          · exact runPass_PND p c fuel h hF hP e

theorem pnd_setGlyph {s : Seg} (h : PND s) (gadv : Array Int) (i g : Nat) : PND (s.upd i fun sl => sl.setGlyph gadv g) :=
  h.updKeep _ _ (fun _ => ⟨rfl, rfl, rfl⟩)

theorem bidiStep_PND {c : Ctx} (hP : PND c.seg) (aMirror : Nat) : PND (bidiStep c aMirror).seg :=
  bidiStep_ind PND aMirror (fun s mark hs => reverse_PND hs mark) (fun gadv s i g hs => pnd_setGlyph hs gadv i g) c hP

theorem startMirror_PND (font : Font) {c : Ctx} (hP : PND c.seg) : PND (startMirror font c).seg := by
  unfold startMirror
  split
  · exact doMirror_ind PND c font.aMirror (fun s i g hs => pnd_setGlyph hs _ i g) hP
  · exact hP

theorem runPhase_PND (passes : Array PassT) (bPass : Nat) (c : Ctx) (lo hi : Nat) (dobidi : Bool) (fuel : Nat) (h : WF c.seg) (hF : Forest c.seg) (hP : PND c.seg) {aMirror : Nat} {c' : Ctx}
    (e : runPhase passes bPass c lo hi dobidi fuel aMirror = .ok (some c')) : PND c'.seg :=
  (runPhase_ind (fun x => WF x.seg ∧ Forest x.seg ∧ PND x.seg) passes bPass lo hi dobidi fuel aMirror
    (fun ar k _ _ c1 c2 h1 e1 => ⟨runPassDir_spec _ c1 fuel ar h1.1 e1, runPassDir_forest _ c1 fuel ar h1.1 h1.2.1 e1, runPassDir_PND _ c1 fuel ar h1.1 h1.2.1 h1.2.2 e1⟩)
    (fun x l hx => hx) (fun x hx => ⟨bidiStep_wf hx.1 aMirror, bidiStep_forest hx.2.1 aMirror, bidiStep_PND hx.2.2 aMirror⟩) c ⟨h, hF, hP⟩ e).2.2

theorem pnd_of_allIso {s : Seg} (h : AllIso s) : PND s := fun j p _ hp => by rw [(h j).1] at hp; cases hp

theorem foldl_upd_PND {α : Type} (ix : α → Nat) (f : α → Slot → Slot)
    (hf : ∀ x a, (f x a).parent = a.parent ∧ (f x a).copied = a.copied ∧ (f x a).deleted = a.deleted) :
    ∀ (xs : List α) (s : Seg), PND s → PND (xs.foldl (fun s x => s.upd (ix x) (f x)) s) := by
  intro xs
  induction xs with
  | nil => intro s h; exact h
  | cons x rest ih =>
    intro s h
    simp only [List.foldl_cons]
    exact ih _ (h.updKeep (ix x) (f x) (hf x))

theorem reassoc_PND {seg seg' : Seg} {n : Nat} {ci : List Assoc.CI} (h : PND seg) (e : reassoc seg n = some (seg', ci)) : PND seg' := by
  unfold reassoc at e
  simp only [] at e
  split at e
  · cases e
  · simp only [Option.some.injEq, Prod.mk.injEq] at e
    rw [← e.1]
    apply foldl_upd_PND (fun (x : Nat × Nat) => x.1) (fun x sl => sl.setIndex x.2) (fun _ _ => ⟨rfl, rfl, rfl⟩)
    exact foldl_upd_PND (fun (x : Nat × Int × Int) => x.1) (fun x sl => (sl.setBefore x.2.1).setAfter x.2.2)
      (fun _ _ => ⟨rfl, rfl, rfl⟩) _ _ h

theorem initSeg_allIso (font : Font) (text : List Nat) (dir : Nat := 0) : AllIso (initSeg font text dir) := by
  unfold initSeg
  simp only []
  have h0 : AllIso ({ numGlyphs := text.length, numChars := text.length, slots := Array.replicate (text.length + 10) ({} : Slot), free := List.range (text.length + 10), bufSize := Nat.log2 text.length + 1, dir := dir } : Seg) := by
    intro j
    rw [get_replicate_default (text.length + 10) j _ rfl]
    exact ⟨rfl, rfl, rfl, rfl⟩
  have : ∀ (xs : List (Nat × Nat)) (s : Seg), AllIso s →
      AllIso (xs.foldl (fun s (x : Nat × Nat) => s.appendSlot x.2 (font.cmap x.1) 64 (font.gadv.getD (font.cmap x.1) 0)) s) := by
    intro xs
    induction xs with
    | nil => intro s h; exact h
    | cons x rest ih => intro s h; exact ih _ (appendSlot_allIso h _ _ _ _)
  exact this _ _ h0

theorem shape_PND (font : Font) (text : List Nat) (fuel : Nat) (dir : Nat) {c : Ctx} {ci : List Assoc.CI}
    (e : shape font text fuel dir = .ok (some (c, ci))) : PND c.seg := by
  unfold shape at e
  split at e
  · simp only [Except.ok.injEq, Option.some.injEq, Prod.mk.injEq] at e
    rw [← e.1]
    intro j p _ hp
    rw [get_oob ({} : Seg) j (by show (#[] : Array Slot).size ≤ j; simp)] at hp
    cases hp
  · split at e
    · cases e
    · cases e
    · rename_i c1 h1
      have hw0 := startMirror_wf font (c := initCtx font text dir) (initSeg_wf font text dir)
      have hf0 := startMirror_forest font (c := initCtx font text dir) (initSeg_forest font text dir)
      have hp0 := startMirror_PND font (c := initCtx font text dir) (pnd_of_allIso (initSeg_allIso font text dir))
      have w1 := runPhase_spec _ _ _ _ _ _ _ hw0 h1
      have f1 := runPhase_forest _ _ _ _ _ _ _ hw0 hf0 h1
      have p1 := runPhase_PND _ _ _ _ _ _ _ hw0 hf0 hp0 h1
      split at e
      · cases e
      · rename_i seg' ci' hre
        have w2 := reassoc_wf w1 hre
        have f2 := reassoc_forest f1 hre
        have p2 := reassoc_PND p1 hre
        split at e
        · cases e
        · cases e
        · rename_i c2 h2
          simp only [Except.ok.injEq, Option.some.injEq, Prod.mk.injEq] at e
          rw [← e.1]
          exact runPhase_PND _ _ _ _ _ _ _ w2 f2 p2 h2

/-- **C04: attachments stay inside the segment.** In every segment the modelled pipeline returns, a slot of the stream that
is attached is attached to a slot of the stream. -/
theorem shape_parents_in_stream (font : Font) (text : List Nat) (fuel : Nat) (dir : Nat) {c : Ctx} {ci : List Assoc.CI}
    (e : shape font text fuel dir = .ok (some (c, ci))) :
    ∃ l, Linked c.seg l ∧ Clean c.seg l ∧ ∀ j ∈ l, ∀ p, (c.seg.get j).parent = some p → p ∈ l := by
  obtain ⟨l, hl, hc, hal⟩ := shape_wf font text fuel dir e
  have hF := shape_forest font text fuel dir e
  have hP := shape_PND font text fuel dir e
  refine ⟨l, hl, hc, fun j hj p hp => ?_⟩
  have hjr : Real c.seg j := (hc.live j hj).2
  have h1 := hF.par j p hjr hp
  exact hal p (forest_parent_inb hF hjr hp) h1.2 h1.1 (hP j p hjr hp)

end GrVerif.Pass

import GrVerif.Proofs.Forest7
/-!
# Attachment parents are slots of the stream

`PND s`: the parent of a real slot is not marked deleted.  Together with the forest (`par`: parents are real and not on
the free list), `forest_parent_inb` (inside the arena) and `Alloc` (every live slot in use that is not a temporary copy is
in the stream) this gives: **the parent of a stream slot is a stream slot** – `gr_slot_attached_to` never leaves the
segment.

`PND` is kept by every opcode (`ops_PG`), by garbage collection and by the pass engine.
-/
set_option linter.unusedSimpArgs false
set_option linter.unusedVariables false
namespace GrVerif.Action
open GrVerif.Vm GrVerif.Seg GrVerif.Gen.Vm

/-- the parent of a real slot is not marked deleted -/
def PND (s : Seg) : Prop := ∀ j p, Real s j → (s.get j).parent = some p → (s.get p).deleted = false

/-- a frame under which `PND` survives: real slots were real, keep or lose their parent, and parents keep their flag -/
theorem PND.frame {s s' : Seg} (h : PND s) (hr : ∀ j, Real s' j → Real s j)
    (hp : ∀ j p, Real s' j → (s'.get j).parent = some p → (s.get j).parent = some p ∧ (s'.get p).deleted = (s.get p).deleted) : PND s' := by
  intro j p hj hjp
  obtain ⟨h1, h2⟩ := hp j p hj hjp
  rw [h2]
  exact h j p (hr j hj) h1

/-- the invariant of a rule context, with `PND` -/
def PG (c : Ctx) : Prop := PF c ∧ PND c.seg

theorem die_PN (c : Ctx) (h : PND c.seg) : OutcomeP (fun c => PND c.seg) (die c) := h

theorem PND.updKeep {s : Seg} (h : PND s) (i : Nat) (f : Slot → Slot)
    (hf : ∀ a, (f a).parent = a.parent ∧ (f a).copied = a.copied ∧ (f a).deleted = a.deleted) : PND (s.upd i f) := by
  have g : ∀ j, ((s.upd i f).get j).parent = (s.get j).parent ∧ ((s.upd i f).get j).copied = (s.get j).copied ∧
      ((s.upd i f).get j).deleted = (s.get j).deleted := fun j => by
    rw [get_upd]; split
    · exact hf _
    · exact ⟨rfl, rfl, rfl⟩
  exact h.frame (fun j hj => by unfold Real at hj ⊢; rw [← (g j).2.1]; exact hj)
    (fun j p _ hjp => ⟨by rw [← (g j).1]; exact hjp, (g p).2.2⟩)

theorem next_PN (c : Ctx) (h : PND c.seg) : OutcomeP (fun c => PND c.seg) (opNext c) := by
  unfold opNext
  split
  · exact h
  · split
    · show PND (_ : Ctx).seg
      simp only [setMap_seg, setIs_seg, markHighpassed_seg]; exact h
    · exact h

theorem slotat_PN (c : Ctx) (x : Int) (h : PND c.seg) : PND (slotat c x).2.seg := by rw [slotat_seg]; exact h

theorem assoc_PN (c : Ctx) (rs : List Int) (h : PND c.seg) : OutcomeP (fun c => PND c.seg) (opAssoc c rs) := by
  unfold opAssoc
  simp only []
  obtain ⟨e1, _, _⟩ := assocFold_same c rs (-1, -1, c) ⟨rfl, rfl, rfl⟩
  split
  · split
    · show PND (_ : Ctx).seg
      simp only [withSeg_seg]; rw [e1]; exact h.updKeep _ _ (fun _ => ⟨rfl, rfl, rfl⟩)
    · trivial
  · show PND (rs.foldl assocStep (-1, -1, c)).2.2.seg
    rw [e1]; exact h

theorem putGlyph_PN (c : Ctx) (k : Nat) (h : PND c.seg) : OutcomeP (fun c => PND c.seg) (opPutGlyph c k) := by
  unfold opPutGlyph
  split
  · exact h.updKeep _ _ (fun _ => ⟨rfl, rfl, rfl⟩)
  · trivial

theorem putSubs_PN (c : Ctx) (r : Int) (i o : Nat) (h : PND c.seg) : OutcomeP (fun c => PND c.seg) (opPutSubs c r i o) := by
  unfold opPutSubs
  simp only []
  have h' := slotat_PN c r h
  split
  · split
    · exact h'.updKeep _ _ (fun _ => ⟨rfl, rfl, rfl⟩)
    · trivial
  · exact h'

theorem attrSet_PN (c : Ctx) (a b : Nat) (v : Int) (hpf : PF c) (h : PND c.seg) : OutcomeP (fun c => PND c.seg) (opAttrSet c a b v) := by
  unfold opAttrSet
  split
  · trivial
  · rename_i i hi
    obtain ⟨⟨l, hj⟩, hF, hcells⟩ := hpf
    obtain ⟨his, hif, hir⟩ := hj.is_facts hi
    split
    · unfold setAttTo
      simp only []
      split
      · split
        · exact h
        · rename_i other hcell
          split
          · exact h
          · rename_i hguard
            have hg1 : ¬ (other = i) := fun hh => hguard (.inl hh)
            have hg3 : ¬ ((c.seg.get other).copied = true) := fun hh => hguard (.inr (.inr (.inl hh)))
            have hg4 : ¬ ((c.seg.get other).deleted = true) := fun hh => hguard (.inr (.inr (.inr hh)))
            obtain ⟨hos, hof, _⟩ := hcells _ other hcell
            have hor : Real c.seg other := by
              unfold Real; cases hq : (c.seg.get other).copied with
              | false => rfl
              | true => exact absurd hq hg3
            obtain ⟨_, _, hcop', hpar', hpi'⟩ := attach_forest hF (decide (c.dir ≠ 0) != decide ((v % 65536).toNat > b))
              hir hor (fun hh => hg1 hh.symm) his hos hif hof
            have hdel : ∀ j, ((c.seg.attach i other (decide (c.dir ≠ 0) != decide ((v % 65536).toNat > b))).get j).deleted = (c.seg.get j).deleted := fun j => by
              have := (attach_same c.seg i other (decide (c.dir ≠ 0) != decide ((v % 65536).toNat > b))).slot j
              unfold TreeOnly at this
              exact this.2.2.2.2.2.2.2.1
            show PND (_ : Ctx).seg
            simp only [withSeg_seg]
            intro j p hjr hjp
            rw [hdel p]
            by_cases hji : j = i
            · rw [hji] at hjp
              rcases hpi' with h1 | h1
              · rw [h1] at hjp; cases hjp
                cases hq : (c.seg.get other).deleted with
                | false => rfl
                | true => exact absurd hq hg4
              · rw [h1] at hjp; cases hjp
            · rw [hpar' j hji] at hjp
              exact h j p (by unfold Real at hjr ⊢; rw [← hcop' j]; exact hjr) hjp
      · exact h
    · simp only []
      split <;> first
        | exact h.updKeep _ _ (fun _ => ⟨rfl, rfl, rfl⟩)
        | exact h

theorem sameT_deleted {s s' : Seg} (h : SameT s s') (j : Nat) : (s'.get j).deleted = (s.get j).deleted := by
  have := h.slot j; unfold TreeOnly at this; exact this.2.2.2.2.2.2.2.1

theorem unlink_deleted (s : Seg) (i j : Nat) : ((s.unlink i).get j).deleted = (s.get j).deleted := (unlink_TS s i).2.2 j

theorem delete_PN (c : Ctx) (hpf : PF c) (h : PND c.seg) : OutcomeP (fun c => PND c.seg) (opDelete c) := by
  unfold opDelete
  split
  · exact h
  · rename_i i hi
    simp only []
    split
    · exact h
    · obtain ⟨⟨l, hj⟩, hF, hcells⟩ := hpf
      obtain ⟨his, hif, hir⟩ := hj.is_facts hi
      have t1 : TreeSame c.seg ((c.seg.upd i fun sl => sl.setDeleted true).unlink i) ∧ True :=
        ⟨(TreeSame.upd c.seg i (fun sl => sl.setDeleted true) (fun _ => ⟨rfl, rfl, rfl, rfl⟩)).trans (unlink_TS _ i).1, trivial⟩
      have hF1 := forest_congr t1.1 hF
      have hir1 : Real ((c.seg.upd i fun sl => sl.setDeleted true).unlink i) i := by unfold Real; rw [(t1.1.fld i).2.2.2]; exact hir
      obtain ⟨hF2, _, hcop2, _, hpar2, hch2⟩ := detach_forest hF1 hir1
      have hsd : SameT ((c.seg.upd i fun sl => sl.setDeleted true).unlink i) (((c.seg.upd i fun sl => sl.setDeleted true).unlink i).detach i) := by
        unfold Seg.detach
        exact (unparent_same _ i).tr (detachChildren_same _ _ _)
      show PND (_ : Ctx).seg
      simp only [setIs_seg, withSeg_seg]
      intro j p hjr hjp
      simp only [addGlyphs_get] at hjp ⊢
      have hjr2 : Real (((c.seg.upd i fun sl => sl.setDeleted true).unlink i).detach i) j := hjr
      -- the deleted slot has no children any more, so it is nobody's parent
      have hpi : p ≠ i := fun hh => by
        obtain ⟨li, hki⟩ := hF2.kids i (by unfold Real; rw [hcop2]; exact hir1)
        have := hki.all j hjr2 (by rw [hjp, hh])
        have hc := hki.chain
        rw [hch2] at hc
        cases li with
        | nil => cases this
        | cons x r => cases hc.1
      have hold : (c.seg.get j).parent = some p := by
        rcases hpar2 j with h1 | h1
        · rw [h1, (t1.1.fld j).1] at hjp; exact hjp
        · rw [h1] at hjp; cases hjp
      rw [sameT_deleted hsd p, unlink_deleted, get_upd_ne _ _ _ _ hpi]
      exact h j p (by unfold Real at hjr2 ⊢; rw [← (t1.1.fld j).2.2.2, ← hcop2 j]; exact hjr2) hold

theorem linkNew_deleted (s : Seg) (n : Nat) (iss : Option Nat) (j : Nat) : ((s.linkNew n iss).get j).deleted = (s.get j).deleted :=
  (linkNew_TS s n iss).2.2 j

theorem insert_PN (c : Ctx) (hpf : PF c) (h : PND c.seg) : OutcomeP (fun c => PND c.seg) (opInsert c) := by
  unfold opInsert
  simp only []
  split
  · exact h
  · split
    · exact h
    · rename_i k seg heq
      obtain ⟨⟨l, hj⟩, hF, hcells⟩ := hpf
      simp only [setMaxSize_seg] at heq
      obtain ⟨_, _, _, _, _, hcop1, _, _, hpar1, hdel1⟩ := newSlot_forest hF hj.clean.freeNodup heq
      have t2 := linkNew_TS seg k (skipDeleted seg (seg.slots.size + 1) (c.setMaxSize (c.maxSize - 1)).is)
      show PND (_ : Ctx).seg
      simp only [setMap_seg, setIs_seg, withSeg_seg]
      refine h.frame (fun j hj' => ?_) (fun j p hj' hjp => ?_)
      · unfold Real at hj' ⊢
        simp only [addGlyphs_get] at hj'
        rw [(t2.1.fld j).2.2.2, hcop1 j] at hj'; exact hj'
      · simp only [addGlyphs_get] at hjp ⊢
        rw [(t2.1.fld j).1, hpar1 j] at hjp
        exact ⟨hjp, by rw [linkNew_deleted, hdel1 p]⟩

theorem copySlot_deleted (s : Seg) (i rf q : Nat) (hq : q ≠ i) : ((s.copySlot i rf).get q).deleted = (s.get q).deleted := by
  have g1 : ((s.upd i fun si => si.copyFrom (s.get rf)).get q).deleted = (s.get q).deleted := by rw [get_upd_ne _ _ _ _ hq]
  unfold Seg.copySlot
  simp only []
  split
  · split
    · rw [get_upd_ne _ _ _ _ hq]; exact g1
    · split
      · rw [sameT_deleted (child_same _ _ _) q]; exact g1
      · rw [get_upd_ne _ _ _ _ hq, sameT_deleted (child_same _ _ _) q]; exact g1
  · exact g1

theorem putCopy_PN (c : Ctx) (r : Int) (hpf : PF c) (h : PND c.seg) : OutcomeP (fun c => PND c.seg) (opPutCopy c r) := by
  unfold opPutCopy
  split
  · exact h
  · rename_i i hi
    split
    · exact h
    · rename_i hnd
      obtain ⟨⟨l, hj⟩, hF, hcells⟩ := hpf
      obtain ⟨his, hif, hir⟩ := hj.is_facts hi
      have hdi : (c.seg.get i).deleted = false := by
        cases hq : (c.seg.get i).deleted with
        | false => rfl
        | true => exact absurd hq hnd
      simp only []
      have hseg : (slotat c r).2.seg = c.seg := slotat_seg c r
      -- `unmark` changes no flag of `i` here
      have hunm : PND ((slotat c r).2.seg.unmark i) := by
        rw [hseg]
        unfold Seg.unmark
        have g : ∀ j, ((c.seg.upd i fun sl => (sl.setCopied false).setDeleted false).get j).parent = (c.seg.get j).parent ∧
            ((c.seg.upd i fun sl => (sl.setCopied false).setDeleted false).get j).copied = (c.seg.get j).copied ∧
            ((c.seg.upd i fun sl => (sl.setCopied false).setDeleted false).get j).deleted = (c.seg.get j).deleted := fun j => by
          rw [get_upd]; split
          · rename_i hh; rw [hh.1]
            exact ⟨rfl, by show false = _; rw [show (c.seg.get i).copied = false from hir], by show false = _; rw [hdi]⟩
          · exact ⟨rfl, rfl, rfl⟩
        exact h.frame (fun j hj' => by unfold Real at hj' ⊢; rw [← (g j).2.1]; exact hj')
          (fun j p _ hjp => ⟨by rw [← (g j).1]; exact hjp, (g p).2.2⟩)
      split
      · rename_i rf hrf
        split
        · split
          · exact slotat_PN c r h
          · rename_i hguard
            have hp0 : ((slotat c r).2.seg.get i).parent = none := by
              cases hq : ((slotat c r).2.seg.get i).parent with
              | none => rfl
              | some x => exact absurd (.inl (by rw [hq]; rfl)) hguard
            have hc0 : ((slotat c r).2.seg.get i).child = none := by
              cases hq : ((slotat c r).2.seg.get i).child with
              | none => rfl
              | some x => exact absurd (.inr (by rw [hq]; rfl)) hguard
            obtain ⟨k, hk⟩ := slotat_cell hrf
            obtain ⟨hrs, hrfree, hrr⟩ := hcells k rf hk
            rw [hseg] at hp0 hc0
            have hgood : ∀ p, (c.seg.get rf).parent = some p → Real c.seg p ∧ p ∉ c.seg.free ∧ p < c.seg.slots.size := by
              intro p hp
              by_cases hreal : Real c.seg rf
              · exact ⟨(hF.par rf p hreal hp).1, (hF.par rf p hreal hp).2, forest_parent_inb hF hreal hp⟩
              · rcases hrr with hrr | hrr
                · exact absurd hrr hreal
                · exact hrr p hp
            obtain ⟨_, _, hcop', hpar', hpi'⟩ := copySlot_forest hF hir hp0 hc0 hif his hgood
            show PND (_ : Ctx).seg
            simp only [withSeg_seg]
            rw [hseg]
            have hdel : ∀ q, q ≠ i → (((c.seg.copySlot i rf).unmark i).get q).deleted = (c.seg.get q).deleted := fun q hq => by
              unfold Seg.unmark
              rw [get_upd_ne _ _ _ _ hq]
              exact copySlot_deleted c.seg i rf q hq
            have hdeli : (((c.seg.copySlot i rf).unmark i).get i).deleted = false := by
              unfold Seg.unmark
              rw [get_upd_self _ _ _ (by rw [copySlot_assoc_size]; exact his)]
              rfl
            intro j p hjr hjp
            by_cases hji : j = i
            · rw [hji] at hjp
              obtain ⟨h1, h2⟩ := hpi' p hjp
              rw [hdel p h2]; exact h1
            · rw [hpar' j hji] at hjp
              have hold := h j p (by unfold Real at hjr ⊢; rw [← hcop' j]; exact hjr) hjp
              by_cases hpi2 : p = i
              · rw [hpi2]; exact hdeli
              · rw [hdel p hpi2]; exact hold
        · exact hunm
      · exact hunm

theorem tempCopy_PN (c : Ctx) (hpf : PF c) (h : PND c.seg) : OutcomeP (fun c => PND c.seg) (opTempCopy c) := by
  unfold opTempCopy
  split
  · rename_i n seg i heq hisq
    obtain ⟨⟨l, hj⟩, hF, hcells⟩ := hpf
    split
    · obtain ⟨hF1, hrn, hpn, hcn, hnf, hcop1, _, hnold, hpar1, hdel1⟩ := newSlot_forest hF hj.clean.freeNodup heq
      obtain ⟨_, hns, _⟩ := newSlot_copyFrame hj.clean.freeInb heq
      show PND (_ : Ctx).seg
      simp only [setCell_seg, withSeg_seg]
      -- nobody real has the new slot as parent
      have hnopar : ∀ j, Real seg j → (seg.get j).parent ≠ some n := fun j hjr hjp => by
        obtain ⟨ln, hkn⟩ := hF1.kids n hrn
        have := hkn.all j hjr hjp
        have hc := hkn.chain
        rw [hcn] at hc
        cases ln with
        | nil => cases this
        | cons x r => cases hc.1
      intro j p hjr hjp
      have hjn : j ≠ n := fun hh => by
        unfold Real at hjr
        rw [hh, get_upd_self _ _ _ hns] at hjr
        simp at hjr
      rw [get_upd_ne _ _ _ _ hjn] at hjp
      have hjr1 : Real seg j := by unfold Real at hjr ⊢; rw [get_upd_ne _ _ _ _ hjn] at hjr; exact hjr
      have hpn' : p ≠ n := fun hh => hnopar j hjr1 (hh ▸ hjp)
      rw [get_upd_ne _ _ _ _ hpn', hdel1 p]
      exact h j p (by unfold Real at hjr1 ⊢; rw [← hcop1 j]; exact hjr1) (by rw [← hpar1 j]; exact hjp)
    · trivial
  · exact h

/-- **every opcode keeps the whole invariant** -/
theorem ops_PG : OpsPreserve PG := by
  refine ⟨?_, ?_, ?_, ?_, ?_, ?_, ?_, ?_, ?_, ?_⟩
  · intro c h; exact outcomeP_and (ops_PF.next c h.1) (next_PN c h.2)
  · intro c h; exact outcomeP_and (ops_PF.insert c h.1) (insert_PN c h.1 h.2)
  · intro c h; exact outcomeP_and (ops_PF.delete c h.1) (delete_PN c h.1 h.2)
  · intro c r h; exact outcomeP_and (ops_PF.putCopy c r h.1) (putCopy_PN c r h.1 h.2)
  · intro c rs h; exact outcomeP_and (ops_PF.assoc c rs h.1) (assoc_PN c rs h.2)
  · intro c h; exact outcomeP_and (ops_PF.tempCopy c h.1) (tempCopy_PN c h.1 h.2)
  · intro c a b v h; exact outcomeP_and (ops_PF.attrSet c a b v h.1) (attrSet_PN c a b v h.1 h.2)
  · intro c k h; exact outcomeP_and (ops_PF.putGlyph c k h.1) (putGlyph_PN c k h.2)
  · intro c r i o h; exact outcomeP_and (ops_PF.putSubs c r i o h.1) (putSubs_PN c r i o h.2)
  · intro c x h; exact ⟨ops_PF.slotat c x h.1, slotat_PN c x h.2⟩

end GrVerif.Action

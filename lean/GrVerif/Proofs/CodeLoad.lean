import GrVerif.Model.CodeLoad
import GrVerif.Proofs.PassLoad
set_option linter.unusedVariables false
set_option linter.unusedSimpArgs false
namespace GrVerif.CodeLoad
open GrVerif GrVerif.Gen.Vm GrVerif.Loader

theorem arg_ok (ps : List Nat) (k : Nat) (h : k < ps.length) : arg ps k = .ok ps[k] := byteAt_ok ps k h

/-- how many parameter bytes the switch of `fetch_opcode` looks at (`ASSOC` aside) -/
def need (opc : Nat) : Nat :=
  if opc = 28 ∨ opc = 30 ∨ (35 ≤ opc ∧ opc ≤ 38) then 1
  else if opc = 34 ∨ opc = 39 ∨ (51 ≤ opc ∧ opc ≤ 53) ∨ opc = 40 ∨ opc = 41 ∨ opc = 44 ∨ opc = 42 ∨ opc = 45 ∨ opc = 43 ∨ opc = 59 ∨ opc = 66 then 2
  else if opc = 29 ∨ opc = 46 ∨ opc = 60 ∨ opc = 61 then 3
  else if opc = 56 then 5
  else 0

theorem assocRefs_ok (l : Limits) (constraint : Bool) (d : Dec) (ps : List Nat) :
    ∀ n, n < ps.length → ∃ r, assocRefs l constraint d ps n = .ok r := by
  intro n
  induction n with
  | zero => intro _; exact ⟨_, rfl⟩
  | succ n ih =>
    intro h
    unfold assocRefs
    obtain ⟨r, e⟩ := ih (by omega)
    simp only [bind, Except.bind, arg_ok ps (n + 1) h, e, pure, Except.pure]
    exact ⟨_, rfl⟩

/-- the switch of `fetch_opcode` reads only parameter bytes that `validate_opcode` has checked: with at least `need opc` bytes
(for `ASSOC`: the count byte and as many bytes as it says) no read fails -/
theorem fetchCase_ok (l : Limits) (constraint : Bool) (pt : Nat) (d : Dec) (opc pos : Nat) (ps : List Nat)
    (hn : need opc ≤ ps.length) (ha : opc = 33 → ∃ h : 0 < ps.length, ps[0] < ps.length) :
    ∃ r, fetchCase l constraint pt d opc pos ps = .ok r := by
  unfold fetchCase
  simp only [bind, Except.bind, pure, Except.pure]
  by_cases h0 : opc = 0
  · rw [if_pos h0]; exact ⟨_, rfl⟩
  rw [if_neg h0]
  by_cases h1 : 1 ≤ opc ∧ opc ≤ 5
  · rw [if_pos h1]; exact ⟨_, rfl⟩
  rw [if_neg h1]
  by_cases h2 : (6 ≤ opc ∧ opc ≤ 11) ∨ opc = 16 ∨ opc = 17 ∨ (19 ≤ opc ∧ opc ≤ 24) ∨ opc = 62 ∨ opc = 63
  · rw [if_pos h2]; exact ⟨_, rfl⟩
  rw [if_neg h2]
  by_cases h3 : (12 ≤ opc ∧ opc ≤ 14) ∨ opc = 18 ∨ opc = 64 ∨ opc = 65
  · rw [if_pos h3]; exact ⟨_, rfl⟩
  rw [if_neg h3]
  by_cases h4 : opc = 15
  · rw [if_pos h4]; exact ⟨_, rfl⟩
  rw [if_neg h4]
  by_cases h5 : opc = 26
  · rw [if_pos h5]; exact ⟨_, rfl⟩
  rw [if_neg h5]
  by_cases h6 : opc = 25 ∨ opc = 27
  · rw [if_pos h6]; exact ⟨_, rfl⟩
  rw [if_neg h6]
  by_cases h7 : opc = 28
  · rw [if_pos h7]
    have hk : 1 ≤ ps.length := by unfold need at hn; split at hn <;> (try split at hn) <;> (try split at hn) <;> (try split at hn) <;> omega
    simp only [arg_ok ps 0 (by omega)]
    exact ⟨_, rfl⟩
  rw [if_neg h7]
  by_cases h8 : opc = 29
  · rw [if_pos h8]
    have hk : 3 ≤ ps.length := by unfold need at hn; split at hn <;> (try split at hn) <;> (try split at hn) <;> (try split at hn) <;> omega
    simp only [arg_ok ps 0 (by omega), arg_ok ps 1 (by omega), arg_ok ps 2 (by omega)]
    exact ⟨_, rfl⟩
  rw [if_neg h8]
  by_cases h9 : opc = 30
  · rw [if_pos h9]
    have hk : 1 ≤ ps.length := by unfold need at hn; split at hn <;> (try split at hn) <;> (try split at hn) <;> (try split at hn) <;> omega
    simp only [arg_ok ps 0 (by omega)]
    exact ⟨_, rfl⟩
  rw [if_neg h9]
  by_cases h10 : opc = 31
  · rw [if_pos h10]; exact ⟨_, rfl⟩
  rw [if_neg h10]
  by_cases h11 : opc = 32
  · rw [if_pos h11]; exact ⟨_, rfl⟩
  rw [if_neg h11]
  by_cases h12 : opc = 33
  · rw [if_pos h12]
    obtain ⟨q0, q1⟩ := ha h12
    rw [arg_ok ps 0 q0]
    simp only []
    obtain ⟨r, e⟩ := assocRefs_ok l constraint d ps ps[0] q1
    rw [e]; exact ⟨_, rfl⟩
  rw [if_neg h12]
  by_cases h13 : opc = 34
  · rw [if_pos h13]
    have hk : 2 ≤ ps.length := by unfold need at hn; split at hn <;> (try split at hn) <;> (try split at hn) <;> (try split at hn) <;> omega
    simp only [arg_ok ps 0 (by omega), arg_ok ps 1 (by omega)]
    exact ⟨_, rfl⟩
  rw [if_neg h13]
  by_cases h14 : 35 ≤ opc ∧ opc ≤ 38
  · rw [if_pos h14]
    have hk : 1 ≤ ps.length := by unfold need at hn; split at hn <;> (try split at hn) <;> (try split at hn) <;> (try split at hn) <;> omega
    simp only [arg_ok ps 0 (by omega)]
    exact ⟨_, rfl⟩
  rw [if_neg h14]
  by_cases h15 : opc = 39 ∨ (51 ≤ opc ∧ opc ≤ 53)
  · rw [if_pos h15]
    have hk : 2 ≤ ps.length := by unfold need at hn; split at hn <;> (try split at hn) <;> (try split at hn) <;> (try split at hn) <;> omega
    simp only [arg_ok ps 0 (by omega), arg_ok ps 1 (by omega)]
    exact ⟨_, rfl⟩
  rw [if_neg h15]
  by_cases h16 : opc = 40
  · rw [if_pos h16]
    have hk : 2 ≤ ps.length := by unfold need at hn; split at hn <;> (try split at hn) <;> (try split at hn) <;> (try split at hn) <;> omega
    simp only [arg_ok ps 0 (by omega), arg_ok ps 1 (by omega)]
    exact ⟨_, rfl⟩
  rw [if_neg h16]
  by_cases h17 : opc = 41 ∨ opc = 44
  · rw [if_pos h17]
    have hk : 2 ≤ ps.length := by unfold need at hn; split at hn <;> (try split at hn) <;> (try split at hn) <;> (try split at hn) <;> omega
    simp only [arg_ok ps 0 (by omega), arg_ok ps 1 (by omega)]
    exact ⟨_, rfl⟩
  rw [if_neg h17]
  by_cases h18 : opc = 42 ∨ opc = 45
  · rw [if_pos h18]
    have hk : 2 ≤ ps.length := by unfold need at hn; split at hn <;> (try split at hn) <;> (try split at hn) <;> (try split at hn) <;> omega
    simp only [arg_ok ps 0 (by omega), arg_ok ps 1 (by omega)]
    exact ⟨_, rfl⟩
  rw [if_neg h18]
  by_cases h19 : opc = 43
  · rw [if_pos h19]
    have hk : 2 ≤ ps.length := by unfold need at hn; split at hn <;> (try split at hn) <;> (try split at hn) <;> (try split at hn) <;> omega
    simp only [arg_ok ps 0 (by omega), arg_ok ps 1 (by omega)]
    exact ⟨_, rfl⟩
  rw [if_neg h19]
  by_cases h20 : opc = 46
  · rw [if_pos h20]
    have hk : 3 ≤ ps.length := by unfold need at hn; split at hn <;> (try split at hn) <;> (try split at hn) <;> (try split at hn) <;> omega
    simp only [arg_ok ps 0 (by omega), arg_ok ps 1 (by omega), arg_ok ps 2 (by omega)]
    exact ⟨_, rfl⟩
  rw [if_neg h20]
  by_cases h21 : opc = 47 ∨ opc = 54 ∨ opc = 55
  · rw [if_pos h21]; exact ⟨_, rfl⟩
  rw [if_neg h21]
  by_cases h22 : opc = 48
  · rw [if_pos h22]; exact ⟨_, rfl⟩
  rw [if_neg h22]
  by_cases h23 : opc = 49 ∨ opc = 50 ∨ opc = 57 ∨ opc = 58
  · rw [if_pos h23]; exact ⟨_, rfl⟩
  rw [if_neg h23]
  by_cases h24 : opc = 56
  · rw [if_pos h24]
    have hk : 5 ≤ ps.length := by unfold need at hn; split at hn <;> (try split at hn) <;> (try split at hn) <;> (try split at hn) <;> omega
    simp only [arg_ok ps 0 (by omega), arg_ok ps 1 (by omega), arg_ok ps 2 (by omega), arg_ok ps 3 (by omega), arg_ok ps 4 (by omega)]
    exact ⟨_, rfl⟩
  rw [if_neg h24]
  by_cases h25 : opc = 59
  · rw [if_pos h25]
    have hk : 2 ≤ ps.length := by unfold need at hn; split at hn <;> (try split at hn) <;> (try split at hn) <;> (try split at hn) <;> omega
    simp only [arg_ok ps 0 (by omega), arg_ok ps 1 (by omega)]
    exact ⟨_, rfl⟩
  rw [if_neg h25]
  by_cases h26 : opc = 60 ∨ opc = 61
  · rw [if_pos h26]
    have hk : 3 ≤ ps.length := by unfold need at hn; split at hn <;> (try split at hn) <;> (try split at hn) <;> (try split at hn) <;> omega
    simp only [arg_ok ps 0 (by omega), arg_ok ps 1 (by omega), arg_ok ps 2 (by omega)]
    exact ⟨_, rfl⟩
  rw [if_neg h26]
  by_cases h27 : opc = 66
  · rw [if_pos h27]
    have hk : 2 ≤ ps.length := by unfold need at hn; split at hn <;> (try split at hn) <;> (try split at hn) <;> (try split at hn) <;> omega
    simp only [arg_ok ps 0 (by omega), arg_ok ps 1 (by omega)]
    exact ⟨_, rfl⟩
  rw [if_neg h27]
  exact ⟨_, rfl⟩

/-! ## what `analyse_opcode` keeps -/

/-- number of contexts flagged `referenced` -/
def nRef (cs : List Cx) : Nat := (cs.filter fun c => c.referenced).length

theorem nRef_cons (c : Cx) (rest : List Cx) : nRef (c :: rest) = (if c.referenced then 1 else 0) + nRef rest := by
  unfold nRef
  rw [List.filter_cons]
  by_cases h : c.referenced = true
  · rw [if_pos h, if_pos h, List.length_cons]; omega
  · rw [if_neg h, if_neg h]; omega

theorem nRef_set_le (cs : List Cx) (i : Nat) (x : Cx) : nRef (cs.set i x) ≤ nRef cs + 1 := by
  induction cs generalizing i with
  | nil => simp [nRef]
  | cons c rest ih =>
    cases i with
    | zero =>
      rw [List.set_cons_zero, nRef_cons, nRef_cons]
      split <;> split <;> omega
    | succ i =>
      have := ih i
      rw [List.set_cons_succ, nRef_cons, nRef_cons]; omega

theorem nRef_set_same (cs : List Cx) (i : Nat) (x c0 : Cx) (h0 : cs[i]? = some c0) (hx : x.referenced = c0.referenced) : nRef (cs.set i x) = nRef cs := by
  induction cs generalizing i with
  | nil => simp at h0
  | cons c rest ih =>
    cases i with
    | zero =>
      simp only [List.getElem?_cons_zero, Option.some.injEq] at h0
      subst h0
      rw [List.set_cons_zero, nRef_cons, nRef_cons, hx]
    | succ i =>
      simp only [List.getElem?_cons_succ] at h0
      rw [List.set_cons_succ, nRef_cons, nRef_cons, ih i h0]

theorem nRef_set (cs : List Cx) (i : Nat) (x : Cx) (hx : x.referenced = false) : nRef (cs.set i x) ≤ nRef cs := by
  induction cs generalizing i with
  | nil => simp [nRef]
  | cons c rest ih =>
    cases i with
    | zero =>
      rw [List.set_cons_zero, nRef_cons, nRef_cons, hx]
      simp only [Bool.false_eq_true, if_false]; omega
    | succ i =>
      have := ih i
      rw [List.set_cons_succ, nRef_cons, nRef_cons]; omega

theorem updCx_length (cs : List Cx) (i : Nat) (f : Cx → Cx) : (updCx cs i f).length = cs.length := by
  unfold updCx; split
  · simp only [List.length_set]
  · rfl

theorem nRef_updCx (cs : List Cx) (i : Nat) (f : Cx → Cx) : nRef (updCx cs i f) ≤ nRef cs + 1 := by
  unfold updCx; split
  · exact nRef_set_le _ _ _
  · omega

theorem nRef_updCx_same (cs : List Cx) (i : Nat) (f : Cx → Cx) (hf : ∀ c, (f c).referenced = c.referenced) : nRef (updCx cs i f) = nRef cs := by
  unfold updCx; split
  · rename_i c hc
    exact nRef_set_same _ _ _ c hc (hf c)
  · rfl

/-- the parts of the decoder's state `analyse_opcode` does not touch, and what it does to the two it does -/
structure Keeps (d d' : Dec) (refs : Nat) : Prop where
  count : d'.count = d.count
  dataSize : d'.dataSize = d.dataSize
  curEnd : d'.curEnd = d.curEnd
  ctxt : d'.ctxt = d.ctxt
  instrs : d'.instrs = d.instrs
  inCtxt : d'.inCtxt = d.inCtxt
  len : d'.ctxs.length = d.ctxs.length
  nref : nRef d'.ctxs ≤ nRef d.ctxs + refs
  slot : -1 ≤ d.slotref → -1 ≤ d'.slotref

theorem Keeps.refl (d : Dec) (n : Nat) : Keeps d d n := ⟨rfl, rfl, rfl, rfl, rfl, rfl, rfl, by omega, fun h => h⟩

theorem Keeps.trans {a b c : Dec} {m n : Nat} (h1 : Keeps a b m) (h2 : Keeps b c n) : Keeps a c (m + n) :=
  ⟨h2.count.trans h1.count, h2.dataSize.trans h1.dataSize, h2.curEnd.trans h1.curEnd, h2.ctxt.trans h1.ctxt, h2.instrs.trans h1.instrs,
   h2.inCtxt.trans h1.inCtxt, h2.len.trans h1.len, by have := h1.nref; have := h2.nref; omega, fun h => h2.slot (h1.slot h)⟩

theorem Keeps.mono {a b : Dec} {m n : Nat} (h : Keeps a b m) (hmn : m ≤ n) : Keeps a b n :=
  { h with nref := by have := h.nref; omega }

theorem bumpRef_keeps (d : Dec) (x : Int) : Keeps d (bumpRef d x) 0 := by
  unfold bumpRef; split
  · exact ⟨rfl, rfl, rfl, rfl, rfl, rfl, rfl, by simp, fun h => h⟩
  · exact Keeps.refl d 0

theorem setRef_keeps (d : Dec) (i : Int) : Keeps d (setRef d i) 1 := by
  unfold setRef
  simp only []
  split
  · refine Keeps.trans (m := 1) (n := 0) ?_ (bumpRef_keeps _ _)
    exact ⟨rfl, rfl, rfl, rfl, rfl, rfl, updCx_length _ _ _, nRef_updCx _ _ _, fun h => h⟩
  · exact Keeps.refl d 1

theorem setChanged_keeps (d : Dec) (i : Int) : Keeps d (setChanged d i) 0 := by
  unfold setChanged
  simp only []
  split
  · refine Keeps.trans (m := 0) (n := 0) ?_ (bumpRef_keeps _ _)
    exact ⟨rfl, rfl, rfl, rfl, rfl, rfl, updCx_length _ _ _, by have := nRef_updCx_same d.ctxs (i + d.slotref).toNat (fun c => { c with changed := true }) (fun c => rfl); simp only [] at this ⊢; omega, fun h => h⟩
  · exact Keeps.refl d 0

theorem setNoref_keeps (d : Dec) (i : Int) : Keeps d (setNoref d i) 0 := by
  unfold setNoref
  simp only []
  split
  · exact bumpRef_keeps _ _
  · exact Keeps.refl d 0

theorem keeps_modify (d : Dec) : Keeps d { d with modify := true } 0 := ⟨rfl, rfl, rfl, rfl, rfl, rfl, rfl, by simp, fun h => h⟩

/-- does `analyse_opcode` look at a slot parameter (and so may flag a context `referenced`)? -/
def refsOf (opc : Nat) : Nat := if opc = 29 ∨ opc = 56 ∨ opc = 30 ∨ opc = 41 ∨ opc = 40 ∨ opc = 42 ∨ opc = 44 ∨ opc = 45 ∨ opc = 46 ∨ opc = 43 ∨ opc = 66 ∨ opc = 61 ∨ opc = 60 then 1 else 0

/-- `analyse_opcode` reads only checked parameter bytes, writes `_contexts` only inside the array (given what the `NEXT` test of
`fetch_opcode` established), and flags at most one more context `referenced` – and only for opcodes with a slot parameter -/
theorem analyse_ok (d : Dec) (opc : Nat) (ps : List Nat) (hn : need opc ≤ ps.length)
    (hs : (opc = 25 ∨ opc = 27) → -1 ≤ d.slotref ∧ d.slotref ≤ 254) (hl : d.ctxs.length = 256) :
    ∃ d', analyse d opc ps = .ok d' ∧ Keeps d d' (refsOf opc) := by
  unfold analyse
  simp only [bind, Except.bind, pure, Except.pure]
  by_cases h0 : opc = 32
  · rw [if_pos h0]; exact ⟨_, rfl, ⟨rfl, rfl, rfl, rfl, rfl, rfl, rfl, by simp only []; omega, fun h => h⟩⟩
  rw [if_neg h0]
  by_cases h1 : opc = 33
  · rw [if_pos h1]; exact ⟨_, rfl, (setChanged_keeps d 0).mono (by omega)⟩
  rw [if_neg h1]
  by_cases h2 : opc = 28 ∨ opc = 59
  · rw [if_pos h2]; exact ⟨_, rfl, ((keeps_modify d).trans (setChanged_keeps _ 0)).mono (by omega)⟩
  rw [if_neg h2]
  by_cases h3 : (35 ≤ opc ∧ opc ≤ 39) ∨ (51 ≤ opc ∧ opc ≤ 53)
  · rw [if_pos h3]; exact ⟨_, rfl, (setNoref_keeps d 0).mono (by omega)⟩
  rw [if_neg h3]
  by_cases h4 : opc = 25 ∨ opc = 27
  · rw [if_pos h4]
    obtain ⟨q1, q2⟩ := hs h4
    rw [if_pos (by omega)]
    refine ⟨_, rfl, ⟨rfl, rfl, rfl, rfl, rfl, rfl, by simp only [List.length_set], ?_, fun _ => by simp only []; omega⟩⟩
    have := nRef_set d.ctxs (d.slotref + 1).toNat { codeRef := (d.count + 1) % 256 } rfl
    simp only []; omega
  rw [if_neg h4]
  by_cases h5 : opc = 31
  · rw [if_pos h5]
    refine ⟨_, rfl, ⟨rfl, rfl, rfl, rfl, rfl, rfl, rfl, by simp, fun h => ?_⟩⟩
    simp only []; split <;> omega
  rw [if_neg h5]
  by_cases h6 : opc = 29 ∨ opc = 56
  · rw [if_pos h6]
    have hk : 1 ≤ ps.length := by unfold need at hn; split at hn <;> (try split at hn) <;> (try split at hn) <;> (try split at hn) <;> omega
    rw [arg_ok ps 0 (by omega)]
    simp only []
    have hr : refsOf opc = 1 := by unfold refsOf; rw [if_pos (by omega)]
    rw [hr]
    refine ⟨_, rfl, ?_⟩
    split
    · exact (((keeps_modify d).trans (setChanged_keeps _ 0)).trans ((keeps_modify _).trans (setChanged_keeps _ 0))).trans (setRef_keeps _ _)
    · exact ((keeps_modify d).trans (setChanged_keeps _ 0)).trans (setRef_keeps _ _)
  rw [if_neg h6]
  by_cases h7 : opc = 30
  · rw [if_pos h7]
    have hk : 1 ≤ ps.length := by subst h7; exact hn
    rw [arg_ok ps 0 (by omega)]
    simp only []
    have hr : refsOf opc = 1 := by unfold refsOf; rw [if_pos (by omega)]
    rw [hr]
    refine ⟨_, rfl, ?_⟩
    split
    · refine Keeps.trans (m := 0) (n := 1) ?_ (setRef_keeps _ _)
      have := setChanged_keeps d 0
      exact ⟨this.count, this.dataSize, this.curEnd, this.ctxt, this.instrs, this.inCtxt, this.len, this.nref, this.slot⟩
    · exact (Keeps.refl d 0).trans (setRef_keeps _ _)
  rw [if_neg h7]
  by_cases h8 : opc = 41 ∨ opc = 40 ∨ opc = 42 ∨ opc = 44 ∨ opc = 45 ∨ opc = 46 ∨ opc = 43 ∨ opc = 66
  · rw [if_pos h8]
    have hk : 2 ≤ ps.length := by unfold need at hn; split at hn <;> (try split at hn) <;> (try split at hn) <;> (try split at hn) <;> omega
    rw [arg_ok ps 1 (by omega)]
    simp only []
    have hr : refsOf opc = 1 := by unfold refsOf; rw [if_pos (by omega)]
    rw [hr]
    exact ⟨_, rfl, setRef_keeps _ _⟩
  rw [if_neg h8]
  by_cases h9 : opc = 61 ∨ opc = 60
  · rw [if_pos h9]
    have hk : 3 ≤ ps.length := by unfold need at hn; split at hn <;> (try split at hn) <;> (try split at hn) <;> (try split at hn) <;> omega
    rw [arg_ok ps 2 (by omega)]
    simp only []
    have hr : refsOf opc = 1 := by unfold refsOf; rw [if_pos (by omega)]
    rw [hr]
    exact ⟨_, rfl, setRef_keeps _ _⟩
  rw [if_neg h9]
  exact ⟨_, rfl, Keeps.refl d _⟩

/-! ## facts about the regenerated opcode table -/

/-- per opcode: `VARARGS` is `ASSOC` alone; the switch of `fetch_opcode` and `analyse_opcode` look at no more parameter bytes than
the table says the opcode has; an opcode that can flag a context `referenced` has a parameter byte; `NEXT`/`COPY_NEXT` do not
exist for constraints and `CNTXT_ITEM` (two parameter bytes) does not exist for actions -/
def tableRow (opc : Nat) : Bool :=
  match opcodeTable[opc]? with
  | some (_, psz, a, c) =>
    (decide (psz = 255) == decide (opc = 33)) && (psz == 255 || decide (need opc ≤ psz)) && (psz == 255 || decide (refsOf opc ≤ psz)) &&
    (if opc = 25 ∨ opc = 27 then !c else true) && (if opc = 34 then !a && psz == 2 else true) && (if opc = 33 then refsOf opc == 0 && need opc == 0 else true)
  | none => false

theorem table_checked : (List.range 67).all tableRow = true := by decide

theorem table_row (opc : Nat) (h : opc < 67) : tableRow opc = true :=
  List.all_eq_true.mp table_checked opc (List.mem_range.mpr h)

theorem lastFail_single (c : Bool) (s : Nat) (h : lastFail [(c, s)] = none) : c = false := by
  unfold lastFail lastFail at h
  simp only [] at h
  cases c with
  | false => rfl
  | true => simp at h

theorem fetchCase_next (l : Limits) (constraint : Bool) (pt : Nat) (d : Dec) (opc pos : Nat) (ps : List Nat) (b : Book) (ts : List (Bool × Nat))
    (ho : opc = 25 ∨ opc = 27) (h : fetchCase l constraint pt d opc pos ps = .ok (b, ts)) (hf : lastFail ts = none) : d.slotref ≤ l.ruleLength := by
  rcases ho with rfl | rfl
  all_goals
    simp [fetchCase, pure, Except.pure] at h
    obtain ⟨_, rfl⟩ := h
    have := lastFail_single _ _ hf
    simp at this
    omega

theorem lastFail_none_mem : ∀ (ts : List (Bool × Nat)), lastFail ts = none → ∀ t ∈ ts, t.1 = false := by
  intro ts
  induction ts with
  | nil => intro _ t ht; cases ht
  | cons a rest ih =>
    intro h t ht
    obtain ⟨c, s⟩ := a
    unfold lastFail at h
    cases hr : lastFail rest with
    | some s' => rw [hr] at h; cases h
    | none =>
      rw [hr] at h
      simp only [] at h
      rcases List.mem_cons.mp ht with rfl | ht
      · cases c with
        | false => rfl
        | true => simp at h
      · exact ih hr t ht

/-- the jump test of `CNTXT_ITEM`: the nested range ends before the enclosing one does -/
theorem fetchCase_cntxt (l : Limits) (constraint : Bool) (pt : Nat) (d : Dec) (pos : Nat) (ps : List Nat) (b : Book) (ts : List (Bool × Nat))
    (s skip : Nat) (h0 : arg ps 0 = .ok s) (h1 : arg ps 1 = .ok skip)
    (h : fetchCase l constraint pt d 34 pos ps = .ok (b, ts)) (hf : lastFail ts = none) : pos + 1 + 2 + skip < d.curEnd ∧ d.inCtxt = false := by
  simp [fetchCase, pure, Except.pure, bind, Except.bind, h0, h1] at h
  obtain ⟨_, rfl⟩ := h
  have hm := lastFail_none_mem _ hf
  have a := hm (decide (pos + 1 + 2 + skip ≥ d.curEnd), S_jump_past_end) (by simp)
  have b := hm (d.inCtxt, S_nested_context) (by simp)
  simp at a b
  exact ⟨by omega, b⟩

end GrVerif.CodeLoad

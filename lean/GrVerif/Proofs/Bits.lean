/-! Bit-mask facts on `Nat` used to reason about C `&`, `|`, `<<`, `>>` without bit-vectors. -/
namespace GrVerif.Bits

theorem and_low (x k : Nat) : x &&& (2^k - 1) = x % 2^k := Nat.and_two_pow_sub_one_eq_mod x k

/-- masking with the high bits `[k, n)` of an `n`-bit number clears the low `k` bits -/
theorem and_high (x k n : Nat) (hx : x < 2^n) (hk : k ≤ n) : x &&& (2^n - 2^k) = x - x % 2^k := by
  apply Nat.eq_of_testBit_eq
  intro i
  have h2 : 2^n - 2^k = (2^(n-k) - 1) * 2^k := by
    rw [Nat.sub_mul, ← Nat.pow_add, Nat.sub_add_cancel hk]; simp
  have h3 : x - x % 2^k = (x / 2^k) * 2^k := by
    have := Nat.div_add_mod x (2^k); rw [Nat.mul_comm] at this; omega
  rw [h2, h3, Nat.testBit_and, Nat.testBit_mul_two_pow, Nat.testBit_mul_two_pow, Nat.testBit_two_pow_sub_one, Nat.testBit_div_two_pow]
  by_cases hik : k ≤ i
  · simp [hik]
    by_cases hin : i < n
    · have : i - k < n - k := by omega
      simp [this]
    · have : ¬ (i - k < n - k) := by omega
      simp [this]
      have : x < 2^i := Nat.lt_of_lt_of_le hx (Nat.pow_le_pow_right (by decide) (by omega))
      exact Nat.testBit_lt_two_pow this
  · simp [hik]

/-- `a << i | b` is `a * 2^i + b` when `b` fits below bit `i` -/
theorem shl_or (a b i : Nat) (h : b < 2^i) : a <<< i ||| b = a * 2^i + b := by
  rw [← Nat.shiftLeft_add_eq_or_of_lt h, Nat.shiftLeft_eq]

theorem or_shl (a b i : Nat) (h : b < 2^i) : b ||| a <<< i = a * 2^i + b := by
  rw [Nat.or_comm]; exact shl_or a b i h

end GrVerif.Bits

import GrVerif.Proofs.CmapCache
import GrVerif.Proofs.CmapWalk
/-!
# The cached cmap answers what the direct cmap answers   (C13)

`Proofs/CmapWalk.lean` is the walk over abstract sorted ranges; here the byte-level `NextCodepoint` and `Lookup` functions of the two
subtable formats are shown to be that walk and to satisfy its hypotheses, and `buildCached` is assembled from them.
-/
namespace GrVerif.Cmap
open GrVerif GrVerif.Props.C13
open GrVerif.Feat (be16 be32)

/-- total readers: the value when the read is inside the buffer -/
def g16 (t : Buf) (i : Nat) : Nat := match be16 t i with | .ok v => v | .error _ => 0
def g32 (t : Buf) (i : Nat) : Nat := match be32 t i with | .ok v => v | .error _ => 0

theorem be16_g16 (t : Buf) (i : Nat) (h : i + 2 ≤ t.size) : be16 t i = .ok (g16 t i) := by
  obtain ⟨v, e⟩ := rd16_ok t i h; unfold g16; rw [e]
theorem be32_g32 (t : Buf) (i : Nat) (h : i + 4 ≤ t.size) : be32 t i = .ok (g32 t i) := by
  obtain ⟨v, e⟩ := rd32_ok t i h; unfold g32; rw [e]

theorem TQ.b16g {α : Type} {Q : α → Prop} {t : Buf} {i : Nat} {k : Nat → Except Fault α} (hi : i + 2 ≤ t.size) (h : TQ Q (k (g16 t i))) :
    TQ Q (be16 t i >>= k) := by
  rw [be16_g16 t i hi]; exact h
theorem TQ.b32g {α : Type} {Q : α → Prop} {t : Buf} {i : Nat} {k : Nat → Except Fault α} (hi : i + 4 ≤ t.size) (h : TQ Q (k (g32 t i))) :
    TQ Q (be32 t i >>= k) := by
  rw [be32_g32 t i hi]; exact h
theorem TQ.eq {α : Type} {v : α} {r : Except Fault α} (h : TQ (fun x => x = v) r) : r = .ok v := by
  obtain ⟨x, e, hx⟩ := h; rw [e, hx]

/-! ## `NextCodepoint` is `nextA` -/

theorem next4_down_eq (t : Buf) (usv K : Nat) (startIdx : Nat → Nat) (hs : ∀ j, j ≤ K → startIdx j + 2 ≤ t.size) :
    ∀ fuel i, i ≤ K → TQ (fun r => r = downA (fun j => g16 t (startIdx j)) usv fuel i) (next4.down t usv startIdx fuel i) := by
  intro fuel
  induction fuel with
  | zero => intro i hi; exact TQ.pure _ rfl
  | succ fuel ih =>
    intro i hi
    unfold next4.down downA
    refine TQ.ite (fun hpos => ?_) (fun hneg => by rw [if_neg hneg]; exact TQ.pure _ rfl)
    rw [if_pos hpos]
    refine TQ.b16g (hs i hi) ?_
    refine TQ.ite (fun h => ?_) (fun h => ?_)
    · rw [if_pos h]; exact ih (i - 1) (by omega)
    · rw [if_neg h]; exact TQ.pure _ rfl

theorem next4_up_eq (t : Buf) (usv nRange : Nat) (endIdx : Nat → Nat) (he : ∀ j, j + 1 < nRange → endIdx j + 2 ≤ t.size) :
    ∀ fuel i, TQ (fun r => r = upA (fun j => g16 t (endIdx j)) nRange usv fuel i) (next4.up t usv nRange endIdx fuel i) := by
  intro fuel
  induction fuel with
  | zero => intro i; exact TQ.pure _ rfl
  | succ fuel ih =>
    intro i
    unfold next4.up upA
    refine TQ.ite (fun hpos => ?_) (fun hneg => by rw [if_neg hneg]; exact TQ.pure _ rfl)
    rw [if_pos hpos]
    refine TQ.b16g (he i hpos) ?_
    refine TQ.ite (fun h => ?_) (fun h => ?_)
    · rw [if_pos h]; exact ih (i + 1)
    · rw [if_neg h]; exact TQ.pure _ rfl

theorem next12_down_eq (t : Buf) (usv K : Nat) (startIdx : Nat → Nat) (hs : ∀ j, j ≤ K → startIdx j + 4 ≤ t.size) :
    ∀ fuel i, i ≤ K → TQ (fun r => r = downA (fun j => g32 t (startIdx j)) usv fuel i) (next12.down t usv startIdx fuel i) := by
  intro fuel
  induction fuel with
  | zero => intro i hi; exact TQ.pure _ rfl
  | succ fuel ih =>
    intro i hi
    unfold next12.down downA
    refine TQ.ite (fun hpos => ?_) (fun hneg => by rw [if_neg hneg]; exact TQ.pure _ rfl)
    rw [if_pos hpos]
    refine TQ.b32g (hs i hi) ?_
    refine TQ.ite (fun h => ?_) (fun h => ?_)
    · rw [if_pos h]; exact ih (i - 1) (by omega)
    · rw [if_neg h]; exact TQ.pure _ rfl

theorem next12_up_eq (t : Buf) (usv nRange : Nat) (endIdx : Nat → Nat) (he : ∀ j, j + 1 < nRange → endIdx j + 4 ≤ t.size) :
    ∀ fuel i, TQ (fun r => r = upA (fun j => g32 t (endIdx j)) nRange usv fuel i) (next12.up t usv nRange endIdx fuel i) := by
  intro fuel
  induction fuel with
  | zero => intro i; exact TQ.pure _ rfl
  | succ fuel ih =>
    intro i
    unfold next12.up upA
    refine TQ.ite (fun hpos => ?_) (fun hneg => by rw [if_neg hneg]; exact TQ.pure _ rfl)
    rw [if_pos hpos]
    refine TQ.b32g (he i hpos) ?_
    refine TQ.ite (fun h => ?_) (fun h => ?_)
    · rw [if_pos h]; exact ih (i + 1)
    · rw [if_neg h]; exact TQ.pure _ rfl

/-- start and end code of segment `i` of a format 4 subtable with `N` segments -/
def st4 (t : Buf) (o N : Nat) (i : Nat) : Nat := g16 t (o + 14 + 2 * (N + 1 + i))
def en4 (t : Buf) (o : Nat) (i : Nat) : Nat := g16 t (o + 14 + 2 * i)
/-- start and end code of group `i` of a format 12 subtable -/
def st12 (t : Buf) (o : Nat) (i : Nat) : Nat := g32 t (o + 16 + 12 * i)
def en12 (t : Buf) (o : Nat) (i : Nat) : Nat := g32 t (o + 20 + 12 * i)

theorem next4_eq (t : Buf) (o : Nat) (h : check4 t (some o) = .ok true) (x : Nat) (hx : be16 t (o + 6) = .ok x) (usv key : Nat) (hk : key < x / 2) :
    next4 t o usv key = .ok (nextA (st4 t o (x / 2)) (en4 t o) (x / 2) 0xFFFF (x / 2 - 1) usv key) := by
  obtain ⟨x', len, hx', hlen, hn0, hl, hsz⟩ := check4_facts t o h
  rw [hx] at hx'; cases hx'
  apply TQ.eq
  unfold next4 nextA
  rw [hx]
  show TQ _ (Except.ok x >>= _)
  simp only [bind, Except.bind]
  refine TQ.ite (fun h0 => by rw [if_pos h0]; exact TQ.b16g (by omega) (TQ.pure _ rfl)) fun h0 => ?_
  rw [if_neg h0]
  refine TQ.ite (fun h1 => by rw [if_pos h1]; exact TQ.pure _ rfl) fun h1 => ?_
  rw [if_neg h1]
  obtain ⟨d1, _⟩ := downA_spec (st4 t o (x / 2)) usv (key + 1) key (by omega)
  refine TQ.bind (next4_down_eq t usv (x / 2 - 1) _ (fun j hj => by omega) (key + 1) key (by omega)) fun i hi => ?_
  subst hi
  obtain ⟨_, u2, _, _⟩ := upA_spec (en4 t o) (x / 2) usv (x / 2 + 1) (downA (st4 t o (x / 2)) usv (key + 1) key) (by omega) (by omega)
  refine TQ.bind (next4_up_eq t usv (x / 2) _ (fun j hj => by omega) (x / 2 + 1) _) fun i2 hi2 => ?_
  subst hi2
  refine TQ.b16g (by unfold st4 en4 at u2; omega) ?_
  refine TQ.b16g (by unfold st4 en4 at u2; omega) ?_
  unfold st4 en4
  refine TQ.ite (fun h2 => by rw [if_pos h2]; exact TQ.pure _ rfl) fun h2 => ?_
  rw [if_neg h2]
  refine TQ.ite (fun h3 => by rw [if_pos h3]; exact TQ.pure _ rfl) fun h3 => ?_
  rw [if_neg h3]
  exact TQ.b16g (by omega) (TQ.pure _ rfl)

theorem next12_eq (t : Buf) (o : Nat) (h : check12 t (some o) = .ok true) (n : Nat) (hn : be32 t (o + 12) = .ok n) (usv key : Nat) (hk : key < n) :
    next12 t o usv key = .ok (nextA (st12 t o) (en12 t o) n 0x10FFFF n usv key) := by
  obtain ⟨n', hn', hn0, hsz⟩ := check12_facts t o h
  rw [hn] at hn'; cases hn'
  apply TQ.eq
  unfold next12 nextA
  rw [hn]
  simp only [bind, Except.bind]
  refine TQ.ite (fun h0 => by rw [if_pos h0]; exact TQ.b32g (by omega) (TQ.pure _ rfl)) fun h0 => ?_
  rw [if_neg h0]
  refine TQ.ite (fun h1 => by rw [if_pos h1]; exact TQ.pure _ rfl) fun h1 => ?_
  rw [if_neg h1]
  obtain ⟨d1, _⟩ := downA_spec (st12 t o) usv (key + 1) key (by omega)
  refine TQ.bind (next12_down_eq t usv (n - 1) _ (fun j hj => by omega) (key + 1) key (by omega)) fun i hi => ?_
  subst hi
  obtain ⟨_, u2, _, _⟩ := upA_spec (en12 t o) n usv (n + 1) (downA (st12 t o) usv (key + 1) key) (by omega) (by omega)
  refine TQ.bind (next12_up_eq t usv n _ (fun j hj => by omega) (n + 1) _) fun i2 hi2 => ?_
  subst hi2
  refine TQ.b32g (by unfold st12 en12 at u2; omega) ?_
  refine TQ.b32g (by unfold st12 en12 at u2; omega) ?_
  unfold st12 en12
  refine TQ.ite (fun h2 => by rw [if_pos h2]; exact TQ.pure _ rfl) fun h2 => ?_
  rw [if_neg h2]
  refine TQ.ite (fun h3 => by rw [if_pos h3]; exact TQ.pure _ rfl) fun h3 => ?_
  rw [if_neg h3]
  exact TQ.b32g (by omega) (TQ.pure _ rfl)

/-! ## the look-ups: a key that names the range of the code point changes nothing; outside every range the answer is 0 -/

/-- the binary search of `CmapSubtable4Lookup` over increasing end codes finds the first segment that ends at or after the code point -/
theorem search4_finds (t : Buf) (o usv nSeg k : Nat) (hsz : o + 14 + 2 * nSeg ≤ t.size)
    (hmono : ∀ i j, i ≤ j → j < nSeg → en4 t o i ≤ en4 t o j) (hk1 : ∀ j, j < k → en4 t o j < usv) (hk2 : usv ≤ en4 t o k) :
    ∀ fuel left n, n ≤ fuel → left ≤ k → k < left + n → left + n ≤ nSeg → search4 t o usv fuel left n = .ok (some k) := by
  intro fuel
  induction fuel with
  | zero => intro left n h1 h2 h3 _; omega
  | succ fuel ih =>
    intro left n hf hl hr hN
    unfold search4
    rw [if_neg (by omega)]
    simp only [bind, Except.bind, pure, Except.pure]
    have hce := be16_g16 t (o + 14 + 2 * (left + n / 2)) (by omega)
    simp only [hce]
    have emid : g16 t (o + 14 + 2 * (left + n / 2)) = en4 t o (left + n / 2) := rfl
    by_cases c1 : usv ≤ g16 t (o + 14 + 2 * (left + n / 2))
    · simp only [c1, if_true]
      have hkm : k ≤ left + n / 2 := by
        apply Classical.byContradiction; intro hc
        have := hk1 (left + n / 2) (by omega)
        omega
      by_cases c2 : n / 2 = 0
      · simp only [c2, if_true]
        have : k = left + 0 := by omega
        rw [this]
      · simp only [c2, if_false]
        have hpv := be16_g16 t (o + 14 + 2 * (left + n / 2 - 1)) (by omega)
        simp only [hpv]
        have eprev : g16 t (o + 14 + 2 * (left + n / 2 - 1)) = en4 t o (left + n / 2 - 1) := rfl
        by_cases c3 : usv > g16 t (o + 14 + 2 * (left + n / 2 - 1))
        · simp only [c3, if_true]
          have : k = left + n / 2 := by
            apply Classical.byContradiction; intro hc
            have := hmono k (left + n / 2 - 1) (by omega) (by omega)
            omega
          rw [this]
        · simp only [c3, if_false]
          refine ih left (n / 2) (by omega) hl ?_ (by omega)
          apply Classical.byContradiction; intro hc
          have := hk1 (left + n / 2 - 1) (by omega)
          omega
    · simp only [c1, if_false]
      refine ih (left + n / 2 + 1) (n - (n / 2 + 1)) (by omega) ?_ (by omega) (by omega)
      apply Classical.byContradiction; intro hc
      have := hmono k (left + n / 2) (by omega) (by omega)
      omega

/-- inside the segment the key names, the keyed `CmapSubtable4Lookup` is the direct one -/
theorem lookup4_key (t : Buf) (o : Nat) (h : check4 t (some o) = .ok true) (x : Nat) (hx : be16 t (o + 6) = .ok x)
    (hS : Sorted (st4 t o (x / 2)) (en4 t o) (x / 2)) (u k : Nat) (hk : k < x / 2) (h1 : st4 t o (x / 2) k ≤ u) (h2 : u ≤ en4 t o k) :
    lookup4 t o u k = lookup4 t o u 0 := by
  obtain ⟨x', len, hx', hlen, hn0, hl, hsz⟩ := check4_facts t o h
  rw [hx] at hx'; cases hx'
  by_cases hk0 : k = 0
  · rw [hk0]
  · unfold lookup4
    simp only [hx, bind, Except.bind, pure, Except.pure]
    have : pick4 t o (x / 2) u 0 = .ok (some k) := by
      unfold pick4
      rw [if_neg (by omega)]
      refine search4_finds t o u (x / 2) k (by omega) (fun i j hij hj => sorted_en_mono hS i j hij hj) (fun j hj => ?_) h2 _ 0 (x / 2) (by omega) (by omega) (by omega) (by omega)
      have := sorted_lt hS k j hj hk
      omega
    rw [this]
    unfold pick4
    rw [if_pos hk0]

/-- outside every segment `CmapSubtable4Lookup` answers 0 -/
theorem lookup4_outside (t : Buf) (o : Nat) (h : check4 t (some o) = .ok true) (x : Nat) (hx : be16 t (o + 6) = .ok x)
    (u : Nat) (hout : ¬ InRange (st4 t o (x / 2)) (en4 t o) (x / 2) u) : lookup4 t o u 0 = .ok 0 := by
  obtain ⟨x', len, hx', hlen, hn0, hl, hsz⟩ := check4_facts t o h
  rw [hx] at hx'; cases hx'
  unfold lookup4
  simp only [hx, bind, Except.bind, pure, Except.pure]
  obtain ⟨r, hr, hrlt⟩ : ∃ r, pick4 t o (x / 2) u 0 = .ok r ∧ ∀ m, r = some m → m < x / 2 := by
    unfold pick4
    rw [if_neg (by omega)]
    exact search4_ok t o u (x / 2) (by omega) _ 0 (x / 2) (by omega)
  rw [hr]
  cases r with
  | none => rfl
  | some mid =>
    have hm := hrlt mid rfl
    simp only []
    unfold seg4
    simp only [bind, Except.bind, pure, Except.pure]
    have hce := be16_g16 t (o + 14 + 2 * mid) (by omega)
    have hcs := be16_g16 t (o + 14 + 2 * (mid + x / 2 + 1)) (by omega)
    simp only [hce, hcs]
    rw [if_neg]
    intro hc
    apply hout
    refine ⟨mid, hm, ?_, ?_⟩
    · show g16 t (o + 14 + 2 * (x / 2 + 1 + mid)) ≤ u
      rw [show x / 2 + 1 + mid = mid + x / 2 + 1 by omega]; exact hc.2
    · exact hc.1

theorem lookup12Loop_hit (t : Buf) (o u n k : Nat) (hsz : o + 16 + 12 * n ≤ t.size) (hk : k < n)
    (hbelow : ∀ j, j < k → ¬ (u ≥ st12 t o j ∧ u ≤ en12 t o j)) (h1 : st12 t o k ≤ u) (h2 : u ≤ en12 t o k) :
    ∀ fuel i, i ≤ k → k - i < fuel → lookup12Loop t o u n fuel i = .ok ((g32 t (o + 24 + 12 * k) + (u - st12 t o k)) % 65536) := by
  intro fuel
  induction fuel with
  | zero => intro i _ h; omega
  | succ fuel ih =>
    intro i hi hf
    unfold lookup12Loop
    rw [if_neg (by omega)]
    simp only [bind, Except.bind, pure, Except.pure]
    have hs := be32_g32 t (o + 16 + 12 * i) (by omega)
    have he := be32_g32 t (o + 20 + 12 * i) (by omega)
    simp only [hs, he]
    by_cases e : i = k
    · subst e
      have hg := be32_g32 t (o + 24 + 12 * i) (by omega)
      rw [if_pos (show u ≥ g32 t (o + 16 + 12 * i) ∧ u ≤ g32 t (o + 20 + 12 * i) from ⟨h1, h2⟩)]
      simp only [hg]
      rfl
    · rw [if_neg (show ¬ (u ≥ g32 t (o + 16 + 12 * i) ∧ u ≤ g32 t (o + 20 + 12 * i)) from hbelow i (by omega))]
      exact ih (i + 1) (by omega) (by omega)

theorem lookup12Loop_miss (t : Buf) (o u n : Nat) (hsz : o + 16 + 12 * n ≤ t.size) (hout : ¬ InRange (st12 t o) (en12 t o) n u) :
    ∀ fuel i, lookup12Loop t o u n fuel i = .ok 0 := by
  intro fuel
  induction fuel with
  | zero => intro i; rfl
  | succ fuel ih =>
    intro i
    unfold lookup12Loop
    by_cases hi : i ≥ n
    · rw [if_pos hi]
    · rw [if_neg hi]
      simp only [bind, Except.bind, pure, Except.pure]
      have hs := be32_g32 t (o + 16 + 12 * i) (by omega)
      have he := be32_g32 t (o + 20 + 12 * i) (by omega)
      simp only [hs, he]
      rw [if_neg (show ¬ (u ≥ g32 t (o + 16 + 12 * i) ∧ u ≤ g32 t (o + 20 + 12 * i)) from fun hc => hout ⟨i, by omega, hc.1, hc.2⟩)]
      exact ih (i + 1)

/-- inside the group the key names, the keyed `CmapSubtable12Lookup` is the direct one -/
theorem lookup12_key (t : Buf) (o : Nat) (h : check12 t (some o) = .ok true) (n : Nat) (hn : be32 t (o + 12) = .ok n)
    (hS : Sorted (st12 t o) (en12 t o) n) (u k : Nat) (hk : k < n) (h1 : st12 t o k ≤ u) (h2 : u ≤ en12 t o k) :
    lookup12 t o u k = lookup12 t o u 0 := by
  obtain ⟨n', hn', hn0, hsz⟩ := check12_facts t o h
  rw [hn] at hn'; cases hn'
  unfold lookup12
  simp only [hn, bind, Except.bind]
  have hbelow : ∀ j, j < k → ¬ (u ≥ st12 t o j ∧ u ≤ en12 t o j) := by
    intro j hj hc
    have := sorted_lt hS k j hj hk
    omega
  rw [lookup12Loop_hit t o u n k hsz hk hbelow h1 h2 _ k (by omega) (by omega),
      lookup12Loop_hit t o u n k hsz hk hbelow h1 h2 _ 0 (by omega) (by omega)]

theorem lookup12_outside (t : Buf) (o : Nat) (h : check12 t (some o) = .ok true) (n : Nat) (hn : be32 t (o + 12) = .ok n)
    (u : Nat) (hout : ¬ InRange (st12 t o) (en12 t o) n u) : lookup12 t o u 0 = .ok 0 := by
  obtain ⟨n', hn', hn0, hsz⟩ := check12_facts t o h
  rw [hn] at hn'; cases hn'
  unfold lookup12
  simp only [hn, bind, Except.bind]
  exact lookup12Loop_miss t o u n hsz hout _ _

/-! ## the binary search is the search the OpenType specification describes -/

/-- "search for the first endCode that is greater than or equal to the character code" -/
def firstEnd (en : Nat → Nat) (N u : Nat) : Option Nat := (List.range N).find? fun i => decide (u ≤ en i)

theorem firstEnd_some {en : Nat → Nat} {N u k : Nat} (h : firstEnd en N u = some k) : k < N ∧ u ≤ en k ∧ ∀ j, j < k → en j < u := by
  unfold firstEnd at h
  rw [List.find?_eq_some_iff_append] at h
  obtain ⟨hk, as, bs, hab, hall⟩ := h
  have hk' : u ≤ en k := by simpa using hk
  have hlen : as.length = k := by
    have h1 : (List.range N)[as.length]? = some k := by rw [hab]; simp
    rw [List.getElem?_range] at h1
    · cases h1; rfl
    · have : as.length < (List.range N).length := by rw [hab]; simp
      simpa using this
  have hkN : k < N := by
    have : as.length < (List.range N).length := by rw [hab]; simp
    rw [List.length_range] at this; omega
  refine ⟨hkN, hk', fun j hj => ?_⟩
  have hj : (List.range N)[j]? = some j := List.getElem?_range (by omega)
  rw [hab, List.getElem?_append_left (by omega)] at hj
  have hmem : j ∈ as := List.mem_of_getElem? hj
  have := hall j hmem
  simp at this
  omega

theorem firstEnd_none {en : Nat → Nat} {N u : Nat} (h : firstEnd en N u = none) : ∀ i, i < N → en i < u := by
  unfold firstEnd at h
  rw [List.find?_eq_none] at h
  intro i hi
  have := h i (List.mem_range.2 hi)
  simp at this
  omega

/-- the format 4 look-up as the specification words it: the first segment whose end code is not below the code point decides – its
start code, delta and range offset give the glyph, and a code point before its start is unmapped -/
def spec4 (t : Buf) (o : Nat) (u : Nat) : Except Fault Nat :=
  match firstEnd (en4 t o) (g16 t (o + 6) / 2) u with
  | some k => seg4 t o (g16 t (o + 6) / 2) u k
  | none => .ok 0

/-- **the binary search of `CmapSubtable4Lookup` finds the segment the specification's linear search finds** -/
theorem lookup4_is_spec (t : Buf) (o : Nat) (h : check4 t (some o) = .ok true)
    (hS : Sorted (st4 t o (g16 t (o + 6) / 2)) (en4 t o) (g16 t (o + 6) / 2)) (u : Nat) : lookup4 t o u 0 = spec4 t o u := by
  obtain ⟨x, len, hx, hlen, hn0, hl, hsz⟩ := check4_facts t o h
  have hx' : g16 t (o + 6) = x := by unfold g16; rw [hx]
  rw [hx'] at hS
  unfold spec4
  rw [hx']
  cases hf : firstEnd (en4 t o) (x / 2) u with
  | some k =>
    obtain ⟨hk, h2, h3⟩ := firstEnd_some hf
    simp only []
    unfold lookup4
    simp only [hx, bind, Except.bind, pure, Except.pure]
    have : pick4 t o (x / 2) u 0 = .ok (some k) := by
      unfold pick4
      rw [if_neg (by omega)]
      exact search4_finds t o u (x / 2) k (by omega) (fun i j hij hj => sorted_en_mono hS i j hij hj) h3 h2 _ 0 (x / 2) (by omega) (by omega) (by omega) (by omega)
    rw [this]
  | none =>
    have hall := firstEnd_none hf
    simp only []
    unfold lookup4
    simp only [hx, bind, Except.bind, pure, Except.pure]
    obtain ⟨r, hr, hrlt⟩ : ∃ r, pick4 t o (x / 2) u 0 = .ok r ∧ ∀ m, r = some m → m < x / 2 := by
      unfold pick4
      rw [if_neg (by omega)]
      exact search4_ok t o u (x / 2) (by omega) _ 0 (x / 2) (by omega)
    rw [hr]
    cases r with
    | none => rfl
    | some mid =>
      have hm := hrlt mid rfl
      simp only []
      unfold seg4
      simp only [bind, Except.bind, pure, Except.pure]
      have hce := be16_g16 t (o + 14 + 2 * mid) (by omega)
      have hcs := be16_g16 t (o + 14 + 2 * (mid + x / 2 + 1)) (by omega)
      simp only [hce, hcs]
      rw [if_neg]
      intro hc
      have := hall mid hm
      unfold en4 at this
      omega

/-! ## the two passes of `CachedCmap::CachedCmap` -/

/-- what the direct look-ups answer -/
def D4 (t : Buf) (o u : Nat) : Nat := match lookup4 t o u 0 with | .ok g => g | .error _ => 0
def D12 (t : Buf) (o u : Nat) : Nat := match lookup12 t o u 0 with | .ok g => g | .error _ => 0

theorem lookup4_D4 (t : Buf) (o : Nat) (h : check4 t (some o) = .ok true) (u : Nat) : lookup4 t o u 0 = .ok (D4 t o u) := by
  obtain ⟨g, e⟩ := direct_lookup4_in_bounds t o h u; unfold D4; rw [e]
theorem lookup12_D12 (t : Buf) (o : Nat) (h : check12 t (some o) = .ok true) (u : Nat) : lookup12 t o u 0 = .ok (D12 t o u) := by
  obtain ⟨g, e⟩ := lookup12_in_bounds t o h u 0; unfold D12; rw [e]

/-- the format 4 walk: below 0xFFFF the cache holds the direct answers afterwards -/
theorem cache4_spec (t : Buf) (o : Nat) (h : check4 t (some o) = .ok true) (x : Nat) (hx : be16 t (o + 6) = .ok x)
    (hS : Sorted (st4 t o (x / 2)) (en4 t o) (x / 2)) (c0 : Cache) (sz : Nat) (hsz : 0xFFFF < sz) (hc0 : c0.size = sz)
    (hz : ∀ u, u < 0xFFFF → c0.getD u 0 = 0) :
    ∃ c', cacheSubtable (next4 t o) (lookup4 t o) 0xFFFF c0 = .ok c' ∧ c'.size = sz ∧ (∀ u, u < 0xFFFF → c'.getD u 0 = D4 t o u) ∧
      (∀ u, 0xFFFF ≤ u → c'.getD u 0 = c0.getD u 0) := by
  obtain ⟨x', len, hx', hlen, hn0, hl, hsz'⟩ := check4_facts t o h
  rw [hx] at hx'; cases hx'
  refine cacheSubtable_spec (next4 t o) (lookup4 t o) (st4 t o (x / 2)) (en4 t o) (x / 2) 0xFFFF (x / 2 - 1) sz (D4 t o) c0 hS (by omega) (by omega) hsz hc0 hz
    (fun usv key hk => next4_eq t o h x hx usv key hk) (fun u k hk h1 h2 => ?_) (fun u => lookup4_D4 t o h u) (fun u _ hout => ?_)
  · rw [lookup4_key t o h x hx hS u k hk h1 h2]; exact lookup4_D4 t o h u
  · unfold D4; rw [lookup4_outside t o h x hx u hout]

/-- the format 12 walk -/
theorem cache12_spec (t : Buf) (o : Nat) (h : check12 t (some o) = .ok true) (n : Nat) (hn : be32 t (o + 12) = .ok n)
    (hS : Sorted (st12 t o) (en12 t o) n) (c0 : Cache) (sz : Nat) (hsz : 0x10FFFF < sz) (hc0 : c0.size = sz)
    (hz : ∀ u, u < 0x10FFFF → c0.getD u 0 = 0) :
    ∃ c', cacheSubtable (next12 t o) (lookup12 t o) 0x10FFFF c0 = .ok c' ∧ c'.size = sz ∧ (∀ u, u < 0x10FFFF → c'.getD u 0 = D12 t o u) ∧
      (∀ u, 0x10FFFF ≤ u → c'.getD u 0 = c0.getD u 0) := by
  obtain ⟨n', hn', hn0, hsz'⟩ := check12_facts t o h
  rw [hn] at hn'; cases hn'
  refine cacheSubtable_spec (next12 t o) (lookup12 t o) (st12 t o) (en12 t o) n 0x10FFFF n sz (D12 t o) c0 hS (by omega) (by omega) hsz hc0 hz
    (fun usv key hk => next12_eq t o h n hn usv key hk) (fun u k hk h1 h2 => ?_) (fun u => lookup12_D12 t o h u) (fun u _ hout => ?_)
  · rw [lookup12_key t o h n hn hS u k hk h1 h2]; exact lookup12_D12 t o h u
  · unfold D12; rw [lookup12_outside t o h n hn u hout]

theorem getD_dropBmp (c : Cache) (n : Nat) (hn : n ≤ c.size) (u : Nat) :
    ((Array.replicate n 0) ++ c.extract n c.size).getD u 0 = if u < n then 0 else c.getD u 0 := by
  simp only [Array.getD_eq_getD_getElem?, Array.getElem?_append, Array.size_replicate, Array.getElem?_replicate, Array.getElem?_extract]
  by_cases h : u < n
  · simp [h]
  · simp only [h, if_false]
    by_cases h2 : u - n < min c.size c.size - n
    · rw [if_pos h2]; congr 2; omega
    · rw [if_neg h2]
      have : c.size ≤ u := by omega
      simp [this]
theorem size_dropBmp (c : Cache) (n : Nat) (hn : n ≤ c.size) : ((Array.replicate n 0) ++ c.extract n c.size).size = c.size := by
  simp only [Array.size_append, Array.size_replicate, Array.size_extract]; omega
theorem getD_replicate0 (n u : Nat) : (Array.replicate n 0).getD u 0 = 0 := by
  simp only [Array.getD_eq_getD_getElem?, Array.getElem?_replicate]
  by_cases h : u < n <;> simp [h]

/-- the subtables' ranges are sorted and disjoint, as OpenType requires (`startCode ≤ endCode`, segments in increasing order) -/
structure SortedCmap (t : Buf) (bmp : Nat) (smp : Option Nat) : Prop where
  bmp : Sorted (st4 t bmp (g16 t (bmp + 6) / 2)) (en4 t bmp) (g16 t (bmp + 6) / 2)
  smp : ∀ o, smp = some o → Sorted (st12 t o) (en12 t o) (g32 t (o + 12))

theorem getD_last (c : Cache) (i v : Nat) (hi : i < c.size) (hz : c.getD i 0 = 0) (u : Nat) :
    (if v ≠ 0 then c.setIfInBounds i v else c).getD u 0 = if u = i then v else c.getD u 0 := by
  by_cases hv : v ≠ 0
  · rw [if_pos hv, getD_setIfInBounds]
    by_cases e : u = i
    · rw [if_pos ⟨e, hi⟩, if_pos e]
    · rw [if_neg (fun h => e h.1), if_neg e]
  · rw [if_neg hv]
    have : v = 0 := by omega
    by_cases e : u = i
    · rw [if_pos e, e, hz, this]
    · rw [if_neg e]

theorem size_last (c : Cache) (i v : Nat) : (if v ≠ 0 then c.setIfInBounds i v else c).size = c.size := by
  by_cases hv : v ≠ 0
  · rw [if_pos hv, Array.size_setIfInBounds]
  · rw [if_neg hv]

/-- **what `CachedCmap::CachedCmap` builds**: the BMP holds the format 4 subtable's direct answers, the supplementary planes the format 12
subtable's -/
theorem buildCached_spec (t : Buf) (ob : Nat) (smp : Option Nat) (hb : bmpSubtable t = .ok (some ob)) (hs : smpSubtable t = .ok smp)
    (hS : SortedCmap t ob smp) :
    ∃ c, buildCached t = .ok ⟨smp.isNone, c⟩ ∧ (∀ u, u ≤ 0xFFFF → c.getD u 0 = D4 t ob u) ∧
      (∀ o, smp = some o → ∀ u, 0xFFFF < u → u ≤ 0x10FFFF → c.getD u 0 = D12 t o u) := by
  have hc4 := bmp_checked t ob hb
  obtain ⟨x, len, hx, hlen, hn0, hl, hsz⟩ := check4_facts t ob hc4
  have hx' : g16 t (ob + 6) = x := by unfold g16; rw [hx]
  have hS4 := hS.bmp
  rw [hx'] at hS4
  -- the BMP pass from any cache whose BMP is still zero
  have bmpPass : ∀ (c : Cache) (sz : Nat), 0xFFFF < sz → c.size = sz → (∀ u, u ≤ 0xFFFF → c.getD u 0 = 0) →
      ∃ c2, cacheSubtable (next4 t ob) (lookup4 t ob) 0xFFFF c = .ok c2 ∧
        (∀ u, (if D4 t ob 0xFFFF ≠ 0 then c2.setIfInBounds 0xFFFF (D4 t ob 0xFFFF) else c2).getD u 0 = if u ≤ 0xFFFF then D4 t ob u else c.getD u 0) := by
    intro c sz hsz hcs hz
    obtain ⟨c2, e2, s2, a2, b2⟩ := cache4_spec t ob hc4 x hx hS4 c sz hsz hcs (fun u hu => hz u (by omega))
    refine ⟨c2, e2, fun u => ?_⟩
    rw [getD_last c2 0xFFFF _ (by omega) (by rw [b2 _ (Nat.le_refl _)]; exact hz _ (Nat.le_refl _))]
    by_cases e : u = 0xFFFF
    · rw [if_pos e, if_pos (by omega), e]
    · rw [if_neg e]
      by_cases hlt : u ≤ 0xFFFF
      · rw [if_pos hlt]; exact a2 u (by omega)
      · rw [if_neg hlt]; exact b2 u (by omega)
  unfold buildCached
  simp only [bind, Except.bind, pure, Except.pure, hb, hs]
  cases smp with
  | none =>
    simp only [Option.isNone_none, if_true]
    obtain ⟨c2, e2, p2⟩ := bmpPass (Array.replicate 0x10000 0) 0x10000 (by omega) Array.size_replicate (fun u _ => getD_replicate0 _ u)
    rw [e2]
    simp only [lookup4_D4 t ob hc4]
    refine ⟨_, rfl, fun u hu => ?_, fun o ho => by cases ho⟩
    rw [p2 u, if_pos hu]
  | some o =>
    simp only [Option.isNone_some, Bool.false_eq_true, if_false]
    have hc12 := smp_checked t o hs
    obtain ⟨n, hn, hn0, hsz12⟩ := check12_facts t o hc12
    have hn' : g32 t (o + 12) = n := by unfold g32; rw [hn]
    have hS12 := hS.smp o rfl
    rw [hn'] at hS12
    obtain ⟨c1, e1, s1, a1, b1⟩ := cache12_spec t o hc12 n hn hS12 (Array.replicate 0x110000 0) 0x110000 (by omega) Array.size_replicate (fun u _ => getD_replicate0 _ u)
    rw [e1]
    simp only [lookup12_D12 t o hc12]
    -- the cache after the format 12 pass, with its BMP part dropped and the last code point added
    have hdrop : ∀ u, ((Array.replicate 0x10000 0) ++ c1.extract 0x10000 c1.size).getD u 0 = if u < 0x10000 then 0 else c1.getD u 0 :=
      fun u => getD_dropBmp c1 0x10000 (by omega) u
    have hdsz : ((Array.replicate 0x10000 0) ++ c1.extract 0x10000 c1.size).size = 0x110000 := by rw [size_dropBmp c1 0x10000 (by omega)]; exact s1
    have hl12 : ∀ u, (if D12 t o 0x10FFFF ≠ 0 then ((Array.replicate 0x10000 0) ++ c1.extract 0x10000 c1.size).setIfInBounds 0x10FFFF (D12 t o 0x10FFFF)
        else (Array.replicate 0x10000 0) ++ c1.extract 0x10000 c1.size).getD u 0 =
        if u = 0x10FFFF then D12 t o 0x10FFFF else if u < 0x10000 then 0 else c1.getD u 0 := by
      intro u
      rw [getD_last _ 0x10FFFF _ (by omega) (by rw [hdrop, if_neg (by omega), b1 _ (Nat.le_refl _)]; exact getD_replicate0 _ _), hdrop]
    obtain ⟨c2, e2, p2⟩ := bmpPass (if D12 t o 0x10FFFF ≠ 0 then ((Array.replicate 0x10000 0) ++ c1.extract 0x10000 c1.size).setIfInBounds 0x10FFFF (D12 t o 0x10FFFF)
        else (Array.replicate 0x10000 0) ++ c1.extract 0x10000 c1.size) 0x110000 (by omega) (by rw [size_last]; exact hdsz) (fun u hu => by rw [hl12, if_neg (by omega), if_pos (by omega)])
    rw [e2]
    simp only [lookup4_D4 t ob hc4]
    refine ⟨_, rfl, fun u hu => ?_, fun o' ho u h1 h2 => ?_⟩
    · rw [p2 u, if_pos hu]
    · cases ho
      rw [p2 u, if_neg (by omega), hl12]
      by_cases e : u = 0x10FFFF
      · rw [if_pos e, e]
      · rw [if_neg e, if_neg (by omega)]; exact a1 u (by omega)

/-- `CachedCmap::operator[]` on what was built is `DirectCmap::operator[]`, for every Unicode code point -/
theorem cached_eq_direct (t : Buf) (ob : Nat) (smp : Option Nat) (hb : bmpSubtable t = .ok (some ob)) (hs : smpSubtable t = .ok smp)
    (hS : SortedCmap t ob smp) (m : CachedCmap) (hm : buildCached t = .ok m) (usv : Nat) (hu : usv ≤ 0x10FFFF) :
    directGet t (some ob) smp usv = .ok (cachedGet m usv) := by
  obtain ⟨c, ec, p4, p12⟩ := buildCached_spec t ob smp hb hs hS
  rw [ec] at hm
  cases hm
  unfold directGet cachedGet
  simp only []
  by_cases hbig : usv > 0xFFFF
  · rw [if_pos hbig]
    cases smp with
    | none => simp [hbig]
    | some o =>
      simp only [Option.isNone_some, Bool.false_eq_true, false_and, false_or]
      rw [if_neg (by omega), p12 o rfl usv hbig hu]
      exact lookup12_D12 t o (smp_checked t o hs) usv
  · rw [if_neg hbig]
    rw [if_neg (by omega), p4 usv (by omega)]
    exact lookup4_D4 t ob (bmp_checked t ob hb) usv

/-! ## the hypothesis as a test that can be run -/

def sortedB (st en : Nat → Nat) (N : Nat) : Bool :=
  (List.range N).all fun i => decide (st i ≤ en i) && decide (i + 1 < N → en i < st (i + 1))

theorem sortedB_iff (st en : Nat → Nat) (N : Nat) : sortedB st en N = true ↔ Sorted st en N := by
  unfold sortedB Sorted
  simp only [List.all_eq_true, List.mem_range, Bool.and_eq_true, decide_eq_true_eq]
  constructor
  · intro h; exact ⟨fun i hi => (h i hi).1, fun i hi => (h i (by omega)).2 hi⟩
  · intro h i hi; exact ⟨h.1 i hi, fun h2 => h.2 i h2⟩

/-- `SortedCmap` as a test: the driver prints it for every table of the correspondence check -/
def sortedCmapB (t : Buf) (bmp : Nat) (smp : Option Nat) : Bool :=
  sortedB (st4 t bmp (g16 t (bmp + 6) / 2)) (en4 t bmp) (g16 t (bmp + 6) / 2) &&
    match smp with
    | none => true
    | some o => sortedB (st12 t o) (en12 t o) (g32 t (o + 12))

theorem sortedCmapB_iff (t : Buf) (bmp : Nat) (smp : Option Nat) : sortedCmapB t bmp smp = true ↔ SortedCmap t bmp smp := by
  unfold sortedCmapB
  rw [Bool.and_eq_true, sortedB_iff]
  constructor
  · intro h
    refine ⟨h.1, fun o ho => ?_⟩
    subst ho
    exact (sortedB_iff _ _ _).1 h.2
  · intro h
    refine ⟨h.bmp, ?_⟩
    cases smp with
    | none => rfl
    | some o => exact (sortedB_iff _ _ _).2 (h.smp o rfl)

end GrVerif.Cmap

import GrVerif.Proofs.Cursor
import GrVerif.Proofs.MapBound
import GrVerif.Proofs.DataSafe
import GrVerif.Proofs.PassBounds
import GrVerif.Proofs.PassStream
/-!
# The null-cursor theorem through the pass engine

`Proofs/Cursor` shows that a rule's action never writes through a null cursor when it starts on a slot of the stream with enough
slots around it.  This file supplies that start: the matcher fills the slot map with consecutive slots of the stream
(`runFSM_window`), `Pass::testConstraint` lets a rule through only if the last slot of the rule is in the map
(`testConstraint_start`), and the rule loop only ever stands on a slot of the stream (`findNDoRule_safe`: after the repair of
`SlotMap::collectGarbage` the slot a rule hands back is never a deleted one).
-/
set_option linter.unusedVariables false
set_option linter.unusedSimpArgs false
namespace GrVerif.Pass
open GrVerif.Vm GrVerif.Seg GrVerif.Action GrVerif.Gen.Vm

/-! ## lists, the slot map -/

theorem ahead_chain_take {s : Seg} : ∀ (w : List Nat) (p : Option Nat) (n : Nat), Chain s none p w → ahead s n w.head? = w.take n := by
  intro w
  induction w with
  | nil => intro p n _; cases n <;> simp [ahead]
  | cons i rest ih =>
    intro p n hc
    cases n with
    | zero => simp [ahead]
    | succ f =>
      obtain ⟨_, hn, hr⟩ := hc
      simp only [List.head?_cons, ahead, Option.or_none, List.take_succ_cons] at hn ⊢
      rw [hn, ih (some i) f hr]

/-- the cells of the filled map -/
theorem fillGo_get : ∀ (cells : List (Option Nat)) (m : Array (Option Nat)) (n k : Nat),
    ((cells.zipIdx n).foldl (fun (m : Array (Option Nat)) (x : Option Nat × Nat) => m.setIfInBounds (x.2 + 1) x.1) m).getD k none =
      if n + 1 ≤ k ∧ k - 1 - n < cells.length ∧ k < m.size then cells.getD (k - 1 - n) none else m.getD k none := by
  intro cells
  induction cells with
  | nil => intro m n k; simp
  | cons x rest ih =>
    intro m n k
    simp only [List.zipIdx_cons, List.foldl_cons]
    rw [ih]
    simp only [Array.size_setIfInBounds, List.length_cons]
    by_cases h1 : n + 1 + 1 ≤ k ∧ k - 1 - (n + 1) < rest.length ∧ k < m.size
    · rw [if_pos h1, if_pos (by omega)]
      have : k - 1 - n = (k - 1 - (n + 1)) + 1 := by omega
      rw [this]; simp
    · rw [if_neg h1]
      by_cases h2 : k = n + 1 ∧ k < m.size
      · rw [if_pos (by omega)]
        obtain ⟨h2a, h2b⟩ := h2
        subst h2a
        simp [Array.getD_eq_getD_getElem?, Array.getElem?_setIfInBounds, h2b]
      · rw [if_neg (by omega)]
        simp only [Array.getD_eq_getD_getElem?, Array.getElem?_setIfInBounds]
        split
        · split
          · omega
          · rename_i h3 h4; rw [Array.getElem?_eq_none (by omega)]
        · rfl

theorem fillMap_get (m : Array (Option Nat)) (cells : List (Option Nat)) (k : Nat) :
    (fillMap m cells).getD k none = if 1 ≤ k ∧ k - 1 < cells.length ∧ k < m.size then cells.getD (k - 1) none else m.getD k none := by
  unfold fillMap
  have := fillGo_get cells m 0 k
  simpa using this

theorem take_get {w : List Nat} {n j y : Nat} (h : (w.take n)[j]? = some y) : w[j]? = some y := by
  rw [List.getElem?_take] at h
  split at h
  · exact h
  · cases h

theorem fsmCells_get {window : List Nat} {pushed : Nat} {more : Bool} {j y : Nat}
    (h : (fsmCells window pushed more).getD j none = some y) : window[j]? = some y := by
  unfold fsmCells at h
  rw [List.getD_eq_getElem?_getD, List.getElem?_append] at h
  simp only [List.length_map, List.length_take] at h
  split at h
  · rename_i hlt
    simp only [List.getElem?_map, List.getElem?_take] at h
    split at h
    · cases hw : window[j]? with
      | none => rw [hw] at h; simp at h
      | some z => rw [hw] at h; simp at h; rw [h]
    · simp at h
  · rename_i hge
    cases more with
    | false => simp at h
    | true =>
      simp only [if_true] at h
      cases hq : j - min pushed window.length with
      | zero =>
        rw [hq] at h
        simp at h
        have hp : pushed < window.length := by
          have := List.getElem?_eq_some_iff.mp h
          exact this.1
        have : j = pushed := by omega
        rw [this]; exact h
      | succ q => rw [hq] at h; simp at h

theorem fsmCells_below {window : List Nat} {pushed : Nat} {more : Bool} {j0 k y : Nat}
    (h : (fsmCells window pushed more).getD j0 none = some y) (hk : k ≤ j0) :
    ∃ z, (fsmCells window pushed more).getD k none = some z ∧ window[k]? = some z := by
  have hw := fsmCells_get h
  have hj0 : j0 < window.length := (List.getElem?_eq_some_iff.mp hw).1
  have hkw : k < window.length := by omega
  refine ⟨window[k], ?_, by simp [hkw]⟩
  by_cases hkj : k = j0
  · subst hkj
    rw [h]
    have := (List.getElem?_eq_some_iff.mp hw).2
    rw [this]
  · -- `k < j0`: `k` is one of the pushed slots
    have hlen : j0 < (fsmCells window pushed more).length := by
      apply Classical.byContradiction
      intro hn
      rw [List.getD_eq_getElem?_getD, List.getElem?_eq_none (by omega)] at h
      cases h
    unfold fsmCells at hlen ⊢
    simp only [List.length_append, List.length_map, List.length_take] at hlen
    have h1 : (if more = true then [window[pushed]?] else []).length ≤ 1 := by split <;> simp
    have hkp : k < min pushed window.length := by omega
    rw [List.getD_eq_getElem?_getD, List.getElem?_append_left (by simpa using hkp)]
    simp only [List.getElem?_map, List.getElem?_take]
    rw [if_pos (by omega)]
    simp [hkw]

theorem fsmCells_length_of_get {window : List Nat} {pushed : Nat} {more : Bool} {j y : Nat}
    (h : (fsmCells window pushed more).getD j none = some y) : j < (fsmCells window pushed more).length := by
  apply Classical.byContradiction
  intro hn
  rw [List.getD_eq_getElem?_getD, List.getElem?_eq_none (by omega)] at h
  cases h

/-! ## the matcher fills the map with consecutive slots of the stream -/

theorem fsmBack_mem {s : Seg} {l : List Nat} (h : Linked s l) (mp : Nat) : ∀ (fuel i k : Nat), i ∈ l → (fsmBack s mp fuel i k).1 ∈ l := by
  intro fuel
  induction fuel with
  | zero => intro i k hi; exact hi
  | succ f ih =>
    intro i k hi
    unfold fsmBack
    split
    · exact hi
    · split
      · rename_i q hq
        exact ih q (k + 1) (prev_mem h hi q hq)
      · exact hi

theorem smap0_get (v : Option Nat) (k : Nat) :
    ((Array.replicate (MAX_SLOTS + 2) (none : Option Nat)).setIfInBounds 0 v).getD (k + 1) none = none := by
  simp only [Array.getD_eq_getD_getElem?, Array.getElem?_setIfInBounds]
  split
  · omega
  · simp only [Array.getElem?_replicate]; split <;> rfl

/-- after the matcher has run from a slot of the stream, the stream splits as `a ++ w` such that every non-null cell `j + 1` of
the slot map holds `w[j]`, and every cell in front of a non-null cell is non-null as well -/
theorem runFSM_cells (p : PassT) (c : Ctx) (slot : Nat) {l : List Nat} (hl : Linked c.seg l) (hs : slot ∈ l) :
    ∃ a w, l = a ++ w ∧ ∀ (j y : Nat), (runFSM p c slot).2.1.smap.getD (j + 1) none = some y →
      w[j]? = some y ∧ ∀ k, k ≤ j → ∃ z, (runFSM p c slot).2.1.smap.getD (k + 1) none = some z ∧ w[k]? = some z := by
  have hb := fsmBack_mem hl p.maxPre (p.maxPre + 1) slot 0 hs
  obtain ⟨a, b, hab⟩ := List.append_of_mem hb
  refine ⟨a, (fsmBack c.seg p.maxPre (p.maxPre + 1) slot 0).1 :: b, hab, ?_⟩
  have hch : Chain c.seg none ((a.getLast?).or none) ((fsmBack c.seg p.maxPre (p.maxPre + 1) slot 0).1 :: b) := by
    have := hl.chain
    rw [hab, chain_append] at this
    exact this.2
  have hwin : ahead c.seg (MAX_SLOTS + 1) (some (fsmBack c.seg p.maxPre (p.maxPre + 1) slot 0).1) =
      ((fsmBack c.seg p.maxPre (p.maxPre + 1) slot 0).1 :: b).take (MAX_SLOTS + 1) := by
    have := ahead_chain_take _ _ (MAX_SLOTS + 1) hch
    simpa using this
  intro j y hj
  unfold runFSM at hj ⊢
  simp only [] at hj ⊢
  split at hj
  · simp only [Ctx.resetMap] at hj
    rw [smap0_get] at hj; cases hj
  · rename_i hpre
    rw [if_neg hpre]
    simp only [Ctx.resetMap] at hj ⊢
    rw [hwin] at hj ⊢
    revert hj
    generalize (fsmScan p _ _ MAX_SLOTS [] 0) = r
    intro hj
    rw [fillMap_get] at hj
    split at hj
    · rename_i hin
      simp only [Nat.add_sub_cancel] at hj hin
      have hg := fsmCells_get hj
      refine ⟨take_get hg, ?_⟩
      intro k hk
      obtain ⟨z, hz1, hz2⟩ := fsmCells_below hj hk
      refine ⟨z, ?_, take_get hz2⟩
      rw [fillMap_get, if_pos ⟨by omega, by simp only [Nat.add_sub_cancel]; omega, by omega⟩]
      simpa using hz1
    · rw [smap0_get] at hj; cases hj

/-! ## a rule that passed `testConstraint` starts on a slot with the whole rule around it -/

theorem split_at {w : List Nat} {k z : Nat} (h : w[k]? = some z) : w = w.take k ++ z :: w.drop (k + 1) ∧ k < w.length := by
  obtain ⟨hk, hz⟩ := List.getElem?_eq_some_iff.mp h
  refine ⟨?_, hk⟩
  rw [← hz, List.getElem_cons_drop, List.take_append_drop]

/-- what the cells of the slot map are, abstractly: consecutive slots of the stream, with no null cell in front of a slot -/
def MapCells (c : Ctx) (w : List Nat) : Prop :=
  ∀ (j y : Nat), c.smap.getD (j + 1) none = some y →
    w[j]? = some y ∧ ∀ k, k ≤ j → ∃ z, c.smap.getD (k + 1) none = some z ∧ w[k]? = some z

theorem testConstraint_start (r : Rule) (c : Ctx) {l a w : List Nat} (hlw : l = a ++ w) (hcells : MapCells c w)
    (hps : r.pre < r.sort) {st : Status} (e : testConstraint r c = .ok (true, st)) :
    ∃ i a' b', c.smap.getD (c.context + 1) none = some i ∧ l = a' ++ i :: b' ∧ r.pre ≤ a'.length ∧ r.sort ≤ r.pre + b'.length + 1 ∧
      c.context ≤ c.size := by
  unfold testConstraint at e
  split at e
  · cases e
  · rename_i h1
    simp only [] at e
    split at e
    · cases e
    · rename_i h2
      have hj : 1 + c.context - r.pre + r.sort - 1 = (c.context - r.pre + r.sort - 1) + 1 := by omega
      rw [hj] at h2
      cases hy : c.smap.getD ((c.context - r.pre + r.sort - 1) + 1) none with
      | none => rw [hy] at h2; simp at h2
      | some y =>
        obtain ⟨hw0, hbelow⟩ := hcells _ y hy
        obtain ⟨z, hz1, hz2⟩ := hbelow c.context (by omega)
        obtain ⟨hsplit, hk⟩ := split_at hz2
        have hj0 : c.context - r.pre + r.sort - 1 < w.length := (List.getElem?_eq_some_iff.mp hw0).1
        refine ⟨z, a ++ w.take c.context, w.drop (c.context + 1), hz1, ?_, ?_, ?_, ?_⟩
        · rw [hlw, List.append_assoc, ← hsplit]
        · simp only [List.length_append, List.length_take]; omega
        · simp only [List.length_drop]; omega
        · omega

/-! ## the map is never fuller than its array -/

theorem fillGo_size : ∀ (xs : List (Option Nat × Nat)) (m : Array (Option Nat)),
    (xs.foldl (fun (m : Array (Option Nat)) (x : Option Nat × Nat) => m.setIfInBounds (x.2 + 1) x.1) m).size = m.size := by
  intro xs
  induction xs with
  | nil => intro m; rfl
  | cons x rest ih => intro m; simp only [List.foldl_cons]; rw [ih]; simp

theorem fsmCells_length_le (window : List Nat) (pushed : Nat) (more : Bool) :
    (fsmCells window pushed more).length ≤ pushed + (if more then 1 else 0) := by
  unfold fsmCells
  simp only [List.length_append, List.length_map, List.length_take]
  cases more <;> simp <;> omega

/-- `m_size ≤ MAX_SLOTS` and the array has `MAX_SLOTS + 2` cells -/
theorem runFSM_size (p : PassT) (c : Ctx) (slot : Nat) : (runFSM p c slot).2.1.size + 2 ≤ (runFSM p c slot).2.1.smap.size := by
  unfold runFSM
  simp only []
  split
  · simp [Ctx.resetMap, MAX_SLOTS]
  · simp only [Ctx.resetMap]
    unfold fillMap
    rw [fillGo_size]
    have hb := fsm_stays_in_slot_map p ((ahead c.seg (MAX_SLOTS + 1) (some (fsmBack c.seg p.maxPre (p.maxPre + 1) slot 0).1)).map fun s => (c.seg.get s).gid)
      (p.starts.getD (p.maxPre - (fsmBack c.seg p.maxPre (p.maxPre + 1) slot 0).2) 0)
    have hl := fsmCells_length_le (ahead c.seg (MAX_SLOTS + 1) (some (fsmBack c.seg p.maxPre (p.maxPre + 1) slot 0).1))
      (fsmScan p ((ahead c.seg (MAX_SLOTS + 1) (some (fsmBack c.seg p.maxPre (p.maxPre + 1) slot 0).1)).map fun s => (c.seg.get s).gid)
        (p.starts.getD (p.maxPre - (fsmBack c.seg p.maxPre (p.maxPre + 1) slot 0).2) 0) MAX_SLOTS [] 0).2.1
      (fsmScan p ((ahead c.seg (MAX_SLOTS + 1) (some (fsmBack c.seg p.maxPre (p.maxPre + 1) slot 0).1)).map fun s => (c.seg.get s).gid)
        (p.starts.getD (p.maxPre - (fsmBack c.seg p.maxPre (p.maxPre + 1) slot 0).2) 0) MAX_SLOTS [] 0).2.2.1
    simp only [Array.size_setIfInBounds, Array.size_replicate]
    omega

/-! ## every cell of the map holds a slot of the stream -/

theorem ahead_mem {s : Seg} {l : List Nat} (h : Linked s l) : ∀ (n : Nat) (o : Option Nat), Live l o → ∀ x ∈ ahead s n o, x ∈ l := by
  intro n
  induction n with
  | zero => intro o _ x hx; simp [ahead] at hx
  | succ n ih =>
    intro o ho x hx
    cases o with
    | none => simp [ahead] at hx
    | some i =>
      simp only [ahead, List.mem_cons] at hx
      rcases hx with hx | hx
      · rw [hx]; exact ho i rfl
      · exact ih _ (fun y hy => next_mem h (ho i rfl) y hy) x hx

theorem runFSM_live (p : PassT) (c : Ctx) (slot : Nat) {l : List Nat} (hl : Linked c.seg l) (hs : slot ∈ l) :
    ∀ k, Live l ((runFSM p c slot).2.1.smap.getD k none) := by
  have hb := fsmBack_mem hl p.maxPre (p.maxPre + 1) slot 0 hs
  have h0 : ∀ k, Live l (((Array.replicate (MAX_SLOTS + 2) (none : Option Nat)).setIfInBounds 0
      (c.seg.get (fsmBack c.seg p.maxPre (p.maxPre + 1) slot 0).1).prev).getD k none) := by
    intro k
    simp only [Array.getD_eq_getD_getElem?, Array.getElem?_setIfInBounds]
    split
    · split
      · exact fun y hy => prev_mem hl hb y (by simpa using hy)
      · exact fun y hy => by cases hy
    · simp only [Array.getElem?_replicate]; split <;> exact fun y hy => by cases hy
  unfold runFSM
  simp only []
  split
  · exact h0
  · simp only [Ctx.resetMap]
    unfold fillMap
    apply fillMap_all (fun o => Live l o) _ _ h0
    intro x hx
    have hwin := ahead_mem hl (MAX_SLOTS + 1) (some (fsmBack c.seg p.maxPre (p.maxPre + 1) slot 0).1) (fun y hy => by cases hy; exact hb)
    have hmem : x.1 ∈ fsmCells (ahead c.seg (MAX_SLOTS + 1) (some (fsmBack c.seg p.maxPre (p.maxPre + 1) slot 0).1))
        (fsmScan p ((ahead c.seg (MAX_SLOTS + 1) (some (fsmBack c.seg p.maxPre (p.maxPre + 1) slot 0).1)).map fun s => (c.seg.get s).gid)
          (p.starts.getD (p.maxPre - (fsmBack c.seg p.maxPre (p.maxPre + 1) slot 0).2) 0) MAX_SLOTS [] 0).2.1
        (fsmScan p ((ahead c.seg (MAX_SLOTS + 1) (some (fsmBack c.seg p.maxPre (p.maxPre + 1) slot 0).1)).map fun s => (c.seg.get s).gid)
          (p.starts.getD (p.maxPre - (fsmBack c.seg p.maxPre (p.maxPre + 1) slot 0).2) 0) MAX_SLOTS [] 0).2.2.1 := by
      obtain ⟨a, b⟩ := x
      exact (List.mem_zipIdx' hx).2 ▸ List.getElem_mem _
    revert hmem
    generalize (fsmScan p _ _ MAX_SLOTS [] 0) = r
    intro hmem
    unfold fsmCells at hmem
    rcases List.mem_append.mp hmem with h1 | h1
    · obtain ⟨y, hy, e⟩ := List.mem_map.mp h1
      rw [← e]
      intro z hz; cases hz
      exact hwin y (List.mem_of_mem_take hy)
    · split at h1
      · simp only [List.mem_singleton] at h1
        rw [h1]
        intro z hz
        exact hwin z (List.mem_of_getElem? hz)
      · cases h1

/-! ## constraints -/

theorem runConstraint_safe (k : Code) (c : Ctx) (cell : Nat) {l : List Nat} {so : Option Nat} (hjo : JO c l so)
    (hsz : c.size + 2 ≤ c.smap.size) (hcl : cell ≤ c.size + 1) (hdata : (∀ i ∈ k.instrs, PszOK i) ∧ DataInv k.instrs (initVm k.data))
    {i : Nat} (hcell : c.smap.getD cell none = some i) (hi : i ∈ l) {cur' : Cur} (hk : curRun ⟨0, 1, false⟩ k.instrs = some cur')
    {w : String} (e : runConstraint k c cell = .error w) : ¬ engineFault w := by
  unfold runConstraint at e
  split at e
  · cases e
  · have his : (enterCtx (c.setMap (cell : Int))).is = some i := by
      show c.smap.getD ((cell : Int).toNat) none = some i
      rw [Int.toNat_natCast]; exact hcell
    have hj : J (enterCtx (c.setMap (cell : Int))) l :=
      ⟨show Linked c.seg l from JO.linked hjo, show Clean c.seg l from JO.clean hjo, by rw [his]; exact isok_of_mem hi,
        show HwOK c.highwater l from JO.hw hjo, show Alloc c.seg l from JO.alloc hjo⟩
    obtain ⟨a, b, hab⟩ := List.append_of_mem hi
    have hp : PosOK ⟨0, 1, false⟩ l (enterCtx (c.setMap (cell : Int))).is := by
      rw [his]
      exact .inl ⟨a, b, hab, by simp, by simp; omega⟩
    have ht := runLoop_track k.instrs ⟨0, 1, false⟩ cur' { vm := initVm k.data, ctx := enterCtx (c.setMap (cell : Int)) }
      ⟨l, hj, hp, fun _ y hy => by rw [his] at hy; cases hy; exact hi⟩ hk
    have hmb : MB (enterCtx (c.setMap (cell : Int))) := by
      refine ⟨?_, ?_, hsz⟩
      · show (0 : Int) ≤ (cell : Int); omega
      · show (cell : Int) ≤ (c.size : Int) + 1; omega
    split at e
    · rename_i w' hw
      cases e
      rw [hw] at ht
      intro hf
      rcases hf with hf | hf | hf
      · exact ht hf
      · exact runLoop_noMapFault k.instrs _ hmb hw hf
      · exact runLoop_data k.instrs _ hdata.2 hdata.1 hw hf
    · split at e
      · cases e; unfold engineFault nullFault mapFault; decide
      · cases e

theorem testConstraint_go_safe (c : Ctx) (k : Code) {l : List Nat} {so : Option Nat} (hjo : JO c l so) (hsz : c.size + 2 ≤ c.smap.size)
    (hdata : (∀ i ∈ k.instrs, PszOK i) ∧ DataInv k.instrs (initVm k.data))
    (hall : ∀ j, Live l (c.smap.getD j none)) {cur' : Cur} (hk : curRun ⟨0, 1, false⟩ k.instrs = some cur') :
    ∀ (n cell : Nat) {w : String}, cell + n ≤ c.size + 1 → testConstraint.go c k n cell = .error w → ¬ engineFault w := by
  intro n
  induction n with
  | zero => intro cell w _ e; unfold testConstraint.go at e; cases e
  | succ n ih =>
    intro cell w hb e
    unfold testConstraint.go at e
    split at e
    · exact ih _ (by omega) e
    · rename_i hnn
      split at e
      · rename_i w' hw
        cases e
        cases hy : c.smap.getD cell none with
        | none => rw [hy] at hnn; simp at hnn
        | some i => exact runConstraint_safe k c cell hjo hsz (by omega) hdata hy (hall cell i hy) hk hw
      · split at e
        · cases e
        · exact ih _ (by omega) e

/-- the loader's cursor tests on a piece of code; code that does not decode stops the model with its own error -/
def codeOK (cur : Cur) (bytes : List Nat) (isAction : Bool) : Bool :=
  match mkCode bytes isAction with
  | none => true
  | some k =>
    match curRun cur k.instrs with
    | some cur' => !cur'.dels || k.deletes
    | none => false

/-- what the loader guarantees of a rule, as far as this proof needs it: `preContext < sort` (`Pass::readRules`), the cursor tests
on the action from `(_out_index, _out_length) = (preContext, sort)` and on the constraint from `(0, 1)` (`Machine::Code::Code`) -/
def ruleOK (r : Rule) : Bool :=
  (r.action.isEmpty || (decide (r.pre < r.sort) && codeOK ⟨r.pre, r.sort, false⟩ r.action true)) &&
  (r.constraint.isEmpty || codeOK ⟨0, 1, false⟩ r.constraint false)

def passOK (p : PassT) : Bool :=
  p.rules.all ruleOK && (p.pconstraint.isEmpty || codeOK ⟨0, 1, false⟩ p.pconstraint false)

theorem codeOK_run {cur : Cur} {bytes : List Nat} {isAction : Bool} (h : codeOK cur bytes isAction = true) {k : Code}
    (hk : mkCode bytes isAction = some k) : ∃ cur', curRun cur k.instrs = some cur' ∧ (cur'.dels = true → k.deletes = true) := by
  unfold codeOK at h
  rw [hk] at h
  simp only [] at h
  split at h
  · rename_i cur' hc
    refine ⟨cur', hc, fun hd => ?_⟩
    rw [hd] at h
    simpa using h
  · cases h

theorem passOK_rule {p : PassT} (h : passOK p = true) (r : Nat) : ruleOK (p.rules.getD r default) = true := by
  unfold passOK at h
  simp only [Bool.and_eq_true] at h
  by_cases hr : r < p.rules.size
  · have := (Array.all_eq_true.mp h.1) r hr
    simpa [Array.getD_eq_getD_getElem?, hr] using this
  · simp only [Array.getD_eq_getD_getElem?, Array.getElem?_eq_none (Nat.le_of_not_lt hr)]
    decide

theorem testConstraint_safe (r : Rule) (c : Ctx) {l : List Nat} {so : Option Nat} (hjo : JO c l so) (hsz : c.size + 2 ≤ c.smap.size)
    (hall : ∀ j, Live l (c.smap.getD j none)) (hr : ruleOK r = true)
    {w : String} (e : testConstraint r c = .error w) : ¬ engineFault w := by
  unfold testConstraint at e
  split at e
  · cases e
  · rename_i hrange
    simp only [] at e
    split at e
    · cases e
    · split at e
      · cases e
      · rename_i hne
        split at e
        · cases e; unfold engineFault nullFault mapFault; decide
        · rename_i k hk
          unfold ruleOK at hr
          simp only [Bool.and_eq_true, Bool.or_eq_true] at hr
          rcases hr.2 with h1 | h1
          · exact absurd h1 hne
          · obtain ⟨cur', hc, _⟩ := codeOK_run h1 hk
            exact testConstraint_go_safe c k hjo hsz (mkCode_data hk) hall hc _ _ (by omega) e

theorem pickRule_safe (p : PassT) (c : Ctx) {l : List Nat} {so : Option Nat} (hjo : JO c l so) (hsz : c.size + 2 ≤ c.smap.size)
    (hall : ∀ j, Live l (c.smap.getD j none)) (hp : passOK p = true) :
    ∀ (rs : List Nat) {w : String}, pickRule p c rs = .error w → ¬ engineFault w := by
  intro rs
  induction rs with
  | nil => intro w e; unfold pickRule at e; cases e
  | cons r rest ih =>
    intro w e
    unfold pickRule at e
    split at e
    · rename_i w' hw
      cases e
      exact testConstraint_safe _ c hjo hsz hall (passOK_rule hp r) hw
    · cases e
    · split at e
      · cases e
      · exact ih e

theorem pickRule_pick (p : PassT) (c : Ctx) : ∀ (rs : List Nat) {r : Nat} {st : Status}, pickRule p c rs = .ok (some r, st) →
    ∃ st', testConstraint (p.rules.getD r default) c = .ok (true, st') := by
  intro rs
  induction rs with
  | nil => intro r st e; unfold pickRule at e; cases e
  | cons r0 rest ih =>
    intro r st e
    unfold pickRule at e
    split at e
    · cases e
    · rename_i st' hst
      cases e
      exact ⟨st', hst⟩
    · split at e
      · cases e
      · exact ih e

/-! ## `adjustSlot` keeps the cursor on the stream -/

theorem adjustBack_live {l : List Nat} : ∀ (fuel : Nat) (c : Ctx) (d : Int) (so : Option Nat), Linked c.seg l → Live l so →
    Live l (adjustBack fuel c d so).2 := by
  intro fuel
  induction fuel with
  | zero => intro c d so _ h; unfold adjustBack; exact h
  | succ f ih =>
    intro c d so hl h
    cases so with
    | none => unfold adjustBack; exact h
    | some s =>
      unfold adjustBack
      split
      · have hp : Live l (c.seg.get s).prev := fun y hy => prev_mem hl (h s rfl) y hy
        split
        · exact ih _ _ _ (show Linked c.seg l from hl) hp
        · exact ih _ _ _ hl hp
      · exact h

theorem adjustFwd_live {l : List Nat} : ∀ (fuel : Nat) (c : Ctx) (d : Int) (so : Option Nat), Linked c.seg l → Live l so →
    Live l (adjustFwd fuel c d so).2 := by
  intro fuel
  induction fuel with
  | zero => intro c d so _ h; unfold adjustFwd; exact h
  | succ f ih =>
    intro c d so hl h
    cases so with
    | none => unfold adjustFwd; exact h
    | some s =>
      unfold adjustFwd
      split
      · have hp : Live l (c.seg.get s).next := fun y hy => next_mem hl (h s rfl) y hy
        split
        · exact ih _ _ _ (show Linked c.seg l from hl) hp
        · exact ih _ _ _ hl hp
      · exact h

theorem adjustStart_live {l : List Nat} (c : Ctx) (d : Int) (hl : Linked c.seg l) : Live l (adjustStart c d).2.1 := by
  unfold adjustStart
  split
  · split <;> exact fun y hy => getLast?_mem (by rw [← hl.last]; exact hy)
  · exact fun y hy => head?_mem (by rw [← hl.first]; exact hy)

theorem adjustSlot_live {l : List Nat} (c : Ctx) (d : Int) (so : Option Nat) (hl : Linked c.seg l) (h : Live l so) :
    Live l (adjustSlot c d so).2 := by
  have tail : ∀ (st : Ctx × Option Nat × Int), Linked st.1.seg l → Live l st.2.1 →
      Live l (if st.2.2 < 0 then adjustBack (st.2.2.natAbs + 1) st.1 st.2.2 st.2.1
        else if st.2.2 > 0 then adjustFwd (st.2.2.natAbs + 1) st.1 st.2.2 st.2.1 else (st.1, st.2.1)).2 := by
    intro st h1 h2
    split
    · exact adjustBack_live _ _ _ _ h1 h2
    · split
      · exact adjustFwd_live _ _ _ _ h1 h2
      · exact h2
  unfold adjustSlot
  cases so with
  | some x => exact tail (c, some x, d) hl h
  | none =>
    obtain ⟨a1, _, _⟩ := adjustStart_spec c d hl
    exact tail (adjustStart c d) (by rw [a1]; exact hl) (adjustStart_live c d hl)

/-! ## one rule application -/

/-- the state in which the action of a rule that passed `testConstraint` starts -/
theorem action_start (rule : Rule) (c1 : Ctx) {l a w : List Nat} {slot : Nat} (h1 : JO c1 l (some slot)) (hlw : l = a ++ w)
    (hcells : MapCells c1 w) (hsz : c1.size + 2 ≤ c1.smap.size) (hok : ruleOK rule = true) (hne : ¬ rule.action.isEmpty = true)
    {st : Status} (ht : testConstraint rule c1 = .ok (true, st)) {k : Code} (hk : mkCode rule.action true = some k) :
    J (enterCtx (startCtx c1)) l ∧ PosOK ⟨rule.pre, rule.sort, false⟩ l (enterCtx (startCtx c1)).is ∧
    Live l (enterCtx (startCtx c1)).is ∧ MB (enterCtx (startCtx c1)) ∧
    ∃ cur', curRun ⟨rule.pre, rule.sort, false⟩ k.instrs = some cur' ∧ (cur'.dels = true → k.deletes = true) := by
  unfold ruleOK at hok
  simp only [Bool.and_eq_true, Bool.or_eq_true, decide_eq_true_eq] at hok
  rcases hok.1 with h0 | ⟨hps, hcode⟩
  · exact absurd h0 hne
  · obtain ⟨i, a', b', hi, hl', hp1, hp2, hcs⟩ := testConstraint_start rule c1 hlw hcells hps ht
    have his : (enterCtx (startCtx c1)).is = some i := by
      show c1.smap.getD (((c1.context : Int) + 1).toNat) none = some i
      have : ((c1.context : Int) + 1).toNat = c1.context + 1 := by omega
      rw [this]; exact hi
    have hil : i ∈ l := by rw [hl']; simp
    refine ⟨⟨show Linked c1.seg l from JO.linked h1, show Clean c1.seg l from JO.clean h1, by rw [his]; exact isok_of_mem hil,
        show HwOK c1.highwater l from JO.hw h1, show Alloc c1.seg l from JO.alloc h1⟩, ?_, ?_, ?_, codeOK_run hcode hk⟩
    · rw [his]
      exact .inl ⟨a', b', hl', by simpa using hp1, by simp only []; omega⟩
    · rw [his]; intro y hy; cases hy; exact hil
    · refine ⟨?_, ?_, hsz⟩
      · show (0 : Int) ≤ (c1.context : Int) + 1; omega
      · show (c1.context : Int) + 1 ≤ (c1.size : Int) + 1; omega

/-- **One step of the rule loop from a slot of the stream**, on a pass whose rules passed the loader's cursor tests: whatever
error the model reports is not a write through a null cursor, and the new cursor is again null or a slot of the stream. -/
theorem findNDoRule_safe (p : PassT) (c : Ctx) (slot : Nat) {l : List Nat} (h : JO c l (some slot)) (hs : slot ∈ l)
    (hp : passOK p = true) :
    (∀ {w : String}, findNDoRule p c slot = .error w → ¬ engineFault w) ∧
    (∀ {c' : Ctx} {s' : Option Nat} {st : Status}, findNDoRule p c slot = .ok (c', s', st) → ∃ l', JO c' l' s' ∧ Live l' s') := by
  obtain ⟨f1, f2, f3⟩ := runFSM_spec p c slot (JO.linked h) (JO.isok h)
  have f4 := runFSM_live p c slot (JO.linked h) hs
  obtain ⟨a, w, hlw, f5⟩ := runFSM_cells p c slot (JO.linked h) hs
  have f6 := runFSM_size p c slot
  unfold findNDoRule
  revert f1 f2 f3 f4 f5 f6
  generalize runFSM p c slot = r
  obtain ⟨ok, c1, rules⟩ := r
  intro f1 f2 f3 f4 f5 f6
  simp only [] at f1 f2 f3 f4 f5 f6 ⊢
  have h1 : JO c1 l (some slot) := JO.congr h f1 f2
  have hnx : Live l (c1.seg.get slot).next := by rw [f1]; exact fun y hy => next_mem (JO.linked h) hs y hy
  have hadv : JO c1 l (c1.seg.get slot).next := JO.cursor h1 (isok_opt_mem hnx)
  have hcur : Live l (some slot) := fun y hy => by cases hy; exact hs
  have hcells : MapCells c1 w := f5
  refine ⟨?_, ?_⟩
  · intro w' e
    split at e
    · cases e
    · split at e
      · rename_i w2 hw
        cases e
        exact pickRule_safe p c1 h1 f6 f4 hp rules hw
      · split at e <;> cases e
      · rename_i r st hpick
        split at e
        · cases e
        · rename_i hne
          split at e
          · cases e; unfold engineFault nullFault mapFault; decide
          · rename_i k hk
            obtain ⟨st', ht⟩ := pickRule_pick p c1 rules hpick
            obtain ⟨hj, hpos, hlv, hmb, cur', hrun, hd⟩ := action_start _ c1 h1 hlw hcells f6 (passOK_rule hp r) hne ht hk
            split at e
            · rename_i w2 hw
              cases e
              intro hf
              rcases hf with hf | hf | hf
              · exact doAction_noNullFault hj hpos hlv hrun hw hf
              · exact doAction_noMapFault hmb hw hf
              · exact doAction_noData (mkCode_data hk).1 (mkCode_data hk).2 hw hf
            · split at e <;> cases e
  · intro c' s' st e
    split at e
    · cases e; exact ⟨l, hadv, hnx⟩
    · split at e
      · cases e
      · split at e
        · cases e; exact ⟨l, h1, hcur⟩
        · cases e; exact ⟨l, hadv, hnx⟩
      · rename_i r st0 hpick
        split at e
        · cases e; exact ⟨l, h1, hcur⟩
        · rename_i hne
          split at e
          · cases e
          · rename_i k hk
            obtain ⟨st', ht⟩ := pickRule_pick p c1 rules hpick
            obtain ⟨hj, hpos, hlv, hmb, cur', hrun, hd⟩ := action_start _ c1 h1 hlw hcells f6 (passOK_rule hp r) hne ht hk
            split at e
            · cases e
            · rename_i ret status slotOut c2 hact
              obtain ⟨l2, j2, lv2⟩ := doAction_live hj hpos hlv hrun hd hact
              split at e
              · cases e; exact ⟨l2, JO.cursor j2 (.inl rfl), fun y hy => by cases hy⟩
              · obtain ⟨a1, a2, a3⟩ := adjustSlot_spec c2 ret slotOut (JO.linked j2) (JO.isok j2)
                have a4 := adjustSlot_live c2 ret slotOut (JO.linked j2) lv2
                revert a1 a2 a3 a4 e
                generalize adjustSlot c2 ret slotOut = ar
                obtain ⟨c3, so3⟩ := ar
                intro e a1 a2 a3 a4
                simp only [] at a1 a2 a3 a4 e
                cases e
                exact ⟨l2, JO.congr (JO.cursor j2 a3) a1 a2, a4⟩

/-! ## the rule loop, a pass, a run of passes -/

theorem ruleLoop_safe (p : PassT) (hp : passOK p = true) : ∀ (fuel : Nat) (c : Ctx) (s : Nat) (lc : Int) (it : Nat) {l : List Nat},
    JO c l (some s) → s ∈ l → ∀ {w : String}, ruleLoop p fuel c s lc it = .error w → ¬ engineFault w := by
  intro fuel
  induction fuel with
  | zero => intro c s lc it l _ _ w e; unfold ruleLoop at e; cases e; unfold engineFault nullFault mapFault; decide
  | succ f ih =>
    intro c s lc it l h hs w e
    obtain ⟨g1, g2⟩ := findNDoRule_safe p c s h hs hp
    unfold ruleLoop at e
    split at e
    · rename_i w' hw
      cases e
      exact g1 hw
    · rename_i c1 s1 st hf
      obtain ⟨l1, j1, lv1⟩ := g2 hf
      split at e
      · cases e
      · split at e
        · cases e
        · rename_i s2
          simp only [] at e
          have hs3ok : ∀ (q : Prop) [Decidable q] (s3 : Nat), (if q then c1.highwater else some s2) = some s3 → s3 ∈ l1 := by
            intro q _ s3 hs3
            split at hs3
            · exact JO.hw j1 s3 hs3
            · cases hs3; exact lv1 s2 rfl
          by_cases hit : (some s2 = c1.highwater ∨ c1.highpassed = true)
          · simp only [hit, if_true, true_or] at e
            split at e
            · rename_i s3 hs3
              first
                | exact ih _ s3 _ _ (restartAt_JO j1 (isok_of_mem (hs3ok _ s3 hs3))) (hs3ok _ s3 hs3) e
                | exact ih _ s3 _ _ (restartAt_JO j1 (isok_of_mem (JO.hw j1 s3 hs3))) (JO.hw j1 s3 hs3) e
            · cases e
          · simp only [hit, if_false, false_or] at e
            split at e
            · split at e
              · rename_i s3 hs3
                first
                | exact ih _ s3 _ _ (restartAt_JO j1 (isok_of_mem (hs3ok _ s3 hs3))) (hs3ok _ s3 hs3) e
                | exact ih _ s3 _ _ (restartAt_JO j1 (isok_of_mem (JO.hw j1 s3 hs3))) (JO.hw j1 s3 hs3) e
              · cases e
            · exact ih _ s2 _ _ j1 (lv1 s2 rfl) e

theorem runPass_safe (p : PassT) (hp : passOK p = true) (c : Ctx) (fuel : Nat) (h : WF c.seg) {w : String}
    (e : runPass p c fuel = .error w) : ¬ engineFault w := by
  obtain ⟨l, hl, hc, hal⟩ := h
  unfold runPass at e
  split at e
  · cases e
  · rename_i s0 hs0
    split at e
    · cases e
    · simp only [] at e
      split at e
      · rename_i w' hr
        cases e
        have hs0l : s0 ∈ l := head?_mem (by rw [← hl.first]; exact hs0)
        have j0 : JO (c.restartAt s0) l (some s0) :=
          JO.mk' hl hc (isok_of_mem hs0l) (fun x hx => next_mem hl hs0l x hx) hal
        exact ruleLoop_safe p hp _ _ s0 _ 0 j0 hs0l hr
      · cases e
      · cases e

end GrVerif.Pass

import GrVerif.Model.SilfLoad
import GrVerif.Proofs.PassLoad
import GrVerif.Proofs.ClassMap
import GrVerif.Proofs.RulesLoad
set_option linter.unusedVariables false
set_option linter.unusedSimpArgs false
namespace GrVerif.Loader
open GrVerif.Gen.Err

/-! ## a small calculus for "this reader never reads outside `b`, and what it accepts satisfies `Q`" -/

/-- the reader ends without a `Fault`; if it accepts, the result satisfies `Q` -/
def Tot {ε α : Type} (Q : α → Prop) (r : Except Fault (Except ε α)) : Prop := ∃ v, r = .ok v ∧ ∀ a, v = .ok a → Q a

theorem Tot.bail {ε α : Type} {Q : α → Prop} (e : ε) : Tot Q (pure (Except.error e) : Except Fault (Except ε α)) :=
  ⟨_, rfl, fun a h => by cases h⟩

theorem Tot.done {ε α : Type} {Q : α → Prop} (a : α) (h : Q a) : Tot Q (pure (Except.ok a) : Except Fault (Except ε α)) :=
  ⟨_, rfl, fun a' h' => by cases h'; exact h⟩

theorem Tot.ite {ε α : Type} {Q : α → Prop} {c : Prop} [Decidable c] {e : ε} {k : Except Fault (Except ε α)}
    (h : ¬ c → Tot Q k) : Tot Q (if c then pure (Except.error e) else k) := by
  by_cases hc : c
  · rw [if_pos hc]; exact Tot.bail e
  · rw [if_neg hc]; exact h hc

theorem Tot.byte {ε α : Type} {Q : α → Prop} {b : List Nat} {i : Nat} {k : Nat → Except Fault (Except ε α)}
    (hi : i < b.length) (h : ∀ v, Tot Q (k v)) : Tot Q (byteAt b i >>= k) := by
  rw [byteAt_ok b i hi]; exact h _

theorem Tot.be16 {ε α : Type} {Q : α → Prop} {b : List Nat} {i : Nat} {k : Nat → Except Fault (Except ε α)}
    (hi : i + 2 ≤ b.length) (h : ∀ v, Tot Q (k v)) : Tot Q (be16 b i >>= k) := by
  obtain ⟨v, e⟩ := be16_ok b i hi
  rw [e]; exact h _

theorem Tot.be32 {ε α : Type} {Q : α → Prop} {b : List Nat} {i : Nat} {k : Nat → Except Fault (Except ε α)}
    (hi : i + 4 ≤ b.length) (h : ∀ v, Tot Q (k v)) : Tot Q (be32 b i >>= k) := by
  obtain ⟨v, e⟩ := be32_ok b i hi
  rw [e]; exact h _

/-- a sub-reader that cannot fault -/
theorem Tot.sub {ε α β : Type} {Q : α → Prop} {r : Except Fault β} {k : β → Except Fault (Except ε α)}
    (hr : ∃ v, r = .ok v) (h : ∀ v, r = .ok v → Tot Q (k v)) : Tot Q (r >>= k) := by
  obtain ⟨v, e⟩ := hr
  rw [e]; exact h v e

/-! ## the stages of `Silf::readGraphite` -/

theorem readJusts_ok (b : List Nat) : ∀ (n p : Nat), p + n * 8 ≤ b.length → ∃ v, readJusts b n p = .ok v := by
  intro n
  induction n with
  | zero => intro p _; exact ⟨_, rfl⟩
  | succ n ih =>
    intro p h
    unfold readJusts
    rw [byteAt_ok b p (by omega), byteAt_ok b (p + 1) (by omega), byteAt_ok b (p + 2) (by omega), byteAt_ok b (p + 3) (by omega)]
    obtain ⟨v, e⟩ := ih (p + 8) (by omega)
    simp only [bind, Except.bind, e, pure, Except.pure]
    exact ⟨_, rfl⟩

/-- what the first stage establishes -/
structure FixedOK (b : List Nat) (f : SilfFixed) : Prop where
  p : f.p < b.length
  bytes : f.numPasses < 256 ∧ f.sPass < 256 ∧ f.pPass < 256 ∧ f.jPass < 256 ∧ f.bPass < 256

theorem byteAt_lt (b : List Nat) (hb : ∀ x ∈ b, x < 256) (i v : Nat) (h : byteAt b i = .ok v) : v < 256 := by
  unfold byteAt at h
  split at h
  · rename_i x hx
    cases h
    exact hb _ (List.mem_of_getElem? hx)
  · cases h

theorem readSilfFixed_total (b : List Nat) (version numGlyphs : Nat) :
    Tot (fun f => f.p < b.length ∧ (if version ≥ 0x00030000 then 28 else 20) ≤ f.p) (readSilfFixed b version numGlyphs) := by
  unfold readSilfFixed
  refine Tot.ite fun h0 => ?_
  refine Tot.ite fun h1 => ?_
  by_cases hv : version ≥ 0x00030000
  · simp only [if_pos hv] at h1 ⊢
    refine Tot.be16 (by omega) fun maxGlyph => ?_
    refine Tot.be16 (by omega) fun _ => ?_
    refine Tot.be16 (by omega) fun _ => ?_
    refine Tot.byte (by omega) fun _ => ?_
    refine Tot.byte (by omega) fun _ => ?_
    refine Tot.byte (by omega) fun _ => ?_
    refine Tot.byte (by omega) fun _ => ?_
    refine Tot.byte (by omega) fun _ => ?_
    refine Tot.byte (by omega) fun _ => ?_
    refine Tot.byte (by omega) fun _ => ?_
    refine Tot.byte (by omega) fun _ => ?_
    refine Tot.byte (by omega) fun _ => ?_
    refine Tot.byte (by omega) fun _ => ?_
    refine Tot.byte (by omega) fun _ => ?_
    refine Tot.byte (by omega) fun nj => ?_
    refine Tot.ite fun h2 => ?_
    refine Tot.ite fun h3 => ?_
    refine Tot.sub (readJusts_ok b nj _ (by omega)) fun js _ => ?_
    exact Tot.done _ (by simp only [if_pos hv]; omega)
  · simp only [if_neg hv] at h1 ⊢
    refine Tot.be16 (by omega) fun maxGlyph => ?_
    refine Tot.be16 (by omega) fun _ => ?_
    refine Tot.be16 (by omega) fun _ => ?_
    refine Tot.byte (by omega) fun _ => ?_
    refine Tot.byte (by omega) fun _ => ?_
    refine Tot.byte (by omega) fun _ => ?_
    refine Tot.byte (by omega) fun _ => ?_
    refine Tot.byte (by omega) fun _ => ?_
    refine Tot.byte (by omega) fun _ => ?_
    refine Tot.byte (by omega) fun _ => ?_
    refine Tot.byte (by omega) fun _ => ?_
    refine Tot.byte (by omega) fun _ => ?_
    refine Tot.byte (by omega) fun _ => ?_
    refine Tot.byte (by omega) fun _ => ?_
    refine Tot.byte (by omega) fun nj => ?_
    refine Tot.ite fun h2 => ?_
    refine Tot.ite fun h3 => ?_
    refine Tot.sub (readJusts_ok b nj _ (by omega)) fun js _ => ?_
    exact Tot.done _ (by simp only [if_neg hv]; omega)

/-- what the second stage establishes: the first entry of the pass offset table has been read, `p` stands behind it -/
structure MidOK (b : List Nat) (m : SilfMid) : Prop where
  p : m.p < b.length
  o : m.oPasses + 4 = m.p

theorem readSilfMid_total (b : List Nat) (p : Nat) : Tot (MidOK b) (readSilfMid b p) := by
  unfold readSilfMid
  refine Tot.ite fun h0 => ?_
  refine Tot.be16 (by omega) fun _ => ?_
  refine Tot.byte (by omega) fun _ => ?_
  refine Tot.byte (by omega) fun _ => ?_
  refine Tot.byte (by omega) fun _ => ?_
  refine Tot.byte (by omega) fun _ => ?_
  refine Tot.byte (by omega) fun nc => ?_
  refine Tot.ite fun h1 => ?_
  refine Tot.byte (by omega) fun ns => ?_
  refine Tot.ite fun h2 => ?_
  refine Tot.be16 (by omega) fun _ => ?_
  refine Tot.be32 (by omega) fun _ => ?_
  exact Tot.done _ ⟨by simp only []; omega, by simp only []⟩

/-- what the plausibility tests establish -/
structure ChecksOK (len : Nat) (f : SilfFixed) (m : SilfMid) : Prop where
  np : f.numPasses ≤ 128
  start : m.passesStart < len
  order : f.sPass ≤ f.pPass ∧ f.pPass ≤ f.jPass ∧ f.jPass ≤ f.numPasses
  bidi : f.bPass = 255 ∨ (f.jPass ≤ f.bPass ∧ f.bPass ≤ f.numPasses)
  lig : m.aLig ≤ 127

theorem ite_some_none {c : Prop} [Decidable c] {e : Nat} {k : Option Nat} (h : (if c then some e else k) = none) : ¬ c ∧ k = none := by
  by_cases hc : c
  · rw [if_pos hc] at h; cases h
  · rw [if_neg hc] at h; exact ⟨hc, h⟩

theorem silfChecks_none (len numAttrs : Nat) (f : SilfFixed) (m : SilfMid) (h : silfChecks len numAttrs f m = none) :
    ChecksOK len f m ∧ f.aPseudo < numAttrs ∧ f.aBreak < numAttrs ∧ f.aBidi < numAttrs ∧ f.aMirror < numAttrs := by
  unfold silfChecks at h
  obtain ⟨c1, h⟩ := ite_some_none h
  obtain ⟨c2, h⟩ := ite_some_none h
  obtain ⟨c3, h⟩ := ite_some_none h
  obtain ⟨c4, h⟩ := ite_some_none h
  obtain ⟨c5, h⟩ := ite_some_none h
  obtain ⟨c6, h⟩ := ite_some_none h
  obtain ⟨c7, h⟩ := ite_some_none h
  obtain ⟨c8, h⟩ := ite_some_none h
  obtain ⟨c9, h⟩ := ite_some_none h
  obtain ⟨c10, h⟩ := ite_some_none h
  obtain ⟨c11, h⟩ := ite_some_none h
  obtain ⟨c12, h⟩ := ite_some_none h
  obtain ⟨c13, h⟩ := ite_some_none h
  obtain ⟨c14, h⟩ := ite_some_none h
  refine ⟨⟨by omega, by omega, by omega, by omega, by omega⟩, by omega, by omega, by omega, by omega⟩

theorem readPseudos_ok (b : List Nat) : ∀ (n p : Nat), p + n * 6 ≤ b.length → ∃ v, readPseudos b n p = .ok v ∧ v.length = n := by
  intro n
  induction n with
  | zero => intro p _; exact ⟨_, rfl, rfl⟩
  | succ n ih =>
    intro p h
    unfold readPseudos
    obtain ⟨u, e1⟩ := be32_ok b p (by omega)
    obtain ⟨g, e2⟩ := be16_ok b (p + 4) (by omega)
    obtain ⟨v, e, hl⟩ := ih (p + 6) (by omega)
    simp only [bind, Except.bind, e1, e2, e, pure, Except.pure]
    exact ⟨_, rfl, by simp only [List.length_cons, hl]⟩

/-- the pass offset table (`numPasses + 1` entries from `oPasses`) and the pseudo map end before `passes_start` -/
structure PseudosOK (b : List Nat) (f : SilfFixed) (m : SilfMid) (r : List (Nat × Nat) × Nat) : Prop where
  table : m.oPasses + (f.numPasses + 1) * 4 + 2 < m.passesStart
  classAt : r.2 < m.passesStart ∧ m.oPasses + (f.numPasses + 1) * 4 + 8 ≤ r.2

theorem readSilfPseudos_total (b : List Nat) (f : SilfFixed) (m : SilfMid) (hm : MidOK b m) (hs : m.passesStart < b.length) :
    Tot (PseudosOK b f m) (readSilfPseudos b f m) := by
  unfold readSilfPseudos
  have ho := hm.o
  refine Tot.ite fun h0 => ?_
  refine Tot.be16 (by omega) fun np => ?_
  refine Tot.ite fun h1 => ?_
  obtain ⟨v, e, _⟩ := readPseudos_ok b np (m.p + f.numPasses * 4 + 8) (by omega)
  refine Tot.sub ⟨v, e⟩ fun ps _ => ?_
  exact Tot.done _ ⟨by omega, by simp only []; omega, by simp only []; omega⟩

/-- one pass slot: the bytes handed to `readPass` lie inside the sub-table behind `passes_start`, and the layout `readPass`
derives from them places every array and code block inside those bytes -/
structure SlotOK (b : List Nat) (passesStart : Nat) (s : PassSlot) : Prop where
  range : passesStart ≤ s.start ∧ s.start ≤ s.stop ∧ s.stop ≤ b.length
  layout : LayoutOK ((b.drop s.start).take (s.stop - s.start)) s.pass.layout
  rules : ∀ x ∈ s.pass.rules, RuleOK ((b.drop s.start).take (s.stop - s.start)) s.pass.layout x

theorem readSilfPasses_total (b : List Nat) (f : SilfFixed) (m : SilfMid) (hasBoxes : Bool) (fl : FontLimits) :
    ∀ (n i : Nat), m.oPasses + (i + n + 1) * 4 ≤ b.length →
      Tot (fun (l : List PassSlot) => l.length = n ∧ ∀ s ∈ l, SlotOK b m.passesStart s) (readSilfPasses b f m hasBoxes fl n i) := by
  intro n
  induction n with
  | zero => intro i _; exact ⟨_, rfl, fun a h => by cases h; exact ⟨rfl, fun s hs => by cases hs⟩⟩
  | succ n ih =>
    intro i h
    unfold readSilfPasses
    refine Tot.be32 (by omega) fun ps => ?_
    refine Tot.be32 (by omega) fun pe => ?_
    refine Tot.ite fun h0 => ?_
    refine Tot.ite fun h1 => ?_
    refine Tot.ite fun h2 => ?_
    obtain ⟨r, e, hr⟩ := readPassAll_total ((b.drop ps).take (pe - ps)) ps (passCollOK f m hasBoxes i) fl (passType f i + 1)
    simp only [bind, Except.bind, e]
    cases r with
    | error c => exact ⟨_, rfl, fun a h => by cases h⟩
    | ok L =>
      simp only []
      obtain ⟨r2, e2, hr2⟩ := ih (i + 1) (by omega)
      rw [e2]
      cases r2 with
      | error c => exact ⟨_, rfl, fun a h => by cases h⟩
      | ok rest =>
        simp only []
        refine ⟨_, rfl, fun a ha => ?_⟩
        cases ha
        obtain ⟨hl, hall⟩ := hr2 rest rfl
        refine ⟨by simp only [List.length_cons, hl], fun s hs => ?_⟩
        rcases List.mem_cons.mp hs with rfl | hs
        · exact ⟨⟨by simp only []; omega, by simp only []; omega, by simp only []; omega⟩, (hr L rfl).1, (hr L rfl).2⟩
        · exact hall s hs

/-- what `Silf::readGraphite` has established about an accepted sub-table -/
structure SilfOK (b : List Nat) (version numAttrs : Nat) (t : SilfTable) : Prop where
  checks : ChecksOK b.length t.fixed t.mid
  attrs : t.fixed.aPseudo < numAttrs ∧ t.fixed.aBreak < numAttrs ∧ t.fixed.aBidi < numAttrs ∧ t.fixed.aMirror < numAttrs
  classAt : t.classAt < t.mid.passesStart
  classes : ClassMapOK t.classes
  size : (if version ≥ 0x00030000 then 29 else 21) ≤ b.length
  count : t.passes.length = t.fixed.numPasses
  passes : ∀ s ∈ t.passes, SlotOK b t.mid.passesStart s

theorem liftE_tot {α : Type} {Q : α → Prop} {r : Except Fault (Except Nat α)} (h : Tot Q r) : Tot Q (liftE r) := by
  obtain ⟨v, e, hv⟩ := h
  rw [e]
  cases v with
  | error c => exact ⟨_, rfl, fun a h => by cases h⟩
  | ok a => exact ⟨_, rfl, fun a' h => by cases h; exact hv a rfl⟩

/-- **`Silf::readGraphite` is total and in bounds for every byte string**: whatever the bytes of the sub-table, the table
version and the glyph cache's numbers are, no read goes outside the sub-table; and an accepted sub-table has its pass numbers
in order, its class map well formed, and for every pass a byte range inside the sub-table whose layout is inside that range. -/
theorem readSilf_total (b : List Nat) (version numGlyphs numAttrs : Nat) (hasBoxes : Bool) (numFeats : Nat) :
    Tot (SilfOK b version numAttrs) (readSilf b version numGlyphs numAttrs hasBoxes numFeats) := by
  unfold readSilf
  obtain ⟨r1, e1, h1⟩ := liftE_tot (readSilfFixed_total b version numGlyphs)
  rw [e1]
  cases r1 with
  | error c => exact ⟨_, rfl, fun a h => by cases h⟩
  | ok f =>
  simp only []
  obtain ⟨r2, e2, h2⟩ := liftE_tot (readSilfMid_total b f.p)
  rw [e2]
  cases r2 with
  | error c => exact ⟨_, rfl, fun a h => by cases h⟩
  | ok m =>
  simp only []
  have hm := h2 m rfl
  cases hc : silfChecks b.length numAttrs f m with
  | some e => exact ⟨_, rfl, fun a h => by cases h⟩
  | none =>
  simp only []
  obtain ⟨hck, hat⟩ := silfChecks_none _ _ _ _ hc
  obtain ⟨r3, e3, h3⟩ := liftE_tot (readSilfPseudos_total b f m hm hck.start)
  rw [e3]
  cases r3 with
  | error c => exact ⟨_, rfl, fun a h => by cases h⟩
  | ok pc =>
  obtain ⟨pseudos, classAt⟩ := pc
  simp only []
  have hp := h3 _ rfl
  obtain ⟨r4, e4, h4⟩ := liftE_tot (readClassMap_total ((b.drop classAt).take (m.passesStart - classAt)) (decide (version ≥ 0x00040000)))
  rw [e4]
  cases r4 with
  | error c => exact ⟨_, rfl, fun a h => by cases h⟩
  | ok cm =>
  simp only []
  by_cases hcl : cm.data.length > m.passesStart - classAt
  · rw [if_pos hcl]; exact ⟨_, rfl, fun a h => by cases h⟩
  rw [if_neg hcl]
  have hst := hck.start
  have htab := hp.table
  obtain ⟨r5, e5, h5⟩ := readSilfPasses_total b f m hasBoxes { classes := cm.nClass, glyfAttrs := numAttrs, features := numFeats, numUser := m.aUser } f.numPasses 0 (by omega)
  rw [e5]
  cases r5 with
  | error c => exact ⟨_, rfl, fun a h => by cases h⟩
  | ok passes =>
  simp only []
  refine ⟨_, rfl, fun a ha => ?_⟩
  cases ha
  obtain ⟨hl, hall⟩ := h5 passes rfl
  have hf := h1 f rfl
  exact ⟨hck, hat, hp.classAt.1, h4 cm rfl, by split <;> (split at hf <;> omega), hl, hall⟩

/-- the loop over the sub-table offsets: the offset table, whose length `Face::readGraphite` never tests, is nevertheless never
read past the end of the Silf table – every accepted sub-table is longer than 20 bytes and they follow one another, so by the
time the loop looks at entry `i + 1` the table is known to be longer than `21 * (i + 1)` bytes, which is beyond that entry -/
theorem readSilfSubs_total (b : List Nat) (version numGlyphs numAttrs : Nat) (hasBoxes : Bool) (numFeats : Nat) (base : Nat)
    (hb : base = if version ≥ 0x00030000 then 12 else 8) :
    ∀ (n i : Nat), base + i * 4 + 8 ≤ b.length → (∀ v, be32 b (base + i * 4) = .ok v → 20 * i ≤ v) →
      Tot (fun (l : List SilfTable) => l.length = n) (readSilfSubs b version numGlyphs numAttrs hasBoxes numFeats base n i) := by
  intro n
  induction n with
  | zero => intro i _ _; exact ⟨_, rfl, fun a h => by cases h; rfl⟩
  | succ n ih =>
    intro i hlen hlo
    unfold readSilfSubs
    obtain ⟨offset, eo⟩ := be32_ok b (base + i * 4) (by omega)
    have hoff := hlo offset eo
    obtain ⟨next, en⟩ : ∃ v, (if n = 0 then (pure b.length : Except Fault Nat) else be32 b (base + (i + 1) * 4)) = .ok v := by
      by_cases h0 : n = 0
      · rw [if_pos h0]; exact ⟨_, rfl⟩
      · rw [if_neg h0]; exact be32_ok b _ (by omega)
    simp only [bind, Except.bind, eo, en]
    by_cases hc : next > b.length ∨ offset ≥ next
    · rw [if_pos hc]; exact ⟨_, rfl, fun a h => by cases h⟩
    rw [if_neg hc]
    obtain ⟨r, e, hr⟩ := readSilf_total ((b.drop offset).take (next - offset)) version numGlyphs numAttrs hasBoxes numFeats
    simp only [e]
    cases r with
    | error c => exact ⟨_, rfl, fun a h => by cases h⟩
    | ok t =>
      simp only []
      have hsz := (hr t rfl).size
      have hsl : ((b.drop offset).take (next - offset)).length = next - offset := by
        simp only [List.length_take, List.length_drop]; omega
      rw [hsl] at hsz
      have h21 : 21 ≤ next - offset ∧ base + 13 ≤ next - offset := by split at hsz <;> (split at hb <;> omega)
      by_cases h0 : n = 0
      · subst h0
        unfold readSilfSubs
        exact ⟨_, rfl, fun a h => by cases h; rfl⟩
      · have hnext : be32 b (base + (i + 1) * 4) = .ok next := by rw [if_neg h0] at en; exact en
        have hnx : 20 * (i + 1) ≤ next ∧ base + 13 ≤ next := by omega
        obtain ⟨r2, e2, hr2⟩ := ih (i + 1) (by omega) (fun v hv => by rw [hnext] at hv; cases hv; exact hnx.1)
        rw [e2]
        cases r2 with
        | error c => exact ⟨_, rfl, fun a h => by cases h⟩
        | ok rest =>
          simp only []
          refine ⟨_, rfl, fun a ha => ?_⟩
          cases ha
          simp only [List.length_cons, hr2 rest rfl]

/-- **`Face::readGraphite` is total and in bounds for every byte string given as the Silf table** -/
theorem readSilfTable_total (b : List Nat) (numGlyphs numAttrs : Nat) (hasBoxes : Bool) (numFeats : Nat) :
    ∃ r, readSilfTable b numGlyphs numAttrs hasBoxes numFeats = .ok r := by
  unfold readSilfTable
  by_cases h0 : b.length < 20
  · simp only [if_pos h0]; exact ⟨_, rfl⟩
  simp only [if_neg h0]
  obtain ⟨version, ev⟩ := be32_ok b 0 (by omega)
  simp only [bind, Except.bind, ev]
  by_cases h1 : version < 0x00020000
  · simp only [if_pos h1]; exact ⟨_, rfl⟩
  simp only [if_neg h1]
  obtain ⟨ns, e2⟩ := be16_ok b ((if version ≥ 0x00030000 then 12 else 8) - 4) (by split <;> omega)
  rw [e2]
  simp only []
  obtain ⟨r, e, _⟩ := readSilfSubs_total b version numGlyphs numAttrs hasBoxes numFeats (if version ≥ 0x00030000 then 12 else 8) rfl
    ns 0 (by split <;> omega) (fun v _ => by omega)
  exact ⟨r, e⟩

end GrVerif.Loader

import GrVerif.Proofs.VmSim
/-! The dispatch loop and epilogue of `Machine::run` against the specification's `eval`. -/
set_option linter.unusedSimpArgs false
set_option linter.unusedVariables false
namespace GrVerif.Vm
open GrVerif.Gen.Vm GrVerif.Spec.Vm

theorem continues_nat (n : Nat) (h : n < 18446744073709551616) : continues (n : Int) = decide (n < STACK_MAX) := by
  unfold continues stackMaxUnsigned STACK_MAX
  simp only [if_true]
  have : ((n : Int) % 18446744073709551616) = n := by omega
  rw [this]
  have e : ((1024 : Nat) : Int) = 1024 := rfl
  rw [e]
  by_cases c : n < 1024
  · have : (n : Int) / 1024 = 0 := by omega
    simp [c, this]
  · have : ¬ (n : Int) / 1024 = 0 := by omega
    simp [c, this]

theorem cont_eq (drv : Driver) : drv.cont = continues := by cases drv <;> rfl

/-- geometry of a machine state: `below` is `_stack[0..STACK_GUARD]`, the array has its declared extent -/
structure Geo (below st above : List Int) : Prop where
  hbelow : below.length = STACK_GUARD + 1
  htotal : below.length + st.length + above.length = stackSize

theorem build_sp (below st above : List Int) (dp data status) (h : below.length = STACK_GUARD + 1) :
    (build below st above dp data status).sp - STACK_GUARD = (st.length : Int) := by
  simp only [build, h]; push_cast; omega

/-- what the loop's end state must look like for a specification result -/
def EndMatches (below : List Int) (data : Array Nat) : Result → RunEnd → Prop
  | .returned v rest, .normal s => ∃ above dp, s = build below (v :: rest) above dp data .finished ∧ Geo below (v :: rest) above
  | .died st, .normal s => ∃ above dp, s = build below (1 :: st) above dp data .died_early ∧ Geo below (1 :: st) above
  | .overflow st, .normal s => ∃ above dp, s = build below st above dp data .finished ∧ Geo below st above ∧ STACK_MAX ≤ st.length
  | .stuck, _ => True
  | _, _ => False

theorem runLoop_matches (data : Array Nat) (hbytes : Bytes data.toList) (below : List Int) :
    ∀ (instrs : List Nat) (fuel : Nat) (st above : List Int) (j : Int) (dp : Nat),
      instrs.length ≤ fuel → StRange st → Geo below st (j :: above) → st.length < STACK_MAX →
      EndMatches below data (eval STACK_MAX instrs (data.toList.drop dp) st)
        (runLoop continues fuel instrs (build below st (j :: above) dp data .finished)) := by
  intro instrs
  induction instrs with
  | nil => intro fuel st above j dp _ _ _ _; simp [eval, EndMatches]
  | cons opc rest ih =>
    intro fuel st above j dp hfuel hr hgeo hlen
    obtain ⟨fuel', rfl⟩ : ∃ f, fuel = f + 1 := ⟨fuel - 1, by simp at hfuel; omega⟩
    have hb : below ≠ [] := by
      intro e; have := hgeo.hbelow; simp [e] at this
    simp only [eval, runLoop]
    cases hop : scalarOp opc with
    | none =>
      -- not a scalar opcode: the specification is stuck
      have : step opc (data.toList.drop dp) st = .stuck := by
        unfold scalarOp at hop
        unfold step
        split at hop <;> first | (simp at hop) | skip
        split <;> first | rfl | (exfalso; simp_all)
      simp [this, EndMatches]
    | some op =>
      have hsim := op_sem_eq_spec opc op hop below st j above dp data .finished hb hr hbytes
      cases hstep : step opc (data.toList.drop dp) st with
      | stuck => simp [EndMatches]
      | next st' k =>
        rw [hstep] at hsim
        obtain ⟨above', hrun, hr', hlen'⟩ := hsim
        simp only [hrun]
        have hgeo' : Geo below st' above' := ⟨hgeo.hbelow, by have := hgeo.htotal; simp only [List.length_cons] at this; omega⟩
        rw [build_sp below st' above' _ _ _ hgeo.hbelow]
        have hst' : st'.length < 18446744073709551616 := by
          have := hgeo'.htotal; unfold stackSize STACK_MAX STACK_GUARD at this; omega
        rw [continues_nat st'.length hst']
        by_cases hlt : st'.length < STACK_MAX
        · simp only [hlt, decide_true, if_true]
          -- there is still a free cell above
          match above', hgeo' with
          | [], hg => exfalso; have := hg.htotal; have := hg.hbelow; unfold stackSize STACK_MAX STACK_GUARD at *; simp at *; omega
          | j' :: above'', hg =>
            have := ih fuel' st' above'' j' (dp + k) (by simp at hfuel; omega) hr' hg hlt
            rw [List.drop_drop] at *
            simpa [Nat.add_comm] using this
        · simp only [hlt, decide_false, if_false, Bool.false_eq_true]
          exact ⟨above', dp + k, rfl, hgeo', by omega⟩
      | ret v rest' =>
        rw [hstep] at hsim
        obtain ⟨above', hrun, hlen', hv⟩ := hsim
        simp only [hrun]
        exact ⟨above', dp, rfl, hgeo.hbelow, by have := hgeo.htotal; simp only [List.length_cons] at this ⊢; omega⟩
      | die st' =>
        rw [hstep] at hsim
        obtain ⟨above', hrun, hlen'⟩ := hsim
        simp only [hrun]
        exact ⟨above', dp, rfl, hgeo.hbelow, by have := hgeo.htotal; simp only [List.length_cons] at this ⊢; omega⟩

end GrVerif.Vm

import GrVerif.Proofs.CodeLoop
import GrVerif.Proofs.CursorPass
/-!
# What the code loader accepts passes the cursor tests of `Proofs/Cursor`

`Proofs/Cursor*.lean` prove that rule code never writes through a null cursor under the hypothesis `codeOK`: the loader's
bookkeeping of `(_out_index, _out_length)`, over unbounded integers, with the tests `NEXT` keeps the cursor inside the output and
`test_context()` before every write through the cursor.  This file derives that hypothesis from the model of the loader itself
(`Model/CodeLoad`, `Machine::Code::Code` / `decoder::fetch_opcode`): an action program the loader accepts passes `curRun`.
-/
set_option linter.unusedVariables false
set_option linter.unusedSimpArgs false
namespace GrVerif.CodeLoad
open GrVerif.Action GrVerif.Loader GrVerif.Gen.Vm

set_option hygiene false in
macro "close_arm" : tactic => `(tactic| (
  repeat' (split at h)
  all_goals first
    | (cases h; done)
    | (exfalso; omega)
    | (injection h with h; injection h with h1 h2; subst h1; exact ⟨rfl, rfl⟩)))

/-- the opcodes other than `NEXT`, `COPY_NEXT`, `INSERT`, `DELETE` leave `_out_index` and `_out_length` alone -/
theorem fetchCase_book (l : Limits) (constraint : Bool) (pt : Nat) (d : Dec) (opc pos : Nat) (ps : List Nat) (b : Book) (ts : List (Bool × Nat))
    (h : fetchCase l constraint pt d opc pos ps = .ok (b, ts)) (hn : opc ≠ 25 ∧ opc ≠ 27 ∧ opc ≠ 31 ∧ opc ≠ 32) :
    b.outIndex = d.outIndex ∧ b.outLength = d.outLength := by
  unfold fetchCase at h
  simp only [bind, Except.bind, pure, Except.pure] at h
  by_cases h0 : opc = 0
  · rw [if_pos h0] at h; close_arm
  rw [if_neg h0] at h
  by_cases h1 : 1 ≤ opc ∧ opc ≤ 5
  · rw [if_pos h1] at h; close_arm
  rw [if_neg h1] at h
  by_cases h2 : (6 ≤ opc ∧ opc ≤ 11) ∨ opc = 16 ∨ opc = 17 ∨ (19 ≤ opc ∧ opc ≤ 24) ∨ opc = 62 ∨ opc = 63
  · rw [if_pos h2] at h; close_arm
  rw [if_neg h2] at h
  by_cases h3 : (12 ≤ opc ∧ opc ≤ 14) ∨ opc = 18 ∨ opc = 64 ∨ opc = 65
  · rw [if_pos h3] at h; close_arm
  rw [if_neg h3] at h
  by_cases h4 : opc = 15
  · rw [if_pos h4] at h; close_arm
  rw [if_neg h4] at h
  by_cases h5 : opc = 26
  · rw [if_pos h5] at h; close_arm
  rw [if_neg h5] at h
  by_cases h6 : opc = 25 ∨ opc = 27
  · rw [if_pos h6] at h; close_arm
  rw [if_neg h6] at h
  by_cases h7 : opc = 28
  · rw [if_pos h7] at h; close_arm
  rw [if_neg h7] at h
  by_cases h8 : opc = 29
  · rw [if_pos h8] at h; close_arm
  rw [if_neg h8] at h
  by_cases h9 : opc = 30
  · rw [if_pos h9] at h; close_arm
  rw [if_neg h9] at h
  by_cases h10 : opc = 31
  · rw [if_pos h10] at h; close_arm
  rw [if_neg h10] at h
  by_cases h11 : opc = 32
  · rw [if_pos h11] at h; close_arm
  rw [if_neg h11] at h
  by_cases h12 : opc = 33
  · rw [if_pos h12] at h; close_arm
  rw [if_neg h12] at h
  by_cases h13 : opc = 34
  · rw [if_pos h13] at h; close_arm
  rw [if_neg h13] at h
  by_cases h14 : 35 ≤ opc ∧ opc ≤ 38
  · rw [if_pos h14] at h; close_arm
  rw [if_neg h14] at h
  by_cases h15 : opc = 39 ∨ (51 ≤ opc ∧ opc ≤ 53)
  · rw [if_pos h15] at h; close_arm
  rw [if_neg h15] at h
  by_cases h16 : opc = 40
  · rw [if_pos h16] at h; close_arm
  rw [if_neg h16] at h
  by_cases h17 : opc = 41 ∨ opc = 44
  · rw [if_pos h17] at h; close_arm
  rw [if_neg h17] at h
  by_cases h18 : opc = 42 ∨ opc = 45
  · rw [if_pos h18] at h; close_arm
  rw [if_neg h18] at h
  by_cases h19 : opc = 43
  · rw [if_pos h19] at h; close_arm
  rw [if_neg h19] at h
  by_cases h20 : opc = 46
  · rw [if_pos h20] at h; close_arm
  rw [if_neg h20] at h
  by_cases h21 : opc = 47 ∨ opc = 54 ∨ opc = 55
  · rw [if_pos h21] at h; close_arm
  rw [if_neg h21] at h
  by_cases h22 : opc = 48
  · rw [if_pos h22] at h; close_arm
  rw [if_neg h22] at h
  by_cases h23 : opc = 49 ∨ opc = 50 ∨ opc = 57 ∨ opc = 58
  · rw [if_pos h23] at h; close_arm
  rw [if_neg h23] at h
  by_cases h24 : opc = 56
  · rw [if_pos h24] at h; close_arm
  rw [if_neg h24] at h
  by_cases h25 : opc = 59
  · rw [if_pos h25] at h; close_arm
  rw [if_neg h25] at h
  by_cases h26 : opc = 60 ∨ opc = 61
  · rw [if_pos h26] at h; close_arm
  rw [if_neg h26] at h
  by_cases h27 : opc = 66
  · rw [if_pos h27] at h; close_arm
  rw [if_neg h27] at h
  close_arm

/-! ## the tests of the four opcodes that move the cursor, and `test_context()` -/

theorem fetchCase_nextCur (l : Limits) (constraint : Bool) (pt : Nat) (d : Dec) (opc pos : Nat) (ps : List Nat) (b : Book) (ts : List (Bool × Nat))
    (ho : opc = 25 ∨ opc = 27) (h : fetchCase l constraint pt d opc pos ps = .ok (b, ts)) (hf : lastFail ts = none) :
    b.outIndex = d.outIndex + 1 ∧ b.outLength = d.outLength ∧ -1 ≤ d.outIndex + 1 ∧ d.outIndex + 1 ≤ d.outLength := by
  rcases ho with rfl | rfl
  all_goals
    simp [fetchCase, pure, Except.pure] at h
    obtain ⟨rfl, rfl⟩ := h
    have := lastFail_single _ _ hf
    simp at this
    exact ⟨rfl, rfl, by omega, by omega⟩

theorem fetchCase_insertCur (l : Limits) (constraint : Bool) (pt : Nat) (d : Dec) (pos : Nat) (ps : List Nat) (b : Book) (ts : List (Bool × Nat))
    (h : fetchCase l constraint pt d 31 pos ps = .ok (b, ts)) (hf : lastFail ts = none) :
    b.outIndex = (if d.outIndex < 0 then d.outIndex + 1 else d.outIndex) ∧ b.outLength = (d.outLength + 1) % 65536 ∧
    -1 ≤ b.outIndex ∧ b.outIndex < (b.outLength : Int) := by
  simp [fetchCase, pure, Except.pure] at h
  obtain ⟨rfl, rfl⟩ := h
  have hm := lastFail_none_mem _ hf
  have a := hm _ (List.mem_cons_of_mem _ List.mem_cons_self)
  refine ⟨rfl, rfl, ?_, ?_⟩
  · show -1 ≤ (if d.outIndex < 0 then d.outIndex + 1 else d.outIndex)
    by_cases hneg : d.outIndex < 0 <;> simp [hneg] at a ⊢ <;> omega
  · show (if d.outIndex < 0 then d.outIndex + 1 else d.outIndex) < (((d.outLength + 1) % 65536 : Nat) : Int)
    by_cases hneg : d.outIndex < 0 <;> simp [hneg] at a ⊢ <;> omega

theorem fetchCase_deleteCur (l : Limits) (constraint : Bool) (pt : Nat) (d : Dec) (pos : Nat) (ps : List Nat) (b : Book) (ts : List (Bool × Nat))
    (h : fetchCase l constraint pt d 32 pos ps = .ok (b, ts)) (hf : lastFail ts = none) :
    b.outIndex = d.outIndex - 1 ∧ b.outLength = (d.outLength + 65535) % 65536 ∧ (l.preContext : Int) ≤ d.outIndex ∧ d.outIndex < (d.outLength : Int) := by
  simp [fetchCase, pure, Except.pure] at h
  obtain ⟨rfl, rfl⟩ := h
  have hm := lastFail_none_mem _ hf
  have a := hm _ (List.mem_cons_of_mem _ List.mem_cons_self)
  simp at a
  exact ⟨rfl, rfl, by omega, by omega⟩

theorem badContext_false {d : Dec} (h : badContext d = false) : 0 ≤ d.outIndex ∧ d.outIndex < (d.outLength : Int) := by
  unfold badContext at h
  simp at h
  omega

/-- the opcodes that write through the cursor pass `test_context()` -/
theorem fetchCase_context (l : Limits) (constraint : Bool) (pt : Nat) (d : Dec) (opc pos : Nat) (ps : List Nat) (b : Book) (ts : List (Bool × Nat))
    (ho : opc = 33 ∨ opc = 59 ∨ opc = 56 ∨ opc = 35 ∨ opc = 36 ∨ opc = 37 ∨ opc = 38 ∨ opc = 28 ∨ opc = 29)
    (h : fetchCase l constraint pt d opc pos ps = .ok (b, ts)) (hf : lastFail ts = none) : 0 ≤ d.outIndex ∧ d.outIndex < (d.outLength : Int) := by
  have hm := lastFail_none_mem _ hf
  apply badContext_false
  rcases ho with rfl | rfl | rfl | rfl | rfl | rfl | rfl | rfl | rfl
  all_goals
    simp only [fetchCase, bind, Except.bind, pure, Except.pure] at h
    simp (config := { decide := true }) only [if_false, if_true, Nat.reduceEqDiff, Nat.reduceLeDiff, false_and, and_false, false_or, or_false, true_and, and_true, ite_false, ite_true] at h
    repeat' (split at h)
    all_goals first
      | (cases h; done)
      | (injection h with h; injection h with h1 h2; subst h2; exact hm (badContext d, S_out_of_range) (by simp))

/-! ## `analyse_opcode` leaves the bookkeeping of the cursor alone and only ever sets `_code._delete` -/

/-- the fields this file follows -/
structure Same (d d' : Dec) : Prop where
  oi : d'.outIndex = d.outIndex
  ol : d'.outLength = d.outLength
  instrs : d'.instrs = d.instrs
  del : d.delete = true → d'.delete = true
  ctxt : d'.ctxt = d.ctxt
  curEnd : d'.curEnd = d.curEnd
  inCtxt : d'.inCtxt = d.inCtxt

theorem Same.rfl' (d : Dec) : Same d d := ⟨rfl, rfl, rfl, id, rfl, rfl, rfl⟩
theorem Same.tr {a b c : Dec} (h1 : Same a b) (h2 : Same b c) : Same a c :=
  ⟨h2.oi.trans h1.oi, h2.ol.trans h1.ol, h2.instrs.trans h1.instrs, fun h => h2.del (h1.del h), h2.ctxt.trans h1.ctxt, h2.curEnd.trans h1.curEnd, h2.inCtxt.trans h1.inCtxt⟩
theorem bumpRef_same (d : Dec) (x : Int) : Same d (bumpRef d x) := by unfold bumpRef; split <;> exact ⟨rfl, rfl, rfl, id, rfl, rfl, rfl⟩
theorem setRef_same (d : Dec) (i : Int) : Same d (setRef d i) := by
  unfold setRef bumpRef; simp only []; split
  · split <;> exact ⟨rfl, rfl, rfl, id, rfl, rfl, rfl⟩
  · exact Same.rfl' d
theorem setChanged_same (d : Dec) (i : Int) : Same d (setChanged d i) := by
  unfold setChanged bumpRef; simp only []; split
  · split <;> exact ⟨rfl, rfl, rfl, id, rfl, rfl, rfl⟩
  · exact Same.rfl' d
theorem setNoref_same (d : Dec) (i : Int) : Same d (setNoref d i) := by
  unfold setNoref; simp only []; split
  · exact bumpRef_same _ _
  · exact Same.rfl' d
theorem modify_same (d : Dec) : Same d { d with modify := true } := ⟨rfl, rfl, rfl, id, rfl, rfl, rfl⟩

theorem analyse_same (d : Dec) (opc : Nat) (ps : List Nat) {d' : Dec} (h : analyse d opc ps = .ok d') :
    Same d d' ∧ (opc = 32 → d'.delete = true) := by
  unfold analyse at h
  simp only [bind, Except.bind, pure, Except.pure] at h
  by_cases h0 : opc = 32
  · rw [if_pos h0] at h; injection h with h; subst h
    exact ⟨⟨rfl, rfl, rfl, fun _ => rfl, rfl, rfl, rfl⟩, fun _ => rfl⟩
  rw [if_neg h0] at h
  refine ⟨?_, fun ho => absurd ho h0⟩
  by_cases h1 : opc = 33
  · rw [if_pos h1] at h; injection h with h; subst h; exact setChanged_same _ _
  rw [if_neg h1] at h
  by_cases h2 : opc = 28 ∨ opc = 59
  · rw [if_pos h2] at h; injection h with h; subst h; exact Same.tr (modify_same d) (setChanged_same _ _)
  rw [if_neg h2] at h
  by_cases h3 : (35 ≤ opc ∧ opc ≤ 39) ∨ (51 ≤ opc ∧ opc ≤ 53)
  · rw [if_pos h3] at h; injection h with h; subst h; exact setNoref_same _ _
  rw [if_neg h3] at h
  by_cases h4 : opc = 25 ∨ opc = 27
  · rw [if_pos h4] at h
    split at h
    · injection h with h; subst h; exact ⟨rfl, rfl, rfl, id, rfl, rfl, rfl⟩
    · cases h
  rw [if_neg h4] at h
  by_cases h5 : opc = 31
  · rw [if_pos h5] at h; injection h with h; subst h; exact ⟨rfl, rfl, rfl, id, rfl, rfl, rfl⟩
  rw [if_neg h5] at h
  by_cases h6 : opc = 29 ∨ opc = 56
  · rw [if_pos h6] at h
    split at h
    · cases h
    · injection h with h; subst h
      refine Same.tr ?_ (setRef_same _ _)
      split
      · exact Same.tr (Same.tr (modify_same d) (setChanged_same _ _)) (Same.tr (modify_same _) (setChanged_same _ _))
      · exact Same.tr (modify_same d) (setChanged_same _ _)
  rw [if_neg h6] at h
  by_cases h7 : opc = 30
  · rw [if_pos h7] at h
    split at h
    · cases h
    · injection h with h; subst h
      refine Same.tr ?_ (setRef_same _ _)
      split
      · exact Same.tr (setChanged_same d 0) (modify_same _)
      · exact Same.rfl' d
  rw [if_neg h7] at h
  by_cases h8 : opc = 41 ∨ opc = 40 ∨ opc = 42 ∨ opc = 44 ∨ opc = 45 ∨ opc = 46 ∨ opc = 43 ∨ opc = 66
  · rw [if_pos h8] at h
    split at h
    · cases h
    · injection h with h; subst h; exact setRef_same _ _
  rw [if_neg h8] at h
  by_cases h9 : opc = 61 ∨ opc = 60
  · rw [if_pos h9] at h
    split at h
    · cases h
    · injection h with h; subst h; exact setRef_same _ _
  rw [if_neg h9] at h
  injection h with h; subst h; exact Same.rfl' d

/-! ## one opcode of an action, the loop, the loaded program -/

/-- the loader's `(_out_index, _out_length, _code._delete)` and the bookkeeping of `Proofs/Cursor` agree, and neither number has wrapped -/
structure CurInv (d : Dec) (cur : Cur) : Prop where
  idx : cur.idx = d.outIndex
  len : cur.len = (d.outLength : Int)
  lo : -1 ≤ d.outIndex
  hi : d.outLength < 65536
  dels : cur.dels = true → d.delete = true

theorem row34 : opcodeTable[34]? = some ("CNTXT_ITEM", 2, false, true) := by decide

theorem stepOp_cur (l : Limits) (pt : Nat) (bc : List Nat) (pos : Nat) (d : Dec) {pos' : Nat} {d' : Dec}
    (e : stepOp l false pt bc pos d = .ok (.ok (pos', d'))) {cur : Cur} (hc : CurInv d cur) :
    ∃ opc ps cur', d'.instrs = (opc, ps) :: d.instrs ∧ curStep cur (opc, ps) = some cur' ∧ CurInv d' cur' ∧ d'.ctxt = d.ctxt := by
  unfold stepOp at e
  simp only [bind, Except.bind, pure, Except.pure] at e
  cases h1 : byteAt bc pos with
  | error f => rw [h1] at e; cases e
  | ok opc =>
  rw [h1] at e
  simp only [] at e
  by_cases h67 : opc ≥ 67
  · rw [if_pos h67] at e; cases e
  rw [if_neg h67] at e
  cases ht : opcodeTable[opc]? with
  | none => rw [ht] at e; cases e
  | some row =>
  obtain ⟨nm, psz, implA, implC⟩ := row
  rw [ht] at e
  simp only [] at e
  by_cases himpl : (!(if false = true then implC else implA)) = true
  · rw [if_pos himpl] at e; cases e
  rw [if_neg himpl] at e
  by_cases hva : psz = 255 ∧ pos + 1 ≥ d.curEnd
  · rw [if_pos hva] at e; cases e
  rw [if_neg hva] at e
  cases h2 : paramCount bc pos psz with
  | error f => rw [h2] at e; cases e
  | ok n =>
  rw [h2] at e
  simp only [] at e
  by_cases hex : pos + n ≥ d.curEnd
  · rw [if_pos hex] at e; cases e
  rw [if_neg hex] at e
  cases h3 : fetchCase l false pt d opc pos ((bc.drop (pos + 1)).take n) with
  | error f => rw [h3] at e; cases e
  | ok bt =>
  obtain ⟨b1, tests⟩ := bt
  rw [h3] at e
  simp only [] at e
  cases hlf : lastFail tests with
  | some s0 => rw [hlf] at e; cases e
  | none =>
  rw [hlf] at e
  simp only [] at e
  cases h4 : analyse { d with outIndex := b1.outIndex, outLength := b1.outLength, stackDepth := b1.stackDepth } opc ((bc.drop (pos + 1)).take n) with
  | error f => rw [h4] at e; cases e
  | ok d2 =>
  rw [h4] at e
  simp only [] at e
  obtain ⟨hs, hdel⟩ := analyse_same _ _ _ h4
  by_cases h34 : opc = 34
  · subst h34
    rw [row34] at ht
    simp only [Option.some.injEq, Prod.mk.injEq] at ht
    obtain ⟨_, _, rfl, _⟩ := ht
    simp at himpl
  rw [if_neg h34] at e
  simp only [Except.ok.injEq, Prod.mk.injEq] at e
  obtain ⟨_, rfl⟩ := e
  refine ⟨opc, (bc.drop (pos + 1)).take n, ?_⟩
  have hins : d2.instrs = d.instrs := hs.instrs
  by_cases hnx : opc = 25 ∨ opc = 27
  · obtain ⟨q1, q2, q3, q4⟩ := fetchCase_nextCur l false pt d opc pos _ b1 tests hnx h3 hlf
    refine ⟨⟨cur.idx + 1, cur.len, cur.dels⟩, by simp only [hins], ?_, ?_⟩
    · unfold curStep
      simp only []
      rw [if_pos hnx, if_pos (by rw [hc.idx, hc.len]; omega)]
    · exact ⟨⟨by simp only [hs.oi, q1, hc.idx], by simp only [hs.ol, q2, hc.len], by simp only [hs.oi, q1]; omega,
        by simp only [hs.ol, q2]; exact hc.hi, fun hd => hs.del (hc.dels hd)⟩, hs.ctxt⟩
  · by_cases hin : opc = 31
    · subst hin
      obtain ⟨q1, q2, q3, q4⟩ := fetchCase_insertCur l false pt d pos _ b1 tests h3 hlf
      have hoi : 0 ≤ b1.outIndex := by
        rw [q1]; have := hc.lo; split <;> omega
      have hnw : (d.outLength + 1) % 65536 = d.outLength + 1 := by
        have := hc.hi
        by_cases hw : d.outLength + 1 < 65536
        · exact Nat.mod_eq_of_lt hw
        · have h0 : d.outLength + 1 = 65536 := by omega
          rw [q2, h0] at q4
          simp at q4
          omega
      refine ⟨⟨if cur.idx < 0 then cur.idx + 1 else cur.idx, cur.len + 1, cur.dels⟩, by simp only [hins], ?_, ?_⟩
      · simp [curStep]
      · exact ⟨⟨by simp only [hs.oi, q1, hc.idx], by simp only [hs.ol, q2, hnw, hc.len]; omega, by simp only [hs.oi]; exact q3,
          by simp only [hs.ol, q2]; exact Nat.mod_lt _ (by omega), fun hd => hs.del (hc.dels hd)⟩, hs.ctxt⟩
    · by_cases hde : opc = 32
      · subst hde
        obtain ⟨q1, q2, q3, q4⟩ := fetchCase_deleteCur l false pt d pos _ b1 tests h3 hlf
        have hnw : (d.outLength + 65535) % 65536 = d.outLength - 1 := by
          have := hc.hi
          have hpos : 1 ≤ d.outLength := by omega
          omega
        refine ⟨⟨cur.idx - 1, cur.len - 1, true⟩, by simp only [hins], ?_, ?_⟩
        · simp [curStep]
        · exact ⟨⟨by simp only [hs.oi, q1, hc.idx], by simp only [hs.ol, q2, hnw, hc.len]; omega, by simp only [hs.oi, q1]; omega,
            by simp only [hs.ol, q2]; exact Nat.mod_lt _ (by omega), fun _ => hdel rfl⟩, hs.ctxt⟩
      · obtain ⟨q1, q2⟩ := fetchCase_book l false pt d opc pos _ b1 tests h3 ⟨by omega, by omega, hin, hde⟩
        have hinv : CurInv { d2 with count := d2.count + 1, dataSize := d2.dataSize + n, instrs := (opc, (bc.drop (pos + 1)).take n) :: d2.instrs } cur :=
          ⟨by simp only [hs.oi, q1, hc.idx], by simp only [hs.ol, q2, hc.len], by simp only [hs.oi, q1]; exact hc.lo,
            by simp only [hs.ol, q2]; exact hc.hi, fun hd => hs.del (hc.dels hd)⟩
        refine ⟨cur, by simp only [hins], ?_, hinv, hs.ctxt⟩
        unfold curStep
        simp only []
        rw [if_neg hnx, if_neg hin, if_neg hde]
        by_cases hcx : opc = 33 ∨ opc = 59 ∨ opc = 56 ∨ opc = 35 ∨ opc = 36 ∨ opc = 37 ∨ opc = 38 ∨ opc = 28 ∨ opc = 29
        · obtain ⟨c1, c2⟩ := fetchCase_context l false pt d opc pos _ b1 tests hcx h3 hlf
          rw [if_pos hcx, if_pos (by rw [hc.idx, hc.len]; exact ⟨c1, c2⟩)]
        · rw [if_neg hcx]

theorem curRun_snoc : ∀ (is : List Instr) (c : Cur) (i : Instr),
    curRun c (is ++ [i]) = (match curRun c is with | some c' => curStep c' i | none => none) := by
  intro is
  induction is with
  | nil =>
    intro c i
    simp only [List.nil_append, curRun]
    cases curStep c i <;> rfl
  | cons j rest ih =>
    intro c i
    simp only [List.cons_append, curRun]
    cases curStep c j with
    | none => rfl
    | some c1 => exact ih c1 i

theorem curRun_append : ∀ (xs ys : List Instr) (c : Cur),
    curRun c (xs ++ ys) = (match curRun c xs with | some c' => curRun c' ys | none => none) := by
  intro xs
  induction xs with
  | nil => intro ys c; simp [curRun]
  | cons j rest ih =>
    intro ys c
    simp only [List.cons_append, curRun]
    cases curStep c j with
    | none => rfl
    | some c1 => exact ih ys c1

/-- a `TEMP_COPY` anywhere in the code changes nothing for the cursor tests -/
theorem curRun_insertAt (is : List Instr) (p : Nat) (c : Cur) : curRun c (insertAt is p) = curRun c is := by
  unfold insertAt
  rw [curRun_append]
  conv => rhs; rw [← List.take_append_drop p is, curRun_append]
  cases curRun c (is.take p) with
  | none => rfl
  | some c' =>
    simp only [curRun]
    have : curStep c' (67, []) = some c' := by simp [curStep]
    rw [this]

theorem curRun_foldl_insertAt (ts : List Nat) : ∀ (is : List Instr) (c : Cur), curRun c (ts.foldl insertAt is) = curRun c is := by
  induction ts with
  | nil => intro is c; rfl
  | cons t rest ih => intro is c; simp only [List.foldl_cons]; rw [ih, curRun_insertAt]

/-- **`decoder::load` on action code**: the loop keeps the loader's bookkeeping and the cursor tests in step -/
theorem loop_cur (l : Limits) (pt : Nat) (bc : List Nat) (c0 : Cur) : ∀ (fuel pos : Nat) (d : Dec) (cur : Cur),
    CurInv d cur → d.ctxt = none → curRun c0 d.instrs.reverse = some cur →
    ∀ {dfin : Dec}, loop l false pt bc fuel pos d = .ok (.ok dfin) →
      ∃ curf, curRun c0 dfin.instrs.reverse = some curf ∧ CurInv dfin curf := by
  intro fuel
  induction fuel with
  | zero => intro pos d cur _ _ _ dfin e; unfold loop at e; cases e
  | succ f ih =>
    intro pos d cur hc hctxt hrun dfin e
    unfold loop at e
    split at e
    · rw [hctxt] at e
      simp only [Except.ok.injEq] at e
      subst e
      exact ⟨cur, hrun, hc⟩
    · cases hs : stepOp l false pt bc pos d with
      | error f => rw [hs] at e; cases e
      | ok r =>
        rw [hs] at e
        cases r with
        | error s => cases e
        | ok pd =>
          obtain ⟨pos', d'⟩ := pd
          simp only [] at e
          obtain ⟨opc, ps, cur', hi, hst, hc', hcx⟩ := stepOp_cur l pt bc pos d hs hc
          refine ih pos' d' cur' hc' (by rw [hcx]; exact hctxt) ?_ e
          rw [hi, List.reverse_cons, curRun_snoc, hrun]
          exact hst

/-- **What `Machine::Code`'s loading constructor accepts as action code passes the cursor tests** the null-cursor theorems assume,
from `(_out_index, _out_length) = (pre_context, rule_length)`; and it is flagged `deletes` whenever those tests have seen a `DELETE`. -/
theorem accepted_action_passes_cursor_tests (l : Limits) (pt : Nat) (bc : List Nat) (p : Loaded) (hrl : l.ruleLength < 65536)
    (h : load l false pt bc = .ok (.ok (some p))) :
    ∃ cur', curRun ⟨l.preContext, l.ruleLength, false⟩ p.instrs = some cur' ∧ (cur'.dels = true → p.delete = true) := by
  unfold load at h
  simp only [bind, Except.bind, pure, Except.pure] at h
  cases hl : loop l false pt bc (2 * bc.length + 2) 0 { outIndex := if false = true then 0 else l.preContext, outLength := if false = true then 1 else l.ruleLength, curEnd := bc.length } with
  | error f => rw [hl] at h; cases h
  | ok r =>
    rw [hl] at h
    cases r with
    | error s => cases h
    | ok d =>
      simp only [] at h
      have hinv0 : CurInv { outIndex := if false = true then 0 else l.preContext, outLength := if false = true then 1 else l.ruleLength, curEnd := bc.length }
          (⟨l.preContext, l.ruleLength, false⟩ : Cur) :=
        ⟨rfl, rfl, by show (-1 : Int) ≤ (l.preContext : Int); omega, hrl, fun hh => by cases hh⟩
      obtain ⟨curf, hrun, hcf⟩ := loop_cur l pt bc ⟨l.preContext, l.ruleLength, false⟩ _ 0 _ _ hinv0 rfl rfl hl
      split at h
      · cases h
      · split at h
        · cases h
        · split at h
          · cases h
          · simp only [Except.ok.injEq, Option.some.injEq] at h
            subst h
            refine ⟨curf, ?_, fun hd => ?_⟩
            · simp only [Bool.false_eq_true, if_false]
              rw [curRun_foldl_insertAt]; exact hrun
            · simp only [Bool.or_eq_true]
              exact .inl (hcf.dels hd)

/-! ## the loader and the pipeline model cut the bytes into the same instructions -/

/-- what `stepOp` does to the position and the instruction list of an action: it cuts off the opcode byte and the operand bytes the opcode
table gives it -/
theorem stepOp_cut (l : Limits) (pt : Nat) (bc : List Nat) (pos : Nat) (d : Dec) {pos' : Nat} {d' : Dec}
    (e : stepOp l false pt bc pos d = .ok (.ok (pos', d'))) :
    ∃ opc nm psz ia ic n, bc[pos]? = some opc ∧ opcodeTable[opc]? = some (nm, psz, ia, ic) ∧ paramCount bc pos psz = .ok n ∧ pos + n < d.curEnd ∧
      pos' = pos + 1 + n ∧ d'.instrs = (opc, (bc.drop (pos + 1)).take n) :: d.instrs ∧ d'.curEnd = d.curEnd ∧ d'.ctxt = d.ctxt := by
  unfold stepOp at e
  simp only [bind, Except.bind, pure, Except.pure] at e
  cases h1 : byteAt bc pos with
  | error f => rw [h1] at e; cases e
  | ok opc =>
  rw [h1] at e
  simp only [] at e
  by_cases h67 : opc ≥ 67
  · rw [if_pos h67] at e; cases e
  rw [if_neg h67] at e
  cases ht : opcodeTable[opc]? with
  | none => rw [ht] at e; cases e
  | some row =>
  obtain ⟨nm, psz, implA, implC⟩ := row
  rw [ht] at e
  simp only [] at e
  by_cases himpl : (!(if false = true then implC else implA)) = true
  · rw [if_pos himpl] at e; cases e
  rw [if_neg himpl] at e
  by_cases hva : psz = 255 ∧ pos + 1 ≥ d.curEnd
  · rw [if_pos hva] at e; cases e
  rw [if_neg hva] at e
  cases h2 : paramCount bc pos psz with
  | error f => rw [h2] at e; cases e
  | ok n =>
  rw [h2] at e
  simp only [] at e
  by_cases hex : pos + n ≥ d.curEnd
  · rw [if_pos hex] at e; cases e
  rw [if_neg hex] at e
  cases h3 : fetchCase l false pt d opc pos ((bc.drop (pos + 1)).take n) with
  | error f => rw [h3] at e; cases e
  | ok bt =>
  obtain ⟨b1, tests⟩ := bt
  rw [h3] at e
  simp only [] at e
  cases hlf : lastFail tests with
  | some s0 => rw [hlf] at e; cases e
  | none =>
  rw [hlf] at e
  simp only [] at e
  cases h4 : analyse { d with outIndex := b1.outIndex, outLength := b1.outLength, stackDepth := b1.stackDepth } opc ((bc.drop (pos + 1)).take n) with
  | error f => rw [h4] at e; cases e
  | ok d2 =>
  rw [h4] at e
  simp only [] at e
  obtain ⟨hs, _⟩ := analyse_same _ _ _ h4
  have hkeep : d2.curEnd = d.curEnd := hs.curEnd
  by_cases h34 : opc = 34
  · subst h34
    rw [row34] at ht
    simp only [Option.some.injEq, Prod.mk.injEq] at ht
    obtain ⟨_, _, rfl, _⟩ := ht
    simp at himpl
  rw [if_neg h34] at e
  simp only [Except.ok.injEq, Prod.mk.injEq] at e
  obtain ⟨rfl, rfl⟩ := e
  have hb : bc[pos]? = some opc := by
    unfold byteAt at h1
    cases hq : bc[pos]? with
    | none => rw [hq] at h1; cases h1
    | some x => rw [hq] at h1; cases h1; rfl
  exact ⟨opc, nm, psz, implA, implC, n, hb, ht, h2, by omega, rfl, by simp only [hs.instrs], hkeep, hs.ctxt⟩

theorem decode_nil (f : Nat) : Action.decode f [] = some [] := by cases f <;> rfl

/-- the loader's loop over an action and the pipeline model's `decode` cut the same bytes into the same instructions -/
theorem loop_decode (l : Limits) (pt : Nat) (bc : List Nat) : ∀ (fuel pos : Nat) (d : Dec), d.ctxt = none → d.curEnd = bc.length →
    ∀ {dfin : Dec}, loop l false pt bc fuel pos d = .ok (.ok dfin) → ∀ f2, bc.length - pos + 1 ≤ f2 →
      ∃ tail, Action.decode f2 (bc.drop pos) = some tail ∧ dfin.instrs.reverse = d.instrs.reverse ++ tail := by
  intro fuel
  induction fuel with
  | zero => intro pos d _ _ dfin e; unfold loop at e; cases e
  | succ f ih =>
    intro pos d hctxt hend dfin e f2 hf2
    unfold loop at e
    split at e
    · rename_i hge
      rw [hctxt] at e
      simp only [Except.ok.injEq] at e
      subst e
      rw [List.drop_eq_nil_of_le (by omega), decode_nil]
      exact ⟨[], rfl, by simp⟩
    · rename_i hlt
      cases hs : stepOp l false pt bc pos d with
      | error ff => rw [hs] at e; cases e
      | ok r =>
        rw [hs] at e
        cases r with
        | error s => cases e
        | ok pd =>
          obtain ⟨pos', d'⟩ := pd
          simp only [] at e
          obtain ⟨opc, nm, psz, ia, ic, n, hb, ht, hpc, hn, hpos', hins, hce, hcx⟩ := stepOp_cut l pt bc pos d hs
          have hposlt : pos < bc.length := by
            have := List.getElem?_eq_some_iff.mp hb; exact this.1
          have hdrop : bc.drop pos = opc :: bc.drop (pos + 1) := by
            rw [List.drop_eq_getElem_cons hposlt]
            have := (List.getElem?_eq_some_iff.mp hb).2
            rw [this]
          cases f2 with
          | zero => omega
          | succ g =>
            obtain ⟨tail, htail, hfin⟩ := ih pos' d' (by rw [hcx]; exact hctxt) (by rw [hce]; exact hend) e g (by omega)
            have hn' : (if psz = 255 then (bc.drop (pos + 1)).headD 0 + 1 else psz) = n := by
              unfold paramCount at hpc
              by_cases h255 : psz = 255
              · rw [if_pos h255] at hpc ⊢
                cases hq : byteAt bc (pos + 1) with
                | error ee => rw [hq] at hpc; cases hpc
                | ok k =>
                  rw [hq] at hpc
                  simp only [Except.ok.injEq] at hpc
                  unfold byteAt at hq
                  cases hk : bc[pos + 1]? with
                  | none => rw [hk] at hq; cases hq
                  | some x =>
                    rw [hk] at hq
                    simp only [Except.ok.injEq] at hq
                    have hlt1 : pos + 1 < bc.length := (List.getElem?_eq_some_iff.mp hk).1
                    rw [List.drop_eq_getElem_cons hlt1]
                    have := (List.getElem?_eq_some_iff.mp hk).2
                    simp only [List.headD_cons]
                    omega
              · rw [if_neg h255] at hpc ⊢
                simp only [Except.ok.injEq] at hpc
                exact hpc
            refine ⟨(opc, (bc.drop (pos + 1)).take n) :: tail, ?_, ?_⟩
            · rw [hdrop]
              unfold Action.decode
              simp only [ht]
              rw [hn']
              rw [if_neg (by simp only [List.length_drop]; omega)]
              rw [List.drop_drop, show pos + 1 + n = pos' by omega, htail]
            · rw [hfin, hins]
              simp

/-! ## from the loader's acceptance to `codeOK` -/

theorem analyseOp_deletes (a : Action.An) (i : Instr) : (Action.analyseOp a i).deletes = (a.deletes || decide (i.1 = 32)) := by
  obtain ⟨opc, ps⟩ := i
  unfold Action.analyseOp
  simp only []
  split <;> (repeat' split) <;> first | rfl | simp_all

theorem analyse_fold_deletes : ∀ (is : List Instr) (a : Action.An), (a.deletes = true ∨ ∃ i ∈ is, i.1 = 32) → (is.foldl Action.analyseOp a).deletes = true := by
  intro is
  induction is with
  | nil => intro a h; rcases h with h | ⟨i, hi, _⟩; exact h; cases hi
  | cons j rest ih =>
    intro a h
    simp only [List.foldl_cons]
    apply ih
    rw [analyseOp_deletes]
    rcases h with h | ⟨i, hi, h32⟩
    · left; simp [h]
    · rcases List.mem_cons.mp hi with rfl | hi
      · left; simp [h32]
      · right; exact ⟨i, hi, h32⟩

theorem curStep_dels_src {cur cur' : Cur} {i : Instr} (h : curStep cur i = some cur') (hd : cur'.dels = true) : cur.dels = true ∨ i.1 = 32 := by
  unfold curStep at h
  simp only [] at h
  split at h
  · split at h
    · cases h; exact .inl hd
    · cases h
  · split at h
    · cases h; exact .inl hd
    · split at h
      · rename_i h32; exact .inr h32
      · split at h
        · split at h
          · cases h; exact .inl hd
          · cases h
        · cases h; exact .inl hd

theorem curRun_dels_src : ∀ (is : List Instr) {cur cur' : Cur}, curRun cur is = some cur' → cur'.dels = true → cur.dels = true ∨ ∃ i ∈ is, i.1 = 32 := by
  intro is
  induction is with
  | nil => intro cur cur' h hd; unfold curRun at h; cases h; exact .inl hd
  | cons j rest ih =>
    intro cur cur' h hd
    unfold curRun at h
    split at h
    · rename_i c1 h1
      rcases ih h hd with h2 | ⟨i, hi, h32⟩
      · rcases curStep_dels_src h1 h2 with h3 | h3
        · exact .inl h3
        · exact .inr ⟨j, List.mem_cons_self, h3⟩
      · exact .inr ⟨i, List.mem_cons_of_mem _ hi, h32⟩
    · cases h

theorem curRun_actionTemps (is : List Instr) (c : Cur) : curRun c (Action.insertTemps is).1 = curRun c is := by
  unfold Action.insertTemps
  simp only []
  generalize (Action.tempCopies is).1 = ps
  have : ∀ (ps : List Nat) (acc : List Instr), curRun c (ps.foldl (fun acc p => acc.take p ++ [(67, [])] ++ acc.drop p) acc) = curRun c acc := by
    intro ps
    induction ps with
    | nil => intro acc; rfl
    | cons p rest ih =>
      intro acc
      simp only [List.foldl_cons]
      rw [ih]
      have := curRun_insertAt acc p c
      unfold insertAt at this
      simpa using this
  exact this ps is

/-- **What the loader accepts as a rule's action is `codeOK`** – the hypothesis of the null-cursor, slot-map and operand theorems
(`Proofs/CursorShape.lean`), as the pipeline model states it: the bytes decode (`mkCode`), the decoded code passes the cursor tests from
`(pre_context, rule_length)`, and it is flagged `deletes` whenever a `DELETE` was read. -/
theorem accepted_action_is_codeOK' (l : Limits) (pt : Nat) (bc : List Nat) (op : Option Loaded) (hrl : l.ruleLength < 65536)
    (h : load l false pt bc = .ok (.ok op)) : Pass.codeOK ⟨l.preContext, l.ruleLength, false⟩ bc true = true := by
  unfold load at h
  simp only [bind, Except.bind, pure, Except.pure] at h
  cases hl : loop l false pt bc (2 * bc.length + 2) 0 { outIndex := if false = true then 0 else l.preContext, outLength := if false = true then 1 else l.ruleLength, curEnd := bc.length } with
  | error f => rw [hl] at h; cases h
  | ok r =>
    rw [hl] at h
    cases r with
    | error s => cases h
    | ok d =>
      have hinv0 : CurInv { outIndex := if false = true then 0 else l.preContext, outLength := if false = true then 1 else l.ruleLength, curEnd := bc.length }
          (⟨l.preContext, l.ruleLength, false⟩ : Cur) :=
        ⟨rfl, rfl, by show (-1 : Int) ≤ (l.preContext : Int); omega, hrl, fun hh => by cases hh⟩
      obtain ⟨curf, hrun, hcf⟩ := loop_cur l pt bc ⟨l.preContext, l.ruleLength, false⟩ _ 0 _ _ hinv0 rfl rfl hl
      obtain ⟨tail, hdec, htail⟩ := loop_decode l pt bc _ 0 _ rfl rfl hl (bc.length + 1) (by omega)
      simp only [List.drop_zero, List.reverse_nil, List.nil_append] at hdec htail
      unfold Pass.codeOK Pass.mkCode
      rw [hdec]
      simp only [if_true]
      rw [curRun_actionTemps, ← htail, hrun]
      simp only [Bool.or_eq_true, Bool.not_eq_true']
      cases hdl : curf.dels with
      | false => exact .inl rfl
      | true =>
        right
        rcases curRun_dels_src _ hrun hdl with h0 | hex
        · cases h0
        · unfold Action.insertTemps Action.tempCopies
          simp only []
          rw [analyse_fold_deletes d.instrs.reverse {} (.inr hex)]
          rfl

theorem accepted_action_is_codeOK (l : Limits) (pt : Nat) (bc : List Nat) (p : Loaded) (hrl : l.ruleLength < 65536)
    (h : load l false pt bc = .ok (.ok (some p))) : Pass.codeOK ⟨l.preContext, l.ruleLength, false⟩ bc true = true :=
  accepted_action_is_codeOK' l pt bc (some p) hrl h

end GrVerif.CodeLoad

import GrVerif.Proofs.Forest6
import GrVerif.Proofs.PassAssoc
/-!
# The attachment forest through rule actions, garbage collection and the pass engine
-/
set_option linter.unusedSimpArgs false
set_option linter.unusedVariables false
namespace GrVerif.Action
open GrVerif.Vm GrVerif.Seg GrVerif.Gen.Vm

theorem freeSlot_size (s : Seg) (a : Nat) : (s.freeSlot a).slots.size = s.slots.size := by
  unfold Seg.freeSlot Seg.recycle
  simp only []
  have h1 : (s.dropEnds a).slots.size = s.slots.size := by unfold Seg.dropEnds; simp only []; split <;> split <;> rfl
  have h2 : ((s.dropEnds a).unchild a).slots.size = (s.dropEnds a).slots.size := by
    unfold Seg.unchild; split
    · exact (removeChild_same _ _ _).size
    · rfl
  show ((detachChildren ((s.dropEnds a).unchild a) a _).upd a _).slots.size = _
  rw [upd_size, (detachChildren_same _ _ _).size, h2, h1]

/-- freeing whatever a cell holds – a real (deleted) slot or a temporary copy – keeps the forest -/
theorem freeSlot_forest {s : Seg} (hF : Forest s) {a : Nat} (has : a < s.slots.size) : Forest (s.freeSlot a) := by
  by_cases hr : Real s a
  · exact freeSlot_forest_real hF hr has
  · exact freeSlot_forest_copy hF hr

theorem gcStep_forest (acc : Ctx × Option Nat) (k : Nat) (hF : Forest acc.1.seg)
    (hc : ∀ k x, acc.1.smap.getD k none = some x → x < acc.1.seg.slots.size) :
    Forest (gcStep acc k).1.seg ∧ (gcStep acc k).1.smap = acc.1.smap ∧ (gcStep acc k).1.seg.slots.size = acc.1.seg.slots.size := by
  unfold gcStep
  split
  · rename_i sl hsl
    simp only []
    split
    · exact ⟨freeSlot_forest hF (hc _ sl hsl), rfl, freeSlot_size _ _⟩
    · exact ⟨hF, rfl, rfl⟩
  · exact ⟨hF, rfl, rfl⟩

theorem gc_forest (c : Ctx) (a : Option Nat) (hF : Forest c.seg) (hc : ∀ k x, c.smap.getD k none = some x → x < c.seg.slots.size) :
    Forest (collectGarbage c a).1.seg := by
  rw [collectGarbage_fst]; unfold gcCells
  generalize (List.range (c.size - 1)) = ks
  have : ∀ (ks : List Nat) (acc : Ctx × Option Nat), Forest acc.1.seg →
      (∀ k x, acc.1.smap.getD k none = some x → x < acc.1.seg.slots.size) → Forest (ks.foldl gcStep acc).1.seg := by
    intro ks
    induction ks with
    | nil => intro acc h _; exact h
    | cons k rest ih =>
      intro acc h hc'
      obtain ⟨g1, g2, g3⟩ := gcStep_forest acc k h hc'
      exact ih _ g1 (fun k' x hx => by rw [g2] at hx; rw [g3]; exact hc' k' x hx)
  exact this ks (c, a) hF hc

theorem finishAction_forest (s : St) (dl : Bool) (hps : PS s.ctx) (h : FC s.ctx)
    {r : Int} {st : Status} {so : Option Nat} {c : Ctx} (e : finishAction s dl = .ok (r, st, so, c)) : Forest c.seg := by
  unfold finishAction at e
  simp only [] at e
  split at e
  · cases e
  · split at e
    · cases e
    · split at e
      · cases e; exact h.1
      · split at e
        · cases e
          refine gc_forest s.ctx.storeIs _ (show Forest s.ctx.storeIs.seg from h.1) ?_
          -- the cells after `*map = is`
          intro k x hx
          show x < s.ctx.seg.slots.size
          unfold Ctx.storeIs Ctx.setCell at hx
          simp only [] at hx
          rw [Array.getD_eq_getD_getElem?, Array.getElem?_setIfInBounds] at hx
          obtain ⟨l, hj⟩ := hps
          split at hx
          · split at hx
            · simp only [Option.getD_some] at hx
              exact (hj.is_facts hx).1
            · simp at hx
          · exact (h.2 k x (by rw [Array.getD_eq_getD_getElem?]; exact hx)).1
        · cases e; exact h.1

/-- **C04, rule actions.** If before a rule's action the glyph stream is well formed, the attachment pointers form a forest
and the slot map holds slots of the segment, then after the action – any instruction list, any outcome – and the garbage
collection that follows it the attachment pointers form a forest again. -/
theorem doAction_forest {is : List Instr} {dl : Bool} {mr : Nat} {data : List Nat} {ctx : Ctx} {l : List Nat}
    (hl : Linked ctx.seg l) (hc : Clean ctx.seg l) (hh : HwOK ctx.highwater l)
    (hcell : IsOK ctx.seg l (ctx.smap.getD ((ctx.context : Int) + 1).toNat none)) (ha : Alloc ctx.seg l)
    (hF : Forest ctx.seg) (hcells : CellsOK ctx)
    {r : Int} {st : Status} {so : Option Nat} {c : Ctx}
    (e : doAction is dl mr data ctx = .ok (r, st, so, c)) : Forest c.seg := by
  unfold doAction at e
  simp only [] at e
  split at e
  · cases e; exact hF
  · have h0 : PF (enterCtx (startCtx ctx)) := ⟨⟨l, ⟨hl, hc, hcell, hh, ha⟩⟩, hF, hcells⟩
    have hr := runLoop_preserves PF ops_PF is { vm := initVm data, ctx := enterCtx (startCtx ctx) } h0
    split at e
    · cases e
    · rename_i s heq
      rw [heq] at hr
      exact finishAction_forest s dl hr.1 hr.2 e

end GrVerif.Action

namespace GrVerif.Pass
open GrVerif.Vm GrVerif.Seg GrVerif.Action GrVerif.Gen.Vm

/-- a slot map whose cells are cursor positions satisfies the cell invariant -/
theorem cellsOK_of_isok {c : Ctx} {l : List Nat} (hl : Linked c.seg l) (hc : Clean c.seg l)
    (h : ∀ k, IsOK c.seg l (c.smap.getD k none)) : CellsOK c := by
  intro k x hx
  have hk := h k
  rw [hx] at hk
  rcases hk with h0 | ⟨i, h1, h2⟩ | ⟨d, h1, h2, h3, h4, h5, h6⟩
  · cases h0
  · cases h1
    exact ⟨hl.inb x h2, fun hh => hc.freeOut x hh h2, .inl (hc.live x h2).2⟩
  · cases h1
    exact ⟨deleted_inb h3, fun hh => (by have := (hc.freeClean x hh).2.1; rw [h3] at this; cases this), .inl h6⟩

theorem findNDoRule_forest (p : PassT) (c : Ctx) (slot : Nat) {l : List Nat} (h : JO c l (some slot)) (hF : Forest c.seg)
    {c' : Ctx} {s' : Option Nat} {st : Status} (e : findNDoRule p c slot = .ok (c', s', st)) : Forest c'.seg := by
  obtain ⟨f1, f2, f3⟩ := runFSM_spec p c slot (JO.linked h) (JO.isok h)
  unfold findNDoRule at e
  revert f1 f2 f3 e
  generalize runFSM p c slot = r
  obtain ⟨ok, c1, rules⟩ := r
  intro e f1 f2 f3
  simp only [] at f1 f2 f3 e
  have h1 : JO c1 l (some slot) := JO.congr h f1 f2
  have hF1 : Forest c1.seg := by rw [f1]; exact hF
  split at e
  · cases e; exact hF1
  · split at e
    · cases e
    · split at e
      · cases e; exact hF1
      · cases e; exact hF1
    · split at e
      · cases e; exact hF1
      · split at e
        · cases e
        · split at e
          · cases e
          · rename_i ret status slotOut c2 hact
            have hcell : IsOK c1.seg l (c1.smap.getD ((c1.context : Int) + 1).toNat none) := by rw [f1]; exact f3 _
            have hcells : CellsOK c1 := cellsOK_of_isok (JO.linked h1) (JO.clean h1) (fun k => by rw [f1]; exact f3 k)
            have hF2 := doAction_forest (JO.linked h1) (JO.clean h1) (JO.hw h1) hcell (JO.alloc h1) hF1 hcells hact
            split at e
            · cases e; exact hF2
            · have a1 := adjustSlot_seg c2 ret slotOut
              revert a1 e
              generalize adjustSlot c2 ret slotOut = ar
              obtain ⟨c3, so3⟩ := ar
              intro e a1
              simp only [] at a1 e
              cases e
              rw [a1]; exact hF2

theorem ruleLoop_forest (p : PassT) : ∀ (fuel : Nat) (c : Ctx) (s : Nat) (lc : Int) (it : Nat) {l : List Nat}, JO c l (some s) →
    Forest c.seg → ∀ {c' : Ctx} {n : Nat}, ruleLoop p fuel c s lc it = .ok (some c', n) → Forest c'.seg := by
  intro fuel
  induction fuel with
  | zero => intro c s lc it l _ _ c' n e; unfold ruleLoop at e; cases e
  | succ f ih =>
    intro c s lc it l h hF c' n e
    unfold ruleLoop at e
    split at e
    · cases e
    · rename_i c1 s1 st hf
      obtain ⟨l1, j1⟩ := findNDoRule_spec p c s h hf
      have hF1 := findNDoRule_forest p c s h hF hf
      split at e
      · cases e
      · split at e
        · cases e; exact hF1
        · rename_i s2
          simp only [] at e
          have hs3ok : ∀ (q : Prop) [Decidable q] (s3 : Nat), (if q then c1.highwater else some s2) = some s3 →
              IsOK c1.seg l1 (some s3) := by
            intro q _ s3 hs3
            split at hs3
            · exact isok_of_mem (JO.hw j1 s3 hs3)
            · cases hs3; exact JO.isok j1
          by_cases hit : (some s2 = c1.highwater ∨ c1.highpassed = true)
          · simp only [hit, if_true, true_or] at e
            split at e
            · rename_i s3 hs3
              first
                | exact ih _ s3 _ _ (restartAt_JO j1 (hs3ok _ s3 hs3)) (show Forest (c1.restartAt s3).seg from hF1) e
                | exact ih _ s3 _ _ (restartAt_JO j1 (isok_of_mem (JO.hw j1 s3 hs3))) (show Forest (c1.restartAt s3).seg from hF1) e
            · cases e; exact hF1
          · simp only [hit, if_false, false_or] at e
            split at e
            · split at e
              · rename_i s3 hs3
                first
                  | exact ih _ s3 _ _ (restartAt_JO j1 (hs3ok _ s3 hs3)) (show Forest (c1.restartAt s3).seg from hF1) e
                  | exact ih _ s3 _ _ (restartAt_JO j1 (isok_of_mem (JO.hw j1 s3 hs3))) (show Forest (c1.restartAt s3).seg from hF1) e
              · cases e; exact hF1
            · exact ih _ s2 _ _ j1 hF1 e

theorem runPass_forest (p : PassT) (c : Ctx) (fuel : Nat) (h : WF c.seg) (hF : Forest c.seg) {c' : Ctx}
    (e : runPass p c fuel = .ok (some c')) : Forest c'.seg := by
  obtain ⟨l, hl, hc, hal⟩ := h
  unfold runPass at e
  split at e
  · cases e; exact hF
  · rename_i s0 hs0
    split at e
    · cases e; exact hF
    · simp only [] at e
      split at e
      · cases e
      · cases e
      · rename_i c2 it hr
        cases e
        have hs0l : s0 ∈ l := head?_mem (by rw [← hl.first]; exact hs0)
        have j0 : JO (c.restartAt s0) l (some s0) :=
          JO.mk' hl hc (isok_of_mem hs0l) (fun x hx => next_mem hl hs0l x hx) hal
        rw [noteLoop_seg]
        exact ruleLoop_forest p _ _ s0 _ 0 j0 (show Forest (c.restartAt s0).seg from hF) hr

/-- reversing the stream does not touch the attachment tree -/
theorem reverse_treeSame (s : Seg) (mark : Nat → Bool) : TreeSame s (s.reverseSlots mark) := by
  have hs := reverseSlots_same s mark
  refine ⟨hs.free, fun j => ?_⟩
  have := hs.slot j
  unfold LinkOnly at this
  rw [this]
  exact ⟨rfl, rfl, rfl, rfl⟩

theorem runPassDir_forest (p : PassT) (c : Ctx) (fuel : Nat) (ar : Bool) (h : WF c.seg) (hF : Forest c.seg) {c' : Ctx}
    (e : runPassDir p c fuel ar = .ok (some c')) : Forest c'.seg := by
  unfold runPassDir at e
  split at e
  · cases e; exact hF
  · simp only [] at e
    split at e
    · cases e
    · split at e
      · cases e
      · split at e
        · cases e; exact hF
        · split at e
          · exact runPass_forest p (c.withSeg (c.seg.reverseSlots (isMark c c.seg))) fuel (reverse_wf h _) (forest_congr (reverse_treeSame _ _) hF) e
          · exact runPass_forest p c fuel h hF e

/-- a glyph change keeps the forest -/
theorem forest_setGlyph {s : Seg} (h : Forest s) (gadv : Array Int) (i g : Nat) : Forest (s.upd i fun sl => sl.setGlyph gadv g) :=
  forest_congr (TreeSame.upd s i _ (fun _ => ⟨rfl, rfl, rfl, rfl⟩)) h

theorem bidiStep_forest {c : Ctx} (hF : Forest c.seg) (aMirror : Nat) : Forest (bidiStep c aMirror).seg :=
  bidiStep_ind Forest aMirror (fun s mark hs => forest_congr (reverse_treeSame _ _) hs) (fun gadv s i g hs => forest_setGlyph hs gadv i g) c hF

theorem startMirror_forest (font : Font) {c : Ctx} (hF : Forest c.seg) : Forest (startMirror font c).seg := by
  unfold startMirror
  split
  · exact doMirror_ind Forest c font.aMirror (fun s i g hs => forest_setGlyph hs _ i g) hF
  · exact hF

theorem runPhase_forest (passes : Array PassT) (bPass : Nat) (c : Ctx) (lo hi : Nat) (dobidi : Bool) (fuel : Nat) (h : WF c.seg) (hF : Forest c.seg) {aMirror : Nat} {c' : Ctx}
    (e : runPhase passes bPass c lo hi dobidi fuel aMirror = .ok (some c')) : Forest c'.seg :=
  (runPhase_ind (fun x => WF x.seg ∧ Forest x.seg) passes bPass lo hi dobidi fuel aMirror
    (fun ar k _ _ c1 c2 h1 e1 => ⟨runPassDir_spec _ c1 fuel ar h1.1 e1, runPassDir_forest _ c1 fuel ar h1.1 h1.2 e1⟩) (fun x l hx => hx)
    (fun x hx => ⟨bidiStep_wf hx.1 aMirror, bidiStep_forest hx.2 aMirror⟩) c ⟨h, hF⟩ e).2

/-! ## `read_text` and `associateChars` -/

/-- no slot is attached to anything -/
def AllIso (s : Seg) : Prop :=
  ∀ j, (s.get j).parent = none ∧ (s.get j).child = none ∧ (s.get j).sibling = none ∧ (s.get j).copied = false

theorem forest_of_allIso {s : Seg} (h : AllIso s) : Forest s := by
  refine ⟨fun i _ => ⟨[], (h i).2.1, List.nodup_nil, fun j hj => (by cases hj), fun j _ hp => (by rw [(h j).1] at hp; cases hp)⟩,
    ⟨fun _ => 0, fun j i _ hp => (by rw [(h j).1] at hp; cases hp)⟩, fun j _ _ => (h j).2.2.1,
    fun j i _ hp => (by rw [(h j).1] at hp; cases hp), fun f _ => ⟨(h f).2.2.2, (h f).2.1, (h f).1⟩⟩

theorem AllIso.upd {s : Seg} (h : AllIso s) (i : Nat) (f : Slot → Slot)
    (hf : ∀ a, (f a).parent = a.parent ∧ ((f a).child = a.child ∨ (f a).child = none) ∧ (f a).sibling = a.sibling ∧ (f a).copied = a.copied) :
    AllIso (s.upd i f) := by
  intro j
  rw [get_upd]
  split
  · have := hf (s.get j); have hj := h j
    refine ⟨by rw [this.1]; exact hj.1, ?_, by rw [this.2.2.1]; exact hj.2.2.1, by rw [this.2.2.2]; exact hj.2.2.2⟩
    rcases this.2.1 with h1 | h1
    · rw [h1]; exact hj.2.1
    · exact h1
  · exact h j

theorem newSlot_allIso {s s' : Seg} {g k : Nat} (h : AllIso s) (e : s.newSlot g = some (k, s')) : AllIso s' := by
  unfold Seg.newSlot at e
  split at e
  · simp only [Option.some.injEq, Prod.mk.injEq] at e
    rw [← e.2]
    exact fun j => (h.upd _ (fun sl => sl.setNext none) (fun _ => ⟨rfl, .inl rfl, rfl, rfl⟩)) j
  · split at e
    · cases e
    · simp only [Option.some.injEq, Prod.mk.injEq] at e
      rw [← e.2]
      intro j
      rw [get_grow']
      exact h j

theorem pushBack_allIso {s : Seg} (h : AllIso s) (a : Nat) : AllIso (s.pushBack a) := by
  unfold Seg.pushBack
  simp only []
  have h1 : AllIso (match s.last with
      | some l => s.upd l fun sl => sl.setNext (some a)
      | none => s) := by
    split
    · exact h.upd _ _ (fun _ => ⟨rfl, .inl rfl, rfl, rfl⟩)
    · exact h
  have h2 : AllIso ((((match s.last with
      | some l => s.upd l fun sl => sl.setNext (some a)
      | none => s)).upd a fun sl => sl.setPrev s.last).setLast (some a)) :=
    fun j => (h1.upd a (fun sl => sl.setPrev s.last) (fun _ => ⟨rfl, .inl rfl, rfl, rfl⟩)) j
  split
  · exact fun j => h2 j
  · exact h2

theorem appendSlot_allIso {s : Seg} (h : AllIso s) (id gid g : Nat) (adv : Int) : AllIso (s.appendSlot id gid g adv) := by
  unfold Seg.appendSlot
  split
  · exact h
  · rename_i a s1 e
    exact pushBack_allIso ((newSlot_allIso h e).upd a (fun sl => sl.initFor id gid adv) (fun _ => ⟨rfl, .inr rfl, rfl, rfl⟩)) a

theorem initSeg_forest (font : Font) (text : List Nat) (dir : Nat := 0) : Forest (initSeg font text dir) := by
  apply forest_of_allIso
  unfold initSeg
  simp only []
  have h0 : AllIso ({ numGlyphs := text.length, numChars := text.length, slots := Array.replicate (text.length + 10) ({} : Slot), free := List.range (text.length + 10), bufSize := Nat.log2 text.length + 1, dir := dir } : Seg) := by
    intro j
    rw [get_replicate_default (text.length + 10) j _ rfl]
    exact ⟨rfl, rfl, rfl, rfl⟩
  have : ∀ (xs : List (Nat × Nat)) (s : Seg), AllIso s →
      AllIso (xs.foldl (fun s (x : Nat × Nat) => s.appendSlot x.2 (font.cmap x.1) 64 (font.gadv.getD (font.cmap x.1) 0)) s) := by
    intro xs
    induction xs with
    | nil => intro s h; exact h
    | cons x rest ih => intro s h; exact ih _ (appendSlot_allIso h _ _ _ _)
  exact this _ _ h0

theorem foldl_upd_forest {α : Type} (ix : α → Nat) (f : α → Slot → Slot)
    (hf : ∀ x a, (f x a).parent = a.parent ∧ (f x a).child = a.child ∧ (f x a).sibling = a.sibling ∧ (f x a).copied = a.copied) :
    ∀ (xs : List α) (s : Seg), Forest s → Forest (xs.foldl (fun s x => s.upd (ix x) (f x)) s) := by
  intro xs
  induction xs with
  | nil => intro s h; exact h
  | cons x rest ih =>
    intro s h
    simp only [List.foldl_cons]
    exact ih _ (forest_congr (TreeSame.upd s (ix x) (f x) (hf x)) h)

theorem reassoc_forest {seg seg' : Seg} {n : Nat} {ci : List Assoc.CI} (h : Forest seg) (e : reassoc seg n = some (seg', ci)) : Forest seg' := by
  unfold reassoc at e
  simp only [] at e
  split at e
  · cases e
  · simp only [Option.some.injEq, Prod.mk.injEq] at e
    rw [← e.1]
    apply foldl_upd_forest (fun (x : Nat × Nat) => x.1) (fun x sl => sl.setIndex x.2) (fun _ _ => ⟨rfl, rfl, rfl, rfl⟩)
    exact foldl_upd_forest (fun (x : Nat × Int × Int) => x.1) (fun x sl => (sl.setBefore x.2.1).setAfter x.2.2)
      (fun _ _ => ⟨rfl, rfl, rfl, rfl⟩) _ _ h

/-- **C04, whole pipeline.** Whatever the font's passes, rules, constraints and action programs, and whatever the text: in
the segment the modelled pipeline returns, the attachment pointers of the slots form a forest. -/
theorem shape_forest (font : Font) (text : List Nat) (fuel : Nat) (dir : Nat) {c : Ctx} {ci : List Assoc.CI}
    (e : shape font text fuel dir = .ok (some (c, ci))) : Forest c.seg := by
  unfold shape at e
  split at e
  · simp only [Except.ok.injEq, Option.some.injEq, Prod.mk.injEq] at e
    rw [← e.1]
    exact forest_of_allIso (fun j => by
      show (({} : Seg).get j).parent = none ∧ _
      rw [get_oob ({} : Seg) j (by show (#[] : Array Slot).size ≤ j; simp)]
      exact ⟨rfl, rfl, rfl, rfl⟩)
  · split at e
    · cases e
    · cases e
    · rename_i c1 h1
      have w1 := runPhase_spec _ _ _ _ _ _ _ (startMirror_wf font (initSeg_wf font text dir)) h1
      have f1 := runPhase_forest _ _ _ _ _ _ _ (startMirror_wf font (initSeg_wf font text dir)) (startMirror_forest font (initSeg_forest font text dir)) h1
      split at e
      · cases e
      · rename_i seg' ci' hre
        have w2 := reassoc_wf w1 hre
        have f2 := reassoc_forest f1 hre
        split at e
        · cases e
        · cases e
        · rename_i c2 h2
          simp only [Except.ok.injEq, Option.some.injEq, Prod.mk.injEq] at e
          rw [← e.1]
          exact runPhase_forest _ _ _ _ _ _ _ w2 f2 h2

end GrVerif.Pass

import GrVerif.Proofs.Forest4
import GrVerif.Proofs.HeapStream3
/-!
# The attachment forest: `newSlot`, `temp_copy`, `put_copy`, `delete_`
-/
set_option linter.unusedSimpArgs false
set_option linter.unusedVariables false
namespace GrVerif.Seg

/-- the tree fields are unchanged and every slot of the new free list was free before or is a blank slot -/
theorem forest_of_newfree {s s' : Seg} (hF : Forest s)
    (hfld : ∀ j, (s'.get j).parent = (s.get j).parent ∧ (s'.get j).child = (s.get j).child ∧
      (s'.get j).sibling = (s.get j).sibling ∧ (s'.get j).copied = (s.get j).copied)
    (hfree : ∀ f ∈ s'.free, f ∈ s.free ∨ s.get f = {}) : Forest s' := by
  have hreal : ∀ j, Real s' j ↔ Real s j := fun j => by unfold Real; rw [(hfld j).2.2.2]
  -- a blank slot is nobody's parent
  have hblank : ∀ i, s.get i = {} → ∀ j, Real s j → (s.get j).parent ≠ some i := fun i hi j hj hjp => by
    have hir : Real s i := by unfold Real; rw [hi]
    obtain ⟨l, hk⟩ := hF.kids i hir
    have := hk.all j hj hjp
    have hc := hk.chain
    rw [hi] at hc
    cases l with
    | nil => cases this
    | cons x r => cases hc.1
  refine ⟨?_, ?_, ?_, ?_, ?_⟩
  · intro i hi
    obtain ⟨l, hk⟩ := hF.kids i ((hreal i).mp hi)
    refine ⟨l, by rw [(hfld i).2.1]; exact sibSeg_congr (fun j _ => (hfld j).2.2.1) hk.chain, hk.nodup, ?_, ?_⟩
    · intro j hj; rw [(hfld j).1]; exact ⟨(hk.mem j hj).1, (hreal j).mpr (hk.mem j hj).2⟩
    · intro j hj hp; rw [(hfld j).1] at hp; exact hk.all j ((hreal j).mp hj) hp
  · obtain ⟨d, hd⟩ := hF.acyc
    exact ⟨d, fun j i hj hp => by rw [(hfld j).1] at hp; exact hd j i ((hreal j).mp hj) hp⟩
  · intro j hj hp
    rw [(hfld j).1] at hp; rw [(hfld j).2.2.1]
    exact hF.root j ((hreal j).mp hj) hp
  · intro j i hj hp
    rw [(hfld j).1] at hp
    have hj' := (hreal j).mp hj
    have := hF.par j i hj' hp
    refine ⟨(hreal i).mpr this.1, fun hh => ?_⟩
    rcases hfree i hh with h1 | h1
    · exact this.2 h1
    · exact hblank i h1 j hj' hp
  · intro f hf
    rcases hfree f hf with h1 | h1
    · obtain ⟨f1, f2, f3⟩ := hF.free f h1
      exact ⟨(hreal f).mpr f1, by rw [(hfld f).2.1]; exact f2, by rw [(hfld f).1]; exact f3⟩
    · refine ⟨(hreal f).mpr (by unfold Real; rw [h1]), by rw [(hfld f).2.1, h1], by rw [(hfld f).1, h1]⟩

/-- what `newSlot` hands out: an isolated real slot that is no longer free; the forest is kept -/
theorem newSlot_forest {s s' : Seg} {g k : Nat} (hF : Forest s) (hnd : s.free.Nodup) (e : s.newSlot g = some (k, s')) :
    Forest s' ∧ Real s' k ∧ (s'.get k).parent = none ∧ (s'.get k).child = none ∧ k ∉ s'.free ∧
    (∀ j, (s'.get j).copied = (s.get j).copied) ∧ (∀ f ∈ s'.free, f ∈ s.free ∨ s.get f = {}) ∧ (k ∈ s.free ∨ s.get k = {}) ∧
    (∀ j, (s'.get j).parent = (s.get j).parent) ∧ (∀ j, (s'.get j).deleted = (s.get j).deleted) := by
  unfold Seg.newSlot at e
  split at e
  · rename_i i rest hfree
    simp only [Option.some.injEq, Prod.mk.injEq] at e
    obtain ⟨e1, e2⟩ := e
    subst e1
    have hmem : i ∈ s.free := by rw [hfree]; exact List.mem_cons_self
    have hnd' : (i :: rest).Nodup := by rw [← hfree]; exact hnd
    obtain ⟨f1, f2, f3⟩ := hF.free i hmem
    have hfld : ∀ j, (s'.get j).parent = (s.get j).parent ∧ (s'.get j).child = (s.get j).child ∧
        (s'.get j).sibling = (s.get j).sibling ∧ (s'.get j).copied = (s.get j).copied := by
      intro j
      rw [← e2]
      show ((s.upd i fun sl => sl.setNext none).get j).parent = _ ∧ ((s.upd i fun sl => sl.setNext none).get j).child = _ ∧
        ((s.upd i fun sl => sl.setNext none).get j).sibling = _ ∧ ((s.upd i fun sl => sl.setNext none).get j).copied = _
      rw [upd_parent_keep, upd_child_keep, upd_sibling_keep, upd_copied_keep]
      · exact ⟨rfl, rfl, rfl, rfl⟩
      all_goals (intro _; rfl)
    have hfr : s'.free = rest := by rw [← e2]
    have hsub : ∀ f ∈ s'.free, f ∈ s.free ∨ s.get f = {} := fun f hf => by
      rw [hfr] at hf; exact .inl (by rw [hfree]; exact List.mem_cons_of_mem _ hf)
    refine ⟨forest_of_newfree hF hfld hsub, by unfold Real; rw [(hfld i).2.2.2]; exact f1, by rw [(hfld i).1]; exact f3,
      by rw [(hfld i).2.1]; exact f2, by rw [hfr]; exact (List.nodup_cons.mp hnd').1, fun j => (hfld j).2.2.2, hsub, .inl hmem,
      fun j => (hfld j).1, fun j => by
        rw [← e2]
        show ((s.upd i fun sl => sl.setNext none).get j).deleted = _
        rw [get_upd]; split <;> rfl⟩
  · rename_i hfree
    split at e
    · cases e
    · simp only [Option.some.injEq, Prod.mk.injEq] at e
      obtain ⟨e1, e2⟩ := e
      have hget : ∀ j, s'.get j = s.get j := fun j => by rw [← e2]; exact get_grow' s _ j _
      have hfld : ∀ j, (s'.get j).parent = (s.get j).parent ∧ (s'.get j).child = (s.get j).child ∧
          (s'.get j).sibling = (s.get j).sibling ∧ (s'.get j).copied = (s.get j).copied := fun j => by
        rw [hget j]; exact ⟨rfl, rfl, rfl, rfl⟩
      have hfr : s'.free = (List.range (max s.bufSize 1 - 1)).map (· + s.slots.size + 1) := by rw [← e2]
      have hsub : ∀ f ∈ s'.free, f ∈ s.free ∨ s.get f = {} := fun f hf => by
        rw [hfr] at hf
        obtain ⟨x, _, rfl⟩ := List.mem_map.mp hf
        exact .inr (get_oob s _ (by omega))
      have hk0 : s.get k = {} := by rw [← e1]; exact get_oob s _ (by omega)
      refine ⟨forest_of_newfree hF hfld hsub, by unfold Real; rw [hget, hk0], by rw [hget, hk0], by rw [hget, hk0], ?_,
        fun j => (hfld j).2.2.2, hsub, .inr hk0, fun j => (hfld j).1, fun j => by rw [hget j]⟩
      rw [hfr, ← e1]
      intro hh
      obtain ⟨x, _, hx⟩ := List.mem_map.mp hh
      omega

/-- an isolated real slot outside the free list is overwritten by a temporary copy -/
theorem forest_of_becomes_copy {s : Seg} (hF : Forest s) {k : Nat} (hk : Real s k) (hp : (s.get k).parent = none)
    (hc : (s.get k).child = none) (hkf : k ∉ s.free) (f : Slot → Slot) (hf : ∀ a, (f a).copied = true) (hks : k < s.slots.size) :
    Forest (s.upd k f) := by
  have hnotreal : ¬ Real (s.upd k f) k := by
    unfold Real; rw [get_upd_self _ _ _ hks, hf]; simp
  have hreal : ∀ j, Real (s.upd k f) j → j ≠ k := fun j hj hh => hnotreal (hh ▸ hj)
  have hreal2 : ∀ j, j ≠ k → (Real (s.upd k f) j ↔ Real s j) := fun j hj => by unfold Real; rw [get_upd_ne _ _ _ _ hj]
  have hnone : ∀ j, Real s j → (s.get j).parent ≠ some k := fun j hj hjp => by
    obtain ⟨l, hkk⟩ := hF.kids k hk
    have := hkk.all j hj hjp
    have hch := hkk.chain
    rw [hc] at hch
    cases l with
    | nil => cases this
    | cons x r => cases hch.1
  refine ⟨?_, ?_, ?_, ?_, ?_⟩
  · intro i hi
    have hik := hreal i hi
    obtain ⟨l, hki⟩ := hF.kids i ((hreal2 i hik).mp hi)
    have hkl : k ∉ l := fun hh => by rw [(hki.mem k hh).1] at hp; cases hp
    refine ⟨l, ?_, hki.nodup, ?_, ?_⟩
    · rw [get_upd_ne _ _ _ _ hik]; exact sibSeg_upd_notin _ _ hkl hki.chain
    · intro j hj
      have hjk : j ≠ k := fun hh => hkl (hh ▸ hj)
      rw [get_upd_ne _ _ _ _ hjk]
      exact ⟨(hki.mem j hj).1, (hreal2 j hjk).mpr (hki.mem j hj).2⟩
    · intro j hj hjp
      have hjk := hreal j hj
      rw [get_upd_ne _ _ _ _ hjk] at hjp
      exact hki.all j ((hreal2 j hjk).mp hj) hjp
  · obtain ⟨d, hd⟩ := hF.acyc
    refine ⟨d, fun j i hj hp' => ?_⟩
    have hjk := hreal j hj
    rw [get_upd_ne _ _ _ _ hjk] at hp'
    exact hd j i ((hreal2 j hjk).mp hj) hp'
  · intro j hj hp'
    have hjk := hreal j hj
    rw [get_upd_ne _ _ _ _ hjk] at hp' ⊢
    exact hF.root j ((hreal2 j hjk).mp hj) hp'
  · intro j i hj hp'
    have hjk := hreal j hj
    rw [get_upd_ne _ _ _ _ hjk] at hp'
    have hj' := (hreal2 j hjk).mp hj
    have := hF.par j i hj' hp'
    have hik : i ≠ k := fun hh => hnone j hj' (hh ▸ hp')
    exact ⟨(hreal2 i hik).mpr this.1, by simpa using this.2⟩
  · intro f' hf'
    have hf'' : f' ∈ s.free := by simpa using hf'
    have hfk : f' ≠ k := fun hh => hkf (hh ▸ hf'')
    obtain ⟨f1, f2, f3⟩ := hF.free f' hf''
    rw [get_upd_ne _ _ _ _ hfk]
    exact ⟨(hreal2 f' hfk).mpr f1, f2, f3⟩

/-! ## `delete_`: the slot leaves the tree -/

theorem detach_forest {s : Seg} (hF : Forest s) {a : Nat} (ha : Real s a) :
    Forest (s.detach a) ∧ (s.detach a).free = s.free ∧ (∀ j, ((s.detach a).get j).copied = (s.get j).copied) ∧
      (∀ j, ¬ Real s j → ((s.detach a).get j).parent = (s.get j).parent) ∧
      (∀ j, ((s.detach a).get j).parent = (s.get j).parent ∨ ((s.detach a).get j).parent = none) ∧
      ((s.detach a).get a).child = none := by
  unfold Seg.detach
  simp only []
  obtain ⟨hF1, hpa1, hr1, hf1, hc1, _, hp1⟩ := unparent_forest hF ha
  obtain ⟨hF2, hch2, _, hf2, hc2, hp2, hp3⟩ := detachChildren_forest hF1 hr1
  refine ⟨hF2, by rw [hf2, hf1], fun j => by rw [hc2, hc1], fun j hj => ?_, fun j => ?_, hch2⟩
  · have hja : j ≠ a := fun hh => hj (hh ▸ ha)
    rw [hp2 j (by unfold Real; rw [hc1]; exact hj), hp1 j hja]
  · rcases hp3 j with h | h
    · by_cases hja : j = a
      · right; rw [h, hja]; exact hpa1
      · left; rw [h, hp1 j hja]
    · exact .inr h

/-! ## `put_copy` -/

/-- a real slot without children is nobody's proper ancestor -/
theorem no_descendants {s : Seg} (hF : Forest s) {i : Nat} (hi : Real s i) (hc : (s.get i).child = none) :
    ∀ (k q : Nat), Real s q → q ≠ i → up s k q ≠ some i := by
  intro k
  induction k with
  | zero => intro q _ hq h; simp only [up] at h; cases h; exact hq rfl
  | succ k ih =>
    intro q hqr hq h
    simp only [up] at h
    split at h
    · cases h
    · rename_i q' hq'
      by_cases hqi : q' = i
      · -- `q` is a child of `i`, which has none
        obtain ⟨l, hk⟩ := hF.kids i hi
        have := hk.all q hqr (by rw [hq', hqi])
        have hch := hk.chain
        rw [hc] at hch
        cases l with
        | nil => cases this
        | cons x r => cases hch.1
      · exact ih q' (hF.par q q' hqr hq').1 hqi h

/-- where `child` writes: the parent's `child` field when the chain is empty, else the last member's `sibling` -/
def appendTo (s : Seg) (p a : Nat) (l : List Nat) : Seg :=
  match l.getLast? with
  | none => s.upd p fun sl => sl.setChild (some a)
  | some last => s.upd last fun sl => sl.setSibling (some a)

theorem child_append' (s : Seg) (i ap : Nat) (l : List Nat) (hk : SibChain s (s.get i).child l) (hap : ap ∉ l) (hia : i ≠ ap)
    (hlen : l.length ≤ s.slots.size) : child s i ap = (true, appendTo s i ap l) := by
  rw [child_append s i ap l hk hap hia hlen]; rfl

/-- `appendTo` acts slot-wise: two arenas of the same size that agree on slot `j` still agree on it afterwards -/
theorem appendTo_get (t t0 : Seg) (p a : Nat) (l : List Nat) (hsz : t0.slots.size = t.slots.size) (j : Nat) (h : t0.get j = t.get j) :
    (appendTo t0 p a l).get j = (appendTo t p a l).get j := by
  unfold appendTo
  split
  · rw [get_upd, get_upd, hsz, h]
  · rw [get_upd, get_upd, hsz, h]

theorem appendTo_other (t : Seg) (p a : Nat) (l : List Nat) (j : Nat) (hjp : j ≠ p) (hjl : j ∉ l) : (appendTo t p a l).get j = t.get j := by
  unfold appendTo
  split
  · exact get_upd_ne _ _ _ _ hjp
  · rename_i last hl
    exact get_upd_ne _ _ _ _ (fun hh => hjl (by rw [hh]; exact List.mem_of_getLast? hl))

/-- the body of `put_copy`: the childless root `i` becomes a copy of the slot record `sr`; its parent is the copied one when
it can be entered in that parent's chain -/
theorem copySlot_forest {s : Seg} (hF : Forest s) {i rf : Nat} (hi : Real s i) (hp : (s.get i).parent = none)
    (hc : (s.get i).child = none) (hif : i ∉ s.free) (his : i < s.slots.size)
    (hgood : ∀ p, (s.get rf).parent = some p → Real s p ∧ p ∉ s.free ∧ p < s.slots.size) :
    Forest ((s.copySlot i rf).unmark i) ∧ ((s.copySlot i rf).unmark i).free = s.free ∧
      (∀ j, (((s.copySlot i rf).unmark i).get j).copied = (s.get j).copied) ∧
      (∀ j, j ≠ i → (((s.copySlot i rf).unmark i).get j).parent = (s.get j).parent) ∧
      (∀ p, (((s.copySlot i rf).unmark i).get i).parent = some p → (s.get p).deleted = false ∧ p ≠ i) := by
  have hsib : (s.get i).sibling = none := hF.root i hi hp
  have hcop : (s.get i).copied = false := hi
  -- the state after the `memcpy`
  have g1 : ∀ j, j ≠ i → (s.upd i fun si => si.copyFrom (s.get rf)).get j = s.get j := fun j hj => get_upd_ne _ _ _ _ hj
  have g1i : (s.upd i fun si => si.copyFrom (s.get rf)).get i = (s.get i).copyFrom (s.get rf) := get_upd_self _ _ _ his
  unfold Seg.copySlot
  simp only []
  cases hrp : (s.get rf).parent with
  | none =>
    simp only []
    have ts : TreeSame s ((s.upd i fun si => si.copyFrom (s.get rf)).unmark i) := by
      unfold Seg.unmark
      refine ⟨by simp, fun j => ?_⟩
      by_cases hji : j = i
      · rw [hji, get_upd_self _ _ _ (by simpa using his), g1i]
        exact ⟨by show (s.get rf).parent = _; rw [hrp, hp], by show none = _; rw [hc], by show none = _; rw [hsib], by show false = _; rw [hcop]⟩
      · rw [get_upd_ne _ _ _ _ hji, g1 j hji]; exact ⟨rfl, rfl, rfl, rfl⟩
    exact ⟨forest_congr ts hF, ts.free, fun j => (ts.fld j).2.2.2, fun j _ => (ts.fld j).1,
      fun q hq => by rw [(ts.fld i).1, hp] at hq; cases hq⟩
  | some p =>
    simp only []
    obtain ⟨hpr, hpf, hps⟩ := hgood p hrp
    -- the slot stays a root: same tree fields as before
    have ts0 : TreeSame s (((s.upd i fun si => si.copyFrom (s.get rf)).upd i fun sl => sl.setParent none).unmark i) := by
      unfold Seg.unmark
      refine ⟨by simp, fun j => ?_⟩
      by_cases hji : j = i
      · rw [hji, get_upd_self _ _ _ (by simpa using his), get_upd_self _ _ _ (by simpa using his), g1i]
        exact ⟨by show none = _; rw [hp], by show none = _; rw [hc], by show none = _; rw [hsib], by show false = _; rw [hcop]⟩
      · rw [get_upd_ne _ _ _ _ hji, get_upd_ne _ _ _ _ hji, g1 j hji]; exact ⟨rfl, rfl, rfl, rfl⟩
    split
    · exact ⟨forest_congr ts0 hF, ts0.free, fun j => (ts0.fld j).2.2.2, fun j _ => (ts0.fld j).1,
        fun q hq => by rw [(ts0.fld i).1, hp] at hq; cases hq⟩
    rename_i hndel
    by_cases hpi : p = i
    · have hch : child (s.upd i fun si => si.copyFrom (s.get rf)) p i = (false, s.upd i fun si => si.copyFrom (s.get rf)) := by
        unfold child; rw [if_pos hpi]
      rw [hch]
      simp only [Bool.false_eq_true, if_false]
      exact ⟨forest_congr ts0 hF, ts0.free, fun j => (ts0.fld j).2.2.2, fun j _ => (ts0.fld j).1,
        fun q hq => by rw [(ts0.fld i).1, hp] at hq; cases hq⟩
    · obtain ⟨l, hk⟩ := hF.kids p hpr
      have hil : i ∉ l := fun hh => by rw [(hk.mem i hh).1] at hp; cases hp
      -- the chain of `p` after the `memcpy`
      have lk1 : SibChain (s.upd i fun si => si.copyFrom (s.get rf)) ((s.upd i fun si => si.copyFrom (s.get rf)).get p).child l := by
        rw [g1 p hpi]; exact sibSeg_upd_notin _ _ hil hk.chain
      rw [child_append' _ p i l lk1 hil hpi (by have := hk.length_le; simpa using this)]
      simp only [if_true]
      -- the reference computation: `i` as the root it was, then attached
      have hatt := child_attached hk.local hil hpi hps his hsib
      rw [child_append' s p i l hk.chain hil hpi hk.length_le] at hatt
      have hF3 := forest_of_attached hF hpr hi hk hp (Ne.symm hpi)
        (fun ⟨k, hk'⟩ => no_descendants hF hi hc k p hpr hpi hk') hpf hif hatt.2
      have ts : TreeSame ((appendTo s p i l).upd i fun sl => sl.setParent (some p))
          ((appendTo (s.upd i fun si => si.copyFrom (s.get rf)) p i l).unmark i) := by
        unfold Seg.unmark
        have hszA : ∀ t : Seg, (appendTo t p i l).slots.size = t.slots.size := fun t => by unfold appendTo; split <;> simp
        refine ⟨by unfold appendTo; split <;> simp, fun j => ?_⟩
        by_cases hji : j = i
        · rw [hji, get_upd_self _ _ _ (by rw [hszA]; simpa using his), get_upd_self _ _ _ (by rw [hszA]; exact his),
            appendTo_other _ p i l i (Ne.symm hpi) hil, appendTo_other _ p i l i (Ne.symm hpi) hil, g1i]
          exact ⟨by show (s.get rf).parent = some p; exact hrp, by show none = (s.get i).child; rw [hc],
            by show none = (s.get i).sibling; rw [hsib], by show false = (s.get i).copied; rw [hcop]⟩
        · rw [get_upd_ne _ _ _ _ hji, get_upd_ne _ _ _ _ hji,
            appendTo_get s (s.upd i fun si => si.copyFrom (s.get rf)) p i l (by simp) j (g1 j hji)]
          exact ⟨rfl, rfl, rfl, rfl⟩
      refine ⟨forest_congr ts hF3, by rw [ts.free, hatt.2.free], fun j => ?_, fun j hj => ?_, fun q hq => ?_⟩
      · rw [(ts.fld j).2.2.2, hatt.2.cop j]
      · rw [(ts.fld j).1, hatt.2.par j, if_neg hj]
      · rw [(ts.fld i).1, hatt.2.par i, if_pos rfl] at hq
        cases hq
        refine ⟨?_, hpi⟩
        rw [g1 p hpi] at hndel
        cases hq' : (s.get p).deleted with
        | false => rfl
        | true => exact absurd hq' hndel

end GrVerif.Seg

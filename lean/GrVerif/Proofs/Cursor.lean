import GrVerif.Proofs.HeapStream3
/-!
# The cursor of a rule's action is never null where the loader's `test_context()` let an opcode through

The loader keeps two numbers while it reads action code (`src/Code.cpp`, `fetch_opcode`): `_out_index`, the position of the
cursor in the output of the rule, and `_out_length`, the length of that output.  `NEXT`/`COPY_NEXT` are accepted only if
the cursor stays inside `[.., _out_length]`, and every opcode that writes through the cursor (`PUT_GLYPH`, `PUT_SUBS`,
`ASSOC`, `ATTR_SET`…) only if `0 ≤ _out_index < _out_length` (`test_context()`).  The machine itself does not test the
cursor before it writes through it (`is->setGlyph(..)`, `is->setAttr(..)`).

`Cur` is that pair, `curStep` the loader's bookkeeping with exactly the tests used here, `PosOK` relates it to the run-time
state: the cursor `is` stands at a position of the glyph stream `l` with at least `idx` slots in front of it and at least
`len - idx` slots from it on (the deleted former first slot counts as position `-1`, null as the position behind the last
slot).  `stepInstr_track` shows that every opcode keeps that relation, so an opcode that passed `test_context()` finds a
slot under the cursor: the four null-cursor faults of the model (`Model/Seg.lean`) never happen.
-/
set_option linter.unusedVariables false
set_option linter.unusedSimpArgs false
namespace GrVerif.Action
open GrVerif.Vm GrVerif.Seg GrVerif.Gen.Vm

/-- the loader's `_out_index` and `_out_length` -/
structure Cur where
  idx : Int
  len : Int
  dels : Bool := false      -- a `DELETE` has been read (`_code._delete`)
  deriving Repr, DecidableEq

/-- `fetch_opcode`'s bookkeeping of `_out_index`/`_out_length` with the tests this proof uses: `NEXT`/`COPY_NEXT` keep the
cursor inside the output, and the opcodes that write through the cursor pass `test_context()` -/
def curStep (s : Cur) (i : Instr) : Option Cur :=
  let opc := i.1
  if opc = 25 ∨ opc = 27 then (if s.idx + 1 ≤ s.len then some ⟨s.idx + 1, s.len, s.dels⟩ else none)
  else if opc = 31 then some ⟨if s.idx < 0 then s.idx + 1 else s.idx, s.len + 1, s.dels⟩
  else if opc = 32 then some ⟨s.idx - 1, s.len - 1, true⟩
  else if opc = 33 ∨ opc = 59 ∨ opc = 56 ∨ opc = 35 ∨ opc = 36 ∨ opc = 37 ∨ opc = 38 ∨ opc = 28 ∨ opc = 29 then
    (if 0 ≤ s.idx ∧ s.idx < s.len then some s else none)
  else some s

def curRun : Cur → List Instr → Option Cur
  | s, [] => some s
  | s, i :: rest => match curStep s i with
    | some s' => curRun s' rest
    | none => none

/-- where the cursor stands in the stream -/
def PosOK (cur : Cur) (l : List Nat) (is : Option Nat) : Prop :=
  match is with
  | none => cur.len ≤ cur.idx ∧ cur.idx ≤ l.length
  | some i => (∃ a b, l = a ++ i :: b ∧ cur.idx ≤ a.length ∧ cur.len - cur.idx ≤ b.length + 1) ∨
              (i ∉ l ∧ cur.idx ≤ -1 ∧ cur.len - cur.idx ≤ l.length + 1)

/-- the cursor is null or a slot of the stream -/
def Live (l : List Nat) (is : Option Nat) : Prop := ∀ x, is = some x → x ∈ l

/-- the tracked invariant: the stream invariant, the position of the cursor, and - as long as no `DELETE` has run - a cursor
that is not the deleted former first slot -/
def Tr (cur : Cur) (c : Ctx) : Prop := ∃ l, J c l ∧ PosOK cur l c.is ∧ (cur.dels = false → Live l c.is)

def nullFault (w : String) : Prop :=
  w = "assoc: store through a null `is`" ∨ w = "attr_set: `is` is null" ∨ w = "put_glyph: `is` is null" ∨ w = "put_subs: `is` is null"

instance (w : String) : Decidable (nullFault w) := by unfold nullFault; infer_instance

def OutcomeT (P : Ctx → Prop) : Outcome → Prop
  | .cont c => P c
  | .died c => c.status = .died_early
  | .fault w => ¬ nullFault w

theorem OutcomeT.mk {P : Ctx → Prop} {o : Outcome} (hc : ∀ c', o = .cont c' → P c') (hd : ∀ c', o = .died c' → c'.status = .died_early)
    (hf : ∀ w, o = .fault w → ¬ nullFault w) : OutcomeT P o := by
  cases o with
  | cont c => exact hc c rfl
  | died c => exact hd c rfl
  | fault w => exact hf w rfl

theorem die_died (c : Ctx) : ∀ c', Seg.die c = .died c' → c'.status = .died_early := by
  intro c' h; unfold Seg.die at h; cases h; rfl

theorem split_uniq : ∀ {a a' b b' : List Nat} {i : Nat}, (a ++ i :: b).Nodup → a ++ i :: b = a' ++ i :: b' → a = a' ∧ b = b' := by
  intro a
  induction a with
  | nil =>
    intro a' b b' i hnd e
    cases a' with
    | nil => simp at e; exact ⟨rfl, e⟩
    | cons x a'' =>
      simp only [List.nil_append, List.cons_append, List.cons.injEq] at e
      obtain ⟨e1, e2⟩ := e
      simp only [List.nil_append, List.nodup_cons] at hnd
      exact absurd (e2 ▸ (by simp : i ∈ a'' ++ i :: b')) hnd.1
  | cons x a ih =>
    intro a' b b' i hnd e
    cases a' with
    | nil =>
      simp only [List.nil_append, List.cons_append, List.cons.injEq] at e
      obtain ⟨e1, e2⟩ := e
      simp only [List.cons_append, List.nodup_cons] at hnd
      exact absurd (by rw [e1]; simp : x ∈ a ++ i :: b) hnd.1
    | cons y a'' =>
      simp only [List.cons_append, List.cons.injEq] at e
      obtain ⟨e1, e2⟩ := e
      simp only [List.cons_append, List.nodup_cons] at hnd
      obtain ⟨h1, h2⟩ := ih hnd.2 e2
      exact ⟨by rw [e1, h1], h2⟩

/-- the split of `PosOK` is the split at hand -/
theorem PosOK.at {cur : Cur} {a b : List Nat} {i : Nat} (hnd : (a ++ i :: b).Nodup) (h : PosOK cur (a ++ i :: b) (some i)) :
    cur.idx ≤ a.length ∧ cur.len - cur.idx ≤ b.length + 1 := by
  rcases h with ⟨a', b', e, h1, h2⟩ | ⟨hn, _, _⟩
  · obtain ⟨ea, eb⟩ := split_uniq hnd e
    subst ea; subst eb; exact ⟨h1, h2⟩
  · exact absurd (by simp) hn

theorem OutcomeP.andT {l : List Nat} {cur : Cur} {o : Outcome} (h1 : OutcomeP (fun c' => J c' l) o)
    (h2 : OutcomeT (fun c' => PosOK cur l c'.is ∧ (cur.dels = false → Live l c'.is)) o) : OutcomeT (Tr cur) o := by
  cases o with
  | cont c => exact ⟨l, h1, h2⟩
  | died c => exact h2
  | fault w => exact h2

theorem next_mem' {s : Seg} {l : List Nat} (h : Linked s l) {i : Nat} (hi : i ∈ l) : ∀ x, (s.get i).next = some x → x ∈ l := by
  obtain ⟨a, b, rfl⟩ := List.append_of_mem hi
  obtain ⟨_, hn, _, _⟩ := chain_mid h.chain
  intro x hx
  rw [hn] at hx
  simp only [Option.or_none] at hx
  exact List.mem_append_right _ (List.mem_cons_of_mem _ (head?_mem hx))

/-! ## `next` -/
theorem next_pos (cur : Cur) (c : Ctx) {l : List Nat} (hj : J c l) (hp : PosOK cur l c.is) (hlv : cur.dels = false → Live l c.is)
    (hs : cur.idx + 1 ≤ cur.len) :
    OutcomeT (fun c' => PosOK ⟨cur.idx + 1, cur.len, cur.dels⟩ l c'.is ∧ (cur.dels = false → Live l c'.is)) (opNext c) := by
  unfold opNext
  split
  · exact die_died c _ rfl
  · split
    · rename_i i heq
      show PosOK _ l (c.seg.get i).next ∧ (cur.dels = false → Live l (c.seg.get i).next)
      refine ⟨?_, fun hd x hx => next_mem' hj.linked (hlv hd i heq) x hx⟩
      rw [heq] at hp
      rcases hp with ⟨a, b, e, h1, h2⟩ | ⟨hn, h1, h2⟩
      · subst e
        obtain ⟨_, hnx, _, _⟩ := chain_mid hj.linked.chain
        rw [hnx]
        cases b with
        | nil =>
          simp only [List.head?_nil, Option.or_none]
          refine ⟨?_, ?_⟩
          · show cur.len ≤ cur.idx + 1
            simp at h2; omega
          · show cur.idx + 1 ≤ ((a ++ [i]).length : Int)
            simp; omega
        | cons x b' =>
          simp only [List.head?_cons, Option.or_some]
          refine .inl ⟨a ++ [i], b', by simp, ?_, ?_⟩
          · show cur.idx + 1 ≤ ((a ++ [i]).length : Int)
            simp; omega
          · show cur.len - (cur.idx + 1) ≤ (b'.length : Int) + 1
            simp at h2; omega
      · have hio := hj.isok
        rw [heq] at hio
        rcases hio with h0 | ⟨i', e1, e2⟩ | ⟨d, e1, e2, e3, e4, e5, e6⟩
        · cases h0
        · cases e1; exact absurd e2 hn
        · cases e1
          rw [e4]
          cases l with
          | nil =>
            simp only [List.head?_nil]
            refine ⟨?_, ?_⟩
            · show cur.len ≤ cur.idx + 1
              simp at h2; omega
            · show cur.idx + 1 ≤ (([] : List Nat).length : Int)
              simp; omega
          | cons x t =>
            simp only [List.head?_cons]
            refine .inl ⟨[], t, rfl, ?_, ?_⟩
            · show cur.idx + 1 ≤ (([] : List Nat).length : Int)
              simp; omega
            · show cur.len - (cur.idx + 1) ≤ (t.length : Int) + 1
              simp at h2; omega
    · rename_i heq
      rw [heq] at hp
      obtain ⟨h1, h2⟩ := hp
      omega


/-! ## `insert` -/
theorem insert_noFault (c : Ctx) (w : String) : opInsert c ≠ .fault w := by
  unfold opInsert
  simp only []
  split
  · unfold Seg.die; intro h; cases h
  · split
    · unfold Seg.die; intro h; cases h
    · intro h; cases h

theorem insert_T (cur : Cur) (c : Ctx) (h : Tr cur c) :
    OutcomeT (Tr ⟨if cur.idx < 0 then cur.idx + 1 else cur.idx, cur.len + 1, cur.dels⟩) (opInsert c) := by
  obtain ⟨l, hj, hp, hlv⟩ := h
  have h2 := insert_J2 c hj
  cases ho : opInsert c with
  | died c' => rw [ho] at h2; rw [h2.1]; rfl
  | fault w => exact absurd ho (insert_noFault c w)
  | cont c' =>
    rw [ho] at h2
    obtain ⟨a, b, n, sg, mp, hl, hnl, hJ, hsx, hsn, hbud, e, hsd⟩ := h2
    refine ⟨a ++ n :: b, hJ, ?_⟩
    have his : c'.is = some n := by rw [e]; rfl
    rw [his]
    have key : (if cur.idx < 0 then cur.idx + 1 else cur.idx) ≤ (a.length : Int) ∧
        cur.len + 1 - (if cur.idx < 0 then cur.idx + 1 else cur.idx) ≤ (b.length : Int) + 1 := by
      cases hci : c.is with
      | none =>
        have hb := hsn hci
        subst hb
        rw [hci] at hp
        obtain ⟨p1, p2⟩ := hp
        simp only [List.append_nil] at hl
        subst hl
        (try simp at p1 p2) <;> split <;> constructor <;> (try simp) <;> omega
      | some i =>
        rw [hci] at hp
        by_cases hil : i ∈ l
        · have hb := hsx i hci hil
          cases b with
          | nil => simp at hb
          | cons x b1 =>
            simp only [List.head?_cons, Option.some.injEq] at hb
            subst hb
            subst hl
            obtain ⟨p1, p2⟩ := PosOK.at hj.linked.nodup hp
            (try simp at p1 p2) <;> split <;> constructor <;> (try simp) <;> omega
        · have ha := hsd i hci hil
          subst ha
          simp only [List.nil_append] at hl
          subst hl
          rcases hp with ⟨a', b', e', _, _⟩ | ⟨_, p1, p2⟩
          · exact absurd (e' ▸ (by simp : i ∈ a' ++ i :: b')) hil
          · (try simp at p1 p2) <;> split <;> constructor <;> (try simp) <;> omega
    exact ⟨.inl ⟨a, b, rfl, key.1, key.2⟩, fun _ x hx => by cases hx; simp⟩

/-! ## `delete` -/
theorem delete_noFault (c : Ctx) (w : String) : opDelete c ≠ .fault w := by
  unfold opDelete
  split
  · unfold Seg.die; intro h; cases h
  · simp only []
    split
    · unfold Seg.die; intro h; cases h
    · intro h; cases h

theorem delete_T (cur : Cur) (c : Ctx) (h : Tr cur c) : OutcomeT (Tr ⟨cur.idx - 1, cur.len - 1, true⟩) (opDelete c) := by
  obtain ⟨l, hj, hp, hlv⟩ := h
  have h2 := delete_J2 c hj
  cases ho : opDelete c with
  | died c' => rw [ho] at h2; rw [h2.1]; rfl
  | fault w => exact absurd ho (delete_noFault c w)
  | cont c' =>
    rw [ho] at h2
    obtain ⟨a, i, b, sg, hci, hl, hJ, hpv, hnx, e⟩ := h2
    subst hl
    rw [hci] at hp
    obtain ⟨p1, p2⟩ := PosOK.at hj.linked.nodup hp
    refine ⟨a ++ b, hJ, ?_, fun hd => by cases hd⟩
    have hnd := hj.linked.nodup
    have hia : i ∉ a := fun hh => (List.nodup_append.mp hnd).2.2 i hh i List.mem_cons_self rfl
    have hib : i ∉ b := (List.nodup_cons.mp (List.nodup_append.mp hnd).2.1).1
    have his : c'.is = (match (c.seg.get i).prev with | some p => some p | none => c.is) := by
      rw [e, backOnto_is]; rfl
    rw [his, hpv]
    rcases List.eq_nil_or_concat a with ha | ⟨a1, p, ha⟩
    · subst ha
      simp only [List.getLast?_nil, hci]
      refine .inr ⟨by simpa using hib, ?_, ?_⟩
      · show cur.idx - 1 ≤ -1
        simp at p1; omega
      · show cur.len - 1 - (cur.idx - 1) ≤ ((([] : List Nat) ++ b).length : Int) + 1
        simp; omega
    · subst ha
      simp only [List.concat_eq_append] at p1 hia ⊢
      rw [getLast?_concat']
      refine .inl ⟨a1, b, by simp, ?_, ?_⟩
      · show cur.idx - 1 ≤ (a1.length : Int)
        simp at p1; omega
      · show cur.len - 1 - (cur.idx - 1) ≤ (b.length : Int) + 1
        omega

/-! ## the opcodes that leave the cursor where it is -/
theorem keep_T {cur : Cur} {c : Ctx} {o : Outcome} {l : List Nat} (hJ : OutcomeP (fun c' => J c' l) o) (hp : PosOK cur l c.is)
    (hlv : cur.dels = false → Live l c.is)
    (his : ∀ c', o = .cont c' → c'.is = c.is) (hd : ∀ c', o = .died c' → c'.status = .died_early)
    (hf : ∀ w, o = .fault w → ¬ nullFault w) : OutcomeT (Tr cur) o := by
  cases o with
  | cont c' => exact ⟨l, hJ, by rw [his c' rfl]; exact hp, by rw [his c' rfl]; exact hlv⟩
  | died c' => exact hd c' rfl
  | fault w => exact hf w rfl

/-- `test_context()` passed: there is a slot under the cursor -/
theorem PosOK.some {cur : Cur} {l : List Nat} {is : Option Nat} (hp : PosOK cur l is) (h0 : 0 ≤ cur.idx) (h1 : cur.idx < cur.len) :
    ∃ i, is = some i := by
  cases is with
  | none => obtain ⟨p1, p2⟩ := hp; omega
  | some i => exact ⟨i, rfl⟩

theorem putCopy_is (c : Ctx) (r : Int) : ∀ c', opPutCopy c r = .cont c' → c'.is = c.is := by
  intro c' h
  unfold opPutCopy at h
  split at h
  · cases h; rfl
  · simp only [] at h
    split at h
    · cases h; rfl
    · split at h
      · split at h
        · split at h
          · unfold Seg.die at h; cases h
          · cases h; simp [slotat_is]
        · cases h; simp [slotat_is]
      · cases h; simp [slotat_is]

theorem putCopy_noFault (c : Ctx) (r : Int) (w : String) : opPutCopy c r ≠ .fault w := by
  unfold opPutCopy
  split
  · intro h; cases h
  · simp only []
    split
    · intro h; cases h
    · split
      · split
        · split
          · unfold Seg.die; intro h; cases h
          · intro h; cases h
        · intro h; cases h
      · intro h; cases h

theorem putCopy_died (c : Ctx) (r : Int) : ∀ c', opPutCopy c r = .died c' → c'.status = .died_early := by
  intro c' h
  unfold opPutCopy at h
  split at h
  · cases h
  · simp only [] at h
    split at h
    · cases h
    · split at h
      · split at h
        · split at h
          · exact die_died _ c' h
          · cases h
        · cases h
      · cases h

theorem putCopy_T (cur : Cur) (c : Ctx) (r : Int) (h : Tr cur c) : OutcomeT (Tr cur) (opPutCopy c r) := by
  obtain ⟨l, hj, hp, hlv⟩ := h
  exact keep_T (putCopy_J c r hj) hp hlv (putCopy_is c r) (putCopy_died c r) (fun w hw => absurd hw (putCopy_noFault c r w))

theorem assoc_T (cur : Cur) (c : Ctx) (rs : List Int) (h : Tr cur c) (h0 : 0 ≤ cur.idx) (h1 : cur.idx < cur.len) :
    OutcomeT (Tr cur) (opAssoc c rs) := by
  obtain ⟨l, hj, hp, hlv⟩ := h
  obtain ⟨i, hi⟩ := hp.some h0 h1
  obtain ⟨e1, e2, e3⟩ := assocFold_same c rs (-1, -1, c) ⟨rfl, rfl, rfl⟩
  refine keep_T (assoc_J c rs hj) hp hlv ?_ ?_ ?_
  · intro c' h
    unfold opAssoc at h
    simp only [] at h
    split at h
    · split at h
      · cases h; simp [e2]
      · cases h
    · cases h; exact e2
  · intro c' h
    unfold opAssoc at h
    simp only [] at h
    split at h
    · split at h <;> cases h
    · cases h
  · intro w h
    unfold opAssoc at h
    simp only [] at h
    split at h
    · split at h
      · cases h
      · rename_i hn; rw [e2, hi] at hn; cases hn
    · cases h

theorem attrSet_T (cur : Cur) (c : Ctx) (a b : Nat) (v : Int) (h : Tr cur c) (h0 : 0 ≤ cur.idx) (h1 : cur.idx < cur.len) :
    OutcomeT (Tr cur) (opAttrSet c a b v) := by
  obtain ⟨l, hj, hp, hlv⟩ := h
  obtain ⟨i, hi⟩ := hp.some h0 h1
  refine keep_T (attrSet_J c a b v hj) hp hlv ?_ ?_ ?_
  · intro c' h
    unfold opAttrSet at h
    rw [hi] at h
    simp only [] at h
    split at h
    · cases h; rw [setAttTo_is, hi]
    · split at h <;> cases h <;> simp [hi]
  · intro c' h
    unfold opAttrSet at h
    rw [hi] at h
    simp only [] at h
    split at h
    · cases h
    · split at h <;> cases h
  · intro w h
    unfold opAttrSet at h
    rw [hi] at h
    simp only [] at h
    split at h
    · cases h
    · split at h <;> cases h

theorem putGlyph_T (cur : Cur) (c : Ctx) (k : Nat) (h : Tr cur c) (h0 : 0 ≤ cur.idx) (h1 : cur.idx < cur.len) :
    OutcomeT (Tr cur) (opPutGlyph c k) := by
  obtain ⟨l, hj, hp, hlv⟩ := h
  obtain ⟨i, hi⟩ := hp.some h0 h1
  refine keep_T (putGlyph_J c k hj) hp hlv ?_ ?_ ?_
  · intro c' h
    unfold opPutGlyph at h
    rw [hi] at h
    cases h; simp [hi]
  · intro c' h
    unfold opPutGlyph at h
    rw [hi] at h
    cases h
  · intro w h
    unfold opPutGlyph at h
    rw [hi] at h
    cases h

theorem putSubs_T (cur : Cur) (c : Ctx) (r : Int) (ic oc : Nat) (h : Tr cur c) (h0 : 0 ≤ cur.idx) (h1 : cur.idx < cur.len) :
    OutcomeT (Tr cur) (opPutSubs c r ic oc) := by
  obtain ⟨l, hj, hp, hlv⟩ := h
  obtain ⟨i, hi⟩ := hp.some h0 h1
  refine keep_T (putSubs_J c r ic oc hj) hp hlv ?_ ?_ ?_
  · intro c' h
    unfold opPutSubs at h
    simp only [] at h
    split at h
    · rw [slotat_is, hi] at h
      cases h; simp [slotat_is, hi]
    · cases h; exact slotat_is c r
  · intro c' h
    unfold opPutSubs at h
    simp only [] at h
    split at h
    · rw [slotat_is, hi] at h
      cases h
    · cases h
  · intro w h
    unfold opPutSubs at h
    simp only [] at h
    split at h
    · rw [slotat_is, hi] at h
      cases h
    · cases h

theorem tempCopy_T (cur : Cur) (c : Ctx) (h : Tr cur c) : OutcomeT (Tr cur) (opTempCopy c) := by
  obtain ⟨l, hj, hp, hlv⟩ := h
  refine keep_T (tempCopy_J c hj) hp hlv ?_ ?_ ?_
  · intro c' h
    unfold opTempCopy at h
    split at h
    · split at h
      · cases h; rfl
      · cases h
    · unfold Seg.die at h; cases h
  · intro c' h
    unfold opTempCopy at h
    split at h
    · split at h <;> cases h
    · exact die_died _ c' h
  · intro w h
    unfold opTempCopy at h
    split at h
    · split at h
      · cases h
      · cases h; unfold nullFault; decide
    · unfold Seg.die at h; cases h

/-! ## one instruction, the whole loop -/
def StepT (P : Ctx → Prop) : Sum St End → Prop
  | .inl s => P s.ctx
  | .inr (.normal s) => s.ctx.status ≠ .finished ∨ P s.ctx
  | .inr (.fault w) => ¬ nullFault w

/-- how the interpreter loop may end: without a null-cursor fault; and when it ends normally, either the context is no longer
`finished` (an opcode died: no slot is handed back) or the tracked invariant holds for the bookkeeping `curk` of the code read
so far, which has seen a `DELETE` only if the whole code (`cur'`) has -/
def EndT (cur' : Cur) : End → Prop
  | .normal s => s.ctx.status ≠ .finished ∨ ∃ curk, Tr curk s.ctx ∧ (curk.dels = true → cur'.dels = true)
  | .fault w => ¬ nullFault w

theorem not_nullFault_stack : ¬ nullFault "stack" := by unfold nullFault; decide
theorem not_nullFault_data : ¬ nullFault "data" := by unfold nullFault; decide
theorem not_nullFault_opcode : ¬ nullFault "opcode not modelled" := by unfold nullFault; decide

theorem slotat_T {cur : Cur} {c : Ctx} (h : Tr cur c) (x : Int) : Tr cur (slotat c x).2 := by
  obtain ⟨l, hj, hp, hlv⟩ := h
  exact ⟨l, slotat_J c x hj, by rw [slotat_is]; exact hp, by rw [slotat_is]; exact hlv⟩

theorem stepInstr_track (cur cur' : Cur) (s : St) (i : Instr) (h : Tr cur s.ctx) (hs : curStep cur i = some cur') :
    StepT (Tr cur') (stepInstr s i) := by
  obtain ⟨opc, ps⟩ := i
  have wc : ∀ (o : Outcome) (d : Nat), OutcomeT (Tr cur') o → StepT (Tr cur')
      (match o with
      | .cont c => (Sum.inl { vm := { s.vm with dp := s.vm.dp + d }, ctx := c } : Sum St End)
      | .died c =>
        (match push 1 { s.vm with status := .died_early } with
         | .ok _ vm => .inr (.normal { vm := vm, ctx := c })
         | .stop _ _ => .inr (.fault "stack"))
      | .fault w => .inr (.fault w)) := by
    intro o d ho
    cases o with
    | cont c => exact ho
    | died c =>
      simp only
      split
      · exact .inl (by rw [show c.status = Status.died_early from ho]; decide)
      · exact not_nullFault_stack
    | fault w => exact ho
  unfold stepInstr
  simp only
  split
  · simp [curStep] at hs
    obtain ⟨hle, e⟩ := hs
    subst e
    exact wc _ _ (by obtain ⟨l, hj, hp, hlv⟩ := h; exact (next_J s.ctx hj).andT (next_pos cur s.ctx hj hp hlv hle))
  · simp [curStep] at hs
    obtain ⟨hle, e⟩ := hs
    subst e
    exact wc _ _ (by obtain ⟨l, hj, hp, hlv⟩ := h; exact (next_J s.ctx hj).andT (next_pos cur s.ctx hj hp hlv hle))
  · simp [curStep] at hs
    subst hs
    exact wc _ _ (insert_T cur s.ctx h)
  · simp [curStep] at hs
    subst hs
    exact wc _ _ (delete_T cur s.ctx h)
  · simp [curStep] at hs
    subst hs
    exact wc _ _ (putCopy_T cur s.ctx _ h)
  · simp [curStep] at hs
    obtain ⟨⟨h0, h1⟩, e⟩ := hs
    subst e
    exact wc _ _ (assoc_T cur s.ctx _ h h0 h1)
  · simp [curStep] at hs
    subst hs
    exact wc _ _ (tempCopy_T cur s.ctx h)
  · simp [curStep] at hs
    obtain ⟨⟨h0, h1⟩, e⟩ := hs
    subst e
    exact wc _ _ (putGlyph_T cur s.ctx _ h h0 h1)
  · simp [curStep] at hs
    obtain ⟨⟨h0, h1⟩, e⟩ := hs
    subst e
    exact wc _ _ (putSubs_T cur s.ctx _ _ _ h h0 h1)
  · simp [curStep] at hs
    subst hs
    have hs' := slotat_T h (s8 (ps.getD 1 0))
    split
    · split
      · exact hs'
      · exact not_nullFault_stack
    · exact hs'
  · simp [curStep] at hs
    subst hs
    have hs' := slotat_T h (s8 (ps.getD 2 0))
    split
    · split
      · exact hs'
      · exact not_nullFault_stack
    · exact hs'
  · simp [curStep] at hs
    subst hs
    have hs' := slotat_T h (s8 (ps.getD 1 0))
    split
    · split
      · exact hs'
      · exact not_nullFault_stack
    · exact hs'
  · simp [curStep] at hs
    obtain ⟨⟨h0, h1⟩, e⟩ := hs
    subst e
    split
    · have := attrSet_T cur s.ctx (ps.getD 0 0) 0 (i16 ‹Int›) h h0 h1
      split <;> rename_i heq <;> rw [heq] at this <;> first | exact this | exact .inl (by rw [show (_ : Ctx).status = Status.died_early from this]; decide)
    · exact not_nullFault_stack
  · simp [curStep] at hs
    obtain ⟨⟨h0, h1⟩, e⟩ := hs
    subst e
    split
    · have := attrSet_T cur s.ctx (ps.getD 0 0) 0 (i16 (i32 (‹Int› + curAttr s.ctx (ps.getD 0 0)))) h h0 h1
      split <;> rename_i heq <;> rw [heq] at this <;> first | exact this | exact .inl (by rw [show (_ : Ctx).status = Status.died_early from this]; decide)
    · exact not_nullFault_stack
  · simp [curStep] at hs
    obtain ⟨⟨h0, h1⟩, e⟩ := hs
    subst e
    split
    · have := attrSet_T cur s.ctx (ps.getD 0 0) 0 (i16 (i32 (curAttr s.ctx (ps.getD 0 0) - ‹Int›))) h h0 h1
      split <;> rename_i heq <;> rw [heq] at this <;> first | exact this | exact .inl (by rw [show (_ : Ctx).status = Status.died_early from this]; decide)
    · exact not_nullFault_stack
  · simp [curStep] at hs
    obtain ⟨⟨h0, h1⟩, e⟩ := hs
    subst e
    split
    · have := attrSet_T cur s.ctx (ps.getD 0 0) ((if ps.getD 0 0 = 2 then s.ctx.map - 1 else 0 : Int) % 256).toNat (i16 (i32 (‹Int› + (if ps.getD 0 0 = 2 then s.ctx.map - 1 else 0)))) h h0 h1
      split <;> rename_i heq <;> rw [heq] at this <;> first | exact this | exact .inl (by rw [show (_ : Ctx).status = Status.died_early from this]; decide)
    · exact not_nullFault_stack
  · simp [curStep] at hs
    obtain ⟨⟨h0, h1⟩, e⟩ := hs
    subst e
    exact wc _ _ (putGlyph_T cur s.ctx _ h h0 h1)
  · simp [curStep] at hs
    obtain ⟨⟨h0, h1⟩, e⟩ := hs
    subst e
    exact wc _ _ (putSubs_T cur s.ctx _ _ _ h h0 h1)
  · have hc : cur' = cur := by
      unfold curStep at hs
      simp only [] at hs
      have e1 : ¬ (opc = 25 ∨ opc = 27) := by
        rintro (h | h)
        · exact ‹opc = 25 → False› h
        · exact ‹opc = 27 → False› h
      have e2 : ¬ (opc = 33 ∨ opc = 59 ∨ opc = 56 ∨ opc = 35 ∨ opc = 36 ∨ opc = 37 ∨ opc = 38 ∨ opc = 28 ∨ opc = 29) := by
        rintro (h | h | h | h | h | h | h | h | h)
        · exact ‹opc = 33 → False› h
        · exact ‹opc = 59 → False› h
        · exact ‹opc = 56 → False› h
        · exact ‹opc = 35 → False› h
        · exact ‹opc = 36 → False› h
        · exact ‹opc = 37 → False› h
        · exact ‹opc = 38 → False› h
        · exact ‹opc = 28 → False› h
        · exact ‹opc = 29 → False› h
      rw [if_neg e1, if_neg ‹opc = 31 → False›, if_neg ‹opc = 32 → False›, if_neg e2] at hs
      cases hs; rfl
    subst hc
    split
    · exact not_nullFault_opcode
    · split <;> first | exact h | exact .inr h | exact not_nullFault_stack | exact not_nullFault_data

theorem curStep_dels {cur cur' : Cur} {i : Instr} (h : curStep cur i = some cur') (hd : cur.dels = true) : cur'.dels = true := by
  unfold curStep at h
  simp only [] at h
  split at h
  · split at h
    · cases h; exact hd
    · cases h
  · split at h
    · cases h; exact hd
    · split at h
      · cases h; rfl
      · split at h
        · split at h
          · cases h; exact hd
          · cases h
        · cases h; exact hd

theorem curRun_dels : ∀ (is : List Instr) {cur cur' : Cur}, curRun cur is = some cur' → cur.dels = true → cur'.dels = true := by
  intro is
  induction is with
  | nil => intro cur cur' h hd; unfold curRun at h; cases h; exact hd
  | cons i rest ih =>
    intro cur cur' h hd
    unfold curRun at h
    split at h
    · rename_i c1 h1
      exact ih h (curStep_dels h1 hd)
    · cases h

theorem runLoop_track : ∀ (is : List Instr) (cur cur' : Cur) (s : St), Tr cur s.ctx → curRun cur is = some cur' → EndT cur' (runLoop is s) := by
  intro is
  induction is with
  | nil =>
    intro cur cur' s h hc
    unfold curRun at hc; cases hc
    exact .inr ⟨cur, h, id⟩
  | cons i rest ih =>
    intro cur cur' s h hc
    unfold curRun at hc
    split at hc
    · rename_i c1 hst
      have := stepInstr_track cur c1 s i h hst
      unfold runLoop
      split
      · rename_i e heq; rw [heq] at this
        cases e with
        | normal s' =>
          rcases this with h1 | h1
          · exact .inl h1
          · exact .inr ⟨c1, h1, curRun_dels rest hc⟩
        | fault w => exact this
      · rename_i s' heq; rw [heq] at this
        split
        · exact ih c1 cur' s' this hc
        · exact .inr ⟨c1, this, curRun_dels rest hc⟩
    · cases hc

theorem finishAction_noNullFault (s : St) (dl : Bool) {w : String} (e : finishAction s dl = .error w) : ¬ nullFault w := by
  unfold finishAction at e
  simp only [] at e
  split at e
  · cases e; unfold nullFault; decide
  · split at e
    · cases e; exact not_nullFault_stack
    · split at e
      · cases e
      · split at e <;> cases e

/-- **No write through a null cursor.**  When a rule's action starts with its cursor on a slot of the stream that has at
least `cur.idx` slots in front of it and `cur.len - cur.idx` from it on, and the code passed the loader's cursor tests
(`curRun`), the action never stops with one of the four null-cursor faults. -/
theorem doAction_noNullFault {is : List Instr} {dl : Bool} {mr : Nat} {data : List Nat} {ctx : Ctx} {cur : Cur} {l : List Nat}
    (hj : J (enterCtx (startCtx ctx)) l) (hp : PosOK cur l (enterCtx (startCtx ctx)).is) (hlv : Live l (enterCtx (startCtx ctx)).is)
    {cur' : Cur} (hc : curRun cur is = some cur')
    {w : String} (e : doAction is dl mr data ctx = .error w) : ¬ nullFault w := by
  unfold doAction at e
  simp only [] at e
  split at e
  · cases e
  · have := runLoop_track is cur cur' { vm := initVm data, ctx := enterCtx (startCtx ctx) } ⟨l, hj, hp, fun _ => hlv⟩ hc
    split at e
    · rename_i w' heq
      rw [heq] at this
      cases e; exact this
    · exact finishAction_noNullFault _ _ e

/-! ## the slot handed back -/
theorem checkFinalStack_finished' {st : Status} {sp : Int} (h : checkFinalStack st sp = .finished) : st = .finished := by
  unfold checkFinalStack at h
  split at h
  · rename_i hne; exact absurd h hne
  · rename_i hne; exact Classical.byContradiction (fun hh => hne hh)

theorem epilogue_fin {v : Vm} {rs : Int × Status} (e : epilogue v = .ok rs) (h : rs.2 = .finished) : v.status = .finished := by
  unfold epilogue at e
  split at e
  · split at e
    · cases e; exact checkFinalStack_finished' h
    · cases e
  · cases e; exact checkFinalStack_finished' h

theorem finishAction_live (s : St) (dl : Bool) {l : List Nat} (h : J s.ctx l)
    (hlive : dl = false → s.ctx.status = .finished → Live l s.ctx.is)
    {r : Int} {st : Status} {so : Option Nat} {c : Ctx} (e : finishAction s dl = .ok (r, st, so, c)) : Live l so := by
  unfold finishAction at e
  simp only [] at e
  split at e
  · cases e
  · rename_i hb
    have hb' : 0 ≤ s.ctx.map ∧ s.ctx.map.toNat < s.ctx.smap.size := by
      apply Classical.byContradiction; intro hn; exact hb hn
    have hrd := storeIs_read s.ctx hb'
    have hbase : JO s.ctx.storeIs l (s.ctx.storeIs.smap.getD s.ctx.storeIs.map.toNat none) := by
      rw [hrd]; exact JO.mk' h.linked h.clean h.isok h.hw h.alloc
    split at e
    · cases e
    · rename_i rs hep
      split at e
      · cases e; intro x hx; cases hx
      · rename_i hfin
        have hfin' : rs.2 = .finished := Classical.byContradiction (fun hh => hfin hh)
        have hst := epilogue_fin hep hfin'
        simp only [] at hst
        have hcs : s.ctx.status = .finished := by
          apply Classical.byContradiction
          intro hne
          have hne' : s.ctx.storeIs.status ≠ .finished := hne
          rw [if_pos hne'] at hst
          exact hne' hst
        split at e
        · cases e; exact gc_mem _ _ hbase
        · rename_i hdl
          cases e
          rw [hrd]
          exact hlive (by cases dl <;> simp_all) hcs

/-- **The slot a rule hands back to the rule loop is null or a slot of the stream** - never the deleted former first slot:
`collectGarbage` moves the cursor off it, and an action without `DELETE` cannot put it there. -/
theorem doAction_live {is : List Instr} {dl : Bool} {mr : Nat} {data : List Nat} {ctx : Ctx} {cur cur' : Cur} {l : List Nat}
    (hj : J (enterCtx (startCtx ctx)) l) (hp : PosOK cur l (enterCtx (startCtx ctx)).is) (hlv : Live l (enterCtx (startCtx ctx)).is)
    (hc : curRun cur is = some cur') (hdl : cur'.dels = true → dl = true)
    {r : Int} {st : Status} {so : Option Nat} {c : Ctx}
    (e : doAction is dl mr data ctx = .ok (r, st, so, c)) : ∃ l', JO c l' so ∧ Live l' so := by
  unfold doAction at e
  simp only [] at e
  split at e
  · cases e
    exact ⟨l, JO.mk' hj.linked hj.clean (.inl rfl) (fun x hx => by cases hx) hj.alloc, fun x hx => by cases hx⟩
  · have ht := runLoop_track is cur cur' { vm := initVm data, ctx := enterCtx (startCtx ctx) } ⟨l, hj, hp, fun _ => hlv⟩ hc
    have hr := runLoop_preserves PS ops_PS is { vm := initVm data, ctx := enterCtx (startCtx ctx) } ⟨l, hj⟩
    split at e
    · cases e
    · rename_i s heq
      rw [heq] at ht hr
      rcases ht with h1 | ⟨curk, ⟨l', hj', _, hlk⟩, hk⟩
      · obtain ⟨l', hj'⟩ := hr
        exact ⟨l', finishAction_JO s dl hj' e, finishAction_live s dl hj' (fun _ hs => absurd hs h1) e⟩
      · refine ⟨l', finishAction_JO s dl hj' e, finishAction_live s dl hj' (fun hd _ => hlk ?_) e⟩
        cases hkd : curk.dels with
        | false => rfl
        | true => rw [hdl (hk hkd)] at hd; cases hd

end GrVerif.Action

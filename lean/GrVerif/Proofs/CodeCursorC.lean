import GrVerif.Proofs.CodeCursor
/-!
# What the code loader accepts as constraint code is `codeOK`

`ruleOK` / `passOK` (`Proofs/CursorPass.lean`) ask `codeOK ⟨0, 1, false⟩` of a rule's constraint and of a pass's constraint: constraint
code must not move the cursor or write through it.  The loader guarantees that by its opcode table (`opcodes.h`, regenerated as
`Gen.Vm.opcodeTable`): `decoder::validate_opcode` refuses, in constraint code, every opcode without a constraint implementation, and
no opcode the cursor tests look at has one.  This file derives the hypothesis from the model of the loader: the loop of `decoder::load`
walks the bytes in the same steps as the pipeline model's `decode` – also through a `CNTXT_ITEM`, whose nested `load` runs over a
sub-range of the same bytes and ends inside the outer range – and checks every opcode on the way.
-/
set_option linter.unusedVariables false
set_option linter.unusedSimpArgs false
namespace GrVerif.CodeLoad
open GrVerif.Action GrVerif.Loader GrVerif.Gen.Vm

/-- `validate_opcode`'s test of the implementation column -/
def capable (cst : Bool) (opc : Nat) : Prop :=
  ∃ nm psz ia ic, opcodeTable[opc]? = some (nm, psz, ia, ic) ∧ (if cst = true then ic else ia) = true

/-- the shape of the decoder's state as far as the end of its range goes: the range ends inside the byte string; outside a context item
it is the whole string, inside one the string is what the item returns to; `_in_ctxt_item` is set exactly inside one -/
structure CInv (bc : List Nat) (d : Dec) : Prop where
  le : d.curEnd ≤ bc.length
  flag : d.inCtxt = false → d.ctxt = none
  outer : d.ctxt = none → d.curEnd = bc.length
  inner : ∀ c, d.ctxt = some c → c.outerEnd = bc.length

theorem fetchCase_ctxtItem (l : Limits) (constraint : Bool) (pt : Nat) (d : Dec) (pos : Nat) (ps : List Nat) (b : Book) (ts : List (Bool × Nat))
    (h : fetchCase l constraint pt d 34 pos ps = .ok (b, ts)) (hf : lastFail ts = none) :
    ∃ s skip, arg ps 0 = .ok s ∧ arg ps 1 = .ok skip ∧ pos + 1 + 2 + skip < d.curEnd ∧ d.inCtxt = false := by
  simp only [fetchCase, bind, Except.bind, pure, Except.pure] at h
  simp (config := { decide := true }) only [if_false, if_true, Nat.reduceEqDiff, Nat.reduceLeDiff, false_and, and_false, false_or, or_false, true_and, and_true, ite_false, ite_true] at h
  cases h0 : arg ps 0 with
  | error f => rw [h0] at h; cases h
  | ok s =>
    rw [h0] at h
    simp only [] at h
    cases h1 : arg ps 1 with
    | error f => rw [h1] at h; cases h
    | ok skip =>
      rw [h1] at h
      simp only [Except.ok.injEq, Prod.mk.injEq] at h
      obtain ⟨_, rfl⟩ := h
      have hm := lastFail_none_mem _ hf
      have a := hm _ (List.mem_cons_of_mem _ List.mem_cons_self)
      have c := hm _ (List.mem_cons_of_mem _ (List.mem_cons_of_mem _ List.mem_cons_self))
      simp at a c
      exact ⟨s, skip, rfl, rfl, by omega, c⟩

/-- one step of the loader's loop, for action and for constraint code: the opcode has an implementation of the kind asked for, the
position moves over the opcode byte and the operand bytes the table gives it, and the shape of the state is kept -/
theorem stepOp_adv (l : Limits) (cst : Bool) (pt : Nat) (bc : List Nat) (pos : Nat) (d : Dec) {pos' : Nat} {d' : Dec} (hI : CInv bc d)
    (e : stepOp l cst pt bc pos d = .ok (.ok (pos', d'))) :
    ∃ opc nm psz ia ic n, bc[pos]? = some opc ∧ opcodeTable[opc]? = some (nm, psz, ia, ic) ∧ (if cst = true then ic else ia) = true ∧
      paramCount bc pos psz = .ok n ∧ pos + n < d.curEnd ∧ pos' = pos + 1 + n ∧ CInv bc d' := by
  unfold stepOp at e
  simp only [bind, Except.bind, pure, Except.pure] at e
  cases h1 : byteAt bc pos with
  | error f => rw [h1] at e; cases e
  | ok opc =>
  rw [h1] at e
  simp only [] at e
  by_cases h67 : opc ≥ 67
  · rw [if_pos h67] at e; cases e
  rw [if_neg h67] at e
  cases ht : opcodeTable[opc]? with
  | none => rw [ht] at e; cases e
  | some row =>
  obtain ⟨nm, psz, implA, implC⟩ := row
  rw [ht] at e
  simp only [] at e
  by_cases himpl : (!(if cst = true then implC else implA)) = true
  · rw [if_pos himpl] at e; cases e
  rw [if_neg himpl] at e
  by_cases hva : psz = 255 ∧ pos + 1 ≥ d.curEnd
  · rw [if_pos hva] at e; cases e
  rw [if_neg hva] at e
  cases h2 : paramCount bc pos psz with
  | error f => rw [h2] at e; cases e
  | ok n =>
  rw [h2] at e
  simp only [] at e
  by_cases hex : pos + n ≥ d.curEnd
  · rw [if_pos hex] at e; cases e
  rw [if_neg hex] at e
  cases h3 : fetchCase l cst pt d opc pos ((bc.drop (pos + 1)).take n) with
  | error f => rw [h3] at e; cases e
  | ok bt =>
  obtain ⟨b1, tests⟩ := bt
  rw [h3] at e
  simp only [] at e
  cases hlf : lastFail tests with
  | some s0 => rw [hlf] at e; cases e
  | none =>
  rw [hlf] at e
  simp only [] at e
  cases h4 : analyse { d with outIndex := b1.outIndex, outLength := b1.outLength, stackDepth := b1.stackDepth } opc ((bc.drop (pos + 1)).take n) with
  | error f => rw [h4] at e; cases e
  | ok d2 =>
  rw [h4] at e
  simp only [] at e
  obtain ⟨hs, _⟩ := analyse_same _ _ _ h4
  have hb : bc[pos]? = some opc := by
    unfold byteAt at h1
    cases hq : bc[pos]? with
    | none => rw [hq] at h1; cases h1
    | some x => rw [hq] at h1; cases h1; rfl
  have hcap : (if cst = true then implC else implA) = true := by
    cases hv : (if cst = true then implC else implA) with
    | true => rfl
    | false => rw [hv] at himpl; exact absurd rfl himpl
  by_cases h34 : opc = 34
  · subst h34
    rw [if_pos rfl] at e
    obtain ⟨s, skip, ha0, ha1, hskip, hnot⟩ := fetchCase_ctxtItem l cst pt d pos _ b1 tests h3 hlf
    rw [ha0, ha1] at e
    simp only [Except.ok.injEq, Prod.mk.injEq] at e
    obtain ⟨rfl, rfl⟩ := e
    rw [row34] at ht
    simp only [Option.some.injEq, Prod.mk.injEq] at ht
    obtain ⟨rfl, rfl, rfl, rfl⟩ := ht
    have hn2 : n = 2 := by
      unfold paramCount at h2
      rw [if_neg (by decide)] at h2
      simp only [Except.ok.injEq] at h2
      exact h2.symm
    have hle := hI.le
    have hd0 := hI.flag hnot
    have hend := hI.outer hd0
    refine ⟨34, "CNTXT_ITEM", 2, false, true, n, hb, row34, hcap, h2, by omega, rfl, ?_⟩
    refine ⟨?_, fun hh => (by cases hh), fun hh => (by cases hh), fun c hc => ?_⟩
    · show pos + 1 + n + skip ≤ bc.length
      omega
    · simp only [Option.some.injEq] at hc
      subst hc
      exact hend
  · rw [if_neg h34] at e
    simp only [Except.ok.injEq, Prod.mk.injEq] at e
    obtain ⟨rfl, rfl⟩ := e
    refine ⟨opc, nm, psz, implA, implC, n, hb, ht, hcap, h2, by omega, rfl, ?_⟩
    have hce : d2.curEnd = d.curEnd := hs.curEnd
    have hcx : d2.ctxt = d.ctxt := hs.ctxt
    have hic : d2.inCtxt = d.inCtxt := hs.inCtxt
    refine ⟨?_, ?_, ?_, ?_⟩
    · show d2.curEnd ≤ bc.length
      rw [hce]; exact hI.le
    · show d2.inCtxt = false → d2.ctxt = none
      rw [hic, hcx]; exact hI.flag
    · show d2.ctxt = none → d2.curEnd = bc.length
      rw [hce, hcx]; exact hI.outer
    · show ∀ c, d2.ctxt = some c → c.outerEnd = bc.length
      rw [hcx]; exact hI.inner

theorem closeCtxt_cinv (bc : List Nat) (d : Dec) (c : OpenCtxt) (hI : CInv bc d) (hc : d.ctxt = some c) : CInv bc (closeCtxt d c) := by
  have := hI.inner c hc
  unfold closeCtxt
  exact ⟨Nat.le_of_eq this, fun _ => rfl, fun _ => this, fun c' hc' => (by cases hc')⟩

/-- the loader's loop and the pipeline model's `decode` walk the bytes in the same steps, and every opcode on the way has an
implementation of the kind the loader was asked for -/
theorem loop_walk (l : Limits) (cst : Bool) (pt : Nat) (bc : List Nat) : ∀ (fuel pos : Nat) (d : Dec), CInv bc d →
    ∀ {dfin : Dec}, loop l cst pt bc fuel pos d = .ok (.ok dfin) → ∀ f2, bc.length - pos + 1 ≤ f2 →
      ∃ tail, Action.decode f2 (bc.drop pos) = some tail ∧ ∀ i ∈ tail, capable cst i.1 := by
  intro fuel
  induction fuel with
  | zero => intro pos d _ dfin e; unfold loop at e; cases e
  | succ f ih =>
    intro pos d hI dfin e f2 hf2
    unfold loop at e
    split at e
    · rename_i hge
      cases hc : d.ctxt with
      | none =>
        have := hI.outer hc
        rw [List.drop_eq_nil_of_le (by omega), decode_nil]
        exact ⟨[], rfl, fun i hi => by cases hi⟩
      | some c =>
        rw [hc] at e
        simp only [] at e
        exact ih pos _ (closeCtxt_cinv bc d c hI hc) e f2 hf2
    · rename_i hlt
      cases hs : stepOp l cst pt bc pos d with
      | error ff => rw [hs] at e; cases e
      | ok r =>
        rw [hs] at e
        cases r with
        | error s => cases e
        | ok pd =>
          obtain ⟨pos', d'⟩ := pd
          simp only [] at e
          obtain ⟨opc, nm, psz, ia, ic, n, hb, ht, hcap, hpc, hn, hpos', hI'⟩ := stepOp_adv l cst pt bc pos d hI hs
          have hle := hI.le
          have hposlt : pos < bc.length := (List.getElem?_eq_some_iff.mp hb).1
          have hdrop : bc.drop pos = opc :: bc.drop (pos + 1) := by
            rw [List.drop_eq_getElem_cons hposlt]
            have := (List.getElem?_eq_some_iff.mp hb).2
            rw [this]
          cases f2 with
          | zero => omega
          | succ g =>
            obtain ⟨tail, htail, hall⟩ := ih pos' d' hI' e g (by omega)
            have hn' : (if psz = 255 then (bc.drop (pos + 1)).headD 0 + 1 else psz) = n := by
              unfold paramCount at hpc
              by_cases h255 : psz = 255
              · rw [if_pos h255] at hpc ⊢
                cases hq : byteAt bc (pos + 1) with
                | error ee => rw [hq] at hpc; cases hpc
                | ok k =>
                  rw [hq] at hpc
                  simp only [Except.ok.injEq] at hpc
                  unfold byteAt at hq
                  cases hk : bc[pos + 1]? with
                  | none => rw [hk] at hq; cases hq
                  | some x =>
                    rw [hk] at hq
                    simp only [Except.ok.injEq] at hq
                    have hlt1 : pos + 1 < bc.length := (List.getElem?_eq_some_iff.mp hk).1
                    rw [List.drop_eq_getElem_cons hlt1]
                    have := (List.getElem?_eq_some_iff.mp hk).2
                    simp only [List.headD_cons]
                    omega
              · rw [if_neg h255] at hpc ⊢
                simp only [Except.ok.injEq] at hpc
                exact hpc
            refine ⟨(opc, (bc.drop (pos + 1)).take n) :: tail, ?_, ?_⟩
            · rw [hdrop]
              unfold Action.decode
              simp only [ht]
              rw [hn']
              rw [if_neg (by simp only [List.length_drop]; omega)]
              rw [List.drop_drop, show pos + 1 + n = pos' by omega, htail]
            · intro i hi
              rcases List.mem_cons.mp hi with rfl | hi
              · exact ⟨nm, psz, ia, ic, ht, hcap⟩
              · exact hall i hi

/-! ## no opcode with a constraint implementation moves the cursor or writes through it -/

/-- the opcodes `curStep` looks at -/
def cursorOp (opc : Nat) : Bool :=
  opc = 25 || opc = 27 || opc = 31 || opc = 32 || opc = 33 || opc = 59 || opc = 56 || opc = 35 || opc = 36 || opc = 37 || opc = 38 || opc = 28 || opc = 29

theorem curStep_other (c : Cur) (i : Instr) (h : cursorOp i.1 = false) : curStep c i = some c := by
  unfold cursorOp at h
  simp only [Bool.or_eq_false_iff, decide_eq_false_iff_not] at h
  unfold curStep
  simp only []
  rw [if_neg (by omega), if_neg (by omega), if_neg (by omega), if_neg (by omega)]

/-- the regenerated opcode table gives none of them a constraint implementation -/
theorem constraint_table : ∀ opc, opc < 70 →
    (match opcodeTable[opc]? with | some (_, _, _, ic) => ic | none => false) = true → cursorOp opc = false := by decide

theorem capable_constraint {opc : Nat} (h : capable true opc) : cursorOp opc = false := by
  obtain ⟨nm, psz, ia, ic, ht, hc⟩ := h
  have hlt : opc < 70 := by
    have := (List.getElem?_eq_some_iff.mp ht).1
    have hlen : opcodeTable.length ≤ 70 := by decide
    omega
  apply constraint_table opc hlt
  rw [ht]
  simpa using hc

theorem curRun_constraint : ∀ (is : List Instr) (c : Cur), (∀ i ∈ is, capable true i.1) → curRun c is = some c := by
  intro is
  induction is with
  | nil => intro c _; rfl
  | cons i rest ih =>
    intro c h
    unfold curRun
    rw [curStep_other c i (capable_constraint (h i List.mem_cons_self))]
    exact ih c (fun j hj => h j (List.mem_cons_of_mem _ hj))

/-- **What the loader accepts as constraint code is `codeOK`** – the constraint half of `ruleOK` and the pass-constraint clause of `passOK` -/
theorem accepted_constraint_is_codeOK (l : Limits) (pt : Nat) (bc : List Nat) (op : Option Loaded)
    (h : load l true pt bc = .ok (.ok op)) (cur : Cur) (hd : cur.dels = false) : Pass.codeOK cur bc false = true := by
  unfold load at h
  simp only [bind, Except.bind, pure, Except.pure, if_true] at h
  cases hl : loop l true pt bc (2 * bc.length + 2) 0 { outIndex := 0, outLength := 1, curEnd := bc.length } with
  | error f => rw [hl] at h; cases h
  | ok r =>
    rw [hl] at h
    cases r with
    | error s => cases h
    | ok d =>
      obtain ⟨tail, hdec, hall⟩ := loop_walk l true pt bc _ 0 _ ⟨Nat.le_refl _, fun _ => rfl, fun _ => rfl, fun c hc => (by cases hc)⟩ hl (bc.length + 1) (by omega)
      simp only [List.drop_zero] at hdec
      unfold Pass.codeOK Pass.mkCode
      rw [hdec]
      simp only [Bool.false_eq_true, if_false]
      rw [curRun_constraint tail cur hall]
      simp only [hd, Bool.not_false, Bool.true_or]

end GrVerif.CodeLoad

import GrVerif.Proofs.Lz4
/-! What the copy routines of the LZ4 decoder model leave in the output buffer (towards `lz4_sound`). -/
set_option linter.unusedSimpArgs false
set_option linter.unusedVariables false
namespace GrVerif.Lz4
open GrVerif

theorem getD_set (c : Buf) (i v u : Nat) : (c.setIfInBounds i v).getD u 0 = if u = i ∧ i < c.size then v else c.getD u 0 := by
  simp only [Array.getD_eq_getD_getElem?, Array.getElem?_setIfInBounds]
  by_cases h : i = u
  · subst h
    by_cases h2 : i < c.size
    · simp [h2]
    · simp [h2]
  · have : ¬ u = i := fun e => h e.symm
    simp [h, this]

theorem rd_eq {b : Buf} {i v : Nat} (h : rd b i = .ok v) : i < b.size ∧ v = b.getD i 0 := by
  unfold rd at h
  by_cases hi : i < b.size
  · simp only [hi, dite_true] at h
    cases h
    exact ⟨hi, by simp [Array.getD_eq_getD_getElem?, hi]⟩
  · simp [hi] at h

theorem wr_eq {b o : Buf} {i v : Nat} (h : wr b i v = .ok o) : i < b.size ∧ o = b.setIfInBounds i v := by
  unfold wr at h
  by_cases hi : i < b.size
  · simp only [hi, if_true] at h; cases h; exact ⟨hi, rfl⟩
  · simp [hi] at h

theorem readN_eq (b : Buf) : ∀ n s vs, readN b s n = .ok vs → vs.length = n ∧ ∀ j, j < n → vs.getD j 0 = b.getD (s + j) 0 := by
  intro n
  induction n with
  | zero => intro s vs h; simp only [readN] at h; cases h; exact ⟨rfl, fun j hj => by omega⟩
  | succ n ih =>
    intro s vs h
    simp only [readN, bind, Except.bind, pure, Except.pure] at h
    cases hr : rd b s with
    | error e => rw [hr] at h; cases h
    | ok v =>
      rw [hr] at h
      simp only [] at h
      cases hn : readN b (s + 1) n with
      | error e => rw [hn] at h; cases h
      | ok ws =>
        rw [hn] at h
        simp only [] at h
        cases h
        obtain ⟨l1, l2⟩ := ih (s + 1) ws hn
        refine ⟨by simp [l1], fun j hj => ?_⟩
        cases j with
        | zero => simp only [List.getD_cons_zero, Nat.add_zero]; exact (rd_eq hr).2
        | succ j => simp only [List.getD_cons_succ]; rw [l2 j (by omega)]; congr 1; omega

theorem writeL_eq : ∀ (vs : List Nat) (out : Buf) (d : Nat) (o : Buf), writeL out d vs = .ok o →
    o.size = out.size ∧ ∀ i, o.getD i 0 = if d ≤ i ∧ i < d + vs.length then vs.getD (i - d) 0 else out.getD i 0 := by
  intro vs
  induction vs with
  | nil => intro out d o h; simp only [writeL] at h; cases h; exact ⟨rfl, fun i => by rw [if_neg]; simp⟩
  | cons v vs ih =>
    intro out d o h
    simp only [writeL, bind, Except.bind] at h
    cases hw : wr out d v with
    | error e => rw [hw] at h; cases h
    | ok o1 =>
      rw [hw] at h
      simp only [] at h
      obtain ⟨hd, e1⟩ := wr_eq hw
      obtain ⟨s2, p2⟩ := ih o1 (d + 1) o h
      refine ⟨by rw [s2, e1, Array.size_setIfInBounds], fun i => ?_⟩
      rw [p2 i, e1, getD_set]
      simp only [List.length_cons]
      by_cases h1 : d + 1 ≤ i ∧ i < d + 1 + vs.length
      · rw [if_pos h1, if_pos (by omega)]
        have : i - d = (i - (d + 1)) + 1 := by omega
        rw [this, List.getD_cons_succ]
      · rw [if_neg h1]
        by_cases h2 : i = d
        · rw [if_pos ⟨h2, hd⟩, if_pos (by omega), h2, Nat.sub_self, List.getD_cons_zero]
        · rw [if_neg (fun h => h2 h.1), if_neg (by omega)]

/-- a word copied from the input -/
theorem copyWordFrom_eq (src out o : Buf) (s d : Nat) (h : copyWordFrom src s d out = .ok o) :
    o.size = out.size ∧ ∀ i, o.getD i 0 = if d ≤ i ∧ i < d + WS then src.getD (s + (i - d)) 0 else out.getD i 0 := by
  simp only [copyWordFrom, bind, Except.bind] at h
  cases hr : readN src s WS with
  | error e => rw [hr] at h; cases h
  | ok vs =>
    rw [hr] at h
    simp only [] at h
    obtain ⟨l1, l2⟩ := readN_eq src WS s vs hr
    obtain ⟨s1, p1⟩ := writeL_eq vs out d o h
    refine ⟨s1, fun i => ?_⟩
    rw [p1 i, l1]
    by_cases hi : d ≤ i ∧ i < d + WS
    · rw [if_pos hi, if_pos hi, l2 (i - d) (by omega)]
    · rw [if_neg hi, if_neg hi]

/-- a word copied within the output -/
theorem copyWordSelf_eq (out o : Buf) (s d : Nat) (h : copyWordSelf s d out = .ok o) :
    o.size = out.size ∧ ∀ i, o.getD i 0 = if d ≤ i ∧ i < d + WS then out.getD (s + (i - d)) 0 else out.getD i 0 := by
  simp only [copyWordSelf, bind, Except.bind] at h
  cases hr : readN out s WS with
  | error e => rw [hr] at h; cases h
  | ok vs =>
    rw [hr] at h
    simp only [] at h
    obtain ⟨l1, l2⟩ := readN_eq out WS s vs hr
    obtain ⟨s1, p1⟩ := writeL_eq vs out d o h
    refine ⟨s1, fun i => ?_⟩
    rw [p1 i, l1]
    by_cases hi : d ≤ i ∧ i < d + WS
    · rw [if_pos hi, if_pos hi, l2 (i - d) (by omega)]
    · rw [if_neg hi, if_neg hi]

/-- `overrun_copy` from the input: `w` whole words -/
theorem overrunFrom_eq (src : Buf) : ∀ w s d (out o : Buf), overrunFrom src w s d out = .ok o →
    o.size = out.size ∧ ∀ i, o.getD i 0 = if d ≤ i ∧ i < d + w * WS then src.getD (s + (i - d)) 0 else out.getD i 0 := by
  intro w
  induction w with
  | zero => intro s d out o h; simp only [overrunFrom] at h; cases h; exact ⟨rfl, fun i => by rw [if_neg]; omega⟩
  | succ w ih =>
    intro s d out o h
    simp only [overrunFrom, bind, Except.bind] at h
    cases hc : copyWordFrom src s d out with
    | error e => rw [hc] at h; cases h
    | ok o1 =>
      rw [hc] at h
      simp only [] at h
      obtain ⟨s1, p1⟩ := copyWordFrom_eq src out o1 s d hc
      obtain ⟨s2, p2⟩ := ih (s + WS) (d + WS) o1 o h
      refine ⟨by omega, fun i => ?_⟩
      rw [p2 i, p1 i]
      have e : (w + 1) * WS = w * WS + WS := by rw [Nat.add_mul]; simp
      rw [e]
      by_cases h1 : d + WS ≤ i ∧ i < d + WS + w * WS
      · rw [if_pos h1, if_pos (by omega)]; congr 1; omega
      · rw [if_neg h1]
        by_cases h2 : d ≤ i ∧ i < d + WS
        · rw [if_pos h2, if_pos (by omega)]
        · rw [if_neg h2, if_neg (by omega)]

/-- `safe_copy` from the input -/
theorem safeFrom_eq (src : Buf) : ∀ n s d (out o : Buf), safeFrom src n s d out = .ok o →
    o.size = out.size ∧ ∀ i, o.getD i 0 = if d ≤ i ∧ i < d + n then src.getD (s + (i - d)) 0 else out.getD i 0 := by
  intro n
  induction n with
  | zero => intro s d out o h; simp only [safeFrom] at h; cases h; exact ⟨rfl, fun i => by rw [if_neg]; omega⟩
  | succ n ih =>
    intro s d out o h
    simp only [safeFrom, bind, Except.bind] at h
    cases hr : rd src s with
    | error e => rw [hr] at h; cases h
    | ok v =>
      rw [hr] at h
      simp only [] at h
      cases hw : wr out d v with
      | error e => rw [hw] at h; cases h
      | ok o1 =>
        rw [hw] at h
        simp only [] at h
        obtain ⟨hd, e1⟩ := wr_eq hw
        obtain ⟨s2, p2⟩ := ih (s + 1) (d + 1) o1 o h
        refine ⟨by rw [s2, e1, Array.size_setIfInBounds], fun i => ?_⟩
        rw [p2 i, e1, getD_set]
        by_cases h1 : d + 1 ≤ i ∧ i < d + 1 + n
        · rw [if_pos h1, if_pos (by omega)]; congr 1; omega
        · rw [if_neg h1]
          by_cases h2 : i = d
          · rw [if_pos ⟨h2, hd⟩, if_pos (by omega), h2, Nat.sub_self, Nat.add_zero]; exact (rd_eq hr).2
          · rw [if_neg (fun h => h2 h.1), if_neg (by omega)]

/-- `fast_copy` from the input -/
theorem fastFrom_eq (src out o : Buf) (n s d : Nat) (h : fastFrom src n s d out = .ok o) :
    o.size = out.size ∧ ∀ i, o.getD i 0 = if d ≤ i ∧ i < d + n then src.getD (s + (i - d)) 0 else out.getD i 0 := by
  simp only [fastFrom, bind, Except.bind] at h
  cases hc : overrunFrom src (n / WS) s d out with
  | error e => rw [hc] at h; cases h
  | ok o1 =>
    rw [hc] at h
    simp only [] at h
    obtain ⟨s1, p1⟩ := overrunFrom_eq src (n / WS) s d out o1 hc
    obtain ⟨s2, p2⟩ := safeFrom_eq src (n % WS) (s + n / WS * WS) (d + n / WS * WS) o1 o h
    have hw : n / WS * WS + n % WS = n := Nat.div_add_mod' n WS
    refine ⟨by omega, fun i => ?_⟩
    rw [p2 i, p1 i]
    by_cases h1 : d + n / WS * WS ≤ i ∧ i < d + n / WS * WS + n % WS
    · rw [if_pos h1, if_pos (by omega)]; congr 1; omega
    · rw [if_neg h1]
      by_cases h2 : d ≤ i ∧ i < d + n / WS * WS
      · rw [if_pos h2, if_pos (by omega)]
      · rw [if_neg h2, if_neg (by omega)]

/-- `overrun_copy` within the output, source more than a word behind the destination: the bytes below `d` stay, and every byte written is
the byte `d - s` before it -/
theorem overrunSelf_eq : ∀ w s d (out o : Buf), s + WS < d → overrunSelf w s d out = .ok o →
    o.size = out.size ∧ (∀ i, i < d → o.getD i 0 = out.getD i 0) ∧ (∀ i, i < w * WS → o.getD (d + i) 0 = o.getD (s + i) 0) := by
  intro w
  induction w with
  | zero => intro s d out o _ h; simp only [overrunSelf] at h; cases h; exact ⟨rfl, fun i _ => rfl, fun i hi => by omega⟩
  | succ w ih =>
    intro s d out o hgap h
    simp only [overrunSelf, bind, Except.bind] at h
    cases hc : copyWordSelf s d out with
    | error e => rw [hc] at h; cases h
    | ok o1 =>
      rw [hc] at h
      simp only [] at h
      obtain ⟨s1, p1⟩ := copyWordSelf_eq out o1 s d hc
      obtain ⟨s2, p2, p3⟩ := ih (s + WS) (d + WS) o1 o (by omega) h
      have e : (w + 1) * WS = w * WS + WS := by rw [Nat.add_mul]; simp
      refine ⟨by omega, fun i hi => ?_, fun i hi => ?_⟩
      · rw [p2 i (by omega), p1 i, if_neg (by omega)]
      · by_cases h8 : i < WS
        · rw [p2 (d + i) (by omega), p1 (d + i), if_pos (by omega), p2 (s + i) (by omega), p1 (s + i), if_neg (by omega)]
          congr 1; omega
        · have := p3 (i - WS) (by omega)
          rw [show d + WS + (i - WS) = d + i by omega, show s + WS + (i - WS) = s + i by omega] at this
          exact this

/-- `safe_copy` within the output, source behind the destination -/
theorem safeSelf_eq : ∀ n s d (out o : Buf), s < d → safeSelf n s d out = .ok o →
    o.size = out.size ∧ (∀ i, i < d → o.getD i 0 = out.getD i 0) ∧ (∀ i, i < n → o.getD (d + i) 0 = o.getD (s + i) 0) := by
  intro n
  induction n with
  | zero => intro s d out o _ h; simp only [safeSelf] at h; cases h; exact ⟨rfl, fun i _ => rfl, fun i hi => by omega⟩
  | succ n ih =>
    intro s d out o hgap h
    simp only [safeSelf, bind, Except.bind] at h
    cases hr : rd out s with
    | error e => rw [hr] at h; cases h
    | ok v =>
      rw [hr] at h
      simp only [] at h
      cases hw : wr out d v with
      | error e => rw [hw] at h; cases h
      | ok o1 =>
        rw [hw] at h
        simp only [] at h
        obtain ⟨hd, e1⟩ := wr_eq hw
        obtain ⟨s2, p2, p3⟩ := ih (s + 1) (d + 1) o1 o (by omega) h
        refine ⟨by rw [s2, e1, Array.size_setIfInBounds], fun i hi => ?_, fun i hi => ?_⟩
        · rw [p2 i (by omega), e1, getD_set, if_neg (by omega)]
        · cases i with
          | zero =>
            rw [Nat.add_zero, Nat.add_zero, p2 d (by omega), p2 s (by omega), e1, getD_set, getD_set, if_pos ⟨rfl, hd⟩, if_neg (by omega)]
            exact (rd_eq hr).2
          | succ i =>
            have := p3 i (by omega)
            rw [show d + 1 + i = d + (i + 1) by omega, show s + 1 + i = s + (i + 1) by omega] at this
            exact this

end GrVerif.Lz4

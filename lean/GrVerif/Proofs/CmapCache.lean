import GrVerif.Proofs.CmapDirect
set_option linter.unusedVariables false
set_option linter.unusedSimpArgs false
/-!
# Building the cached cmap never reads outside the cmap table   (C13, C01)

`CachedCmap::CachedCmap`: `cache_subtable` walks a subtable with `CmapSubtable4/12NextCodepoint` and looks every code point up, carrying a
*range key* from one call to the next.  The key a call returns may be one past the last range – but only together with the final code
point, at which the walk stops; so every call is made with a key that names a range (`key < nRange`), which is what keeps
`NextCodepoint` (whose backward scan starts at the key) and the keyed look-up inside the subtable.
-/
namespace GrVerif.Cmap
open GrVerif GrVerif.Props.C13
open GrVerif.Feat (be16 be32)

/-- the reader ends without a fault and its result satisfies `Q` -/
def TQ {α : Type} (Q : α → Prop) (r : Except Fault α) : Prop := ∃ v, r = .ok v ∧ Q v

theorem TQ.pure {α : Type} {Q : α → Prop} (x : α) (h : Q x) : TQ Q (pure x : Except Fault α) := ⟨x, rfl, h⟩
theorem TQ.ite {α : Type} {Q : α → Prop} {c : Prop} [Decidable c] {a b : Except Fault α} (ha : c → TQ Q a) (hb : ¬ c → TQ Q b) : TQ Q (if c then a else b) := by
  by_cases h : c
  · rw [if_pos h]; exact ha h
  · rw [if_neg h]; exact hb h
theorem TQ.b16 {α : Type} {Q : α → Prop} {t : Buf} {i : Nat} {k : Nat → Except Fault α} (hi : i + 2 ≤ t.size) (h : ∀ v, TQ Q (k v)) : TQ Q (be16 t i >>= k) := by
  obtain ⟨v, e⟩ := rd16_ok t i hi; rw [e]; exact h v
theorem TQ.b32 {α : Type} {Q : α → Prop} {t : Buf} {i : Nat} {k : Nat → Except Fault α} (hi : i + 4 ≤ t.size) (h : ∀ v, TQ Q (k v)) : TQ Q (be32 t i >>= k) := by
  obtain ⟨v, e⟩ := rd32_ok t i hi; rw [e]; exact h v
theorem TQ.bind {α β : Type} {Q : α → Prop} {P : β → Prop} {r : Except Fault β} {k : β → Except Fault α} (hr : TQ P r) (h : ∀ v, P v → TQ Q (k v)) : TQ Q (r >>= k) := by
  obtain ⟨v, e, hv⟩ := hr; rw [e]; exact h v hv

/-! ## the two scans of `NextCodepoint` (shared shape of format 4 and 12) -/

theorem next4_down_ok (t : Buf) (usv K : Nat) (startIdx : Nat → Nat) (hs : ∀ j, j ≤ K → startIdx j + 2 ≤ t.size) :
    ∀ fuel i, i ≤ K → TQ (fun r => r ≤ K) (next4.down t usv startIdx fuel i) := by
  intro fuel
  induction fuel with
  | zero => intro i hi; exact TQ.pure _ hi
  | succ fuel ih =>
    intro i hi
    unfold next4.down
    refine TQ.ite (fun hpos => ?_) (fun _ => TQ.pure _ hi)
    refine TQ.b16 (hs i hi) fun s => ?_
    exact TQ.ite (fun _ => ih (i - 1) (by omega)) (fun _ => TQ.pure _ hi)

theorem next4_up_ok (t : Buf) (usv nRange K : Nat) (endIdx : Nat → Nat) (he : ∀ j, j + 1 < nRange → endIdx j + 2 ≤ t.size) (hK : nRange ≤ K + 1) :
    ∀ fuel i, i ≤ K → TQ (fun r => r ≤ K) (next4.up t usv nRange endIdx fuel i) := by
  intro fuel
  induction fuel with
  | zero => intro i hi; exact TQ.pure _ hi
  | succ fuel ih =>
    intro i hi
    unfold next4.up
    refine TQ.ite (fun hlt => ?_) (fun _ => TQ.pure _ hi)
    refine TQ.b16 (he i hlt) fun s => ?_
    exact TQ.ite (fun _ => ih (i + 1) (by omega)) (fun _ => TQ.pure _ hi)

theorem next12_down_ok (t : Buf) (usv K : Nat) (startIdx : Nat → Nat) (hs : ∀ j, j ≤ K → startIdx j + 4 ≤ t.size) :
    ∀ fuel i, i ≤ K → TQ (fun r => r ≤ K) (next12.down t usv startIdx fuel i) := by
  intro fuel
  induction fuel with
  | zero => intro i hi; exact TQ.pure _ hi
  | succ fuel ih =>
    intro i hi
    unfold next12.down
    refine TQ.ite (fun hpos => ?_) (fun _ => TQ.pure _ hi)
    refine TQ.b32 (hs i hi) fun s => ?_
    exact TQ.ite (fun _ => ih (i - 1) (by omega)) (fun _ => TQ.pure _ hi)

theorem next12_up_ok (t : Buf) (usv nRange K : Nat) (endIdx : Nat → Nat) (he : ∀ j, j + 1 < nRange → endIdx j + 4 ≤ t.size) (hK : nRange ≤ K + 1) :
    ∀ fuel i, i ≤ K → TQ (fun r => r ≤ K) (next12.up t usv nRange endIdx fuel i) := by
  intro fuel
  induction fuel with
  | zero => intro i hi; exact TQ.pure _ hi
  | succ fuel ih =>
    intro i hi
    unfold next12.up
    refine TQ.ite (fun hlt => ?_) (fun _ => TQ.pure _ hi)
    refine TQ.b32 (he i hlt) fun s => ?_
    exact TQ.ite (fun _ => ih (i + 1) (by omega)) (fun _ => TQ.pure _ hi)

/-! ## `NextCodepoint` with a key that names a range -/

/-- `CmapSubtable4NextCodepoint` on a checked subtable, called with a key below the number of ranges: in bounds, and unless it answers
the final code point the key it hands back names a range again -/
theorem next4_ok (t : Buf) (o : Nat) (h : check4 t (some o) = .ok true) (x : Nat) (hx : be16 t (o + 6) = .ok x) (usv key : Nat) (hk : key < x / 2) :
    TQ (fun r => r.1 < 0xFFFF → r.2 < x / 2) (next4 t o usv key) := by
  obtain ⟨x', len, hx', hlen, hn0, hl, hsz⟩ := check4_facts t o h
  rw [hx] at hx'; cases hx'
  unfold next4
  rw [hx]
  show TQ _ (Except.ok x >>= _)
  simp only [bind, Except.bind]
  refine TQ.ite (fun _ => TQ.b16 (by omega) fun s => TQ.pure _ (fun _ => by show 0 < x / 2; omega)) fun _ => ?_
  refine TQ.ite (fun _ => TQ.pure _ (fun hlt => by simp at hlt)) fun _ => ?_
  refine TQ.bind (next4_down_ok t usv (x / 2 - 1) _ (fun j hj => by omega) (key + 1) key (by omega)) fun i hi => ?_
  refine TQ.bind (next4_up_ok t usv (x / 2) (x / 2 - 1) _ (fun j hj => by omega) (by omega) (x / 2 + 1) i hi) fun i2 hi2 => ?_
  refine TQ.b16 (by omega) fun ns => ?_
  refine TQ.b16 (by omega) fun ne => ?_
  refine TQ.ite (fun _ => TQ.pure _ (fun _ => by show i2 < x / 2; omega)) fun _ => ?_
  refine TQ.ite (fun _ => TQ.pure _ (fun hlt => by simp at hlt)) fun hlt => ?_
  exact TQ.b16 (by omega) fun s => TQ.pure _ (fun _ => by show i2 + 1 < x / 2; omega)

theorem next12_ok (t : Buf) (o : Nat) (h : check12 t (some o) = .ok true) (n : Nat) (hn : be32 t (o + 12) = .ok n) (usv key : Nat) (hk : key < n) :
    TQ (fun r => r.1 < 0x10FFFF → r.2 < n) (next12 t o usv key) := by
  obtain ⟨n', hn', hn0, hsz⟩ := check12_facts t o h
  rw [hn] at hn'; cases hn'
  unfold next12
  rw [hn]
  simp only [bind, Except.bind]
  refine TQ.ite (fun _ => TQ.b32 (by omega) fun s => TQ.pure _ (fun _ => by show 0 < n; omega)) fun _ => ?_
  refine TQ.ite (fun _ => TQ.pure _ (fun hlt => by simp at hlt)) fun _ => ?_
  refine TQ.bind (next12_down_ok t usv (n - 1) _ (fun j hj => by omega) (key + 1) key (by omega)) fun i hi => ?_
  refine TQ.bind (next12_up_ok t usv n (n - 1) _ (fun j hj => by omega) (by omega) (n + 1) i hi) fun i2 hi2 => ?_
  refine TQ.b32 (by omega) fun ns => ?_
  refine TQ.b32 (by omega) fun ne => ?_
  refine TQ.ite (fun _ => TQ.pure _ (fun _ => by show i2 < n; omega)) fun _ => ?_
  refine TQ.ite (fun _ => TQ.pure _ (fun hlt => by simp at hlt)) fun hlt => ?_
  exact TQ.b32 (by omega) fun s => TQ.pure _ (fun _ => by show i2 + 1 < n; omega)

/-! ## `cache_subtable` -/

theorem TQ.ok {α : Type} {Q : α → Prop} (x : α) (h : Q x) : TQ Q (Except.ok x : Except Fault α) := ⟨x, rfl, h⟩
theorem TQ.of_ex {α : Type} {r : Except Fault α} (h : ∃ v, r = .ok v) : TQ (fun _ => True) r := by
  obtain ⟨v, e⟩ := h; exact ⟨v, e, trivial⟩
theorem TQ.weaken {α : Type} {Q : α → Prop} {r : Except Fault α} (h : TQ Q r) : TQ (fun _ => True) r := by
  obtain ⟨v, e, _⟩ := h; exact ⟨v, e, trivial⟩

/-- the walk: as long as `NextCodepoint` and the keyed look-up are safe for keys that name a range, and `NextCodepoint` hands such a
key back unless it answers the limit, the whole walk is safe -/
theorem cacheLoop_ok (nxt : Nat → Nat → Except Fault (Nat × Nat)) (lk : Nat → Nat → Except Fault Nat) (limit N : Nat) (hN : 0 < N)
    (hnxt : ∀ usv key, key < N → TQ (fun r => r.1 < limit → r.2 < N) (nxt usv key))
    (hlk : ∀ usv key, key < N → ∃ g, lk usv key = .ok g) :
    ∀ fuel cp prev key c, (cp < limit → key < N) → TQ (fun _ => True) (cacheLoop nxt lk limit fuel cp prev key c) := by
  intro fuel
  induction fuel with
  | zero => intro cp prev key c _; exact TQ.ok _ trivial
  | succ fuel ih =>
    intro cp prev key c hkey
    unfold cacheLoop
    refine TQ.ite (fun _ => TQ.ok _ trivial) fun hl => ?_
    have hk := hkey (by omega)
    refine TQ.bind (TQ.of_ex (hlk cp key hk)) fun g _ => ?_
    dsimp only
    refine TQ.ite (fun _ => ?_) (fun _ => ?_)
    · refine TQ.bind (P := fun _ => True) (TQ.bind (TQ.of_ex (hlk _ 0 hN)) fun g' _ => TQ.pure _ trivial) fun c2 _ => ?_
      refine TQ.bind (hnxt _ key hk) fun r hr => ?_
      exact ih r.1 _ r.2 c2 hr
    · refine TQ.bind (P := fun _ => True) (TQ.pure _ trivial) fun c2 _ => ?_
      refine TQ.bind (hnxt _ key hk) fun r hr => ?_
      exact ih r.1 _ r.2 c2 hr

theorem cacheSubtable_ok (nxt : Nat → Nat → Except Fault (Nat × Nat)) (lk : Nat → Nat → Except Fault Nat) (limit N : Nat) (hN : 0 < N)
    (hnxt : ∀ usv key, key < N → TQ (fun r => r.1 < limit → r.2 < N) (nxt usv key))
    (hlk : ∀ usv key, key < N → ∃ g, lk usv key = .ok g) (c : Cache) : TQ (fun _ => True) (cacheSubtable nxt lk limit c) := by
  unfold cacheSubtable
  refine TQ.bind (hnxt 0 0 hN) fun r hr => ?_
  exact cacheLoop_ok nxt lk limit N hN hnxt hlk _ r.1 0 r.2 c hr

/-- **the cached cmap** (`CachedCmap::CachedCmap`): for every cmap table `Face::Table` hands out, finding and checking the subtables, walking
them with `NextCodepoint` and looking every code point up – the whole construction of the cache – reads nothing outside the table -/
theorem buildCached_total (t : Buf) (h4 : 4 ≤ t.size) : ∃ m, buildCached t = .ok m := by
  obtain ⟨bmp, eb⟩ := bmpSubtable_total t h4
  obtain ⟨smp, es⟩ := smpSubtable_total t h4
  have h12 : ∀ o, smp = some o → ∀ c, TQ (fun _ => True) (cacheSubtable (next12 t o) (lookup12 t o) 0x10FFFF c) ∧ ∃ g, lookup12 t o 0x10FFFF 0 = .ok g := by
    intro o ho c
    subst ho
    have hc := smp_checked t o es
    obtain ⟨n, hn, hn0, hsz⟩ := check12_facts t o hc
    exact ⟨cacheSubtable_ok _ _ _ n (by omega) (fun usv key hk => next12_ok t o hc n hn usv key hk) (fun usv key _ => lookup12_in_bounds t o hc usv key) c,
      lookup12_in_bounds t o hc _ 0⟩
  have h4' : ∀ o, bmp = some o → ∀ c, TQ (fun _ => True) (cacheSubtable (next4 t o) (lookup4 t o) 0xFFFF c) ∧ ∃ g, lookup4 t o 0xFFFF 0 = .ok g := by
    intro o ho c
    subst ho
    have hc := bmp_checked t o eb
    obtain ⟨x, len, hx, hlen, hn0, hl, hsz⟩ := check4_facts t o hc
    exact ⟨cacheSubtable_ok _ _ _ (x / 2) (by omega) (fun usv key hk => next4_ok t o hc x hx usv key hk)
        (fun usv key hk => lookup4_in_bounds t o hc usv key (by intro y hy; rw [hx] at hy; cases hy; exact hk)) c,
      direct_lookup4_in_bounds t o hc _⟩
  unfold buildCached
  simp only [bind, Except.bind, pure, Except.pure, eb, es]
  cases smp with
  | none =>
    simp only []
    cases bmp with
    | none => exact ⟨_, rfl⟩
    | some o =>
      simp only []
      obtain ⟨⟨c1, e1, _⟩, ⟨g, eg⟩⟩ := h4' o rfl (Array.replicate (if (none : Option Nat).isNone = true then 0x10000 else 0x110000) 0)
      rw [e1]
      simp only [eg]
      exact ⟨_, rfl⟩
  | some o12 =>
    simp only []
    obtain ⟨⟨c1, e1, _⟩, ⟨g, eg⟩⟩ := h12 o12 rfl (Array.replicate (if (some o12 : Option Nat).isNone = true then 0x10000 else 0x110000) 0)
    rw [e1]
    simp only [eg]
    cases bmp with
    | none => exact ⟨_, rfl⟩
    | some o =>
      simp only []
      obtain ⟨⟨c2, e2, _⟩, ⟨g2, eg2⟩⟩ := h4' o rfl (if g ≠ 0 then ((Array.replicate 0x10000 0) ++ c1.extract 0x10000 c1.size).setIfInBounds 0x10FFFF g else (Array.replicate 0x10000 0) ++ c1.extract 0x10000 c1.size)
      rw [e2]
      simp only [eg2]
      exact ⟨_, rfl⟩

end GrVerif.Cmap

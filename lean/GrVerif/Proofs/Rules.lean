import GrVerif.Model.Pass
set_option linter.unusedVariables false
set_option linter.unusedSimpArgs false
namespace GrVerif.Pass
open GrVerif.Vm GrVerif.Seg GrVerif.Action

/-- the sort key of a rule number -/
def key (p : PassT) (a : Nat) : Nat := (p.rules.getD a default).sort

theorem ruleLt_iff (p : PassT) (a b : Nat) : ruleLt p a b = true ↔ key p a > key p b ∨ (key p a = key p b ∧ a < b) := by
  unfold ruleLt key
  simp

theorem ruleLt_irrefl (p : PassT) (a : Nat) : ruleLt p a a = false := by
  cases h : ruleLt p a a with
  | false => rfl
  | true => rw [ruleLt_iff] at h; omega

theorem ruleLt_trans {p : PassT} {a b c : Nat} (h1 : ruleLt p a b = true) (h2 : ruleLt p b c = true) : ruleLt p a c = true := by
  rw [ruleLt_iff] at *; omega

theorem ruleLt_total {p : PassT} {a b : Nat} (h : a ≠ b) : ruleLt p a b = true ∨ ruleLt p b a = true := by
  rw [ruleLt_iff, ruleLt_iff]; omega

theorem ruleLt_asymm {p : PassT} {a b : Nat} (h : ruleLt p a b = true) : ruleLt p b a = false := by
  cases h2 : ruleLt p b a with
  | false => rfl
  | true => rw [ruleLt_iff] at *; omega

/-- in precedence order: longer sort key first, then the earlier rule -/
def Sorted (p : PassT) (l : List Nat) : Prop := l.Pairwise (fun a b => ruleLt p a b = true)

/-- **the search picks the first rule, in the given order, whose constraint passes** -/
theorem pickRule_first (p : PassT) (c : Ctx) : ∀ (rs : List Nat) (r : Nat) (st : Status), pickRule p c rs = .ok (some r, st) →
    ∃ pre post, rs = pre ++ r :: post ∧ (∃ s, testConstraint (p.rules.getD r default) c = .ok (true, s)) ∧
      ∀ x ∈ pre, testConstraint (p.rules.getD x default) c = .ok (false, .finished) := by
  intro rs
  induction rs with
  | nil => intro r st h; simp [pickRule] at h
  | cons x rest ih =>
    intro r st h
    unfold pickRule at h
    split at h
    · cases h
    · rename_i s hx
      simp only [Except.ok.injEq, Prod.mk.injEq, Option.some.injEq] at h
      exact ⟨[], rest, by simp [h.1], ⟨s, by rw [← h.1]; exact hx⟩, by simp⟩
    · rename_i s hx
      split at h
      · simp at h
      · rename_i hs
        have hs' : s = .finished := by
          cases s <;> simp_all
        obtain ⟨pre, post, e, hc, hp⟩ := ih r st h
        refine ⟨x :: pre, post, by simp [e], hc, ?_⟩
        intro y hy
        rcases List.mem_cons.mp hy with hy | hy
        · rw [hy, hx, hs']
        · exact hp y hy

/-- no rule is picked only if every rule's constraint fails (or the machine stopped) -/
theorem pickRule_none (p : PassT) (c : Ctx) : ∀ (rs : List Nat), pickRule p c rs = .ok (none, .finished) →
    ∀ x ∈ rs, ∃ s, testConstraint (p.rules.getD x default) c = .ok (false, s) := by
  intro rs
  induction rs with
  | nil => intro _ x hx; cases hx
  | cons y rest ih =>
    intro h x hx
    unfold pickRule at h
    split at h
    · cases h
    · simp at h
    · rename_i s hy
      split at h
      · simp at h
        rcases List.mem_cons.mp hx with hx | hx
        · exact ⟨s, by rw [hx]; exact hy⟩
        · rename_i hh; exact absurd h hh
      · rcases List.mem_cons.mp hx with hx | hx
        · exact ⟨s, by rw [hx]; exact hy⟩
        · exact ih h x hx

end GrVerif.Pass

namespace GrVerif.Pass

theorem ins_spec (p : PassT) (acc : List Nat) (r : Nat) (hs : Sorted p acc) (hr : r ∉ acc) :
    Sorted p (acc.takeWhile (fun x => ruleLt p x r) ++ r :: acc.dropWhile (fun x => ruleLt p x r)) ∧
    ∀ x, x ∈ (acc.takeWhile (fun x => ruleLt p x r) ++ r :: acc.dropWhile (fun x => ruleLt p x r)) ↔ x = r ∨ x ∈ acc := by
  have happ : acc.takeWhile (fun x => ruleLt p x r) ++ acc.dropWhile (fun x => ruleLt p x r) = acc := List.takeWhile_append_dropWhile
  constructor
  · unfold Sorted at *
    rw [List.pairwise_append]
    have hs' := hs
    rw [← happ, List.pairwise_append] at hs'
    obtain ⟨p1, p2, p3⟩ := hs'
    refine ⟨p1, ?_, ?_⟩
    · rw [List.pairwise_cons]
      refine ⟨?_, p2⟩
      intro b hb
      -- the head of the dropped part is not below r; everything after it is above the head
      cases hd : acc.dropWhile (fun x => ruleLt p x r) with
      | nil => rw [hd] at hb; cases hb
      | cons h t =>
        have hnot : ¬ (ruleLt p h r = true) := by
          have := List.head_dropWhile_not (p := fun x => ruleLt p x r) (l := acc) (by rw [hd]; simp)
          simpa [hd] using this
        have hmem : h ∈ acc := by
          have : h ∈ acc.dropWhile (fun x => ruleLt p x r) := by rw [hd]; exact List.mem_cons_self
          exact (List.dropWhile_sublist _).subset this
        have hne : h ≠ r := fun e => hr (e ▸ hmem)
        have hrh : ruleLt p r h = true := by
          rcases ruleLt_total (p := p) hne with h1 | h1
          · exact absurd h1 hnot
          · exact h1
        rw [hd] at hb p2
        rcases List.mem_cons.mp hb with hb | hb
        · rw [hb]; exact hrh
        · exact ruleLt_trans hrh ((List.pairwise_cons.mp p2).1 b hb)
    · intro a ha b hb
      rcases List.mem_cons.mp hb with hb | hb
      · rw [hb]
        have := List.all_takeWhile (p := fun x => ruleLt p x r) (l := acc)
        exact (List.all_eq_true.mp this) a ha
      · exact p3 a ha b hb
  · intro x
    constructor
    · intro hx
      rcases List.mem_append.mp hx with hx | hx
      · exact .inr ((List.takeWhile_sublist _).subset hx)
      · rcases List.mem_cons.mp hx with hx | hx
        · exact .inl hx
        · exact .inr ((List.dropWhile_sublist _).subset hx)
    · intro hx
      rcases hx with hx | hx
      · rw [hx]; exact List.mem_append_right _ List.mem_cons_self
      · rw [← happ] at hx
        rcases List.mem_append.mp hx with hx | hx
        · exact List.mem_append_left _ hx
        · exact List.mem_append_right _ (List.mem_cons_of_mem _ hx)

/-- **a state's rule list is brought into precedence order without losing or inventing a rule** -/
theorem sortRules_spec (p : PassT) (rs : List Nat) (hn : rs.Nodup) :
    Sorted p (sortRules p rs) ∧ ∀ x, x ∈ sortRules p rs ↔ x ∈ rs := by
  unfold sortRules
  have gen : ∀ (rs acc : List Nat), rs.Nodup → Sorted p acc → (∀ x ∈ rs, x ∉ acc) →
      Sorted p (rs.foldl (fun acc r => acc.takeWhile (fun x => ruleLt p x r) ++ r :: acc.dropWhile (fun x => ruleLt p x r)) acc) ∧
      ∀ x, x ∈ (rs.foldl (fun acc r => acc.takeWhile (fun x => ruleLt p x r) ++ r :: acc.dropWhile (fun x => ruleLt p x r)) acc) ↔ x ∈ rs ∨ x ∈ acc := by
    intro rs
    induction rs with
    | nil => intro acc _ hs _; exact ⟨hs, fun x => by simp⟩
    | cons r rest ih =>
      intro acc hnd hs hd
      simp only [List.foldl_cons]
      have hi := ins_spec p acc r hs (hd r List.mem_cons_self)
      have hnd' := List.nodup_cons.mp hnd
      have := ih _ hnd'.2 hi.1 (fun x hx hmem => by
        rcases (hi.2 x).mp hmem with e | e
        · exact hnd'.1 (e ▸ hx)
        · exact hd x (List.mem_cons_of_mem _ hx) e)
      refine ⟨this.1, fun x => ?_⟩
      rw [this.2 x, hi.2 x]
      simp only [List.mem_cons]
      constructor
      · rintro (h | h | h)
        · exact .inl (.inr h)
        · exact .inl (.inl h)
        · exact .inr h
      · rintro ((h | h) | h)
        · exact .inr (.inl h)
        · exact .inl h
        · exact .inr (.inr h)
  have := gen rs [] hn (by simp [Sorted]) (by simp)
  exact ⟨this.1, fun x => by rw [this.2 x]; simp⟩

/-- **merging two rule lists that are in precedence order** (as long as the `MAX_RULES` cap is not reached) gives the
union in precedence order, each rule once -/
theorem mergeCap_spec (p : PassT) : ∀ (cap : Nat) (l r : List Nat), Sorted p l → Sorted p r → l.length + r.length ≤ cap →
    Sorted p (mergeCap p cap l r) ∧ ∀ x, x ∈ mergeCap p cap l r ↔ x ∈ l ∨ x ∈ r := by
  intro cap
  induction cap with
  | zero =>
    intro l r _ _ hlen
    have hl : l = [] := by cases l <;> simp_all
    have hr : r = [] := by cases r <;> simp_all
    subst hl hr
    exact ⟨by simp [mergeCap, Sorted], fun x => by simp [mergeCap]⟩
  | succ c ih =>
    intro l r hl hr hlen
    cases l with
    | nil =>
      cases r with
      | nil => exact ⟨by simp [mergeCap, Sorted], fun x => by simp [mergeCap]⟩
      | cons b r' =>
        simp only [mergeCap]
        have hr' := List.pairwise_cons.mp hr
        have := ih [] r' (by simp [Sorted]) hr'.2 (by simp at hlen ⊢; omega)
        refine ⟨List.pairwise_cons.mpr ⟨fun x hx => ?_, this.1⟩, fun x => ?_⟩
        · rcases (this.2 x).mp hx with h | h
          · cases h
          · exact hr'.1 x h
        · simp only [List.mem_cons, this.2 x]; simp
    | cons a l' =>
      have hl' := List.pairwise_cons.mp hl
      cases r with
      | nil =>
        simp only [mergeCap]
        have := ih l' [] hl'.2 (by simp [Sorted]) (by simp at hlen ⊢; omega)
        refine ⟨List.pairwise_cons.mpr ⟨fun x hx => ?_, this.1⟩, fun x => ?_⟩
        · rcases (this.2 x).mp hx with h | h
          · exact hl'.1 x h
          · cases h
        · simp only [List.mem_cons, this.2 x]; simp
      | cons b r' =>
        have hr' := List.pairwise_cons.mp hr
        simp only [mergeCap]
        split
        · rename_i hab
          have := ih l' (b :: r') hl'.2 hr (by simp at hlen ⊢; omega)
          refine ⟨List.pairwise_cons.mpr ⟨fun x hx => ?_, this.1⟩, fun x => ?_⟩
          · rcases (this.2 x).mp hx with h | h
            · exact hl'.1 x h
            · rcases List.mem_cons.mp h with h | h
              · rw [h]; exact hab
              · exact ruleLt_trans hab (hr'.1 x h)
          · simp only [List.mem_cons, this.2 x]
            constructor
            · rintro (h | h | h | h)
              · exact .inl (.inl h)
              · exact .inl (.inr h)
              · exact .inr (.inl h)
              · exact .inr (.inr h)
            · rintro ((h | h) | (h | h))
              · exact .inl h
              · exact .inr (.inl h)
              · exact .inr (.inr (.inl h))
              · exact .inr (.inr (.inr h))
        · rename_i hab
          split
          · rename_i hba
            have := ih (a :: l') r' hl hr'.2 (by simp at hlen ⊢; omega)
            refine ⟨List.pairwise_cons.mpr ⟨fun x hx => ?_, this.1⟩, fun x => ?_⟩
            · rcases (this.2 x).mp hx with h | h
              · rcases List.mem_cons.mp h with h | h
                · rw [h]; exact hba
                · exact ruleLt_trans hba (hl'.1 x h)
              · exact hr'.1 x h
            · simp only [List.mem_cons, this.2 x]
              constructor
              · rintro (h | (h | h) | h)
                · exact .inr (.inl h)
                · exact .inl (.inl h)
                · exact .inl (.inr h)
                · exact .inr (.inr h)
              · rintro ((h | h) | (h | h))
                · exact .inr (.inl (.inl h))
                · exact .inr (.inl (.inr h))
                · exact .inl h
                · exact .inr (.inr h)
          · rename_i hba
            have hab' : a = b := by
              apply Classical.byContradiction
              intro hne
              rcases ruleLt_total (p := p) hne with h | h
              · exact hab h
              · exact hba h
            subst hab'
            have := ih l' r' hl'.2 hr'.2 (by simp at hlen ⊢; omega)
            refine ⟨List.pairwise_cons.mpr ⟨fun x hx => ?_, this.1⟩, fun x => ?_⟩
            · rcases (this.2 x).mp hx with h | h
              · exact hl'.1 x h
              · exact hr'.1 x h
            · simp only [List.mem_cons, this.2 x]
              constructor
              · rintro (h | h | h)
                · exact .inl (.inl h)
                · exact .inl (.inr h)
                · exact .inr (.inr h)
              · rintro ((h | h) | (h | h))
                · exact .inl h
                · exact .inr (.inl h)
                · exact .inl h
                · exact .inr (.inr h)

theorem accumulate_spec (p : PassT) (cur st : List Nat) (hc : Sorted p cur) (hs : Sorted p st) (hlen : cur.length + st.length ≤ MAX_RULES) :
    Sorted p (accumulate p cur st) ∧ ∀ x, x ∈ accumulate p cur st ↔ x ∈ cur ∨ x ∈ st := by
  unfold accumulate
  split
  · rename_i he
    have : st = [] := by cases st <;> simp_all
    subst this
    exact ⟨hc, fun x => by simp⟩
  · exact mergeCap_spec p MAX_RULES cur st hc hs hlen

end GrVerif.Pass

import GrVerif.Proofs.LoopMeasure
import GrVerif.Proofs.PassStream
set_option linter.unusedVariables false
set_option linter.unusedSimpArgs false
/-!
# The rule loop is bounded (C02)

One rule application (`findNDoRule`: match, constraint, action, garbage collection, `adjustSlot`) does not let the measure of
`Proofs/LoopMeasure.lean` grow and hands the loop a cursor for which the position invariant `HP` holds; every reset of the
loop counter then strictly decreases the measure.  Hence `Pass::runGraphite`'s do-loop makes at most
`maxRuleLoop × (slots + insertion budget + 1)` iterations – whatever the rules and their code are.
-/
namespace GrVerif.Action
open GrVerif.Vm GrVerif.Seg GrVerif.Gen.Vm

/-! ## garbage collection and the end of an action -/

theorem gcStep_fields (acc : Ctx × Option Nat) (k : Nat) :
    (gcStep acc k).1.highwater = acc.1.highwater ∧ (gcStep acc k).1.highpassed = acc.1.highpassed ∧
    (gcStep acc k).1.maxSize = acc.1.maxSize ∧ (gcStep acc k).1.status = acc.1.status := by
  unfold gcStep
  split
  · simp only []
    split
    · exact ⟨rfl, rfl, rfl, rfl⟩
    · exact ⟨rfl, rfl, rfl, rfl⟩
  · exact ⟨rfl, rfl, rfl, rfl⟩

/-- a cursor that is null or on a slot of the stream is not moved by the garbage collection (only deleted slots and
temporary copies are collected) -/
theorem gcStep_cursor (acc : Ctx × Option Nat) (k : Nat) {l : List Nat} (h : JO acc.1 l acc.2)
    (hc : acc.2 = none ∨ ∃ x, acc.2 = some x ∧ x ∈ l) : (gcStep acc k).2 = acc.2 := by
  unfold gcStep
  split
  · simp only []
    split
    · rename_i sl hsl hfl
      have hf : (acc.1.seg.get sl).deleted = true ∨ (acc.1.seg.get sl).copied = true := by simpa using hfl
      split
      · rename_i he
        exfalso
        rcases hc with h0 | ⟨x, hx, hxl⟩
        · rw [h0] at he; cases he
        · rw [hx] at he
          have hxs : x = sl := Option.some.inj he
          rw [hxs] at hxl
          have hlive := h.clean.live sl hxl
          rcases hf with hf | hf
          · rw [hlive.1] at hf; cases hf
          · rw [hlive.2] at hf; cases hf
      · rfl
    · rfl
  · rfl

theorem gcCells_fields (c : Ctx) (a : Option Nat) {l : List Nat} (h : JO c l a) (hc : a = none ∨ ∃ x, a = some x ∧ x ∈ l) :
    (gcCells c a).1.highwater = c.highwater ∧ (gcCells c a).1.highpassed = c.highpassed ∧
    (gcCells c a).1.maxSize = c.maxSize ∧ (gcCells c a).1.status = c.status ∧ (gcCells c a).2 = a := by
  unfold gcCells
  generalize (List.range (c.size - 1)) = ks
  have : ∀ (ks : List Nat) (acc : Ctx × Option Nat), JO acc.1 l acc.2 → acc.2 = a →
      (ks.foldl gcStep acc).1.highwater = acc.1.highwater ∧ (ks.foldl gcStep acc).1.highpassed = acc.1.highpassed ∧
      (ks.foldl gcStep acc).1.maxSize = acc.1.maxSize ∧ (ks.foldl gcStep acc).1.status = acc.1.status ∧ (ks.foldl gcStep acc).2 = a := by
    intro ks
    induction ks with
    | nil => intro acc _ e; exact ⟨rfl, rfl, rfl, rfl, e⟩
    | cons k rest ih =>
      intro acc hj e
      have hcur := gcStep_cursor acc k hj (e ▸ hc)
      obtain ⟨f1, f2, f3, f4⟩ := gcStep_fields acc k
      obtain ⟨g1, g2, g3, g4, g5⟩ := ih (gcStep acc k) (gcStep_JO acc k hj) (hcur.trans e)
      exact ⟨g1.trans f1, g2.trans f2, g3.trans f3, g4.trans f4, g5⟩
  exact this ks (c, a) h rfl

theorem gc_fields (c : Ctx) (a : Option Nat) {l : List Nat} (h : JO c l a) (hc : a = none ∨ ∃ x, a = some x ∧ x ∈ l) :
    (collectGarbage c a).1.highwater = c.highwater ∧ (collectGarbage c a).1.highpassed = c.highpassed ∧
    (collectGarbage c a).1.maxSize = c.maxSize ∧ (collectGarbage c a).1.status = c.status ∧ (collectGarbage c a).2 = a := by
  obtain ⟨g1, g2, g3, g4, g5⟩ := gcCells_fields c a h hc
  have hj := gcCells_JO c a h
  rw [collectGarbage_fst]
  refine ⟨g1, g2, g3, g4, ?_⟩
  unfold collectGarbage
  rw [offDeleted_live hj (by rw [g5]; exact hc), g5]

/-- fields of the context without the cursor restriction (the cursor may move, the registers do not) -/
theorem gc_fields' (c : Ctx) (a : Option Nat) :
    (collectGarbage c a).1.highwater = c.highwater ∧ (collectGarbage c a).1.highpassed = c.highpassed ∧
    (collectGarbage c a).1.maxSize = c.maxSize ∧ (collectGarbage c a).1.status = c.status := by
  rw [collectGarbage_fst]; unfold gcCells
  generalize (List.range (c.size - 1)) = ks
  have : ∀ (ks : List Nat) (acc : Ctx × Option Nat),
      (ks.foldl gcStep acc).1.highwater = acc.1.highwater ∧ (ks.foldl gcStep acc).1.highpassed = acc.1.highpassed ∧
      (ks.foldl gcStep acc).1.maxSize = acc.1.maxSize ∧ (ks.foldl gcStep acc).1.status = acc.1.status := by
    intro ks
    induction ks with
    | nil => intro acc; exact ⟨rfl, rfl, rfl, rfl⟩
    | cons k rest ih =>
      intro acc
      obtain ⟨f1, f2, f3, f4⟩ := gcStep_fields acc k
      obtain ⟨g1, g2, g3, g4⟩ := ih (gcStep acc k)
      exact ⟨g1.trans f1, g2.trans f2, g3.trans f3, g4.trans f4⟩
  exact this ks (c, a)

theorem checkFinalStack_finished {st : Status} {sp : Int} (h : checkFinalStack st sp = .finished) : st = .finished := by
  unfold checkFinalStack at h
  split at h
  · rename_i hne; exact absurd h hne
  · rename_i heq; exact Classical.byContradiction (fun hh => heq hh)

theorem epilogue_finished {v : Vm} {r : Int} (h : epilogue v = .ok (r, .finished)) : v.status = .finished := by
  unfold epilogue at h
  split at h
  · split at h
    · simp only [Except.ok.injEq, Prod.mk.injEq] at h
      exact checkFinalStack_finished h.2
    · cases h
  · simp only [Except.ok.injEq, Prod.mk.injEq] at h
    exact checkFinalStack_finished h.2

/-- what the end of an action (`*map = is`, the machine's epilogue, the garbage collection) leaves of the registers when the
machine finished normally: mark, flag and budget are those of the last instruction, and a cursor that was null or on a slot
of the stream is the slot handed back -/
theorem finishAction_fields (s : St) (dl : Bool) {l : List Nat} (h : J s.ctx l)
    {r : Int} {so : Option Nat} {c : Ctx} (e : finishAction s dl = .ok (r, .finished, so, c)) :
    c.highwater = s.ctx.highwater ∧ c.highpassed = s.ctx.highpassed ∧ c.maxSize = s.ctx.maxSize ∧ s.ctx.status = .finished ∧
    ((s.ctx.is = none ∨ ∃ x, s.ctx.is = some x ∧ x ∈ l) → so = s.ctx.is) := by
  unfold finishAction at e
  simp only [] at e
  split at e
  · cases e
  · rename_i hb
    have hb' : 0 ≤ s.ctx.map ∧ s.ctx.map.toNat < s.ctx.smap.size := by
      apply Classical.byContradiction; intro hn; exact hb hn
    have hrd := storeIs_read s.ctx hb'
    have hbase : JO s.ctx.storeIs l (s.ctx.storeIs.smap.getD s.ctx.storeIs.map.toNat none) := by
      rw [hrd]; exact JO.mk' h.linked h.clean h.isok h.hw h.alloc
    split at e
    · cases e
    · rename_i rs hep
      split at e
      · rename_i hne
        simp only [Except.ok.injEq, Prod.mk.injEq] at e
        exact absurd e.2.1 hne
      · rename_i hfin
        have hrs : rs.2 = .finished := Classical.byContradiction (fun hh => hfin hh)
        have hvs : (if s.ctx.storeIs.status ≠ .finished then s.ctx.storeIs.status else s.vm.status) = .finished := by
          have : rs = (rs.1, .finished) := by rw [← hrs]
          rw [this] at hep
          exact epilogue_finished hep
        have hcs : s.ctx.status = .finished := by
          split at hvs
          · rename_i hne; exact absurd hvs hne
          · rename_i heq
            have : s.ctx.storeIs.status = .finished := Classical.byContradiction (fun hh => heq hh)
            exact this
        split at e
        · simp only [Except.ok.injEq, Prod.mk.injEq] at e
          obtain ⟨_, _, e3, e4⟩ := e
          refine ⟨?_, ?_, ?_, hcs, fun hc => ?_⟩
          · rw [← e4]; exact (gc_fields' _ _).1
          · rw [← e4]; exact (gc_fields' _ _).2.1
          · rw [← e4]; exact (gc_fields' _ _).2.2.1
          · rw [← e3]
            have := (gc_fields s.ctx.storeIs _ hbase (by rw [hrd]; exact hc)).2.2.2.2
            rw [this, hrd]
        · simp only [Except.ok.injEq, Prod.mk.injEq] at e
          obtain ⟨_, _, e3, e4⟩ := e
          refine ⟨by rw [← e4]; rfl, by rw [← e4]; rfl, by rw [← e4]; rfl, hcs, fun _ => ?_⟩
          rw [← e3, hrd]

/-- **one rule action** (any instruction list): when the machine finishes normally, the stream is again a stream `l'`, the
measure over it is at most the measure before, and the slot handed back satisfies the position invariant -/
theorem doAction_meas {is : List Instr} {dl : Bool} {mr : Nat} {data : List Nat} {ctx : Ctx} {l : List Nat}
    (hl : Linked ctx.seg l) (hc : Clean ctx.seg l) (hh : HwOK ctx.highwater l)
    (hcell : IsOK ctx.seg l (ctx.smap.getD ((ctx.context : Int) + 1).toNat none)) (ha : Alloc ctx.seg l)
    {r : Int} {so : Option Nat} {c : Ctx}
    (e : doAction is dl mr data ctx = .ok (r, .finished, so, c)) :
    ∃ l', JO c l' so ∧ meas c l' ≤ meas ctx l ∧ HP c l' so := by
  unfold doAction at e
  simp only [] at e
  split at e
  · simp only [Except.ok.injEq, Prod.mk.injEq] at e
    exact absurd e.2.1 (by decide)
  · have h0 : QM (meas ctx l) (enterCtx (startCtx ctx)) :=
      ⟨l, ⟨hl, hc, hcell, hh, ha⟩, Nat.le_refl _, fun _ hpt => by cases hpt⟩
    have hr := runLoop_preserves (QM (meas ctx l)) (ops_QM _) is { vm := initVm data, ctx := enterCtx (startCtx ctx) } h0
    split at e
    · cases e
    · rename_i s heq
      rw [heq] at hr
      obtain ⟨l', hj, hm, hp⟩ := hr
      obtain ⟨f1, f2, f3, f4, f5⟩ := finishAction_fields s dl hj e
      refine ⟨l', finishAction_JO s dl hj e, ?_, ?_⟩
      · unfold meas at hm ⊢; rw [f1, f3]; exact hm
      · intro hpt
        rw [f2] at hpt
        obtain ⟨h, hhw, hcur⟩ := hp f4 hpt
        refine ⟨h, by rw [f1]; exact hhw, ?_⟩
        have hso : so = s.ctx.is := f5 (by
          rcases hcur with h0 | ⟨x, hx, hsa⟩
          · exact .inl h0
          · exact .inr ⟨x, hx, hsa.mem⟩)
        rw [hso]; exact hcur

end GrVerif.Action

namespace GrVerif.Pass
open GrVerif.Vm GrVerif.Seg GrVerif.Action GrVerif.Gen.Vm

/-! ## `adjustSlot` keeps the position invariant -/

/-- in front of a slot that lies strictly behind the mark is the mark itself or another slot strictly behind it -/
theorem prev_after {s : Seg} {l : List Nat} (hl : Linked s l) {h i : Nat} (hs : SAfter l h i) :
    (s.get i).prev = some h ∨ ∃ p, (s.get i).prev = some p ∧ SAfter l h p := by
  obtain ⟨a, b, c, rfl⟩ := hs
  have e : a ++ h :: (b ++ i :: c) = (a ++ h :: b) ++ i :: c := by simp
  have hc := hl.chain
  rw [e] at hc
  have hm := (chain_mid hc).1
  simp only [Option.or_none] at hm
  rcases List.eq_nil_or_concat b with hb | ⟨b2, p, hb⟩
  · subst hb
    exact .inl (by rw [hm]; simp)
  · rw [List.concat_eq_append] at hb
    subst hb
    refine .inr ⟨p, ?_, ⟨a, b2, i :: c, by simp⟩⟩
    rw [hm]
    have : a ++ h :: (b2 ++ [p]) = (a ++ h :: b2) ++ [p] := by simp
    rw [this, List.getLast?_append]; simp

theorem adjustBack_hp {l : List Nat} : ∀ (fuel : Nat) (c : Ctx) (d : Int) (so : Option Nat), Linked c.seg l → HP c l so →
    HP (adjustBack fuel c d so).1 l (adjustBack fuel c d so).2 ∧ (adjustBack fuel c d so).1.maxSize = c.maxSize := by
  intro fuel
  induction fuel with
  | zero => intro c d so _ hp; unfold adjustBack; exact ⟨hp, rfl⟩
  | succ f ih =>
    intro c d so hl hp
    cases so with
    | none => unfold adjustBack; exact ⟨hp, rfl⟩
    | some s =>
      unfold adjustBack
      split
      · split
        · rename_i hcond
          -- the step lands on the mark: the flag is cleared
          have := ih (c.setHighpassed false) (d + 1) (c.seg.get s).prev hl (fun hpt => by cases hpt)
          exact ⟨this.1, this.2⟩
        · rename_i hcond
          have hp' : HP c l (c.seg.get s).prev := by
            intro hpt
            obtain ⟨h, hh, hcur⟩ := hp hpt
            refine ⟨h, hh, ?_⟩
            rcases hcur with h0 | ⟨x, hx, hsa⟩
            · cases h0
            · cases hx
              rcases prev_after hl hsa with h1 | ⟨p, h1, h2⟩
              · exact absurd ⟨hpt, by rw [hh, h1]⟩ hcond
              · exact .inr ⟨p, h1, h2⟩
          exact ih c (d + 1) (c.seg.get s).prev hl hp'
      · exact ⟨hp, rfl⟩

theorem adjustFwd_hp {l : List Nat} : ∀ (fuel : Nat) (c : Ctx) (d : Int) (so : Option Nat), Linked c.seg l → HwOK c.highwater l → HP c l so →
    HP (adjustFwd fuel c d so).1 l (adjustFwd fuel c d so).2 ∧ (adjustFwd fuel c d so).1.maxSize = c.maxSize := by
  intro fuel
  induction fuel with
  | zero => intro c d so _ _ hp; unfold adjustFwd; exact ⟨hp, rfl⟩
  | succ f ih =>
    intro c d so hl hh hp
    cases so with
    | none => unfold adjustFwd; exact ⟨hp, rfl⟩
    | some s =>
      unfold adjustFwd
      split
      · split
        · rename_i hcond
          -- leaving the mark: the flag is set, and what follows the mark lies strictly behind it
          have hp' : HP (c.setHighpassed true) l (c.seg.get s).next := by
            intro _
            refine ⟨s, hcond.symm, ?_⟩
            rcases next_after hl (hh s hcond.symm) (.inl rfl) with h0 | ⟨y, h1, h2⟩
            · exact .inl h0
            · exact .inr ⟨y, h1, h2⟩
          have := ih (c.setHighpassed true) (d - 1) (c.seg.get s).next hl hh hp'
          exact ⟨this.1, this.2⟩
        · have hp' : HP c l (c.seg.get s).next := by
            intro hpt
            obtain ⟨h, hhw, hcur⟩ := hp hpt
            refine ⟨h, hhw, ?_⟩
            rcases hcur with h0 | ⟨x, hx, hsa⟩
            · cases h0
            · cases hx
              rcases next_after hl (hh h hhw) (.inr hsa) with h0 | ⟨y, h1, h2⟩
              · exact .inl h0
              · exact .inr ⟨y, h1, h2⟩
          exact ih c (d - 1) (c.seg.get s).next hl hh hp'
      · exact ⟨hp, rfl⟩

theorem adjustStart_hp {l : List Nat} (c : Ctx) (d : Int) (hl : Linked c.seg l) (hh : HwOK c.highwater l) :
    HP (adjustStart c d).1 l (adjustStart c d).2.1 ∧ (adjustStart c d).1.maxSize = c.maxSize := by
  unfold adjustStart
  split
  · split
    · exact ⟨fun hpt => (by cases hpt), rfl⟩
    · rename_i hcond
      refine ⟨fun hpt => ?_, rfl⟩
      cases hq : c.highwater with
      | none => exact absurd (.inl (by rw [hq]; rfl)) hcond
      | some h =>
        refine ⟨h, rfl, ?_⟩
        have hhl := hh h hq
        obtain ⟨a, b, rfl⟩ := List.append_of_mem hhl
        rcases List.eq_nil_or_concat b with hb | ⟨b2, z, hb⟩
        · subst hb
          exfalso
          apply hcond
          refine .inr ?_
          rw [hq, hl.last]; simp
        · rw [List.concat_eq_append] at hb
          subst hb
          refine .inr ⟨z, ?_, ⟨a, b2, [], by simp⟩⟩
          show c.seg.last = some z
          rw [hl.last]
          have : a ++ h :: (b2 ++ [z]) = (a ++ h :: b2) ++ [z] := by simp
          rw [this, List.getLast?_append]; simp
  · rename_i hcond
    refine ⟨fun hpt => ?_, rfl⟩
    exact absurd (.inl hpt) hcond

theorem adjustSlot_hp {l : List Nat} (c : Ctx) (d : Int) (so : Option Nat) (hl : Linked c.seg l) (hh : HwOK c.highwater l) (hp : HP c l so) :
    HP (adjustSlot c d so).1 l (adjustSlot c d so).2 ∧ (adjustSlot c d so).1.maxSize = c.maxSize := by
  have tail : ∀ (st : Ctx × Option Nat × Int), Linked st.1.seg l → HwOK st.1.highwater l → HP st.1 l st.2.1 →
      HP (if st.2.2 < 0 then adjustBack (st.2.2.natAbs + 1) st.1 st.2.2 st.2.1
        else if st.2.2 > 0 then adjustFwd (st.2.2.natAbs + 1) st.1 st.2.2 st.2.1 else (st.1, st.2.1)).1 l
        (if st.2.2 < 0 then adjustBack (st.2.2.natAbs + 1) st.1 st.2.2 st.2.1
        else if st.2.2 > 0 then adjustFwd (st.2.2.natAbs + 1) st.1 st.2.2 st.2.1 else (st.1, st.2.1)).2 ∧
      (if st.2.2 < 0 then adjustBack (st.2.2.natAbs + 1) st.1 st.2.2 st.2.1
        else if st.2.2 > 0 then adjustFwd (st.2.2.natAbs + 1) st.1 st.2.2 st.2.1 else (st.1, st.2.1)).1.maxSize = st.1.maxSize := by
    intro st h1 h2 h3
    split
    · exact adjustBack_hp _ _ _ _ h1 h3
    · split
      · exact adjustFwd_hp _ _ _ _ h1 h2 h3
      · exact ⟨h3, rfl⟩
  unfold adjustSlot
  cases so with
  | some x => exact tail (c, some x, d) hl hh hp
  | none =>
    obtain ⟨a1, a2, a3⟩ := adjustStart_spec c d hl
    obtain ⟨b1, b2⟩ := adjustStart_hp c d hl hh
    obtain ⟨t1, t2⟩ := tail (adjustStart c d) (by rw [a1]; exact hl) (by rw [a2]; exact hh) b1
    simp only []
    exact ⟨t1, t2.trans b2⟩

/-! ## one rule application -/

theorem runFSM_fields (p : PassT) (c : Ctx) (slot : Nat) :
    (runFSM p c slot).2.1.highpassed = c.highpassed ∧ (runFSM p c slot).2.1.maxSize = c.maxSize := by
  unfold runFSM
  simp only []
  split
  · exact ⟨rfl, rfl⟩
  · exact ⟨rfl, rfl⟩

theorem meas_congr {c c' : Ctx} (l : List Nat) (e1 : c'.highwater = c.highwater) (e2 : c'.maxSize = c.maxSize) : meas c' l = meas c l := by
  unfold meas; rw [e1, e2]

theorem HP_of_not_passed {c : Ctx} {l : List Nat} {cur : Option Nat} (h : c.highpassed = false) : HP c l cur := by
  intro hpt; rw [h] at hpt; cases hpt

/-- **one iteration of the rule loop's body** (match, constraints, action, garbage collection, `adjustSlot`), entered with
`highpassed` clear: when the machine is still running afterwards, the stream is a stream again, the measure has not grown,
and the new cursor satisfies the position invariant -/
theorem findNDoRule_meas (p : PassT) (c : Ctx) (slot : Nat) {l : List Nat} (h : JO c l (some slot)) (hnp : c.highpassed = false)
    {c' : Ctx} {s' : Option Nat} {st : Status} (e : findNDoRule p c slot = .ok (c', s', st)) (hst : st = .finished) :
    ∃ l', JO c' l' s' ∧ meas c' l' ≤ meas c l ∧ HP c' l' s' := by
  obtain ⟨f1, f2, f3⟩ := runFSM_spec p c slot h.linked h.isok
  obtain ⟨g1, g2⟩ := runFSM_fields p c slot
  unfold findNDoRule at e
  revert f1 f2 f3 g1 g2 e
  generalize runFSM p c slot = r
  obtain ⟨ok, c1, rules⟩ := r
  intro e f1 f2 f3 g1 g2
  simp only [] at f1 f2 f3 g1 g2 e
  have h1 : JO c1 l (some slot) := JO.congr h f1 f2
  have hadv : JO c1 l (c1.seg.get slot).next := JO.cursor h1 (isok_opt_mem (cur_next_mem (JO.linked h1) (JO.isok h1)))
  have hm1 : meas c1 l = meas c l := meas_congr l f2 g2
  have hp1 : ∀ cur, HP c1 l cur := fun cur => HP_of_not_passed (by rw [g1]; exact hnp)
  split at e
  · cases e; exact ⟨l, hadv, Nat.le_of_eq hm1, hp1 _⟩
  · split at e
    · cases e
    · split at e
      · cases e; exact ⟨l, h1, Nat.le_of_eq hm1, hp1 _⟩
      · cases e; exact ⟨l, hadv, Nat.le_of_eq hm1, hp1 _⟩
    · split at e
      · cases e; exact ⟨l, h1, Nat.le_of_eq hm1, hp1 _⟩
      · split at e
        · cases e
        · rename_i k hk
          split at e
          · cases e
          · rename_i ret status slotOut c2 hact
            have hcell : IsOK c1.seg l (c1.smap.getD ((c1.context : Int) + 1).toNat none) := by rw [f1]; exact f3 _
            split at e
            · rename_i hne
              simp only [Except.ok.injEq, Prod.mk.injEq] at e
              exact absurd (e.2.2.trans hst) hne
            · rename_i hfin
              have hsf : status = .finished := Classical.byContradiction (fun hh => hfin hh)
              rw [hsf] at hact
              obtain ⟨l2, j2, m2, p2⟩ := doAction_meas (JO.linked h1) (JO.clean h1) (JO.hw h1) hcell (JO.alloc h1) hact
              obtain ⟨a1, a2, a3⟩ := adjustSlot_spec c2 ret slotOut (JO.linked j2) (JO.isok j2)
              obtain ⟨b1, b2⟩ := adjustSlot_hp c2 ret slotOut (JO.linked j2) (JO.hw j2) p2
              revert a1 a2 a3 b1 b2 e
              generalize adjustSlot c2 ret slotOut = ar
              obtain ⟨c3, so3⟩ := ar
              intro e a1 a2 a3 b1 b2
              simp only [] at a1 a2 a3 b1 b2 e
              cases e
              refine ⟨l2, JO.congr (JO.cursor j2 a3) a1 a2, ?_, b1⟩
              rw [meas_congr l2 a2 b2]
              exact Nat.le_trans m2 (Nat.le_of_eq hm1)

/-! ## the loop -/

/-- moving the mark from a stream slot to the slot behind it shortens the distance to the end by one -/
theorem hwDist_next {s : Seg} {l : List Nat} (hl : Linked s l) {x : Nat} (hx : x ∈ l) :
    hwDist (s.get x).next l + 1 = hwDist (some x) l := by
  obtain ⟨a, b, rfl⟩ := List.append_of_mem hx
  have hnd := hl.nodup
  have hm := (chain_mid hl.chain).2.1
  simp only [Option.or_none] at hm
  rw [hm, hwDist_mid (notMem_left_of_nodup hnd)]
  cases b with
  | nil => simp
  | cons y b' =>
    have e : a ++ x :: y :: b' = (a ++ [x]) ++ y :: b' := by simp
    show hwDist (some y) (a ++ x :: y :: b') + 1 = _
    rw [e] at hnd ⊢
    rw [hwDist_mid (notMem_left_of_nodup hnd)]
    simp

/-- how a run of the loop may end: within `B` further iterations, or with an error raised by a rule application (not by the
model's fuel) -/
def LoopDone (p : PassT) (B : Nat) (it : Nat) : Except String (Option Ctx × Nat) → Prop
  | .ok r => r.2 ≤ it + B
  | .error w => ∃ c s, findNDoRule p c s = .error w

theorem LoopDone.mono {p : PassT} {B B' it it' : Nat} {r : Except String (Option Ctx × Nat)} (h : LoopDone p B' it' r) (hb : it' + B' ≤ it + B) :
    LoopDone p B it r := by
  cases r with
  | ok r => exact Nat.le_trans h hb
  | error w => exact h

/-- the loop's potential: a full counter for every unit of the measure, plus what is left of the current counter -/
def pot (p : PassT) (c : Ctx) (l : List Nat) (lc : Int) : Nat := (meas c l + 1) * p.maxLoop + lc.toNat

/-- **the rule loop is bounded**: from a state with `highpassed` clear and the counter between 1 and `maxRuleLoop`, the
do-loop of `Pass::runGraphite` ends after at most `(measure + 1) × maxRuleLoop + counter` iterations – for every pass
(rules, constraints, actions), every stream and every cursor – and fuel beyond that is never used -/
theorem ruleLoop_bound (p : PassT) (hL : 1 ≤ p.maxLoop) : ∀ (fuel : Nat) (c : Ctx) (s : Nat) (lc : Int) (it : Nat) {l : List Nat},
    JO c l (some s) → c.highpassed = false → 1 ≤ lc → lc ≤ p.maxLoop → pot p c l lc ≤ fuel →
    LoopDone p (pot p c l lc) it (ruleLoop p fuel c s lc it) := by
  intro fuel
  induction fuel with
  | zero =>
    intro c s lc it l _ _ h1 _ hf
    unfold pot at hf
    omega
  | succ f ih =>
    intro c s lc it l h hnp h1 h2 hf
    have hpos : 1 ≤ pot p c l lc := by unfold pot; omega
    unfold ruleLoop
    split
    · rename_i w hw
      exact ⟨c, s, hw⟩
    · rename_i c1 s1 st hfd
      split
      · show it + 1 ≤ it + pot p c l lc
        omega
      · rename_i hfin
        have hsf : st = .finished := Classical.byContradiction (fun hh => hfin hh)
        obtain ⟨l1, j1, m1, p1⟩ := findNDoRule_meas p c s h hnp hfd hsf
        split
        · show it + 1 ≤ it + pot p c l lc
          omega
        · rename_i s2
          simp only []
          -- a reset of the counter moves the mark behind `s3`, which is the mark or lies behind it: the measure drops
          have reset : ∀ (s3 : Nat), (c1.highwater = some s3 ∨ (s3 = s2 ∧ c1.highpassed = true)) →
              LoopDone p (pot p c l lc) it (ruleLoop p f (c1.restartAt s3) s3 p.maxLoop (it + 1)) := by
            intro s3 hs3
            have hs3l : s3 ∈ l1 := by
              rcases hs3 with hh | ⟨rfl, hpt⟩
              · exact JO.hw j1 s3 hh
              · obtain ⟨h', _, hcur⟩ := p1 hpt
                rcases hcur with h0 | ⟨x, hx, hsa⟩
                · cases h0
                · cases hx; exact hsa.mem
            have hdrop : meas (c1.restartAt s3) l1 + 1 ≤ meas c1 l1 := by
              unfold meas
              show hwDist (c1.seg.get s3).next l1 + c1.maxSize.toNat + 1 ≤ _
              have hn := hwDist_next (JO.linked j1) hs3l
              rcases hs3 with hh | ⟨rfl, hpt⟩
              · rw [hh]; omega
              · obtain ⟨h', hh', hcur⟩ := p1 hpt
                rcases hcur with h0 | ⟨x, hx, hsa⟩
                · cases h0
                · cases hx
                  have := hsa.dist (JO.linked j1).nodup
                  rw [hh']; omega
            have hpot : pot p (c1.restartAt s3) l1 p.maxLoop + 1 ≤ pot p c l lc := by
              unfold pot
              have e1 : (meas (c1.restartAt s3) l1 + 1) * p.maxLoop + p.maxLoop = (meas (c1.restartAt s3) l1 + 1 + 1) * p.maxLoop := by
                rw [Nat.add_mul (meas (c1.restartAt s3) l1 + 1) 1 p.maxLoop]; simp
              have e2 : (meas (c1.restartAt s3) l1 + 1 + 1) * p.maxLoop ≤ (meas c l + 1) * p.maxLoop :=
                Nat.mul_le_mul_right _ (by omega)
              have e3 : ((p.maxLoop : Nat) : Int).toNat = p.maxLoop := by simp
              rw [e3]
              omega
            have j3 : JO (c1.restartAt s3) l1 (some s3) := restartAt_JO j1 (isok_of_mem hs3l)
            have := ih (c1.restartAt s3) s3 p.maxLoop (it + 1) j3 rfl (by omega) (Int.le_refl _) (by omega)
            exact this.mono (by omega)
          by_cases hit : (some s2 = c1.highwater ∨ c1.highpassed = true)
          · simp only [hit, if_true, true_or]
            split
            · rename_i s3 hs3
              refine reset s3 ?_
              split at hs3
              · exact .inl hs3
              · cases hs3
                rcases hit with hh | hh
                · exact .inl hh.symm
                · exact .inr ⟨rfl, hh⟩
            · show it + 1 ≤ it + pot p c l lc
              omega
          · simp only [hit, if_false, false_or]
            have hnp1 : c1.highpassed = false := by
              cases hq : c1.highpassed with
              | false => rfl
              | true => exact absurd (.inr hq) hit
            split
            · rename_i hz
              split
              · rename_i s3 hs3
                exact reset s3 (.inl hs3)
              · show it + 1 ≤ it + pot p c l lc
                omega
            · rename_i hz
              have hpot : pot p c1 l1 (lc - 1) + 1 ≤ pot p c l lc := by
                unfold pot
                have e2 : (meas c1 l1 + 1) * p.maxLoop ≤ (meas c l + 1) * p.maxLoop := Nat.mul_le_mul_right _ (by omega)
                omega
              have := ih c1 s2 (lc - 1) (it + 1) j1 hnp1 (by omega) (by omega) (by omega)
              exact this.mono (by omega)

/-! ## the ghost flag of the loop report through the engine -/

theorem gc_vx (c : Ctx) (a : Option Nat) : (collectGarbage c a).1.vExceeded = c.vExceeded := by
  rw [collectGarbage_fst]; unfold gcCells
  generalize (List.range (c.size - 1)) = ks
  have : ∀ (ks : List Nat) (acc : Ctx × Option Nat), (ks.foldl gcStep acc).1.vExceeded = acc.1.vExceeded := by
    intro ks
    induction ks with
    | nil => intro acc; rfl
    | cons k rest ih =>
      intro acc
      refine (ih (gcStep acc k)).trans ?_
      unfold gcStep
      split
      · simp only []
        split <;> rfl
      · rfl
  exact this ks (c, a)

theorem finishAction_vx (s : St) (dl : Bool) {r : Int} {st : Status} {so : Option Nat} {c : Ctx}
    (e : finishAction s dl = .ok (r, st, so, c)) : c.vExceeded = s.ctx.vExceeded := by
  unfold finishAction at e
  simp only [] at e
  split at e
  · cases e
  · split at e
    · cases e
    · split at e
      · cases e; rfl
      · split at e
        · cases e; exact gc_vx _ _
        · cases e; rfl

theorem doAction_vx {is : List Instr} {dl : Bool} {mr : Nat} {data : List Nat} {ctx : Ctx}
    {r : Int} {st : Status} {so : Option Nat} {c : Ctx} (e : doAction is dl mr data ctx = .ok (r, st, so, c)) :
    c.vExceeded = ctx.vExceeded := by
  unfold doAction at e
  simp only [] at e
  split at e
  · cases e; rfl
  · have hr := runLoop_preserves (GX ctx.vExceeded) (ops_GX _) is { vm := initVm data, ctx := enterCtx (startCtx ctx) } rfl
    split at e
    · cases e
    · rename_i s heq
      rw [heq] at hr
      exact (finishAction_vx s dl e).trans hr

theorem adjustBack_vx : ∀ (fuel : Nat) (c : Ctx) (d : Int) (so : Option Nat), (adjustBack fuel c d so).1.vExceeded = c.vExceeded := by
  intro fuel
  induction fuel with
  | zero => intro c d so; unfold adjustBack; rfl
  | succ f ih =>
    intro c d so
    cases so with
    | none => unfold adjustBack; rfl
    | some s =>
      unfold adjustBack
      split
      · split
        · exact ih _ _ _
        · exact ih _ _ _
      · rfl

theorem adjustFwd_vx : ∀ (fuel : Nat) (c : Ctx) (d : Int) (so : Option Nat), (adjustFwd fuel c d so).1.vExceeded = c.vExceeded := by
  intro fuel
  induction fuel with
  | zero => intro c d so; unfold adjustFwd; rfl
  | succ f ih =>
    intro c d so
    cases so with
    | none => unfold adjustFwd; rfl
    | some s =>
      unfold adjustFwd
      split
      · split
        · exact ih _ _ _
        · exact ih _ _ _
      · rfl

theorem adjustSlot_vx (c : Ctx) (d : Int) (so : Option Nat) : (adjustSlot c d so).1.vExceeded = c.vExceeded := by
  have tail : ∀ (st : Ctx × Option Nat × Int),
      (if st.2.2 < 0 then adjustBack (st.2.2.natAbs + 1) st.1 st.2.2 st.2.1
        else if st.2.2 > 0 then adjustFwd (st.2.2.natAbs + 1) st.1 st.2.2 st.2.1 else (st.1, st.2.1)).1.vExceeded = st.1.vExceeded := by
    intro st
    split
    · exact adjustBack_vx _ _ _ _
    · split
      · exact adjustFwd_vx _ _ _ _
      · rfl
  unfold adjustSlot
  cases so with
  | some x => exact tail (c, some x, d)
  | none =>
    simp only []
    refine (tail (adjustStart c d)).trans ?_
    unfold adjustStart
    split
    · split <;> rfl
    · rfl

theorem findNDoRule_vx (p : PassT) (c : Ctx) (slot : Nat) {c' : Ctx} {s' : Option Nat} {st : Status}
    (e : findNDoRule p c slot = .ok (c', s', st)) : c'.vExceeded = c.vExceeded := by
  have g : (runFSM p c slot).2.1.vExceeded = c.vExceeded := by
    unfold runFSM; simp only []; split <;> rfl
  unfold findNDoRule at e
  revert g e
  generalize runFSM p c slot = r
  obtain ⟨ok, c1, rules⟩ := r
  intro e g
  simp only [] at g e
  split at e
  · cases e; exact g
  · split at e
    · cases e
    · split at e
      · cases e; exact g
      · cases e; exact g
    · split at e
      · cases e; exact g
      · split at e
        · cases e
        · split at e
          · cases e
          · rename_i ret status slotOut c2 hact
            have h2 := doAction_vx hact
            split at e
            · cases e; exact h2.trans g
            · have h3 := adjustSlot_vx c2 ret slotOut
              revert h3 e
              generalize adjustSlot c2 ret slotOut = ar
              obtain ⟨c3, so3⟩ := ar
              intro e h3
              simp only [] at h3 e
              cases e
              exact h3.trans (h2.trans g)

theorem ruleLoop_vx (p : PassT) : ∀ (fuel : Nat) (c : Ctx) (s : Nat) (lc : Int) (it : Nat) {c' : Ctx} {n : Nat},
    ruleLoop p fuel c s lc it = .ok (some c', n) → c'.vExceeded = c.vExceeded := by
  intro fuel
  induction fuel with
  | zero => intro c s lc it c' n e; unfold ruleLoop at e; cases e
  | succ f ih =>
    intro c s lc it c' n e
    unfold ruleLoop at e
    split at e
    · cases e
    · rename_i c1 s1 st hf
      have h1 := findNDoRule_vx p c s hf
      split at e
      · cases e
      · split at e
        · cases e; exact h1
        · rename_i s2
          simp only [] at e
          by_cases hit : (some s2 = c1.highwater ∨ c1.highpassed = true)
          · simp only [hit, if_true, true_or] at e
            split at e
            · exact (ih _ _ _ _ e).trans h1
            · cases e; exact h1
          · simp only [hit, if_false, false_or] at e
            split at e
            · split at e
              · exact (ih _ _ _ _ e).trans h1
              · cases e; exact h1
            · exact (ih _ _ _ _ e).trans h1

/-! ## a pass, a run of passes -/

theorem noteLoop_vx (c : Ctx) (it b : Nat) : (noteLoop c it b).vExceeded = (c.vExceeded || decide (it > b)) := by
  unfold noteLoop; simp only []; split <;> rfl

/-- the loop of a pass that starts at the first slot with the mark behind it: at most `maxRuleLoop × (slots + budget + 2)`
iterations, the figure the `GRAPHITE2_VERIF` hook of `Pass::runGraphite` compares its counter with -/
theorem passLoop_bound (p : PassT) (hL : 1 ≤ p.maxLoop) (c : Ctx) (fuel : Nat) {l : List Nat} (hl : Linked c.seg l) (hc : Clean c.seg l)
    (hal : Alloc c.seg l) {s0 : Nat} (hs0 : c.seg.first = some s0) :
    LoopDone p ((if p.maxLoop = 0 then 1 else p.maxLoop) * (c.seg.numGlyphs.toNat + c.maxSize.toNat + 2)) 0
      (ruleLoop p (max fuel ((if p.maxLoop = 0 then 1 else p.maxLoop) * (c.seg.numGlyphs.toNat + c.maxSize.toNat + 2) + 1))
        (c.restartAt s0) s0 p.maxLoop 0) := by
  have hs0l : s0 ∈ l := head?_mem (by rw [← hl.first]; exact hs0)
  have j0 : JO (c.restartAt s0) l (some s0) :=
    JO.mk' hl hc (isok_of_mem hs0l) (fun x hx => next_mem hl hs0l x hx) hal
  have hL0 : ¬ p.maxLoop = 0 := by omega
  rw [if_neg hL0]
  have hn : c.seg.numGlyphs.toNat = l.length := by rw [hc.count]; simp
  have hd := hwDist_next hl hs0l
  have hle := hwDist_le (some s0) l
  have hmeas : meas (c.restartAt s0) l + 1 ≤ c.seg.numGlyphs.toNat + c.maxSize.toNat := by
    unfold meas
    show hwDist (c.seg.get s0).next l + c.maxSize.toNat + 1 ≤ _
    omega
  have e3 : ((p.maxLoop : Nat) : Int).toNat = p.maxLoop := by simp
  have hpot : pot p (c.restartAt s0) l p.maxLoop + p.maxLoop ≤ p.maxLoop * (c.seg.numGlyphs.toNat + c.maxSize.toNat + 2) := by
    unfold pot
    rw [e3]
    have e1 : (meas (c.restartAt s0) l + 1) * p.maxLoop ≤ (c.seg.numGlyphs.toNat + c.maxSize.toNat) * p.maxLoop :=
      Nat.mul_le_mul_right _ hmeas
    have e2 : p.maxLoop * (c.seg.numGlyphs.toNat + c.maxSize.toNat + 2) = (c.seg.numGlyphs.toNat + c.maxSize.toNat) * p.maxLoop + 2 * p.maxLoop := by
      rw [Nat.mul_comm, Nat.add_mul]
    omega
  have hb := ruleLoop_bound p hL (max fuel (p.maxLoop * (c.seg.numGlyphs.toNat + c.maxSize.toNat + 2) + 1)) (c.restartAt s0) s0 p.maxLoop 0
    j0 rfl (by omega) (Int.le_refl _) (by omega)
  exact hb.mono (by omega)

/-- **C02, a pass.** With `maxRuleLoop ≥ 1` (what `Pass::readPass` enforces) a pass over a well-formed stream never makes the
loop report say "exceeded": its rule loop stays within `maxRuleLoop × (slots + insertion budget + 2)` iterations -/
theorem runPass_within_bound (p : PassT) (hL : 1 ≤ p.maxLoop) (c : Ctx) (fuel : Nat) (h : WF c.seg) {c' : Ctx}
    (e : runPass p c fuel = .ok (some c')) : c'.vExceeded = c.vExceeded := by
  obtain ⟨l, hl, hc, hal⟩ := h
  unfold runPass at e
  split at e
  · cases e; rfl
  · rename_i s0 hs0
    split at e
    · cases e; rfl
    · simp only [] at e
      have hb := passLoop_bound p hL c fuel hl hc hal hs0
      split at e
      · cases e
      · cases e
      · rename_i c2 it hr
        cases e
        have hb' : LoopDone p ((if p.maxLoop = 0 then 1 else p.maxLoop) * ((c.restartAt s0).seg.numGlyphs.toNat + (c.restartAt s0).maxSize.toNat + 2)) 0
            (.ok (some c2, it)) := by rw [← hr]; exact hb
        have hit : it ≤ (if p.maxLoop = 0 then 1 else p.maxLoop) * ((c.restartAt s0).seg.numGlyphs.toNat + (c.restartAt s0).maxSize.toNat + 2) := by
          have : it ≤ 0 + _ := hb'
          omega
        rw [noteLoop_vx, ruleLoop_vx p _ _ _ _ _ hr]
        have : decide (it > (if p.maxLoop = 0 then 1 else p.maxLoop) * ((c.restartAt s0).seg.numGlyphs.toNat + (c.restartAt s0).maxSize.toNat + 2)) = false := by
          simp only [decide_eq_false_iff_not]; omega
        rw [this]
        show (c.vExceeded || false) = c.vExceeded
        simp

/-- … and the model's fuel is never what stops it: an error of a pass is an error of one of its rule applications -/
theorem runPass_error (p : PassT) (hL : 1 ≤ p.maxLoop) (c : Ctx) (fuel : Nat) (h : WF c.seg) {w : String}
    (e : runPass p c fuel = .error w) : ∃ c s, findNDoRule p c s = .error w := by
  obtain ⟨l, hl, hc, hal⟩ := h
  unfold runPass at e
  split at e
  · cases e
  · rename_i s0 hs0
    split at e
    · cases e
    · simp only [] at e
      have hb := passLoop_bound p hL c fuel hl hc hal hs0
      split at e
      · rename_i w' hr
        cases e
        have hb' : LoopDone p ((if p.maxLoop = 0 then 1 else p.maxLoop) * ((c.restartAt s0).seg.numGlyphs.toNat + (c.restartAt s0).maxSize.toNat + 2)) 0
            (.error w) := by rw [← hr]; exact hb
        exact hb'
      · cases e
      · cases e

end GrVerif.Pass

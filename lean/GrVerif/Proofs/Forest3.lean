import GrVerif.Proofs.Forest2
/-!
# The attachment forest: the concrete primitives meet the abstract descriptions
-/
set_option linter.unusedSimpArgs false
set_option linter.unusedVariables false
namespace GrVerif.Seg

/-! field-wise reading through `upd` -/
theorem upd_parent_keep (s : Seg) (i j : Nat) (f : Slot → Slot) (hf : ∀ a, (f a).parent = a.parent) :
    ((s.upd i f).get j).parent = (s.get j).parent := by rw [get_upd]; split <;> first | exact hf _ | rfl
theorem upd_child_keep (s : Seg) (i j : Nat) (f : Slot → Slot) (hf : ∀ a, (f a).child = a.child) :
    ((s.upd i f).get j).child = (s.get j).child := by rw [get_upd]; split <;> first | exact hf _ | rfl
theorem upd_sibling_keep (s : Seg) (i j : Nat) (f : Slot → Slot) (hf : ∀ a, (f a).sibling = a.sibling) :
    ((s.upd i f).get j).sibling = (s.get j).sibling := by rw [get_upd]; split <;> first | exact hf _ | rfl
theorem upd_copied_keep (s : Seg) (i j : Nat) (f : Slot → Slot) (hf : ∀ a, (f a).copied = a.copied) :
    ((s.upd i f).get j).copied = (s.get j).copied := by rw [get_upd]; split <;> first | exact hf _ | rfl

/-- what is known locally about a chain: enough to run `removeChild` / `child` on it -/
structure LocalKids (s : Seg) (p : Nat) (l : List Nat) : Prop where
  chain : SibChain s (s.get p).child l
  nodup : l.Nodup
  inb : ∀ j ∈ l, j < s.slots.size

theorem Kids.local {s : Seg} {p : Nat} {l : List Nat} (h : Kids s p l) : LocalKids s p l := ⟨h.chain, h.nodup, h.inb⟩

theorem LocalKids.length_le {s : Seg} {p : Nat} {l : List Nat} (h : LocalKids s p l) : l.length ≤ s.slots.size := by
  have hsub : l ⊆ List.range s.slots.size := fun j hj => List.mem_range.mpr (h.inb j hj)
  simpa using List.Nodup.length_le_of_subset h.nodup hsub

/-- a slot with a child is inside the arena -/
theorem child_inb {s : Seg} {p c : Nat} (h : (s.get p).child = some c) : p < s.slots.size := by
  apply Classical.byContradiction
  intro hn
  rw [get_oob s p (by omega)] at h
  cases h

/-- what `removeChild(p, a)` does when `a` is in `p`'s chain `l` -/
structure RemovedChild (s s' : Seg) (p a : Nat) (l : List Nat) : Prop where
  free : s'.free = s.free
  size : s'.slots.size = s.slots.size
  cop : ∀ j, (s'.get j).copied = (s.get j).copied
  par : ∀ j, (s'.get j).parent = (s.get j).parent
  chi : ∀ j, j ≠ p → (s'.get j).child = (s.get j).child
  kidsP : SibChain s' (s'.get p).child (l.erase a)
  sibA : (s'.get a).sibling = none
  sibO : ∀ j, j ∉ l → (s'.get j).sibling = (s.get j).sibling

theorem erase_mid {a b : List Nat} {x : Nat} (h : (a ++ x :: b).Nodup) : (a ++ x :: b).erase x = a ++ b := by
  have hxa : x ∉ a := fun hh => (List.nodup_append.mp h).2.2 x hh x List.mem_cons_self rfl
  rw [List.erase_append_right _ hxa]
  simp

theorem removeChild_spec (s : Seg) (p a : Nat) (l : List Nat) (hk : LocalKids s p l) (ha : a ∈ l) (hpa : p ≠ a) :
    RemovedChild s (removeChild s p a).2 p a l := by
  obtain ⟨pre, b, rfl⟩ := List.append_of_mem ha
  have hnd := hk.nodup
  have has : a < s.slots.size := hk.inb a ha
  have hmid := sibSeg_mid hk.chain
  have hab : a ∉ b := (List.nodup_cons.mp (List.nodup_append.mp hnd).2.1).1
  have hapre : a ∉ pre := fun hh => (List.nodup_append.mp hnd).2.2 a hh a List.mem_cons_self rfl
  rw [removeChild_found s p a pre b hk.chain hnd hpa hk.length_le]
  simp only []
  rcases List.eq_nil_or_concat pre with hp | ⟨pre', pp, hp⟩
  · subst hp
    simp only [List.getLast?_nil, List.nil_append] at *
    have hps : p < s.slots.size := child_inb (c := a) hk.chain.1
    refine ⟨by simp, by simp, fun j => ?_, fun j => ?_, fun j hj => ?_, ?_, ?_, fun j hj => ?_⟩
    · rw [upd_copied_keep, upd_copied_keep] <;> (intro _; rfl)
    · rw [upd_parent_keep, upd_parent_keep] <;> (intro _; rfl)
    · rw [get_upd_ne _ _ _ _ hj, upd_child_keep]; intro _; rfl
    · rw [List.erase_cons_head, get_upd_self _ _ _ (by simpa using hps)]
      show SibSeg _ (s.get a).sibling _ none
      exact sibSeg_upd_keep _ _ (fun _ => rfl) (sibSeg_upd_notin _ _ hab hmid.2)
    · rw [get_upd_ne _ _ _ _ (Ne.symm hpa), get_upd_self _ _ _ has]; rfl
    · have hja : j ≠ a := fun hh => hj (by rw [hh]; simp)
      rw [upd_sibling_keep, get_upd_ne _ _ _ _ hja]; intro _; rfl
  · rw [List.concat_eq_append] at hp
    subst hp
    have hgl : (pre' ++ [pp]).getLast? = some pp := by simp
    rw [hgl]
    simp only []
    have hpps : pp < s.slots.size := hk.inb pp (by simp)
    have hppa : pp ≠ a := fun hh => hapre (by rw [← hh]; simp)
    have hpp_pre : pp ∉ pre' := fun hh => by
      have := (List.nodup_append.mp hnd).1
      exact (List.nodup_append.mp this).2.2 pp hh pp (by simp) rfl
    have hpp_b : pp ∉ b := fun hh => (List.nodup_append.mp hnd).2.2 pp (by simp) pp (List.mem_cons_of_mem _ hh) rfl
    have hmid1 := sibSeg_mid (a := pre') (x := pp) (b := []) (by simpa using hmid.1)
    refine ⟨by simp, by simp, fun j => ?_, fun j => ?_, fun j hj => ?_, ?_, ?_, fun j hj => ?_⟩
    · rw [upd_copied_keep, upd_copied_keep] <;> (intro _; rfl)
    · rw [upd_parent_keep, upd_parent_keep] <;> (intro _; rfl)
    · rw [upd_child_keep, upd_child_keep] <;> (intro _; rfl)
    · rw [erase_mid hnd, upd_child_keep, upd_child_keep]
      · rw [List.append_assoc]
        show SibSeg _ _ (pre' ++ ([pp] ++ b)) none
        rw [sibSeg_append]
        refine ⟨some pp, sibSeg_upd_notin _ _ (fun hh => hapre (by simp [hh])) (sibSeg_upd_notin _ _ hpp_pre hmid1.1), ?_⟩
        refine ⟨rfl, ?_⟩
        rw [get_upd_ne _ _ _ _ hppa, get_upd_self _ _ _ hpps]
        show SibSeg _ (s.get a).sibling _ none
        exact sibSeg_upd_notin _ _ hab (sibSeg_upd_notin _ _ hpp_b hmid.2)
      · intro _; rfl
      · intro _; rfl
    · rw [get_upd_self _ _ _ (by simpa using has)]; rfl
    · have hja : j ≠ a := fun hh => hj (by rw [hh]; simp)
      have hjp : j ≠ pp := fun hh => hj (by rw [hh]; simp)
      rw [get_upd_ne _ _ _ _ hja, get_upd_ne _ _ _ _ hjp]

end GrVerif.Seg

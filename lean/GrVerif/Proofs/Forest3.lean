import GrVerif.Proofs.Forest2
/-!
# The attachment forest: the concrete primitives meet the abstract descriptions
-/
set_option linter.unusedSimpArgs false
set_option linter.unusedVariables false
namespace GrVerif.Seg

/-! field-wise reading through `upd` -/
theorem upd_parent_keep (s : Seg) (i j : Nat) (f : Slot → Slot) (hf : ∀ a, (f a).parent = a.parent) :
    ((s.upd i f).get j).parent = (s.get j).parent := by rw [get_upd]; split <;> first | exact hf _ | rfl
theorem upd_child_keep (s : Seg) (i j : Nat) (f : Slot → Slot) (hf : ∀ a, (f a).child = a.child) :
    ((s.upd i f).get j).child = (s.get j).child := by rw [get_upd]; split <;> first | exact hf _ | rfl
theorem upd_sibling_keep (s : Seg) (i j : Nat) (f : Slot → Slot) (hf : ∀ a, (f a).sibling = a.sibling) :
    ((s.upd i f).get j).sibling = (s.get j).sibling := by rw [get_upd]; split <;> first | exact hf _ | rfl
theorem upd_copied_keep (s : Seg) (i j : Nat) (f : Slot → Slot) (hf : ∀ a, (f a).copied = a.copied) :
    ((s.upd i f).get j).copied = (s.get j).copied := by rw [get_upd]; split <;> first | exact hf _ | rfl

/-- what is known locally about a chain: enough to run `removeChild` / `child` on it -/
structure LocalKids (s : Seg) (p : Nat) (l : List Nat) : Prop where
  chain : SibChain s (s.get p).child l
  nodup : l.Nodup
  inb : ∀ j ∈ l, j < s.slots.size

theorem Kids.local {s : Seg} {p : Nat} {l : List Nat} (h : Kids s p l) : LocalKids s p l := ⟨h.chain, h.nodup, h.inb⟩

theorem LocalKids.length_le {s : Seg} {p : Nat} {l : List Nat} (h : LocalKids s p l) : l.length ≤ s.slots.size := by
  have hsub : l ⊆ List.range s.slots.size := fun j hj => List.mem_range.mpr (h.inb j hj)
  simpa using List.Nodup.length_le_of_subset h.nodup hsub

/-- a slot with a child is inside the arena -/
theorem child_inb {s : Seg} {p c : Nat} (h : (s.get p).child = some c) : p < s.slots.size := by
  apply Classical.byContradiction
  intro hn
  rw [get_oob s p (by omega)] at h
  cases h

/-- what `removeChild(p, a)` does when `a` is in `p`'s chain `l` -/
structure RemovedChild (s s' : Seg) (p a : Nat) (l : List Nat) : Prop where
  free : s'.free = s.free
  size : s'.slots.size = s.slots.size
  cop : ∀ j, (s'.get j).copied = (s.get j).copied
  par : ∀ j, (s'.get j).parent = (s.get j).parent
  chi : ∀ j, j ≠ p → (s'.get j).child = (s.get j).child
  kidsP : SibChain s' (s'.get p).child (l.erase a)
  sibA : (s'.get a).sibling = none
  sibO : ∀ j, j ∉ l → (s'.get j).sibling = (s.get j).sibling

theorem erase_mid {a b : List Nat} {x : Nat} (h : (a ++ x :: b).Nodup) : (a ++ x :: b).erase x = a ++ b := by
  have hxa : x ∉ a := fun hh => (List.nodup_append.mp h).2.2 x hh x List.mem_cons_self rfl
  rw [List.erase_append_right _ hxa]
  simp

theorem removeChild_spec (s : Seg) (p a : Nat) (l : List Nat) (hk : LocalKids s p l) (ha : a ∈ l) (hpa : p ≠ a) :
    RemovedChild s (removeChild s p a).2 p a l := by
  obtain ⟨pre, b, rfl⟩ := List.append_of_mem ha
  have hnd := hk.nodup
  have has : a < s.slots.size := hk.inb a ha
  have hmid := sibSeg_mid hk.chain
  have hab : a ∉ b := (List.nodup_cons.mp (List.nodup_append.mp hnd).2.1).1
  have hapre : a ∉ pre := fun hh => (List.nodup_append.mp hnd).2.2 a hh a List.mem_cons_self rfl
  rw [removeChild_found s p a pre b hk.chain hnd hpa hk.length_le]
  simp only []
  rcases List.eq_nil_or_concat pre with hp | ⟨pre', pp, hp⟩
  · subst hp
    simp only [List.getLast?_nil, List.nil_append] at *
    have hps : p < s.slots.size := child_inb (c := a) hk.chain.1
    refine ⟨by simp, by simp, fun j => ?_, fun j => ?_, fun j hj => ?_, ?_, ?_, fun j hj => ?_⟩
    · rw [upd_copied_keep, upd_copied_keep] <;> (intro _; rfl)
    · rw [upd_parent_keep, upd_parent_keep] <;> (intro _; rfl)
    · rw [get_upd_ne _ _ _ _ hj, upd_child_keep]; intro _; rfl
    · rw [List.erase_cons_head, get_upd_self _ _ _ (by simpa using hps)]
      show SibSeg _ (s.get a).sibling _ none
      exact sibSeg_upd_keep _ _ (fun _ => rfl) (sibSeg_upd_notin _ _ hab hmid.2)
    · rw [get_upd_ne _ _ _ _ (Ne.symm hpa), get_upd_self _ _ _ has]; rfl
    · have hja : j ≠ a := fun hh => hj (by rw [hh]; simp)
      rw [upd_sibling_keep, get_upd_ne _ _ _ _ hja]; intro _; rfl
  · rw [List.concat_eq_append] at hp
    subst hp
    have hgl : (pre' ++ [pp]).getLast? = some pp := by simp
    rw [hgl]
    simp only []
    have hpps : pp < s.slots.size := hk.inb pp (by simp)
    have hppa : pp ≠ a := fun hh => hapre (by rw [← hh]; simp)
    have hpp_pre : pp ∉ pre' := fun hh => by
      have := (List.nodup_append.mp hnd).1
      exact (List.nodup_append.mp this).2.2 pp hh pp (by simp) rfl
    have hpp_b : pp ∉ b := fun hh => (List.nodup_append.mp hnd).2.2 pp (by simp) pp (List.mem_cons_of_mem _ hh) rfl
    have hmid1 := sibSeg_mid (a := pre') (x := pp) (b := []) (by simpa using hmid.1)
    refine ⟨by simp, by simp, fun j => ?_, fun j => ?_, fun j hj => ?_, ?_, ?_, fun j hj => ?_⟩
    · rw [upd_copied_keep, upd_copied_keep] <;> (intro _; rfl)
    · rw [upd_parent_keep, upd_parent_keep] <;> (intro _; rfl)
    · rw [upd_child_keep, upd_child_keep] <;> (intro _; rfl)
    · rw [erase_mid hnd, upd_child_keep, upd_child_keep]
      · rw [List.append_assoc]
        show SibSeg _ _ (pre' ++ ([pp] ++ b)) none
        rw [sibSeg_append]
        refine ⟨some pp, sibSeg_upd_notin _ _ (fun hh => hapre (by simp [hh])) (sibSeg_upd_notin _ _ hpp_pre hmid1.1), ?_⟩
        refine ⟨rfl, ?_⟩
        rw [get_upd_ne _ _ _ _ hppa, get_upd_self _ _ _ hpps]
        show SibSeg _ (s.get a).sibling _ none
        exact sibSeg_upd_notin _ _ hab (sibSeg_upd_notin _ _ hpp_b hmid.2)
      · intro _; rfl
      · intro _; rfl
    · rw [get_upd_self _ _ _ (by simpa using has)]; rfl
    · have hja : j ≠ a := fun hh => hj (by rw [hh]; simp)
      have hjp : j ≠ pp := fun hh => hj (by rw [hh]; simp)
      rw [get_upd_ne _ _ _ _ hja, get_upd_ne _ _ _ _ hjp]

/-- `removeChild` followed by `attachTo(NULL)` (the order of `Seg.unparent`) -/
theorem detached_of_removed {s s1 : Seg} {p a : Nat} {l : List Nat} (h : RemovedChild s s1 p a l) (has : a < s.slots.size) :
    Detached s (s1.upd a fun sl => sl.setParent none) p a l := by
  have has1 : a < s1.slots.size := by rw [h.size]; exact has
  refine ⟨by simp [h.free], fun j => ?_, fun j => ?_, fun j hj => ?_, ?_, ?_, fun j hj => ?_⟩
  · rw [upd_copied_keep]; exact h.cop j; intro _; rfl
  · by_cases hja : j = a
    · rw [hja, get_upd_self _ _ _ has1, if_pos rfl]; rfl
    · rw [get_upd_ne _ _ _ _ hja, if_neg hja]; exact h.par j
  · rw [upd_child_keep]; exact h.chi j hj; intro _; rfl
  · rw [upd_child_keep]
    · exact sibSeg_upd_keep _ _ (fun _ => rfl) h.kidsP
    · intro _; rfl
  · rw [upd_sibling_keep]; exact h.sibA; intro _; rfl
  · rw [upd_sibling_keep]; exact h.sibO j hj; intro _; rfl

/-- `Seg.unparent` detaches a real attached slot -/
theorem unparent_detached {s : Seg} {p a : Nat} {l : List Nat} (hk : Kids s p l) (ha : a ∈ l) (hpa : p ≠ a) :
    Detached s (s.unparent a) p a l := by
  have hap := (hk.mem a ha).1
  unfold Seg.unparent
  rw [hap]
  exact detached_of_removed (removeChild_spec s p a l hk.local ha hpa) (hk.inb a ha)

theorem unparent_root {s : Seg} {a : Nat} (h : (s.get a).parent = none) : s.unparent a = s := by
  unfold Seg.unparent; rw [h]

/-- `Seg.unparent` keeps the forest; afterwards the slot is a root -/
theorem unparent_forest {s : Seg} (hF : Forest s) {a : Nat} (ha : Real s a) :
    Forest (s.unparent a) ∧ ((s.unparent a).get a).parent = none ∧ Real (s.unparent a) a ∧ (s.unparent a).free = s.free ∧
      (∀ j, ((s.unparent a).get j).copied = (s.get j).copied) ∧ ((s.unparent a).get a).child = (s.get a).child ∧
      (∀ j, j ≠ a → ((s.unparent a).get j).parent = (s.get j).parent) := by
  cases hp : (s.get a).parent with
  | none =>
    rw [unparent_root hp]
    exact ⟨hF, hp, ha, rfl, fun _ => rfl, rfl, fun _ _ => rfl⟩
  | some p =>
    have hpr := (hF.par a p ha hp).1
    obtain ⟨l, hk⟩ := hF.kids p hpr
    have hal := hk.all a ha hp
    have hpa : p ≠ a := fun hh => hF.not_self ha (by rw [hp, hh])
    have hd := unparent_detached hk hal hpa
    refine ⟨forest_of_detached hF hpr hk hal hd, by rw [hd.par a, if_pos rfl], ?_, hd.free, hd.cop, hd.chi a (Ne.symm hpa),
      fun j hj => by rw [hd.par j, if_neg hj]⟩
    unfold Real; rw [hd.cop a]; exact ha

/-! ## `detachChildren` -/

theorem detachChildren_nochild (s : Seg) (a : Nat) (h : (s.get a).child = none) : ∀ fuel, detachChildren s a fuel = s := by
  intro fuel
  cases fuel with
  | zero => rfl
  | succ f => unfold detachChildren; rw [h]

theorem detachChildren_spec : ∀ (l : List Nat) (fuel : Nat) (s : Seg) (a : Nat), LocalKids s a l →
    (∀ j ∈ l, (s.get j).parent = some a) → a ∉ l → l.length ≤ fuel → DetachedAll s (detachChildren s a fuel) a l := by
  intro l
  induction l with
  | nil =>
    intro fuel s a hk _ _ _
    have hc : (s.get a).child = none := hk.chain
    rw [detachChildren_nochild s a hc]
    exact ⟨rfl, fun _ => rfl, fun j => by simp, hc, fun _ _ => rfl, fun j => by simp⟩
  | cons c rest ih =>
    intro fuel s a hk hpar hal hlen
    cases fuel with
    | zero => simp at hlen
    | succ f =>
      have hc : (s.get a).child = some c := hk.chain.1
      have hcp : (s.get c).parent = some a := hpar c List.mem_cons_self
      have hac : a ≠ c := fun hh => hal (by rw [hh]; exact List.mem_cons_self)
      have hcr : c ∉ rest := (List.nodup_cons.mp hk.nodup).1
      unfold detachChildren
      rw [hc]
      simp only [hcp, if_true]
      have lk1 : LocalKids (s.upd c fun sl => sl.setParent none) a (c :: rest) :=
        ⟨by rw [upd_child_keep]; exact sibSeg_upd_keep _ _ (fun _ => rfl) hk.chain; intro _; rfl, hk.nodup,
         fun j hj => by simpa using hk.inb j hj⟩
      have rc := removeChild_spec _ a c (c :: rest) lk1 List.mem_cons_self hac
      have lk2 : LocalKids (removeChild (s.upd c fun sl => sl.setParent none) a c).2 a rest :=
        ⟨by have := rc.kidsP; rw [List.erase_cons_head] at this; exact this, (List.nodup_cons.mp hk.nodup).2,
         fun j hj => by rw [rc.size]; simpa using hk.inb j (List.mem_cons_of_mem _ hj)⟩
      have hpar2 : ∀ j ∈ rest, ((removeChild (s.upd c fun sl => sl.setParent none) a c).2.get j).parent = some a := by
        intro j hj
        have hjc : j ≠ c := fun hh => hcr (hh ▸ hj)
        rw [rc.par j, get_upd_ne _ _ _ _ hjc]
        exact hpar j (List.mem_cons_of_mem _ hj)
      have d2 := ih f _ a lk2 hpar2 (fun hh => hal (List.mem_cons_of_mem _ hh)) (by simp at hlen; omega)
      have hcs : c < s.slots.size := hk.inb c List.mem_cons_self
      refine ⟨by rw [d2.free, rc.free]; simp, fun j => ?_, fun j => ?_, d2.chiA, fun j hj => ?_, fun j => ?_⟩
      · rw [d2.cop j, rc.cop j, upd_copied_keep]; intro _; rfl
      · rw [d2.par j]
        by_cases hjr : j ∈ rest
        · simp [hjr]
        · rw [if_neg hjr, rc.par j]
          by_cases hjc : j = c
          · rw [hjc, get_upd_self _ _ _ hcs]; simp; rfl
          · rw [get_upd_ne _ _ _ _ hjc]; simp [hjc, hjr]
      · rw [d2.chi j hj, rc.chi j hj, upd_child_keep]; intro _; rfl
      · rw [d2.sib j]
        by_cases hjr : j ∈ rest
        · simp [hjr]
        · rw [if_neg hjr]
          by_cases hjc : j = c
          · rw [hjc, rc.sibA]; simp
          · have hjl : j ∉ c :: rest := fun hh => by
              rcases List.mem_cons.mp hh with h1 | h1
              · exact hjc h1
              · exact hjr h1
            rw [rc.sibO j hjl, upd_sibling_keep, if_neg hjl]; intro _; rfl

/-- `detachChildren` on a real slot of a forest: all its children become roots -/
theorem detachChildren_forest {s : Seg} (hF : Forest s) {a : Nat} (ha : Real s a) :
    Forest (detachChildren s a (s.slots.size + 1)) ∧ ((detachChildren s a (s.slots.size + 1)).get a).child = none ∧
    ((detachChildren s a (s.slots.size + 1)).get a).parent = (s.get a).parent ∧
    (detachChildren s a (s.slots.size + 1)).free = s.free ∧
    (∀ j, ((detachChildren s a (s.slots.size + 1)).get j).copied = (s.get j).copied) ∧
    (∀ j, ¬ Real s j → ((detachChildren s a (s.slots.size + 1)).get j).parent = (s.get j).parent) ∧
    (∀ j, ((detachChildren s a (s.slots.size + 1)).get j).parent = (s.get j).parent ∨
      ((detachChildren s a (s.slots.size + 1)).get j).parent = none) := by
  obtain ⟨l, hk⟩ := hF.kids a ha
  have hal : a ∉ l := fun hh => hF.not_self ha (hk.mem a hh).1
  have hd := detachChildren_spec l (s.slots.size + 1) s a hk.local (fun j hj => (hk.mem j hj).1) hal (by have := hk.length_le; omega)
  exact ⟨forest_of_detachedAll hF ha hk hd, hd.chiA, by rw [hd.par a, if_neg hal], hd.free, hd.cop,
    fun j hj => by rw [hd.par j, if_neg (fun hh => hj (hk.mem j hh).2)], fun j => by rw [hd.par j]; split; exact .inr rfl; exact .inl rfl⟩

/-! ## `child` followed by `attachTo` -/

theorem child_attached {s : Seg} {p a : Nat} {l : List Nat} (hk : LocalKids s p l) (hal : a ∉ l) (hpa : p ≠ a)
    (hps : p < s.slots.size) (has : a < s.slots.size) (hsib : (s.get a).sibling = none) :
    (child s p a).1 = true ∧ Attached s ((child s p a).2.upd a fun sl => sl.setParent (some p)) p a l := by
  rw [child_append s p a l hk.chain hal hpa hk.length_le]
  refine ⟨rfl, ?_⟩
  simp only []
  rcases List.eq_nil_or_concat l with hl | ⟨pre, last, hl⟩
  · subst hl
    simp only [List.getLast?_nil, List.nil_append]
    have has1 : a < (s.upd p fun sl => sl.setChild (some a)).slots.size := by simpa using has
    refine ⟨by simp, fun j => ?_, fun j => ?_, fun j hj => ?_, ?_, fun j hj => ?_⟩
    · rw [upd_copied_keep, upd_copied_keep] <;> (intro _; rfl)
    · by_cases hja : j = a
      · rw [hja, get_upd_self _ _ _ has1, if_pos rfl]; rfl
      · rw [get_upd_ne _ _ _ _ hja, if_neg hja, upd_parent_keep]; intro _; rfl
    · rw [upd_child_keep, get_upd_ne _ _ _ _ hj]; intro _; rfl
    · rw [upd_child_keep, get_upd_self _ _ _ hps]
      · refine ⟨rfl, ?_⟩
        show ((_ : Seg).get a).sibling = none
        rw [upd_sibling_keep, upd_sibling_keep]
        · exact hsib
        · intro _; rfl
        · intro _; rfl
      · intro _; rfl
    · rw [upd_sibling_keep, upd_sibling_keep] <;> (intro _; rfl)
  · rw [List.concat_eq_append] at hl
    subst hl
    have hgl : (pre ++ [last]).getLast? = some last := by simp
    rw [hgl]
    simp only []
    have hls : last < s.slots.size := hk.inb last (by simp)
    have hla : last ≠ a := fun hh => hal (by rw [← hh]; simp)
    have hlp : last ∉ pre := fun hh => (List.nodup_append.mp hk.nodup).2.2 last hh last (by simp) rfl
    have hapre : a ∉ pre := fun hh => hal (by simp [hh])
    have has1 : a < (s.upd last fun sl => sl.setSibling (some a)).slots.size := by simpa using has
    have hmid := sibSeg_mid (a := pre) (x := last) (b := []) (by simpa using hk.chain)
    refine ⟨by simp, fun j => ?_, fun j => ?_, fun j hj => ?_, ?_, fun j hj => ?_⟩
    · rw [upd_copied_keep, upd_copied_keep] <;> (intro _; rfl)
    · by_cases hja : j = a
      · rw [hja, get_upd_self _ _ _ has1, if_pos rfl]; rfl
      · rw [get_upd_ne _ _ _ _ hja, if_neg hja, upd_parent_keep]; intro _; rfl
    · rw [upd_child_keep, upd_child_keep] <;> (intro _; rfl)
    · rw [upd_child_keep, upd_child_keep]
      · show SibSeg _ _ (pre ++ [last] ++ [a]) none
        rw [List.append_assoc, sibSeg_append]
        refine ⟨some last, sibSeg_upd_keep _ _ (fun _ => rfl) (sibSeg_upd_notin _ _ hlp hmid.1), ?_⟩
        refine ⟨rfl, ?_⟩
        rw [get_upd_ne _ _ _ _ hla, get_upd_self _ _ _ hls]
        refine ⟨rfl, ?_⟩
        show ((_ : Seg).get a).sibling = none
        rw [upd_sibling_keep, get_upd_ne _ _ _ _ (Ne.symm hla)]
        · exact hsib
        · intro _; rfl
      · intro _; rfl
      · intro _; rfl
    · have hjl : j ≠ last := fun hh => hj (by rw [hh]; simp)
      rw [upd_sibling_keep, get_upd_ne _ _ _ _ hjl]; intro _; rfl

/-! ## the walk up the parent chain -/

/-- if the walk ended before its fuel, it saw every ancestor: `found` is exact -/
theorem chainUp_exact (s : Seg) (i : Nat) : ∀ (fuel : Nat) (o : Option Nat) (cnt : Nat) (found : Bool),
    (chainUp s i fuel o cnt found).1 < cnt + fuel →
    ((chainUp s i fuel o cnt found).2 = true ↔ found = true ∨ ∃ q, o = some q ∧ Anc s i q) := by
  intro fuel
  induction fuel with
  | zero => intro o cnt found h; unfold chainUp at h; simp at h
  | succ f ih =>
    intro o cnt found h
    cases o with
    | none => unfold chainUp; simp
    | some q =>
      unfold chainUp at h ⊢
      have h' : (chainUp s i f (s.get q).parent (cnt + 1) (found || q == i)).1 < cnt + 1 + f := by omega
      rw [ih _ _ _ h']
      constructor
      · rintro (h1 | ⟨q', h1, h2⟩)
        · simp only [Bool.or_eq_true, beq_iff_eq] at h1
          rcases h1 with h1 | h1
          · exact .inl h1
          · exact .inr ⟨q, rfl, by rw [h1]; exact ⟨0, rfl⟩⟩
        · by_cases hqi : q = i
          · exact .inr ⟨q, rfl, by rw [hqi]; exact ⟨0, rfl⟩⟩
          · exact .inr ⟨q, rfl, (anc_step hqi h1).mpr h2⟩
      · rintro (h1 | ⟨q', h1, h2⟩)
        · exact .inl (by simp [h1])
        · cases h1
          by_cases hqi : q = i
          · exact .inl (by simp [hqi])
          · cases hp : (s.get q).parent with
            | none => exact absurd h2 (anc_root hqi hp)
            | some pp => exact .inr ⟨pp, rfl, (anc_step hqi hp).mp h2⟩

theorem chainUp_count (s : Seg) (i : Nat) : ∀ (fuel : Nat) (o : Option Nat) (cnt : Nat) (found : Bool),
    cnt ≤ (chainUp s i fuel o cnt found).1 := by
  intro fuel
  induction fuel with
  | zero => intro o cnt found; unfold chainUp; omega
  | succ f ih =>
    intro o cnt found
    cases o with
    | none => unfold chainUp; omega
    | some q => unfold chainUp; have := ih (s.get q).parent (cnt + 1) (found || q == i); omega

theorem chainDown_count (s : Seg) (sel : Slot → Option Nat) : ∀ (fuel : Nat) (o : Option Nat) (cnt : Nat),
    cnt ≤ chainDown s sel fuel o cnt := by
  intro fuel
  induction fuel with
  | zero => intro o cnt; unfold chainDown; omega
  | succ f ih =>
    intro o cnt
    cases o with
    | none => unfold chainDown; omega
    | some q => unfold chainDown; have := ih (sel (s.get q)) (cnt + 1); omega

/-! ## `attach.to` -/

/-- `Seg.attach` keeps the forest -/
theorem attach_forest {s : Seg} (hF : Forest s) {i other : Nat} (ws : Bool) (hi : Real s i) (ho : Real s other) (hio : i ≠ other)
    (his : i < s.slots.size) (hos : other < s.slots.size) (hif : i ∉ s.free) (hof : other ∉ s.free) :
    Forest (s.attach i other ws) ∧ (s.attach i other ws).free = s.free ∧
      (∀ j, ((s.attach i other ws).get j).copied = (s.get j).copied) ∧
      (∀ j, j ≠ i → ((s.attach i other ws).get j).parent = (s.get j).parent) ∧
      (((s.attach i other ws).get i).parent = some other ∨ ((s.attach i other ws).get i).parent = none) := by
  obtain ⟨hF1, hp1, hr1, hfree1, hcop1, _, hpar1⟩ := unparent_forest hF hi
  have hsz1 : (s.unparent i).slots.size = s.slots.size := (GrVerif.Action.unparent_same s i).size
  unfold Seg.attach
  simp only []
  split
  · rename_i hcond
    have hcnt := hcond.1
    have hfound : (chainUp (s.unparent i) i 200 (some other) 0 false).2 = false := by
      have := hcond.2; simpa using this
    -- the walk up ended before its fuel
    have hlt : (chainUp (s.unparent i) i 200 (some other) 0 false).1 < 0 + 200 := by
      have a1 := chainDown_count (s.unparent i) (·.child) 200 ((s.unparent i).get i).child (chainUp (s.unparent i) i 200 (some other) 0 false).1
      have a2 := chainDown_count (s.unparent i) (·.sibling) 200 ((s.unparent i).get i).sibling
        (chainDown (s.unparent i) (·.child) 200 ((s.unparent i).get i).child (chainUp (s.unparent i) i 200 (some other) 0 false).1)
      omega
    have hanc : ¬ Anc (s.unparent i) i other := fun hh => by
      have := (chainUp_exact (s.unparent i) i 200 (some other) 0 false hlt).mpr (.inr ⟨other, rfl, hh⟩)
      rw [hfound] at this; cases this
    have ho1 : Real (s.unparent i) other := by unfold Real; rw [hcop1]; exact ho
    obtain ⟨l, hk⟩ := hF1.kids other ho1
    have hil : i ∉ l := fun hh => by rw [(hk.mem i hh).1] at hp1; cases hp1
    have hsib : ((s.unparent i).get i).sibling = none := hF1.root i hr1 hp1
    obtain ⟨hc1, hatt⟩ := child_attached hk.local hil (Ne.symm hio) (by rw [hsz1]; exact hos) (by rw [hsz1]; exact his) hsib
    rw [if_pos hc1]
    have hF2 := forest_of_attached hF1 ho1 hr1 hk hp1 hio hanc (by rw [hfree1]; exact hof) (by rw [hfree1]; exact hif) hatt
    split
    · have ts := TreeSame.upd ((child (s.unparent i) other i).2.upd i fun sl => sl.setParent (some other)) i
        (fun sl => { sl with withX := sl.advX, withY := 0 }) (fun _ => ⟨rfl, rfl, rfl, rfl⟩)
      refine ⟨forest_congr ts hF2, by rw [ts.free, hatt.free, hfree1], fun j => ?_, fun j hj => ?_, .inl ?_⟩
      · rw [(ts.fld j).2.2.2, hatt.cop j, hcop1 j]
      · rw [(ts.fld j).1, hatt.par j, if_neg hj, hpar1 j hj]
      · rw [(ts.fld i).1, hatt.par i, if_pos rfl]
    · have ts := TreeSame.upd ((child (s.unparent i) other i).2.upd i fun sl => sl.setParent (some other)) i
        (fun sl => { sl with attX := (((child (s.unparent i) other i).2.upd i fun sl => sl.setParent (some other)).get other).advX, attY := 0 })
        (fun _ => ⟨rfl, rfl, rfl, rfl⟩)
      refine ⟨forest_congr ts hF2, by rw [ts.free, hatt.free, hfree1], fun j => ?_, fun j hj => ?_, .inl ?_⟩
      · rw [(ts.fld j).2.2.2, hatt.cop j, hcop1 j]
      · rw [(ts.fld j).1, hatt.par j, if_neg hj, hpar1 j hj]
      · rw [(ts.fld i).1, hatt.par i, if_pos rfl]
  · exact ⟨hF1, hfree1, hcop1, hpar1, .inr hp1⟩

end GrVerif.Seg

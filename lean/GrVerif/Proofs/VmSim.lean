import GrVerif.Proofs.VmOps
/-! Uniform statement "the regenerated opcode body simulates the specification step" and its proof for all 34 scalar opcodes. -/
set_option linter.unusedSimpArgs false
set_option linter.unusedVariables false
namespace GrVerif.Vm
open GrVerif.Gen.Vm GrVerif.Spec.Vm

def StRange (st : List Int) : Prop := ∀ x ∈ st, InR x

theorem StRange.cons {x : Int} {st : List Int} (hx : InR x) (h : StRange st) : StRange (x :: st) := by
  intro y hy; rcases List.mem_cons.mp hy with rfl | hy; exact hx; exact h y hy
theorem StRange.tail {x : Int} {st : List Int} (h : StRange (x :: st)) : StRange st := fun y hy => h y (List.mem_cons_of_mem _ hy)
theorem StRange.head {x : Int} {st : List Int} (h : StRange (x :: st)) : InR x := h x (List.mem_cons_self ..)

/-- `op` (the body wired to opcode `opc`) does what `Spec.step opc` says, on every state with at least one free cell above the stack -/
def Sim (opc : Nat) (op : VmM Unit) : Prop :=
  ∀ (below st : List Int) (j : Int) (above : List Int) (dp : Nat) (data : Array Nat) (status : Status),
    below ≠ [] → StRange st → Bytes data.toList →
    match step opc (data.toList.drop dp) st with
    | .next st' k => ∃ above', op (build below st (j :: above) dp data status) = .ok () (build below st' above' (dp + k) data status)
        ∧ StRange st' ∧ above'.length + st'.length = above.length + 1 + st.length
    | .ret v rest => ∃ above', op (build below st (j :: above) dp data status) = .stop .exited (build below (v :: rest) above' dp data status)
        ∧ above'.length + rest.length + 1 = above.length + 1 + st.length ∧ InR v
    | .die st' => ∃ above', op (build below st (j :: above) dp data status) = .stop .exited (build below (1 :: st') above' dp data .died_early)
        ∧ above'.length + st'.length + 1 = above.length + 1 + st.length
    | .stuck => True

/-- binary operators: `x :: y :: st ↦ f x y :: st` -/
theorem sim_bin (opc : Nat) (op : VmM Unit) (f : Int → Int → Int)
    (hstep : ∀ ops x y st, step opc ops (x :: y :: st) = .next (f x y :: st) 0)
    (hs0 : ∀ ops, step opc ops [] = .stuck) (hs1 : ∀ ops x, step opc ops [x] = .stuck)
    (hspec : ∀ below st above dp data status x y, below ≠ [] → InR x → InR y →
      op (build below (x :: y :: st) above dp data status) = .ok () (build below (f x y :: st) (x :: above) dp data status))
    (hf : ∀ x y, InR x → InR y → InR (f x y)) : Sim opc op := by
  intro below st j above dp data status hb hr hbytes
  match st, hr with
  | [], _ => rw [hs0]; trivial
  | [x], _ => rw [hs1]; trivial
  | x :: y :: st, hr =>
    rw [hstep]
    have hx := hr.head
    have hy := hr.tail.head
    exact ⟨_, hspec below st (j :: above) dp data status x y hb hx hy, (hf x y hx hy |> StRange.cons) hr.tail.tail, by simp only [List.length_cons]; omega⟩

/-- unary operators: `x :: st ↦ f x :: st` -/
theorem sim_un (opc : Nat) (op : VmM Unit) (f : Int → Int)
    (hstep : ∀ ops x st, step opc ops (x :: st) = .next (f x :: st) 0)
    (hs0 : ∀ ops, step opc ops [] = .stuck)
    (hspec : ∀ below st above dp data status x, below ≠ [] → InR x →
      op (build below (x :: st) above dp data status) = .ok () (build below (f x :: st) above dp data status))
    (hf : ∀ x, InR x → InR (f x)) : Sim opc op := by
  intro below st j above dp data status hb hr hbytes
  match st, hr with
  | [], _ => rw [hs0]; trivial
  | x :: st, hr =>
    rw [hstep]
    exact ⟨_, hspec below st (j :: above) dp data status x hb hr.head, (hf x hr.head |> StRange.cons) hr.tail, by simp only [List.length_cons]⟩

theorem min_inR (x y : Int) (hx : InR x) (hy : InR y) : InR (min y x) := by unfold InR at *; omega
theorem max_inR (x y : Int) (hx : InR x) (hy : InR y) : InR (max y x) := by unfold InR at *; omega
theorem natmod_inR (n k : Nat) (hk : k ≤ 65536) (hk0 : 0 < k) : InR ((n % k : Nat) : Int) := by
  have : n % k < k := Nat.mod_lt _ hk0
  unfold InR; omega

theorem sim_add : Sim 6 op_add := sim_bin 6 op_add (fun x y => wrap32 (y + x)) (fun _ _ _ _ => rfl) (fun _ => rfl) (fun _ _ => rfl)
  (fun below st above dp data status x y hb _ _ => add_spec below st above dp data status x y hb) (fun _ _ _ _ => wrap32_inR _)
theorem sim_sub : Sim 7 op_sub := sim_bin 7 op_sub (fun x y => wrap32 (y - x)) (fun _ _ _ _ => rfl) (fun _ => rfl) (fun _ _ => rfl)
  (fun below st above dp data status x y hb _ _ => sub_spec below st above dp data status x y hb) (fun _ _ _ _ => wrap32_inR _)
theorem sim_mul : Sim 8 op_mul := sim_bin 8 op_mul (fun x y => wrap32 (y * x)) (fun _ _ _ _ => rfl) (fun _ => rfl) (fun _ _ => rfl)
  (fun below st above dp data status x y hb _ _ => mul_spec below st above dp data status x y hb) (fun _ _ _ _ => wrap32_inR _)
theorem sim_min : Sim 10 op_min_ := sim_bin 10 op_min_ (fun x y => min y x) (fun _ _ _ _ => rfl) (fun _ => rfl) (fun _ _ => rfl)
  (fun below st above dp data status x y hb _ _ => min_spec below st above dp data status x y hb) min_inR
theorem sim_max : Sim 11 op_max_ := sim_bin 11 op_max_ (fun x y => max y x) (fun _ _ _ _ => rfl) (fun _ => rfl) (fun _ _ => rfl)
  (fun below st above dp data status x y hb _ _ => max_spec below st above dp data status x y hb) max_inR
theorem sim_and : Sim 16 op_and_ := sim_bin 16 op_and_ (fun x y => Spec.Vm.bool (y ≠ 0 ∧ x ≠ 0)) (fun _ _ _ _ => rfl) (fun _ => rfl) (fun _ _ => rfl)
  (fun below st above dp data status x y hb hx hy => and_spec below st above dp data status x y hb hx hy) (fun _ _ _ _ => bool_inR _)
theorem sim_or : Sim 17 op_or_ := sim_bin 17 op_or_ (fun x y => Spec.Vm.bool (y ≠ 0 ∨ x ≠ 0)) (fun _ _ _ _ => rfl) (fun _ => rfl) (fun _ _ => rfl)
  (fun below st above dp data status x y hb hx hy => or_spec below st above dp data status x y hb hx hy) (fun _ _ _ _ => bool_inR _)
theorem sim_equal : Sim 19 op_equal := sim_bin 19 op_equal (fun x y => Spec.Vm.bool (y = x)) (fun _ _ _ _ => rfl) (fun _ => rfl) (fun _ _ => rfl)
  (fun below st above dp data status x y hb hx hy => equal_spec below st above dp data status x y hb hx hy) (fun _ _ _ _ => bool_inR _)
theorem sim_not_eq : Sim 20 op_not_eq_ := sim_bin 20 op_not_eq_ (fun x y => Spec.Vm.bool (y ≠ x)) (fun _ _ _ _ => rfl) (fun _ => rfl) (fun _ _ => rfl)
  (fun below st above dp data status x y hb hx hy => not_eq_spec below st above dp data status x y hb hx hy) (fun _ _ _ _ => bool_inR _)
theorem sim_less : Sim 21 op_less := sim_bin 21 op_less (fun x y => Spec.Vm.bool (y < x)) (fun _ _ _ _ => rfl) (fun _ => rfl) (fun _ _ => rfl)
  (fun below st above dp data status x y hb _ hy => less_spec below st above dp data status x y hb hy) (fun _ _ _ _ => bool_inR _)
theorem sim_gtr : Sim 22 op_gtr := sim_bin 22 op_gtr (fun x y => Spec.Vm.bool (y > x)) (fun _ _ _ _ => rfl) (fun _ => rfl) (fun _ _ => rfl)
  (fun below st above dp data status x y hb _ hy => gtr_spec below st above dp data status x y hb hy) (fun _ _ _ _ => bool_inR _)
theorem sim_less_eq : Sim 23 op_less_eq := sim_bin 23 op_less_eq (fun x y => Spec.Vm.bool (y ≤ x)) (fun _ _ _ _ => rfl) (fun _ => rfl) (fun _ _ => rfl)
  (fun below st above dp data status x y hb _ hy => less_eq_spec below st above dp data status x y hb hy) (fun _ _ _ _ => bool_inR _)
theorem sim_gtr_eq : Sim 24 op_gtr_eq := sim_bin 24 op_gtr_eq (fun x y => Spec.Vm.bool (y ≥ x)) (fun _ _ _ _ => rfl) (fun _ => rfl) (fun _ _ => rfl)
  (fun below st above dp data status x y hb _ hy => gtr_eq_spec below st above dp data status x y hb hy) (fun _ _ _ _ => bool_inR _)
theorem sim_bor : Sim 62 op_bor := sim_bin 62 op_bor (fun x y => wrap32 ((pat y ||| pat x : Nat))) (fun _ _ _ _ => rfl) (fun _ => rfl) (fun _ _ => rfl)
  (fun below st above dp data status x y hb _ _ => bor_spec below st above dp data status x y hb) (fun _ _ _ _ => wrap32_inR _)
theorem sim_band : Sim 63 op_band := sim_bin 63 op_band (fun x y => wrap32 ((pat y &&& pat x : Nat))) (fun _ _ _ _ => rfl) (fun _ => rfl) (fun _ _ => rfl)
  (fun below st above dp data status x y hb _ _ => band_spec below st above dp data status x y hb) (fun _ _ _ _ => wrap32_inR _)

theorem sim_neg : Sim 12 op_neg := sim_un 12 op_neg (fun x => wrap32 (-x)) (fun _ _ _ => rfl) (fun _ => rfl)
  (fun below st above dp data status x hb hx => neg_spec below st above dp data status x hb hx) (fun _ _ => wrap32_inR _)
theorem sim_trunc8 : Sim 13 op_trunc8 := sim_un 13 op_trunc8 (fun x => ((pat x % 256 : Nat) : Int)) (fun _ _ _ => rfl) (fun _ => rfl)
  (fun below st above dp data status x hb _ => trunc8_spec below st above dp data status x hb) (fun x _ => natmod_inR _ 256 (by decide) (by decide))
theorem sim_trunc16 : Sim 14 op_trunc16 := sim_un 14 op_trunc16 (fun x => ((pat x % 65536 : Nat) : Int)) (fun _ _ _ => rfl) (fun _ => rfl)
  (fun below st above dp data status x hb _ => trunc16_spec below st above dp data status x hb) (fun x _ => natmod_inR _ 65536 (by decide) (by decide))
theorem sim_not : Sim 18 op_not_ := sim_un 18 op_not_ (fun x => Spec.Vm.bool (x = 0)) (fun _ _ _ => rfl) (fun _ => rfl)
  (fun below st above dp data status x hb _ => not_spec below st above dp data status x hb) (fun _ _ => bool_inR _)
theorem sim_bnot : Sim 64 op_bnot := sim_un 64 op_bnot (fun x => wrap32 (-x - 1)) (fun _ _ _ => rfl) (fun _ => rfl)
  (fun below st above dp data status x hb hx => bnot_spec below st above dp data status x hb hx) (fun _ _ => wrap32_inR _)

theorem sext_inR8 (b : Nat) (h : b < 256) : InR (sext 8 b) := by
  simp only [sext, Nat.reducePow, Nat.reduceSub, Int.reducePow]; unfold InR; split <;> omega
theorem sext_inR16 (n : Nat) (h : n < 65536) : InR (sext 16 n) := by
  simp only [sext, Nat.reducePow, Nat.reduceSub, Int.reducePow]; unfold InR; split <;> omega
theorem sext_inR32 (n : Nat) (h : n < 4294967296) : InR (sext 32 n) := by
  simp only [sext, Nat.reducePow, Nat.reduceSub, Int.reducePow]; unfold InR; split <;> omega
theorem nat_inR (n : Nat) (h : n < 2147483648) : InR (n : Int) := by unfold InR; omega

theorem Bytes.drop {l : List Nat} (h : Bytes l) (k : Nat) : Bytes (l.drop k) := fun b hb => h b (List.mem_of_mem_drop hb)

theorem sim_nop : Sim 0 op_nop := by
  intro below st j above dp data status hb hr hbytes
  exact ⟨_, nop_spec below st (j :: above) dp data status, hr, by simp only [List.length_cons]⟩

theorem sim_push_byte : Sim 1 op_push_byte := by
  intro below st j above dp data status hb hr hbytes
  match hd : data.toList.drop dp with
  | [] => trivial
  | b :: rest =>
    have hb8 : b < 256 := (hbytes.drop dp) b (by rw [hd]; simp)
    exact ⟨_, push_byte_spec below st above dp data status b rest j hb hd hb8, (sext_inR8 b hb8 |> StRange.cons) hr, by simp only [List.length_cons]; omega⟩

theorem sim_push_byte_u : Sim 2 op_push_byte_u := by
  intro below st j above dp data status hb hr hbytes
  match hd : data.toList.drop dp with
  | [] => trivial
  | b :: rest =>
    have hb8 : b < 256 := (hbytes.drop dp) b (by rw [hd]; simp)
    exact ⟨_, push_byte_u_spec below st above dp data status b rest j hb hd hb8, (nat_inR b (by omega) |> StRange.cons) hr, by simp only [List.length_cons]; omega⟩

theorem sim_push_short : Sim 3 op_push_short := by
  intro below st j above dp data status hb hr hbytes
  match hd : data.toList.drop dp with
  | [] => trivial
  | [_] => trivial
  | a :: b :: rest =>
    have ha : a < 256 := (hbytes.drop dp) a (by rw [hd]; simp)
    have hb8 : b < 256 := (hbytes.drop dp) b (by rw [hd]; simp)
    exact ⟨_, push_short_spec below st above dp data status a b rest j hb hd ha hb8,
      (sext_inR16 _ (nb1 a b ha hb8) |> StRange.cons) hr, by simp only [List.length_cons]; omega⟩

theorem sim_push_short_u : Sim 4 op_push_short_u := by
  intro below st j above dp data status hb hr hbytes
  match hd : data.toList.drop dp with
  | [] => trivial
  | [_] => trivial
  | a :: b :: rest =>
    have ha : a < 256 := (hbytes.drop dp) a (by rw [hd]; simp)
    have hb8 : b < 256 := (hbytes.drop dp) b (by rw [hd]; simp)
    have := nb1 a b ha hb8
    exact ⟨_, push_short_u_spec below st above dp data status a b rest j hb hd ha hb8,
      (nat_inR _ (by omega) |> StRange.cons) hr, by simp only [List.length_cons]; omega⟩

theorem sim_push_long : Sim 5 op_push_long := by
  intro below st j above dp data status hb hr hbytes
  match hd : data.toList.drop dp with
  | [] => trivial
  | [_] => trivial
  | [_, _] => trivial
  | [_, _, _] => trivial
  | a :: b :: c :: d :: rest =>
    have ha : a < 256 := (hbytes.drop dp) a (by rw [hd]; simp)
    have hb8 : b < 256 := (hbytes.drop dp) b (by rw [hd]; simp)
    have hc : c < 256 := (hbytes.drop dp) c (by rw [hd]; simp)
    have hd8 : d < 256 := (hbytes.drop dp) d (by rw [hd]; simp)
    exact ⟨_, push_long_spec below st above dp data status a b c d rest j hb hd ha hb8 hc hd8,
      (sext_inR32 _ (nb3 a b c d ha hb8 hc hd8) |> StRange.cons) hr, by simp only [List.length_cons]; omega⟩

theorem sim_div : Sim 9 op_div_ := by
  intro below st j above dp data status hb hr hbytes
  match st, hr with
  | [], _ => trivial
  | [_], _ => trivial
  | x :: y :: st, hr =>
    have hx := hr.head
    have hy := hr.tail.head
    have h := div_spec below st (j :: above) dp data status x y hb hx hy
    show match (if x = 0 ∨ (y = INT_MIN ∧ x = -1) then Outcome.die (y :: st) else Outcome.next (Int.tdiv y x :: st) 0) with
      | .next st' k => _ | .ret v rest => _ | .die st' => _ | .stuck => _
    by_cases hc : x = 0 ∨ (y = INT_MIN ∧ x = -1)
    · rw [if_pos hc] at h ⊢
      exact ⟨_, h, by simp only [List.length_cons]; omega⟩
    · rw [if_neg hc] at h ⊢
      exact ⟨_, h, (tdiv_inR x y hx hy hc |> StRange.cons) hr.tail.tail, by simp only [List.length_cons]; omega⟩

theorem sim_cond : Sim 15 op_cond := by
  intro below st j above dp data status hb hr hbytes
  match st, hr with
  | [], _ => trivial
  | [_], _ => trivial
  | [_, _], _ => trivial
  | f :: t :: c :: st, hr =>
    have hf := hr.head
    have ht := hr.tail.head
    have hc := hr.tail.tail.head
    refine ⟨_, cond_spec below st (j :: above) dp data status f t c hb hf ht hc, ?_, by simp only [List.length_cons]; omega⟩
    apply StRange.cons _ hr.tail.tail.tail
    split <;> assumption

theorem sim_pop_ret : Sim 48 op_pop_ret := by
  intro below st j above dp data status hb hr hbytes
  match st, hr with
  | [], _ => trivial
  | x :: st, hr =>
    exact ⟨_, pop_ret_spec below st (j :: above) dp data status x hb hr.head, by simp only [List.length_cons]; omega, hr.head⟩

theorem sim_ret_zero : Sim 49 op_ret_zero := by
  intro below st j above dp data status hb hr hbytes
  exact ⟨_, ret_zero_spec below st above dp data status j hb, by omega, by unfold InR; omega⟩

theorem sim_ret_true : Sim 50 op_ret_true := by
  intro below st j above dp data status hb hr hbytes
  exact ⟨_, ret_true_spec below st above dp data status j hb, by omega, by unfold InR; omega⟩

theorem sim_push_proc_state : Sim 54 op_push_proc_state := by
  intro below st j above dp data status hb hr hbytes
  match hd : data.toList.drop dp with
  | [] => trivial
  | _ :: rest =>
    exact ⟨_, push_proc_state_spec below st above dp data status j hb, ((by unfold InR; omega : InR 1) |> StRange.cons) hr, by simp only [List.length_cons]; omega⟩

theorem sim_push_version : Sim 55 op_push_version := by
  intro below st j above dp data status hb hr hbytes
  exact ⟨_, push_version_spec below st above dp data status j hb, ((by unfold InR; omega : InR 0x00030000) |> StRange.cons) hr, by simp only [List.length_cons]; omega⟩

theorem sim_setbits : Sim 65 op_setbits := by
  intro below st j above dp data status hb hr hbytes
  match hd : data.toList.drop dp, st, hr with
  | [], _, _ => trivial
  | [_], _, _ => trivial
  | [_, _], _, _ => trivial
  | [_, _, _], _, _ => trivial
  | _ :: _ :: _ :: _ :: _, [], _ => trivial
  | a :: b :: c :: d :: rest, x :: st, hr =>
    have ha : a < 256 := (hbytes.drop dp) a (by rw [hd]; simp)
    have hb8 : b < 256 := (hbytes.drop dp) b (by rw [hd]; simp)
    have hc : c < 256 := (hbytes.drop dp) c (by rw [hd]; simp)
    have hd8 : d < 256 := (hbytes.drop dp) d (by rw [hd]; simp)
    exact ⟨_, setbits_spec below st (j :: above) dp data status a b c d rest x hb hd ha hb8 hc hd8,
      (wrap32_inR _ |> StRange.cons) hr.tail, by simp only [List.length_cons]⟩

/-- **op_sem_eq_spec**: every opcode body regenerated from `opcodes.h` and wired by `opcode_table.h` simulates the
specification's step for that opcode number. -/
theorem op_sem_eq_spec (opc : Nat) (op : VmM Unit) (h : scalarOp opc = some op) : Sim opc op := by
  unfold scalarOp at h
  split at h <;> first
    | (cases h; first
        | exact sim_nop | exact sim_push_byte | exact sim_push_byte_u | exact sim_push_short | exact sim_push_short_u | exact sim_push_long
        | exact sim_add | exact sim_sub | exact sim_mul | exact sim_div | exact sim_min | exact sim_max | exact sim_neg
        | exact sim_trunc8 | exact sim_trunc16 | exact sim_cond | exact sim_and | exact sim_or | exact sim_not | exact sim_equal
        | exact sim_not_eq | exact sim_less | exact sim_gtr | exact sim_less_eq | exact sim_gtr_eq | exact sim_pop_ret
        | exact sim_ret_zero | exact sim_ret_true | exact sim_push_proc_state | exact sim_push_version | exact sim_bor
        | exact sim_band | exact sim_bnot | exact sim_setbits)
    | simp at h

end GrVerif.Vm

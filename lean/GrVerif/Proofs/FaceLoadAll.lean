import GrVerif.Model.FaceLoadAll
import GrVerif.Proofs.FaceLoad
import GrVerif.Proofs.GlyphGfx
import GrVerif.Proofs.CmapFind
import GrVerif.Proofs.CmapCache
set_option linter.unusedVariables false
set_option linter.unusedSimpArgs false
namespace GrVerif.Loader

theorem checkedTable_total (minLen : Nat) (extra : List Nat → Except Fault Bool) (t : Option (List Nat))
    (hx : ∀ b, 4 ≤ b.length → minLen ≤ b.length → ∃ r, extra b = .ok r) :
    ∃ r, checkedTable minLen extra t = .ok r ∧ ∀ b, r = some b → 4 ≤ b.length ∧ minLen ≤ b.length ∧ t = some b := by
  unfold checkedTable
  cases t with
  | none => exact ⟨_, rfl, fun _ h => by cases h⟩
  | some b =>
    simp only []
    by_cases hl : b.length < 4 ∨ b.length < minLen
    · rw [if_pos hl]; exact ⟨_, rfl, fun _ h => by cases h⟩
    rw [if_neg hl]
    obtain ⟨r, er⟩ := hx b (by omega) (by omega)
    rw [er]
    cases r with
    | true => exact ⟨_, rfl, fun b' h => by cases h; exact ⟨by omega, by omega, rfl⟩⟩
    | false => exact ⟨_, rfl, fun _ h => by cases h⟩

theorem checkHead_total (b : List Nat) (h : 54 ≤ b.length) : ∃ r, checkHead b = .ok r := by
  unfold checkHead
  obtain ⟨v, e1⟩ := be32_ok b 0 (by omega)
  obtain ⟨m, e2⟩ := be32_ok b 12 (by omega)
  obtain ⟨l, e3⟩ := be16_ok b 50 (by omega)
  obtain ⟨g, e4⟩ := be16_ok b 52 (by omega)
  simp only [bind, Except.bind, pure, Except.pure, e1, e2, e3, e4]; exact ⟨_, rfl⟩

theorem checkHhea_total (b : List Nat) (h : 36 ≤ b.length) : ∃ r, checkHhea b = .ok r := by
  unfold checkHhea
  obtain ⟨v, e1⟩ := be32_ok b 0 (by omega)
  obtain ⟨m, e2⟩ := be16_ok b 32 (by omega)
  simp only [bind, Except.bind, pure, Except.pure, e1, e2]; exact ⟨_, rfl⟩

theorem checkMaxp_total (b : List Nat) (h : 4 ≤ b.length) : ∃ r, checkMaxp b = .ok r := by
  unfold checkMaxp
  obtain ⟨v, e1⟩ := be32_ok b 0 (by omega)
  simp only [bind, Except.bind, pure, Except.pure, e1]; exact ⟨_, rfl⟩

/-- the graphics tables a usable loader holds have the sizes the look-ups rely on -/
structure GfxOK (G : GfxTables) : Prop where
  head : 54 ≤ G.head.length
  hhea : 36 ≤ G.hhea.length
  hmtx : 4 ≤ G.hmtx.length
  ng : G.numGlyphs < 65536

theorem be16_lt' (b : List Nat) (hb : ∀ x ∈ b, x < 256) (i v : Nat) (h : be16 b i = .ok v) : v < 65536 := be16_lt b hb i v h

theorem readGfxTables_total (head hhea hmtx maxp glyf loca : Option (List Nat)) (hmb : ∀ b, maxp = some b → ∀ x ∈ b, x < 256) :
    ∃ r, readGfxTables head hhea hmtx maxp glyf loca = .ok r ∧ ∀ G, r = some G → GfxOK G := by
  unfold readGfxTables
  obtain ⟨r1, e1, h1⟩ := checkedTable_total 54 checkHead head (fun b _ h => checkHead_total b h)
  obtain ⟨r2, e2, h2⟩ := checkedTable_total 36 checkHhea hhea (fun b _ h => checkHhea_total b h)
  obtain ⟨r3, e3, h3⟩ := checkedTable_total 4 noCheck hmtx (fun b _ _ => ⟨_, rfl⟩)
  obtain ⟨r4, e4, h4⟩ := checkedTable_total 10 noCheck glyf (fun b _ _ => ⟨_, rfl⟩)
  obtain ⟨r5, e5, h5⟩ := checkedTable_total 4 noCheck loca (fun b _ _ => ⟨_, rfl⟩)
  simp only [bind, Except.bind, pure, Except.pure, e1, e2, e3, e4, e5]
  cases r1 with
  | none => exact ⟨_, rfl, fun _ h => by cases h⟩
  | some hd =>
    cases r2 with
    | none => exact ⟨_, rfl, fun _ h => by cases h⟩
    | some hh =>
      cases r3 with
      | none => exact ⟨_, rfl, fun _ h => by cases h⟩
      | some hm =>
        simp only []
        by_cases hgl : r4.isSome ≠ r5.isSome
        · rw [if_pos hgl]; exact ⟨_, rfl, fun _ h => by cases h⟩
        rw [if_neg hgl]
        obtain ⟨r6, e6, h6⟩ := checkedTable_total 32 checkMaxp maxp (fun b h _ => checkMaxp_total b h)
        rw [e6]
        cases r6 with
        | none => exact ⟨_, rfl, fun _ h => by cases h⟩
        | some mx =>
          simp only []
          have hmx := h6 mx rfl
          obtain ⟨ng, eng⟩ := be16_ok mx 4 (by omega)
          have hmxb : ∀ x ∈ mx, x < 256 := hmb mx hmx.2.2
          have hng := be16_lt mx hmxb 4 ng eng
          rw [eng]
          simp only []
          have hhd := h1 hd rfl
          have hhh := h2 hh rfl
          have hhm := h3 hm rfl
          cases r4 with
          | none =>
            cases r5 with
            | none => exact ⟨_, rfl, fun G h => by cases h; exact ⟨hhd.2.1, hhh.2.1, hhm.2.1, hng⟩⟩
            | some l => exact ⟨_, rfl, fun G h => by cases h; exact ⟨hhd.2.1, hhh.2.1, hhm.2.1, hng⟩⟩
          | some g =>
            cases r5 with
            | none => exact ⟨_, rfl, fun G h => by cases h; exact ⟨hhd.2.1, hhh.2.1, hhm.2.1, hng⟩⟩
            | some l =>
              simp only []
              obtain ⟨fmt, ef⟩ := be16_ok hd 50 (by omega)
              obtain ⟨lr, el⟩ := locaLookup_total (decide (fmt = 1)) l ((ng + 65535) % 65536)
              rw [ef]
              simp only [el]
              split
              · exact ⟨_, rfl, fun _ h => by cases h⟩
              · exact ⟨_, rfl, fun G h => by cases h; exact ⟨hhd.2.1, hhh.2.1, hhm.2.1, hng⟩⟩

theorem readGlyphAll_total (G : GfxTables) (hG : GfxOK G) (T : GlyphTables) (gloc glat : List Nat) (ngg gid : Nat) (hT : GlyphTablesOK T gloc glat ngg) :
    ∃ r, readGlyphAll G T gloc glat gid = .ok r := by
  unfold readGlyphAll
  obtain ⟨g, eg⟩ : ∃ r, (if gid < G.numGlyphs then readGlyphGfx G.head G.hhea G.hmtx G.glyfLoca gid else Except.ok (some (none, none))) = .ok r := by
    split
    · exact readGlyphGfx_total _ _ _ _ _ hG.head hG.hhea hG.hmtx
    · exact ⟨_, rfl⟩
  rw [eg]
  cases g with
  | none => exact ⟨_, rfl⟩
  | some x =>
    obtain ⟨r, er, _⟩ := readGlyph_total T gloc glat ngg gid hT
    exact ⟨r, er⟩

theorem preloadGlyphsAll_total (G : GfxTables) (hG : GfxOK G) (T : GlyphTables) (gloc glat : List Nat) (ngg : Nat) (hT : GlyphTablesOK T gloc glat ngg) :
    ∀ n gid, ∃ r, preloadGlyphsAll G T gloc glat n gid = .ok r := by
  intro n
  induction n with
  | zero => intro gid; exact ⟨_, rfl⟩
  | succ n ih =>
    intro gid
    unfold preloadGlyphsAll
    obtain ⟨r, er⟩ := readGlyphAll_total G hG T gloc glat ngg gid hT
    rw [er]
    cases r with
    | none => exact ⟨_, rfl⟩
    | some g =>
      obtain ⟨r2, e2⟩ := ih (gid + 1)
      simp only [e2]
      cases r2 <;> exact ⟨_, rfl⟩

theorem glyphsLoad_total (G : GfxTables) (hG : GfxOK G) (T : GlyphTables) (gloc glat : List Nat) (ngg ng : Nat) (hT : GlyphTablesOK T gloc glat ngg) (preload : Bool) :
    ∃ r, glyphsLoad G T gloc glat ng preload = .ok r := by
  unfold glyphsLoad
  cases preload with
  | true =>
    simp only [if_true]
    obtain ⟨r, er⟩ := preloadGlyphsAll_total G hG T gloc glat ngg hT ng 0
    rw [er]
    cases r with
    | none => exact ⟨_, rfl⟩
    | some gs =>
      simp only []
      obtain ⟨bx, ebx⟩ : ∃ v, (if (gs.map (·.2)).sum > 0 ∧ T.hasBoxes = true then preloadBoxes T gloc glat ng 0 else Except.ok none) = .ok v := by
        split
        · exact preloadBoxes_total T gloc glat ngg hT _ _
        · exact ⟨_, rfl⟩
      rw [ebx]; exact ⟨_, rfl⟩
  | false =>
    simp only [Bool.false_eq_true, if_false]
    obtain ⟨r, er⟩ := readGlyphAll_total G hG T gloc glat ngg 0 hT
    rw [er]
    cases r with
    | none => exact ⟨_, rfl⟩
    | some g =>
      simp only []
      obtain ⟨bx, ebx⟩ : ∃ v, (if T.hasBoxes = true then readBoxBytes T gloc glat 0 else Except.ok none) = .ok v := by
        split
        · exact readBoxBytes_total T gloc glat ngg 0 hT
        · exact ⟨_, rfl⟩
      rw [ebx]; exact ⟨_, rfl⟩

theorem glyphCacheAll_total (head hhea hmtx maxp glyf loca : Option (List Nat)) (gloc glat : List Nat) (preload : Bool)
    (hmb : ∀ b, maxp = some b → ∀ x ∈ b, x < 256) (hb : ∀ x ∈ gloc, x < 256) (hs : gloc.length < 18446744073709551616) :
    ∃ r, glyphCacheAll head hhea hmtx maxp glyf loca gloc glat preload = .ok r := by
  unfold glyphCacheAll
  obtain ⟨rg, eg, hg⟩ := readGfxTables_total head hhea hmtx maxp glyf loca hmb
  simp only [bind, Except.bind, pure, Except.pure, eg]
  cases rg with
  | none => exact ⟨_, rfl⟩
  | some G =>
    simp only []
    have hG := hg G rfl
    obtain ⟨rt, et, ht⟩ := readGlyphTables_total gloc glat G.numGlyphs hb hs
    rw [et]
    cases rt with
    | none => exact ⟨_, rfl⟩
    | some T =>
      simp only []
      have hT := ht T rfl
      by_cases h0 : max G.numGlyphs T.numGlyphsAttr = 0
      · rw [if_pos h0]; exact ⟨_, rfl⟩
      rw [if_neg h0]
      obtain ⟨ok, eok⟩ := glyphsLoad_total G hG T gloc glat G.numGlyphs (max G.numGlyphs T.numGlyphsAttr) hT preload
      rw [eok]
      simp only []
      cases ok with
      | false => simp only [Bool.not_false, if_true]; exact ⟨_, rfl⟩
      | true =>
        simp only [Bool.not_true, Bool.false_eq_true, if_false]
        obtain ⟨u, eu⟩ := be16_ok G.head 18 (by have := hG.head; omega)
        rw [eu]
        simp only []
        split <;> exact ⟨_, rfl⟩

/-- **`gr_make_face*` over every table but `cmap` and `name`**: `head`, `hhea`, `hmtx`, `maxp`, `loca`, `glyf` (present or not, any
bytes – `Face::Table`'s size and `CheckTable` tests are part of the model), `Silf`, `Gloc`, `Glat`, `Feat`, `Sill` (any bytes), loading on
demand or preloading, the cmap usable or not: the loader reads nothing outside a table, writes nothing outside a buffer it laid out,
and ends -/
theorem loadFaceAll_total (t : AllTables) (preload cmapOK : Bool)
    (hmb : ∀ b, t.maxp = some b → ∀ x ∈ b, x < 256) (hb : ∀ x ∈ t.gloc, x < 256) (hs : t.gloc.length < 18446744073709551616) :
    ∃ r, loadFaceAll t preload cmapOK = .ok r := by
  unfold loadFaceAll
  by_cases h4 : t.silf.length < 4
  · simp only [h4, if_true, pure, Except.pure]; exact ⟨_, rfl⟩
  simp only [h4, if_false, bind, Except.bind, pure, Except.pure]
  obtain ⟨gc, egc⟩ := glyphCacheAll_total t.head t.hhea t.hmtx t.maxp t.glyf t.loca t.gloc t.glat preload hmb hb hs
  rw [egc]
  simp only [Except.mapError]
  cases gc with
  | none => exact ⟨_, rfl⟩
  | some gc =>
    simp only []
    cases cmapOK with
    | false => simp only [Bool.not_false, if_true]; exact ⟨_, rfl⟩
    | true =>
      simp only [Bool.not_true, Bool.false_eq_true, if_false]
      obtain ⟨fm, efm⟩ := Feat.readFeats_total (toBuf t.feat)
      rw [efm]
      simp only [Except.mapError]
      cases fm with
      | none => exact ⟨_, rfl⟩
      | some fm =>
        simp only []
        obtain ⟨sm, esm⟩ := Feat.readSill_total (toBuf t.sill) fm
        rw [esm]
        simp only [Except.mapError]
        cases sm with
        | none => exact ⟨_, rfl⟩
        | some sm =>
          simp only []
          obtain ⟨ts, ets⟩ := readSilfTable_total t.silf gc.numGlyphs gc.numAttrs gc.hasBoxes fm.feats.length
          rw [ets]
          simp only [Except.mapError]
          cases ts with
          | error e => exact ⟨_, rfl⟩
          | ok ts =>
            simp only []
            split <;> exact ⟨_, rfl⟩

theorem checkCmap_total (b : List Nat) (h : 4 ≤ b.length) : ∃ r, checkCmap b = .ok r := by
  unfold checkCmap
  obtain ⟨v, e1⟩ := be16_ok b 0 (by omega)
  simp only [bind, Except.bind, pure, Except.pure, e1]; exact ⟨_, rfl⟩

theorem cmapUsable_total (cmap : Option (List Nat)) (cacheCmap : Bool) : ∃ r, cmapUsable cmap cacheCmap = .ok r := by
  unfold cmapUsable
  obtain ⟨r, e, hr⟩ := checkedTable_total 12 checkCmap cmap (fun b h _ => checkCmap_total b h)
  rw [e]
  simp only [Except.mapError]
  cases r with
  | none => exact ⟨_, rfl⟩
  | some b =>
    simp only []
    have hb := (hr b rfl).1
    cases cacheCmap with
    | true =>
      simp only [if_true]
      obtain ⟨m, em⟩ := Cmap.buildCached_total (toBuf b) (by unfold toBuf; simpa using hb)
      rw [em]
      exact ⟨_, rfl⟩
    | false =>
      simp only [Bool.false_eq_true, if_false]
      obtain ⟨st, es⟩ := Cmap.bmpSubtable_total (toBuf b) (by unfold toBuf; simpa using hb)
      rw [es]
      exact ⟨_, rfl⟩

/-- **`gr_make_face*` over every table but `name`** (which the loader does not read unless asked to preload it): as `loadFaceAll_total`, with
the cmap's `Face::Table` test and – for a face without `gr_face_cacheCmap` – the search for a Unicode BMP subtable, or – for a face with it –
the construction of the whole code-point cache inside the model -/
theorem loadFaceCmap_total (t : AllTables) (cmap : Option (List Nat)) (preload cacheCmap : Bool)
    (hmb : ∀ b, t.maxp = some b → ∀ x ∈ b, x < 256) (hb : ∀ x ∈ t.gloc, x < 256) (hs : t.gloc.length < 18446744073709551616) :
    ∃ r, loadFaceCmap t cmap preload cacheCmap = .ok r := by
  unfold loadFaceCmap
  obtain ⟨ok, eok⟩ := cmapUsable_total cmap cacheCmap
  rw [eok]
  exact loadFaceAll_total t preload ok hmb hb hs

end GrVerif.Loader

import GrVerif.Proofs.HeapStream3
set_option linter.unusedVariables false
set_option linter.unusedSimpArgs false
/-!
# The rule loop's progress measure (C02)

`Pass::runGraphite` keeps a *high-water mark* in the glyph stream.  The loop is bounded because
* the number of stream slots from the mark to the end of the stream, plus what is left of the pass's insertion budget, never
  grows while a rule's action runs (an `insert` pays for the slot it may put behind the mark, a `delete_` only shortens the
  stream, and the mark itself only moves when its own slot is deleted – forward);
* every time the loop resets its counter it moves the mark to the slot behind the cursor, and the cursor is then at or
  behind the mark: either it *is* the mark, or `highpassed` is set – and `highpassed` is only ever set while the cursor is
  strictly behind the mark (`HP`).  (`delete_` steps the cursor back; since the repair `fix: delete_ …` it clears
  `highpassed` when that step lands on the mark.  Without it the flag survives with the cursor on or in front of the mark,
  the reset moves the mark *backwards*, and the loop count is quadratic in the text length.)

This file: the measure, the position invariant, and what `next`, `insert` and `delete_` do to them.
-/
namespace GrVerif.Action
open GrVerif.Vm GrVerif.Seg GrVerif.Gen.Vm

/-! ## lists -/

/-- number of slots from the mark (inclusive) to the end of the stream; 0 without a mark -/
def hwDist (h : Option Nat) (l : List Nat) : Nat :=
  match h with
  | none => 0
  | some x => l.length - l.idxOf x

@[simp] theorem hwDist_none (l : List Nat) : hwDist none l = 0 := rfl

theorem hwDist_le (h : Option Nat) (l : List Nat) : hwDist h l ≤ l.length := by
  unfold hwDist; split <;> omega

theorem idxOf_mid {a b : List Nat} {x : Nat} (h : x ∉ a) : (a ++ x :: b).idxOf x = a.length := by
  rw [List.idxOf_append, if_neg h]; simp

theorem idxOf_cons_ne' {x y : Nat} (l : List Nat) (h : x ≠ y) : (x :: l).idxOf y = l.idxOf y + 1 := by
  rw [List.idxOf_cons]
  have : (x == y) = false := by simpa using h
  rw [this]; rfl

theorem hwDist_mid {a b : List Nat} {x : Nat} (h : x ∉ a) : hwDist (some x) (a ++ x :: b) = b.length + 1 := by
  unfold hwDist
  simp only [idxOf_mid h, List.length_append, List.length_cons]
  omega

/-- a duplicate-free list splits around an element in one way only -/
theorem split_unique {x : Nat} : ∀ {a a' b b' : List Nat}, (a ++ x :: b).Nodup → a ++ x :: b = a' ++ x :: b' → a = a' ∧ b = b' := by
  intro a
  induction a with
  | nil =>
    intro a' b b' hn e
    cases a' with
    | nil => simpa using e
    | cons y t =>
      simp only [List.nil_append, List.cons_append, List.cons.injEq] at e
      obtain ⟨rfl, e2⟩ := e
      rw [e2] at hn
      simp at hn
  | cons z t ih =>
    intro a' b b' hn e
    cases a' with
    | nil =>
      simp only [List.nil_append, List.cons_append, List.cons.injEq] at e
      obtain ⟨rfl, e2⟩ := e
      simp at hn
    | cons y t' =>
      simp only [List.cons_append, List.cons.injEq] at e
      obtain ⟨rfl, e2⟩ := e
      have hn' : (t ++ x :: b).Nodup := (List.nodup_cons.mp hn).2
      obtain ⟨r1, r2⟩ := ih hn' e2
      exact ⟨by rw [r1], r2⟩

theorem notMem_left_of_nodup {a b : List Nat} {x : Nat} (h : (a ++ x :: b).Nodup) : x ∉ a :=
  fun hh => (List.nodup_append.mp h).2.2 x hh x List.mem_cons_self rfl

theorem notMem_right_of_nodup {a b : List Nat} {x : Nat} (h : (a ++ x :: b).Nodup) : x ∉ b :=
  (List.nodup_cons.mp (List.nodup_append.mp h).2.1).1

/-- putting a new element somewhere into the list lengthens the distance from a mark to the end by at most one -/
theorem hwDist_insert {a b : List Nat} {h n : Nat} (hne : h ≠ n) :
    hwDist (some h) (a ++ n :: b) ≤ hwDist (some h) (a ++ b) + 1 := by
  unfold hwDist
  simp only [List.length_append, List.length_cons]
  by_cases ha : h ∈ a
  · rw [List.idxOf_append, if_pos ha, List.idxOf_append, if_pos ha]; omega
  · rw [List.idxOf_append, if_neg ha, List.idxOf_append, if_neg ha, idxOf_cons_ne' _ (Ne.symm hne)]
    have := @List.idxOf_le_length _ _ _ b h
    omega

/-- taking an element other than the mark out of the list does not lengthen that distance -/
theorem hwDist_remove {a b : List Nat} {h i : Nat} (hne : h ≠ i) :
    hwDist (some h) (a ++ b) ≤ hwDist (some h) (a ++ i :: b) := by
  unfold hwDist
  simp only [List.length_append, List.length_cons]
  by_cases ha : h ∈ a
  · rw [List.idxOf_append, if_pos ha, List.idxOf_append, if_pos ha]; omega
  · rw [List.idxOf_append, if_neg ha, List.idxOf_append, if_neg ha, idxOf_cons_ne' _ (Ne.symm hne)]
    have := @List.idxOf_le_length _ _ _ b h
    omega

/-- `x` lies strictly behind `h` in the stream -/
def SAfter (l : List Nat) (h x : Nat) : Prop := ∃ a b c, l = a ++ h :: (b ++ x :: c)

theorem SAfter.mem {l : List Nat} {h x : Nat} (s : SAfter l h x) : x ∈ l := by
  obtain ⟨a, b, c, rfl⟩ := s; simp

/-- the slot behind the mark's successor… : a slot strictly behind the mark is closer to the end than the mark -/
theorem SAfter.dist {l : List Nat} {h x : Nat} (hn : l.Nodup) (s : SAfter l h x) :
    hwDist (some x) l + 1 ≤ hwDist (some h) l := by
  obtain ⟨a, b, c, rfl⟩ := s
  have h1 : h ∉ a := notMem_left_of_nodup hn
  rw [hwDist_mid h1]
  have e : a ++ h :: (b ++ x :: c) = (a ++ h :: b) ++ x :: c := by simp
  rw [e] at hn ⊢
  rw [hwDist_mid (notMem_left_of_nodup hn)]
  simp only [List.length_append, List.length_cons]
  omega

/-! ## the position invariant, the measure, frames -/

/-- `highpassed` is only set while there is a mark and the cursor lies strictly behind it (or has run off the end) -/
def HP (c : Ctx) (l : List Nat) (cur : Option Nat) : Prop :=
  c.highpassed = true → ∃ h, c.highwater = some h ∧ (cur = none ∨ ∃ x, cur = some x ∧ SAfter l h x)

/-- the progress measure: slots from the mark to the end of the stream, plus the insertion budget that is left -/
def meas (c : Ctx) (l : List Nat) : Nat := hwDist c.highwater l + c.maxSize.toNat

/-- what one opcode may do: the stream stays a stream, the measure does not grow, the position invariant survives (all that
matters only as long as the machine has not stopped, but the first two hold regardless) -/
def StepOK (c : Ctx) (l : List Nat) (c' : Ctx) : Prop :=
  ∃ l', J c' l' ∧ meas c' l' ≤ meas c l ∧ (c'.status = .finished → c.status = .finished ∧ (HP c l c.is → HP c' l' c'.is))

/-- the invariant of a running action, for a bound `m` on the measure -/
def QM (m : Nat) (c : Ctx) : Prop := ∃ l, J c l ∧ meas c l ≤ m ∧ (c.status = .finished → HP c l c.is)

theorem QM.ofStep {m : Nat} {c : Ctx} {o : Outcome} (h : QM m c) (hs : ∀ l, J c l → OutcomeP (StepOK c l) o) : OutcomeP (QM m) o := by
  obtain ⟨l, hj, hm, hp⟩ := h
  refine (hs l hj).mono (fun c' h' => ?_)
  obtain ⟨l', hj', hm', hst⟩ := h'
  exact ⟨l', hj', Nat.le_trans hm' hm, fun hf => (hst hf).2 (hp (hst hf).1)⟩

/-- the registers the measure and the position invariant read are untouched (the cursor and the flag: unless the machine stopped) -/
structure Fr (c c' : Ctx) : Prop where
  hw : c'.highwater = c.highwater
  mx : c'.maxSize = c.maxSize
  st : c'.status = .finished → c.status = .finished ∧ c'.highpassed = c.highpassed ∧ c'.is = c.is
  vx : c'.vExceeded = c.vExceeded        -- (the ghost flag of the loop report is no opcode's business)

theorem Fr.rfl' (c : Ctx) : Fr c c := ⟨rfl, rfl, fun h => ⟨h, rfl, rfl⟩, rfl⟩

theorem Fr.trans {a b c : Ctx} (h1 : Fr a b) (h2 : Fr b c) : Fr a c :=
  ⟨h2.hw.trans h1.hw, h2.mx.trans h1.mx, fun h => by
    obtain ⟨s2, p2, i2⟩ := h2.st h
    obtain ⟨s1, p1, i1⟩ := h1.st s2
    exact ⟨s1, p2.trans p1, i2.trans i1⟩, h2.vx.trans h1.vx⟩

theorem Fr.of_eq {c c' : Ctx} (hw : c'.highwater = c.highwater) (mx : c'.maxSize = c.maxSize) (st : c'.status = c.status)
    (hp : c'.highpassed = c.highpassed) (is : c'.is = c.is) (vx : c'.vExceeded = c.vExceeded := by rfl) : Fr c c' :=
  ⟨hw, mx, fun h => ⟨st ▸ h, hp, is⟩, vx⟩

theorem Fr.stepOK {c c' : Ctx} {l : List Nat} (hj : J c' l) (f : Fr c c') : StepOK c l c' := by
  refine ⟨l, hj, ?_, fun hf => ?_⟩
  · unfold meas; rw [f.hw, f.mx]; exact Nat.le_refl _
  · obtain ⟨s, p, i⟩ := f.st hf
    refine ⟨s, fun hp => ?_⟩
    unfold HP at hp ⊢
    rw [p, f.hw, i]; exact hp

theorem fr_die (c : Ctx) : Fr c ((c.setIs c.seg.last).setStatus .died_early) :=
  ⟨rfl, rfl, fun h => (by cases h), rfl⟩

theorem fr_slotat (c : Ctx) (x : Int) : Fr c (slotat c x).2 := by
  unfold slotat
  simp only []
  split
  · exact Fr.rfl' c
  · exact ⟨rfl, rfl, fun h => (by cases h), rfl⟩

theorem fr_withSeg (c : Ctx) (sg : Seg) : Fr c (c.withSeg sg) := Fr.of_eq rfl rfl rfl rfl rfl
theorem fr_setCell (c : Ctx) (k : Nat) (v : Option Nat) : Fr c (c.setCell k v) := Fr.of_eq rfl rfl rfl rfl rfl

theorem fr_setAttTo (c : Ctx) (i sub : Nat) (v : Int) : Fr c (setAttTo c i sub v) := by
  unfold setAttTo
  simp only []
  split
  · split
    · exact Fr.rfl' c
    · split
      · exact Fr.rfl' c
      · exact fr_withSeg _ _
  · exact Fr.rfl' c

theorem fr_assocFold (c0 : Ctx) : ∀ (refs : List Int) (acc : Int × Int × Ctx), Fr c0 acc.2.2 → Fr c0 (refs.foldl assocStep acc).2.2 := by
  intro refs
  induction refs with
  | nil => intro acc h; exact h
  | cons r rest ih =>
    intro acc h
    apply ih
    unfold assocStep
    simp only []
    split
    · exact h.trans (fr_slotat _ _)
    · exact h.trans (fr_slotat _ _)

/-! ## the opcodes that leave the stream and the cursor alone -/

theorem putCopy_fr (c : Ctx) (r : Int) : OutcomeP (Fr c) (opPutCopy c r) := by
  unfold opPutCopy
  split
  · exact Fr.rfl' c
  · split
    · exact Fr.rfl' c
    · simp only []
      split
      · split
        · split
          · exact (fr_slotat c r).trans (fr_die _)
          · exact (fr_slotat c r).trans (fr_withSeg _ _)
        · exact (fr_slotat c r).trans (fr_withSeg _ _)
      · exact (fr_slotat c r).trans (fr_withSeg _ _)

theorem assoc_fr (c : Ctx) (rs : List Int) : OutcomeP (Fr c) (opAssoc c rs) := by
  unfold opAssoc
  simp only []
  have h := fr_assocFold c rs (-1, -1, c) (Fr.rfl' c)
  split
  · split
    · exact h.trans (fr_withSeg _ _)
    · trivial
  · exact h

theorem attrSet_fr (c : Ctx) (a b : Nat) (v : Int) : OutcomeP (Fr c) (opAttrSet c a b v) := by
  unfold opAttrSet
  split
  · trivial
  · split
    · exact fr_setAttTo _ _ _ _
    · simp only []
      split <;> first
        | exact fr_withSeg _ _
        | exact Fr.rfl' c

theorem tempCopy_fr (c : Ctx) : OutcomeP (Fr c) (opTempCopy c) := by
  unfold opTempCopy
  split
  · split
    · exact (fr_withSeg c _).trans (fr_setCell _ _ _)
    · trivial
  · exact fr_die c

theorem putGlyph_fr (c : Ctx) (k : Nat) : OutcomeP (Fr c) (opPutGlyph c k) := by
  unfold opPutGlyph
  split
  · exact fr_withSeg _ _
  · trivial

theorem putSubs_fr (c : Ctx) (r : Int) (i o : Nat) : OutcomeP (Fr c) (opPutSubs c r i o) := by
  unfold opPutSubs
  simp only []
  split
  · split
    · exact (fr_slotat c r).trans (fr_withSeg _ _)
    · trivial
  · exact fr_slotat c r

theorem OutcomeP.and {P Q : Ctx → Prop} {o : Outcome} (h1 : OutcomeP P o) (h2 : OutcomeP Q o) : OutcomeP (fun c => P c ∧ Q c) o := by
  cases o with
  | cont c => exact ⟨h1, h2⟩
  | died c => exact ⟨h1, h2⟩
  | fault w => trivial

theorem frame_step {c : Ctx} {l : List Nat} {o : Outcome} (h1 : OutcomeP (fun c' => J c' l) o) (h2 : OutcomeP (Fr c) o) :
    OutcomeP (StepOK c l) o :=
  (h1.and h2).mono (fun c' h => Fr.stepOK h.1 h.2)

/-! ## `next`, `insert`, `delete_` -/

section fields
variable (c : Ctx) (v : Option Nat) (b : Bool) (m : Int) (sg : Seg)
theorem markHighpassed_maxSize : (c.markHighpassed b).maxSize = c.maxSize := by unfold Ctx.markHighpassed; split <;> rfl
theorem markHighpassed_status : (c.markHighpassed b).status = c.status := by unfold Ctx.markHighpassed; split <;> rfl
theorem moveHighwater_maxSize : (c.moveHighwater v).maxSize = c.maxSize := by unfold Ctx.moveHighwater; split <;> rfl
theorem moveHighwater_status : (c.moveHighwater v).status = c.status := by unfold Ctx.moveHighwater; split <;> rfl
theorem backOnto_maxSize : (c.backOnto v).maxSize = c.maxSize := by unfold Ctx.backOnto; split; exact markHighpassed_maxSize _ _; rfl
theorem backOnto_status : (c.backOnto v).status = c.status := by unfold Ctx.backOnto; split; exact markHighpassed_status _ _; rfl
theorem markHighpassed_highpassed : (c.markHighpassed b).highpassed = if c.is = c.highwater then b else c.highpassed := by
  unfold Ctx.markHighpassed; split <;> rfl
theorem backOnto_highpassed_false (h : c.highpassed = false) : (c.backOnto v).highpassed = false := by
  unfold Ctx.backOnto
  split
  · rw [markHighpassed_highpassed]; split; rfl; exact h
  · exact h
theorem backOnto_highpassed_true (h : (c.backOnto v).highpassed = true) : c.highpassed = true := by
  cases hq : c.highpassed with
  | true => rfl
  | false => rw [backOnto_highpassed_false c v hq] at h; cases h
theorem backOnto_on_mark (p : Nat) (h : c.is = c.highwater) : (c.backOnto (some p)).highpassed = false := by
  unfold Ctx.backOnto
  simp only []
  rw [markHighpassed_highpassed, if_pos h]
end fields

/-- behind a slot that is the mark or lies behind it there is nothing, or a slot that lies strictly behind the mark -/
theorem next_after {s : Seg} {l : List Nat} (hl : Linked s l) {h i : Nat} (hh : h ∈ l) (hs : h = i ∨ SAfter l h i) :
    (s.get i).next = none ∨ ∃ y, (s.get i).next = some y ∧ SAfter l h y := by
  rcases hs with rfl | ⟨a, b, c, rfl⟩
  · obtain ⟨a, b, rfl⟩ := List.append_of_mem hh
    have hm := (chain_mid hl.chain).2.1
    simp only [Option.or_none] at hm
    cases b with
    | nil => exact .inl (by rw [hm]; rfl)
    | cons y b' => exact .inr ⟨y, by rw [hm]; rfl, ⟨a, [], b', by simp⟩⟩
  · have e : a ++ h :: (b ++ i :: c) = (a ++ h :: b) ++ i :: c := by simp
    have hc := hl.chain
    rw [e] at hc
    have hm := (chain_mid hc).2.1
    simp only [Option.or_none] at hm
    cases c with
    | nil => exact .inl (by rw [hm]; rfl)
    | cons y c' => exact .inr ⟨y, by rw [hm]; rfl, ⟨a, b ++ [i], c', by simp⟩⟩

theorem next_step (c : Ctx) {l : List Nat} (hj : J c l) : OutcomeP (StepOK c l) (opNext c) := by
  have hJ := next_J c hj
  unfold opNext at hJ ⊢
  split
  · rename_i hd
    rw [if_pos hd] at hJ
    exact Fr.stepOK hJ (fr_die c)
  · rename_i hd
    rw [if_neg hd] at hJ
    split
    · rename_i i heq
      rw [heq] at hJ
      simp only [] at hJ
      have hst : ((((c.markHighpassed true).setIs (c.seg.get i).next)).setMap (c.map + 1)).status = c.status := markHighpassed_status c true
      have hme : meas ((((c.markHighpassed true).setIs (c.seg.get i).next)).setMap (c.map + 1)) l = meas c l := by
        unfold meas
        show hwDist (c.markHighpassed true).highwater l + (c.markHighpassed true).maxSize.toNat = _
        rw [markHighpassed_highwater, markHighpassed_maxSize]
      refine ⟨l, hJ, Nat.le_of_eq hme, fun hf => ⟨by rw [← hst]; exact hf, fun hp => ?_⟩⟩
      -- the position invariant
      intro hpt
      have hpt' : (if c.is = c.highwater then true else c.highpassed) = true := by
        have := markHighpassed_highpassed c true
        simpa [Ctx.setMap, Ctx.setIs, this] using hpt
      show ∃ h, (c.markHighpassed true).highwater = some h ∧ _
      rw [markHighpassed_highwater]
      by_cases hw : c.is = c.highwater
      · have hil : i ∈ l := hj.hw i (by rw [← hw, heq])
        refine ⟨i, by rw [← hw, heq], ?_⟩
        rcases next_after hj.linked hil (.inl rfl) with h0 | ⟨y, h1, h2⟩
        · exact .inl h0
        · exact .inr ⟨y, h1, h2⟩
      · rw [if_neg hw] at hpt'
        obtain ⟨h, hh, hcur⟩ := hp hpt'
        refine ⟨h, hh, ?_⟩
        rcases hcur with h0 | ⟨x, hx, hsa⟩
        · rw [heq] at h0; cases h0
        · rw [heq] at hx; cases hx
          rcases next_after hj.linked (hj.hw h hh) (.inr hsa) with h0 | ⟨y, h1, h2⟩
          · exact .inl h0
          · exact .inr ⟨y, h1, h2⟩
    · rename_i hn
      rw [hn] at hJ
      simp only [] at hJ
      refine ⟨l, hJ, Nat.le_refl _, fun hf => ⟨hf, fun hp hpt => ?_⟩⟩
      obtain ⟨h, hh, _⟩ := hp hpt
      exact ⟨h, hh, .inl hn⟩

theorem delete_step (c : Ctx) {l : List Nat} (hj : J c l) : OutcomeP (StepOK c l) (opDelete c) := by
  refine (delete_J c hj).mono (fun c' h => ?_)
  rcases h with ⟨e, hJ⟩ | ⟨a, i, b, sg, heq, hl, hJ, hprev, hnext, e⟩
  · subst e; exact Fr.stepOK hJ (fr_die c)
  · subst hl
    have hnd := hj.linked.nodup
    have hia : i ∉ a := notMem_left_of_nodup hnd
    have hmx : c'.maxSize = c.maxSize := by rw [e, backOnto_maxSize]; exact moveHighwater_maxSize _ _
    have hst : c'.status = c.status := by rw [e, backOnto_status]; exact moveHighwater_status _ _
    have hhw : c'.highwater = if c.is = c.highwater then b.head? else c.highwater := by
      rw [e, backOnto_highwater]
      show (c.moveHighwater _).highwater = _
      rw [moveHighwater_highwater, hnext]
    refine ⟨a ++ b, hJ, ?_, fun hf => ⟨hst ▸ hf, fun hp hpt => ?_⟩⟩
    · -- the measure
      unfold meas
      rw [hmx, hhw]
      apply Nat.add_le_add_right
      split
      · rename_i hw
        rw [← hw, heq, hwDist_mid hia]
        cases b with
        | nil => simp
        | cons y b' =>
          have hya : y ∉ a := fun hh => (List.nodup_append.mp hnd).2.2 y hh y (by simp) rfl
          show hwDist (some y) (a ++ y :: b') ≤ _
          rw [hwDist_mid hya]; simp
      · rename_i hw
        cases hq : c.highwater with
        | none => simp
        | some h =>
          have hne : h ≠ i := fun hh => hw (by rw [heq, hq, hh])
          exact hwDist_remove hne
    · -- the position invariant
      have hpc : c'.highpassed = true := hpt
      by_cases hw : c.is = c.highwater
      · -- the mark moved: the flag was cleared
        exfalso
        have : c'.highpassed = false := by
          rw [e]
          apply backOnto_highpassed_false
          show (c.moveHighwater (c.seg.get i).next).highpassed = false
          unfold Ctx.moveHighwater
          rw [if_pos hw]
        rw [this] at hpc; cases hpc
      · have hmv : c.moveHighwater (c.seg.get i).next = c := by unfold Ctx.moveHighwater; rw [if_neg hw]
        rw [hmv] at e
        have hcp : c.highpassed = true := by
          rw [e] at hpc
          exact backOnto_highpassed_true ((c.withSeg sg).setIs _) _ hpc
        obtain ⟨h, hh, hcur⟩ := hp hcp
        rcases hcur with h0 | ⟨x, hx, ⟨a1, b1, c1, hs⟩⟩
        · rw [heq] at h0; cases h0
        · rw [heq] at hx; cases hx
          have e2 : a ++ i :: b = (a1 ++ h :: b1) ++ i :: c1 := by rw [hs]; simp
          obtain ⟨ea, eb⟩ := split_unique hnd e2
          subst ea; subst eb
          refine ⟨h, by rw [hhw, if_neg hw]; exact hh, ?_⟩
          rcases List.eq_nil_or_concat b1 with hb | ⟨b2, p, hb⟩
          · -- the cursor steps back onto the mark: the flag is cleared
            exfalso
            subst hb
            have hpv : (c.seg.get i).prev = some h := by rw [hprev]; simp
            have : c'.highpassed = false := by
              rw [e, hpv]
              exact backOnto_on_mark _ h (by show some h = c.highwater; rw [hh])
            rw [this] at hpc; cases hpc
          · rw [List.concat_eq_append] at hb
            subst hb
            have hpv : (c.seg.get i).prev = some p := by
              rw [hprev]
              have : a1 ++ h :: (b2 ++ [p]) = (a1 ++ h :: b2) ++ [p] := by simp
              rw [this, List.getLast?_append]; simp
            refine .inr ⟨p, ?_, ⟨a1, b2, b, by simp⟩⟩
            rw [e, backOnto_is, hpv]
            rfl

theorem insert_step (c : Ctx) {l : List Nat} (hj : J c l) : OutcomeP (StepOK c l) (opInsert c) := by
  refine (insert_J c hj).mono (fun c' h => ?_)
  rcases h with ⟨e, hJ⟩ | ⟨a, b, n, sg, mp, hl, hnl, hJ, hsx, hsn, hbud, e, _⟩
  · refine ⟨l, hJ, ?_, fun hf => ?_⟩
    · subst e
      unfold meas
      show hwDist c.highwater l + (c.maxSize - 1).toNat ≤ _
      omega
    · rw [e] at hf; cases hf
  · subst hl
    have hnd := hj.linked.nodup
    have hmx : c'.maxSize = c.maxSize - 1 := by
      rw [e]; show ((c.setMaxSize (c.maxSize - 1)).markHighpassed false).maxSize = _
      rw [markHighpassed_maxSize]; rfl
    have hst : c'.status = c.status := by
      rw [e]; show ((c.setMaxSize (c.maxSize - 1)).markHighpassed false).status = _
      rw [markHighpassed_status]; rfl
    have hhw : c'.highwater = c.highwater := by
      rw [e]; show ((c.setMaxSize (c.maxSize - 1)).markHighpassed false).highwater = _
      rw [markHighpassed_highwater]; rfl
    have hhp : c'.highpassed = if c.is = c.highwater then false else c.highpassed := by
      rw [e]; show ((c.setMaxSize (c.maxSize - 1)).markHighpassed false).highpassed = _
      rw [markHighpassed_highpassed]; rfl
    have his : c'.is = some n := by rw [e]; rfl
    refine ⟨a ++ n :: b, hJ, ?_, fun hf => ⟨hst ▸ hf, fun hp hpt => ?_⟩⟩
    · unfold meas
      rw [hmx, hhw]
      have hd : hwDist c.highwater (a ++ n :: b) ≤ hwDist c.highwater (a ++ b) + 1 := by
        cases hq : c.highwater with
        | none => simp
        | some h =>
          have hne : h ≠ n := fun hh => hnl (hh ▸ hj.hw h hq)
          exact hwDist_insert hne
      omega
    · have hpc : c'.highpassed = true := hpt
      rw [hhp] at hpc
      split at hpc
      · cases hpc
      · obtain ⟨h, hh, hcur⟩ := hp hpc
        refine ⟨h, by rw [hhw]; exact hh, .inr ⟨n, his, ?_⟩⟩
        rcases hcur with h0 | ⟨x, hx, ⟨a1, b1, c1, hs⟩⟩
        · have hb := hsn h0
          subst hb
          have hha : h ∈ a := by simpa using hj.hw h hh
          obtain ⟨a1, b1, rfl⟩ := List.append_of_mem hha
          exact ⟨a1, b1, [], by simp⟩
        · have hxl : x ∈ a ++ b := by rw [hs]; simp
          have hb := hsx x hx hxl
          cases b with
          | nil => cases hb
          | cons y b' =>
            simp only [List.head?_cons, Option.some.injEq] at hb
            subst hb
            have e2 : a ++ y :: b' = (a1 ++ h :: b1) ++ y :: c1 := by rw [hs]; simp
            obtain ⟨ea, eb⟩ := split_unique hnd e2
            subst ea; subst eb
            exact ⟨a1, b1, y :: b', by simp⟩

/-- **every opcode keeps the invariant of a running action**: the stream stays a stream, the measure stays below its bound, and
`highpassed` is only set with the cursor strictly behind the mark -/
theorem ops_QM (m : Nat) : OpsPreserve (QM m) where
  next c h := h.ofStep (fun l hj => next_step c hj)
  insert c h := h.ofStep (fun l hj => insert_step c hj)
  delete c h := h.ofStep (fun l hj => delete_step c hj)
  putCopy c r h := h.ofStep (fun l hj => frame_step (putCopy_J c r hj) (putCopy_fr c r))
  assoc c rs h := h.ofStep (fun l hj => frame_step (assoc_J c rs hj) (assoc_fr c rs))
  tempCopy c h := h.ofStep (fun l hj => frame_step (tempCopy_J c hj) (tempCopy_fr c))
  attrSet c a b v h := h.ofStep (fun l hj => frame_step (attrSet_J c a b v hj) (attrSet_fr c a b v))
  putGlyph c k h := h.ofStep (fun l hj => frame_step (putGlyph_J c k hj) (putGlyph_fr c k))
  putSubs c r i o h := h.ofStep (fun l hj => frame_step (putSubs_J c r i o hj) (putSubs_fr c r i o))
  slotat c x h := by
    have := h.ofStep (o := .cont (slotat c x).2) (fun l hj => Fr.stepOK (slotat_J c x hj) (fr_slotat c x))
    exact this

/-! ## the ghost flag of the loop report is not touched by any opcode -/

theorem markHighpassed_vx (c : Ctx) (b : Bool) : (c.markHighpassed b).vExceeded = c.vExceeded := by unfold Ctx.markHighpassed; split <;> rfl
theorem moveHighwater_vx (c : Ctx) (v : Option Nat) : (c.moveHighwater v).vExceeded = c.vExceeded := by unfold Ctx.moveHighwater; split <;> rfl
theorem backOnto_vx (c : Ctx) (v : Option Nat) : (c.backOnto v).vExceeded = c.vExceeded := by
  unfold Ctx.backOnto; split; exact markHighpassed_vx _ _; rfl

/-- the ghost flag has the value `b` -/
def GX (b : Bool) (c : Ctx) : Prop := c.vExceeded = b

theorem ops_GX (b : Bool) : OpsPreserve (GX b) where
  next c h := by
    unfold opNext
    split
    · exact h
    · split
      · exact (markHighpassed_vx c true).trans h
      · exact h
  insert c h := by
    unfold opInsert
    simp only []
    split
    · exact h
    · split
      · exact h
      · exact (markHighpassed_vx (c.setMaxSize (c.maxSize - 1)) false).trans h
  delete c h := by
    unfold opDelete
    split
    · exact h
    · simp only []
      split
      · exact h
      · exact (backOnto_vx _ _).trans ((moveHighwater_vx c _).trans h)
  putCopy c r h := (putCopy_fr c r).mono (fun c' f => f.vx.trans h)
  assoc c rs h := (assoc_fr c rs).mono (fun c' f => f.vx.trans h)
  tempCopy c h := (tempCopy_fr c).mono (fun c' f => f.vx.trans h)
  attrSet c a b' v h := (attrSet_fr c a b' v).mono (fun c' f => f.vx.trans h)
  putGlyph c k h := (putGlyph_fr c k).mono (fun c' f => f.vx.trans h)
  putSubs c r i o h := (putSubs_fr c r i o).mono (fun c' f => f.vx.trans h)
  slotat c x h := (fr_slotat c x).vx.trans h

end GrVerif.Action

import GrVerif.Model.GlyphLoad
import GrVerif.Proofs.PassLoad
set_option linter.unusedVariables false
set_option linter.unusedSimpArgs false
namespace GrVerif.Loader

/-! ## `sparse`: the constructor writes, and `operator[]` reads, inside the one allocation -/

theorem sparseExtent_mono : ∀ (ps : List (Nat × Nat)) (lk : Int) (nc nv N V : Nat),
    sparseExtent ps lk nc nv = some (N, V) → nc ≤ N ∧ nv ≤ V := by
  intro ps
  induction ps with
  | nil => intro lk nc nv N V h; unfold sparseExtent at h; cases h; exact ⟨Nat.le_refl _, Nat.le_refl _⟩
  | cons p rest ih =>
    intro lk nc nv N V h
    obtain ⟨k, v⟩ := p
    unfold sparseExtent at h
    by_cases hv : v = 0
    · rw [if_pos hv] at h; exact ih _ _ _ _ _ h
    rw [if_neg hv] at h
    by_cases hk : (k : Int) ≤ lk
    · rw [if_pos hk] at h; cases h
    rw [if_neg hk] at h
    have := ih _ _ _ _ _ h
    split at this <;> omega

/-- the state of the second pass: sizes fixed by the first pass; every chunk beyond the current one is still untouched; every chunk's
values end where the next value goes at the latest -/
structure FillInv (N V : Nat) (s : Sparse) (ci vi : Nat) : Prop where
  n : s.nchunks = N
  cl : s.chunks.length = N
  vl : s.values.length = V
  bits : ∀ c ∈ s.chunks, c.bits.length = 48
  fresh : ∀ j, ci < j → ∀ c, s.chunks[j]? = some c → c.bits.count true = 0
  room : ∀ c ∈ s.chunks, c.bits.count true = 0 ∨ c.offset + c.bits.count true ≤ vi
  cur : ∀ c, s.chunks[ci]? = some c → c.offset ≤ vi

theorem count_set_le (l : List Bool) (i : Nat) : (l.set i true).count true ≤ l.count true + 1 := by
  induction l generalizing i with
  | nil => simp
  | cons b rest ih =>
    cases i with
    | zero => cases b <;> simp [List.count_cons]
    | succ i => have := ih i; simp only [List.set_cons_succ, List.count_cons]; omega

theorem updChunk_ok (s : Sparse) (j : Nat) (f : Chunk → Chunk) (h : j < s.chunks.length) :
    ∃ c, s.chunks[j]? = some c ∧ updChunk s j f = .ok { s with chunks := s.chunks.set j (f c) } := by
  unfold updChunk
  rw [List.getElem?_eq_getElem h]
  exact ⟨_, rfl, rfl⟩

theorem mem_set_cases {α : Type} (l : List α) (i : Nat) (x y : α) (h : y ∈ l.set i x) : y = x ∨ y ∈ l := by
  induction l generalizing i with
  | nil => simp at h
  | cons a rest ih =>
    cases i with
    | zero =>
      simp only [List.set_cons_zero, List.mem_cons] at h
      rcases h with h | h
      · exact Or.inl h
      · exact Or.inr (List.mem_cons_of_mem _ h)
    | succ i =>
      simp only [List.set_cons_succ, List.mem_cons] at h
      rcases h with h | h
      · exact Or.inr (by rw [h]; exact List.mem_cons_self)
      · rcases ih i h with h | h
        · exact Or.inl h
        · exact Or.inr (List.mem_cons_of_mem _ h)

theorem sparseFill_ok : ∀ (ps : List (Nat × Nat)) (lk : Int) (nc nv N V : Nat) (s : Sparse) (ci vi : Nat),
    sparseExtent ps lk nc nv = some (N, V) → FillInv N V s ci vi → vi = chunkCells * N + nv → (ci : Int) * 48 ≤ lk + 1 →
    (∀ k v, (k, v) ∈ ps → True) →
    ∃ s' ci' vi', sparseFill ps ci vi s = .ok s' ∧ FillInv N V s' ci' vi' ∧ vi' ≤ chunkCells * N + V := by
  intro ps
  induction ps with
  | nil =>
    intro lk nc nv N V s ci vi he hi hvi _ _
    unfold sparseExtent at he; cases he
    exact ⟨s, ci, vi, rfl, hi, by omega⟩
  | cons p rest ih =>
    intro lk nc nv N V s ci vi he hi hvi hci hall
    obtain ⟨k, v⟩ := p
    unfold sparseExtent at he
    unfold sparseFill
    by_cases hv : v = 0
    · rw [if_pos hv] at he ⊢
      exact ih lk nc nv N V s ci vi he hi hvi hci (fun _ _ _ => trivial)
    rw [if_neg hv] at he ⊢
    by_cases hk : (k : Int) ≤ lk
    · rw [if_pos hk] at he; cases he
    rw [if_neg hk] at he
    obtain ⟨hN, hV⟩ := sparseExtent_mono _ _ _ _ _ _ he
    have hkN : k / chunkBits < N := by unfold chunkBits at *; split at hN <;> omega
    have hcik : ci ≤ k / 48 := by omega
    simp only [bind, Except.bind, pure, Except.pure]
    -- the offset of a chunk that is entered
    obtain ⟨s1, hs1, hi1⟩ : ∃ s1, (if ci ≠ k / chunkBits then updChunk s (k / chunkBits) fun c => { c with offset := vi % 65536 } else Except.ok s) = .ok s1 ∧
        FillInv N V s1 (k / chunkBits) vi := by
      by_cases hne : ci ≠ k / chunkBits
      · rw [if_pos hne]
        obtain ⟨c, hc, e⟩ := updChunk_ok s (k / chunkBits) (fun c => { c with offset := vi % 65536 }) (by rw [hi.cl]; exact hkN)
        rw [e]
        have hfresh := hi.fresh (k / chunkBits) (by unfold chunkBits at *; omega) c hc
        refine ⟨_, rfl, ⟨hi.n, by simp only [List.length_set]; exact hi.cl, hi.vl, ?_, ?_, ?_, ?_⟩⟩
        · intro c' hc'
          rcases mem_set_cases _ _ _ _ hc' with rfl | h
          · exact hi.bits c (List.mem_of_getElem? hc)
          · exact hi.bits c' h
        · intro j hj c' hc'
          simp only [] at hc'
          rw [List.getElem?_set_ne (by omega)] at hc'
          exact hi.fresh j (by unfold chunkBits at *; omega) c' hc'
        · intro c' hc'
          rcases mem_set_cases _ _ _ _ hc' with rfl | h
          · left; exact hfresh
          · exact hi.room c' h
        · intro c' hc'
          simp only [] at hc'
          rw [List.getElem?_set_self (by rw [hi.cl]; exact hkN)] at hc'
          cases hc'
          simp only []
          exact Nat.mod_le _ _
      · rw [if_neg hne]
        have hcie : ci = k / chunkBits := by omega
        refine ⟨s, rfl, ⟨hi.n, hi.cl, hi.vl, hi.bits, ?_, hi.room, ?_⟩⟩
        · intro j hj c hc; exact hi.fresh j (by omega) c hc
        · intro c hc; rw [← hcie] at hc; exact hi.cur c hc
    rw [hs1]
    simp only []
    -- the bit of the key
    obtain ⟨c, hc, e2⟩ := updChunk_ok s1 (k / chunkBits) (fun c => { c with bits := c.bits.set (k % chunkBits) true }) (by rw [hi1.cl]; exact hkN)
    have hcur := hi1.cur c hc
    rw [e2]
    simp only []
    -- the value
    have hvi' : chunkCells * N ≤ vi ∧ vi - chunkCells * N < V := by omega
    unfold setValue
    simp only []
    rw [if_pos (by rw [hi1.n, hi1.vl]; exact hvi')]
    simp only []
    have hcnt := count_set_le c.bits (k % chunkBits)
    refine ih (k : Int) _ (nv + 1) N V _ (k / chunkBits) (vi + 1) he ?_ (by omega) (by unfold chunkBits; omega) (fun _ _ _ => trivial)
    refine ⟨hi1.n, by simp only [List.length_set]; exact hi1.cl, by simp only [List.length_set]; exact hi1.vl, ?_, ?_, ?_, ?_⟩
    · intro c' hc'
      simp only [] at hc'
      rcases mem_set_cases _ _ _ _ hc' with rfl | h
      · simp only [List.length_set]; exact hi1.bits c (List.mem_of_getElem? hc)
      · exact hi1.bits c' h
    · intro j hj c' hc'
      simp only [] at hc'
      rw [List.getElem?_set_ne (by omega)] at hc'
      exact hi1.fresh j hj c' hc'
    · intro c' hc'
      simp only [] at hc'
      rcases mem_set_cases _ _ _ _ hc' with rfl | h
      · right
        simp only []
        rcases hi1.room c (List.mem_of_getElem? hc) with h0 | h1 <;> omega
      · rcases hi1.room c' h with h0 | h1
        · left; exact h0
        · right; omega
    · intro c' hc'
      simp only [] at hc'
      rw [List.getElem?_set_self (by rw [hi1.cl]; exact hkN)] at hc'
      cases hc'
      simp only []; omega

/-- what the constructor establishes about the allocation -/
structure SparseOK (s : Sparse) : Prop where
  cl : s.chunks.length = s.nchunks
  room : ∀ c ∈ s.chunks, c.bits.count true = 0 ∨ c.offset + c.bits.count true ≤ chunkCells * s.nchunks + s.values.length

theorem replicate_empty_count (n : Nat) : ∀ c ∈ List.replicate n Chunk.empty, c.bits.count true = 0 := by
  intro c hc
  rw [(List.mem_replicate.mp hc).2]
  decide

theorem fillInv_init (N V : Nat) (c0 : Chunk) (hN : N ≠ 0)
    (hc0 : ({ nchunks := N, chunks := List.replicate N Chunk.empty, values := List.replicate V 0 } : Sparse).chunks[0]? = some c0) :
    c0 = Chunk.empty ∧
    FillInv N V { nchunks := N, chunks := (List.replicate N Chunk.empty).set 0 { c0 with offset := chunkCells * N }, values := List.replicate V 0 } 0 (chunkCells * N) := by
  have hc0e : c0 = Chunk.empty := by
    simp only [] at hc0
    rw [List.getElem?_replicate] at hc0
    split at hc0
    · cases hc0; rfl
    · cases hc0
  refine ⟨hc0e, rfl, by simp only [List.length_set, List.length_replicate], by simp only [List.length_replicate], ?_, ?_, ?_, ?_⟩
  · intro c hc
    simp only [] at hc
    rcases mem_set_cases _ _ _ _ hc with rfl | h
    · rw [hc0e]; rfl
    · rw [(List.mem_replicate.mp h).2]; rfl
  · intro j hj c hc
    simp only [] at hc
    rw [List.getElem?_set_ne (by omega)] at hc
    exact replicate_empty_count N c (List.mem_of_getElem? hc)
  · intro c hc
    simp only [] at hc
    rcases mem_set_cases _ _ _ _ hc with rfl | h
    · left; rw [hc0e]; show Chunk.empty.bits.count true = 0; decide
    · left; exact replicate_empty_count N c h
  · intro c hc
    simp only [] at hc
    rw [List.getElem?_set_self (by simp only [List.length_replicate]; omega)] at hc
    cases hc
    exact Nat.le_refl _

/-- the sizes of what the constructor returns are the ones its first pass computed -/
theorem sparseBuild_sizes (pairs : List (Nat × Nat)) (s : Sparse) (N V : Nat) (hb : sparseBuild pairs = .ok (some s))
    (he : sparseExtent pairs (-1) 0 0 = some (N, V)) (hN : N ≠ 0) : s.nchunks = N ∧ s.values.length = V := by
  unfold sparseBuild at hb
  rw [he] at hb
  simp only [] at hb
  rw [if_neg hN] at hb
  simp only [bind, Except.bind, pure, Except.pure] at hb
  obtain ⟨c0, hc0, e0⟩ := updChunk_ok { nchunks := N, chunks := List.replicate N Chunk.empty, values := List.replicate V 0 } 0
    (fun c => { c with offset := chunkCells * N }) (by simp only [List.length_replicate]; omega)
  rw [e0] at hb
  simp only [] at hb
  obtain ⟨_, hinv⟩ := fillInv_init N V c0 hN hc0
  obtain ⟨s', ci', vi', es, hi', _⟩ := sparseFill_ok pairs (-1) 0 0 N V _ 0 (chunkCells * N) he hinv (by omega) (by omega) (fun _ _ _ => trivial)
  rw [es] at hb
  cases hb
  exact ⟨hi'.n, hi'.vl⟩

/-- **`sparse::sparse(first, last)`** for every sequence of (key, value) pairs: both passes stay inside the one allocation whose size
the first pass computed -/
theorem sparseBuild_total (pairs : List (Nat × Nat)) : ∃ r, sparseBuild pairs = .ok r ∧ ∀ s, r = some s → SparseOK s := by
  unfold sparseBuild
  cases he : sparseExtent pairs (-1) 0 0 with
  | none => exact ⟨_, rfl, fun _ h => by cases h⟩
  | some nv =>
    obtain ⟨N, V⟩ := nv
    simp only []
    by_cases h0 : N = 0
    · rw [if_pos h0]
      refine ⟨_, rfl, fun s hs => ?_⟩
      cases hs
      exact ⟨rfl, fun c hc => by cases hc⟩
    rw [if_neg h0]
    simp only [bind, Except.bind, pure, Except.pure]
    obtain ⟨c0, hc0, e0⟩ := updChunk_ok { nchunks := N, chunks := List.replicate N Chunk.empty, values := List.replicate V 0 } 0
      (fun c => { c with offset := chunkCells * N }) (by simp only [List.length_replicate]; omega)
    rw [e0]
    simp only []
    have hc0e : c0 = Chunk.empty := by
      simp only [] at hc0
      rw [List.getElem?_replicate] at hc0
      split at hc0
      · cases hc0; rfl
      · cases hc0
    have hinv : FillInv N V { nchunks := N, chunks := (List.replicate N Chunk.empty).set 0 { c0 with offset := chunkCells * N }, values := List.replicate V 0 } 0 (chunkCells * N) := by
      refine ⟨rfl, by simp only [List.length_set, List.length_replicate], by simp only [List.length_replicate], ?_, ?_, ?_, ?_⟩
      · intro c hc
        simp only [] at hc
        rcases mem_set_cases _ _ _ _ hc with rfl | h
        · rw [hc0e]; rfl
        · rw [(List.mem_replicate.mp h).2]; rfl
      · intro j hj c hc
        simp only [] at hc
        rw [List.getElem?_set_ne (by omega)] at hc
        exact replicate_empty_count N c (List.mem_of_getElem? hc)
      · intro c hc
        simp only [] at hc
        rcases mem_set_cases _ _ _ _ hc with rfl | h
        · left; rw [hc0e]; show Chunk.empty.bits.count true = 0; decide
        · left; exact replicate_empty_count N c h
      · intro c hc
        simp only [] at hc
        rw [List.getElem?_set_self (by simp only [List.length_replicate]; omega)] at hc
        cases hc
        exact Nat.le_refl _
    obtain ⟨s', ci', vi', es, hi', hvi'⟩ := sparseFill_ok pairs (-1) 0 0 N V _ 0 (chunkCells * N) he hinv (by omega) (by omega) (fun _ _ _ => trivial)
    rw [es]
    refine ⟨_, rfl, fun s hs => ?_⟩
    cases hs
    refine ⟨by rw [hi'.cl, hi'.n], fun c hc => ?_⟩
    rcases hi'.room c hc with h | h
    · exact Or.inl h
    · right; rw [hi'.n, hi'.vl]; omega

theorem count_take_lt (l : List Bool) (r : Nat) (h : l.getD r false = true) : (l.take r).count true + 1 ≤ l.count true := by
  induction l generalizing r with
  | nil => simp at h
  | cons b rest ih =>
    cases r with
    | zero =>
      simp only [List.getD_cons_zero] at h
      subst h
      simp [List.count_cons]
    | succ r =>
      simp only [List.getD_cons_succ] at h
      have := ih r h
      simp only [List.take_succ_cons, List.count_cons]
      omega

/-- **`sparse::operator[]`** on what the constructor built, for every key: the chunk and the cell it reads lie inside the allocation
(or the static `empty_chunk`) – the index `offset + bit_set_count(m >> 1)` of a key that is present counts the keys of its chunk
before it, and there is a value for each -/
theorem sparse_get_in_bounds (s : Sparse) (h : SparseOK s) (k : Nat) : ∃ v, s.get k = .ok v := by
  unfold Sparse.get
  simp only [bind, Except.bind, pure, Except.pure]
  have hcl := h.cl
  by_cases hg : k / chunkBits < s.nchunks
  · rw [if_pos hg]
    simp only [Nat.one_mul]
    have hn0 : s.nchunks ≠ 0 := by intro h0; rw [h0] at hg; exact Nat.not_lt_zero _ hg
    unfold Sparse.chunk
    rw [if_neg hn0]
    obtain ⟨c, hc⟩ : ∃ c, s.chunks[k / chunkBits]? = some c := ⟨_, List.getElem?_eq_getElem (by omega)⟩
    rw [hc]
    simp only []
    unfold Sparse.cell
    rw [if_neg hn0]
    by_cases hb : c.bits.getD (k % chunkBits) false = true
    · rw [if_pos hb]
      simp only [Nat.one_mul]
      have hlt := count_take_lt c.bits _ hb
      have hroom := h.room c (List.mem_of_getElem? hc)
      by_cases hi : c.offset + (c.bits.take (k % chunkBits)).count true < chunkCells * s.nchunks
      · rw [if_pos hi]
        obtain ⟨c2, hc2⟩ : ∃ c2, s.chunks[(c.offset + (c.bits.take (k % chunkBits)).count true) / chunkCells]? = some c2 :=
          ⟨_, List.getElem?_eq_getElem (by unfold chunkCells at *; omega)⟩
        rw [hc2]
        exact ⟨_, rfl⟩
      · rw [if_neg hi]
        obtain ⟨v, hv⟩ : ∃ v, s.values[c.offset + (c.bits.take (k % chunkBits)).count true - chunkCells * s.nchunks]? = some v :=
          ⟨_, List.getElem?_eq_getElem (by omega)⟩
        rw [hv]
        exact ⟨_, rfl⟩
    · rw [if_neg hb]
      simp only [Nat.mul_zero, Nat.zero_mul]
      rw [if_pos (by unfold chunkCells; omega)]
      obtain ⟨c2, hc2⟩ : ∃ c2, s.chunks[0 / chunkCells]? = some c2 := ⟨_, List.getElem?_eq_getElem (by unfold chunkCells; omega)⟩
      rw [hc2]
      exact ⟨_, rfl⟩
  · rw [if_neg hg]
    simp only [Nat.zero_mul, Nat.zero_div]
    unfold Sparse.chunk Sparse.cell
    by_cases hn0 : s.nchunks = 0
    · simp only [hn0, if_true]
      exact ⟨_, rfl⟩
    · rw [if_neg hn0, if_neg hn0]
      obtain ⟨c, hc⟩ : ∃ c, s.chunks[0]? = some c := ⟨_, List.getElem?_eq_getElem (by omega)⟩
      rw [hc]
      simp only [Nat.zero_mul]
      rw [if_pos (by unfold chunkCells; omega)]
      obtain ⟨c2, hc2⟩ : ∃ c2, s.chunks[0 / chunkCells]? = some c2 := ⟨_, List.getElem?_eq_getElem (by unfold chunkCells; omega)⟩
      rw [hc2]
      exact ⟨_, rfl⟩

/-! ## the tables -/

theorem be16_lt (b : List Nat) (hb : ∀ x ∈ b, x < 256) (i v : Nat) (h : be16 b i = .ok v) : v < 65536 := by
  unfold be16 at h
  split at h
  · rename_i x y hx hy
    cases h
    have := hb x (List.mem_of_getElem? hx)
    have := hb y (List.mem_of_getElem? hy)
    omega
  · cases h

theorem tmp_spec (len flags na ngg : Nat) (hl : 8 ≤ len) (hna : na < 65536) (h0 : ¬ tmpNumGAttrs len flags na < 0) (h1 : ¬ tmpNumGAttrs len flags na > 65535)
    (h2 : ¬ (ngg : Int) > tmpNumGAttrs len flags na) :
    8 + ((tmpNumGAttrs len flags na).toNat + 1) * (if flags % 2 = 1 then 4 else 2) ≤ len ∧
      (ngg : Int) ≤ tmpNumGAttrs len flags na ∧ (tmpNumGAttrs len flags na).toNat ≤ 65535 := by
  unfold tmpNumGAttrs at *
  simp only [] at *
  generalize ha : (if (flags / 2) % 2 = 1 then 2 * na else 0) = a at *
  have haa : a ≤ 131070 := by rw [← ha]; split <;> omega
  by_cases hw : flags % 2 = 1
  · simp only [hw, if_true] at *
    by_cases hc : a ≤ len - 8
    · simp only [hc, if_true] at *
      omega
    · simp only [hc, if_false] at *
      omega
  · simp only [hw, if_false] at *
    by_cases hc : a ≤ len - 8
    · simp only [hc, if_true] at *
      omega
    · simp only [hc, if_false] at *
      omega

/-- what `Loader::Loader` has established: `Gloc` holds an offset for every attributed glyph and one more, `Glat` its version word -/
structure GlyphTablesOK (T : GlyphTables) (gloc glat : List Nat) (ngg : Nat) : Prop where
  entries : 8 + (T.numGlyphsAttr + 1) * (if T.longFmt then 4 else 2) ≤ gloc.length
  glat4 : 4 ≤ glat.length
  attrs : 1 ≤ T.numAttrs ∧ T.numAttrs ≤ 0x3000
  glyphs : ngg ≤ T.numGlyphsAttr ∧ T.numGlyphsAttr ≤ 65535

/-- **the headers of `Gloc` and `Glat`**: for all table bytes and every glyph count of `maxp`, nothing is read outside the two tables;
and the number of attributed glyphs `Loader::Loader` derives from the size of `Gloc` (in `size_t` arithmetic that can wrap, read back
as a `ptrdiff_t`) is one for which `Gloc` really has the offsets -/
theorem readGlyphTables_total (gloc glat : List Nat) (ngg : Nat) (hb : ∀ x ∈ gloc, x < 256) (hs : gloc.length < 18446744073709551616) :
    ∃ r, readGlyphTables gloc glat ngg = .ok r ∧ ∀ T, r = some T → GlyphTablesOK T gloc glat ngg := by
  unfold readGlyphTables
  by_cases h0 : gloc.length < 8
  · simp only [h0, if_true, pure, Except.pure]; exact ⟨_, rfl, fun _ h => by cases h⟩
  simp only [h0, if_false, bind, Except.bind, pure, Except.pure]
  obtain ⟨version, e1⟩ := be32_ok gloc 0 (by omega)
  obtain ⟨flags, e2⟩ := be16_ok gloc 4 (by omega)
  obtain ⟨numAttrs, e3⟩ := be16_ok gloc 6 (by omega)
  have hna := be16_lt gloc hb 6 numAttrs e3
  simp only [e1, e2, e3]
  by_cases c1 : s32 version ≥ 0x00020000 ∨ tmpNumGAttrs gloc.length flags numAttrs < 0 ∨ tmpNumGAttrs gloc.length flags numAttrs > 65535 ∨ numAttrs = 0 ∨ numAttrs > 0x3000 ∨
      (ngg : Int) > tmpNumGAttrs gloc.length flags numAttrs ∨ glat.length < 4
  · rw [if_pos c1]; exact ⟨_, rfl, fun _ h => by cases h⟩
  rw [if_neg c1]
  have hent := tmp_spec gloc.length flags numAttrs ngg (by omega) hna (by omega) (by omega) (by omega)
  obtain ⟨gv, e4⟩ := be32_ok glat 0 (by omega)
  simp only [e4]
  by_cases c2 : s32 gv ≥ 0x00040000 ∨ (s32 gv ≥ 0x00030000 ∧ glat.length < 8)
  · rw [if_pos c2]; exact ⟨_, rfl, fun _ h => by cases h⟩
  rw [if_neg c2]
  by_cases c3 : s32 gv ≥ 0x00030000
  · rw [if_pos c3]
    obtain ⟨gf, e5⟩ := be32_ok glat 4 (by omega)
    simp only [e5]
    refine ⟨_, rfl, fun T hT => ?_⟩
    cases hT
    have h21 := hent.2.1
    refine ⟨?_, by omega, ⟨by simp only []; omega, by simp only []; omega⟩, ⟨by simp only []; omega, hent.2.2⟩⟩
    simp only [decide_eq_true_eq]
    exact hent.1
  · rw [if_neg c3]
    refine ⟨_, rfl, fun T hT => ?_⟩
    cases hT
    have h21 := hent.2.1
    refine ⟨?_, by omega, ⟨by simp only []; omega, by simp only []; omega⟩, ⟨by simp only []; omega, hent.2.2⟩⟩
    simp only [decide_eq_true_eq]
    exact hent.1

theorem glocPair_ok (T : GlyphTables) (gloc glat : List Nat) (ngg gid : Nat) (hT : GlyphTablesOK T gloc glat ngg) (hg : gid < T.numGlyphsAttr) :
    ∃ r, glocPair T gloc gid = .ok r := by
  unfold glocPair
  have he := hT.entries
  by_cases hl : T.longFmt = true
  · simp only [hl, if_true] at he ⊢
    by_cases h0 : 8 + gid * 4 > gloc.length
    · simp only [h0, if_true, pure, Except.pure]; exact ⟨_, rfl⟩
    simp only [h0, if_false, bind, Except.bind, pure, Except.pure]
    obtain ⟨a, ea⟩ := be32_ok gloc (8 + gid * 4) (by omega)
    obtain ⟨b, eb⟩ := be32_ok gloc (8 + (gid + 1) * 4) (by omega)
    rw [ea, eb]; exact ⟨_, rfl⟩
  · simp only [hl, Bool.false_eq_true, if_false] at he ⊢
    by_cases h0 : 8 + gid * 2 > gloc.length
    · simp only [h0, if_true, pure, Except.pure]; exact ⟨_, rfl⟩
    simp only [h0, if_false, bind, Except.bind, pure, Except.pure]
    obtain ⟨a, ea⟩ := be16_ok gloc (8 + gid * 2) (by omega)
    obtain ⟨b, eb⟩ := be16_ok gloc (8 + (gid + 1) * 2) (by omega)
    rw [ea, eb]; exact ⟨_, rfl⟩

theorem peekW_ok (wide : Bool) (glat : List Nat) (i : Nat) (h : i + (if wide then 2 else 1) ≤ glat.length) : ∃ v, peekW wide glat i = .ok v := by
  unfold peekW
  cases wide with
  | true => simp only [if_true] at h ⊢; exact be16_ok glat i h
  | false => simp only [Bool.false_eq_true, if_false] at h ⊢; exact ⟨_, byteAt_ok glat i (by omega)⟩

/-- **the `_glat_iterator`s**: between an entry at `e`, its current value at `v` (behind the entry's two header fields) and an end inside
the table, every key, run length and value the iteration looks at lies inside the table – whatever the run lengths say -/
theorem glatPairs_total (wide : Bool) (glat : List Nat) (stop : Nat) (hstop : stop ≤ glat.length) :
    ∀ (fuel e v n : Nat), e + (if wide then 4 else 2) ≤ v → ∃ r, glatPairs wide glat stop fuel e v n = .ok r := by
  intro fuel
  induction fuel with
  | zero => intro e v n _; exact ⟨_, rfl⟩
  | succ fuel ih =>
    intro e v n hev
    unfold glatPairs
    by_cases hs : v + 1 ≥ stop
    · rw [if_pos hs]; exact ⟨_, rfl⟩
    rw [if_neg hs]
    obtain ⟨k, ek⟩ := peekW_ok wide glat e (by cases wide <;> simp at hev ⊢ <;> omega)
    obtain ⟨val, ev⟩ := be16_ok glat v (by omega)
    obtain ⟨run, er⟩ := peekW_ok wide glat (e + (if wide then 2 else 1)) (by cases wide <;> simp at hev ⊢ <;> omega)
    simp only [bind, Except.bind, pure, Except.pure, ek, ev, er]
    by_cases hr : n + 1 = run
    · rw [if_pos hr]
      obtain ⟨r, e1⟩ := ih (v + 2) (v + 2 + (if wide then 4 else 2)) 0 (by omega)
      rw [e1]; exact ⟨_, rfl⟩
    · rw [if_neg hr]
      obtain ⟨r, e1⟩ := ih e (v + 2) (n + 1) (by omega)
      rw [e1]; exact ⟨_, rfl⟩

/-- **the attribute half of `read_glyph`**, for every attributed glyph of accepted tables: the two offsets, the tests on them, the
octabox header, the run-length entries and the `sparse` built from them never leave `Gloc`, `Glat` or the allocation; and an accepted
glyph's attributes are a `sparse` on which every look-up is in bounds -/
theorem readGlyphAttrs_total (T : GlyphTables) (gloc glat : List Nat) (ngg gid : Nat) (hT : GlyphTablesOK T gloc glat ngg) (hg : gid < T.numGlyphsAttr) :
    ∃ r, readGlyphAttrs T gloc glat gid = .ok r ∧ ∀ s n, r = some (s, n) → SparseOK s := by
  unfold readGlyphAttrs
  obtain ⟨gp, egp⟩ := glocPair_ok T gloc glat ngg gid hT hg
  have h4 := hT.glat4
  simp only [bind, Except.bind, pure, Except.pure, egp]
  cases gp with
  | none => exact ⟨_, rfl, fun _ _ h => by cases h⟩
  | some se =>
    obtain ⟨glocs, gloce⟩ := se
    simp only []
    by_cases c1 : glocs ≥ glat.length - 1 ∨ gloce > glat.length
    · rw [if_pos c1]; exact ⟨_, rfl, fun _ _ h => by cases h⟩
    rw [if_neg c1]
    obtain ⟨gv, egv⟩ := be32_ok glat 0 (by omega)
    simp only [egv]
    -- the octabox header of a version 3 table
    obtain ⟨r3, e3, h3⟩ : ∃ r3, boxHeader glat gv glocs gloce = .ok r3 ∧ ∀ g2 num, r3 = some (g2, num) → glocs ≤ g2 := by
      unfold boxHeader
      by_cases hv : gv ≥ 0x00030000
      · rw [if_pos hv]
        by_cases hge : glocs ≥ gloce
        · rw [if_pos hge]; exact ⟨_, rfl, fun _ _ h => by cases h⟩
        rw [if_neg hge]
        obtain ⟨bm, eb⟩ := be16_ok glat glocs (by omega)
        rw [eb]
        simp only []
        split
        · exact ⟨_, rfl, fun _ _ h => by cases h⟩
        · exact ⟨_, rfl, fun g2 num h => by cases h; omega⟩
      · rw [if_neg hv]; exact ⟨_, rfl, fun g2 num h => by cases h; omega⟩
    rw [e3]
    simp only []
    cases r3 with
    | none => exact ⟨_, rfl, fun _ _ h => by cases h⟩
    | some gn =>
      obtain ⟨g2, num⟩ := gn
      simp only []
      by_cases c2 : gloce < g2
      · rw [if_pos c2]; exact ⟨_, rfl, fun _ _ h => by cases h⟩
      rw [if_neg c2]
      by_cases c3 : gloce - g2 < (if decide (gv ≥ 0x00020000) = true then 6 else 4) ∨ gloce - g2 > T.numAttrs * (if decide (gv ≥ 0x00020000) = true then 6 else 4)
      · rw [if_pos c3]; exact ⟨_, rfl, fun _ _ h => by cases h⟩
      rw [if_neg c3]
      by_cases c4 : decide (gv ≥ 0x00020000) = true ∧ g2 > glat.length - 4
      · rw [if_pos c4]; exact ⟨_, rfl, fun _ _ h => by cases h⟩
      rw [if_neg c4]
      obtain ⟨pairs, ep⟩ := glatPairs_total (decide (gv ≥ 0x00020000)) glat gloce (by omega) (glat.length + 1) g2
        (g2 + (if decide (gv ≥ 0x00020000) = true then 4 else 2)) 0 (Nat.le_refl _)
      rw [ep]
      simp only []
      obtain ⟨sb, esb, hsb⟩ := sparseBuild_total pairs
      rw [esb]
      cases sb with
      | none => exact ⟨_, rfl, fun _ _ h => by cases h⟩
      | some s =>
        simp only []
        split
        · exact ⟨_, rfl, fun _ _ h => by cases h⟩
        · exact ⟨_, rfl, fun s' n' h => by cases h; exact hsb s rfl⟩

theorem readU8s_ok (b : List Nat) : ∀ (n off : Nat), off + n ≤ b.length → ∃ v, readU8s b off n = .ok v := by
  intro n
  induction n with
  | zero => intro off _; exact ⟨_, rfl⟩
  | succ n ih =>
    intro off h
    unfold readU8s
    obtain ⟨vs, e⟩ := ih (off + 1) (by omega)
    simp only [bind, Except.bind, pure, Except.pure, byteAt_ok b off (by omega), e]
    exact ⟨_, rfl⟩

theorem glocPairRaw_ok (T : GlyphTables) (gloc glat : List Nat) (ngg gid : Nat) (hT : GlyphTablesOK T gloc glat ngg) (hg : gid < T.numGlyphsAttr) :
    ∃ r, glocPairRaw T gloc gid = .ok r := by
  unfold glocPairRaw
  have he := hT.entries
  by_cases hl : T.longFmt = true
  · simp only [hl, if_true] at he ⊢
    obtain ⟨a, ea⟩ := be32_ok gloc (8 + gid * 4) (by omega)
    obtain ⟨b, eb⟩ := be32_ok gloc (8 + (gid + 1) * 4) (by omega)
    rw [ea, eb]; exact ⟨_, rfl⟩
  · simp only [hl, Bool.false_eq_true, if_false] at he ⊢
    obtain ⟨a, ea⟩ := be16_ok gloc (8 + gid * 2) (by omega)
    obtain ⟨b, eb⟩ := be16_ok gloc (8 + (gid + 1) * 2) (by omega)
    rw [ea, eb]; exact ⟨_, rfl⟩

/-- **`read_box`**: the two offsets (read without a test of their own – the constructor's count of attributed glyphs is what makes
that safe), the bitmap, the slant box and the sub-boxes lie inside `Gloc` and `Glat` -/
theorem readBoxBytes_total (T : GlyphTables) (gloc glat : List Nat) (ngg gid : Nat) (hT : GlyphTablesOK T gloc glat ngg) :
    ∃ r, readBoxBytes T gloc glat gid = .ok r := by
  unfold readBoxBytes
  by_cases h0 : gid ≥ T.numGlyphsAttr
  · simp only [h0, if_true, pure, Except.pure]; exact ⟨_, rfl⟩
  simp only [h0, if_false, bind, Except.bind, pure, Except.pure]
  obtain ⟨se, ese⟩ := glocPairRaw_ok T gloc glat ngg gid hT (by omega)
  rw [ese]
  simp only []
  by_cases c1 : se.2 > glat.length ∨ se.1 + 6 ≥ se.2
  · rw [if_pos c1]; exact ⟨_, rfl⟩
  rw [if_neg c1]
  obtain ⟨bm, eb⟩ := be16_ok glat se.1 (by omega)
  obtain ⟨v4, e4⟩ := readU8s_ok glat 4 (se.1 + 2) (by omega)
  rw [eb]
  simp only [e4]
  by_cases c2 : se.1 + 6 + popcount16 bm * 8 ≥ se.2
  · rw [if_pos c2]; exact ⟨_, rfl⟩
  rw [if_neg c2]
  obtain ⟨vs, es⟩ := readU8s_ok glat (popcount16 bm * 8) (se.1 + 6) (by omega)
  rw [es]
  exact ⟨_, rfl⟩

theorem readGlyph_total (T : GlyphTables) (gloc glat : List Nat) (ngg gid : Nat) (hT : GlyphTablesOK T gloc glat ngg) :
    ∃ r, readGlyph T gloc glat gid = .ok r ∧ ∀ s n, r = some (s, n) → SparseOK s := by
  unfold readGlyph
  by_cases hg : gid < T.numGlyphsAttr
  · rw [if_pos hg]; exact readGlyphAttrs_total T gloc glat ngg gid hT hg
  · rw [if_neg hg]
    exact ⟨_, rfl, fun s n h => by cases h; exact ⟨rfl, fun c hc => by cases hc⟩⟩

theorem preloadGlyphs_total (T : GlyphTables) (gloc glat : List Nat) (ngg : Nat) (hT : GlyphTablesOK T gloc glat ngg) :
    ∀ n gid, ∃ r, preloadGlyphs T gloc glat n gid = .ok r ∧ ∀ gs, r = some gs → ∀ g ∈ gs, SparseOK g.1 := by
  intro n
  induction n with
  | zero => intro gid; exact ⟨_, rfl, fun gs h g hg => by cases h; cases hg⟩
  | succ n ih =>
    intro gid
    unfold preloadGlyphs
    obtain ⟨r, e, hr⟩ := readGlyph_total T gloc glat ngg gid hT
    simp only [bind, Except.bind, pure, Except.pure, e]
    cases r with
    | none => exact ⟨_, rfl, fun _ h => by cases h⟩
    | some g =>
      simp only []
      obtain ⟨r2, e2, hr2⟩ := ih (gid + 1)
      rw [e2]
      cases r2 with
      | none => exact ⟨_, rfl, fun _ h => by cases h⟩
      | some rest =>
        simp only []
        refine ⟨_, rfl, fun gs h x hx => ?_⟩
        cases h
        rcases List.mem_cons.mp hx with rfl | hx
        · exact hr x.1 x.2 rfl
        · exact hr2 rest rfl x hx

theorem preloadBoxes_total (T : GlyphTables) (gloc glat : List Nat) (ngg : Nat) (hT : GlyphTablesOK T gloc glat ngg) :
    ∀ n gid, ∃ r, preloadBoxes T gloc glat n gid = .ok r := by
  intro n
  induction n with
  | zero => intro gid; exact ⟨_, rfl⟩
  | succ n ih =>
    intro gid
    unfold preloadBoxes
    obtain ⟨r, e⟩ := readBoxBytes_total T gloc glat ngg gid hT
    simp only [bind, Except.bind, pure, Except.pure, e]
    cases r with
    | none => exact ⟨_, rfl⟩
    | some bx =>
      simp only []
      obtain ⟨r2, e2⟩ := ih (gid + 1)
      rw [e2]
      cases r2 <;> exact ⟨_, rfl⟩

/-- the attributes of every glyph a cache hands out admit every look-up -/
def AnsOK : GlyphAns → Prop
  | .loaded s _ => SparseOK s
  | _ => True

theorem askGlyph_total (T : GlyphTables) (gloc glat : List Nat) (ngg ng gid : Nat) (hT : GlyphTablesOK T gloc glat ngg) :
    ∃ a, askGlyph T gloc glat ng gid = .ok a ∧ AnsOK a := by
  unfold askGlyph
  by_cases h0 : gid ≥ ng
  · rw [if_pos h0]; exact ⟨_, rfl, trivial⟩
  rw [if_neg h0]
  obtain ⟨r, e, hr⟩ := readGlyph_total T gloc glat ngg gid hT
  rw [e]
  cases r with
  | none => exact ⟨_, rfl, trivial⟩
  | some g =>
    simp only []
    by_cases hb : T.hasBoxes = true
    · rw [if_pos hb]
      obtain ⟨bx, eb⟩ := readBoxBytes_total T gloc glat ngg gid hT
      rw [eb]
      exact ⟨_, rfl, hr g.1 g.2 rfl⟩
    · rw [if_neg hb]; exact ⟨_, rfl, hr g.1 g.2 rfl⟩

theorem askGlyphs_total (T : GlyphTables) (gloc glat : List Nat) (ngg ng : Nat) (hT : GlyphTablesOK T gloc glat ngg) :
    ∀ gids, ∃ as, askGlyphs T gloc glat ng gids = .ok as ∧ ∀ a ∈ as, AnsOK a := by
  intro gids
  induction gids with
  | nil => exact ⟨_, rfl, fun a h => by cases h⟩
  | cons gid rest ih =>
    unfold askGlyphs
    obtain ⟨a, ea, ha⟩ := askGlyph_total T gloc glat ngg ng gid hT
    obtain ⟨as, eas, has⟩ := ih
    rw [ea, eas]
    refine ⟨_, rfl, fun x hx => ?_⟩
    rcases List.mem_cons.mp hx with rfl | hx
    · exact ha
    · exact has x hx

/-- **`GlyphCache`** – its constructor (loading on demand or preloading every glyph and box) and `glyph(gid)` for any glyph ids, on any
bytes as `Gloc` and `Glat` and any glyph count of `maxp`: nothing is read outside the two tables, nothing is written outside the
allocation of a `sparse`, and the attributes of every glyph handed out are a `sparse` on which every key can be looked up in bounds -/
theorem glyphCache_total (gloc glat : List Nat) (ngg : Nat) (preload : Bool) (gids : List Nat) (hb : ∀ x ∈ gloc, x < 256) (hs : gloc.length < 18446744073709551616) :
    ∃ r, glyphCache gloc glat ngg preload gids = .ok r ∧ ∀ c, r = some c → ∀ a ∈ c.glyphs, AnsOK a := by
  unfold glyphCache
  obtain ⟨rt, et, ht⟩ := readGlyphTables_total gloc glat ngg hb hs
  simp only [bind, Except.bind, pure, Except.pure, et]
  cases rt with
  | none => exact ⟨_, rfl, fun _ h => by cases h⟩
  | some T =>
    simp only []
    have hT := ht T rfl
    by_cases h0 : max ngg T.numGlyphsAttr = 0
    · rw [if_pos h0]; exact ⟨_, rfl, fun _ h => by cases h⟩
    rw [if_neg h0]
    cases preload with
    | true =>
      simp only [if_true]
      obtain ⟨rg, eg, hg⟩ := preloadGlyphs_total T gloc glat ngg hT (max ngg T.numGlyphsAttr) 0
      rw [eg]
      cases rg with
      | none => exact ⟨_, rfl, fun _ h => by cases h⟩
      | some gs =>
        simp only []
        obtain ⟨bxs, ebx⟩ : ∃ v, (if T.hasBoxes = true then preloadBoxes T gloc glat (max ngg T.numGlyphsAttr) 0 else Except.ok none) = .ok v := by
          split
          · exact preloadBoxes_total T gloc glat ngg hT _ _
          · exact ⟨_, rfl⟩
        rw [ebx]
        refine ⟨_, rfl, fun c hc a ha => ?_⟩
        cases hc
        simp only [List.mem_map] at ha
        obtain ⟨gid, _, rfl⟩ := ha
        cases hgi : gs[gid]? with
        | none => trivial
        | some g => exact hg gs rfl g (List.mem_of_getElem? hgi)
    | false =>
      simp only [Bool.false_eq_true, if_false]
      obtain ⟨r0, e0, _⟩ := readGlyph_total T gloc glat ngg 0 hT
      rw [e0]
      cases r0 with
      | none => exact ⟨_, rfl, fun _ h => by cases h⟩
      | some g0 =>
        simp only []
        obtain ⟨as, eas, has⟩ := askGlyphs_total T gloc glat ngg (max ngg T.numGlyphsAttr) hT gids
        rw [eas]
        exact ⟨_, rfl, fun c hc a ha => by cases hc; exact has a ha⟩

/-! ## a preloaded cache and a cache that loads on demand hand out the same glyphs (C10) -/

theorem preloadGlyphs_get (T : GlyphTables) (gloc glat : List Nat) : ∀ (n gid0 : Nat) (gs : List (Sparse × Nat)),
    preloadGlyphs T gloc glat n gid0 = .ok (some gs) → gs.length = n ∧ ∀ k, k < n → ∃ g, gs[k]? = some g ∧ readGlyph T gloc glat (gid0 + k) = .ok (some g) := by
  intro n
  induction n with
  | zero => intro gid0 gs h; unfold preloadGlyphs at h; cases h; exact ⟨rfl, fun k hk => by omega⟩
  | succ n ih =>
    intro gid0 gs h
    unfold preloadGlyphs at h
    simp only [bind, Except.bind, pure, Except.pure] at h
    cases h1 : readGlyph T gloc glat gid0 with
    | error e => rw [h1] at h; cases h
    | ok r1 =>
      rw [h1] at h
      cases r1 with
      | none => cases h
      | some g =>
        simp only [] at h
        cases h2 : preloadGlyphs T gloc glat n (gid0 + 1) with
        | error e => rw [h2] at h; cases h
        | ok r2 =>
          rw [h2] at h
          cases r2 with
          | none => cases h
          | some rest =>
            simp only [Except.ok.injEq, Option.some.injEq] at h
            subst h
            obtain ⟨hl, hk⟩ := ih (gid0 + 1) rest h2
            refine ⟨by simp [hl], fun k hk' => ?_⟩
            cases k with
            | zero => exact ⟨g, rfl, h1⟩
            | succ k =>
              obtain ⟨g', e1, e2⟩ := hk k (by omega)
              exact ⟨g', by simpa using e1, by rw [show gid0 + (k + 1) = gid0 + 1 + k by omega]; exact e2⟩

theorem preloadBoxes_get (T : GlyphTables) (gloc glat : List Nat) : ∀ (n gid0 : Nat) (bs : List (Nat × Nat)),
    preloadBoxes T gloc glat n gid0 = .ok (some bs) → bs.length = n ∧ ∀ k, k < n → ∃ b, bs[k]? = some b ∧ readBoxBytes T gloc glat (gid0 + k) = .ok (some b) := by
  intro n
  induction n with
  | zero => intro gid0 bs h; unfold preloadBoxes at h; cases h; exact ⟨rfl, fun k hk => by omega⟩
  | succ n ih =>
    intro gid0 bs h
    unfold preloadBoxes at h
    simp only [bind, Except.bind, pure, Except.pure] at h
    cases h1 : readBoxBytes T gloc glat gid0 with
    | error e => rw [h1] at h; cases h
    | ok r1 =>
      rw [h1] at h
      cases r1 with
      | none => cases h
      | some b =>
        simp only [] at h
        cases h2 : preloadBoxes T gloc glat n (gid0 + 1) with
        | error e => rw [h2] at h; cases h
        | ok r2 =>
          rw [h2] at h
          cases r2 with
          | none => cases h
          | some rest =>
            simp only [Except.ok.injEq, Option.some.injEq] at h
            subst h
            obtain ⟨hl, hk⟩ := ih (gid0 + 1) rest h2
            refine ⟨by simp [hl], fun k hk' => ?_⟩
            cases k with
            | zero => exact ⟨b, rfl, h1⟩
            | succ k =>
              obtain ⟨b', e1, e2⟩ := hk k (by omega)
              exact ⟨b', by simpa using e1, by rw [show gid0 + (k + 1) = gid0 + 1 + k by omega]; exact e2⟩

/-- **one glyph, either way of loading**: when the preloading constructor could read every glyph (`gs`) and every box (`bs`, for a font
whose Glat table carries boxes), `glyph(gid)` of a cache that loads on demand hands out exactly the preloaded glyph and box -/
theorem askGlyph_eq_preloaded (T : GlyphTables) (gloc glat : List Nat) (ng : Nat) (gs : List (Sparse × Nat)) (bs : List (Nat × Nat))
    (hg : preloadGlyphs T gloc glat ng 0 = .ok (some gs)) (hb : T.hasBoxes = true → preloadBoxes T gloc glat ng 0 = .ok (some bs)) (gid : Nat) :
    askGlyph T gloc glat ng gid = .ok (match gs[gid]? with
      | none => GlyphAns.noSuch
      | some g => GlyphAns.loaded g.1 (if T.hasBoxes then bs[gid]? else none)) := by
  obtain ⟨gl, gk⟩ := preloadGlyphs_get T gloc glat ng 0 gs hg
  unfold askGlyph
  by_cases hge : gid ≥ ng
  · rw [if_pos hge, List.getElem?_eq_none (by omega)]
  · rw [if_neg hge]
    obtain ⟨g, e1, e2⟩ := gk gid (by omega)
    rw [Nat.zero_add] at e2
    rw [e1, e2]
    simp only []
    cases hbx : T.hasBoxes with
    | false => simp
    | true =>
      simp only [if_true]
      obtain ⟨bl, bk⟩ := preloadBoxes_get T gloc glat ng 0 bs (hb hbx)
      obtain ⟨b, f1, f2⟩ := bk gid (by omega)
      rw [Nat.zero_add] at f2
      rw [f2, f1]

theorem askGlyphs_eq_preloaded (T : GlyphTables) (gloc glat : List Nat) (ng : Nat) (gs : List (Sparse × Nat)) (bs : List (Nat × Nat))
    (hg : preloadGlyphs T gloc glat ng 0 = .ok (some gs)) (hb : T.hasBoxes = true → preloadBoxes T gloc glat ng 0 = .ok (some bs)) :
    ∀ (gids : List Nat), askGlyphs T gloc glat ng gids = .ok (gids.map fun gid => match gs[gid]? with
      | none => GlyphAns.noSuch
      | some g => GlyphAns.loaded g.1 (if T.hasBoxes then bs[gid]? else none)) := by
  intro gids
  induction gids with
  | nil => rfl
  | cons gid rest ih =>
    unfold askGlyphs
    rw [askGlyph_eq_preloaded T gloc glat ng gs bs hg hb gid, ih]
    rfl

/-- a table set whose `Glat` carries boxes is a version 3 `Glat` -/
theorem readGlyphTables_boxes {gloc glat : List Nat} {ngg : Nat} {T : GlyphTables} (h : readGlyphTables gloc glat ngg = .ok (some T))
    (hb : T.hasBoxes = true) : ∃ gv, be32 glat 0 = .ok gv ∧ gv ≥ 0x00030000 := by
  unfold readGlyphTables at h
  simp only [bind, Except.bind, pure, Except.pure] at h
  by_cases h0 : gloc.length < 8
  · rw [if_pos h0] at h; cases h
  rw [if_neg h0] at h
  cases e1 : be32 gloc 0 with
  | error f => rw [e1] at h; cases h
  | ok version =>
  rw [e1] at h; simp only [] at h
  cases e2 : be16 gloc 4 with
  | error f => rw [e2] at h; cases h
  | ok flags =>
  rw [e2] at h; simp only [] at h
  cases e3 : be16 gloc 6 with
  | error f => rw [e3] at h; cases h
  | ok numAttrs =>
  rw [e3] at h; simp only [] at h
  split at h
  · cases h
  · cases e4 : be32 glat 0 with
    | error f => rw [e4] at h; cases h
    | ok gv =>
    rw [e4] at h; simp only [] at h
    split at h
    · cases h
    · split at h
      · rename_i h3
        refine ⟨gv, rfl, ?_⟩
        unfold s32 at h3
        split at h3
        · omega
        · omega
      · simp only [Except.ok.injEq, Option.some.injEq] at h
        rw [← h] at hb
        cases hb

/-- **a glyph that `read_glyph` accepted has a box `read_box` accepts** (version 3 `Glat`): the octabox header `read_glyph` steps over –
bitmap, slant box, sub-boxes – and the attribute entry behind it are exactly what `read_box` needs inside the glyph's range.  So the
preloading constructor, which has read every glyph before it reads the boxes, never meets a box it cannot read: its error path
(`free(boxes)` with the cells of `_boxes` already filled) is unreachable. -/
theorem readBox_of_readGlyph (T : GlyphTables) (gloc glat : List Nat) (gid : Nat) (hgid : gid < T.numGlyphsAttr)
    {gv : Nat} (hv : be32 glat 0 = .ok gv) (h3 : gv ≥ 0x00030000) {g : Sparse × Nat}
    (hg : readGlyphAttrs T gloc glat gid = .ok (some g)) : ∃ b, readBoxBytes T gloc glat gid = .ok (some b) := by
  unfold readGlyphAttrs at hg
  simp only [bind, Except.bind, pure, Except.pure] at hg
  cases e1 : glocPair T gloc gid with
  | error f => rw [e1] at hg; cases hg
  | ok r1 =>
  rw [e1] at hg
  cases r1 with
  | none => cases hg
  | some se =>
  obtain ⟨glocs, gloce⟩ := se
  simp only [] at hg
  by_cases c0 : glocs ≥ glat.length - 1 ∨ gloce > glat.length
  · rw [if_pos c0] at hg; cases hg
  rw [if_neg c0, hv] at hg
  simp only [] at hg
  unfold boxHeader at hg
  rw [if_pos h3] at hg
  by_cases c1 : glocs ≥ gloce
  · rw [if_pos c1] at hg; cases hg
  rw [if_neg c1] at hg
  cases e2 : be16 glat glocs with
  | error f => rw [e2] at hg; cases hg
  | ok bmap =>
  rw [e2] at hg
  simp only [] at hg
  by_cases c2 : glocs + 6 + 8 * popcount16 bmap > gloce
  · rw [if_pos c2] at hg; cases hg
  rw [if_neg c2] at hg
  simp only [] at hg
  by_cases c3 : gloce < glocs + 6 + 8 * popcount16 bmap
  · rw [if_pos c3] at hg; cases hg
  rw [if_neg c3] at hg
  by_cases c4 : gloce - (glocs + 6 + 8 * popcount16 bmap) < (if decide (gv ≥ 0x00020000) = true then 6 else 4) ∨
      gloce - (glocs + 6 + 8 * popcount16 bmap) > T.numAttrs * (if decide (gv ≥ 0x00020000) = true then 6 else 4)
  · rw [if_pos c4] at hg; cases hg
  -- the raw offsets are the tested ones
  have hraw : glocPairRaw T gloc gid = .ok (glocs, gloce) := by
    unfold glocPair at e1
    unfold glocPairRaw
    simp only [bind, Except.bind, pure, Except.pure] at e1
    by_cases hl : T.longFmt = true
    · simp only [hl, if_true] at e1 ⊢
      split at e1
      · cases e1
      · cases ea : be32 gloc (8 + gid * 4) with
        | error f => rw [ea] at e1; cases e1
        | ok a =>
          rw [ea] at e1; simp only [] at e1
          cases eb : be32 gloc (8 + (gid + 1) * 4) with
          | error f => rw [eb] at e1; cases e1
          | ok b => rw [eb] at e1; simp only [Except.ok.injEq, Option.some.injEq, Prod.mk.injEq] at e1; rw [e1.1, e1.2]
    · simp only [hl, Bool.false_eq_true, if_false] at e1 ⊢
      split at e1
      · cases e1
      · cases ea : be16 gloc (8 + gid * 2) with
        | error f => rw [ea] at e1; cases e1
        | ok a =>
          rw [ea] at e1; simp only [] at e1
          cases eb : be16 gloc (8 + (gid + 1) * 2) with
          | error f => rw [eb] at e1; cases e1
          | ok b => rw [eb] at e1; simp only [Except.ok.injEq, Option.some.injEq, Prod.mk.injEq] at e1; rw [e1.1, e1.2]
  have hunit : 4 ≤ (if decide (gv ≥ 0x00020000) = true then 6 else 4) := by split <;> omega
  unfold readBoxBytes
  simp only [bind, Except.bind, pure, Except.pure]
  rw [if_neg (by omega), hraw]
  simp only []
  rw [if_neg (by omega), e2]
  simp only []
  obtain ⟨v4, e4⟩ := readU8s_ok glat 4 (glocs + 2) (by omega)
  rw [e4]
  simp only []
  rw [if_neg (by omega)]
  obtain ⟨vs, es⟩ := readU8s_ok glat (popcount16 bmap * 8) (glocs + 6) (by omega)
  rw [es]
  exact ⟨_, rfl⟩

/-- `maxp` never names more glyphs than `Gloc` has attributes for, in a table set the loader accepts -/
theorem readGlyphTables_count {gloc glat : List Nat} {ngg : Nat} {T : GlyphTables} (h : readGlyphTables gloc glat ngg = .ok (some T)) :
    ngg ≤ T.numGlyphsAttr := by
  unfold readGlyphTables at h
  simp only [bind, Except.bind, pure, Except.pure] at h
  by_cases h0 : gloc.length < 8
  · rw [if_pos h0] at h; cases h
  rw [if_neg h0] at h
  cases e1 : be32 gloc 0 with
  | error f => rw [e1] at h; cases h
  | ok version =>
  rw [e1] at h; simp only [] at h
  cases e2 : be16 gloc 4 with
  | error f => rw [e2] at h; cases h
  | ok flags =>
  rw [e2] at h; simp only [] at h
  cases e3 : be16 gloc 6 with
  | error f => rw [e3] at h; cases h
  | ok numAttrs =>
  rw [e3] at h; simp only [] at h
  split at h
  · cases h
  · rename_i hc
    cases e4 : be32 glat 0 with
    | error f => rw [e4] at h; cases h
    | ok gv =>
    rw [e4] at h; simp only [] at h
    split at h
    · cases h
    · split at h
      · cases e5 : be32 glat 4 with
        | error f => rw [e5] at h; cases h
        | ok fl =>
          rw [e5] at h
          simp only [Except.ok.injEq, Option.some.injEq] at h
          rw [← h]
          simp only []
          omega
      · simp only [Except.ok.injEq, Option.some.injEq] at h
        rw [← h]
        simp only []
        omega

/-- the preloading constructor, having read every glyph, can read every box -/
theorem preloadBoxes_of_preloadGlyphs (T : GlyphTables) (gloc glat : List Nat) {gv : Nat} (hv : be32 glat 0 = .ok gv) (h3 : gv ≥ 0x00030000) :
    ∀ (n gid0 : Nat) (gs : List (Sparse × Nat)), gid0 + n ≤ T.numGlyphsAttr → preloadGlyphs T gloc glat n gid0 = .ok (some gs) →
      ∃ bs, preloadBoxes T gloc glat n gid0 = .ok (some bs) := by
  intro n
  induction n with
  | zero => intro gid0 gs _ _; exact ⟨[], rfl⟩
  | succ n ih =>
    intro gid0 gs hb h
    unfold preloadGlyphs at h
    simp only [bind, Except.bind, pure, Except.pure] at h
    cases h1 : readGlyph T gloc glat gid0 with
    | error e => rw [h1] at h; cases h
    | ok r1 =>
      rw [h1] at h
      cases r1 with
      | none => cases h
      | some g =>
        simp only [] at h
        cases h2 : preloadGlyphs T gloc glat n (gid0 + 1) with
        | error e => rw [h2] at h; cases h
        | ok r2 =>
          rw [h2] at h
          cases r2 with
          | none => cases h
          | some rest =>
            obtain ⟨bs, hbs⟩ := ih (gid0 + 1) rest (by omega) h2
            have hg : readGlyphAttrs T gloc glat gid0 = .ok (some g) := by
              unfold readGlyph at h1
              rw [if_pos (by omega)] at h1
              exact h1
            obtain ⟨b, hb'⟩ := readBox_of_readGlyph T gloc glat gid0 (by omega) hv h3 hg
            unfold preloadBoxes
            simp only [bind, Except.bind, pure, Except.pure, hb', hbs]
            exact ⟨_, rfl⟩

/-- **`gr_face_preloadGlyphs` changes no glyph**: on tables from which the preloading constructor can build a cache, and whose boxes (if
the Glat table carries boxes) can all be read, the cache that loads on demand answers every sequence of glyph requests exactly as the
preloaded one does -/
theorem glyphCache_preload_eq_lazy (gloc glat : List Nat) (ngg : Nat) (gids : List Nat) (cp : GlyphCacheM)
    (hp : glyphCache gloc glat ngg true gids = .ok (some cp))
    (hwf : ∀ T, readGlyphTables gloc glat ngg = .ok (some T) → T.hasBoxes = true →
      ∃ bs, preloadBoxes T gloc glat (max ngg T.numGlyphsAttr) 0 = .ok (some bs)) :
    glyphCache gloc glat ngg false gids = .ok (some cp) := by
  unfold glyphCache at hp ⊢
  simp only [bind, Except.bind, pure, Except.pure] at hp ⊢
  cases ht : readGlyphTables gloc glat ngg with
  | error e => rw [ht] at hp; cases hp
  | ok rt =>
    rw [ht] at hp
    cases rt with
    | none => cases hp
    | some T =>
      simp only [] at hp ⊢
      by_cases h0 : max ngg T.numGlyphsAttr = 0
      · rw [if_pos h0] at hp; cases hp
      rw [if_neg h0] at hp ⊢
      simp only [if_true, Bool.false_eq_true, if_false] at hp ⊢
      cases hg : preloadGlyphs T gloc glat (max ngg T.numGlyphsAttr) 0 with
      | error e => rw [hg] at hp; cases hp
      | ok rg =>
        rw [hg] at hp
        cases rg with
        | none => cases hp
        | some gs =>
          simp only [] at hp
          obtain ⟨gl, gk⟩ := preloadGlyphs_get T gloc glat _ 0 gs hg
          obtain ⟨g0, _, e0⟩ := gk 0 (by omega)
          rw [Nat.zero_add] at e0
          rw [e0]
          simp only []
          cases hbx : T.hasBoxes with
          | false =>
            rw [hbx] at hp
            simp only [Bool.false_eq_true, if_false] at hp
            rw [askGlyphs_eq_preloaded T gloc glat _ gs [] hg (fun h => by rw [hbx] at h; cases h) gids]
            simp only [hbx, Bool.false_eq_true, if_false]
            simp only [Except.ok.injEq, Option.some.injEq] at hp
            rw [← hp]
            simp only [Except.ok.injEq, Option.some.injEq, GlyphCacheM.mk.injEq, true_and]
            apply List.map_congr_left
            intro gid _
            cases gs[gid]? <;> rfl
          | true =>
            obtain ⟨bs, hbs⟩ := hwf T ht hbx
            rw [hbx] at hp
            simp only [if_true] at hp
            rw [hbs] at hp
            simp only [] at hp
            rw [askGlyphs_eq_preloaded T gloc glat _ gs bs hg (fun _ => hbs) gids]
            simp only [hbx, if_true]
            simp only [Except.ok.injEq, Option.some.injEq] at hp
            rw [← hp]
            simp only [Except.ok.injEq, Option.some.injEq, GlyphCacheM.mk.injEq, true_and]
            apply List.map_congr_left
            intro gid _
            cases gs[gid]? <;> rfl

/-- **`gr_face_preloadGlyphs` changes no glyph and no box, on any font**: whenever the preloading constructor builds a cache at all, the
cache that loads on demand answers every sequence of glyph requests exactly as the preloaded one does – the hypothesis "every box can be
read" of `glyphCache_preload_eq_lazy` follows from the glyphs having been read -/
theorem glyphCache_preload_eq_lazy' (gloc glat : List Nat) (ngg : Nat) (gids : List Nat) (cp : GlyphCacheM)
    (hp : glyphCache gloc glat ngg true gids = .ok (some cp)) : glyphCache gloc glat ngg false gids = .ok (some cp) := by
  refine glyphCache_preload_eq_lazy gloc glat ngg gids cp hp (fun T ht hbx => ?_)
  obtain ⟨gv, hv, h3⟩ := readGlyphTables_boxes ht hbx
  have hcnt := readGlyphTables_count ht
  -- the preloading constructor read every glyph
  unfold glyphCache at hp
  simp only [bind, Except.bind, pure, Except.pure, ht] at hp
  by_cases h0 : max ngg T.numGlyphsAttr = 0
  · rw [if_pos h0] at hp; cases hp
  rw [if_neg h0] at hp
  simp only [if_true] at hp
  cases hg : preloadGlyphs T gloc glat (max ngg T.numGlyphsAttr) 0 with
  | error e => rw [hg] at hp; cases hp
  | ok rg =>
    rw [hg] at hp
    cases rg with
    | none => cases hp
    | some gs => exact preloadBoxes_of_preloadGlyphs T gloc glat hv h3 _ 0 gs (by omega) hg

end GrVerif.Loader

import GrVerif.Model.PassLoad
set_option linter.unusedVariables false
set_option linter.unusedSimpArgs false
namespace GrVerif.Loader
open GrVerif.Gen.Err

theorem byteAt_ok (b : List Nat) (i : Nat) (h : i < b.length) : byteAt b i = .ok b[i] := by
  unfold byteAt; rw [List.getElem?_eq_getElem h]

theorem be16_ok (b : List Nat) (i : Nat) (h : i + 2 ≤ b.length) : ∃ v, be16 b i = .ok v := by
  unfold be16
  rw [List.getElem?_eq_getElem (show i < b.length by omega), List.getElem?_eq_getElem (show i + 1 < b.length by omega)]
  exact ⟨_, rfl⟩

theorem be32_ok (b : List Nat) (i : Nat) (h : i + 4 ≤ b.length) : ∃ v, be32 b i = .ok v := by
  unfold be32
  rw [List.getElem?_eq_getElem (show i < b.length by omega), List.getElem?_eq_getElem (show i + 1 < b.length by omega),
    List.getElem?_eq_getElem (show i + 2 < b.length by omega), List.getElem?_eq_getElem (show i + 3 < b.length by omega)]
  exact ⟨_, rfl⟩

/-- what the header tests establish -/
structure HdrOK (b : List Nat) (h : PassHdr) : Prop where
  len : passHeaderSize ≤ b.length
  fsm : h.numTransition ≤ h.numStates ∧ h.numSuccess ≤ h.numStates ∧ h.numStates ≤ h.numSuccess + h.numTransition ∧ h.numColumns ≤ maxColumns
  loop : 1 ≤ h.maxLoop

theorem readHdr_total (b : List Nat) (collOK : Bool) : ∃ r, readHdr b collOK = .ok r ∧ ∀ h, r = .ok h → HdrOK b h := by
  unfold readHdr
  simp only [bind, Except.bind, pure, Except.pure]
  have hH : passHeaderSize = 40 := rfl
  have bail : ∀ (e : Nat), ∃ r, (Except.ok (Except.error e) : Except Fault (Except Nat PassHdr)) = .ok r ∧ ∀ h, r = .ok h → HdrOK b h :=
    fun e => ⟨_, rfl, fun L h => by cases h⟩
  by_cases h0 : b.length < passHeaderSize
  · rw [if_pos h0]; exact bail _
  rw [if_neg h0]
  have hlen : 40 ≤ b.length := by rw [hH] at h0; omega
  rw [byteAt_ok b 0 (by omega)]
  simp only []
  by_cases h1 : b[0] % 32 ≠ 0 ∧ (!collOK) = true
  · rw [if_pos h1]; exact bail _
  rw [if_neg h1]
  rw [byteAt_ok b 1 (by omega)]
  simp only []
  obtain ⟨numRules, e1⟩ := be16_ok b 4 (by omega)
  rw [e1]; simp only []
  by_cases h2 : numRules = 0 ∧ b[0] % 8 = 0
  · rw [if_pos h2]; exact bail _
  rw [if_neg h2]
  obtain ⟨pc, e2⟩ := be32_ok b 8 (by omega)
  obtain ⟨rc, e3⟩ := be32_ok b 12 (by omega)
  obtain ⟨ac, e4⟩ := be32_ok b 16 (by omega)
  obtain ⟨ns, e5⟩ := be16_ok b 24 (by omega)
  obtain ⟨nt, e6⟩ := be16_ok b 26 (by omega)
  obtain ⟨nsu, e7⟩ := be16_ok b 28 (by omega)
  obtain ⟨nc, e8⟩ := be16_ok b 30 (by omega)
  obtain ⟨nr, e9⟩ := be16_ok b 32 (by omega)
  rw [e2, e3, e4, e5, e6, e7, e8, e9]; simp only []
  by_cases h3 : nt > ns
  · rw [if_pos h3]; exact bail _
  rw [if_neg h3]
  by_cases h4 : nsu > ns
  · rw [if_pos h4]; exact bail _
  rw [if_neg h4]
  by_cases h5 : nsu + nt < ns
  · rw [if_pos h5]; exact bail _
  rw [if_neg h5]
  by_cases h6 : numRules ≠ 0 ∧ nr = 0
  · rw [if_pos h6]; exact bail _
  rw [if_neg h6]
  by_cases h7 : nc > maxColumns
  · rw [if_pos h7]; exact bail _
  rw [if_neg h7]
  refine ⟨_, rfl, fun h hh => ?_⟩
  simp only [Except.ok.injEq] at hh
  subst hh
  refine ⟨by rw [hH]; exact hlen, ⟨by simp only []; omega, by simp only []; omega, by simp only []; omega, by simp only []; omega⟩, ?_⟩
  simp only []
  split <;> omega

/-- every array the walk names lies inside the pass -/
structure ArraysOK (b : List Nat) (h : PassHdr) (a : PassArrays) : Prop where
  ranges : a.ranges + h.numRanges * 6 ≤ b.length
  oRuleMap : a.oRuleMap + (h.numSuccess + 1) * 2 ≤ b.length
  ruleMap : a.ruleMap + a.numEntries * 2 ≤ b.length
  pre : a.minPre ≤ a.maxPre
  starts : a.startStates + (a.maxPre - a.minPre + 1) * 2 ≤ b.length
  sortKeys : a.sortKeys + h.numRules * 2 ≤ b.length
  precontext : a.precontext + h.numRules ≤ b.length
  oConstraint : a.oConstraint + (h.numRules + 1) * 2 ≤ b.length
  oActions : a.oActions + (h.numRules + 1) * 2 = a.states
  states : a.states + h.numTransition * h.numColumns * 2 < b.length
  order : a.ranges = passHeaderSize ∧ a.ranges + h.numRanges * 6 = a.oRuleMap ∧ a.oRuleMap + (h.numSuccess + 1) * 2 = a.ruleMap ∧
    a.precontext + h.numRules + 3 = a.oConstraint ∧ a.oConstraint + (h.numRules + 1) * 2 = a.oActions ∧ a.sortKeys + h.numRules * 2 = a.precontext
  entries : be16 b (a.oRuleMap + h.numSuccess * 2) = .ok a.numEntries

theorem readArrays_total (b : List Nat) (h : PassHdr) (hl : passHeaderSize ≤ b.length) :
    ∃ r, readArrays b h = .ok r ∧ ∀ a, r = .ok a → ArraysOK b h a := by
  unfold readArrays
  simp only [bind, Except.bind, pure, Except.pure]
  have hH : passHeaderSize = 40 := rfl
  rw [hH] at hl ⊢
  obtain ⟨flags, maxLoop, numRules, pc, rc, ac, ns, nt, nsu, nc, nr⟩ := h
  simp only []
  have bail : ∀ (e : Nat), ∃ r, (Except.ok (Except.error e) : Except Fault (Except Nat PassArrays)) = .ok r ∧
      ∀ a, r = .ok a → ArraysOK b ⟨flags, maxLoop, numRules, pc, rc, ac, ns, nt, nsu, nc, nr⟩ a :=
    fun e => ⟨_, rfl, fun L h => by cases h⟩
  by_cases h8 : 40 + nr * 6 - 2 > b.length
  · rw [if_pos h8]; exact bail _
  rw [if_neg h8]
  obtain ⟨lastGlyph, e10⟩ := be16_ok b (40 + nr * 6 - 4) (by omega)
  rw [e10]; simp only []
  by_cases h9 : 40 + nr * 6 + nsu * 2 > b.length ∨ 40 + nr * 6 + (nsu + 1) * 2 > b.length
  · rw [if_pos h9]; exact bail _
  rw [if_neg h9]
  obtain ⟨numEntries, e11⟩ := be16_ok b (40 + nr * 6 + nsu * 2) (by omega)
  rw [e11]; simp only []
  by_cases h10 : 40 + nr * 6 + (nsu + 1) * 2 + numEntries * 2 + 2 > b.length
  · rw [if_pos h10]; exact bail _
  rw [if_neg h10]
  rw [byteAt_ok b (40 + nr * 6 + (nsu + 1) * 2 + numEntries * 2) (by omega), byteAt_ok b (40 + nr * 6 + (nsu + 1) * 2 + numEntries * 2 + 1) (by omega)]
  simp only []
  generalize hmin : b[40 + nr * 6 + (nsu + 1) * 2 + numEntries * 2]'(by omega) = minPre
  generalize hmax : b[40 + nr * 6 + (nsu + 1) * 2 + numEntries * 2 + 1]'(by omega) = maxPre
  by_cases h11 : minPre > maxPre
  · rw [if_pos h11]; exact bail _
  rw [if_neg h11]
  by_cases h12 : 40 + nr * 6 + (nsu + 1) * 2 + numEntries * 2 + 2 + (maxPre - minPre + 1) * 2 + numRules * 2 + numRules + 3 > b.length
  · rw [if_pos h12]; exact bail _
  rw [if_neg h12]
  rw [byteAt_ok b (40 + nr * 6 + (nsu + 1) * 2 + numEntries * 2 + 2 + (maxPre - minPre + 1) * 2 + numRules * 2 + numRules) (by omega)]
  simp only []
  obtain ⟨pcLen, e12⟩ := be16_ok b (40 + nr * 6 + (nsu + 1) * 2 + numEntries * 2 + 2 + (maxPre - minPre + 1) * 2 + numRules * 2 + numRules + 1) (by omega)
  rw [e12]; simp only []
  have hmul : 2 * nt * nc = nt * nc * 2 := by rw [Nat.mul_assoc, Nat.mul_comm]
  by_cases h13 : 40 + nr * 6 + (nsu + 1) * 2 + numEntries * 2 + 2 + (maxPre - minPre + 1) * 2 + numRules * 2 + numRules + 3 + (numRules + 1) * 2 + (numRules + 1) * 2 ≥ b.length ∨
      2 * nt * nc ≥ b.length - (40 + nr * 6 + (nsu + 1) * 2 + numEntries * 2 + 2 + (maxPre - minPre + 1) * 2 + numRules * 2 + numRules + 3 + (numRules + 1) * 2 + (numRules + 1) * 2)
  · rw [if_pos h13]; exact bail _
  rw [if_neg h13]
  refine ⟨_, rfl, fun a ha => ?_⟩
  simp only [Except.ok.injEq] at ha
  subst ha
  refine ⟨?_, ?_, ?_, ?_, ?_, ?_, ?_, ?_, ?_, ?_, ⟨?_, ?_, ?_, ?_, ?_, ?_⟩, e11⟩ <;> simp only [] <;> omega

/-- the code blocks follow the transition table and end inside the pass -/
structure CodesOK (b : List Nat) (h : PassHdr) (a : PassArrays) (c : PassCodes) : Prop where
  pcCode : c.pcCode = a.states + h.numTransition * h.numColumns * 2 + 1
  rcCode : c.rcCode = c.pcCode + a.pcLen
  aCode : c.aCode = c.rcCode + c.rcLen
  endp : c.endp = c.aCode + c.acLen ∧ c.endp ≤ b.length

theorem readCodes_total (b : List Nat) (base : Nat) (h : PassHdr) (a : PassArrays) (ha : ArraysOK b h a) :
    ∃ r, readCodes b base h a = .ok r ∧ ∀ c, r = .ok c → CodesOK b h a c := by
  unfold readCodes
  simp only [bind, Except.bind, pure, Except.pure]
  have bail : ∀ (e : Nat), ∃ r, (Except.ok (Except.error e) : Except Fault (Except Nat PassCodes)) = .ok r ∧ ∀ c, r = .ok c → CodesOK b h a c :=
    fun e => ⟨_, rfl, fun L h => by cases h⟩
  by_cases h14 : ((a.states + h.numTransition * h.numColumns * 2 + 1 : Nat) : Int) ≠ (h.pc : Int) - base
  · rw [if_pos h14]; exact bail _
  rw [if_neg h14]
  by_cases h15 : ((a.states + h.numTransition * h.numColumns * 2 + 1 + a.pcLen : Nat) : Int) ≠ (h.rc : Int) - base
  · rw [if_pos h15]; exact bail _
  rw [if_neg h15]
  by_cases h16 : (h.rc : Int) - (h.pc : Int) ≠ a.pcLen
  · rw [if_pos h16]; exact bail _
  rw [if_neg h16]
  have h1 := ha.oConstraint
  have h2 := ha.oActions
  have h3 := ha.states
  obtain ⟨rcLen, e13⟩ := be16_ok b (a.oConstraint + h.numRules * 2) (by omega)
  rw [e13]; simp only []
  by_cases h17 : ((a.states + h.numTransition * h.numColumns * 2 + 1 + a.pcLen + rcLen : Nat) : Int) ≠ (h.ac : Int) - base
  · rw [if_pos h17]; exact bail _
  rw [if_neg h17]
  obtain ⟨acLen, e14⟩ := be16_ok b (a.oActions + h.numRules * 2) (by omega)
  rw [e14]; simp only []
  by_cases h18 : a.states + h.numTransition * h.numColumns * 2 + 1 + a.pcLen + rcLen + acLen > b.length
  · rw [if_pos h18]; exact bail _
  rw [if_neg h18]
  refine ⟨_, rfl, fun c hc => ?_⟩
  simp only [Except.ok.injEq] at hc
  subst hc
  exact ⟨rfl, rfl, rfl, rfl, by simp only []; omega⟩

/-- what the rest of `Pass::readPass` (and `readRanges`, `readRules`, `readStates`, the code loader) may rely on -/
structure LayoutOK (b : List Nat) (L : PassLayout) : Prop where
  hdr : HdrOK b L.hdr
  arr : ArraysOK b L.hdr L.arr
  codes : CodesOK b L.hdr L.arr L.codes

/-- **`Pass::readPass`, layout part: total and in bounds for every byte string** – whatever the bytes of the pass, the
sub-table base and the font's collision set-up are, no read goes outside the pass, and an accepted layout places every array
and the three code blocks inside it -/
theorem readPassLayout_total (b : List Nat) (base : Nat) (collOK : Bool) :
    ∃ r, readPassLayout b base collOK = .ok r ∧ ∀ L, r = .ok L → LayoutOK b L := by
  unfold readPassLayout
  obtain ⟨r1, e1, p1⟩ := readHdr_total b collOK
  rw [e1]
  cases r1 with
  | error e => exact ⟨_, rfl, fun L h => by cases h⟩
  | ok h =>
    simp only []
    have hh := p1 h rfl
    obtain ⟨r2, e2, p2⟩ := readArrays_total b h hh.len
    rw [e2]
    cases r2 with
    | error e => exact ⟨_, rfl, fun L h => by cases h⟩
    | ok a =>
      simp only []
      have ha := p2 a rfl
      obtain ⟨r3, e3, p3⟩ := readCodes_total b base h a ha
      rw [e3]
      cases r3 with
      | error e => exact ⟨_, rfl, fun L h => by cases h⟩
      | ok c =>
        simp only []
        refine ⟨_, rfl, fun L hL => ?_⟩
        simp only [Except.ok.injEq] at hL
        subst hL
        exact ⟨hh, ha, p3 c rfl⟩

/-! ## `readStates`, the rule map -/

theorem readU16s_ok (b : List Nat) : ∀ (n off : Nat), off + 2 * n ≤ b.length →
    ∃ vs, readU16s b off n = .ok vs ∧ vs.length = n ∧ ∀ k, k < n → be16 b (off + 2 * k) = .ok (vs.getD k 0) := by
  intro n
  induction n with
  | zero => intro off _; exact ⟨[], rfl, rfl, fun k hk => by omega⟩
  | succ n ih =>
    intro off h
    obtain ⟨v, hv⟩ := be16_ok b off (by omega)
    obtain ⟨vs, hvs, hl, hk⟩ := ih (off + 2) (by omega)
    refine ⟨v :: vs, ?_, by simp [hl], fun k hk' => ?_⟩
    · unfold readU16s
      simp only [bind, Except.bind, pure, Except.pure, hv, hvs]
    · cases k with
      | zero => simpa using hv
      | succ k =>
        have := hk k (by omega)
        have e : off + 2 * (k + 1) = off + 2 + 2 * k := by omega
        rw [e, this]
        simp

/-- what `runFSM` relies on at run time -/
structure TablesOK (L : PassLayout) (T : PassTables) : Prop where
  starts : T.starts.length = L.arr.maxPre - L.arr.minPre + 1 ∧ ∀ s ∈ T.starts, s < L.hdr.numStates
  trans : T.trans.length = L.hdr.numTransition * L.hdr.numColumns ∧ ∀ t ∈ T.trans, t < L.hdr.numStates
  rules : T.ruleRange.length = L.hdr.numSuccess ∧ ∀ r ∈ T.ruleRange, r.1 ≤ r.2 ∧ r.2 ≤ L.arr.numEntries

theorem not_any_ge {l : List Nat} {n : Nat} (h : ¬ (l.any (· ≥ n)) = true) : ∀ x ∈ l, x < n := by
  intro x hx
  apply Classical.byContradiction
  intro hn
  apply h
  exact List.any_eq_true.mpr ⟨x, hx, by simpa using Nat.le_of_not_lt hn⟩

/-- **`Pass::readStates`, for every accepted layout**: all reads are inside the pass; and when the tables are accepted, every
start state and every transition is a state number, and every success state's rule range lies inside the rule map -/
theorem readStates_total (b : List Nat) (L : PassLayout) (h : LayoutOK b L) :
    ∃ r, readStates b L = .ok r ∧ ∀ T, r = .ok T → TablesOK L T := by
  unfold readStates
  simp only [bind, Except.bind, pure, Except.pure]
  have a := h.arr
  have bail : ∀ (e : Nat), ∃ r, (Except.ok (Except.error e) : Except Fault (Except Nat PassTables)) = .ok r ∧ ∀ T, r = .ok T → TablesOK L T :=
    fun e => ⟨_, rfl, fun L h => by cases h⟩
  obtain ⟨starts, e1, l1, _⟩ := readU16s_ok b (L.arr.maxPre - L.arr.minPre + 1) L.arr.startStates (by have := a.starts; omega)
  rw [e1]; simp only []
  by_cases c1 : (starts.any (· ≥ L.hdr.numStates)) = true
  · rw [if_pos c1]; exact bail _
  rw [if_neg c1]
  obtain ⟨trans, e2, l2, _⟩ := readU16s_ok b (L.hdr.numTransition * L.hdr.numColumns) L.arr.states (by have := a.states; omega)
  rw [e2]; simp only []
  by_cases c2 : (trans.any (· ≥ L.hdr.numStates)) = true
  · rw [if_pos c2]; exact bail _
  rw [if_neg c2]
  obtain ⟨offs, e3, l3, k3⟩ := readU16s_ok b (L.hdr.numSuccess + 1) L.arr.oRuleMap (by have := a.oRuleMap; omega)
  rw [e3]; simp only []
  have hlast : offs.getLastD 0 = L.arr.numEntries := by
    have hk := k3 L.hdr.numSuccess (by omega)
    have e : L.arr.oRuleMap + 2 * L.hdr.numSuccess = L.arr.oRuleMap + L.hdr.numSuccess * 2 := by omega
    rw [e, a.entries] at hk
    have : offs.getD L.hdr.numSuccess 0 = L.arr.numEntries := by
      simp only [Except.ok.injEq] at hk; exact hk.symm
    rw [← this]
    rw [List.getLastD_eq_getLast?, List.getLast?_eq_getElem?, l3]
    simp [List.getD_eq_getElem?_getD]
  rw [hlast]
  by_cases c3 : ((offs.zip (offs.drop 1)).any fun r => decide (r.1 ≥ L.arr.numEntries ∨ r.2 > L.arr.numEntries ∨ r.1 > r.2)) = true
  · rw [if_pos c3]; exact bail _
  rw [if_neg c3]
  refine ⟨_, rfl, fun T hT => ?_⟩
  simp only [Except.ok.injEq] at hT
  subst hT
  refine ⟨⟨l1, not_any_ge c1⟩, ⟨l2, not_any_ge c2⟩, ⟨by simp [l3], fun r hr => ?_⟩⟩
  apply Classical.byContradiction
  intro hn
  apply c3
  refine List.any_eq_true.mpr ⟨r, hr, ?_⟩
  simp only [decide_eq_true_eq]
  omega

theorem readRuleMap_total (b : List Nat) (L : PassLayout) (h : LayoutOK b L) :
    ∃ r, readRuleMap b L = .ok r ∧ ∀ es, r = .ok es → es.length = L.arr.numEntries ∧ ∀ e ∈ es, e < L.hdr.numRules := by
  unfold readRuleMap
  simp only [bind, Except.bind, pure, Except.pure]
  obtain ⟨es, e1, l1, _⟩ := readU16s_ok b L.arr.numEntries L.arr.ruleMap (by have := h.arr.ruleMap; omega)
  rw [e1]; simp only []
  by_cases c1 : (es.any (· ≥ L.hdr.numRules)) = true
  · rw [if_pos c1]; exact ⟨_, rfl, fun _ hh => by cases hh⟩
  rw [if_neg c1]
  refine ⟨_, rfl, fun es' hh => ?_⟩
  simp only [Except.ok.injEq] at hh
  subst hh
  exact ⟨l1, not_any_ge c1⟩

end GrVerif.Loader

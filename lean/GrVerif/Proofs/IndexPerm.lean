import GrVerif.Proofs.LoopBound2
import GrVerif.Proofs.PassAssoc
set_option linter.unusedVariables false
set_option linter.unusedSimpArgs false
/-!
# The slot indices are a permutation of 0 … n−1 (C03)

`Segment::associateChars` numbers the slots of the stream 0, 1, …, n−1.  Afterwards only positioning passes run; the loader
refuses `insert` and `delete_` there, no other opcode writes `m_index` (since the repair of `put_copy`), the garbage
collection only frees temporary copies, and reversals only relink the stream.  Hence in the segment that is returned the
`index` fields of the stream's slots are 0 … n−1 in some order.

The proof follows the stream invariant once more, this time for code without the opcodes 31 (`insert`) and 32 (`delete_`):
the stream list stays *the same list* and the `index` field of each of its slots stays what it was.
-/
namespace GrVerif.Action
open GrVerif.Vm GrVerif.Seg GrVerif.Gen.Vm

/-- code without `insert` and `delete_` -/
def NoID (is : List Instr) : Prop := ∀ i ∈ is, i.1 ≠ 31 ∧ i.1 ≠ 32

/-- `OpsPreserve` without the two opcodes that change the stream -/
structure OpsPreserve8 (P : Ctx → Prop) : Prop where
  next : ∀ c, P c → OutcomeP P (opNext c)
  putCopy : ∀ c r, P c → OutcomeP P (opPutCopy c r)
  assoc : ∀ c rs, P c → OutcomeP P (opAssoc c rs)
  tempCopy : ∀ c, P c → OutcomeP P (opTempCopy c)
  attrSet : ∀ c a b v, P c → OutcomeP P (opAttrSet c a b v)
  putGlyph : ∀ c k, P c → OutcomeP P (opPutGlyph c k)
  putSubs : ∀ c r i o, P c → OutcomeP P (opPutSubs c r i o)
  slotat : ∀ c x, P c → P (slotat c x).2

theorem stepInstr_preserves8 (P : Ctx → Prop) (H : OpsPreserve8 P) (s : St) (i : Instr) (hi : i.1 ≠ 31 ∧ i.1 ≠ 32) (h : P s.ctx) :
    StepP P (stepInstr s i) := by
  obtain ⟨opc, ps⟩ := i
  have wc : ∀ (o : Outcome) (d : Nat), OutcomeP P o → StepP P (withCtx s.vm o d) := by
    intro o d ho
    unfold withCtx
    cases o with
    | cont c => exact ho
    | died c => simp only; split <;> first | exact ho | trivial
    | fault w => trivial
  unfold stepInstr
  simp only
  split
  · exact wc _ _ (H.next _ h)
  · exact wc _ _ (H.next _ h)
  · exact absurd rfl hi.1
  · exact absurd rfl hi.2
  · exact wc _ _ (H.putCopy _ _ h)
  · exact wc _ _ (H.assoc _ _ h)
  · exact wc _ _ (H.tempCopy _ h)
  · exact wc _ _ (H.putGlyph _ _ h)
  · exact wc _ _ (H.putSubs _ _ _ _ h)
  · have hs := H.slotat s.ctx (s8 (ps.getD 1 0)) h
    split
    · split
      · exact hs
      · trivial
    · exact hs
  · have hs := H.slotat s.ctx (s8 (ps.getD 2 0)) h
    split
    · split
      · exact hs
      · trivial
    · exact hs
  · have hs := H.slotat s.ctx (s8 (ps.getD 1 0)) h
    split
    · split
      · exact hs
      · trivial
    · exact hs
  · split
    · have := H.attrSet s.ctx (ps.getD 0 0) 0 (i16 ‹Int›) h
      split <;> rename_i heq <;> rw [heq] at this <;> first | exact this | trivial
    · trivial
  · split
    · have := H.attrSet s.ctx (ps.getD 0 0) 0 (i16 (i32 (‹Int› + curAttr s.ctx (ps.getD 0 0)))) h
      split <;> rename_i heq <;> rw [heq] at this <;> first | exact this | trivial
    · trivial
  · split
    · have := H.attrSet s.ctx (ps.getD 0 0) 0 (i16 (i32 (curAttr s.ctx (ps.getD 0 0) - ‹Int›))) h
      split <;> rename_i heq <;> rw [heq] at this <;> first | exact this | trivial
    · trivial
  · split
    · have := H.attrSet s.ctx (ps.getD 0 0) ((if ps.getD 0 0 = 2 then s.ctx.map - 1 else 0 : Int) % 256).toNat (i16 (i32 (‹Int› + (if ps.getD 0 0 = 2 then s.ctx.map - 1 else 0)))) h
      split <;> rename_i heq <;> rw [heq] at this <;> first | exact this | trivial
    · trivial
  · exact wc _ _ (H.putGlyph _ _ h)
  · exact wc _ _ (H.putSubs _ _ _ _ h)
  · split
    · trivial
    · split <;> first | exact h | trivial

theorem runLoop_preserves8 (P : Ctx → Prop) (H : OpsPreserve8 P) : ∀ (is : List Instr) (s : St), NoID is → P s.ctx → EndP P (runLoop is s) := by
  intro is
  induction is with
  | nil => intro s _ h; exact h
  | cons i rest ih =>
    intro s hn h
    unfold runLoop
    have := stepInstr_preserves8 P H s i (hn i List.mem_cons_self) h
    have hn' : NoID rest := fun j hj => hn j (List.mem_cons_of_mem _ hj)
    split
    · rename_i e heq; rw [heq] at this
      cases e with
      | normal s' => exact this
      | fault w => trivial
    · rename_i s' heq; rw [heq] at this
      split
      · exact ih _ hn' this
      · exact this

/-! ## the `index` field of the stream's slots -/

/-- the stream is `l` and the slots of `l` carry the indices `idx` -/
def PIx (l : List Nat) (idx : Nat → Nat) (c : Ctx) : Prop := J c l ∧ ∀ j ∈ l, (c.seg.get j).index = idx j

/-- index of the slots in `X` unchanged -/
def IdxKeep (l : List Nat) (s s' : Seg) : Prop := ∀ j ∈ l, (s'.get j).index = (s.get j).index

theorem IdxKeep.rfl' (l : List Nat) (s : Seg) : IdxKeep l s s := fun _ _ => rfl
theorem IdxKeep.trans {l : List Nat} {a b c : Seg} (h1 : IdxKeep l a b) (h2 : IdxKeep l b c) : IdxKeep l a c :=
  fun j hj => (h2 j hj).trans (h1 j hj)
theorem IdxKeep.ofSameT {l : List Nat} {s s' : Seg} (h : SameT s s') : IdxKeep l s s' := fun j _ => (h.slot j).2.2.2.2.2.2.1
theorem IdxKeep.upd (l : List Nat) (s : Seg) (i : Nat) (f : Slot → Slot) (hf : ∀ a, (f a).index = a.index) : IdxKeep l s (s.upd i f) := by
  intro j _
  rw [get_upd]
  split
  · exact hf _
  · rfl
theorem IdxKeep.updOut (l : List Nat) (s : Seg) (i : Nat) (f : Slot → Slot) (hi : i ∉ l) : IdxKeep l s (s.upd i f) := by
  intro j hj
  rw [get_upd_ne _ _ _ _ (fun hh => hi (by rw [← hh]; exact hj))]

theorem PIx.step {l : List Nat} {idx : Nat → Nat} {c c' : Ctx} (h : PIx l idx c) (hj : J c' l) (hk : IdxKeep l c.seg c'.seg) : PIx l idx c' :=
  ⟨hj, fun j hjl => (hk j hjl).trans (h.2 j hjl)⟩

theorem die_keep (l : List Nat) (c : Ctx) : IdxKeep l c.seg ((c.setIs c.seg.last).setStatus .died_early).seg := IdxKeep.rfl' _ _

theorem copySlot_keep (l : List Nat) (s : Seg) (i rf : Nat) : IdxKeep l s (s.copySlot i rf) := by
  unfold Seg.copySlot
  simp only []
  have h1 : IdxKeep l s (s.upd i fun si => si.copyFrom (s.get rf)) := IdxKeep.upd l s i _ (fun a => rfl)
  split
  · split
    · exact h1.trans (IdxKeep.upd l _ i _ (fun a => rfl))
    · split
      · exact h1.trans (IdxKeep.ofSameT (child_same _ _ _))
      · exact h1.trans ((IdxKeep.ofSameT (child_same _ _ _)).trans (IdxKeep.upd l _ i _ (fun a => rfl)))
  · exact h1

theorem unmark_keep (l : List Nat) (s : Seg) (i : Nat) : IdxKeep l s (s.unmark i) := by
  unfold Seg.unmark; exact IdxKeep.upd l s i _ (fun a => rfl)

theorem putCopy_keep (l : List Nat) (c : Ctx) (r : Int) : OutcomeP (fun c' => IdxKeep l c.seg c'.seg) (opPutCopy c r) := by
  unfold opPutCopy
  split
  · exact IdxKeep.rfl' _ _
  · split
    · exact IdxKeep.rfl' _ _
    · simp only []
      have hs : (slotat c r).2.seg = c.seg := slotat_seg c r
      split
      · split
        · split
          · show IdxKeep l c.seg (slotat c r).2.seg; rw [hs]; exact IdxKeep.rfl' _ _
          · show IdxKeep l c.seg (((slotat c r).2.seg.copySlot _ _).unmark _)
            rw [hs]; exact (copySlot_keep l _ _ _).trans (unmark_keep l _ _)
        · show IdxKeep l c.seg ((slotat c r).2.seg.unmark _); rw [hs]; exact unmark_keep l _ _
      · show IdxKeep l c.seg ((slotat c r).2.seg.unmark _); rw [hs]; exact unmark_keep l _ _

theorem assoc_keep (l : List Nat) (c : Ctx) (rs : List Int) : OutcomeP (fun c' => IdxKeep l c.seg c'.seg) (opAssoc c rs) := by
  unfold opAssoc
  simp only []
  obtain ⟨e1, _, _⟩ := assocFold_same c rs (-1, -1, c) ⟨rfl, rfl, rfl⟩
  split
  · split
    · show IdxKeep l c.seg ((rs.foldl assocStep (-1, -1, c)).2.2.seg.upd _ _)
      rw [e1]; exact IdxKeep.upd l _ _ _ (fun a => rfl)
    · trivial
  · show IdxKeep l c.seg (rs.foldl assocStep (-1, -1, c)).2.2.seg; rw [e1]; exact IdxKeep.rfl' _ _

theorem attrSet_keep (l : List Nat) (c : Ctx) (a b : Nat) (v : Int) : OutcomeP (fun c' => IdxKeep l c.seg c'.seg) (opAttrSet c a b v) := by
  unfold opAttrSet
  split
  · trivial
  · split
    · exact IdxKeep.ofSameT (setAttTo_same _ _ _ _)
    · simp only []
      split <;> first
        | exact IdxKeep.upd l _ _ _ (fun a => rfl)
        | exact IdxKeep.rfl' _ _

theorem putGlyph_keep (l : List Nat) (c : Ctx) (k : Nat) : OutcomeP (fun c' => IdxKeep l c.seg c'.seg) (opPutGlyph c k) := by
  unfold opPutGlyph
  split
  · exact IdxKeep.upd l _ _ _ (fun a => rfl)
  · trivial

theorem putSubs_keep (l : List Nat) (c : Ctx) (r : Int) (i o : Nat) : OutcomeP (fun c' => IdxKeep l c.seg c'.seg) (opPutSubs c r i o) := by
  unfold opPutSubs
  simp only []
  have hs : (slotat c r).2.seg = c.seg := slotat_seg c r
  split
  · split
    · show IdxKeep l c.seg ((slotat c r).2.seg.upd _ _); rw [hs]; exact IdxKeep.upd l _ _ _ (fun a => rfl)
    · trivial
  · show IdxKeep l c.seg (slotat c r).2.seg; rw [hs]; exact IdxKeep.rfl' _ _

theorem next_keep (l : List Nat) (c : Ctx) : OutcomeP (fun c' => IdxKeep l c.seg c'.seg) (opNext c) := by
  unfold opNext
  split
  · exact IdxKeep.rfl' _ _
  · split
    · show IdxKeep l c.seg (c.markHighpassed true).seg; rw [markHighpassed_seg]; exact IdxKeep.rfl' _ _
    · exact IdxKeep.rfl' _ _

/-- `temp_copy` takes a slot that is not in the stream -/
theorem tempCopy_keep {l : List Nat} (c : Ctx) (hj : J c l) : OutcomeP (fun c' => IdxKeep l c.seg c'.seg) (opTempCopy c) := by
  unfold opTempCopy
  split
  · rename_i k seg i heq hisq
    obtain ⟨l1, i1, hkl, hks, hkf, hkp, hkd, hkc, c1⟩ := newSlot_spec hj.linked hj.clean hj.isok heq
    have hns : IdxKeep l c.seg seg := by
      intro j hjl
      unfold Seg.newSlot at heq
      split at heq
      · rename_i f rest hfree
        simp only [Option.some.injEq, Prod.mk.injEq] at heq
        obtain ⟨e1, e2⟩ := heq
        rw [← e2]
        show ((c.seg.upd f fun sl => sl.setNext none).get j).index = _
        rw [get_upd]; split <;> rfl
      · split at heq
        · cases heq
        · simp only [Option.some.injEq, Prod.mk.injEq] at heq
          obtain ⟨e1, e2⟩ := heq
          rw [← e2]
          have hjs : j < c.seg.slots.size := hj.linked.inb j hjl
          unfold Seg.get
          simp [Array.getD_eq_getD_getElem?, Array.getElem?_append_left hjs]
    split
    · show IdxKeep l c.seg ((seg.upd k _))
      exact hns.trans (IdxKeep.updOut l _ k _ hkl)
    · trivial
  · exact IdxKeep.rfl' _ _

theorem OutcomeP.and' {P Q : Ctx → Prop} {o : Outcome} (h1 : OutcomeP P o) (h2 : OutcomeP Q o) : OutcomeP (fun c => P c ∧ Q c) o := by
  cases o with
  | cont c => exact ⟨h1, h2⟩
  | died c => exact ⟨h1, h2⟩
  | fault w => trivial

/-- every opcode other than `insert` and `delete_` keeps the stream list and the indices of its slots -/
theorem ops_PIx (l : List Nat) (idx : Nat → Nat) : OpsPreserve8 (PIx l idx) where
  next c h := ((next_J c h.1).and' (next_keep l c)).mono (fun c' h' => h.step h'.1 h'.2)
  putCopy c r h := ((putCopy_J c r h.1).and' (putCopy_keep l c r)).mono (fun c' h' => h.step h'.1 h'.2)
  assoc c rs h := ((assoc_J c rs h.1).and' (assoc_keep l c rs)).mono (fun c' h' => h.step h'.1 h'.2)
  tempCopy c h := ((tempCopy_J c h.1).and' (tempCopy_keep c h.1)).mono (fun c' h' => h.step h'.1 h'.2)
  attrSet c a b v h := ((attrSet_J c a b v h.1).and' (attrSet_keep l c a b v)).mono (fun c' h' => h.step h'.1 h'.2)
  putGlyph c k h := ((putGlyph_J c k h.1).and' (putGlyph_keep l c k)).mono (fun c' h' => h.step h'.1 h'.2)
  putSubs c r i o h := ((putSubs_J c r i o h.1).and' (putSubs_keep l c r i o)).mono (fun c' h' => h.step h'.1 h'.2)
  slotat c x h := h.step (slotat_J c x h.1) (by rw [slotat_seg]; exact IdxKeep.rfl' _ _)

/-! ## garbage collection, the end of an action -/

theorem freeSlot_keep (l : List Nat) (s : Seg) (a : Nat) (ha : a ∉ l) : IdxKeep l s (s.freeSlot a) := by
  unfold Seg.freeSlot
  simp only []
  have h1 : IdxKeep l s (s.dropEnds a) := by
    unfold Seg.dropEnds
    simp only []
    intro j _
    split <;> split <;> rfl
  have h2 : IdxKeep l (s.dropEnds a) ((s.dropEnds a).unchild a) := by
    unfold Seg.unchild
    split
    · exact IdxKeep.ofSameT (removeChild_same _ _ _)
    · exact IdxKeep.rfl' _ _
  have h3 : IdxKeep l ((s.dropEnds a).unchild a) (detachChildren ((s.dropEnds a).unchild a) a (((s.dropEnds a).unchild a).slots.size + 1)) :=
    IdxKeep.ofSameT (detachChildren_same _ _ _)
  refine (h1.trans (h2.trans h3)).trans ?_
  unfold Seg.recycle
  intro j hj
  show ((Seg.upd _ a _).get j).index = _
  rw [get_upd_ne _ _ _ _ (fun hh => ha (by rw [← hh]; exact hj))]

theorem gcStep_keep (acc : Ctx × Option Nat) (k : Nat) {l : List Nat} (h : JO acc.1 l acc.2) : IdxKeep l acc.1.seg (gcStep acc k).1.seg := by
  unfold gcStep
  split
  · simp only []
    split
    · rename_i sl hsl hfl
      have hf : (acc.1.seg.get sl).deleted = true ∨ (acc.1.seg.get sl).copied = true := by simpa using hfl
      have hout : sl ∉ l := fun hh => by
        have := h.clean.live sl hh
        rcases hf with hf | hf
        · rw [this.1] at hf; cases hf
        · rw [this.2] at hf; cases hf
      exact freeSlot_keep l _ sl hout
    · exact IdxKeep.rfl' _ _
  · exact IdxKeep.rfl' _ _

theorem gc_keep (c : Ctx) (a : Option Nat) {l : List Nat} (h : JO c l a) : IdxKeep l c.seg (collectGarbage c a).1.seg := by
  rw [collectGarbage_fst]; unfold gcCells
  generalize (List.range (c.size - 1)) = ks
  have : ∀ (ks : List Nat) (acc : Ctx × Option Nat), JO acc.1 l acc.2 → IdxKeep l acc.1.seg (ks.foldl gcStep acc).1.seg := by
    intro ks
    induction ks with
    | nil => intro acc _; exact IdxKeep.rfl' _ _
    | cons k rest ih =>
      intro acc hj
      exact (gcStep_keep acc k hj).trans (ih (gcStep acc k) (gcStep_JO acc k hj))
  exact this ks (c, a) h

theorem finishAction_keep (s : St) (dl : Bool) {l : List Nat} (h : J s.ctx l)
    {r : Int} {st : Status} {so : Option Nat} {c : Ctx} (e : finishAction s dl = .ok (r, st, so, c)) : IdxKeep l s.ctx.seg c.seg := by
  unfold finishAction at e
  simp only [] at e
  split at e
  · cases e
  · rename_i hb
    have hb' : 0 ≤ s.ctx.map ∧ s.ctx.map.toNat < s.ctx.smap.size := by
      apply Classical.byContradiction; intro hn; exact hb hn
    have hrd := storeIs_read s.ctx hb'
    have hbase : JO s.ctx.storeIs l (s.ctx.storeIs.smap.getD s.ctx.storeIs.map.toNat none) := by
      rw [hrd]; exact JO.mk' h.linked h.clean h.isok h.hw h.alloc
    split at e
    · cases e
    · split at e
      · cases e; exact IdxKeep.rfl' _ _
      · split at e
        · cases e; exact gc_keep _ _ hbase
        · cases e; exact IdxKeep.rfl' _ _

/-- **a rule action without `insert` and `delete_`**: the stream is the same list afterwards, and its slots have the indices
they had -/
theorem doAction_same {is : List Instr} (hn : NoID is) {dl : Bool} {mr : Nat} {data : List Nat} {ctx : Ctx} {l : List Nat}
    (hl : Linked ctx.seg l) (hc : Clean ctx.seg l) (hh : HwOK ctx.highwater l)
    (hcell : IsOK ctx.seg l (ctx.smap.getD ((ctx.context : Int) + 1).toNat none)) (ha : Alloc ctx.seg l)
    {r : Int} {st : Status} {so : Option Nat} {c : Ctx}
    (e : doAction is dl mr data ctx = .ok (r, st, so, c)) : JO c l so ∧ IdxKeep l ctx.seg c.seg := by
  unfold doAction at e
  simp only [] at e
  split at e
  · cases e; exact ⟨JO.mk' hl hc (.inl rfl) (fun x hx => by cases hx) ha, IdxKeep.rfl' _ _⟩
  · have h0 : PIx l (fun j => (ctx.seg.get j).index) (enterCtx (startCtx ctx)) := ⟨⟨hl, hc, hcell, hh, ha⟩, fun _ _ => rfl⟩
    have hr := runLoop_preserves8 _ (ops_PIx l _) is { vm := initVm data, ctx := enterCtx (startCtx ctx) } hn h0
    split at e
    · cases e
    · rename_i s heq
      rw [heq] at hr
      obtain ⟨hj, hidx⟩ := hr
      refine ⟨finishAction_JO s dl hj e, fun j hjl => ?_⟩
      rw [finishAction_keep s dl hj e j hjl]
      exact hidx j hjl

end GrVerif.Action

namespace GrVerif.Pass
open GrVerif.Vm GrVerif.Seg GrVerif.Action GrVerif.Gen.Vm

/-! ## a rule application, the loop, a pass -/

theorem findNDoRule_same (p : PassT) (hp : PassOK NoID p) (c : Ctx) (slot : Nat) {l : List Nat} (h : JO c l (some slot))
    {c' : Ctx} {s' : Option Nat} {st : Status} (e : findNDoRule p c slot = .ok (c', s', st)) : JO c' l s' ∧ IdxKeep l c.seg c'.seg := by
  obtain ⟨f1, f2, f3⟩ := runFSM_spec p c slot h.linked h.isok
  unfold findNDoRule at e
  revert f1 f2 f3 e
  generalize runFSM p c slot = r
  obtain ⟨ok, c1, rules⟩ := r
  intro e f1 f2 f3
  simp only [] at f1 f2 f3 e
  have h1 : JO c1 l (some slot) := JO.congr h f1 f2
  have hadv : JO c1 l (c1.seg.get slot).next := JO.cursor h1 (isok_opt_mem (cur_next_mem (JO.linked h1) (JO.isok h1)))
  have k1 : IdxKeep l c.seg c1.seg := by rw [f1]; exact IdxKeep.rfl' _ _
  split at e
  · cases e; exact ⟨hadv, k1⟩
  · split at e
    · cases e
    · split at e
      · cases e; exact ⟨h1, k1⟩
      · cases e; exact ⟨hadv, k1⟩
    · split at e
      · cases e; exact ⟨h1, k1⟩
      · split at e
        · cases e
        · rename_i k hk
          split at e
          · cases e
          · rename_i ret status slotOut c2 hact
            have hcell : IsOK c1.seg l (c1.smap.getD ((c1.context : Int) + 1).toNat none) := by rw [f1]; exact f3 _
            obtain ⟨j2, k2⟩ := doAction_same (hp _ _ hk) (JO.linked h1) (JO.clean h1) (JO.hw h1) hcell (JO.alloc h1) hact
            split at e
            · cases e; exact ⟨JO.cursor j2 (.inl rfl), k1.trans k2⟩
            · obtain ⟨a1, a2, a3⟩ := adjustSlot_spec c2 ret slotOut (JO.linked j2) (JO.isok j2)
              revert a1 a2 a3 e
              generalize adjustSlot c2 ret slotOut = ar
              obtain ⟨c3, so3⟩ := ar
              intro e a1 a2 a3
              simp only [] at a1 a2 a3 e
              cases e
              exact ⟨JO.congr (JO.cursor j2 a3) a1 a2, by rw [a1]; exact k1.trans k2⟩

theorem ruleLoop_same (p : PassT) (hp : PassOK NoID p) : ∀ (fuel : Nat) (c : Ctx) (s : Nat) (lc : Int) (it : Nat) {l : List Nat}, JO c l (some s) →
    ∀ {c' : Ctx} {n : Nat}, ruleLoop p fuel c s lc it = .ok (some c', n) → JO c' l none ∧ IdxKeep l c.seg c'.seg := by
  intro fuel
  induction fuel with
  | zero => intro c s lc it l _ c' n e; unfold ruleLoop at e; cases e
  | succ f ih =>
    intro c s lc it l h c' n e
    unfold ruleLoop at e
    split at e
    · cases e
    · rename_i c1 s1 st hf
      obtain ⟨j1, k1⟩ := findNDoRule_same p hp c s h hf
      split at e
      · cases e
      · split at e
        · cases e; exact ⟨j1, k1⟩
        · rename_i s2
          simp only [] at e
          have hs3ok : ∀ (q : Prop) [Decidable q] (s3 : Nat), (if q then c1.highwater else some s2) = some s3 →
              IsOK c1.seg l (some s3) := by
            intro q _ s3 hs3
            split at hs3
            · exact isok_of_mem (JO.hw j1 s3 hs3)
            · cases hs3; exact JO.isok j1
          have restart : ∀ s3, IsOK c1.seg l (some s3) → ∀ lc' it', ruleLoop p f (c1.restartAt s3) s3 lc' it' = .ok (some c', n) →
              JO c' l none ∧ IdxKeep l c.seg c'.seg := by
            intro s3 hs3 lc' it' e'
            obtain ⟨j3, k3⟩ := ih _ s3 _ _ (restartAt_JO j1 hs3) e'
            exact ⟨j3, k1.trans k3⟩
          by_cases hit : (some s2 = c1.highwater ∨ c1.highpassed = true)
          · simp only [hit, if_true, true_or] at e
            split at e
            · rename_i s3 hs3
              first
                | exact restart s3 (hs3ok _ s3 hs3) _ _ e
                | exact restart s3 (isok_of_mem (JO.hw j1 s3 hs3)) _ _ e
            · cases e; exact ⟨JO.cursor j1 (.inl rfl), k1⟩
          · simp only [hit, if_false, false_or] at e
            split at e
            · split at e
              · rename_i s3 hs3
                first
                  | exact restart s3 (hs3ok _ s3 hs3) _ _ e
                  | exact restart s3 (isok_of_mem (JO.hw j1 s3 hs3)) _ _ e
              · cases e; exact ⟨JO.cursor j1 (.inl rfl), k1⟩
            · obtain ⟨j3, k3⟩ := ih _ s2 _ _ j1 e
              exact ⟨j3, k1.trans k3⟩

/-- the stream's slots carry the indices 0 … n−1 in some order -/
def IdxPerm (s : Seg) : Prop :=
  ∃ l, Linked s l ∧ Clean s l ∧ Alloc s l ∧ (l.map fun j => (s.get j).index).Perm (List.range l.length)

theorem IdxPerm.wf {s : Seg} (h : IdxPerm s) : WF s := by obtain ⟨l, a, b, c, _⟩ := h; exact ⟨l, a, b, c⟩

theorem map_congr_mem {l : List Nat} {f g : Nat → Nat} (h : ∀ j ∈ l, f j = g j) : l.map f = l.map g :=
  List.map_congr_left h

theorem runPass_idx (p : PassT) (hp : PassOK NoID p) (c : Ctx) (fuel : Nat) (h : IdxPerm c.seg) {c' : Ctx}
    (e : runPass p c fuel = .ok (some c')) : IdxPerm c'.seg := by
  obtain ⟨l, hl, hc, hal, hperm⟩ := h
  unfold runPass at e
  split at e
  · cases e; exact ⟨l, hl, hc, hal, hperm⟩
  · rename_i s0 hs0
    split at e
    · cases e; exact ⟨l, hl, hc, hal, hperm⟩
    · simp only [] at e
      split at e
      · cases e
      · cases e
      · rename_i c2 it hr
        cases e
        have hs0l : s0 ∈ l := head?_mem (by rw [← hl.first]; exact hs0)
        have j0 : JO (c.restartAt s0) l (some s0) :=
          JO.mk' hl hc (isok_of_mem hs0l) (fun x hx => next_mem hl hs0l x hx) hal
        obtain ⟨j', k'⟩ := ruleLoop_same p hp _ _ s0 _ 0 j0 hr
        refine ⟨l, by rw [noteLoop_seg]; exact JO.linked j', by rw [noteLoop_seg]; exact JO.clean j', by rw [noteLoop_seg]; exact JO.alloc j', ?_⟩
        rw [noteLoop_seg]
        have : (l.map fun j => (c2.seg.get j).index) = l.map fun j => (c.seg.get j).index := map_congr_mem (fun j hj => k' j hj)
        rw [this]; exact hperm

/-- reversing the stream permutes the list and leaves every index alone -/
theorem reverse_idx {s : Seg} (h : IdxPerm s) (mark : Nat → Bool) : IdxPerm (s.reverseSlots mark) := by
  obtain ⟨l, hl, hc, hal, hperm⟩ := h
  obtain ⟨l', hp, h1, h2, h3⟩ := reverseSlots_wf hl hc hal mark
  refine ⟨l', h1, h2, h3, ?_⟩
  have hs := reverseSlots_same s mark
  have hidx : ∀ j, ((s.reverseSlots mark).get j).index = (s.get j).index := fun j => by
    have := hs.slot j; unfold LinkOnly at this; rw [this]
  have e1 : (l'.map fun j => ((s.reverseSlots mark).get j).index) = l'.map fun j => (s.get j).index := map_congr_mem (fun j _ => hidx j)
  rw [e1, hp.length_eq]
  exact (hp.map _).trans hperm

theorem runPassDir_idx (p : PassT) (hp : PassOK NoID p) (c : Ctx) (fuel : Nat) (ar : Bool) (h : IdxPerm c.seg) {c' : Ctx}
    (e : runPassDir p c fuel ar = .ok (some c')) : IdxPerm c'.seg := by
  unfold runPassDir at e
  split at e
  · cases e; exact h
  · simp only [] at e
    split at e
    · cases e
    · split at e
      · cases e
      · split at e
        · cases e; exact h
        · split at e
          · exact runPass_idx p hp (c.withSeg (c.seg.reverseSlots (isMark c c.seg))) fuel (reverse_idx h _) e
          · exact runPass_idx p hp c fuel h e

/-- a glyph change keeps the index permutation -/
theorem idx_setGlyph {s : Seg} (h : IdxPerm s) (gadv : Array Int) (i g : Nat) : IdxPerm (s.upd i fun sl => sl.setGlyph gadv g) := by
  obtain ⟨l, hl, hc, hal, hperm⟩ := h
  have ss := StreamSame.upd s i (fun sl => sl.setGlyph gadv g) (fun _ => ⟨rfl, rfl, rfl, rfl⟩)
  refine ⟨l, hl.same ss, hc.same ss, hal.same ss, ?_⟩
  have e1 : (l.map fun j => ((s.upd i fun sl => sl.setGlyph gadv g).get j).index) = l.map fun j => (s.get j).index :=
    map_congr_mem (fun j _ => by rw [get_upd]; split <;> rfl)
  rw [e1]; exact hperm

theorem bidiStep_idx {c : Ctx} (h : IdxPerm c.seg) (aMirror : Nat) : IdxPerm (bidiStep c aMirror).seg :=
  bidiStep_ind IdxPerm aMirror (fun s mark hs => reverse_idx hs mark) (fun gadv s i g hs => idx_setGlyph hs gadv i g) c h

/-- **a call of `Silf::runGraphite` whose passes neither insert nor delete keeps the index permutation** -/
theorem runPhase_idx (passes : Array PassT) (bPass : Nat) (c : Ctx) (lo hi : Nat) (dobidi : Bool) (fuel : Nat)
    (hpo : ∀ k, k < hi - lo → PassOK NoID (passes.getD (lo + k) default)) (h : IdxPerm c.seg) {aMirror : Nat}
    {c' : Ctx} (e : runPhase passes bPass c lo hi dobidi fuel aMirror = .ok (some c')) : IdxPerm c'.seg :=
  runPhase_ind (fun x => IdxPerm x.seg) passes bPass lo hi dobidi fuel aMirror
    (fun ar k h1k h2k c1 c2 h1 e1 => runPassDir_idx _ (by have := hpo (k - lo) (by omega); rw [show lo + (k - lo) = k by omega] at this; exact this) c1 fuel ar h1 e1)
    (fun x l hx => hx) (fun x hx => bidiStep_idx hx aMirror) c h e

/-! ## `associateChars` numbers the stream, and the pipeline -/

theorem foldl_upd_same {α : Type} (ix : α → Nat) (f : α → Slot → Slot)
    (hf : ∀ x a, (f x a).next = a.next ∧ (f x a).prev = a.prev ∧ (f x a).deleted = a.deleted ∧ (f x a).copied = a.copied) {l : List Nat} :
    ∀ (xs : List α) (s : Seg), Linked s l ∧ Clean s l ∧ Alloc s l →
      Linked (xs.foldl (fun s x => s.upd (ix x) (f x)) s) l ∧ Clean (xs.foldl (fun s x => s.upd (ix x) (f x)) s) l ∧
      Alloc (xs.foldl (fun s x => s.upd (ix x) (f x)) s) l := by
  intro xs
  induction xs with
  | nil => intro s h; exact h
  | cons x rest ih =>
    intro s h
    simp only [List.foldl_cons]
    apply ih
    have ss := StreamSame.upd s (ix x) (f x) (hf x)
    exact ⟨h.1.same ss, h.2.1.same ss, h.2.2.same ss⟩

theorem foldl_upd_size {α : Type} (ix : α → Nat) (f : α → Slot → Slot) : ∀ (xs : List α) (s : Seg),
    (xs.foldl (fun s x => s.upd (ix x) (f x)) s).slots.size = s.slots.size := by
  intro xs
  induction xs with
  | nil => intro s; rfl
  | cons x rest ih => intro s; simp only [List.foldl_cons]; rw [ih]; simp

/-- numbering the slots of a duplicate-free list in order -/
theorem number_spec : ∀ (l : List Nat) (o : Nat) (s : Seg), l.Nodup → (∀ i ∈ l, i < s.slots.size) →
    (l.map fun j => (((l.zipIdx o).foldl (fun s (x : Nat × Nat) => s.upd x.1 fun sl => sl.setIndex x.2) s).get j).index) = List.range' o l.length ∧
    ∀ j, j ∉ l → ((l.zipIdx o).foldl (fun s (x : Nat × Nat) => s.upd x.1 fun sl => sl.setIndex x.2) s).get j = s.get j := by
  intro l
  induction l with
  | nil => intro o s _ _; exact ⟨rfl, fun _ _ => rfl⟩
  | cons x rest ih =>
    intro o s hn hb
    have hx : x ∉ rest := (List.nodup_cons.mp hn).1
    have hxs : x < s.slots.size := hb x List.mem_cons_self
    simp only [List.zipIdx_cons, List.foldl_cons]
    obtain ⟨i1, i2⟩ := ih (o + 1) (s.upd x fun sl => sl.setIndex o) (List.nodup_cons.mp hn).2
      (fun i hi => by simpa using hb i (List.mem_cons_of_mem _ hi))
    refine ⟨?_, fun j hj => ?_⟩
    · simp only [List.map_cons, List.length_cons, List.range'_succ]
      rw [i2 x hx, get_upd_self _ _ _ hxs, i1]
      rfl
    · rw [i2 j (fun hh => hj (List.mem_cons_of_mem _ hh)), get_upd_ne _ _ _ _ (fun hh => hj (by rw [hh]; exact List.mem_cons_self))]

/-- **after `associateChars` the stream's slots are numbered 0 … n−1 in stream order** -/
theorem reassoc_idx {seg seg' : Seg} {n : Nat} {ci : List Assoc.CI} (h : WF seg) (e : reassoc seg n = some (seg', ci)) : IdxPerm seg' := by
  obtain ⟨l, hl, hc, ha⟩ := h
  unfold reassoc at e
  simp only [] at e
  split at e
  · cases e
  · simp only [Option.some.injEq, Prod.mk.injEq] at e
    rw [← e.1]
    rw [ahead_stream hl]
    have w1 := foldl_upd_same (fun (x : Nat × Int × Int) => x.1) (fun x sl => (sl.setBefore x.2.1).setAfter x.2.2)
      (fun _ _ => ⟨rfl, rfl, rfl, rfl⟩) (l.zip (Assoc.associateChars n (l.map fun i => ((seg.get i).before, (seg.get i).after))).1) seg ⟨hl, hc, ha⟩
    have w2 := foldl_upd_same (fun (x : Nat × Nat) => x.1) (fun x sl => sl.setIndex x.2) (fun _ _ => ⟨rfl, rfl, rfl, rfl⟩) l.zipIdx _ w1
    refine ⟨l, w2.1, w2.2.1, w2.2.2, ?_⟩
    have hb : ∀ i ∈ l, i < ((l.zip (Assoc.associateChars n (l.map fun i => ((seg.get i).before, (seg.get i).after))).1).foldl
        (fun s (x : Nat × Int × Int) => s.upd x.1 fun sl => (sl.setBefore x.2.1).setAfter x.2.2) seg).slots.size := by
      intro i hi
      rw [foldl_upd_size (fun (x : Nat × Int × Int) => x.1) (fun x sl => (sl.setBefore x.2.1).setAfter x.2.2)]
      exact hl.inb i hi
    have := (number_spec l 0 _ hl.nodup hb).1
    rw [this, List.range_eq_range']

/-- the code of the positioning passes contains neither `insert` nor `delete_` (the loader refuses both there) -/
def PosNoID (font : Font) : Prop := ∀ k, k < font.passes.size - font.ipos → PassOK NoID (font.passes.getD (font.ipos + k) default)

/-- **C03, the indices.** In a segment returned by the modelled pipeline – any font whose positioning passes neither insert
nor delete, any text, either direction – the `index` fields of the stream's slots are 0, 1, …, n−1 in some order. -/
theorem shape_index_perm (font : Font) (text : List Nat) (fuel : Nat) (dir : Nat) (hne : text ≠ []) (hp : PosNoID font)
    {c : Ctx} {ci : List Assoc.CI} (e : shape font text fuel dir = .ok (some (c, ci))) : IdxPerm c.seg := by
  unfold shape at e
  split at e
  · rename_i h0
    exact absurd (List.length_eq_zero_iff.mp h0) hne
  · split at e
    · cases e
    · cases e
    · rename_i c1 h1
      have w1 : WF c1.seg := runPhase_spec _ _ _ _ _ _ _ (startMirror_wf font (initSeg_wf font text dir)) h1
      split at e
      · cases e
      · rename_i seg' ci' hre
        have w2 : IdxPerm seg' := reassoc_idx w1 hre
        split at e
        · cases e
        · cases e
        · rename_i c2 h2
          simp only [Except.ok.injEq, Option.some.injEq, Prod.mk.injEq] at e
          rw [← e.1]
          exact runPhase_idx _ _ (c1.withSeg seg') _ _ _ fuel hp w2 h2

/-! ## the hypothesis is a finite check -/

/-- no rule of the pass has `insert` or `delete_` in its action code -/
def noIDCheck (p : PassT) : Bool :=
  p.rules.toList.all fun r =>
    match mkCode r.action true with
    | some k => k.instrs.all fun i => i.1 != 31 && i.1 != 32
    | none => true

def posNoIDCheck (font : Font) : Bool := (font.passes.toList.drop font.ipos).all noIDCheck

theorem noID_of_all {is : List Instr} (h : (is.all fun i => i.1 != 31 && i.1 != 32) = true) : NoID is := by
  intro i hi
  have := List.all_eq_true.mp h i hi
  simp only [Bool.and_eq_true, bne_iff_ne, ne_eq] at this
  exact this

theorem passOK_of_check (p : PassT) (h : noIDCheck p = true) : PassOK NoID p := by
  intro r k hk
  by_cases hr : r < p.rules.size
  · have hmem : p.rules.getD r default ∈ p.rules.toList := by
      rw [Array.getD_eq_getD_getElem?, Array.getElem?_eq_getElem hr]
      simp
    have := List.all_eq_true.mp h _ hmem
    rw [hk] at this
    exact noID_of_all this
  · have hd : p.rules.getD r default = default := by
      rw [Array.getD_eq_getD_getElem?, Array.getElem?_eq_none (by omega)]; rfl
    rw [hd] at hk
    have : k.instrs = [] := by
      have e : mkCode (default : Rule).action true = some { instrs := [], deletes := false, maxRef := 0, data := [] } := by rfl
      rw [e] at hk
      cases hk; rfl
    rw [this]
    intro i hi; cases hi

theorem posNoID_of_check (font : Font) (h : posNoIDCheck font = true) : PosNoID font := by
  intro k hk
  by_cases hin : font.ipos + k < font.passes.size
  · apply passOK_of_check
    have hmem : font.passes.getD (font.ipos + k) default ∈ font.passes.toList.drop font.ipos := by
      rw [Array.getD_eq_getD_getElem?, Array.getElem?_eq_getElem hin]
      simp only [Option.getD_some]
      rw [List.mem_iff_getElem]
      refine ⟨k, by simp; omega, ?_⟩
      simp
    exact List.all_eq_true.mp h _ hmem
  · omega

end GrVerif.Pass

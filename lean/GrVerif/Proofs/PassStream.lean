import GrVerif.Proofs.HeapStream3
import GrVerif.Proofs.RunPasses
import GrVerif.Model.Pass
import GrVerif.Proofs.Reverse
/-!
# The glyph stream through the whole pass engine

`doAction_cursor` (Proofs/HeapStream3) says what one rule action does to the stream.  This file carries the same invariant
through everything around the actions – the matcher filling the slot map (`runFSM`), `adjustSlot`, the rule loop with its
high-water mark and loop counter (`ruleLoop`), a pass (`runPass`) and a run of passes (`runRange`) – so that the stream
invariant becomes a statement about the engine and no longer about one action under side conditions.
-/
set_option linter.unusedVariables false
set_option linter.unusedSimpArgs false
namespace GrVerif.Pass
open GrVerif.Vm GrVerif.Seg GrVerif.Action GrVerif.Gen.Vm

/-! ## stepping along the stream from a cursor -/

theorem prev_mem {s : Seg} {l : List Nat} (h : Linked s l) {i : Nat} (hi : i ∈ l) : ∀ x, (s.get i).prev = some x → x ∈ l := by
  obtain ⟨a, b, rfl⟩ := List.append_of_mem hi
  obtain ⟨hp, _, _, _⟩ := chain_mid h.chain
  intro x hx
  rw [hp] at hx
  simp only [Option.or_none] at hx
  exact List.mem_append_left _ (getLast?_mem hx)

theorem next_mem {s : Seg} {l : List Nat} (h : Linked s l) {i : Nat} (hi : i ∈ l) : ∀ x, (s.get i).next = some x → x ∈ l := by
  obtain ⟨a, b, rfl⟩ := List.append_of_mem hi
  obtain ⟨_, hn, _, _⟩ := chain_mid h.chain
  intro x hx
  rw [hn] at hx
  simp only [Option.or_none] at hx
  exact List.mem_append_right _ (List.mem_cons_of_mem _ (head?_mem hx))

/-- from any cursor position, `next` leads into the stream or to null -/
theorem cur_next_mem {s : Seg} {l : List Nat} (h : Linked s l) {i : Nat} (hi : IsOK s l (some i)) :
    ∀ x, (s.get i).next = some x → x ∈ l := by
  rcases hi with h0 | ⟨i', h1, h2⟩ | ⟨d, h1, h2, h3, h4, h5, h6⟩
  · cases h0
  · cases h1; exact next_mem h h2
  · cases h1
    intro x hx
    rw [h4] at hx
    exact head?_mem hx

/-- from any cursor position, `prev` leads into the stream or to null -/
theorem cur_prev_mem {s : Seg} {l : List Nat} (h : Linked s l) {i : Nat} (hi : IsOK s l (some i)) :
    ∀ x, (s.get i).prev = some x → x ∈ l := by
  rcases hi with h0 | ⟨i', h1, h2⟩ | ⟨d, h1, h2, h3, h4, h5, h6⟩
  · cases h0
  · cases h1; exact prev_mem h h2
  · cases h1
    intro x hx
    rw [h5] at hx
    cases hx

theorem isok_of_mem {s : Seg} {l : List Nat} {i : Nat} (h : i ∈ l) : IsOK s l (some i) := .inr (.inl ⟨i, rfl, h⟩)

/-! ## the matcher -/

theorem fsmBack_isok {s : Seg} {l : List Nat} (h : Linked s l) (mp : Nat) : ∀ (fuel i k : Nat), IsOK s l (some i) →
    IsOK s l (some (fsmBack s mp fuel i k).1) := by
  intro fuel
  induction fuel with
  | zero => intro i k hi; exact hi
  | succ f ih =>
    intro i k hi
    unfold fsmBack
    split
    · exact hi
    · split
      · rename_i q hq
        exact ih q (k + 1) (isok_of_mem (cur_prev_mem h hi q hq))
      · exact hi

theorem ahead_isok {s : Seg} {l : List Nat} (h : Linked s l) : ∀ (n : Nat) (o : Option Nat), IsOK s l o →
    ∀ x ∈ ahead s n o, IsOK s l (some x) := by
  intro n
  induction n with
  | zero => intro o _ x hx; simp [ahead] at hx
  | succ n ih =>
    intro o ho x hx
    cases o with
    | none => simp [ahead] at hx
    | some i =>
      simp only [ahead, List.mem_cons] at hx
      rcases hx with hx | hx
      · rw [hx]; exact ho
      · exact ih _ (isok_opt_mem (cur_next_mem h ho)) x hx

theorem fillMap_all (P : Option Nat → Prop) : ∀ (xs : List (Option Nat × Nat)) (m : Array (Option Nat)),
    (∀ k, P (m.getD k none)) → (∀ x ∈ xs, P x.1) →
    ∀ k, P ((xs.foldl (fun (m : Array (Option Nat)) (x : Option Nat × Nat) => m.setIfInBounds (x.2 + 1) x.1) m).getD k none) := by
  intro xs
  induction xs with
  | nil => intro m hm _ k; exact hm k
  | cons x rest ih =>
    intro m hm hx k
    simp only [List.foldl_cons]
    apply ih
    · intro j
      simp only [Array.getD_eq_getD_getElem?, Array.getElem?_setIfInBounds]
      split
      · split
        · exact hx x List.mem_cons_self
        · have := hm j
          simp only [Array.getD_eq_getD_getElem?] at this
          rename_i h1 h2
          rw [Array.getElem?_eq_none (by omega)] at this
          exact this
      · have := hm j
        simp only [Array.getD_eq_getD_getElem?] at this
        exact this
    · intro y hy; exact hx y (List.mem_cons_of_mem _ hy)

/-- what the matcher leaves behind: the same segment and high-water mark, and a slot map whose every cell is null or a
cursor position -/
theorem runFSM_spec (p : PassT) (c : Ctx) (slot : Nat) {l : List Nat} (hl : Linked c.seg l) (hs : IsOK c.seg l (some slot)) :
    (runFSM p c slot).2.1.seg = c.seg ∧ (runFSM p c slot).2.1.highwater = c.highwater ∧
    ∀ k, IsOK c.seg l ((runFSM p c slot).2.1.smap.getD k none) := by
  have hb := fsmBack_isok hl p.maxPre (p.maxPre + 1) slot 0 hs
  have h0 : ∀ k, IsOK c.seg l (((Array.replicate (MAX_SLOTS + 2) (none : Option Nat)).setIfInBounds 0
      (c.seg.get (fsmBack c.seg p.maxPre (p.maxPre + 1) slot 0).1).prev).getD k none) := by
    intro k
    simp only [Array.getD_eq_getD_getElem?, Array.getElem?_setIfInBounds]
    split
    · split
      · exact isok_opt_mem (cur_prev_mem hl hb)
      · exact .inl rfl
    · simp only [Array.getElem?_replicate]; split <;> exact .inl rfl
  unfold runFSM
  simp only []
  split
  · exact ⟨rfl, rfl, h0⟩
  · refine ⟨rfl, rfl, ?_⟩
    simp only [Ctx.resetMap]
    unfold fillMap
    apply fillMap_all (fun o => IsOK c.seg l o) _ _ h0
    intro x hx
    have hx1 := (List.mem_zipIdx hx)
    have hwin := ahead_isok hl (MAX_SLOTS + 1) (some (fsmBack c.seg p.maxPre (p.maxPre + 1) slot 0).1) hb
    have hmem : x.1 ∈ fsmCells (ahead c.seg (MAX_SLOTS + 1) (some (fsmBack c.seg p.maxPre (p.maxPre + 1) slot 0).1))
        (fsmScan p ((ahead c.seg (MAX_SLOTS + 1) (some (fsmBack c.seg p.maxPre (p.maxPre + 1) slot 0).1)).map fun s => (c.seg.get s).gid)
          (p.starts.getD (p.maxPre - (fsmBack c.seg p.maxPre (p.maxPre + 1) slot 0).2) 0) MAX_SLOTS [] 0).2.1
        (fsmScan p ((ahead c.seg (MAX_SLOTS + 1) (some (fsmBack c.seg p.maxPre (p.maxPre + 1) slot 0).1)).map fun s => (c.seg.get s).gid)
          (p.starts.getD (p.maxPre - (fsmBack c.seg p.maxPre (p.maxPre + 1) slot 0).2) 0) MAX_SLOTS [] 0).2.2.1 := by
      obtain ⟨a, b⟩ := x
      exact (List.mem_zipIdx' hx).2 ▸ List.getElem_mem _
    revert hmem
    generalize (fsmScan p _ _ MAX_SLOTS [] 0) = r
    intro hmem
    unfold fsmCells at hmem
    rcases List.mem_append.mp hmem with h1 | h1
    · obtain ⟨y, hy, e⟩ := List.mem_map.mp h1
      rw [← e]
      exact hwin y (List.mem_of_mem_take hy)
    · split at h1
      · simp only [List.mem_singleton] at h1
        rw [h1]
        cases hq : (ahead c.seg (MAX_SLOTS + 1) (some (fsmBack c.seg p.maxPre (p.maxPre + 1) slot 0).1))[r.2.1]? with
        | none => exact .inl rfl
        | some y => exact hwin y (List.mem_of_getElem? hq)
      · cases h1

/-! ## `adjustSlot` -/

theorem adjustBack_spec {l : List Nat} : ∀ (fuel : Nat) (c : Ctx) (d : Int) (so : Option Nat), Linked c.seg l →
    (adjustBack fuel c d so).1.seg = c.seg ∧ (adjustBack fuel c d so).1.highwater = c.highwater ∧
    (IsOK c.seg l so → IsOK c.seg l (adjustBack fuel c d so).2) := by
  intro fuel
  induction fuel with
  | zero => intro c d so _; unfold adjustBack; exact ⟨rfl, rfl, id⟩
  | succ f ih =>
    intro c d so hl
    cases so with
    | none => unfold adjustBack; exact ⟨rfl, rfl, id⟩
    | some s =>
      unfold adjustBack
      split
      · have key : ∀ c' : Ctx, c'.seg = c.seg → c'.highwater = c.highwater →
            (adjustBack f c' (d + 1) (c.seg.get s).prev).1.seg = c.seg ∧
            (adjustBack f c' (d + 1) (c.seg.get s).prev).1.highwater = c.highwater ∧
            (IsOK c.seg l (some s) → IsOK c.seg l (adjustBack f c' (d + 1) (c.seg.get s).prev).2) := by
          intro c' e1 e2
          obtain ⟨i1, i2, i3⟩ := ih c' (d + 1) (c.seg.get s).prev (by rw [e1]; exact hl)
          rw [e1] at i1 i3; rw [e2] at i2
          exact ⟨i1, i2, fun hi => i3 (isok_opt_mem (cur_prev_mem hl hi))⟩
        split
        · exact key _ rfl rfl
        · exact key _ rfl rfl
      · exact ⟨rfl, rfl, id⟩

theorem adjustFwd_spec {l : List Nat} : ∀ (fuel : Nat) (c : Ctx) (d : Int) (so : Option Nat), Linked c.seg l →
    (adjustFwd fuel c d so).1.seg = c.seg ∧ (adjustFwd fuel c d so).1.highwater = c.highwater ∧
    (IsOK c.seg l so → IsOK c.seg l (adjustFwd fuel c d so).2) := by
  intro fuel
  induction fuel with
  | zero => intro c d so _; unfold adjustFwd; exact ⟨rfl, rfl, id⟩
  | succ f ih =>
    intro c d so hl
    cases so with
    | none => unfold adjustFwd; exact ⟨rfl, rfl, id⟩
    | some s =>
      unfold adjustFwd
      split
      · have key : ∀ c' : Ctx, c'.seg = c.seg → c'.highwater = c.highwater →
            (adjustFwd f c' (d - 1) (c.seg.get s).next).1.seg = c.seg ∧
            (adjustFwd f c' (d - 1) (c.seg.get s).next).1.highwater = c.highwater ∧
            (IsOK c.seg l (some s) → IsOK c.seg l (adjustFwd f c' (d - 1) (c.seg.get s).next).2) := by
          intro c' e1 e2
          obtain ⟨i1, i2, i3⟩ := ih c' (d - 1) (c.seg.get s).next (by rw [e1]; exact hl)
          rw [e1] at i1 i3; rw [e2] at i2
          exact ⟨i1, i2, fun hi => i3 (isok_opt_mem (cur_next_mem hl hi))⟩
        split
        · exact key _ rfl rfl
        · exact key _ rfl rfl
      · exact ⟨rfl, rfl, id⟩

theorem adjustStart_spec {l : List Nat} (c : Ctx) (d : Int) (hl : Linked c.seg l) :
    (adjustStart c d).1.seg = c.seg ∧ (adjustStart c d).1.highwater = c.highwater ∧ IsOK c.seg l (adjustStart c d).2.1 := by
  unfold adjustStart
  split
  · split
    · exact ⟨rfl, rfl, isok_last hl⟩
    · exact ⟨rfl, rfl, isok_last hl⟩
  · refine ⟨rfl, rfl, ?_⟩
    simp only []
    rw [hl.first]
    exact isok_opt_mem (fun x hx => head?_mem hx)

theorem adjustTail_spec {l : List Nat} (st : Ctx × Option Nat × Int) (hl : Linked st.1.seg l) (hi : IsOK st.1.seg l st.2.1) :
    (if st.2.2 < 0 then adjustBack (st.2.2.natAbs + 1) st.1 st.2.2 st.2.1
      else if st.2.2 > 0 then adjustFwd (st.2.2.natAbs + 1) st.1 st.2.2 st.2.1 else (st.1, st.2.1)).1.seg = st.1.seg ∧
    (if st.2.2 < 0 then adjustBack (st.2.2.natAbs + 1) st.1 st.2.2 st.2.1
      else if st.2.2 > 0 then adjustFwd (st.2.2.natAbs + 1) st.1 st.2.2 st.2.1 else (st.1, st.2.1)).1.highwater = st.1.highwater ∧
    IsOK st.1.seg l (if st.2.2 < 0 then adjustBack (st.2.2.natAbs + 1) st.1 st.2.2 st.2.1
      else if st.2.2 > 0 then adjustFwd (st.2.2.natAbs + 1) st.1 st.2.2 st.2.1 else (st.1, st.2.1)).2 := by
  split
  · obtain ⟨i1, i2, i3⟩ := adjustBack_spec (l := l) (st.2.2.natAbs + 1) st.1 st.2.2 st.2.1 hl
    exact ⟨i1, i2, i3 hi⟩
  · split
    · obtain ⟨i1, i2, i3⟩ := adjustFwd_spec (l := l) (st.2.2.natAbs + 1) st.1 st.2.2 st.2.1 hl
      exact ⟨i1, i2, i3 hi⟩
    · exact ⟨rfl, rfl, hi⟩

/-- `adjustSlot` moves the cursor along the stream: it ends at a cursor position, and neither the segment nor the
high-water mark changes -/
theorem adjustSlot_spec {l : List Nat} (c : Ctx) (d : Int) (so : Option Nat) (hl : Linked c.seg l) (hi : IsOK c.seg l so) :
    (adjustSlot c d so).1.seg = c.seg ∧ (adjustSlot c d so).1.highwater = c.highwater ∧ IsOK c.seg l (adjustSlot c d so).2 := by
  unfold adjustSlot
  cases so with
  | some x => exact adjustTail_spec (c, some x, d) hl hi
  | none =>
    obtain ⟨a1, a2, a3⟩ := adjustStart_spec c d hl
    obtain ⟨i1, i2, i3⟩ := adjustTail_spec (l := l) (adjustStart c d) (by rw [a1]; exact hl) (by rw [a1]; exact a3)
    simp only []
    rw [a1] at i1 i3; rw [a2] at i2
    exact ⟨i1, i2, i3⟩

/-! ## one rule application, the rule loop, a pass, a run of passes -/

/-- `JO` depends on the context only through its segment and high-water mark -/
theorem JO.congr {c c' : Ctx} {l : List Nat} {so : Option Nat} (h : JO c l so) (e1 : c'.seg = c.seg) (e2 : c'.highwater = c.highwater) :
    JO c' l so := JO.mk' (by rw [e1]; exact h.linked) (by rw [e1]; exact h.clean) (by rw [e1]; exact h.isok) (by rw [e2]; exact h.hw)
      (by rw [e1]; exact h.alloc)

theorem JO.cursor {c : Ctx} {l : List Nat} {so so' : Option Nat} (h : JO c l so) (hi : IsOK c.seg l so') : JO c l so' :=
  JO.mk' h.linked h.clean hi h.hw h.alloc

/-- **`findNDoRule` keeps the stream.** From a well-formed stream with the cursor on it, one step of the engine – matching,
the constraint tests, the rule's action, its garbage collection and `adjustSlot` – ends with a well-formed stream, the
high-water mark on it, and the new cursor null or at a cursor position. -/
theorem findNDoRule_spec (p : PassT) (c : Ctx) (slot : Nat) {l : List Nat} (h : JO c l (some slot))
    {c' : Ctx} {s' : Option Nat} {st : Status} (e : findNDoRule p c slot = .ok (c', s', st)) : ∃ l', JO c' l' s' := by
  obtain ⟨f1, f2, f3⟩ := runFSM_spec p c slot h.linked h.isok
  unfold findNDoRule at e
  revert f1 f2 f3 e
  generalize runFSM p c slot = r
  obtain ⟨ok, c1, rules⟩ := r
  intro e f1 f2 f3
  simp only [] at f1 f2 f3 e
  have h1 : JO c1 l (some slot) := JO.congr h f1 f2
  have hadv : JO c1 l (c1.seg.get slot).next := JO.cursor h1 (isok_opt_mem (cur_next_mem (JO.linked h1) (JO.isok h1)))
  split at e
  · cases e; exact ⟨l, hadv⟩
  · split at e
    · cases e
    · split at e
      · cases e; exact ⟨l, h1⟩
      · cases e; exact ⟨l, hadv⟩
    · split at e
      · cases e; exact ⟨l, h1⟩
      · split at e
        · cases e
        · rename_i k hk
          split at e
          · cases e
          · rename_i ret status slotOut c2 hact
            have hcell : IsOK c1.seg l (c1.smap.getD ((c1.context : Int) + 1).toNat none) := by rw [f1]; exact f3 _
            obtain ⟨l2, j2⟩ := doAction_cursor (JO.linked h1) (JO.clean h1) (JO.hw h1) hcell (JO.alloc h1) hact
            split at e
            · cases e; exact ⟨l2, JO.cursor j2 (.inl rfl)⟩
            · obtain ⟨a1, a2, a3⟩ := adjustSlot_spec c2 ret slotOut (JO.linked j2) (JO.isok j2)
              revert a1 a2 a3 e
              generalize adjustSlot c2 ret slotOut = ar
              obtain ⟨c3, so3⟩ := ar
              intro e a1 a2 a3
              simp only [] at a1 a2 a3 e
              cases e
              exact ⟨l2, JO.congr (JO.cursor j2 a3) a1 a2⟩

theorem restartAt_JO {c : Ctx} {l : List Nat} {so : Option Nat} {s : Nat} (h : JO c l so) (hs : IsOK c.seg l (some s)) :
    JO (c.restartAt s) l (some s) :=
  JO.mk' (show Linked c.seg l from JO.linked h) (show Clean c.seg l from JO.clean h) hs (fun x hx => cur_next_mem (JO.linked h) hs x hx)
    (show Alloc c.seg l from JO.alloc h)

/-- **the rule loop keeps the stream**, whatever the rules, the loop counter and the fuel -/
theorem ruleLoop_spec (p : PassT) : ∀ (fuel : Nat) (c : Ctx) (s : Nat) (lc : Int) (it : Nat) {l : List Nat}, JO c l (some s) →
    ∀ {c' : Ctx} {n : Nat}, ruleLoop p fuel c s lc it = .ok (some c', n) → ∃ l', JO c' l' none := by
  intro fuel
  induction fuel with
  | zero => intro c s lc it l _ c' n e; unfold ruleLoop at e; cases e
  | succ f ih =>
    intro c s lc it l h c' n e
    unfold ruleLoop at e
    split at e
    · cases e
    · rename_i c1 s1 st hf
      obtain ⟨l1, j1⟩ := findNDoRule_spec p c s h hf
      split at e
      · cases e
      · split at e
        · cases e; exact ⟨l1, j1⟩
        · rename_i s2
          simp only [] at e
          have hs3ok : ∀ (q : Prop) [Decidable q] (s3 : Nat), (if q then c1.highwater else some s2) = some s3 →
              IsOK c1.seg l1 (some s3) := by
            intro q _ s3 hs3
            split at hs3
            · exact isok_of_mem (JO.hw j1 s3 hs3)
            · cases hs3; exact JO.isok j1
          by_cases hit : (some s2 = c1.highwater ∨ c1.highpassed = true)
          · simp only [hit, if_true, true_or] at e
            split at e
            · rename_i s3 hs3
              first
                | exact ih _ s3 _ _ (restartAt_JO j1 (hs3ok _ s3 hs3)) e
                | exact ih _ s3 _ _ (restartAt_JO j1 (isok_of_mem (JO.hw j1 s3 hs3))) e
            · cases e; exact ⟨l1, JO.cursor j1 (.inl rfl)⟩
          · simp only [hit, if_false, false_or] at e
            split at e
            · split at e
              · rename_i s3 hs3
                first
                | exact ih _ s3 _ _ (restartAt_JO j1 (hs3ok _ s3 hs3)) e
                | exact ih _ s3 _ _ (restartAt_JO j1 (isok_of_mem (JO.hw j1 s3 hs3))) e
              · cases e; exact ⟨l1, JO.cursor j1 (.inl rfl)⟩
            · exact ih _ s2 _ _ j1 e

theorem noteLoop_seg (c : Ctx) (a b : Nat) : (noteLoop c a b).seg = c.seg := by
  unfold noteLoop; simp only []; split <;> rfl
theorem noteLoop_highwater (c : Ctx) (a b : Nat) : (noteLoop c a b).highwater = c.highwater := by
  unfold noteLoop; simp only []; split <;> rfl

/-- a segment whose stream is a well-formed doubly linked list -/
def WF (s : Seg) : Prop := ∃ l, Linked s l ∧ Clean s l ∧ Alloc s l

/-- **a pass keeps the stream** -/
theorem runPass_spec (p : PassT) (c : Ctx) (fuel : Nat) (h : WF c.seg) {c' : Ctx} (e : runPass p c fuel = .ok (some c')) :
    WF c'.seg := by
  obtain ⟨l, hl, hc, hal⟩ := h
  unfold runPass at e
  split at e
  · cases e; exact ⟨l, hl, hc, hal⟩
  · rename_i s0 hs0
    split at e
    · cases e; exact ⟨l, hl, hc, hal⟩
    · simp only [] at e
      split at e
      · cases e
      · cases e
      · rename_i c2 it hr
        cases e
        have hs0l : s0 ∈ l := head?_mem (by rw [← hl.first]; exact hs0)
        have j0 : JO (c.restartAt s0) l (some s0) :=
          JO.mk' hl hc (isok_of_mem hs0l) (fun x hx => next_mem hl hs0l x hx) hal
        obtain ⟨l', j'⟩ := ruleLoop_spec p _ _ s0 _ 0 j0 hr
        exact ⟨l', by rw [noteLoop_seg]; exact JO.linked j', by rw [noteLoop_seg]; exact JO.clean j', by rw [noteLoop_seg]; exact JO.alloc j'⟩

/-- reversing the stream keeps it a stream -/
theorem reverse_wf {s : Seg} (h : WF s) (mark : Nat → Bool) : WF (s.reverseSlots mark) := by
  obtain ⟨l, hl, hc, ha⟩ := h
  obtain ⟨l', _, h1, h2, h3⟩ := reverseSlots_wf hl hc ha mark
  exact ⟨l', h1, h2, h3⟩

/-- **a pass with its direction step keeps the stream** -/
theorem runPassDir_spec (p : PassT) (c : Ctx) (fuel : Nat) (ar : Bool) (h : WF c.seg) {c' : Ctx} (e : runPassDir p c fuel ar = .ok (some c')) :
    WF c'.seg := by
  unfold runPassDir at e
  split at e
  · cases e; exact h
  · simp only [] at e
    split at e
    · cases e
    · split at e
      · cases e
      · split at e
        · cases e; exact h
        · refine runPass_spec p _ fuel ?_ e
          split
          · exact reverse_wf h _
          · exact h

/-- **a run of passes keeps the stream** -/
theorem runRange_spec (passes : Array PassT) (c : Ctx) (lo hi fuel : Nat) (h : WF c.seg) {c' : Ctx}
    (e : runRange passes c lo hi fuel = .ok (some c')) : WF c'.seg := by
  unfold runRange at e
  exact runPasses_ind (fun c => WF c.seg) passes _ true lo hi fuel (fun k _ c1 c2 h1 e1 => runPassDir_spec _ c1 fuel true h1 e1) _ (show WF (c.beginRange _).seg from h) e

/-- a glyph change keeps the stream -/
theorem wf_setGlyph {s : Seg} (h : WF s) (gadv : Array Int) (i g : Nat) : WF (s.upd i fun sl => sl.setGlyph gadv g) := by
  obtain ⟨l, hl, hc, ha⟩ := h
  have ss := StreamSame.upd s i (fun sl => sl.setGlyph gadv g) (fun _ => ⟨rfl, rfl, rfl, rfl⟩)
  exact ⟨l, hl.same ss, hc.same ss, ha.same ss⟩

/-- the bidi step (reversal and mirroring) keeps the stream -/
theorem bidiStep_wf {c : Ctx} (h : WF c.seg) (aMirror : Nat := 0) : WF (bidiStep c aMirror).seg :=
  bidiStep_ind WF aMirror (fun s mark hs => reverse_wf hs mark) (fun gadv s i g hs => wf_setGlyph hs gadv i g) c h

/-- **a call of `Silf::runGraphite`, with the bidi step or without, keeps the stream** -/
theorem runPhase_spec (passes : Array PassT) (bPass : Nat) (c : Ctx) (lo hi : Nat) (dobidi : Bool) (fuel : Nat) (h : WF c.seg) {aMirror : Nat} {c' : Ctx}
    (e : runPhase passes bPass c lo hi dobidi fuel aMirror = .ok (some c')) : WF c'.seg :=
  runPhase_ind (fun c => WF c.seg) passes bPass lo hi dobidi fuel aMirror (fun ar k _ _ c1 c2 h1 e1 => runPassDir_spec _ c1 fuel ar h1 e1)
    (fun c l h => h) (fun c h => bidiStep_wf h aMirror) c h e

/-- mirroring before the first pass keeps the stream -/
theorem startMirror_wf (font : Font) {c : Ctx} (h : WF c.seg) : WF (startMirror font c).seg := by
  unfold startMirror
  split
  · exact doMirror_ind WF c font.aMirror (fun s i g hs => wf_setGlyph hs _ i g) h
  · exact h

end GrVerif.Pass

import GrVerif.Proofs.Lines
/-!
# The two line-end slots of `Segment::justify`   (C19)

`Segment::justify` brackets the line with `addLineEnd(first slot)` and `addLineEnd(end)` and takes both out again after positioning.
`end` may be the very slot the first sentinel stands in front of.  This file proves that the bracket, taken out last-inserted-first
(the order of the repaired `justify`), restores every link of the stream, for any two slots of any well-formed stream - equal or not.
-/
set_option linter.unusedVariables false
set_option linter.unusedSimpArgs false
namespace GrVerif.Seg

/-- what `newSlot` does to a state whose free slots are inside the arena -/
theorem newSlot_frame {t t0 : Seg} {k g : Nat} (e : t.newSlot g = some (k, t0)) (hinb : ∀ f ∈ t.free, f < t.slots.size) :
    t0.first = t.first ∧ t0.last = t.last ∧ t.slots.size ≤ t0.slots.size ∧ k < t0.slots.size ∧ (k ∈ t.free ∨ k = t.slots.size) ∧
    (∀ j, j ≠ k → t0.get j = t.get j) ∧ (∀ f ∈ t0.free, f < t0.slots.size) := by
  unfold Seg.newSlot at e
  split at e
  · rename_i i rest hfree
    simp only [Option.some.injEq, Prod.mk.injEq] at e
    obtain ⟨e1, e2⟩ := e
    subst e1
    rw [← e2]
    have hmem : i ∈ t.free := by rw [hfree]; exact List.mem_cons_self
    have hin := hinb i hmem
    refine ⟨rfl, rfl, by simp, by simpa using hin, .inl hmem, fun j hj => get_upd_ne t i j _ hj, fun f hf => ?_⟩
    simpa using hinb f (by rw [hfree]; exact List.mem_cons_of_mem _ hf)
  · rename_i hfree
    split at e
    · cases e
    · simp only [Option.some.injEq, Prod.mk.injEq] at e
      obtain ⟨e1, e2⟩ := e
      subst e1
      rw [← e2]
      refine ⟨rfl, rfl, by simp, by simp; omega, .inr rfl, fun j _ => get_grow' t _ j _, fun f hf => ?_⟩
      simp at hf ⊢
      obtain ⟨x, hx, rfl⟩ := hf
      omega

/-- the state after `addLineEnd(x)`, slot by slot, relative to the state `newSlot` left -/
theorem addLineEnd_frame {t t0 t1 : Seg} {x k k' g : Nat} (hnew : t.newSlot g = some (k, t0)) (hkx : k ≠ x)
    (hks : k < t0.slots.size) (hxs : x < t0.slots.size) (hadd : t.addLineEnd (some x) g = some (k', t1)) :
    k' = k ∧ (t1.get k).next = some x ∧ (t1.get k).prev = (t0.get x).prev ∧ (t1.get x).prev = some k ∧ (t1.get x).next = (t0.get x).next ∧
    (∀ j, j ≠ k → j ≠ x → t1.get j = t0.get j) ∧ t1.first = t0.first ∧ t1.last = t0.last ∧ t1.slots.size = t0.slots.size ∧ t1.free = t0.free := by
  unfold Seg.addLineEnd at hadd
  rw [hnew] at hadd
  simp only [Option.some.injEq, Prod.mk.injEq] at hadd
  obtain ⟨he, hs1⟩ := hadd
  refine ⟨he.symm, ?_, ?_, ?_, ?_, ?_, ?_, ?_, ?_, ?_⟩
  · rw [← hs1]
    split <;> (rw [get_upd_self _ _ _ (by simpa using hks)]; simp only [setAfter_next]
               rw [get_upd_self _ _ _ (by simpa using hks)]; simp only [setBefore_next]
               rw [get_upd_ne _ _ _ _ hkx, get_upd_self _ _ _ hks]; simp)
  · rw [← hs1]
    split <;> (rw [get_upd_self _ _ _ (by simpa using hks)]; simp only [setAfter_prev]
               rw [get_upd_self _ _ _ (by simpa using hks)]; simp only [setBefore_prev]
               rw [get_upd_ne _ _ _ _ hkx, get_upd_self _ _ _ hks]; simp)
  · rw [← hs1]
    split <;> (rw [get_upd_ne _ _ _ _ hkx.symm, get_upd_ne _ _ _ _ hkx.symm, get_upd_self _ _ _ (by simpa using hxs)]; simp)
  · rw [← hs1]
    split <;> (rw [get_upd_ne _ _ _ _ hkx.symm, get_upd_ne _ _ _ _ hkx.symm, get_upd_self _ _ _ (by simpa using hxs)]; simp
               rw [get_upd_ne _ _ _ _ hkx.symm])
  · intro j hjk hjx
    rw [← hs1]
    split <;> (rw [get_upd_ne _ _ _ _ hjk, get_upd_ne _ _ _ _ hjk, get_upd_ne _ _ _ _ hjx, get_upd_ne _ _ _ _ hjk])
  · rw [← hs1]; split <;> simp
  · rw [← hs1]; split <;> simp
  · rw [← hs1]; split <;> simp
  · rw [← hs1]; split <;> simp

/-- `delLineEnd(k)` of a sentinel that stands in front of `x` with the predecessor `p`: `x` gets `p` back, `p`'s `next` is made `x`,
nothing else of the stream's links changes -/
theorem delLineEnd_frame {u u2 : Seg} {x k : Nat} {p : Option Nat} (hn : (u.get k).next = some x) (hp : (u.get k).prev = p) (hkx : k ≠ x)
    (hxs : x < u.slots.size) (hkf : u.first ≠ some k) (hkl : u.last ≠ some k)
    (hq : ∀ q, p = some q → q ≠ k ∧ q ≠ x ∧ q < u.slots.size) (hdel : u.delLineEnd k = some u2) :
    u2.first = u.first ∧ u2.last = u.last ∧ u2.slots.size = u.slots.size ∧
    (u2.get x).prev = p ∧ (u2.get x).next = (u.get x).next ∧
    (∀ q, p = some q → (u2.get q).next = some x ∧ (u2.get q).prev = (u.get q).prev) ∧
    (∀ j, j ≠ k → j ≠ x → p ≠ some j → (u2.get j).next = (u.get j).next ∧ (u2.get j).prev = (u.get j).prev) := by
  unfold Seg.delLineEnd at hdel
  rw [hn] at hdel
  simp only [Option.some.injEq] at hdel
  have gAk : ((u.upd x fun sl => sl.setPrev (u.get k).prev).get k).prev = p := by
    rw [get_upd_ne _ _ _ _ hkx]; exact hp
  rw [gAk, hp] at hdel
  cases p with
  | none =>
    simp only [] at hdel
    obtain ⟨ff, fl, fj⟩ := freeSlot_streamFrame (u.upd x fun sl => sl.setPrev none) k (by simpa using hkf) (by simpa using hkl)
    have hsz := freeSlot_size (u.upd x fun sl => sl.setPrev none) k
    rw [← hdel]
    refine ⟨by rw [ff]; simp, by rw [fl]; simp, by rw [hsz]; simp, ?_, ?_, fun q hh => (by cases hh), fun j hjk hjx _ => ?_⟩
    · rw [(fj x hkx.symm).2, get_upd_self _ _ _ hxs]; simp
    · rw [(fj x hkx.symm).1, get_upd_self _ _ _ hxs]; simp
    · rw [(fj j hjk).1, (fj j hjk).2, get_upd_ne _ _ _ _ hjx]; exact ⟨rfl, rfl⟩
  | some q =>
    simp only [] at hdel
    obtain ⟨hqk, hqx, hqs⟩ := hq q rfl
    obtain ⟨ff, fl, fj⟩ := freeSlot_streamFrame ((u.upd x fun sl => sl.setPrev (some q)).upd q fun sl => sl.setNext (some x)) k
      (by simpa using hkf) (by simpa using hkl)
    have hsz := freeSlot_size ((u.upd x fun sl => sl.setPrev (some q)).upd q fun sl => sl.setNext (some x)) k
    rw [← hdel]
    refine ⟨by rw [ff]; simp, by rw [fl]; simp, by rw [hsz]; simp, ?_, ?_, fun q' hh => ?_, fun j hjk hjx hjq => ?_⟩
    · rw [(fj x hkx.symm).2, get_upd_ne _ _ _ _ hqx.symm, get_upd_self _ _ _ hxs]; simp
    · rw [(fj x hkx.symm).1, get_upd_ne _ _ _ _ hqx.symm, get_upd_self _ _ _ hxs]; simp
    · simp only [Option.some.injEq] at hh
      subst hh
      rw [(fj q hqk).1, (fj q hqk).2, get_upd_self _ _ _ (by simpa using hqs)]
      simp only [setNext_next, setNext_prev]
      rw [get_upd_ne _ _ _ _ hqx]
      refine ⟨?_, ?_⟩ <;> first | rfl | trivial | simp
    · have hjq' : j ≠ q := fun hh => hjq (by rw [hh])
      rw [(fj j hjk).1, (fj j hjk).2, get_upd_ne _ _ _ _ hjq', get_upd_ne _ _ _ _ hjx]; exact ⟨rfl, rfl⟩

/-- in a well-formed stream the predecessor of a slot is a slot of the stream, another one, whose `next` is the slot -/
theorem linked_prev {s : Seg} {l : List Nat} {m q : Nat} (hl : Linked s l) (hm : m ∈ l) (hp : (s.get m).prev = some q) :
    q ∈ l ∧ q ≠ m ∧ (s.get q).next = some m := by
  obtain ⟨a, b, rfl⟩ := List.append_of_mem hm
  obtain ⟨hpv, hnx, hA, hB⟩ := chain_mid hl.chain
  simp only [Option.or_none] at hpv hnx
  rcases List.eq_nil_or_concat a with hnil | ⟨a', q', hq⟩
  · subst hnil
    rw [hpv] at hp
    simp at hp
  · rw [List.concat_eq_append] at hq
    subst hq
    rw [getLast?_concat'] at hpv
    rw [hpv] at hp
    simp only [Option.some.injEq] at hp
    subst hp
    have hnd := hl.nodup
    refine ⟨by simp, fun hh => (List.nodup_append.mp hnd).2.2 q' (by simp) m List.mem_cons_self hh, ?_⟩
    have := (chain_append (a := a') (b := [q'])).mp hA
    simpa [Chain] using this.2.2.1

theorem linked_first_mem {s : Seg} {l : List Nat} {k : Nat} (hl : Linked s l) (hk : k ∉ l) : s.first ≠ some k ∧ s.last ≠ some k :=
  ⟨fun hh => hk (head?_mem' (by rw [← hl.first]; exact hh)), fun hh => hk (getLast?_mem' (by rw [← hl.last]; exact hh))⟩

/-- **C19, the bracket of `Segment::justify`.**  A line-end slot in front of `n`, a second one in front of `m` - any two slots of the
stream, the same one included -, both taken out again last-inserted-first: the stream is exactly as it was. -/
theorem bracket_roundtrip {s s1 s2 s3 s4 : Seg} {l : List Nat} {n m g e1 e2 : Nat}
    (hl : Linked s l) (hc : Clean s l) (hn : n ∈ l) (hm : m ∈ l)
    (h1 : s.addLineEnd (some n) g = some (e1, s1)) (h2 : s1.addLineEnd (some m) g = some (e2, s2))
    (h3 : s2.delLineEnd e2 = some s3) (h4 : s3.delLineEnd e1 = some s4) : Linked s4 l := by
  cases hN1 : s.newSlot g with
  | none => unfold Seg.addLineEnd at h1; rw [hN1] at h1; cases h1
  | some r1 =>
  obtain ⟨k1, s0⟩ := r1
  obtain ⟨l0, _, hkl, hks, hkfree, _, _, _, c0⟩ := newSlot_spec hl hc (is := none) (.inl rfl) hN1
  have hns : n < s0.slots.size := l0.inb n hn
  have hk1n : k1 ≠ n := fun hh => hkl (hh ▸ hn)
  obtain ⟨he1, a_kn, a_kp, a_np, a_nn, a_o, a_f, a_l, a_sz, a_fr⟩ := addLineEnd_frame hN1 hk1n hks hns h1
  subst he1
  cases hN2 : s1.newSlot g with
  | none => unfold Seg.addLineEnd at h2; rw [hN2] at h2; cases h2
  | some r2 =>
  obtain ⟨k2, s10⟩ := r2
  have hinb1 : ∀ f ∈ s1.free, f < s1.slots.size := by rw [a_fr, a_sz]; exact c0.freeInb
  obtain ⟨b_f, b_l, b_szle, b_ks, b_mem, b_o, _⟩ := newSlot_frame hN2 hinb1
  have hk2l : k2 ∉ l := by
    rcases b_mem with h | h
    · rw [a_fr] at h; exact c0.freeOut k2 h
    · intro hh; have := l0.inb k2 hh; rw [h, a_sz] at this; omega
  have hk2k1 : k2 ≠ e1 := by
    rcases b_mem with h | h
    · rw [a_fr] at h; exact fun hh => hkfree (hh ▸ h)
    · rw [h, a_sz]; omega
  have hms0 : m < s0.slots.size := l0.inb m hm
  have hms : m < s10.slots.size := by rw [a_sz] at b_szle; omega
  have hk2m : k2 ≠ m := fun hh => hk2l (hh ▸ hm)
  have hk1m : e1 ≠ m := fun hh => hkl (hh ▸ hm)
  obtain ⟨he2, c_kn, c_kp, c_mp, c_mn, c_o, c_f, c_l, c_sz, c_fr⟩ := addLineEnd_frame hN2 hk2m b_ks hms h2
  subst he2
  -- the predecessor of `m` when the second sentinel goes in
  have hprev1 : ∀ q, (s1.get m).prev = some q → q ≠ e2 ∧ q ≠ m ∧ q < s0.slots.size ∧ (s1.get q).next = some m := by
    intro q hq
    by_cases hmn : m = n
    · subst hmn
      rw [a_np] at hq
      simp only [Option.some.injEq] at hq
      subst hq
      exact ⟨hk2k1.symm, hk1n, hks, a_kn⟩
    · rw [a_o m hk1m.symm hmn] at hq
      obtain ⟨hql, hqm, hqn⟩ := linked_prev l0 hm hq
      have hqk1 : q ≠ e1 := fun hh => hkl (hh ▸ hql)
      refine ⟨fun hh => hk2l (hh ▸ hql), hqm, l0.inb q hql, ?_⟩
      by_cases hqn' : q = n
      · subst hqn'; rw [a_nn]; exact hqn
      · rw [a_o q hqk1 hqn']; exact hqn
  have h10m : (s10.get m).prev = (s1.get m).prev := by rw [b_o m hk2m.symm]
  have hfl0 := linked_first_mem l0 hk2l
  have hfl1 := linked_first_mem l0 hkl
  obtain ⟨d_f, d_l, d_sz, d_mp, d_mn, d_q, d_o⟩ := delLineEnd_frame (u := s2) (x := m) (k := e2) (p := (s10.get m).prev) c_kn c_kp hk2m
    (by rw [c_sz]; exact hms) (by rw [c_f, b_f, a_f]; exact hfl0.1) (by rw [c_l, b_l, a_l]; exact hfl0.2)
    (fun q hq => by
      rw [h10m] at hq
      obtain ⟨x1, x2, x3, _⟩ := hprev1 q hq
      exact ⟨x1, x2, by rw [c_sz]; rw [a_sz] at b_szle; omega⟩) h3
  -- after the inner round trip every link is as it was after the first `addLineEnd`
  have E3 : ∀ j, j ≠ e2 → (s3.get j).next = (s1.get j).next ∧ (s3.get j).prev = (s1.get j).prev := by
    intro j hj
    by_cases hjm : j = m
    · subst hjm
      rw [d_mp, d_mn, c_mn, h10m, b_o j hj]
      exact ⟨rfl, rfl⟩
    · by_cases hjq : (s10.get m).prev = some j
      · obtain ⟨x1, x2⟩ := d_q j hjq
        rw [h10m] at hjq
        obtain ⟨_, _, _, y⟩ := hprev1 j hjq
        rw [x1, x2, c_o j hj hjm, b_o j hj, y]
        exact ⟨rfl, rfl⟩
      · obtain ⟨x1, x2⟩ := d_o j hj hjm hjq
        rw [x1, x2, c_o j hj hjm, b_o j hj]
        exact ⟨rfl, rfl⟩
  have hsz3 : s0.slots.size ≤ s3.slots.size := by rw [d_sz, c_sz]; rw [a_sz] at b_szle; exact b_szle
  obtain ⟨f_f, f_l, f_sz, f_np, f_nn, f_q, f_o⟩ := delLineEnd_frame (u := s3) (x := n) (k := e1) (p := (s0.get n).prev)
    (by rw [(E3 e1 hk2k1.symm).1]; exact a_kn) (by rw [(E3 e1 hk2k1.symm).2]; exact a_kp) hk1n (by omega)
    (by rw [d_f, c_f, b_f, a_f]; exact hfl1.1) (by rw [d_l, c_l, b_l, a_l]; exact hfl1.2)
    (fun q hq => by
      obtain ⟨hql, hqn, _⟩ := linked_prev l0 hn hq
      exact ⟨fun hh => hkl (hh ▸ hql), hqn, by have := l0.inb q hql; omega⟩) h4
  refine ⟨l0.nodup, fun j hj => by have := l0.inb j hj; rw [f_sz]; omega, by rw [f_f, d_f, c_f, b_f, a_f]; exact l0.first,
    by rw [f_l, d_l, c_l, b_l, a_l]; exact l0.last, ?_⟩
  refine chain_congr (fun j hjl => ?_) l0.chain
  have hjk1 : j ≠ e1 := fun hh => hkl (hh ▸ hjl)
  have hjk2 : j ≠ e2 := fun hh => hk2l (hh ▸ hjl)
  by_cases hjn : j = n
  · subst hjn
    rw [f_np, f_nn, (E3 j hjk2).1, a_nn]
    exact ⟨rfl, rfl⟩
  · by_cases hjq : (s0.get n).prev = some j
    · obtain ⟨x1, x2⟩ := f_q j hjq
      obtain ⟨_, _, y⟩ := linked_prev l0 hn hjq
      rw [x1, x2, (E3 j hjk2).2, a_o j hjk1 hjn, y]
      exact ⟨rfl, rfl⟩
    · obtain ⟨x1, x2⟩ := f_o j hjk1 hjn hjq
      rw [x1, x2, (E3 j hjk2).1, (E3 j hjk2).2, a_o j hjk1 hjn]
      exact ⟨rfl, rfl⟩

end GrVerif.Seg

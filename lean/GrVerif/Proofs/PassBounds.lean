import GrVerif.Proofs.Fsm
import GrVerif.Proofs.Reverse
import GrVerif.Proofs.RunPasses
set_option linter.unusedVariables false
set_option linter.unusedSimpArgs false
namespace GrVerif.Pass
open GrVerif.Vm GrVerif.Seg GrVerif.Action

/-- **the state machine never pushes more than its budget of slot-map cells**: cells pushed (inside the loop, plus the
final one) ≤ cells already pushed + remaining budget -/
theorem fsmScan_cells (p : PassT) : ∀ (gids : List Nat) (state free : Nat) (rules : List Nat) (pushed : Nat), 1 ≤ free →
    (fsmScan p gids state free rules pushed).2.1 + (if (fsmScan p gids state free rules pushed).2.2.1 then 1 else 0) ≤ pushed + free := by
  intro gids
  induction gids with
  | nil => intro state free rules pushed hf; simp [fsmScan]; omega
  | cons g rest ih =>
    intro state free rules pushed hf
    unfold fsmScan
    simp only []
    split
    · simp; omega
    · split
      · simp; omega
      · rename_i hfree
        split
        · simp; omega
        · split
          · have := ih ((p.trans.getD state #[]).getD (p.cols.getD g 0xFFFF) 0) (free - 1)
              (if (p.trans.getD state #[]).getD (p.cols.getD g 0xFFFF) 0 ≥ p.successStart then
                accumulate p rules (sortRules p (p.ruleMap.getD ((p.trans.getD state #[]).getD (p.cols.getD g 0xFFFF) 0 - p.successStart) [])) else rules)
              (pushed + 1) (by omega)
            omega
          · simp; omega

/-- at the start of `runFSM` the budget is `MAX_SLOTS`: the slot map (`MAX_SLOTS + 1` cells after the one for the
predecessor) is never written past its end -/
theorem fsm_stays_in_slot_map (p : PassT) (gids : List Nat) (state : Nat) :
    (fsmScan p gids state MAX_SLOTS [] 0).2.1 + (if (fsmScan p gids state MAX_SLOTS [] 0).2.2.1 then 1 else 0) ≤ MAX_SLOTS := by
  have := fsmScan_cells p gids state MAX_SLOTS [] 0 (by decide)
  omega

/-- `insert` refuses to run once the pass's insert budget is used up -/
theorem insert_respects_budget (c : Ctx) (h : c.maxSize ≤ 1) : ∃ c', opInsert c = .died c' := by
  unfold opInsert
  simp only []
  have : (c.setMaxSize (c.maxSize - 1)).maxSize ≤ 0 := by show c.maxSize - 1 ≤ 0; omega
  rw [if_pos this]
  exact ⟨_, rfl⟩

/-- **growth bound of a run of passes**: a run that returns a segment did not let it outgrow the call's limit -/
theorem runPasses_growth (passes : Array PassT) (limit : Int) (ar : Bool) (c0 : Ctx) (lo hi fuel : Nat) (c' : Ctx)
    (h : runPasses passes limit ar c0 lo hi fuel = .ok (some c')) :
    c'.seg.numGlyphs ≤ max limit 0 ∨ c'.seg.numGlyphs = c0.seg.numGlyphs := by
  unfold runPasses at h
  have gen : ∀ (ks : List Nat) (acc : Except String (Option Ctx)),
      (∀ a, acc = .ok (some a) → a.seg.numGlyphs ≤ max limit 0 ∨ a.seg.numGlyphs = c0.seg.numGlyphs) →
      ∀ a, ks.foldl (fun (acc : Except String (Option Ctx)) k =>
        match acc with
        | .ok (some c1) =>
          (match runPassDir (passes.getD (lo + k) default) c1 fuel ar with
           | .ok (some c2) => if c2.seg.numGlyphs > 0 ∧ c2.seg.numGlyphs > limit then .ok none else .ok (some c2)
           | o => o)
        | o => o) acc = .ok (some a) → a.seg.numGlyphs ≤ max limit 0 ∨ a.seg.numGlyphs = c0.seg.numGlyphs := by
    intro ks
    induction ks with
    | nil => intro acc hacc a ha; exact hacc a ha
    | cons k rest ih =>
      intro acc hacc a ha
      simp only [List.foldl_cons] at ha
      refine ih _ ?_ a ha
      intro b hb
      cases acc with
      | error e => cases hb
      | ok v =>
        cases v with
        | none => cases hb
        | some c1 =>
          simp only [] at hb
          generalize runPassDir (passes.getD (lo + k) default) c1 fuel ar = rp at hb
          cases rp with
          | error e => cases hb
          | ok w =>
            cases w with
            | none => cases hb
            | some c2 =>
              simp only [] at hb
              split at hb
              · cases hb
              · rename_i hnot
                simp only [Except.ok.injEq, Option.some.injEq] at hb
                subst hb
                left
                by_cases hz : c2.seg.numGlyphs > 0
                · have : ¬ (c2.seg.numGlyphs > limit) := fun hh => hnot ⟨hz, hh⟩
                  omega
                · omega
  exact gen _ _ (fun a ha => by simp only [Except.ok.injEq, Option.some.injEq] at ha; rw [← ha]; right; rfl) c' h

/-- **growth bound of a pass range**: a range of passes that returns a segment did not let it outgrow 64 times the number
of slots it started with -/
theorem runRange_growth (passes : Array PassT) (c : Ctx) (lo hi fuel : Nat) (c' : Ctx)
    (h : runRange passes c lo hi fuel = .ok (some c')) (hpos : 0 ≤ c.seg.numGlyphs) :
    c'.seg.numGlyphs ≤ c.seg.numGlyphs * 64 ∨ c'.seg.numGlyphs = c.seg.numGlyphs := by
  unfold runRange at h
  rcases runPasses_growth _ _ _ _ _ _ _ _ h with h1 | h1
  · left; omega
  · right; exact h1

theorem bidiStep_numGlyphs (c : Ctx) (aMirror : Nat) : (bidiStep c aMirror).seg.numGlyphs = c.seg.numGlyphs :=
  bidiStep_ind (fun s => s.numGlyphs = c.seg.numGlyphs) aMirror (fun s mark hs => (reverseSlots_same s mark).numGlyphs.trans hs)
    (fun gadv s i g hs => hs) c rfl

/-- **growth bound of a call of `Silf::runGraphite`**, with the bidi step or without -/
theorem runPhase_growth (passes : Array PassT) (bPass : Nat) (c : Ctx) (lo hi : Nat) (dobidi : Bool) (fuel : Nat) (c' : Ctx) {aMirror : Nat}
    (h : runPhase passes bPass c lo hi dobidi fuel aMirror = .ok (some c')) (hpos : 0 ≤ c.seg.numGlyphs) :
    c'.seg.numGlyphs ≤ c.seg.numGlyphs * 64 ∨ c'.seg.numGlyphs = c.seg.numGlyphs := by
  unfold runPhase at h
  simp only [] at h
  split at h
  · split at h
    · rename_i c1 h1
      have g1 := runPasses_growth _ _ _ _ _ _ _ _ h1
      have g2 := runPasses_growth _ _ _ _ _ _ _ _ h
      rw [bidiStep_numGlyphs] at g2
      have e0 : (c.beginRange (c.seg.numGlyphs * 64)).seg.numGlyphs = c.seg.numGlyphs := rfl
      rw [e0] at g1
      rcases g2 with g2 | g2
      · left; omega
      · rcases g1 with g1 | g1
        · left; omega
        · right; omega
    · rename_i o hno
      exact absurd h (fun hh => hno c' hh)
  · rcases runPasses_growth _ _ _ _ _ _ _ _ h with h1 | h1
    · left; omega
    · right; exact h1

end GrVerif.Pass

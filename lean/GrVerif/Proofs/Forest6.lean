import GrVerif.Proofs.Forest5
/-!
# The attachment forest through every opcode of a rule action

`PF c`: the stream invariant `PS c`, the forest of the segment, and what the cells of the slot map may hold
(`CellsOK`: slots inside the arena, not on the free list, real or temporary copies whose copied parent pointer is usable).
Every slot-manipulating opcode keeps `PF` (`ops_PF`), hence so does every action program.
-/
set_option linter.unusedSimpArgs false
set_option linter.unusedVariables false
namespace GrVerif.Action
open GrVerif.Vm GrVerif.Seg GrVerif.Gen.Vm

/-- a temporary copy whose copied parent pointer `put_copy` may use -/
def GoodCopy (s : Seg) (x : Nat) : Prop := ∀ p, (s.get x).parent = some p → Real s p ∧ p ∉ s.free ∧ p < s.slots.size

def CellsOK (c : Ctx) : Prop :=
  ∀ k x, c.smap.getD k none = some x → x < c.seg.slots.size ∧ x ∉ c.seg.free ∧ (Real c.seg x ∨ GoodCopy c.seg x)

/-- under these frame conditions the facts about cells survive -/
structure CopyFrame (s s' : Seg) : Prop where
  size : s.slots.size ≤ s'.slots.size
  free : ∀ f ∈ s'.free, f ∈ s.free ∨ s.slots.size ≤ f
  real : ∀ j, j < s.slots.size → j ∉ s.free → Real s j → Real s' j
  cop : ∀ j, ¬ Real s j → (s'.get j).parent = (s.get j).parent

theorem CopyFrame.rfl' (s : Seg) : CopyFrame s s := ⟨Nat.le_refl _, fun f hf => .inl hf, fun _ _ _ h => h, fun _ _ => rfl⟩

theorem CopyFrame.trans {s t u : Seg} (h1 : CopyFrame s t) (h2 : CopyFrame t u)
    (hr : ∀ j, ¬ Real s j → ¬ Real t j) : CopyFrame s u := by
  refine ⟨Nat.le_trans h1.size h2.size, fun f hf => ?_, fun j a b c => ?_, fun j hj => by rw [h2.cop j (hr j hj), h1.cop j hj]⟩
  · rcases h2.free f hf with h | h
    · exact h1.free f h
    · exact .inr (Nat.le_trans h1.size h)
  · refine h2.real j (Nat.lt_of_lt_of_le a h1.size) (fun hh => ?_) (h1.real j a b c)
    rcases h1.free j hh with h | h
    · exact b h
    · omega

theorem goodCopy_frame {s s' : Seg} (hf : CopyFrame s s') {x : Nat} (hx : ¬ Real s x) (h : GoodCopy s x) : GoodCopy s' x := by
  intro p hp
  rw [hf.cop x hx] at hp
  obtain ⟨h1, h2, h3⟩ := h p hp
  refine ⟨hf.real p h3 h2 h1, fun hh => ?_, Nat.lt_of_lt_of_le h3 hf.size⟩
  rcases hf.free p hh with h | h
  · exact h2 h
  · omega

theorem CellsOK.frame {c c' : Ctx} (h : CellsOK c) (hm : c'.smap = c.smap) (hf : CopyFrame c.seg c'.seg) : CellsOK c' := by
  intro k x hx
  rw [hm] at hx
  obtain ⟨h1, h2, h3⟩ := h k x hx
  refine ⟨Nat.lt_of_lt_of_le h1 hf.size, fun hh => ?_, ?_⟩
  · rcases hf.free x hh with h | h
    · exact h2 h
    · omega
  · by_cases hr : Real c.seg x
    · exact .inl (hf.real x h1 h2 hr)
    · rcases h3 with h3 | h3
      · exact absurd h3 hr
      · exact .inr (goodCopy_frame hf hr h3)

/-- same tree fields and size -/
theorem copyFrame_of_treeSame {s s' : Seg} (h : TreeSame s s') (hsz : s'.slots.size = s.slots.size) : CopyFrame s s' :=
  ⟨by omega, fun f hf => .inl (by rw [← h.free]; exact hf), fun j _ _ hj => by unfold Real; rw [(h.fld j).2.2.2]; exact hj,
   fun j _ => (h.fld j).1⟩

/-- free list, size and copy flags unchanged; copies keep their parent pointer -/
theorem copyFrame_of {s s' : Seg} (hfree : s'.free = s.free) (hsz : s'.slots.size = s.slots.size)
    (hcop : ∀ j, (s'.get j).copied = (s.get j).copied) (hpar : ∀ j, ¬ Real s j → (s'.get j).parent = (s.get j).parent) : CopyFrame s s' :=
  ⟨by omega, fun f hf => .inl (by rw [← hfree]; exact hf), fun j _ _ hj => by unfold Real; rw [hcop]; exact hj, hpar⟩

/-- the invariant of a rule context -/
def PF (c : Ctx) : Prop := PS c ∧ Forest c.seg ∧ CellsOK c

/-- the register `is` holds a real slot inside the arena that is not free -/
theorem J.is_facts {c : Ctx} {l : List Nat} (h : J c l) {i : Nat} (hi : c.is = some i) :
    i < c.seg.slots.size ∧ i ∉ c.seg.free ∧ Real c.seg i := by
  have hio := h.isok
  rw [hi] at hio
  rcases hio with h0 | ⟨i', h1, h2⟩ | ⟨d, h1, h2, h3, h4, h5, h6⟩
  · cases h0
  · cases h1
    exact ⟨h.linked.inb i h2, fun hh => h.clean.freeOut i hh h2, (h.clean.live i h2).2⟩
  · cases h1
    exact ⟨deleted_inb h3, fun hh => (by have := (h.clean.freeClean i hh).2.1; rw [h3] at this; cases this), h6⟩

/-- the parent of a real slot lies inside the arena -/
theorem forest_parent_inb {s : Seg} (hF : Forest s) {j p : Nat} (hj : Real s j) (hp : (s.get j).parent = some p) : p < s.slots.size := by
  obtain ⟨l, hk⟩ := hF.kids p (hF.par j p hj hp).1
  have hjl := hk.all j hj hp
  cases l with
  | nil => cases hjl
  | cons x r => exact child_inb hk.chain.1

theorem outcomeP_and {P Q : Ctx → Prop} {o : Outcome} (h1 : OutcomeP P o) (h2 : OutcomeP Q o) : OutcomeP (fun c => P c ∧ Q c) o := by
  cases o with
  | cont c => exact ⟨h1, h2⟩
  | died c => exact ⟨h1, h2⟩
  | fault w => trivial

/-- the part of `PF` that is not `PS` -/
def FC (c : Ctx) : Prop := Forest c.seg ∧ CellsOK c

theorem FC.congr {c c' : Ctx} (h : FC c) (hs : c'.seg = c.seg) (hm : c'.smap = c.smap) : FC c' := by
  refine ⟨by rw [hs]; exact h.1, ?_⟩
  intro k x hx
  rw [hm] at hx
  rw [hs]
  exact h.2 k x hx

theorem die_FC (c : Ctx) (h : FC c) : OutcomeP FC (die c) := h.congr rfl rfl

theorem next_FC (c : Ctx) (h : FC c) : OutcomeP FC (opNext c) := by
  unfold opNext
  split
  · exact die_FC c h
  · split
    · refine h.congr ?_ ?_
      · simp only [setMap_seg, setIs_seg, markHighpassed_seg]
      · unfold Ctx.setMap Ctx.setIs Ctx.markHighpassed; split <;> rfl
    · exact h.congr rfl rfl

theorem slotat_FC (c : Ctx) (x : Int) (h : FC c) : FC (slotat c x).2 := by
  unfold slotat
  simp only []
  split
  · exact h
  · exact h.congr rfl rfl

/-- an update of one slot that leaves the tree fields and the copy flag alone -/
theorem FC.updKeep {c : Ctx} (h : FC c) (i : Nat) (f : Slot → Slot)
    (hf : ∀ a, (f a).parent = a.parent ∧ (f a).child = a.child ∧ (f a).sibling = a.sibling ∧ (f a).copied = a.copied) :
    FC (c.withSeg (c.seg.upd i f)) := by
  have ts := TreeSame.upd c.seg i f hf
  exact ⟨forest_congr ts h.1, h.2.frame rfl (copyFrame_of_treeSame ts (by simp))⟩

theorem assocFold_FC (c0 : Ctx) (h0 : FC c0) : ∀ (refs : List Int) (acc : Int × Int × Ctx), FC acc.2.2 → FC (refs.foldl assocStep acc).2.2 := by
  intro refs
  induction refs with
  | nil => intro acc h; exact h
  | cons r rest ih =>
    intro acc h
    apply ih
    unfold assocStep
    simp only []
    split
    · exact slotat_FC _ _ h
    · exact slotat_FC _ _ h

theorem assoc_FC (c : Ctx) (rs : List Int) (h : FC c) : OutcomeP FC (opAssoc c rs) := by
  unfold opAssoc
  simp only []
  have h1 := assocFold_FC c h rs (-1, -1, c) h
  split
  · split
    · exact h1.updKeep _ _ (fun _ => ⟨rfl, rfl, rfl, rfl⟩)
    · trivial
  · exact h1

theorem putGlyph_FC (c : Ctx) (k : Nat) (h : FC c) : OutcomeP FC (opPutGlyph c k) := by
  unfold opPutGlyph
  split
  · exact h.updKeep _ _ (fun _ => ⟨rfl, rfl, rfl, rfl⟩)
  · trivial

theorem putSubs_FC (c : Ctx) (r : Int) (i o : Nat) (h : FC c) : OutcomeP FC (opPutSubs c r i o) := by
  unfold opPutSubs
  simp only []
  have h' := slotat_FC c r h
  split
  · split
    · exact h'.updKeep _ _ (fun _ => ⟨rfl, rfl, rfl, rfl⟩)
    · trivial
  · exact h'

/-! ## relinking the stream does not touch the tree -/

/-- same tree fields, copy and deletion flags, free list and size -/
def TS (s t : Seg) : Prop := TreeSame s t ∧ t.slots.size = s.slots.size ∧ ∀ j, (t.get j).deleted = (s.get j).deleted

theorem TS.rfl' (s : Seg) : TS s s := ⟨TreeSame.rfl' s, rfl, fun _ => rfl⟩
theorem TS.updR {s t : Seg} (h : TS s t) (i : Nat) (f : Slot → Slot)
    (hf : ∀ a, (f a).parent = a.parent ∧ (f a).child = a.child ∧ (f a).sibling = a.sibling ∧ (f a).copied = a.copied ∧ (f a).deleted = a.deleted) :
    TS s (t.upd i f) :=
  ⟨h.1.trans (TreeSame.upd t i f (fun a => ⟨(hf a).1, (hf a).2.1, (hf a).2.2.1, (hf a).2.2.2.1⟩)), by rw [upd_size]; exact h.2.1,
   fun j => by rw [get_upd]; split <;> first | (rw [(hf _).2.2.2.2]; exact h.2.2 j) | exact h.2.2 j⟩
theorem TS.setFirstR {s t : Seg} (h : TS s t) (v : Option Nat) : TS s (t.setFirst v) :=
  ⟨h.1.trans ⟨rfl, fun _ => ⟨rfl, rfl, rfl, rfl⟩⟩, h.2.1, h.2.2⟩
theorem TS.setLastR {s t : Seg} (h : TS s t) (v : Option Nat) : TS s (t.setLast v) :=
  ⟨h.1.trans ⟨rfl, fun _ => ⟨rfl, rfl, rfl, rfl⟩⟩, h.2.1, h.2.2⟩
theorem TS.addGlyphsR {s t : Seg} (h : TS s t) (d : Int) : TS s (t.addGlyphs d) :=
  ⟨h.1.trans ⟨rfl, fun _ => ⟨rfl, rfl, rfl, rfl⟩⟩, h.2.1, h.2.2⟩
theorem TS.trans {s t u : Seg} (h1 : TS s t) (h2 : TS t u) : TS s u :=
  ⟨h1.1.trans h2.1, by rw [h2.2.1, h1.2.1], fun j => by rw [h2.2.2 j, h1.2.2 j]⟩

theorem finishNew_TS (s : Seg) (n : Nat) (iss : Option Nat) : TS s (s.finishNew n iss) := by
  unfold Seg.finishNew
  simp only []
  split
  · refine TS.updR (TS.updR (TS.updR (TS.rfl' s) n _ ?_) _ _ ?_) n _ ?_ <;> (intro _; exact ⟨rfl, rfl, rfl, rfl, rfl⟩)
  · split
    · refine TS.updR (TS.updR (TS.rfl' s) n _ ?_) n _ ?_ <;> (intro _; exact ⟨rfl, rfl, rfl, rfl, rfl⟩)
    · refine TS.updR (TS.updR (TS.rfl' s) n _ ?_) n _ ?_ <;> (intro _; exact ⟨rfl, rfl, rfl, rfl, rfl⟩)

theorem linkAtEnd_TS (s : Seg) (n : Nat) : TS s (s.linkAtEnd n) := by
  unfold Seg.linkAtEnd
  simp only []
  split
  · refine TS.setLastR (TS.updR (TS.updR (TS.rfl' s) _ _ ?_) n _ ?_) _ <;> (intro _; exact ⟨rfl, rfl, rfl, rfl, rfl⟩)
  · exact TS.setLastR (TS.setFirstR (TS.rfl' s) _) _

theorem linkBefore_TS (s : Seg) (n i : Nat) : TS s (s.linkBefore n i) := by
  unfold Seg.linkBefore
  simp only []
  split
  · refine TS.updR (TS.updR (TS.rfl' s) _ _ ?_) n _ ?_ <;> (intro _; exact ⟨rfl, rfl, rfl, rfl, rfl⟩)
  · refine TS.setFirstR (TS.updR (TS.rfl' s) n _ ?_) _ <;> (intro _; exact ⟨rfl, rfl, rfl, rfl, rfl⟩)

theorem addGlyphs_TS (s : Seg) (d : Int) : TS s (s.addGlyphs d) := TS.addGlyphsR (TS.rfl' s) d

theorem linkNew_TS (s : Seg) (n : Nat) (iss : Option Nat) : TS s (s.linkNew n iss) := by
  unfold Seg.linkNew
  cases iss with
  | none => exact (linkAtEnd_TS s n).trans (finishNew_TS _ n none)
  | some i => exact (linkBefore_TS s n i).trans (finishNew_TS _ n (some i))

theorem unlink_TS (s : Seg) (i : Nat) : TS s (s.unlink i) := by
  unfold Seg.unlink
  have h1 : TS s (s.setNextOf (s.get i).prev (s.get i).next) := by
    unfold Seg.setNextOf
    split
    · refine TS.updR (TS.rfl' s) _ _ ?_ <;> (intro _; exact ⟨rfl, rfl, rfl, rfl, rfl⟩)
    · refine TS.setFirstR (TS.rfl' s) _ <;> (intro _; exact ⟨rfl, rfl, rfl, rfl, rfl⟩)
  refine h1.trans ?_
  unfold Seg.setPrevOf
  split
  · refine TS.updR (TS.rfl' _) _ _ ?_ <;> (intro _; exact ⟨rfl, rfl, rfl, rfl, rfl⟩)
  · exact TS.setLastR (TS.rfl' _) _

/-- `newSlot` as a frame: the arena only grows, the free list only shrinks (or is rebuilt from new blank slots) -/
theorem newSlot_copyFrame {s s' : Seg} {g k : Nat} (hinb : ∀ f ∈ s.free, f < s.slots.size) (e : s.newSlot g = some (k, s')) :
    CopyFrame s s' ∧ k < s'.slots.size ∧ (k ∈ s.free ∨ s.slots.size ≤ k) := by
  unfold Seg.newSlot at e
  split at e
  · rename_i i rest hfree
    simp only [Option.some.injEq, Prod.mk.injEq] at e
    obtain ⟨e1, e2⟩ := e
    subst e1
    have hget : ∀ j, (s'.get j).parent = (s.get j).parent ∧ (s'.get j).copied = (s.get j).copied := fun j => by
      rw [← e2]
      show ((s.upd i fun sl => sl.setNext none).get j).parent = _ ∧ ((s.upd i fun sl => sl.setNext none).get j).copied = _
      rw [upd_parent_keep, upd_copied_keep]
      · exact ⟨rfl, rfl⟩
      all_goals (intro _; rfl)
    have hsz : s'.slots.size = s.slots.size := by rw [← e2]; simp
    have hmem : i ∈ s.free := by rw [hfree]; exact List.mem_cons_self
    refine ⟨⟨by omega, fun f hf => .inl ?_, fun j _ _ hj => by unfold Real; rw [(hget j).2]; exact hj, fun j _ => (hget j).1⟩, ?_, .inl hmem⟩
    · have : s'.free = rest := by rw [← e2]
      rw [this] at hf; rw [hfree]; exact List.mem_cons_of_mem _ hf
    · rw [hsz]; exact hinb i hmem
  · split at e
    · cases e
    · simp only [Option.some.injEq, Prod.mk.injEq] at e
      obtain ⟨e1, e2⟩ := e
      have hget : ∀ j, s'.get j = s.get j := fun j => by rw [← e2]; exact get_grow' s _ j _
      have hsz : s'.slots.size = s.slots.size + max s.bufSize 1 := by rw [← e2]; simp
      refine ⟨⟨by omega, fun f hf => .inr ?_, fun j _ _ hj => by unfold Real; rw [hget]; exact hj, fun j _ => by rw [hget]⟩, by omega, .inr (by omega)⟩
      have : s'.free = (List.range (max s.bufSize 1 - 1)).map (· + s.slots.size + 1) := by rw [← e2]
      rw [this] at hf
      obtain ⟨x, _, rfl⟩ := List.mem_map.mp hf
      omega

/-! ## the opcodes that write the tree -/

theorem attrSet_FC (c : Ctx) (a b : Nat) (v : Int) (hps : PS c) (h : FC c) : OutcomeP FC (opAttrSet c a b v) := by
  unfold opAttrSet
  split
  · trivial
  · rename_i i hi
    obtain ⟨l, hj⟩ := hps
    obtain ⟨his, hif, hir⟩ := hj.is_facts hi
    split
    · -- attach.to
      unfold setAttTo
      simp only []
      split
      · split
        · exact h
        · rename_i other hcell
          split
          · exact h
          · rename_i hguard
            have hg : ¬ (other = i) ∧ ¬ (some other = (c.seg.get i).parent) ∧ ¬ ((c.seg.get other).copied = true) ∧
                ¬ ((c.seg.get other).deleted = true) := by
              refine ⟨fun hh => hguard (.inl hh), fun hh => hguard (.inr (.inl hh)), fun hh => hguard (.inr (.inr (.inl hh))),
                fun hh => hguard (.inr (.inr (.inr hh)))⟩
            obtain ⟨hos, hof, _⟩ := h.2 _ other hcell
            have hor : Real c.seg other := by
              unfold Real; cases hq : (c.seg.get other).copied with
              | false => rfl
              | true => exact absurd hq hg.2.2.1
            obtain ⟨hF', hfree', hcop', hpar', _⟩ := attach_forest h.1 (decide (c.dir ≠ 0) != decide ((v % 65536).toNat > b))
              hir hor (fun hh => hg.1 hh.symm) his hos hif hof
            refine ⟨hF', h.2.frame rfl (copyFrame_of hfree' (attach_same _ _ _ _).size hcop' (fun j hj => hpar' j (fun hh => hj (hh ▸ hir))))⟩
      · exact h
    · simp only []
      split <;> first
        | exact h.updKeep _ _ (fun _ => ⟨rfl, rfl, rfl, rfl⟩)
        | exact h

theorem delete_FC (c : Ctx) (hps : PS c) (h : FC c) : OutcomeP FC (opDelete c) := by
  unfold opDelete
  split
  · exact die_FC c h
  · rename_i i hi
    simp only []
    split
    · exact die_FC c h
    · obtain ⟨l, hj⟩ := hps
      obtain ⟨his, hif, hir⟩ := hj.is_facts hi
      -- marking and unlinking do not touch the tree
      have t1 : TreeSame c.seg ((c.seg.upd i fun sl => sl.setDeleted true).unlink i) ∧
          ((c.seg.upd i fun sl => sl.setDeleted true).unlink i).slots.size = c.seg.slots.size :=
        ⟨(TreeSame.upd c.seg i (fun sl => sl.setDeleted true) (fun _ => ⟨rfl, rfl, rfl, rfl⟩)).trans (unlink_TS _ i).1,
         by rw [(unlink_TS _ i).2.1]; simp⟩
      have hF1 := forest_congr t1.1 h.1
      have hir1 : Real ((c.seg.upd i fun sl => sl.setDeleted true).unlink i) i := by unfold Real; rw [(t1.1.fld i).2.2.2]; exact hir
      obtain ⟨hF2, hfree2, hcop2, hpar2, _, _⟩ := detach_forest hF1 hir1
      have hsz2 : (((c.seg.upd i fun sl => sl.setDeleted true).unlink i).detach i).slots.size = c.seg.slots.size := by
        have : (((c.seg.upd i fun sl => sl.setDeleted true).unlink i).detach i).slots.size =
            ((c.seg.upd i fun sl => sl.setDeleted true).unlink i).slots.size := by
          unfold Seg.detach
          exact ((unparent_same _ i).tr (detachChildren_same _ _ _)).size
        rw [this, t1.2]
      have t3 := (addGlyphs_TS (((c.seg.upd i fun sl => sl.setDeleted true).unlink i).detach i) (-1)).1
      refine FC.congr (c := ((c.moveHighwater (c.seg.get i).next).withSeg
        ((((c.seg.upd i fun sl => sl.setDeleted true).unlink i).detach i).addGlyphs (-1))).setIs
          (match (c.seg.get i).prev with | some p => some p | none => c.is)) ?_ (backOnto_seg _ _) (backOnto_smap _ _)
      refine ⟨forest_congr t3 hF2, ?_⟩
      have cf1 := copyFrame_of_treeSame t1.1 t1.2
      have cf2 : CopyFrame ((c.seg.upd i fun sl => sl.setDeleted true).unlink i)
          (((c.seg.upd i fun sl => sl.setDeleted true).unlink i).detach i) :=
        copyFrame_of hfree2 (by rw [hsz2, t1.2]) hcop2 hpar2
      have cf3 := copyFrame_of_treeSame t3 (by rfl)
      have cf := (cf1.trans cf2 (fun j hj => by unfold Real; rw [(t1.1.fld j).2.2.2]; exact hj)).trans cf3
        (fun j hj => by unfold Real; rw [hcop2, (t1.1.fld j).2.2.2]; exact hj)
      refine CellsOK.frame h.2 ?_ cf
      unfold Ctx.setIs Ctx.withSeg Ctx.moveHighwater
      split <;> rfl

theorem insert_FC (c : Ctx) (hps : PS c) (h : FC c) : OutcomeP FC (opInsert c) := by
  unfold opInsert
  simp only []
  have h' : FC (c.setMaxSize (c.maxSize - 1)) := h.congr rfl rfl
  split
  · exact die_FC _ h'
  · split
    · exact die_FC _ h'
    · rename_i k seg heq
      obtain ⟨l, hj⟩ := hps
      simp only [setMaxSize_seg] at heq
      obtain ⟨hF1, _, _, _, _, hcop1, _⟩ := newSlot_forest h.1 hj.clean.freeNodup heq
      obtain ⟨cf1, _, _⟩ := newSlot_copyFrame hj.clean.freeInb heq
      have t2 := (linkNew_TS seg k (skipDeleted seg (seg.slots.size + 1) (c.setMaxSize (c.maxSize - 1)).is)).trans
        (addGlyphs_TS _ 1)
      have cf := cf1.trans (copyFrame_of_treeSame t2.1 t2.2.1) (fun j hj => by unfold Real at hj ⊢; rw [hcop1]; exact hj)
      refine ⟨?_, ?_⟩
      · simp only [setMap_seg, setIs_seg, withSeg_seg]
        exact forest_congr t2.1 hF1
      · refine CellsOK.frame h.2 ?_ (by simp only [setMap_seg, setIs_seg, withSeg_seg]; exact cf)
        unfold Ctx.setMap Ctx.setIs Ctx.withSeg Ctx.markHighpassed Ctx.setMaxSize
        split <;> rfl

theorem copySlot_assoc_size (s : Seg) (i rf : Nat) : (s.copySlot i rf).slots.size = s.slots.size := by
  unfold Seg.copySlot
  simp only []
  split
  · split
    · simp
    · split
      · rw [(child_same _ _ _).size]; simp
      · rw [upd_size, (child_same _ _ _).size]; simp
  · simp

theorem unmark_treeSame {s : Seg} {i : Nat} (hi : Real s i) : TreeSame s (s.unmark i) ∧ (s.unmark i).slots.size = s.slots.size := by
  unfold Seg.unmark
  refine ⟨⟨rfl, fun j => ?_⟩, by simp⟩
  rw [get_upd]
  split
  · rename_i hh
    rw [hh.1]
    exact ⟨rfl, rfl, rfl, by show false = _; rw [show (s.get i).copied = false from hi]⟩
  · exact ⟨rfl, rfl, rfl, rfl⟩

theorem slotat_cell {c : Ctx} {x : Int} {rf : Nat} (h : (slotat c x).1 = some rf) : ∃ k, c.smap.getD k none = some rf := by
  unfold slotat at h
  simp only [] at h
  split at h
  · exact ⟨_, h⟩
  · cases h

theorem slotat_smap (c : Ctx) (x : Int) : (slotat c x).2.smap = c.smap := by
  unfold slotat; simp only []; split <;> rfl

theorem putCopy_FC (c : Ctx) (r : Int) (hps : PS c) (h : FC c) : OutcomeP FC (opPutCopy c r) := by
  unfold opPutCopy
  split
  · exact h
  · rename_i i hi
    split
    · exact h
    · obtain ⟨l, hj⟩ := hps
      obtain ⟨his, hif, hir⟩ := hj.is_facts hi
      simp only []
      have hseg : (slotat c r).2.seg = c.seg := slotat_seg c r
      have h' : FC (slotat c r).2 := slotat_FC c r h
      have hunm : FC ((slotat c r).2.withSeg ((slotat c r).2.seg.unmark i)) := by
        have t := unmark_treeSame (s := (slotat c r).2.seg) (i := i) (by rw [hseg]; exact hir)
        exact ⟨forest_congr t.1 h'.1, h'.2.frame rfl (copyFrame_of_treeSame t.1 t.2)⟩
      split
      · rename_i rf hrf
        split
        · split
          · exact die_FC _ h'
          · rename_i hguard
            have hp0 : ((slotat c r).2.seg.get i).parent = none := by
              cases hq : ((slotat c r).2.seg.get i).parent with
              | none => rfl
              | some x => exact absurd (.inl (by rw [hq]; rfl)) hguard
            have hc0 : ((slotat c r).2.seg.get i).child = none := by
              cases hq : ((slotat c r).2.seg.get i).child with
              | none => rfl
              | some x => exact absurd (.inr (by rw [hq]; rfl)) hguard
            obtain ⟨k, hk⟩ := slotat_cell hrf
            obtain ⟨hrs, hrfree, hrr⟩ := h.2 k rf hk
            rw [hseg] at hp0 hc0 ⊢
            have hgood : ∀ p, (c.seg.get rf).parent = some p → Real c.seg p ∧ p ∉ c.seg.free ∧ p < c.seg.slots.size := by
              intro p hp
              by_cases hreal : Real c.seg rf
              · exact ⟨(h.1.par rf p hreal hp).1, (h.1.par rf p hreal hp).2, forest_parent_inb h.1 hreal hp⟩
              · rcases hrr with hrr | hrr
                · exact absurd hrr hreal
                · exact hrr p hp
            obtain ⟨hF', hfree', hcop', hpar', _⟩ := copySlot_forest h.1 hir hp0 hc0 hif his hgood
            have hsz : ((c.seg.copySlot i rf).unmark i).slots.size = c.seg.slots.size := by
              unfold Seg.unmark
              rw [upd_size]
              exact (copySlot_assoc_size c.seg i rf)
            refine ⟨hF', CellsOK.frame h.2 (slotat_smap c r) (copyFrame_of hfree' hsz hcop' (fun j hj => hpar' j (fun hh => hj (hh ▸ hir))))⟩
        · exact hunm
      · exact hunm

theorem tempCopy_FC (c : Ctx) (hps : PS c) (h : FC c) : OutcomeP FC (opTempCopy c) := by
  unfold opTempCopy
  split
  · rename_i n seg i heq hisq
    obtain ⟨l, hj⟩ := hps
    obtain ⟨his, hif, hir⟩ := hj.is_facts hisq
    split
    · obtain ⟨hF1, hrn, hpn, hcn, hnf, hcop1, _, _, hpar1, _⟩ := newSlot_forest h.1 hj.clean.freeNodup heq
      obtain ⟨cf1, hns, hnold⟩ := newSlot_copyFrame hj.clean.freeInb heq
      have hF2 := forest_of_becomes_copy hF1 hrn hpn hcn hnf (fun _ => (seg.get i).setCopied true) (fun _ => rfl) hns
      -- the frame from the old segment to the one with the copy in it
      have hne : ∀ j, j < c.seg.slots.size → j ∉ c.seg.free → j ≠ n := fun j a b hh => by
        rcases hnold with h1 | h1
        · exact b (hh ▸ h1)
        · omega
      have cf : CopyFrame c.seg (seg.upd n fun _ => (seg.get i).setCopied true) := by
        refine ⟨by simpa using cf1.size, fun f hf => cf1.free f (by simpa using hf), fun j a b hjr => ?_, fun j hjn => ?_⟩
        · unfold Real; rw [get_upd_ne _ _ _ _ (hne j a b)]; exact cf1.real j a b hjr
        · have hjn1 : ¬ Real seg j := fun hh => hjn (by unfold Real at hh ⊢; rw [← hcop1]; exact hh)
          have : j ≠ n := fun hh => hjn1 (hh ▸ hrn)
          rw [get_upd_ne _ _ _ _ this]; exact cf1.cop j hjn
      refine ⟨by simpa using hF2, ?_⟩
      intro k x hx
      simp only [Ctx.setCell, Ctx.withSeg] at hx ⊢
      rw [Array.getD_eq_getD_getElem?, Array.getElem?_setIfInBounds] at hx
      split at hx
      · rename_i hk
        split at hx
        · -- the cell that now holds the copy
          simp only [Option.getD_some, Option.some.injEq] at hx
          subst hx
          refine ⟨by simpa using hns, by simpa using hnf, .inr ?_⟩
          intro p hp
          rw [get_upd_self _ _ _ hns] at hp
          have hp' : (c.seg.get i).parent = some p := by rw [← hpar1]; exact hp
          have hpp := h.1.par i p hir hp'
          have hps' := forest_parent_inb h.1 hir hp'
          refine ⟨cf.real p hps' hpp.2 hpp.1, fun hh => ?_, Nat.lt_of_lt_of_le hps' cf.size⟩
          rcases cf.free p hh with h1 | h1
          · exact hpp.2 h1
          · omega
        · simp at hx
      · have hx' : c.smap.getD k none = some x := by rw [Array.getD_eq_getD_getElem?]; exact hx
        obtain ⟨h1, h2, h3⟩ := h.2 k x hx'
        refine ⟨Nat.lt_of_lt_of_le h1 cf.size, fun hh => ?_, ?_⟩
        · rcases cf.free x hh with h | h
          · exact h2 h
          · omega
        · by_cases hr : Real c.seg x
          · exact .inl (cf.real x h1 h2 hr)
          · rcases h3 with h3 | h3
            · exact absurd h3 hr
            · exact .inr (goodCopy_frame cf hr h3)
    · trivial
  · exact die_FC c h

/-- **every slot-manipulating opcode keeps the stream, the attachment forest and the cell invariant** -/
theorem ops_PF : OpsPreserve PF := by
  refine ⟨?_, ?_, ?_, ?_, ?_, ?_, ?_, ?_, ?_, ?_⟩
  · intro c h; exact outcomeP_and (next_PS c h.1) (next_FC c h.2)
  · intro c h; exact outcomeP_and (insert_PS c h.1) (insert_FC c h.1 h.2)
  · intro c h; exact outcomeP_and (delete_PS c h.1) (delete_FC c h.1 h.2)
  · intro c r h; exact outcomeP_and (putCopy_PS c r h.1) (putCopy_FC c r h.1 h.2)
  · intro c rs h; exact outcomeP_and (assoc_PS c rs h.1) (assoc_FC c rs h.2)
  · intro c h; exact outcomeP_and (tempCopy_PS c h.1) (tempCopy_FC c h.1 h.2)
  · intro c a b v h; exact outcomeP_and (attrSet_PS c a b v h.1) (attrSet_FC c a b v h.1 h.2)
  · intro c k h; exact outcomeP_and (putGlyph_PS c k h.1) (putGlyph_FC c k h.2)
  · intro c r i o h; exact outcomeP_and (putSubs_PS c r i o h.1) (putSubs_FC c r i o h.2)
  · intro c x h; exact ⟨slotat_PS c x h.1, slotat_FC c x h.2⟩

end GrVerif.Action

import GrVerif.Proofs.CodeCursorC
import GrVerif.Proofs.RulesLoad
import GrVerif.Model.SilfLoad
/-!
# A pass the loader accepts passes the cursor tests

`passOK` (`Proofs/CursorPass.lean`) is the hypothesis of the null-cursor, slot-map, operand and totality theorems of C02.  Here it is
derived, pass by pass, from the model of `Pass::readPass` (`Model/RulesLoad.lean`): every rule record `Pass::readRules` returns has
`preContext < sortKey ≤ 63`, its action bytes were accepted by `Machine::Code`'s loading constructor as action code with exactly these two
numbers as `(pre_context, rule_length)`, its constraint bytes as constraint code, and the pass constraint as constraint code.
-/
set_option linter.unusedVariables false
set_option linter.unusedSimpArgs false
namespace GrVerif.Loader
open GrVerif.CodeLoad

/-- what `readRules` did with the two byte ranges of a rule -/
structure RuleLoaded (b : List Nat) (f : FontLimits) (pt : Nat) (x : RuleRec) : Prop where
  sort : x.sort ≤ 63 ∧ x.pre < x.sort
  ac : (slice b x.acBegin x.acEnd).isEmpty = true ∨ CodeLoad.load (f.toLimits x.pre x.sort) false pt (slice b x.acBegin x.acEnd) = .ok (.ok x.action)
  rc : (slice b x.rcBegin x.rcEnd).isEmpty = true ∨ CodeLoad.load (f.toLimits x.pre x.sort) true pt (slice b x.rcBegin x.rcEnd) = .ok (.ok x.constraint)

theorem loadInPool_load (l : Limits) (constraint : Bool) (pt : Nat) (code : List Nat) (free poolSz : Nat) {p : Option Loaded} {free' : Nat}
    (e : loadInPool l constraint pt code free poolSz = .ok (.ok p, free')) :
    code.isEmpty = true ∨ CodeLoad.load l constraint pt code = .ok (.ok p) := by
  unfold loadInPool at e
  by_cases he : code.isEmpty = true
  · exact .inl he
  right
  simp only [he, Bool.false_eq_true, if_false, bind, Except.bind, pure, Except.pure] at e
  by_cases hroom : free + 9 * code.length > poolSz
  · rw [if_pos hroom] at e; cases e
  rw [if_neg hroom] at e
  cases hl : CodeLoad.load l constraint pt code with
  | error ff => rw [hl] at e; cases e
  | ok r =>
    rw [hl] at e
    cases r with
    | error s => simp only [Except.ok.injEq, Prod.mk.injEq] at e; obtain ⟨e1, _⟩ := e; cases e1
    | ok q =>
      simp only [] at e
      by_cases hsz : free + totalSz q > poolSz
      · rw [if_pos hsz] at e; cases e
      rw [if_neg hsz] at e
      simp only [Except.ok.injEq, Prod.mk.injEq] at e
      obtain ⟨e1, _⟩ := e
      cases e1
      rfl

theorem rulesLoop_loaded (b : List Nat) (L : PassLayout) (f : FontLimits) (pt poolSz : Nat) :
    ∀ (n acEnd rcEnd free : Nat) (rs : List RuleRec), rulesLoop b L f pt poolSz n acEnd rcEnd free = .ok (.ok rs) → ∀ x ∈ rs, RuleLoaded b f pt x := by
  intro n
  induction n with
  | zero =>
    intro _ _ _ rs e x hx
    unfold rulesLoop at e
    simp only [Except.ok.injEq] at e
    subst e
    cases hx
  | succ n ih =>
    intro acEnd rcEnd free rs e x hx
    unfold rulesLoop at e
    simp only [bind, Except.bind, pure, Except.pure] at e
    cases h1 : byteAt b (L.arr.precontext + n) with
    | error ff => rw [h1] at e; cases e
    | ok pre =>
    rw [h1] at e
    simp only [] at e
    cases h2 : be16 b (L.arr.sortKeys + n * 2) with
    | error ff => rw [h2] at e; cases e
    | ok sort =>
    rw [h2] at e
    simp only [] at e
    by_cases c1 : sort > 63 ∨ pre ≥ sort ∨ pre > L.arr.maxPre ∨ pre < L.arr.minPre
    · rw [if_pos c1] at e; cases e
    rw [if_neg c1] at e
    cases h3 : be16 b (L.arr.oActions + n * 2) with
    | error ff => rw [h3] at e; cases e
    | ok oa =>
    rw [h3] at e
    simp only [] at e
    cases h4 : be16 b (L.arr.oConstraint + n * 2) with
    | error ff => rw [h4] at e; cases e
    | ok oc =>
    rw [h4] at e
    simp only [] at e
    generalize hrb : (if oc ≠ 0 then L.codes.rcCode + oc else rcEnd) = rcBegin at e
    by_cases c2 : L.codes.aCode + oa > acEnd ∨ L.codes.aCode + oa > L.codes.aCode + L.codes.acLen ∨ acEnd > L.codes.aCode + L.codes.acLen ∨
        rcBegin > rcEnd ∨ rcBegin > L.codes.rcCode + L.codes.rcLen ∨ rcEnd > L.codes.rcCode + L.codes.rcLen
    · rw [if_pos c2] at e; cases e
    rw [if_neg c2] at e
    by_cases c3 : estimate (acEnd - (L.codes.aCode + oa) + (rcEnd - rcBegin)) 2 sort > poolSz - free
    · rw [if_pos c3] at e; cases e
    rw [if_neg c3] at e
    cases ha : loadInPool (f.toLimits pre sort) false pt (slice b (L.codes.aCode + oa) acEnd) free poolSz with
    | error ff => rw [ha] at e; cases e
    | ok ra1 =>
    obtain ⟨ra, free1⟩ := ra1
    rw [ha] at e
    simp only [] at e
    cases hc : loadInPool (f.toLimits pre sort) true pt (slice b rcBegin rcEnd) free1 poolSz with
    | error ff => rw [hc] at e; cases e
    | ok rc1 =>
    obtain ⟨rc, free2⟩ := rc1
    rw [hc] at e
    simp only [] at e
    cases ra with
    | error s => cases e
    | ok pa =>
    simp only [] at e
    cases rc with
    | error s => cases e
    | ok pc =>
    simp only [] at e
    by_cases hmut : mutableCode pc = true
    · rw [if_pos hmut] at e; cases e
    rw [if_neg hmut] at e
    cases hr : rulesLoop b L f pt poolSz n (L.codes.aCode + oa) rcBegin free2 with
    | error ff => rw [hr] at e; cases e
    | ok r =>
    rw [hr] at e
    cases r with
    | error ee => cases e
    | ok rest =>
    simp only [Except.ok.injEq] at e
    subst e
    rcases List.mem_append.mp hx with hx | hx
    · exact ih _ _ _ rest hr x hx
    · simp only [List.mem_singleton] at hx
      subst hx
      exact ⟨by simp only []; omega, loadInPool_load _ _ _ _ _ _ ha, loadInPool_load _ _ _ _ _ _ hc⟩

theorem readRules_loaded (b : List Nat) (L : PassLayout) (f : FontLimits) (pt : Nat) (rs : List RuleRec)
    (e : readRules b L f pt = .ok (.ok rs)) : ∀ x ∈ rs, RuleLoaded b f pt x := by
  unfold readRules at e
  simp only [bind, Except.bind, pure, Except.pure] at e
  cases h1 : sumSorts b L L.hdr.numRules with
  | error ff => rw [h1] at e; cases e
  | ok t =>
    rw [h1] at e
    cases t with
    | none => cases e
    | some totalSlots =>
      simp only [] at e
      cases h2 : rulesLoop b L f pt (estimate (L.codes.acLen + L.codes.rcLen) (2 * L.hdr.numRules) totalSlots) L.hdr.numRules
          (L.codes.aCode + L.codes.acLen) (L.codes.rcCode + L.codes.rcLen) 0 with
      | error ff => rw [h2] at e; cases e
      | ok r =>
        rw [h2] at e
        cases r with
        | error ee => cases e
        | ok rs' =>
          simp only [] at e
          split at e
          · cases e
          · simp only [Except.ok.injEq] at e
            subst e
            exact rulesLoop_loaded b L f pt _ _ _ _ _ rs' h2

/-- the rule of the pipeline model that a rule record stands for: the two numbers and the two byte ranges -/
def ruleOf (b : List Nat) (x : RuleRec) : Pass.Rule :=
  { sort := x.sort, pre := x.pre, constraint := slice b x.rcBegin x.rcEnd, action := slice b x.acBegin x.acEnd }

theorem ruleLoaded_ruleOK (b : List Nat) (f : FontLimits) (pt : Nat) (x : RuleRec) (h : RuleLoaded b f pt x) : Pass.ruleOK (ruleOf b x) = true := by
  unfold Pass.ruleOK ruleOf
  simp only [Bool.and_eq_true, Bool.or_eq_true, decide_eq_true_eq]
  refine ⟨?_, ?_⟩
  · rcases h.ac with he | hl
    · exact .inl he
    · exact .inr ⟨h.sort.2, accepted_action_is_codeOK' (f.toLimits x.pre x.sort) pt _ x.action (by show x.sort < 65536; have := h.sort.1; omega) hl⟩
  · rcases h.rc with he | hl
    · exact .inl he
    · exact .inr (accepted_constraint_is_codeOK (f.toLimits x.pre x.sort) pt _ x.constraint hl ⟨0, 1, false⟩ rfl)

/-- the bytes of the pass constraint -/
def pconstraintOf (b : List Nat) (L : PassLayout) : List Nat := slice b L.codes.pcCode (L.codes.pcCode + L.arr.pcLen)

theorem loadPassConstraint_codeOK (b : List Nat) (L : PassLayout) (f : FontLimits) (op : Option Loaded)
    (e : loadPassConstraint b L f = .ok (.ok op)) : (pconstraintOf b L).isEmpty = true ∨ Pass.codeOK ⟨0, 1, false⟩ (pconstraintOf b L) false = true := by
  unfold loadPassConstraint at e
  by_cases h0 : L.arr.pcLen = 0
  · left
    unfold pconstraintOf slice
    rw [h0]
    simp
  · right
    rw [if_neg h0] at e
    cases h1 : byteAt b L.arr.precontext with
    | error ff => rw [h1] at e; cases e
    | ok pre =>
      rw [h1] at e
      simp only [] at e
      cases h2 : be16 b L.arr.sortKeys with
      | error ff => rw [h2] at e; cases e
      | ok sort =>
        rw [h2] at e
        simp only [] at e
        exact accepted_constraint_is_codeOK (f.toLimits pre sort) 0 _ op e ⟨0, 1, false⟩ rfl

/-- **A pass `Pass::readPass` accepts is `passOK`**: whatever the rest of a pipeline-model pass is (state machine, loop limit, direction
flag), with the rules and the pass constraint the loader read it passes the cursor tests. -/
theorem readPassAll_passOK (b : List Nat) (base : Nat) (collOK : Bool) (f : FontLimits) (pt : Nat) (P : PassAll)
    (e : readPassAll b base collOK f pt = .ok (.ok P)) (p : Pass.PassT)
    (hr : p.rules = (P.rules.map (ruleOf b)).toArray) (hp : p.pconstraint = pconstraintOf b P.layout) : Pass.passOK p = true := by
  unfold readPassAll at e
  simp only [bind, Except.bind, pure, Except.pure] at e
  cases h1 : readPassLayout b base collOK with
  | error ff => rw [h1] at e; cases e
  | ok r1 =>
  rw [h1] at e
  cases r1 with
  | error ee => cases e
  | ok L =>
  simp only [] at e
  cases h2 : loadPassConstraint b L f with
  | error ff => rw [h2] at e; cases e
  | ok pcons =>
  rw [h2] at e
  simp only [] at e
  cases pcons with
  | error ee => cases e
  | ok pcv =>
  simp only [] at e
  have hpc := loadPassConstraint_codeOK b L f pcv h2
  have fin : ∀ (rules : List RuleRec), (∀ x ∈ rules, RuleLoaded b f pt x) → P.layout = L → P.rules = rules → Pass.passOK p = true := by
    intro rules hall hL hR
    unfold Pass.passOK
    rw [hr, hp, hL, hR]
    simp only [Bool.and_eq_true, Bool.or_eq_true]
    refine ⟨?_, hpc⟩
    simp only [List.all_toArray, List.all_eq_true, List.mem_map]
    rintro r ⟨x, hx, rfl⟩
    exact ruleLoaded_ruleOK b f pt x (hall x hx)
  by_cases hn : L.hdr.numRules = 0
  · rw [if_pos hn] at e
    simp only [Except.ok.injEq] at e
    subst e
    exact fin [] (fun x hx => by cases hx) rfl rfl
  rw [if_neg hn] at e
  cases h3 : readRanges L.arr.numGlyphs L.hdr.numColumns ((b.drop L.arr.ranges).take (L.hdr.numRanges * 6)) L.hdr.numRanges with
  | error ff => rw [h3] at e; cases e
  | ok rg =>
  rw [h3] at e
  cases rg with
  | none => cases e
  | some cols =>
  simp only [] at e
  cases h4 : readRules b L f pt with
  | error ff => rw [h4] at e; cases e
  | ok rr =>
  rw [h4] at e
  cases rr with
  | error ee => cases e
  | ok rules =>
  simp only [] at e
  cases h5 : readRuleMap b L with
  | error ff => rw [h5] at e; cases e
  | ok rm1 =>
  rw [h5] at e
  cases rm1 with
  | error ee => cases e
  | ok rm =>
  simp only [] at e
  cases h6 : readStates b L with
  | error ff => rw [h6] at e; cases e
  | ok st1 =>
  rw [h6] at e
  cases st1 with
  | error ee => cases e
  | ok T =>
  simp only [Except.ok.injEq] at e
  subst e
  exact fin rules (readRules_loaded b L f pt rules h4) rfl rfl

/-! ## every pass of a Silf table the loader accepts -/

/-- a pass slot of an accepted sub-table came out of `Pass::readPass` on exactly its bytes -/
def SlotLoaded (b : List Nat) (s : PassSlot) : Prop :=
  ∃ collOK fl, readPassAll ((b.drop s.start).take (s.stop - s.start)) s.start collOK fl (s.pt + 1) = .ok (.ok s.pass)

theorem readSilfPasses_loaded (b : List Nat) (f : SilfFixed) (m : SilfMid) (hasBoxes : Bool) (fl : FontLimits) :
    ∀ (n i : Nat) (ps : List PassSlot), readSilfPasses b f m hasBoxes fl n i = .ok (.ok ps) → ∀ s ∈ ps, SlotLoaded b s := by
  intro n
  induction n with
  | zero =>
    intro i ps e s hs
    unfold readSilfPasses at e
    simp only [Except.ok.injEq] at e
    subst e
    cases hs
  | succ n ih =>
    intro i ps e s hs
    unfold readSilfPasses at e
    simp only [bind, Except.bind, pure, Except.pure] at e
    cases h1 : be32 b (m.oPasses + i * 4) with
    | error ff => rw [h1] at e; cases e
    | ok pst =>
    rw [h1] at e
    simp only [] at e
    cases h2 : be32 b (m.oPasses + (i + 1) * 4) with
    | error ff => rw [h2] at e; cases e
    | ok pe =>
    rw [h2] at e
    simp only [] at e
    by_cases c1 : pst > pe
    · rw [if_pos c1] at e; cases e
    rw [if_neg c1] at e
    by_cases c2 : pst < m.passesStart
    · rw [if_pos c2] at e; cases e
    rw [if_neg c2] at e
    by_cases c3 : pe > b.length
    · rw [if_pos c3] at e; cases e
    rw [if_neg c3] at e
    cases h3 : readPassAll ((b.drop pst).take (pe - pst)) pst (passCollOK f m hasBoxes i) fl (passType f i + 1) with
    | error ff => rw [h3] at e; cases e
    | ok r =>
    rw [h3] at e
    cases r with
    | error ee => cases e
    | ok P =>
    simp only [] at e
    cases h4 : readSilfPasses b f m hasBoxes fl n (i + 1) with
    | error ff => rw [h4] at e; cases e
    | ok r2 =>
    rw [h4] at e
    cases r2 with
    | error ee => cases e
    | ok rest =>
    simp only [Except.ok.injEq] at e
    subst e
    rcases List.mem_cons.mp hs with rfl | hs
    · exact ⟨_, _, h3⟩
    · exact ih (i + 1) rest h4 s hs

theorem liftE_ok {α} {r : Except Fault (Except Nat α)} {a : α} (h : liftE r = .ok (.ok a)) : r = .ok (.ok a) := by
  unfold liftE at h
  split at h
  · cases h
  · cases h
  · simp only [Except.ok.injEq] at h; subst h; rfl

theorem readSilf_loaded (b : List Nat) (version numGlyphs numAttrs : Nat) (hasBoxes : Bool) (numFeats : Nat) (t : SilfTable)
    (e : readSilf b version numGlyphs numAttrs hasBoxes numFeats = .ok (.ok t)) : ∀ s ∈ t.passes, SlotLoaded b s := by
  unfold readSilf at e
  split at e
  · cases e
  · cases e
  rename_i f hf
  split at e
  · cases e
  · cases e
  rename_i m hm
  split at e
  · cases e
  split at e
  · cases e
  · cases e
  rename_i pseudos classAt hps
  split at e
  · cases e
  · cases e
  rename_i cm hcm
  split at e
  · cases e
  split at e
  · cases e
  · cases e
  rename_i passes hpasses
  simp only [Except.ok.injEq] at e
  subst e
  exact readSilfPasses_loaded b f m hasBoxes _ _ _ passes hpasses

theorem readSilfSubs_loaded (b : List Nat) (version numGlyphs numAttrs : Nat) (hasBoxes : Bool) (numFeats base : Nat) :
    ∀ (n i : Nat) (ts : List SilfTable), readSilfSubs b version numGlyphs numAttrs hasBoxes numFeats base n i = .ok (.ok ts) →
      ∀ t ∈ ts, ∃ sub : List Nat, ∀ s ∈ t.passes, SlotLoaded sub s := by
  intro n
  induction n with
  | zero =>
    intro i ts e t ht
    unfold readSilfSubs at e
    simp only [Except.ok.injEq] at e
    subst e
    cases ht
  | succ n ih =>
    intro i ts e t ht
    unfold readSilfSubs at e
    simp only [bind, Except.bind, pure, Except.pure] at e
    cases h1 : be32 b (base + i * 4) with
    | error ff => rw [h1] at e; cases e
    | ok offset =>
    rw [h1] at e
    simp only [] at e
    cases h2 : (if n = 0 then Except.ok b.length else be32 b (base + (i + 1) * 4)) with
    | error ff => rw [h2] at e; cases e
    | ok next =>
    rw [h2] at e
    simp only [] at e
    by_cases c1 : next > b.length ∨ offset ≥ next
    · rw [if_pos c1] at e; cases e
    rw [if_neg c1] at e
    cases h3 : readSilf ((b.drop offset).take (next - offset)) version numGlyphs numAttrs hasBoxes numFeats with
    | error ff => rw [h3] at e; cases e
    | ok r =>
    rw [h3] at e
    cases r with
    | error ee => cases e
    | ok t0 =>
    simp only [] at e
    cases h4 : readSilfSubs b version numGlyphs numAttrs hasBoxes numFeats base n (i + 1) with
    | error ff => rw [h4] at e; cases e
    | ok r2 =>
    rw [h4] at e
    cases r2 with
    | error ee => cases e
    | ok rest =>
    simp only [Except.ok.injEq] at e
    subst e
    rcases List.mem_cons.mp ht with rfl | ht
    · exact ⟨_, readSilf_loaded _ _ _ _ _ _ _ h3⟩
    · exact ih (i + 1) rest h4 t ht

/-- **Every pass of every sub-table of a Silf table `Face::readGraphite` accepts passes the cursor tests** – for any bytes of the table,
any glyph and attribute counts of the font: the slot's pass was read by `Pass::readPass` from a byte range of the sub-table, and any
pipeline-model pass with the rules and pass constraint of that range is `passOK`. -/
theorem readSilfTable_passOK (b : List Nat) (numGlyphs numAttrs : Nat) (hasBoxes : Bool) (numFeats : Nat) (ts : List SilfTable)
    (e : readSilfTable b numGlyphs numAttrs hasBoxes numFeats = .ok (.ok ts)) :
    ∀ t ∈ ts, ∀ s ∈ t.passes, ∃ bytes : List Nat, ∀ p : Pass.PassT, p.rules = (s.pass.rules.map (ruleOf bytes)).toArray →
      p.pconstraint = pconstraintOf bytes s.pass.layout → Pass.passOK p = true := by
  intro t ht s hs
  unfold readSilfTable at e
  simp only [bind, Except.bind, pure, Except.pure] at e
  by_cases c0 : b.length < 20
  · rw [if_pos c0] at e; cases e
  rw [if_neg c0] at e
  cases h1 : be32 b 0 with
  | error ff => rw [h1] at e; cases e
  | ok version =>
  rw [h1] at e
  simp only [] at e
  by_cases c1 : version < 0x00020000
  · rw [if_pos c1] at e; cases e
  rw [if_neg c1] at e
  cases h2 : be16 b ((if version ≥ 0x00030000 then 12 else 8) - 4) with
  | error ff => rw [h2] at e; cases e
  | ok numSilf =>
  rw [h2] at e
  simp only [] at e
  obtain ⟨sub, hsub⟩ := readSilfSubs_loaded b version numGlyphs numAttrs hasBoxes numFeats _ _ _ ts e t ht
  obtain ⟨collOK, fl, hl⟩ := hsub s hs
  exact ⟨_, fun p hr hp => readPassAll_passOK _ _ collOK fl _ s.pass hl p hr hp⟩

end GrVerif.Loader

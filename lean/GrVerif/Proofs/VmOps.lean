import GrVerif.Proofs.VmBuild
import GrVerif.Spec.Opcodes
import GrVerif.Proofs.Bits
/-! Every regenerated scalar opcode body (`Gen.Vm.op_*`) computes what the opcode specification says. -/
set_option linter.unusedSimpArgs false
set_option linter.unusedVariables false
namespace GrVerif.Vm
open GrVerif.Gen.Vm GrVerif.Spec.Vm

/-- an `int32` value -/
def InR (x : Int) : Prop := -2147483648 ≤ x ∧ x < 2147483648

theorem build_head_congr {below st above : List Int} {dp data status} {v v' : Int} (h : v = v') :
    build below (v :: st) above dp data status = build below (v' :: st) above dp data status := by rw [h]

theorem i32_id {x : Int} (h : InR x) : i32 x = x := by unfold InR at h; unfold i32; omega
theorem wrap32_inR (x : Int) : InR (wrap32 x) := by unfold InR wrap32; omega
theorem i32_eq_wrap32 (x : Int) : i32 x = wrap32 x := rfl
theorem i32_u32 (x : Int) : i32 (u32 x) = wrap32 x := by unfold i32 u32 wrap32; omega
theorem bool_inR (b : Bool) : InR (Spec.Vm.bool b) := by cases b <;> simp [InR, Spec.Vm.bool]
theorem b2i_eq_bool (b : Bool) : b2i b = Spec.Vm.bool b := rfl
theorem i32_bool (b : Bool) : i32 (b2i b) = Spec.Vm.bool b := by cases b <;> rfl

variable (below st above : List Int) (dp : Nat) (data : Array Nat) (status : Status)

theorem nop_spec : op_nop (build below st above dp data status) = .ok () (build below st above dp data status) := rfl

theorem add_spec (x y : Int) (hb : below ≠ []) :
    op_add (build below (x :: y :: st) above dp data status) = .ok () (build below (wrap32 (y + x) :: st) (x :: above) dp data status) := by
  simp [op_add, hb]; apply build_head_congr; unfold i32 u32 wrap32; omega

theorem sub_spec (x y : Int) (hb : below ≠ []) :
    op_sub (build below (x :: y :: st) above dp data status) = .ok () (build below (wrap32 (y - x) :: st) (x :: above) dp data status) := by
  simp [op_sub, hb]; apply build_head_congr; unfold i32 u32 wrap32; omega

theorem mul_wrap (x y : Int) : i32 (u32 (u32 y * u32 x)) = wrap32 (y * x) := by
  rw [i32_u32]
  unfold u32 wrap32
  have h : (y % 4294967296 * (x % 4294967296) + 2147483648) % 4294967296 = (y * x + 2147483648) % 4294967296 := by
    rw [Int.add_emod, ← Int.mul_emod, ← Int.add_emod]
  rw [h]

theorem mul_spec (x y : Int) (hb : below ≠ []) :
    op_mul (build below (x :: y :: st) above dp data status) = .ok () (build below (wrap32 (y * x) :: st) (x :: above) dp data status) := by
  simp [op_mul, hb]; apply build_head_congr; exact mul_wrap x y

theorem i32_neg1 : i32 (-1) = -1 := by decide

theorem tdiv_inR (x y : Int) (hx : InR x) (hy : InR y) (h : ¬ (x = 0 ∨ (y = INT_MIN ∧ x = -1))) : InR (Int.tdiv y x) := by
  unfold InR INT_MIN at *
  have hb := Int.natAbs_tdiv_le_natAbs y x
  by_cases hq : Int.tdiv y x = 2147483648
  · exfalso
    have hm := Int.mul_tdiv_add_tmod y x
    rw [hq] at hm
    have hx0 : x ≠ 0 := fun e => h (Or.inl e)
    have hr : (Int.tmod y x).natAbs < x.natAbs := by
      rw [Int.natAbs_tmod]; exact Nat.mod_lt _ (by omega)
    rw [hq] at hb
    have hy' : y = -2147483648 := by omega
    have : x = -1 := by omega
    exact h (Or.inr ⟨hy', this⟩)
  · omega

theorem div_spec (x y : Int) (hb : below ≠ []) (hx : InR x) (hy : InR y) :
    op_div_ (build below (x :: y :: st) above dp data status) =
      if x = 0 ∨ (y = INT_MIN ∧ x = -1) then .stop .exited (build below (1 :: y :: st) above dp data .died_early)
      else .ok () (build below (Int.tdiv y x :: st) (x :: above) dp data status) := by
  have hyy : i32 y = y := i32_id hy
  by_cases h : x = 0 ∨ (y = INT_MIN ∧ x = -1)
  · have hc : ¬x = 0 → y = -2147483648 ∧ x = -1 := by
      intro hx0; rcases h with h | h
      · exact absurd h hx0
      · exact h
    simp [op_div_, hb, hyy, b2i, i32_neg1]
    rw [if_pos hc]
    simp [hb, h]
  · have hc : ¬ (¬x = 0 → y = -2147483648 ∧ x = -1) := by
      intro hc; apply h
      by_cases hx0 : x = 0
      · exact Or.inl hx0
      · exact Or.inr (hc hx0)
    have hq := tdiv_inR x y hx hy h
    simp [op_div_, hb, hyy, b2i, i32_neg1]
    rw [if_neg hc]
    simp [hb, h, hyy, cdiv, i32_id hq]

theorem min_spec (x y : Int) (hb : below ≠ []) :
    op_min_ (build below (x :: y :: st) above dp data status) = .ok () (build below (min y x :: st) (x :: above) dp data status) := by
  by_cases h : x < y
  · simp [op_min_, hb, b2i, h]; apply build_head_congr; omega
  · simp [op_min_, hb, b2i, h]; apply build_head_congr; omega

theorem max_spec (x y : Int) (hb : below ≠ []) :
    op_max_ (build below (x :: y :: st) above dp data status) = .ok () (build below (max y x :: st) (x :: above) dp data status) := by
  by_cases h : x > y
  · simp [op_max_, hb, b2i, h]; apply build_head_congr; omega
  · simp [op_max_, hb, b2i, h]; apply build_head_congr; omega

theorem neg_spec (x : Int) (hb : below ≠ []) (hx : InR x) :
    op_neg (build below (x :: st) above dp data status) = .ok () (build below (wrap32 (-x) :: st) above dp data status) := by
  simp [op_neg, hb]; apply build_head_congr; unfold InR at hx; unfold i32 u32 wrap32; omega

theorem pat_eq (x : Int) : ((pat x : Nat) : Int) = u32 x := by
  unfold pat u32; omega

theorem trunc8_spec (x : Int) (hb : below ≠ []) :
    op_trunc8 (build below (x :: st) above dp data status) = .ok () (build below ((pat x % 256 : Nat) :: st) above dp data status) := by
  simp [op_trunc8, hb]; apply build_head_congr
  have := pat_eq x
  unfold i32 u8 u32 at *; omega

theorem trunc16_spec (x : Int) (hb : below ≠ []) :
    op_trunc16 (build below (x :: st) above dp data status) = .ok () (build below ((pat x % 65536 : Nat) :: st) above dp data status) := by
  simp [op_trunc16, hb]; apply build_head_congr
  have := pat_eq x
  unfold i32 u16 u32 at *; omega

theorem cond_spec (f t c : Int) (hb : below ≠ []) (hf : InR f) (ht : InR t) (hc : InR c) :
    op_cond (build below (f :: t :: c :: st) above dp data status) =
      .ok () (build below ((if c = 0 then f else t) :: st) (t :: f :: above) dp data status) := by
  have hc0 : u32 c = 0 ↔ c = 0 := by unfold InR at hc; unfold u32; omega
  by_cases h : c = 0
  · have : u32 c = 0 := hc0.mpr h
    simp [op_cond, hb, h, this]; apply build_head_congr; unfold InR at hf; unfold i32 u32; omega
  · have : ¬ u32 c = 0 := fun e => h (hc0.mp e)
    simp [op_cond, hb, h, this]; apply build_head_congr; unfold InR at ht; unfold i32 u32; omega

theorem u32_eq_zero {x : Int} (h : InR x) : u32 x = 0 ↔ x = 0 := by unfold InR at h; unfold u32; omega
theorem u32_inj {x y : Int} (hx : InR x) (hy : InR y) : u32 y = u32 x ↔ y = x := by unfold InR at *; unfold u32; omega

theorem and_spec (x y : Int) (hb : below ≠ []) (hx : InR x) (hy : InR y) :
    op_and_ (build below (x :: y :: st) above dp data status) =
      .ok () (build below (Spec.Vm.bool (y ≠ 0 ∧ x ≠ 0) :: st) (x :: above) dp data status) := by
  simp [op_and_, hb, u32_eq_zero hx, u32_eq_zero hy, i32_bool]

theorem or_spec (x y : Int) (hb : below ≠ []) (hx : InR x) (hy : InR y) :
    op_or_ (build below (x :: y :: st) above dp data status) =
      .ok () (build below (Spec.Vm.bool (y ≠ 0 ∨ x ≠ 0) :: st) (x :: above) dp data status) := by
  simp [op_or_, hb, u32_eq_zero hx, u32_eq_zero hy, i32_bool]

theorem not_spec (x : Int) (hb : below ≠ []) :
    op_not_ (build below (x :: st) above dp data status) = .ok () (build below (Spec.Vm.bool (x = 0) :: st) above dp data status) := by
  simp [op_not_, hb, i32_bool]

theorem equal_spec (x y : Int) (hb : below ≠ []) (hx : InR x) (hy : InR y) :
    op_equal (build below (x :: y :: st) above dp data status) = .ok () (build below (Spec.Vm.bool (y = x) :: st) (x :: above) dp data status) := by
  simp [op_equal, hb, u32_inj hx hy, i32_bool]

theorem not_eq_spec (x y : Int) (hb : below ≠ []) (hx : InR x) (hy : InR y) :
    op_not_eq_ (build below (x :: y :: st) above dp data status) = .ok () (build below (Spec.Vm.bool (y ≠ x) :: st) (x :: above) dp data status) := by
  simp [op_not_eq_, hb, u32_inj hx hy, i32_bool]

theorem less_spec (x y : Int) (hb : below ≠ []) (hy : InR y) :
    op_less (build below (x :: y :: st) above dp data status) = .ok () (build below (Spec.Vm.bool (y < x) :: st) (x :: above) dp data status) := by
  simp [op_less, hb, i32_id hy, i32_bool]

theorem gtr_spec (x y : Int) (hb : below ≠ []) (hy : InR y) :
    op_gtr (build below (x :: y :: st) above dp data status) = .ok () (build below (Spec.Vm.bool (y > x) :: st) (x :: above) dp data status) := by
  simp [op_gtr, hb, i32_id hy, i32_bool]

theorem less_eq_spec (x y : Int) (hb : below ≠ []) (hy : InR y) :
    op_less_eq (build below (x :: y :: st) above dp data status) = .ok () (build below (Spec.Vm.bool (y ≤ x) :: st) (x :: above) dp data status) := by
  simp [op_less_eq, hb, i32_id hy, i32_bool]

theorem gtr_eq_spec (x y : Int) (hb : below ≠ []) (hy : InR y) :
    op_gtr_eq (build below (x :: y :: st) above dp data status) = .ok () (build below (Spec.Vm.bool (y ≥ x) :: st) (x :: above) dp data status) := by
  simp [op_gtr_eq, hb, i32_id hy, i32_bool]

/-! ### opcodes with operand bytes -/

theorem param_ok (base : Nat) (i : Int) (v : Nat) (h : data[base + i.toNat]? = some v) :
    param base i (build below st above dp data status) = .ok (v : Int) (build below st above dp data status) := by
  simp [param, build, h]

/-- the operand bytes the specification sees are the data from `dp` on -/
theorem ops_get {data : Array Nat} {dp : Nat} {l : List Nat} (h : data.toList.drop dp = l) (i : Nat) (hi : i < l.length) :
    data[dp + i]? = some l[i] := by
  have : (data.toList.drop dp)[i]? = some l[i] := by rw [h]; exact List.getElem?_eq_getElem hi
  rw [List.getElem?_drop] at this
  simpa using this

def Bytes (l : List Nat) : Prop := ∀ b ∈ l, b < 256

theorem sext8 (b : Nat) (h : b < 256) : i32 (i8 (b : Int)) = sext 8 b := by
  unfold i32 i8 sext; split <;> omega
theorem push_byte_spec (b : Nat) (rest : List Nat) (j : Int) (hb : below ≠ []) (hd : data.toList.drop dp = b :: rest) (hb8 : b < 256) :
    op_push_byte (build below st (j :: above) dp data status) = .ok () (build below (sext 8 b :: st) above (dp + 1) data status) := by
  have g0 := ops_get hd 0 (by simp)
  simp only [List.getElem_cons_zero, Nat.add_zero] at g0
  simp [op_push_byte, hb, param_ok below st (j :: above) (dp + 1) data status dp 0 b (by simpa using g0), sext8 b hb8]

theorem push_byte_u_spec (b : Nat) (rest : List Nat) (j : Int) (hb : below ≠ []) (hd : data.toList.drop dp = b :: rest) (hb8 : b < 256) :
    op_push_byte_u (build below st (j :: above) dp data status) = .ok () (build below ((b : Int) :: st) above (dp + 1) data status) := by
  have g0 := ops_get hd 0 (by simp)
  simp only [List.getElem_cons_zero, Nat.add_zero] at g0
  have e : i32 (u8 (b : Int)) = b := by unfold i32 u8; omega
  simp [op_push_byte_u, hb, param_ok below st (j :: above) (dp + 1) data status dp 0 b (by simpa using g0), e]

theorem bor32_disjoint (a b : Nat) (k : Nat) (hb : b < 2 ^ k) (ha : a * 2 ^ k + b < 4294967296) :
    bor32 ((a * 2 ^ k : Nat) : Int) (b : Int) = ((a * 2 ^ k + b : Nat) : Int) := by
  unfold bor32 u32
  have h1 : (((a * 2 ^ k : Nat) : Int) % 4294967296).toNat = a * 2 ^ k := by omega
  have h2 : ((b : Int) % 4294967296).toNat = b := by omega
  rw [h1, h2, ← Nat.shiftLeft_eq, Bits.shl_or a b k hb, Nat.shiftLeft_eq]

theorem cast_small (a : Nat) (h : a < 256) :
    i16 (a : Int) = a ∧ u16 (a : Int) = a ∧ i32 (a : Int) = a ∧ u8 (a : Int) = a ∧ u32 (a : Int) = a := by
  unfold i16 u16 i32 u8 u32; omega
theorem shl32_8 (a : Nat) : shl32 (a : Int) 8 = ((a * 256 : Nat) : Int) := by unfold shl32; simp
theorem shl32_16 (a : Nat) : shl32 (a : Int) 16 = ((a * 65536 : Nat) : Int) := by unfold shl32; simp
theorem shl32_24 (a : Nat) : shl32 (a : Int) 24 = ((a * 16777216 : Nat) : Int) := by unfold shl32; simp

theorem bor32_256 (a b : Nat) (hb : b < 256) (ha : a * 256 + b < 4294967296) :
    bor32 ((a * 256 : Nat) : Int) (b : Int) = ((a * 256 + b : Nat) : Int) := bor32_disjoint a b 8 hb ha
theorem bor32_65536 (a b : Nat) (hb : b < 65536) (ha : a * 65536 + b < 4294967296) :
    bor32 ((a * 65536 : Nat) : Int) (b : Int) = ((a * 65536 + b : Nat) : Int) := bor32_disjoint a b 16 hb ha
theorem bor32_16777216 (a b : Nat) (hb : b < 16777216) (ha : a * 16777216 + b < 4294967296) :
    bor32 ((a * 16777216 : Nat) : Int) (b : Int) = ((a * 16777216 + b : Nat) : Int) := bor32_disjoint a b 24 hb ha

theorem sext16_eq (n : Nat) (h : n < 65536) : i32 (i16 (i32 (n : Int))) = sext 16 n := by
  have e1 : i32 (n : Int) = n := by unfold i32; omega
  simp only [sext, Nat.reducePow, Nat.reduceSub, Int.reducePow]
  rw [e1]
  by_cases c : n < 32768
  · have e2 : i16 (n : Int) = n := by unfold i16; omega
    rw [e2, e1]; simp [c]
  · have e2 : i16 (n : Int) = (n : Int) - 65536 := by unfold i16; omega
    rw [e2]; simp [c]; unfold i32; omega

theorem zext16_eq (n : Nat) (hn : n < 65536) : i32 (u16 (i32 (n : Int))) = n := by unfold i32 u16; omega

theorem push_short_spec (a b : Nat) (rest : List Nat) (j : Int) (hb : below ≠ []) (hd : data.toList.drop dp = a :: b :: rest)
    (ha : a < 256) (hb8 : b < 256) :
    op_push_short (build below st (j :: above) dp data status) = .ok () (build below (sext 16 (a * 256 + b) :: st) above (dp + 2) data status) := by
  have g0 := ops_get hd 0 (by simp)
  have g1 := ops_get hd 1 (by simp)
  simp only [List.getElem_cons_zero, List.getElem_cons_succ, Nat.add_zero] at g0 g1
  simp [op_push_short, hb, param_ok below st (j :: above) (dp + 2) data status dp 0 a (by simpa using g0),
    param_ok below st (j :: above) (dp + 2) data status dp 1 b (by simpa using g1)]
  apply build_head_congr
  obtain ⟨a1, a2, a3, a4, a5⟩ := cast_small a ha
  obtain ⟨b1, b2, b3, b4, b5⟩ := cast_small b hb8
  rw [a1, a3, b4, b3, shl32_8]
  have e : i32 ((a * 256 : Nat) : Int) = ((a * 256 : Nat) : Int) := by unfold i32; omega
  rw [e, bor32_256 a b hb8 (by omega)]
  exact sext16_eq (a * 256 + b) (by omega)

theorem push_short_u_spec (a b : Nat) (rest : List Nat) (j : Int) (hb : below ≠ []) (hd : data.toList.drop dp = a :: b :: rest)
    (ha : a < 256) (hb8 : b < 256) :
    op_push_short_u (build below st (j :: above) dp data status) =
      .ok () (build below (((a * 256 + b : Nat) : Int) :: st) above (dp + 2) data status) := by
  have g0 := ops_get hd 0 (by simp)
  have g1 := ops_get hd 1 (by simp)
  simp only [List.getElem_cons_zero, List.getElem_cons_succ, Nat.add_zero] at g0 g1
  simp [op_push_short_u, hb, param_ok below st (j :: above) (dp + 2) data status dp 0 a (by simpa using g0),
    param_ok below st (j :: above) (dp + 2) data status dp 1 b (by simpa using g1)]
  apply build_head_congr
  obtain ⟨a1, a2, a3, a4, a5⟩ := cast_small a ha
  obtain ⟨b1, b2, b3, b4, b5⟩ := cast_small b hb8
  rw [a2, a3, b4, b3, shl32_8]
  have e : i32 ((a * 256 : Nat) : Int) = ((a * 256 : Nat) : Int) := by unfold i32; omega
  rw [e, bor32_256 a b hb8 (by omega)]
  have hn : a * 256 + b < 65536 := by omega
  rw [zext16_eq _ hn, Int.natCast_add, Int.natCast_mul]
  rfl

theorem u32_i32 (x : Int) : u32 (i32 x) = u32 x := by unfold u32 i32; omega
theorem u32_nat (n : Nat) (h : n < 4294967296) : u32 (n : Int) = n := by unfold u32; omega
theorem sext32_eq (n : Nat) (h : n < 4294967296) : i32 (u32 (n : Int)) = sext 32 n := by
  simp only [sext, Nat.reducePow, Nat.reduceSub, Int.reducePow]
  unfold i32 u32; split <;> omega

/-- bounds with large coefficients are proved by monotonicity, not by `omega` (which does not cope with them) -/
theorem mul_bound (a k m : Nat) (ha : a < 256) (hk0 : 0 < k) (hk : 256 * k ≤ m) : a * k < m :=
  Nat.lt_of_lt_of_le (Nat.mul_lt_mul_of_pos_right ha hk0) hk
theorem add_bound (x y X Y m : Nat) (hx : x ≤ X) (hy : y < Y) (h : X + Y ≤ m) : x + y < m :=
  Nat.lt_of_lt_of_le (Nat.add_lt_add_of_le_of_lt hx hy) h

theorem nb1 (a b : Nat) (ha : a < 256) (hb : b < 256) : a * 256 + b < 65536 := by omega
theorem nb2 (a b c : Nat) (ha : a < 256) (hb : b < 256) (hc : c < 256) : (a * 256 + b) * 256 + c < 16777216 := by omega
theorem nb3 (a b c d : Nat) (ha : a < 256) (hb : b < 256) (hc : c < 256) (hd : d < 256) :
    ((a * 256 + b) * 256 + c) * 256 + d < 4294967296 := by omega
theorem nb4 (c : Nat) (hc : c < 256) : c * 256 < 65536 := by omega
theorem nb5 (a : Nat) (ha : a < 256) : a ≤ 255 := by omega

theorem val_push_long (a b c d : Nat) (ha : a < 256) (hb : b < 256) (hc : c < 256) (hd : d < 256) :
    i32 (u32 (bor32 (u32 (bor32 (u32 (bor32 (u32 (i32 (shl32 (i32 (a : Int)) 24))) (u32 (shl32 (u32 (b : Int)) 16))))
      (u32 (shl32 (u32 (c : Int)) 8)))) (u32 (u8 (d : Int))))) = sext 32 (((a * 256 + b) * 256 + c) * 256 + d) := by
  have hab := nb1 a b ha hb
  have habc := nb2 a b c ha hb hc
  have n8 := nb3 a b c d ha hb hc hd
  have n3 := nb4 c hc
  have ha' := nb5 a ha
  have n1 : a * 16777216 < 4294967296 := mul_bound a 16777216 4294967296 ha (by decide) (by decide)
  have n2 : b * 65536 < 16777216 := mul_bound b 65536 16777216 hb (by decide) (by decide)
  have n5 : a * 16777216 + b * 65536 < 4294967296 :=
    add_bound _ _ (255 * 16777216) 16777216 _ (Nat.mul_le_mul_right _ ha') n2 (by decide)
  have e1 : a * 16777216 + b * 65536 = (a * 256 + b) * 65536 := by
    simp only [Nat.add_mul, Nat.mul_assoc, Nat.reduceMul]
  have n7 : (a * 256 + b) * 65536 + c * 256 < 4294967296 :=
    add_bound _ _ (65535 * 65536) 65536 _ (Nat.mul_le_mul_right _ (Nat.le_of_lt_succ hab)) n3 (by decide)
  have e2 : (a * 256 + b) * 65536 + c * 256 = ((a * 256 + b) * 256 + c) * 256 := by
    simp only [Nat.add_mul, Nat.mul_assoc, Nat.reduceMul]
  have a3 := (cast_small a ha).2.2.1
  have b5 := (cast_small b hb).2.2.2.2
  have c5 := (cast_small c hc).2.2.2.2
  have d4 := (cast_small d hd).2.2.2.1
  have d5 := (cast_small d hd).2.2.2.2
  rw [a3, b5, c5, d4, d5, shl32_24, shl32_16, shl32_8, u32_i32]
  rw [u32_nat (a * 16777216) n1, u32_nat (b * 65536) (Nat.lt_trans n2 (by decide)), u32_nat (c * 256) (Nat.lt_trans n3 (by decide))]
  rw [bor32_16777216 a (b * 65536) n2 n5, u32_nat _ n5]
  rw [e1, bor32_65536 (a * 256 + b) (c * 256) n3 n7, u32_nat _ n7]
  rw [e2, bor32_256 ((a * 256 + b) * 256 + c) d hd n8]
  exact sext32_eq _ n8

theorem push_long_spec (a b c d : Nat) (rest : List Nat) (j : Int) (hb : below ≠ [])
    (hd : data.toList.drop dp = a :: b :: c :: d :: rest) (ha : a < 256) (hb8 : b < 256) (hc : c < 256) (hd8 : d < 256) :
    op_push_long (build below st (j :: above) dp data status) =
      .ok () (build below (sext 32 (((a * 256 + b) * 256 + c) * 256 + d) :: st) above (dp + 4) data status) := by
  have g0 := ops_get hd 0 (by simp)
  have g1 := ops_get hd 1 (by simp)
  have g2 := ops_get hd 2 (by simp)
  have g3 := ops_get hd 3 (by simp)
  simp only [List.getElem_cons_zero, List.getElem_cons_succ, Nat.add_zero] at g0 g1 g2 g3
  have p0 := param_ok below st (j :: above) (dp + 4) data status dp 0 a (by simpa using g0)
  have p1 := param_ok below st (j :: above) (dp + 4) data status dp 1 b (by simpa using g1)
  have p2 := param_ok below st (j :: above) (dp + 4) data status dp 2 c (by simpa using g2)
  have p3 := param_ok below st (j :: above) (dp + 4) data status dp 3 d (by simpa using g3)
  have hv := val_push_long a b c d ha hb8 hc hd8
  clear hd g0 g1 g2 g3
  simp only [op_push_long, bind_apply, declareParams_build, p0, p1, p2, p3, push_build _ _ _ _ _ _ _ _ hb]
  rw [hv]

theorem pop_ret_spec (x : Int) (hb : below ≠ []) (hx : InR x) :
    op_pop_ret (build below (x :: st) above dp data status) = .stop .exited (build below (x :: st) above dp data status) := by
  have : i32 (u32 x) = x := by unfold InR at hx; unfold i32 u32; omega
  simp [op_pop_ret, hb, this]

theorem ret_zero_spec (j : Int) (hb : below ≠ []) :
    op_ret_zero (build below st (j :: above) dp data status) = .stop .exited (build below (0 :: st) above dp data status) := by
  simp [op_ret_zero, hb]

theorem ret_true_spec (j : Int) (hb : below ≠ []) :
    op_ret_true (build below st (j :: above) dp data status) = .stop .exited (build below (1 :: st) above dp data status) := by
  simp [op_ret_true, hb]

theorem push_proc_state_spec (j : Int) (hb : below ≠ []) :
    op_push_proc_state (build below st (j :: above) dp data status) = .ok () (build below (1 :: st) above (dp + 1) data status) := by
  simp [op_push_proc_state, hb]

theorem push_version_spec (j : Int) (hb : below ≠ []) :
    op_push_version (build below st (j :: above) dp data status) = .ok () (build below (0x00030000 :: st) above dp data status) := by
  simp [op_push_version, hb]

theorem u32_u32 (x : Int) : u32 (u32 x) = u32 x := by unfold u32; omega
theorem u32_toNat (x : Int) : (u32 x).toNat = pat x := rfl
theorem pat_lt (x : Int) : pat x < 4294967296 := by unfold pat; omega

theorem val_band (x y : Int) : i32 (u32 (band32 (u32 y) (u32 x))) = wrap32 ((pat y &&& pat x : Nat)) := by
  unfold band32; rw [u32_u32, u32_u32, u32_toNat, u32_toNat, i32_u32]
theorem val_bor (x y : Int) : i32 (u32 (bor32 (u32 y) (u32 x))) = wrap32 ((pat y ||| pat x : Nat)) := by
  unfold bor32; rw [u32_u32, u32_u32, u32_toNat, u32_toNat, i32_u32]
theorem val_bnot (x : Int) (hx : InR x) : i32 (bnot32 x) = wrap32 (-x - 1) := by
  unfold InR at hx; unfold i32 bnot32 u32 wrap32; omega

theorem band_spec (x y : Int) (hb : below ≠ []) :
    op_band (build below (x :: y :: st) above dp data status) =
      .ok () (build below (wrap32 ((pat y &&& pat x : Nat)) :: st) (x :: above) dp data status) := by
  simp only [op_band, bind_apply, pop_build _ _ _ _ _ _ _ hb, top_build _ _ _ _ _ _ _ hb, setTop_build _ _ _ _ _ _ _ _ hb, val_band]

theorem bor_spec (x y : Int) (hb : below ≠ []) :
    op_bor (build below (x :: y :: st) above dp data status) =
      .ok () (build below (wrap32 ((pat y ||| pat x : Nat)) :: st) (x :: above) dp data status) := by
  simp only [op_bor, bind_apply, pop_build _ _ _ _ _ _ _ hb, top_build _ _ _ _ _ _ _ hb, setTop_build _ _ _ _ _ _ _ _ hb, val_bor]

theorem bnot_spec (x : Int) (hb : below ≠ []) (hx : InR x) :
    op_bnot (build below (x :: st) above dp data status) = .ok () (build below (wrap32 (-x - 1) :: st) above dp data status) := by
  simp only [op_bnot, bind_apply, top_build _ _ _ _ _ _ _ hb, setTop_build _ _ _ _ _ _ _ _ hb, val_bnot x hx]

theorem val_u16be (a b : Nat) (ha : a < 256) (hb : b < 256) :
    u16 (i32 (bor32 (i32 (shl32 (i32 (u16 (a : Int))) 8)) (i32 (u8 (b : Int))))) = ((a * 256 + b : Nat) : Int) := by
  have a2 := (cast_small a ha).2.1
  have a3 := (cast_small a ha).2.2.1
  have b3 := (cast_small b hb).2.2.1
  have b4 := (cast_small b hb).2.2.2.1
  have n := nb1 a b ha hb
  have e : i32 ((a * 256 : Nat) : Int) = ((a * 256 : Nat) : Int) := i32_id (by unfold InR; omega)
  rw [a2, a3, b4, b3, shl32_8, e, bor32_256 a b hb (by omega)]
  have e2 : i32 ((a * 256 + b : Nat) : Int) = ((a * 256 + b : Nat) : Int) := i32_id (by unfold InR; omega)
  rw [e2]
  clear a2 a3 b3 b4 e e2
  unfold u16; omega

theorem pat_i32_nat (n : Nat) (h : n < 4294967296) : pat (i32 (n : Int)) = n := by unfold pat i32; omega
theorem pat_nat (n : Nat) (h : n < 4294967296) : pat (n : Int) = n := by unfold pat; omega
theorem pat_bnot16 (m : Nat) (h : m < 65536) : pat (i32 (bnot32 (m : Int))) = 4294967295 - m := by
  unfold pat i32 bnot32 u32; omega

theorem val_setbits (x : Int) (m v : Nat) (hm : m < 65536) (hv : v < 65536) :
    i32 (bor32 (i32 (band32 x (i32 (bnot32 (m : Int))))) (i32 (v : Int))) = wrap32 (((pat x &&& (4294967295 - m)) ||| v : Nat)) := by
  have hv' : i32 (v : Int) = v := i32_id (by unfold InR; omega)
  have hand : (pat x &&& (4294967295 - m)) < 4294967296 := Nat.lt_of_le_of_lt Nat.and_le_left (pat_lt x)
  unfold band32 bor32
  simp only [u32_toNat]
  rw [pat_bnot16 m hm, hv', pat_i32_nat _ hand, pat_nat v (by omega)]
  rfl


theorem setbits_spec (a b c d : Nat) (rest : List Nat) (x : Int) (hb : below ≠ [])
    (hd : data.toList.drop dp = a :: b :: c :: d :: rest) (ha : a < 256) (hb8 : b < 256) (hc : c < 256) (hd8 : d < 256) :
    op_setbits (build below (x :: st) above dp data status) =
      .ok () (build below (wrap32 (((pat x &&& (4294967295 - (a * 256 + b))) ||| (c * 256 + d) : Nat)) :: st) above (dp + 4) data status) := by
  have g0 := ops_get hd 0 (by simp)
  have g1 := ops_get hd 1 (by simp)
  have g2 := ops_get hd 2 (by simp)
  have g3 := ops_get hd 3 (by simp)
  simp only [List.getElem_cons_zero, List.getElem_cons_succ, Nat.add_zero] at g0 g1 g2 g3
  have p0 := param_ok below (x :: st) above (dp + 4) data status dp 0 a (by simpa using g0)
  have p1 := param_ok below (x :: st) above (dp + 4) data status dp 1 b (by simpa using g1)
  have p2 := param_ok below (x :: st) above (dp + 4) data status dp 2 c (by simpa using g2)
  have p3 := param_ok below (x :: st) above (dp + 4) data status dp 3 d (by simpa using g3)
  have hm := val_u16be a b ha hb8
  have hv := val_u16be c d hc hd8
  have hs := val_setbits x (a * 256 + b) (c * 256 + d) (nb1 a b ha hb8) (nb1 c d hc hd8)
  clear hd g0 g1 g2 g3
  simp only [op_setbits, bind_apply, declareParams_build, p0, p1, p2, p3, top_build _ _ _ _ _ _ _ hb,
    setTop_build _ _ _ _ _ _ _ _ hb, hm, hv, hs]

end GrVerif.Vm

import GrVerif.Proofs.Forest3
/-!
# The attachment forest: temporary copies, `freeSlot`, `newSlot`

Nothing is claimed about the pointer fields of temporary copies, and real slots never point at them; so whatever the
attachment primitives do when they are applied to a copy (`freeSlot` of a `temp_copy` at garbage collection), they only
write copies (`RealSame`).
-/
set_option linter.unusedSimpArgs false
set_option linter.unusedVariables false
namespace GrVerif.Seg

/-- `s'` agrees with `s` on the copy flags, the free list, and the tree fields of every real slot -/
structure RealSame (s s' : Seg) : Prop where
  free : s'.free = s.free
  cop : ∀ j, (s'.get j).copied = (s.get j).copied
  fld : ∀ j, Real s j → (s'.get j).parent = (s.get j).parent ∧ (s'.get j).child = (s.get j).child ∧
    (s'.get j).sibling = (s.get j).sibling

theorem RealSame.rfl' (s : Seg) : RealSame s s := ⟨rfl, fun _ => rfl, fun _ _ => ⟨rfl, rfl, rfl⟩⟩

theorem RealSame.real {s s' : Seg} (h : RealSame s s') (j : Nat) : Real s' j ↔ Real s j := by unfold Real; rw [h.cop j]

theorem RealSame.trans {s t u : Seg} (h1 : RealSame s t) (h2 : RealSame t u) : RealSame s u :=
  ⟨by rw [h2.free, h1.free], fun j => by rw [h2.cop j, h1.cop j], fun j hj => by
    have a := h1.fld j hj
    have b := h2.fld j ((h1.real j).mpr hj)
    exact ⟨by rw [b.1, a.1], by rw [b.2.1, a.2.1], by rw [b.2.2, a.2.2]⟩⟩

theorem TreeSame.toReal {s s' : Seg} (h : TreeSame s s') : RealSame s s' :=
  ⟨h.free, fun j => (h.fld j).2.2.2, fun j _ => ⟨(h.fld j).1, (h.fld j).2.1, (h.fld j).2.2.1⟩⟩

/-- an update of a slot that is not real -/
theorem RealSame.updCopy (s : Seg) (i : Nat) (f : Slot → Slot) (hi : ¬ Real s i) (hf : ∀ a, (f a).copied = a.copied) :
    RealSame s (s.upd i f) :=
  ⟨rfl, fun j => by rw [upd_copied_keep]; exact hf, fun j hj => by
    have hji : j ≠ i := fun hh => hi (hh ▸ hj)
    rw [get_upd_ne _ _ _ _ hji]; exact ⟨rfl, rfl, rfl⟩⟩

theorem forest_congr_real {s s' : Seg} (h : RealSame s s') (hF : Forest s) : Forest s' := by
  have hreal := h.real
  refine ⟨?_, ?_, ?_, ?_, ?_⟩
  · intro i hi
    have hi' := (hreal i).mp hi
    obtain ⟨l, hk⟩ := hF.kids i hi'
    refine ⟨l, ?_, hk.nodup, ?_, ?_⟩
    · rw [(h.fld i hi').2.1]
      exact sibSeg_congr (fun j hj => (h.fld j (hk.mem j hj).2).2.2) hk.chain
    · intro j hj; rw [(h.fld j (hk.mem j hj).2).1]; exact ⟨(hk.mem j hj).1, (hreal j).mpr (hk.mem j hj).2⟩
    · intro j hj hp
      have hj' := (hreal j).mp hj
      rw [(h.fld j hj').1] at hp; exact hk.all j hj' hp
  · obtain ⟨d, hd⟩ := hF.acyc
    exact ⟨d, fun j i hj hp => by
      have hj' := (hreal j).mp hj
      rw [(h.fld j hj').1] at hp; exact hd j i hj' hp⟩
  · intro j hj hp
    have hj' := (hreal j).mp hj
    rw [(h.fld j hj').1] at hp; rw [(h.fld j hj').2.2]
    exact hF.root j hj' hp
  · intro j i hj hp
    have hj' := (hreal j).mp hj
    rw [(h.fld j hj').1] at hp
    have := hF.par j i hj' hp
    exact ⟨(hreal i).mpr this.1, by rw [h.free]; exact this.2⟩
  · intro f hf
    rw [h.free] at hf
    obtain ⟨f1, f2, f3⟩ := hF.free f hf
    exact ⟨(hreal f).mpr f1, by rw [(h.fld f f1).2.1]; exact f2, by rw [(h.fld f f1).1]; exact f3⟩

/-- in a forest, the sibling of a real slot is real -/
theorem Forest.sibling_real {s : Seg} (hF : Forest s) {p x : Nat} (hp : Real s p) (hs : (s.get p).sibling = some x) : Real s x := by
  cases hpp : (s.get p).parent with
  | none => rw [hF.root p hp hpp] at hs; cases hs
  | some q =>
    have hq := (hF.par p q hp hpp).1
    obtain ⟨l, hk⟩ := hF.kids q hq
    have hpl := hk.all p hp hpp
    obtain ⟨a, b, rfl⟩ := List.append_of_mem hpl
    have hmid := sibSeg_mid hk.chain
    cases b with
    | nil =>
      have : (s.get p).sibling = none := hmid.2
      rw [this] at hs; cases hs
    | cons y r =>
      have : (s.get p).sibling = some y := hmid.2.1
      rw [this] at hs; cases hs
      exact (hk.mem x (by simp)).2

/-- in a forest, the first child of a real slot is real -/
theorem Forest.child_real {s : Seg} (hF : Forest s) {p x : Nat} (hp : Real s p) (hc : (s.get p).child = some x) : Real s x := by
  obtain ⟨l, hk⟩ := hF.kids p hp
  cases l with
  | nil => have : (s.get p).child = none := hk.chain; rw [this] at hc; cases hc
  | cons y r =>
    have : (s.get p).child = some y := hk.chain.1
    rw [this] at hc; cases hc
    exact (hk.mem x List.mem_cons_self).2

/-! ## the primitives applied to a copy only write copies -/

theorem removeSib_confined {s : Seg} (hF : Forest s) {ap : Nat} (hap : ¬ Real s ap) : ∀ (fuel : Nat) (o : Option Nat),
    RealSame s (removeSib s ap fuel o).2 := by
  intro fuel
  induction fuel with
  | zero => intro o; unfold removeSib; exact RealSame.rfl' s
  | succ f ih =>
    intro o
    cases o with
    | none => unfold removeSib; exact RealSame.rfl' s
    | some p =>
      unfold removeSib
      split
      · rename_i hs
        have hpn : ¬ Real s p := fun hp => hap (hF.sibling_real hp hs)
        have h1 := RealSame.updCopy s p (fun sl => sl.setSibling ((s.get ap).sibling)) hpn (fun _ => rfl)
        have hap1 : ¬ Real (s.upd p fun sl => sl.setSibling ((s.get ap).sibling)) ap := fun hh => hap ((h1.real ap).mp hh)
        exact h1.trans (RealSame.updCopy _ ap (fun sl => sl.setSibling none) hap1 (fun _ => rfl))
      · exact ih _

theorem removeChild_confined {s : Seg} (hF : Forest s) {ap : Nat} (hap : ¬ Real s ap) (i : Nat) :
    RealSame s (removeChild s i ap).2 := by
  unfold removeChild
  split
  · exact RealSame.rfl' s
  · split
    · exact RealSame.rfl' s
    · rename_i c hc
      split
      · rename_i hca
        have hin : ¬ Real s i := fun hi => hap (by rw [← hca]; exact hF.child_real hi hc)
        have hcn : ¬ Real s c := by rw [hca]; exact hap
        have h1 := RealSame.updCopy s c (fun sl => sl.setSibling none) hcn (fun _ => rfl)
        have hi1 : ¬ Real (s.upd c fun sl => sl.setSibling none) i := fun hh => hin ((h1.real i).mp hh)
        exact h1.trans (RealSame.updCopy _ i (fun sl => sl.setChild ((s.get c).sibling)) hi1 (fun _ => rfl))
      · exact removeSib_confined hF hap _ _

theorem detachChildren_confined : ∀ (fuel : Nat) {s : Seg}, Forest s → ∀ {a : Nat}, ¬ Real s a →
    RealSame s (detachChildren s a fuel) := by
  intro fuel
  induction fuel with
  | zero => intro s _ a _; exact RealSame.rfl' s
  | succ f ih =>
    intro s hF a ha
    unfold detachChildren
    split
    · exact RealSame.rfl' s
    · rename_i c hc
      split
      · rename_i hcp
        -- `c`'s parent is the copy `a`: `c` is not real
        have hcn : ¬ Real s c := fun hh => ha (hF.par c a hh hcp).1
        have h1 := RealSame.updCopy s c (fun sl => sl.setParent none) hcn (fun _ => rfl)
        have hF1 := forest_congr_real h1 hF
        have hcn1 : ¬ Real (s.upd c fun sl => sl.setParent none) c := fun hh => hcn ((h1.real c).mp hh)
        have h2 := removeChild_confined hF1 hcn1 a
        have hF2 := forest_congr_real h2 hF1
        have ha2 : ¬ Real (removeChild (s.upd c fun sl => sl.setParent none) a c).2 a := fun hh =>
          ha ((h1.real a).mp ((h2.real a).mp hh))
        exact (h1.trans h2).trans (ih hF2 ha2)
      · have h1 := RealSame.updCopy s a (fun sl => sl.setChild none) ha (fun _ => rfl)
        have hF1 := forest_congr_real h1 hF
        have ha1 : ¬ Real (s.upd a fun sl => sl.setChild none) a := fun hh => ha ((h1.real a).mp hh)
        exact h1.trans (ih hF1 ha1)

theorem dropEnds_treeSame (s : Seg) (a : Nat) : TreeSame s (s.dropEnds a) := by
  unfold Seg.dropEnds
  simp only []
  refine ⟨?_, fun j => ?_⟩
  · split <;> split <;> rfl
  · split <;> split <;> exact ⟨rfl, rfl, rfl, rfl⟩

theorem unchild_confined {s : Seg} (hF : Forest s) {a : Nat} (ha : ¬ Real s a) : RealSame s (s.unchild a) := by
  unfold Seg.unchild
  split
  · exact removeChild_confined hF ha _
  · exact RealSame.rfl' s

/-! ## `freeSlot` -/

theorem recycle_get_ne (s : Seg) (a j : Nat) (h : j ≠ a) : (s.recycle a).get j = s.get j := by
  unfold Seg.recycle
  exact get_upd_ne s a j _ h

theorem recycle_get_self (s : Seg) (a : Nat) (h : a < s.slots.size) : (s.recycle a).get a = { next := s.free.head? } := by
  unfold Seg.recycle
  exact get_upd_self s a _ h

theorem recycle_spec (s : Seg) (a : Nat) (h : a < s.slots.size) : Recycled s (s.recycle a) a := by
  refine ⟨rfl, ?_, fun j hj => by rw [recycle_get_ne s a j hj]; exact ⟨rfl, rfl, rfl, rfl⟩⟩
  rw [recycle_get_self s a h]
  exact ⟨rfl, rfl, rfl, rfl⟩

theorem not_real_inb {s : Seg} {a : Nat} (h : ¬ Real s a) : a < s.slots.size := by
  apply Classical.byContradiction
  intro hn
  apply h
  unfold Real
  rw [get_oob s a (by omega)]

/-- freeing a temporary copy (garbage collection) keeps the forest -/
theorem freeSlot_forest_copy {s : Seg} (hF : Forest s) {a : Nat} (ha : ¬ Real s a) : Forest (s.freeSlot a) := by
  unfold Seg.freeSlot
  simp only []
  have h0 := (dropEnds_treeSame s a).toReal
  have hF0 := forest_congr_real h0 hF
  have ha0 : ¬ Real (s.dropEnds a) a := fun hh => ha ((h0.real a).mp hh)
  have h1 := unchild_confined hF0 ha0
  have hF1 := forest_congr_real h1 hF0
  have ha1 : ¬ Real ((s.dropEnds a).unchild a) a := fun hh => ha0 ((h1.real a).mp hh)
  have h2 := detachChildren_confined (((s.dropEnds a).unchild a).slots.size + 1) hF1 ha1
  have hF2 := forest_congr_real h2 hF1
  have ha2 : ¬ Real (detachChildren ((s.dropEnds a).unchild a) a (((s.dropEnds a).unchild a).slots.size + 1)) a :=
    fun hh => ha1 ((h2.real a).mp hh)
  exact forest_of_recycled_copy hF2 ha2 (recycle_spec _ a (not_real_inb ha2))

theorem unchild_eq (s : Seg) (a p : Nat) (h : (s.get a).parent = some p) : s.unchild a = (removeChild s p a).2 := by
  unfold Seg.unchild; rw [h]
theorem unparent_eq (s : Seg) (a p : Nat) (h : (s.get a).parent = some p) :
    s.unparent a = (removeChild s p a).2.upd a fun sl => sl.setParent none := by
  unfold Seg.unparent; rw [h]

/-- two segments with the same free list and size whose slots other than `a` have the same tree fields -/
def TreeSameBut (a : Nat) (s t : Seg) : Prop :=
  t.free = s.free ∧ t.slots.size = s.slots.size ∧
  ∀ j, j ≠ a → (t.get j).parent = (s.get j).parent ∧ (t.get j).child = (s.get j).child ∧
    (t.get j).sibling = (s.get j).sibling ∧ (t.get j).copied = (s.get j).copied

theorem recycle_treeSame {a : Nat} {s t : Seg} (h : TreeSameBut a s t) (has : a < s.slots.size) :
    TreeSame (s.recycle a) (t.recycle a) := by
  have hat : a < t.slots.size := by rw [h.2.1]; exact has
  refine ⟨by show a :: t.free = a :: s.free; rw [h.1], fun j => ?_⟩
  by_cases hja : j = a
  · rw [hja, recycle_get_self s a has, recycle_get_self t a hat]; exact ⟨rfl, rfl, rfl, rfl⟩
  · rw [recycle_get_ne s a j hja, recycle_get_ne t a j hja]; exact h.2.2 j hja

/-- freeing a real slot (a deleted slot at garbage collection): it leaves its parent's chain, its children become roots,
and it goes back to the free list -/
theorem freeSlot_forest_real {s : Seg} (hF : Forest s) {a : Nat} (ha : Real s a) (has : a < s.slots.size) :
    Forest (s.freeSlot a) := by
  unfold Seg.freeSlot
  simp only []
  have t0 := dropEnds_treeSame s a
  have hF0 := forest_congr t0 hF
  have ha0 : Real (s.dropEnds a) a := by unfold Real; rw [(t0.fld a).2.2.2]; exact ha
  have hs0 : (s.dropEnds a).slots.size = s.slots.size := by
    unfold Seg.dropEnds; simp only []; split <;> split <;> rfl
  generalize s.dropEnds a = s0 at *
  cases hp : (s0.get a).parent with
  | none =>
    have e : s0.unchild a = s0 := by unfold Seg.unchild; rw [hp]
    rw [e]
    obtain ⟨hF2, hc2, hp2, _, hcop2, _, _⟩ := detachChildren_forest hF0 ha0
    have hsz := (detachChildren_same (s0.slots.size + 1) s0 a).size
    refine forest_of_recycled hF2 (by unfold Real; rw [hcop2]; exact ha0) (by rw [hp2]; exact hp) hc2
      (recycle_spec _ a (by rw [hsz, hs0]; exact has))
  | some p =>
    rw [unchild_eq s0 a p hp]
    -- the same computation with the parent pointer cleared first
    obtain ⟨hFu, hpu, hru, hfu, hcu, _, _⟩ := unparent_forest hF0 ha0
    rw [unparent_eq s0 a p hp] at hFu hpu hru hfu hcu
    generalize hs1 : (removeChild s0 p a).2 = s1 at *
    have hsz1 : s1.slots.size = s0.slots.size := by rw [← hs1]; exact (removeChild_same s0 p a).size
    have has1 : a < s1.slots.size := by rw [hsz1, hs0]; exact has
    obtain ⟨l, hk⟩ := hFu.kids a hru
    have hal : a ∉ l := fun hh => hFu.not_self hru (hk.mem a hh).1
    -- the chain of `a` is the same in `s1`
    have lk1 : LocalKids s1 a l := by
      refine ⟨?_, hk.nodup, fun j hj => by have := hk.inb j hj; simpa using this⟩
      have hc := hk.chain
      have e1 : ((s1.upd a fun sl => sl.setParent none).get a).child = (s1.get a).child := by
        rw [upd_child_keep]; intro _; rfl
      rw [e1] at hc
      exact sibSeg_congr (s := s1.upd a fun sl => sl.setParent none) (s' := s1)
        (fun j _ => by rw [upd_sibling_keep]; intro _; rfl) hc
    have hpar1 : ∀ j ∈ l, (s1.get j).parent = some a := fun j hj => by
      have hja : j ≠ a := fun hh => hal (hh ▸ hj)
      have := (hk.mem j hj).1
      rw [get_upd_ne _ _ _ _ hja] at this
      exact this
    have D1 := detachChildren_spec l (s1.slots.size + 1) s1 a lk1 hpar1 hal (by have := lk1.length_le; omega)
    have D2 := detachChildren_spec l ((s1.upd a fun sl => sl.setParent none).slots.size + 1) _ a hk.local
      (fun j hj => (hk.mem j hj).1) hal (by have := hk.length_le; omega)
    have hF2 := forest_of_detachedAll hFu hru hk D2
    have hszu : (s1.upd a fun sl => sl.setParent none).slots.size = s1.slots.size := by simp
    rw [hszu] at D2 hF2
    have hszd := (detachChildren_same (s1.slots.size + 1) (s1.upd a fun sl => sl.setParent none) a).size
    have hszd1 := (detachChildren_same (s1.slots.size + 1) s1 a).size
    have hF3 := forest_of_recycled hF2 (by unfold Real; rw [D2.cop]; exact hru) (by rw [D2.par a, if_neg hal]; exact hpu) D2.chiA
      (recycle_spec _ a (by rw [hszd, hszu]; exact has1))
    refine forest_congr (recycle_treeSame ?_ (by rw [hszd, hszu]; exact has1)) hF3
    refine ⟨by rw [D1.free, D2.free]; simp, by rw [hszd1, hszd, hszu], fun j hja => ?_⟩
    have e := get_upd_ne s1 a j (fun sl => sl.setParent none) hja
    refine ⟨?_, ?_, ?_, ?_⟩
    · rw [D1.par j, D2.par j, e]
    · rw [D1.chi j hja, D2.chi j hja, e]
    · rw [D1.sib j, D2.sib j, e]
    · rw [D1.cop j, D2.cop j, e]

end GrVerif.Seg

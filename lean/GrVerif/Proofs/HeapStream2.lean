import GrVerif.Proofs.HeapStream
import GrVerif.Proofs.HeapAssoc
set_option linter.unusedVariables false
set_option linter.unusedSimpArgs false
namespace GrVerif.Action
open GrVerif.Vm GrVerif.Seg GrVerif.Gen.Vm

theorem J.same {c c' : Ctx} {l : List Nat} (h : J c l) (hs : StreamSame c.seg c'.seg) (hi : c'.is = c.is)
    (hh : c'.highwater = c.highwater := by rfl) : J c' l :=
  ⟨h.linked.same hs, h.clean.same hs, by rw [hi]; exact h.isok.same hs, by rw [hh]; exact h.hw, h.alloc.same hs⟩

theorem slotat_highwater (c : Ctx) (x : Int) : (slotat c x).2.highwater = c.highwater := by
  unfold slotat; simp only []; split <;> rfl

/-- a live current slot is in the stream -/
theorem J.is_mem {c : Ctx} {l : List Nat} (h : J c l) {i : Nat} (hi : c.is = some i) (hd : ¬ (c.seg.get i).deleted = true) : i ∈ l := by
  have hio := h.isok
  rw [hi] at hio
  rcases hio with h0 | ⟨i', h1, h2⟩ | ⟨d, h1, h2, h3, h4, h5, h6⟩
  · cases h0
  · cases h1; exact h2
  · cases h1; exact absurd h3 hd

theorem unmark_streamSame {s : Seg} {i : Nat} (hd : (s.get i).deleted = false) (hc : (s.get i).copied = false) :
    StreamSame s (s.unmark i) := by
  unfold Seg.unmark
  refine ⟨fun j => ?_, by simp, rfl, rfl, rfl, rfl⟩
  rw [get_upd]
  split
  · rename_i hh; rw [hh.1]; exact ⟨rfl, rfl, by simp [hd], by simp [hc]⟩
  · exact ⟨rfl, rfl, rfl, rfl⟩

theorem copy_unmark_streamSame {s : Seg} {i rf : Nat} (his : i < s.slots.size) (hd : (s.get i).deleted = false) (hc : (s.get i).copied = false) :
    StreamSame s ((s.copySlot i rf).unmark i) := by
  unfold Seg.copySlot
  simp only []
  have h1 : ∀ j, ((s.upd i fun si => si.copyFrom (s.get rf)).get j).next = (s.get j).next ∧
      ((s.upd i fun si => si.copyFrom (s.get rf)).get j).prev = (s.get j).prev ∧
      (j ≠ i → ((s.upd i fun si => si.copyFrom (s.get rf)).get j).deleted = (s.get j).deleted ∧
        ((s.upd i fun si => si.copyFrom (s.get rf)).get j).copied = (s.get j).copied) := by
    intro j
    rw [get_upd]
    split
    · rename_i hh; exact ⟨rfl, rfl, fun hne => absurd hh.1 hne⟩
    · exact ⟨rfl, rfl, fun _ => ⟨rfl, rfl⟩⟩
  have key : ∀ s2, SameT (s.upd i fun si => si.copyFrom (s.get rf)) s2 → StreamSame s (s2.unmark i) := by
    intro s2 hs2
    have ss := StreamSame.ofSameT hs2
    unfold Seg.unmark
    refine ⟨fun j => ?_, by simp [ss.size], by simp [ss.first], by simp [ss.last], by simp [ss.free], by simp [ss.numGlyphs]⟩
    rw [get_upd]
    split
    · rename_i hh
      rw [hh.1]
      refine ⟨?_, ?_, by simp [hd], by simp [hc]⟩
      · simp only [setDeleted_next, setCopied_next]; rw [(ss.slot i).1]; exact (h1 i).1
      · simp only [setDeleted_prev, setCopied_prev]; rw [(ss.slot i).2.1]; exact (h1 i).2.1
    · rename_i hh
      have hji : j ≠ i := fun e => hh ⟨e, by rw [ss.size]; simpa using his⟩
      refine ⟨by rw [(ss.slot j).1]; exact (h1 j).1, by rw [(ss.slot j).2.1]; exact (h1 j).2.1, ?_, ?_⟩
      · rw [(ss.slot j).2.2.1]; exact ((h1 j).2.2 hji).1
      · rw [(ss.slot j).2.2.2]; exact ((h1 j).2.2 hji).2
  split
  · split
    · exact key _ (SameT.updParent _ _ _)
    · split
      · exact key _ (child_same _ _ _)
      · exact key _ (SameT.tr (child_same _ _ _) (SameT.updParent _ _ _))
  · exact key _ (SameT.rfl' _)

theorem putCopy_J (c : Ctx) (r : Int) {l : List Nat} (hj : J c l) : OutcomeP (fun c' => J c' l) (opPutCopy c r) := by
  unfold opPutCopy
  split
  · exact hj
  · rename_i i heq
    split
    · exact hj
    · rename_i hdel
      have hil := hj.is_mem heq hdel
      have hlive := hj.clean.live i hil
      have his := hj.linked.inb i hil
      simp only []
      have hseg : (slotat c r).2.seg = c.seg := slotat_seg c r
      have hiss : (slotat c r).2.is = c.is := slotat_is c r
      have hj' : J (slotat c r).2 l := ⟨by rw [hseg]; exact hj.linked, by rw [hseg]; exact hj.clean, by rw [hseg, hiss]; exact hj.isok, by rw [slotat_highwater]; exact hj.hw, by rw [hseg]; exact hj.alloc⟩
      split
      · split
        · split
          · exact die_J _ hj'
          · exact hj'.same (by simp only [withSeg_seg]; rw [hseg]; exact copy_unmark_streamSame his hlive.1 hlive.2) rfl
        · exact hj'.same (by simp only [withSeg_seg]; rw [hseg]; exact unmark_streamSame hlive.1 hlive.2) rfl
      · exact hj'.same (by simp only [withSeg_seg]; rw [hseg]; exact unmark_streamSame hlive.1 hlive.2) rfl

theorem putCopy_PS (c : Ctx) (r : Int) (h : PS c) : OutcomeP PS (opPutCopy c r) := by
  obtain ⟨l, hj⟩ := h
  exact (putCopy_J c r hj).mono (fun c' h => ⟨l, h⟩)

theorem assocFold_same (c0 : Ctx) : ∀ (refs : List Int) (acc : Int × Int × Ctx),
    (acc.2.2.seg = c0.seg ∧ acc.2.2.is = c0.is ∧ acc.2.2.highwater = c0.highwater) →
    ((refs.foldl assocStep acc).2.2.seg = c0.seg ∧ (refs.foldl assocStep acc).2.2.is = c0.is ∧
      (refs.foldl assocStep acc).2.2.highwater = c0.highwater) := by
  intro refs
  induction refs with
  | nil => intro acc hs; exact hs
  | cons r rest ih =>
    intro acc hs
    apply ih
    unfold assocStep
    simp only []
    split
    · exact ⟨by rw [slotat_seg]; exact hs.1, by rw [slotat_is]; exact hs.2.1, by rw [slotat_highwater]; exact hs.2.2⟩
    · exact ⟨by rw [slotat_seg]; exact hs.1, by rw [slotat_is]; exact hs.2.1, by rw [slotat_highwater]; exact hs.2.2⟩

theorem assoc_J (c : Ctx) (rs : List Int) {l : List Nat} (hj : J c l) : OutcomeP (fun c' => J c' l) (opAssoc c rs) := by
  unfold opAssoc
  simp only []
  obtain ⟨e1, e2, e3⟩ := assocFold_same c rs (-1, -1, c) ⟨rfl, rfl, rfl⟩
  have hj' : J (rs.foldl assocStep (-1, -1, c)).2.2 l := ⟨by rw [e1]; exact hj.linked, by rw [e1]; exact hj.clean, by rw [e1, e2]; exact hj.isok, by rw [e3]; exact hj.hw, by rw [e1]; exact hj.alloc⟩
  split
  · split
    · exact hj'.same (by simp only [withSeg_seg]; exact StreamSame.upd _ _ _ (fun _ => ⟨rfl, rfl, rfl, rfl⟩)) rfl
    · trivial
  · exact hj'

theorem assoc_PS (c : Ctx) (rs : List Int) (h : PS c) : OutcomeP PS (opAssoc c rs) := by
  obtain ⟨l, hj⟩ := h
  exact (assoc_J c rs hj).mono (fun c' h => ⟨l, h⟩)

theorem setAttTo_is (c : Ctx) (i sub : Nat) (v : Int) : (setAttTo c i sub v).is = c.is := by
  unfold setAttTo
  simp only []
  split
  · split
    · rfl
    · split <;> rfl
  · rfl

theorem setAttTo_highwater (c : Ctx) (i sub : Nat) (v : Int) : (setAttTo c i sub v).highwater = c.highwater := by
  unfold setAttTo
  simp only []
  split
  · split
    · rfl
    · split <;> rfl
  · rfl

theorem attrSet_J (c : Ctx) (a b : Nat) (v : Int) {l : List Nat} (hj : J c l) : OutcomeP (fun c' => J c' l) (opAttrSet c a b v) := by
  unfold opAttrSet
  split
  · trivial
  · split
    · exact hj.same (StreamSame.ofSameT (setAttTo_same _ _ _ _)) (setAttTo_is _ _ _ _) (setAttTo_highwater _ _ _ _)
    · simp only []
      split <;> first
        | exact hj.same (by simp only [withSeg_seg]; exact StreamSame.upd _ _ _ (fun _ => ⟨rfl, rfl, rfl, rfl⟩)) rfl
        | exact hj

theorem attrSet_PS (c : Ctx) (a b : Nat) (v : Int) (h : PS c) : OutcomeP PS (opAttrSet c a b v) := by
  obtain ⟨l, hj⟩ := h
  exact (attrSet_J c a b v hj).mono (fun c' h => ⟨l, h⟩)

theorem tempCopy_J (c : Ctx) {l : List Nat} (hj : J c l) : OutcomeP (fun c' => J c' l) (opTempCopy c) := by
  unfold opTempCopy
  split
  · rename_i k seg i heq hisq
    obtain ⟨l1, i1, hkl, hks, hkf, hkp, hkd, hkc, c1⟩ := newSlot_spec hj.linked hj.clean hj.isok heq
    split
    · refine ⟨?_, ?_, ?_, by simpa using hj.hw, ?_⟩
      · simp only [setCell_seg, withSeg_seg]
        exact ⟨l1.nodup, fun x hx => by simpa using l1.inb x hx, l1.first, l1.last, chain_upd_notin k _ hkl l1.chain⟩
      · simp only [setCell_seg, withSeg_seg]
        refine ⟨fun j hj' => ?_, c1.freeNodup, fun f hf => by simpa using c1.freeInb f hf, c1.freeOut, fun f hf => ?_, c1.count⟩
        · rw [get_upd_ne _ _ _ _ (fun hh => hkl (by rw [← hh]; exact hj'))]; exact c1.live j hj'
        · rw [get_upd_ne _ _ _ _ (fun hh => hkf (by rw [← hh]; exact hf))]; exact c1.freeClean f hf
      · simp only [setCell_seg, withSeg_seg, setCell_is, withSeg_is]
        rcases i1 with h0 | h0 | ⟨d, h1, h2, h3, h4, h5, h6⟩
        · exact .inl h0
        · exact .inr (.inl h0)
        · have hdk : d ≠ k := fun hh => by rw [hh, hkd] at h3; cases h3
          exact .inr (.inr ⟨d, h1, h2, by rw [get_upd_ne _ _ _ _ hdk]; exact h3, by rw [get_upd_ne _ _ _ _ hdk]; exact h4, by rw [get_upd_ne _ _ _ _ hdk]; exact h5, by rw [get_upd_ne _ _ _ _ hdk]; exact h6⟩)
      · -- the new slot is a temporary copy; every other slot in use was in use before
        simp only [setCell_seg, withSeg_seg]
        intro j a1 a2 a3 a4
        have hjk : j ≠ k := fun hh => by
          rw [hh, get_upd_self _ _ _ hks] at a3; simp at a3
        rw [get_upd_ne _ _ _ _ hjk] at a3 a4
        rcases newSlot_alloc hj.alloc heq j (by simpa using a1) (by simpa using a2) a3 a4 with hx | hx
        · exact hx
        · exact absurd hx hjk
    · trivial
  · exact die_J c hj

theorem tempCopy_PS (c : Ctx) (h : PS c) : OutcomeP PS (opTempCopy c) := by
  obtain ⟨l, hj⟩ := h
  exact (tempCopy_J c hj).mono (fun c' h => ⟨l, h⟩)

theorem slotat_J (c : Ctx) (x : Int) {l : List Nat} (hj : J c l) : J (slotat c x).2 l :=
  ⟨by rw [slotat_seg]; exact hj.linked, by rw [slotat_seg]; exact hj.clean, by rw [slotat_seg, slotat_is]; exact hj.isok, by rw [slotat_highwater]; exact hj.hw, by rw [slotat_seg]; exact hj.alloc⟩

theorem slotat_PS (c : Ctx) (x : Int) (h : PS c) : PS (slotat c x).2 := by
  obtain ⟨l, hj⟩ := h
  exact ⟨l, slotat_J c x hj⟩

theorem putGlyph_J (c : Ctx) (k : Nat) {l : List Nat} (hj : J c l) : OutcomeP (fun c' => J c' l) (opPutGlyph c k) := by
  unfold opPutGlyph
  split
  · exact hj.same (by simp only [withSeg_seg]; exact StreamSame.upd _ _ _ (fun _ => ⟨rfl, rfl, rfl, rfl⟩)) rfl
  · trivial

theorem putGlyph_PS (c : Ctx) (k : Nat) (h : PS c) : OutcomeP PS (opPutGlyph c k) := by
  obtain ⟨l, hj⟩ := h
  exact (putGlyph_J c k hj).mono (fun c' h => ⟨l, h⟩)

theorem putSubs_J (c : Ctx) (r : Int) (i o : Nat) {l : List Nat} (hj : J c l) : OutcomeP (fun c' => J c' l) (opPutSubs c r i o) := by
  unfold opPutSubs
  simp only []
  have h' := slotat_J c r hj
  split
  · split
    · exact h'.same (by simp only [withSeg_seg]; exact StreamSame.upd _ _ _ (fun _ => ⟨rfl, rfl, rfl, rfl⟩)) rfl
    · trivial
  · exact h'

theorem putSubs_PS (c : Ctx) (r : Int) (i o : Nat) (h : PS c) : OutcomeP PS (opPutSubs c r i o) := by
  obtain ⟨l, hj⟩ := h
  exact (putSubs_J c r i o hj).mono (fun c' h => ⟨l, h⟩)

theorem ops_PS : OpsPreserve PS :=
  ⟨next_PS, insert_PS, delete_PS, putCopy_PS, assoc_PS, tempCopy_PS, attrSet_PS, putGlyph_PS, putSubs_PS, slotat_PS⟩

end GrVerif.Action

import GrVerif.Model.GlyphGfx
import GrVerif.Proofs.PassLoad
set_option linter.unusedVariables false
set_option linter.unusedSimpArgs false
namespace GrVerif.Loader

theorem locaLookup_total (long : Bool) (loca : List Nat) (gid : Nat) : ∃ r, locaLookup long loca gid = .ok r := by
  unfold locaLookup
  cases long with
  | true =>
    simp only [if_true]
    by_cases h : loca.length > 3 ∧ gid + 1 < loca.length / 4
    · rw [if_pos h]
      obtain ⟨a, ea⟩ := be32_ok loca (gid * 4) (by omega)
      obtain ⟨b, eb⟩ := be32_ok loca ((gid + 1) * 4) (by omega)
      simp only [bind, Except.bind, pure, Except.pure, ea, eb]; exact ⟨_, rfl⟩
    · rw [if_neg h]; exact ⟨_, rfl⟩
  | false =>
    simp only [Bool.false_eq_true, if_false]
    by_cases h : loca.length > 1 ∧ gid + 1 < loca.length / 2
    · rw [if_pos h]
      obtain ⟨a, ea⟩ := be16_ok loca (gid * 2) (by omega)
      obtain ⟨b, eb⟩ := be16_ok loca ((gid + 1) * 2) (by omega)
      simp only [bind, Except.bind, pure, Except.pure, ea, eb]; exact ⟨_, rfl⟩
    · rw [if_neg h]; exact ⟨_, rfl⟩

theorem glyfBox_total (glyf : List Nat) (off : Int) (o : Nat) (h : glyfLookup glyf off = some o) : ∃ r, glyfBox glyf o = .ok r := by
  unfold glyfLookup at h
  split at h
  · cases h
  · cases h
    rename_i hc
    unfold glyfBox
    obtain ⟨a, ea⟩ := be16_ok glyf (off.toNat + 2) (by omega)
    obtain ⟨b, eb⟩ := be16_ok glyf (off.toNat + 4) (by omega)
    obtain ⟨c, ec⟩ := be16_ok glyf (off.toNat + 6) (by omega)
    obtain ⟨d, ed⟩ := be16_ok glyf (off.toNat + 8) (by omega)
    simp only [bind, Except.bind, pure, Except.pure, ea, eb, ec, ed]; exact ⟨_, rfl⟩

theorem horMetrics_total (hmtx hhea : List Nat) (gid : Nat) (hh : 36 ≤ hhea.length) (hm : 4 ≤ hmtx.length) : ∃ r, horMetrics hmtx hhea gid = .ok r := by
  unfold horMetrics
  obtain ⟨c, ec⟩ := be16_ok hhea 34 (by omega)
  simp only [bind, Except.bind, pure, Except.pure, ec]
  by_cases h1 : gid < c
  · rw [if_pos h1]
    by_cases h2 : (gid + 1) * 4 > hmtx.length
    · rw [if_pos h2]; exact ⟨_, rfl⟩
    rw [if_neg h2]
    obtain ⟨a, ea⟩ := be16_ok hmtx (gid * 4) (by omega)
    obtain ⟨l, el⟩ := be16_ok hmtx (gid * 4 + 2) (by omega)
    rw [ea, el]; exact ⟨_, rfl⟩
  · rw [if_neg h1]
    by_cases h2 : 4 * c + 2 * (gid - c) ≥ hmtx.length - 2 ∨ c = 0
    · rw [if_pos h2]; exact ⟨_, rfl⟩
    rw [if_neg h2]
    obtain ⟨a, ea⟩ := be16_ok hmtx ((c - 1) * 4) (by omega)
    obtain ⟨l, el⟩ := be16_ok hmtx (4 * c + 2 * (gid - c)) (by omega)
    rw [ea, el]; exact ⟨_, rfl⟩

theorem glyphBBox_total (head : List Nat) (glyfLoca : Option (List Nat × List Nat)) (gid : Nat) (h1 : 54 ≤ head.length) :
    ∃ r, glyphBBox head glyfLoca gid = .ok r := by
  unfold glyphBBox
  cases glyfLoca with
  | none => exact ⟨_, rfl⟩
  | some gl =>
    obtain ⟨glyf, loca⟩ := gl
    obtain ⟨fmt, ef⟩ := be16_ok head 50 (by omega)
    obtain ⟨off, eo⟩ := locaLookup_total (decide (fmt = 1)) loca gid
    simp only [ef, eo]
    cases hg : glyfLookup glyf off with
    | none => exact ⟨_, rfl⟩
    | some o =>
      obtain ⟨bx, eb⟩ := glyfBox_total glyf off o hg
      simp only [eb]
      by_cases hc : bx.1 > bx.2.2.1 ∨ bx.2.1 > bx.2.2.2
      · rw [if_pos hc]; exact ⟨_, rfl⟩
      · rw [if_neg hc]; exact ⟨_, rfl⟩

/-- **the graphics half of `read_glyph`** (`LocaLookup`, `GlyfLookup`, `GlyfBox`, `HorMetrics`): for every glyph id and all bytes of
`head`, `hhea`, `hmtx`, `loca` and `glyf` of the sizes `TtfUtil::CheckTable` insists on, nothing is read outside a table -/
theorem readGlyphGfx_total (head hhea hmtx : List Nat) (glyfLoca : Option (List Nat × List Nat)) (gid : Nat)
    (h1 : 54 ≤ head.length) (h2 : 36 ≤ hhea.length) (h3 : 4 ≤ hmtx.length) :
    ∃ r, readGlyphGfx head hhea hmtx glyfLoca gid = .ok r := by
  unfold readGlyphGfx
  obtain ⟨bb, eb⟩ := glyphBBox_total head glyfLoca gid h1
  obtain ⟨hm, ehm⟩ := horMetrics_total hmtx hhea gid h2 h3
  rw [eb]
  cases bb with
  | none => exact ⟨_, rfl⟩
  | some b =>
    simp only [ehm]
    cases hm <;> exact ⟨_, rfl⟩

end GrVerif.Loader

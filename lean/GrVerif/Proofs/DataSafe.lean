import GrVerif.Proofs.VmSafe2
import GrVerif.Model.Pass
import GrVerif.Proofs.MapBound
/-!
# Rule code reads only its own operand bytes

`Machine::run` reads an opcode's operands through `param[i]` after `declare_params(n)`, from the data area the loader copied them to;
nothing at run time tests `dp` against the end of that area.  The model's `param` raises a data fault where such a read would leave it.
This file shows that it never does for code as the pipeline model decodes it (`mkCode`: operand counts from the regenerated opcode
table): every translated body declares exactly the operands the table gives its opcode and reads only those (`scalar_dp`), the slot
opcodes advance `dp` by the same numbers, so at every instruction `dp` stands at that instruction's operands (`DataInv`).
-/
set_option linter.unusedVariables false
set_option linter.unusedSimpArgs false
namespace GrVerif.Vm
open GrVerif.Gen.Vm

/-- `m`, started with `dp = d` on a data area of at least `lim` bytes, reads no operand outside it, leaves the data alone and ends
with `dp = d'`; the value it returns satisfies `V` -/
structure DOk {α : Type} (d d' lim : Nat) (m : VmM α) (V : α → Prop) : Prop where
  run : ∀ s : Vm, s.dp = d → lim ≤ s.data.size →
    match m s with
    | .ok x s' => V x ∧ s'.dp = d' ∧ s'.data = s.data
    | .stop w s' => (∀ i, w ≠ .dataFault i)

theorem DOk.pure {α : Type} (d lim : Nat) (x : α) : DOk d d lim (pure x : VmM α) (fun _ => True) :=
  ⟨fun s h1 h2 => ⟨trivial, h1, rfl⟩⟩

theorem DOk.bind {α β : Type} {d d1 d2 lim : Nat} {m : VmM α} {f : α → VmM β} {V : α → Prop} {W : β → Prop}
    (h1 : DOk d d1 lim m V) (h2 : ∀ x, V x → DOk d1 d2 lim (f x) W) : DOk d d2 lim (m >>= f) W := by
  refine ⟨fun s hd hl => ?_⟩
  have := h1.run s hd hl
  simp only [bind_apply]
  revert this
  cases m s with
  | ok x s' =>
    intro h
    have h3 := (h2 x h.1).run s' h.2.1 (by rw [h.2.2]; exact hl)
    rw [h.2.2] at h3
    exact h3
  | stop w s' => intro h; exact h

theorem DOk.weakenV {α : Type} {d d' lim : Nat} {m : VmM α} {V W : α → Prop} (h : DOk d d' lim m V) (hv : ∀ x, V x → W x) : DOk d d' lim m W := by
  refine ⟨fun s hd hl => ?_⟩
  have := h.run s hd hl
  revert this
  cases m s with
  | ok x s' => intro h; exact ⟨hv x h.1, h.2⟩
  | stop w s' => intro h; exact h

theorem DOk.ite {α : Type} {d d' lim : Nat} {c : Prop} [Decidable c] {t e : VmM α} {V : α → Prop}
    (h1 : DOk d d' lim t V) (h2 : DOk d d' lim e V) : DOk d d' lim (if c then t else e) V := by
  split
  · exact h1
  · exact h2

theorem rdStack_dp (i : Int) (s : Vm) : (∃ v, rdStack i s = .ok v s) ∨ (∃ w s', rdStack i s = .stop w s' ∧ ∀ k, w ≠ .dataFault k) := by
  unfold rdStack
  by_cases h : 0 ≤ i
  · rw [if_pos h]
    cases s.stack[i.toNat]? with
    | some v => exact .inl ⟨v, rfl⟩
    | none => exact .inr ⟨_, _, rfl, fun k hk => by cases hk⟩
  · rw [if_neg h]; exact .inr ⟨_, _, rfl, fun k hk => by cases hk⟩

theorem wrStack_dp (i v : Int) (s : Vm) : (∃ s', wrStack i v s = .ok () s' ∧ s'.dp = s.dp ∧ s'.data = s.data) ∨
    (∃ w s', wrStack i v s = .stop w s' ∧ ∀ k, w ≠ .dataFault k) := by
  unfold wrStack
  by_cases h : 0 ≤ i ∧ i.toNat < s.stack.size
  · rw [if_pos h]; exact .inl ⟨_, rfl, rfl, rfl⟩
  · rw [if_neg h]; exact .inr ⟨_, _, rfl, fun k hk => by cases hk⟩

theorem DOk.top (d lim : Nat) : DOk d d lim top (fun _ => True) := by
  refine ⟨fun s hd hl => ?_⟩
  unfold Vm.top
  rcases rdStack_dp s.sp s with ⟨v, e⟩ | ⟨w, s', e, hw⟩
  · rw [e]; exact ⟨trivial, hd, rfl⟩
  · rw [e]; exact hw

theorem DOk.setTop (d lim : Nat) (v : Int) : DOk d d lim (setTop v) (fun _ => True) := by
  refine ⟨fun s hd hl => ?_⟩
  unfold Vm.setTop
  rcases wrStack_dp s.sp v s with ⟨s', e, e1, e2⟩ | ⟨w, s', e, hw⟩
  · rw [e]; exact ⟨trivial, e1.trans hd, e2⟩
  · rw [e]; exact hw

theorem DOk.pop (d lim : Nat) : DOk d d lim pop (fun _ => True) := by
  refine ⟨fun s hd hl => ?_⟩
  unfold Vm.pop
  rcases rdStack_dp s.sp s with ⟨v, e⟩ | ⟨w, s', e, hw⟩
  · rw [e]; exact ⟨trivial, hd, rfl⟩
  · rw [e]; exact hw

theorem DOk.push (d lim : Nat) (v : Int) : DOk d d lim (push v) (fun _ => True) := by
  refine ⟨fun s hd hl => ?_⟩
  unfold Vm.push
  rcases wrStack_dp (s.sp + 1) v { s with sp := s.sp + 1 } with ⟨s', e, e1, e2⟩ | ⟨w, s', e, hw⟩
  · rw [e]; exact ⟨trivial, e1.trans hd, e2⟩
  · rw [e]; exact hw

theorem DOk.exit (d lim : Nat) (v : Int) : DOk d d lim (exit v) (fun _ => True) := by
  refine ⟨fun s hd hl => ?_⟩
  unfold Vm.exit
  have := (DOk.push d lim v).run s hd hl
  revert this
  cases Vm.push v s with
  | ok u s' => intro _ k h; cases h
  | stop w s' => intro h; exact h

theorem DOk.die (d lim : Nat) : DOk d d lim die (fun _ => True) := by
  refine ⟨fun s hd hl => ?_⟩
  unfold Vm.die
  exact (DOk.exit d lim 1).run { s with status := .died_early } hd hl

theorem DOk.declareParams (d lim n : Nat) : DOk d (d + n) lim (declareParams n) (fun b => b = d) :=
  ⟨fun s hd hl => ⟨hd, by show s.dp + n = d + n; rw [hd], rfl⟩⟩

theorem DOk.useParams (d lim n : Nat) : DOk d (d + n) lim (useParams n) (fun _ => True) :=
  ⟨fun s hd hl => ⟨trivial, by show s.dp + n = d + n; rw [hd], rfl⟩⟩

theorem DOk.param (d lim base : Nat) (i : Int) (h : base + i.toNat < lim) : DOk d d lim (param base i) (fun _ => True) := by
  refine ⟨fun s hd hl => ?_⟩
  unfold Vm.param
  have : base + i.toNat < s.data.size := by omega
  rw [Array.getElem?_eq_getElem this]
  exact ⟨trivial, hd, rfl⟩

/-- an opcode body that declares `n` operands: from `dp = d` with `d + n` bytes of data it ends with `dp = d + n` -/
def OpDP (n : Nat) (op : VmM Unit) : Prop := ∀ d, DOk d (d + n) (d + n) op (fun _ => True)

/-- discharges `DOk` goals for the translated bodies -/
macro "dp_ok" : tactic => `(tactic|
  repeat (first
    | exact DOk.pure _ _ _
    | exact DOk.pop _ _
    | exact DOk.top _ _
    | exact DOk.setTop _ _ _
    | exact DOk.push _ _ _
    | exact DOk.exit _ _ _
    | exact DOk.die _ _
    | exact DOk.declareParams _ _ _
    | exact DOk.useParams _ _ _
    | (apply DOk.param; (simp <;> omega))
    | (apply DOk.bind)
    | (apply DOk.ite)
    | (intro x hx; first | (dsimp only at hx; subst hx) | skip)
    | dsimp only))

theorem dp_nop : OpDP 0 op_nop := by intro d; unfold op_nop; dp_ok
theorem dp_push_byte : OpDP 1 op_push_byte := by intro d; unfold op_push_byte; dp_ok
theorem dp_push_byte_u : OpDP 1 op_push_byte_u := by intro d; unfold op_push_byte_u; dp_ok
theorem dp_push_short : OpDP 2 op_push_short := by intro d; unfold op_push_short; dp_ok
theorem dp_push_short_u : OpDP 2 op_push_short_u := by intro d; unfold op_push_short_u; dp_ok
theorem dp_push_long : OpDP 4 op_push_long := by intro d; unfold op_push_long; dp_ok
theorem dp_add : OpDP 0 op_add := by intro d; unfold op_add; dp_ok
theorem dp_sub : OpDP 0 op_sub := by intro d; unfold op_sub; dp_ok
theorem dp_mul : OpDP 0 op_mul := by intro d; unfold op_mul; dp_ok
theorem dp_div_ : OpDP 0 op_div_ := by intro d; unfold op_div_; dp_ok
theorem dp_min_ : OpDP 0 op_min_ := by intro d; unfold op_min_; dp_ok
theorem dp_max_ : OpDP 0 op_max_ := by intro d; unfold op_max_; dp_ok
theorem dp_neg : OpDP 0 op_neg := by intro d; unfold op_neg; dp_ok
theorem dp_trunc8 : OpDP 0 op_trunc8 := by intro d; unfold op_trunc8; dp_ok
theorem dp_trunc16 : OpDP 0 op_trunc16 := by intro d; unfold op_trunc16; dp_ok
theorem dp_cond : OpDP 0 op_cond := by intro d; unfold op_cond; dp_ok
theorem dp_and_ : OpDP 0 op_and_ := by intro d; unfold op_and_; dp_ok
theorem dp_or_ : OpDP 0 op_or_ := by intro d; unfold op_or_; dp_ok
theorem dp_not_ : OpDP 0 op_not_ := by intro d; unfold op_not_; dp_ok
theorem dp_equal : OpDP 0 op_equal := by intro d; unfold op_equal; dp_ok
theorem dp_not_eq_ : OpDP 0 op_not_eq_ := by intro d; unfold op_not_eq_; dp_ok
theorem dp_less : OpDP 0 op_less := by intro d; unfold op_less; dp_ok
theorem dp_gtr : OpDP 0 op_gtr := by intro d; unfold op_gtr; dp_ok
theorem dp_less_eq : OpDP 0 op_less_eq := by intro d; unfold op_less_eq; dp_ok
theorem dp_gtr_eq : OpDP 0 op_gtr_eq := by intro d; unfold op_gtr_eq; dp_ok
theorem dp_pop_ret : OpDP 0 op_pop_ret := by intro d; unfold op_pop_ret; dp_ok
theorem dp_ret_zero : OpDP 0 op_ret_zero := by intro d; unfold op_ret_zero; dp_ok
theorem dp_ret_true : OpDP 0 op_ret_true := by intro d; unfold op_ret_true; dp_ok
theorem dp_push_proc_state : OpDP 1 op_push_proc_state := by intro d; unfold op_push_proc_state; dp_ok
theorem dp_push_version : OpDP 0 op_push_version := by intro d; unfold op_push_version; dp_ok
theorem dp_bor : OpDP 0 op_bor := by intro d; unfold op_bor; dp_ok
theorem dp_band : OpDP 0 op_band := by intro d; unfold op_band; dp_ok
theorem dp_bnot : OpDP 0 op_bnot := by intro d; unfold op_bnot; dp_ok
theorem dp_setbits : OpDP 4 op_setbits := by intro d; unfold op_setbits; dp_ok

/-- the operand count of the opcode table (`none` for numbers outside it) -/
def tablePsz (opc : Nat) : Option Nat := (opcodeTable[opc]?).map fun r => r.2.1

/-- **every translated body declares the operands the opcode table gives its opcode, and reads no others** -/
theorem scalar_dp (opc : Nat) (op : VmM Unit) (h : scalarOp opc = some op) : ∃ n, OpDP n op ∧ tablePsz opc = some n ∧ n ≤ 4 := by
  unfold scalarOp at h
  split at h
  · cases h; exact ⟨0, dp_nop, by decide, by decide⟩
  · cases h; exact ⟨1, dp_push_byte, by decide, by decide⟩
  · cases h; exact ⟨1, dp_push_byte_u, by decide, by decide⟩
  · cases h; exact ⟨2, dp_push_short, by decide, by decide⟩
  · cases h; exact ⟨2, dp_push_short_u, by decide, by decide⟩
  · cases h; exact ⟨4, dp_push_long, by decide, by decide⟩
  · cases h; exact ⟨0, dp_add, by decide, by decide⟩
  · cases h; exact ⟨0, dp_sub, by decide, by decide⟩
  · cases h; exact ⟨0, dp_mul, by decide, by decide⟩
  · cases h; exact ⟨0, dp_div_, by decide, by decide⟩
  · cases h; exact ⟨0, dp_min_, by decide, by decide⟩
  · cases h; exact ⟨0, dp_max_, by decide, by decide⟩
  · cases h; exact ⟨0, dp_neg, by decide, by decide⟩
  · cases h; exact ⟨0, dp_trunc8, by decide, by decide⟩
  · cases h; exact ⟨0, dp_trunc16, by decide, by decide⟩
  · cases h; exact ⟨0, dp_cond, by decide, by decide⟩
  · cases h; exact ⟨0, dp_and_, by decide, by decide⟩
  · cases h; exact ⟨0, dp_or_, by decide, by decide⟩
  · cases h; exact ⟨0, dp_not_, by decide, by decide⟩
  · cases h; exact ⟨0, dp_equal, by decide, by decide⟩
  · cases h; exact ⟨0, dp_not_eq_, by decide, by decide⟩
  · cases h; exact ⟨0, dp_less, by decide, by decide⟩
  · cases h; exact ⟨0, dp_gtr, by decide, by decide⟩
  · cases h; exact ⟨0, dp_less_eq, by decide, by decide⟩
  · cases h; exact ⟨0, dp_gtr_eq, by decide, by decide⟩
  · cases h; exact ⟨0, dp_pop_ret, by decide, by decide⟩
  · cases h; exact ⟨0, dp_ret_zero, by decide, by decide⟩
  · cases h; exact ⟨0, dp_ret_true, by decide, by decide⟩
  · cases h; exact ⟨1, dp_push_proc_state, by decide, by decide⟩
  · cases h; exact ⟨0, dp_push_version, by decide, by decide⟩
  · cases h; exact ⟨0, dp_bor, by decide, by decide⟩
  · cases h; exact ⟨0, dp_band, by decide, by decide⟩
  · cases h; exact ⟨0, dp_bnot, by decide, by decide⟩
  · cases h; exact ⟨4, dp_setbits, by decide, by decide⟩
  · cases h

end GrVerif.Vm

namespace GrVerif.Action
open GrVerif.Vm GrVerif.Seg GrVerif.Gen.Vm

/-- the instruction carries as many operand bytes as the opcode table says (for `ASSOC`: the count byte and as many as it says) -/
def PszOK (i : Instr) : Prop :=
  match tablePsz i.1 with
  | some psz => i.2.length = (if psz = 255 then i.2.headD 0 + 1 else psz)
  | none => False

/-- `dp` stands at the operands of the next instruction: what is left of the data area is what the remaining instructions carry -/
def DataInv (rest : List Instr) (vm : Vm) : Prop := vm.dp ≤ vm.data.size ∧ vm.data.toList.drop vm.dp = rest.flatMap (·.2)

theorem DataInv.avail {i : Instr} {rest : List Instr} {vm : Vm} (h : DataInv (i :: rest) vm) : vm.dp + i.2.length ≤ vm.data.size := by
  obtain ⟨h0, h⟩ := h
  have := congrArg List.length h
  simp only [List.length_drop, List.flatMap_cons, List.length_append, Array.length_toList] at this
  omega

theorem DataInv.step {i : Instr} {rest : List Instr} {vm vm' : Vm} (h : DataInv (i :: rest) vm) (hd : vm'.dp = vm.dp + i.2.length)
    (hdata : vm'.data = vm.data) : DataInv rest vm' := by
  have ha := h.avail
  obtain ⟨h0, h⟩ := h
  refine ⟨by rw [hd, hdata]; exact ha, ?_⟩
  rw [hd, hdata, ← List.drop_drop, h]
  simp

theorem push_dp {v : Int} {vm vm' : Vm} (h : Vm.push v vm = .ok () vm') : vm'.dp = vm.dp ∧ vm'.data = vm.data := by
  have := (DOk.push vm.dp 0 v).run vm rfl (Nat.zero_le _)
  rw [h] at this
  exact this.2

theorem pop_dp {x : Int} {vm vm' : Vm} (h : Vm.pop vm = .ok x vm') : vm'.dp = vm.dp ∧ vm'.data = vm.data := by
  have := (DOk.pop vm.dp 0).run vm rfl (Nat.zero_le _)
  rw [h] at this
  exact this.2

/-- what one instruction does to the data pointer -/
def StepD (rest : List Instr) : Sum St End → Prop
  | .inl s => DataInv rest s.vm
  | .inr (.normal _) => True
  | .inr (.fault w) => w ≠ "data"

/-- the faults of the slot opcodes are not data faults -/
def NoDataFault (o : Outcome) : Prop := ∀ w, o = .fault w → w ≠ "data"

theorem noData_of_none {o : Outcome} (h : ∀ w, o ≠ .fault w) : NoDataFault o := fun w hw => absurd hw (h w)

theorem assoc_noData (c : Ctx) (rs : List Int) : NoDataFault (opAssoc c rs) := by
  intro w h
  unfold opAssoc at h
  simp only [] at h
  split at h
  · split at h
    · cases h
    · cases h; decide
  · cases h

theorem attrSet_noData (c : Ctx) (a b : Nat) (v : Int) : NoDataFault (opAttrSet c a b v) := by
  intro w h
  unfold opAttrSet at h
  split at h
  · cases h; decide
  · simp only [] at h
    split at h
    · cases h
    · split at h <;> cases h

theorem putGlyph_noData (c : Ctx) (k : Nat) : NoDataFault (opPutGlyph c k) := by
  intro w h
  unfold opPutGlyph at h
  split at h
  · cases h
  · cases h; decide

theorem putSubs_noData (c : Ctx) (r : Int) (i o : Nat) : NoDataFault (opPutSubs c r i o) := by
  intro w h
  unfold opPutSubs at h
  simp only [] at h
  split at h
  · split at h
    · cases h
    · cases h; decide
  · cases h

theorem tempCopy_noData (c : Ctx) : NoDataFault (opTempCopy c) := by
  intro w h
  unfold opTempCopy at h
  split at h
  · split at h
    · cases h
    · cases h; decide
  · unfold Seg.die at h; cases h

theorem withCtx_D {i : Instr} {rest : List Instr} {vm : Vm} (h : DataInv (i :: rest) vm) (o : Outcome) (d : Nat) (hd : d = i.2.length)
    (ho : NoDataFault o) : StepD rest (withCtx vm o d) := by
  unfold withCtx
  cases o with
  | cont c => exact h.step (by show vm.dp + d = _; rw [hd]) rfl
  | died c =>
    simp only
    split
    · trivial
    · show _ ≠ _; decide
  | fault w => exact ho w rfl

theorem pszOK_len {i : Instr} (h : PszOK i) {n : Nat} (ht : tablePsz i.1 = some n) (hn : n ≠ 255) : i.2.length = n := by
  unfold PszOK at h
  rw [ht] at h
  simp only [] at h
  rw [if_neg hn] at h
  exact h

/-- **one instruction**: with `dp` at its operands, it reads no operand byte outside the data area, and `dp` ends at the operands of the
next instruction -/
theorem stepInstr_data (s : St) (i : Instr) (rest : List Instr) (h : DataInv (i :: rest) s.vm) (hp : PszOK i) : StepD rest (stepInstr s i) := by
  obtain ⟨opc, ps⟩ := i
  have len : ∀ n, tablePsz opc = some n → n ≠ 255 → ps.length = n := fun n ht hn => pszOK_len hp ht hn
  have attr : ∀ (x : Int) (vm : Vm) (o : Outcome), Vm.pop s.vm = .ok x vm → tablePsz opc = some 1 → NoDataFault o → StepD rest
      (match o with
       | .cont c => (Sum.inl { vm := { vm with dp := vm.dp + 1 }, ctx := c } : Sum St End)
       | .died c => .inr (.normal { vm := vm, ctx := c })
       | .fault w => .inr (.fault w)) := by
    intro x vm o hpop ht ho
    obtain ⟨e1, e2⟩ := pop_dp hpop
    cases o with
    | cont c => exact h.step (by show vm.dp + 1 = _; rw [e1, len 1 ht (by decide)]) e2
    | died c => trivial
    | fault w => exact ho w rfl
  have pushA : ∀ (v : Int) (n : Nat) (c : Ctx), tablePsz opc = some n → n ≠ 255 → StepD rest
      (match Vm.push v { s.vm with dp := s.vm.dp + n } with
       | .ok _ vm => (Sum.inl { vm := vm, ctx := c } : Sum St End)
       | .stop _ _ => .inr (.fault "stack")) := by
    intro v n c ht hn
    cases hpu : Vm.push v { s.vm with dp := s.vm.dp + n } with
    | ok u vm =>
      obtain ⟨e1, e2⟩ := push_dp hpu
      exact h.step (by rw [e1]; show s.vm.dp + n = _; rw [len n ht hn]) e2
    | stop w vm => show _ ≠ _; decide
  unfold stepInstr
  simp only
  split
  · exact withCtx_D h _ _ (len 0 (by decide) (by decide)).symm (noData_of_none (next_noFault _))
  · exact withCtx_D h _ _ (len 0 (by decide) (by decide)).symm (noData_of_none (next_noFault _))
  · exact withCtx_D h _ _ (len 0 (by decide) (by decide)).symm (noData_of_none (insert_noFault _))
  · exact withCtx_D h _ _ (len 0 (by decide) (by decide)).symm (noData_of_none (delete_noFault _))
  · exact withCtx_D h _ _ (len 1 (by decide) (by decide)).symm (noData_of_none (putCopy_noFault _ _))
  · exact withCtx_D h _ _ rfl (assoc_noData _ _)
  · exact withCtx_D h _ _ (len 0 (by decide) (by decide)).symm (tempCopy_noData _)
  · exact withCtx_D h _ _ (len 2 (by decide) (by decide)).symm (putGlyph_noData _ _)
  · exact withCtx_D h _ _ (len 5 (by decide) (by decide)).symm (putSubs_noData _ _ _ _)
  · split
    · exact pushA _ 2 _ (by decide) (by decide)
    · exact h.step (by show s.vm.dp + 2 = _; rw [len 2 (by decide) (by decide)]) rfl
  · split
    · exact pushA _ 3 _ (by decide) (by decide)
    · exact h.step (by show s.vm.dp + 3 = _; rw [len 3 (by decide) (by decide)]) rfl
  · split
    · exact pushA _ 2 _ (by decide) (by decide)
    · exact h.step (by show s.vm.dp + 2 = _; rw [len 2 (by decide) (by decide)]) rfl
  · split
    · rename_i x vm hpop
      exact attr x vm _ hpop (by decide) (attrSet_noData _ _ _ _)
    · show _ ≠ _; decide
  · split
    · rename_i x vm hpop
      exact attr x vm _ hpop (by decide) (attrSet_noData _ _ _ _)
    · show _ ≠ _; decide
  · split
    · rename_i x vm hpop
      exact attr x vm _ hpop (by decide) (attrSet_noData _ _ _ _)
    · show _ ≠ _; decide
  · split
    · rename_i x vm hpop
      exact attr x vm _ hpop (by decide) (attrSet_noData _ _ _ _)
    · show _ ≠ _; decide
  · exact withCtx_D h _ _ (len 1 (by decide) (by decide)).symm (putGlyph_noData _ _)
  · exact withCtx_D h _ _ (len 3 (by decide) (by decide)).symm (putSubs_noData _ _ _ _)
  · cases hop : scalarOp opc with
    | none => show _ ≠ _; decide
    | some op =>
      simp only []
      obtain ⟨n, hdp, ht, hn4⟩ := scalar_dp opc op hop
      have hn : n ≠ 255 := by omega
      have hl := len n ht hn
      have ha := h.avail
      simp only [] at ha
      have hrun := (hdp s.vm.dp).run s.vm rfl (by rw [← hl]; exact ha)
      revert hrun
      cases op s.vm with
      | ok u vm' => intro hrun; exact h.step (by rw [hrun.2.1, hl]) hrun.2.2
      | stop w vm' =>
        intro hrun
        cases w with
        | exited => trivial
        | stackFault k => show _ ≠ _; decide
        | dataFault k => exact absurd rfl (hrun k)

theorem runLoop_data : ∀ (is : List Instr) (s : St), DataInv is s.vm → (∀ i ∈ is, PszOK i) → ∀ {w : String}, runLoop is s = .fault w → w ≠ "data" := by
  intro is
  induction is with
  | nil => intro s _ _ w h; unfold runLoop at h; cases h
  | cons i rest ih =>
    intro s hd hp w h
    have hst := stepInstr_data s i rest hd (hp i List.mem_cons_self)
    unfold runLoop at h
    split at h
    · rename_i e heq
      subst h
      rw [heq] at hst
      exact hst
    · rename_i s' heq
      rw [heq] at hst
      split at h
      · exact ih s' hst (fun j hj => hp j (List.mem_cons_of_mem _ hj)) h
      · cases h

/-! ## the decoder of the pipeline model gives every instruction its operands -/

theorem decode_psz : ∀ (fuel : Nat) (bytes : List Nat) (is : List Instr), decode fuel bytes = some is → ∀ i ∈ is, PszOK i := by
  intro fuel
  induction fuel with
  | zero => intro bytes is h i hi; unfold decode at h; cases h; cases hi
  | succ f ih =>
    intro bytes is h i hi
    cases bytes with
    | nil => unfold decode at h; cases h; cases hi
    | cons opc rest =>
      unfold decode at h
      cases ht : opcodeTable[opc]? with
      | none => rw [ht] at h; cases h
      | some row =>
        obtain ⟨nm, psz, ia, ic⟩ := row
        rw [ht] at h
        simp only [] at h
        have key : ∀ n, n = (if psz = 255 then rest.headD 0 + 1 else psz) →
            (if n > rest.length then none else
              match decode f (rest.drop n) with
              | none => none
              | some is => some ((opc, rest.take n) :: is)) = some is → PszOK i := by
          intro n hn h
          by_cases hgt : n > rest.length
          · rw [if_pos hgt] at h; cases h
          rw [if_neg hgt] at h
          cases hd : decode f (rest.drop n) with
          | none => rw [hd] at h; cases h
          | some tl =>
            rw [hd] at h
            simp only [Option.some.injEq] at h
            subst h
            rcases List.mem_cons.mp hi with rfl | hi
            · unfold PszOK tablePsz
              simp only [ht, Option.map_some]
              rw [List.length_take, Nat.min_eq_left (by omega)]
              by_cases h255 : psz = 255
              · simp only [h255, if_true] at hn ⊢
                cases rest with
                | nil => subst hn; simp at hgt
                | cons b r2 => subst hn; simp
              · simp only [h255, if_false] at hn ⊢
                exact hn
            · exact ih _ tl hd i hi
        exact key _ rfl h

theorem flatMap_insertTemp (is : List Instr) (p : Nat) :
    (is.take p ++ [((67 : Nat), ([] : List Nat))] ++ is.drop p).flatMap (·.2) = is.flatMap (·.2) := by
  simp only [List.flatMap_append, List.flatMap_cons, List.flatMap_nil, List.append_nil, List.nil_append]
  rw [← List.flatMap_append, List.take_append_drop]

theorem insertTemps_spec (is : List Instr) : (∀ i ∈ (insertTemps is).1, i ∈ is ∨ i = (67, [])) ∧ (insertTemps is).1.flatMap (·.2) = is.flatMap (·.2) := by
  unfold insertTemps
  simp only []
  generalize (tempCopies is).1 = ps
  have : ∀ (ps : List Nat) (acc : List Instr), (∀ i ∈ acc, i ∈ is ∨ i = (67, [])) → acc.flatMap (·.2) = is.flatMap (·.2) →
      (∀ i ∈ ps.foldl (fun acc p => acc.take p ++ [(67, [])] ++ acc.drop p) acc, i ∈ is ∨ i = (67, [])) ∧
      (ps.foldl (fun acc p => acc.take p ++ [(67, [])] ++ acc.drop p) acc).flatMap (·.2) = is.flatMap (·.2) := by
    intro ps
    induction ps with
    | nil => intro acc h1 h2; exact ⟨h1, h2⟩
    | cons p rest ih =>
      intro acc h1 h2
      simp only [List.foldl_cons]
      apply ih
      · intro i hi
        simp only [List.mem_append, List.mem_singleton] at hi
        rcases hi with (hi | hi) | hi
        · exact h1 i (List.mem_of_mem_take hi)
        · exact .inr hi
        · exact h1 i (List.mem_of_mem_drop hi)
      · rw [flatMap_insertTemp, h2]
  exact this ps is (fun i hi => .inl hi) rfl

theorem pszOK_temp : PszOK (67, []) := by
  have : tablePsz 67 = some 0 := by decide
  unfold PszOK
  simp [this]

theorem doAction_noData {is : List Instr} {dl : Bool} {mr : Nat} {data : List Nat} {ctx : Ctx} (hp : ∀ i ∈ is, PszOK i)
    (hd : DataInv is (initVm data)) {w : String} (e : doAction is dl mr data ctx = .error w) : w ≠ "data" := by
  unfold doAction at e
  simp only [] at e
  split at e
  · cases e
  · split at e
    · rename_i w' heq
      cases e
      exact runLoop_data is _ hd hp heq
    · rename_i s heq
      unfold finishAction at e
      simp only [] at e
      split at e
      · cases e; decide
      · split at e
        · cases e; decide
        · split at e
          · cases e
          · split at e <;> cases e

end GrVerif.Action

namespace GrVerif.Pass
open GrVerif.Vm GrVerif.Seg GrVerif.Action GrVerif.Gen.Vm

/-- **code as the pipeline model decodes it**: every instruction carries the operands the opcode table gives it, and the data area is
their concatenation - so the run starts with `dp` at the first instruction's operands -/
theorem mkCode_data {bytes : List Nat} {isAction : Bool} {k : Code} (h : mkCode bytes isAction = some k) :
    (∀ i ∈ k.instrs, PszOK i) ∧ DataInv k.instrs (initVm k.data) := by
  unfold mkCode at h
  cases hd : decode (bytes.length + 1) bytes with
  | none => rw [hd] at h; cases h
  | some is0 =>
    rw [hd] at h
    simp only [Option.some.injEq] at h
    subst h
    have hp0 := decode_psz _ _ _ hd
    cases isAction with
    | false =>
      simp only [Bool.false_eq_true, if_false]
      exact ⟨hp0, Nat.zero_le _, by simp [initVm]⟩
    | true =>
      simp only [if_true]
      obtain ⟨h1, h2⟩ := insertTemps_spec is0
      refine ⟨fun i hi => ?_, Nat.zero_le _, by simp [initVm, h2]⟩
      rcases h1 i hi with hh | hh
      · exact hp0 i hh
      · rw [hh]; exact pszOK_temp

end GrVerif.Pass

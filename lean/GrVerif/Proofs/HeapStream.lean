import GrVerif.Proofs.HeapChain
set_option linter.unusedVariables false
set_option linter.unusedSimpArgs false
namespace GrVerif.Action
open GrVerif.Vm GrVerif.Seg GrVerif.Gen.Vm

/-- the high-water mark, when set, is a slot of the stream -/
def HwOK (h : Option Nat) (l : List Nat) : Prop := ∀ x, h = some x → x ∈ l

/-- the stream invariant of a rule context: `l` is the glyph stream -/
structure J (c : Ctx) (l : List Nat) : Prop where
  linked : Linked c.seg l
  clean : Clean c.seg l
  isok : IsOK c.seg l c.is
  hw : HwOK c.highwater l
  alloc : Alloc c.seg l

def PS (c : Ctx) : Prop := ∃ l, J c l

theorem getLast?_mem {l : List Nat} {x : Nat} (h : l.getLast? = some x) : x ∈ l := List.mem_of_getLast? h
theorem head?_mem {l : List Nat} {x : Nat} (h : l.head? = some x) : x ∈ l := List.mem_of_head? h

theorem isok_opt_mem {s : Seg} {l : List Nat} {o : Option Nat} (h : ∀ x, o = some x → x ∈ l) : IsOK s l o := by
  cases o with
  | none => exact .inl rfl
  | some x => exact .inr (.inl ⟨x, rfl, h x rfl⟩)

theorem isok_last {s : Seg} {l : List Nat} (h : Linked s l) : IsOK s l s.last := by
  rw [h.last]; exact isok_opt_mem (fun x hx => getLast?_mem hx)

theorem _root_.GrVerif.Seg.Linked.addGlyphs {s : Seg} {l : List Nat} (h : Linked s l) (d : Int) : Linked (s.addGlyphs d) l :=
  ⟨h.nodup, h.inb, h.first, h.last, chain_congr (s := s) (s' := s.addGlyphs d) (fun _ _ => ⟨rfl, rfl⟩) h.chain⟩

theorem die_J (c : Ctx) {l : List Nat} (hj : J c l) : J ((c.setIs c.seg.last).setStatus .died_early) l :=
  ⟨hj.linked, hj.clean, isok_last hj.linked, hj.hw, hj.alloc⟩

theorem die_PS (c : Ctx) (h : PS c) : OutcomeP PS (die c) := by
  obtain ⟨l, hj⟩ := h
  exact ⟨l, die_J c hj⟩

/-- the `next` pointer of a stream slot leads to a stream slot or to null -/
theorem next_in {s : Seg} {l : List Nat} (h : Linked s l) {i : Nat} (hi : i ∈ l) : IsOK s l (s.get i).next := by
  obtain ⟨a, b, rfl⟩ := List.append_of_mem hi
  obtain ⟨_, hn, _, _⟩ := chain_mid h.chain
  rw [hn]
  simp only [Option.or_none]
  exact isok_opt_mem (fun x hx => List.mem_append_right _ (List.mem_cons_of_mem _ (head?_mem hx)))

/-- `next` leaves the stream alone -/
theorem next_J (c : Ctx) {l : List Nat} (hj : J c l) : OutcomeP (fun c' => J c' l) (opNext c) := by
  unfold opNext
  split
  · exact die_J c hj
  · split
    · rename_i i heq
      refine ⟨by simpa using hj.linked, by simpa using hj.clean, ?_, by simpa using hj.hw, by simpa using hj.alloc⟩
      simp only [setMap_seg, setIs_seg, markHighpassed_seg, setMap_is, setIs_is]
      have hio := hj.isok
      rw [heq] at hio
      rcases hio with h0 | ⟨i', h1, h2⟩ | ⟨d, h1, h2, h3, h4, h5, h6⟩
      · cases h0
      · cases h1; exact next_in hj.linked h2
      · cases h1
        rw [h4]
        exact isok_opt_mem (fun x hx => head?_mem hx)
    · exact ⟨hj.linked, hj.clean, hj.isok, hj.hw, hj.alloc⟩

theorem next_PS (c : Ctx) (h : PS c) : OutcomeP PS (opNext c) := by
  obtain ⟨l, hj⟩ := h
  exact (next_J c hj).mono (fun c' h => ⟨l, h⟩)

/-- what `delete_` does: it dies, or the cursor's slot `i` leaves the stream and the cursor steps back -/
def DelOut (c : Ctx) (l : List Nat) (c' : Ctx) : Prop :=
  (c' = (c.setIs c.seg.last).setStatus .died_early ∧ J c' l) ∨
  ∃ a i b sg, c.is = some i ∧ l = a ++ i :: b ∧ J c' (a ++ b) ∧ (c.seg.get i).prev = a.getLast? ∧ (c.seg.get i).next = b.head? ∧
    c' = (((c.moveHighwater (c.seg.get i).next).withSeg sg).setIs (match (c.seg.get i).prev with | some p => some p | none => c.is)).backOnto
      (c.seg.get i).prev

/-- `delete_` that goes on: the cursor's slot `i` leaves the stream and the cursor steps back -/
def DelCont (c : Ctx) (l : List Nat) (c' : Ctx) : Prop :=
  ∃ a i b sg, c.is = some i ∧ l = a ++ i :: b ∧ J c' (a ++ b) ∧ (c.seg.get i).prev = a.getLast? ∧ (c.seg.get i).next = b.head? ∧
    c' = (((c.moveHighwater (c.seg.get i).next).withSeg sg).setIs (match (c.seg.get i).prev with | some p => some p | none => c.is)).backOnto
      (c.seg.get i).prev

def DelOutcome (c : Ctx) (l : List Nat) : Outcome → Prop
  | .cont c' => DelCont c l c'
  | .died c' => c' = (c.setIs c.seg.last).setStatus .died_early ∧ J c' l
  | .fault _ => True

/-- `delete_`, outcome by outcome -/
theorem delete_J2 (c : Ctx) {l : List Nat} (hj : J c l) : DelOutcome c l (opDelete c) := by
  unfold opDelete
  split
  · exact ⟨rfl, die_J c hj⟩
  · rename_i i heq
    simp only []
    split
    · exact ⟨rfl, die_J c hj⟩
    · rename_i hdel
      have hil : i ∈ l := by
        have hio := hj.isok
        rw [heq] at hio
        rcases hio with h0 | ⟨i', h1, h2⟩ | ⟨d, h1, h2, h3, h4, h5, h6⟩
        · cases h0
        · cases h1; exact h2
        · cases h1; exact absurd h3 hdel
      obtain ⟨a, b, rfl⟩ := List.append_of_mem hil
      have his : i < c.seg.slots.size := hj.linked.inb i hil
      -- mark
      have ss0 : StreamSame c.seg (c.seg.upd i fun sl => sl.setDeleted true) → True := fun _ => trivial
      have l0 : Linked (c.seg.upd i fun sl => sl.setDeleted true) (a ++ i :: b) :=
        ⟨hj.linked.nodup, fun x hx => by simpa using hj.linked.inb x hx, hj.linked.first, hj.linked.last,
          chain_upd_keep i _ (fun _ => ⟨rfl, rfl⟩) hj.linked.chain⟩
      obtain ⟨l1, t1⟩ := unlink_linked l0
      have hmid := chain_mid hj.linked.chain
      simp only [Option.or_none] at hmid
      -- detach
      have sd : SameT ((c.seg.upd i fun sl => sl.setDeleted true).unlink i) (((c.seg.upd i fun sl => sl.setDeleted true).unlink i).detach i) := by
        unfold Seg.detach
        exact SameT.tr (by unfold Seg.unparent; split; exact SameT.tr (removeChild_same _ _ _) (SameT.updParent _ _ _); exact SameT.rfl' _) (detachChildren_same _ _ _)
      have ssd := StreamSame.ofSameT sd
      have hnd := hj.linked.nodup
      have hia : i ∉ a := fun hh => (List.nodup_append.mp hnd).2.2 i hh i List.mem_cons_self rfl
      have hib : i ∉ b := (List.nodup_cons.mp (List.nodup_append.mp hnd).2.1).1
      have hiab : i ∉ a ++ b := fun hh => by rcases List.mem_append.mp hh with hh | hh; exact hia hh; exact hib hh
      have g1 : ∀ j, j ∉ a ++ b → j ≠ i → (((c.seg.upd i fun sl => sl.setDeleted true).unlink i).get j) = c.seg.get j := by
        intro j hj1 hj2
        rw [t1.out j hj1, get_upd_ne _ _ _ _ hj2]
      have gi : (((c.seg.upd i fun sl => sl.setDeleted true).unlink i).get i) = (c.seg.get i).setDeleted true := by
        rw [t1.out i hiab, get_upd_self _ _ _ his]
      have hsub : ∀ x, x ∈ a ++ b → x ∈ a ++ i :: b := fun x hx => by
        rcases List.mem_append.mp hx with hx | hx
        · exact List.mem_append_left _ hx
        · exact List.mem_append_right _ (List.mem_cons_of_mem _ hx)
      refine ⟨a, i, b, _, heq, rfl, ⟨?_, ?_, ?_, ?_, ?_⟩, hmid.1, hmid.2.1, rfl⟩
      · simp only [backOnto_seg, setIs_seg, withSeg_seg, moveHighwater_seg]
        exact (l1.same ssd).addGlyphs _
      · simp only [backOnto_seg, setIs_seg, withSeg_seg, moveHighwater_seg]
        have hc := hj.clean
        refine ⟨fun j hj' => ?_, ?_, ?_, ?_, ?_, ?_⟩
        · simp only [addGlyphs_get]
          rw [(ssd.slot j).2.2.1, (ssd.slot j).2.2.2, (t1.flags j).1, (t1.flags j).2]
          have hji : j ≠ i := fun hh => hiab (hh ▸ hj')
          rw [get_upd_ne _ _ _ _ hji]
          exact hc.live j (hsub j hj')
        · simp only [addGlyphs_free]; rw [ssd.free, t1.free]; exact hc.freeNodup
        · intro f hf; simp only [addGlyphs_free] at hf; rw [ssd.free, t1.free] at hf
          simp only [addGlyphs_size]; rw [ssd.size, t1.size]; simpa using hc.freeInb f hf
        · intro f hf; simp only [addGlyphs_free] at hf; rw [ssd.free, t1.free] at hf
          exact fun hh => hc.freeOut f hf (hsub f hh)
        · intro f hf; simp only [addGlyphs_free] at hf; rw [ssd.free, t1.free] at hf
          simp only [addGlyphs_get]
          have hfl := hc.freeOut f hf
          have hfi : f ≠ i := fun hh => hfl (hh ▸ hil)
          rw [(ssd.slot f).2.1, (ssd.slot f).2.2.1, (ssd.slot f).2.2.2, g1 f (fun hh => hfl (hsub f hh)) hfi]
          exact hc.freeClean f hf
        · simp only [addGlyphs_num]; rw [ssd.numGlyphs, t1.numGlyphs]
          rw [upd_numGlyphs, hc.count]
          simp only [List.length_append, List.length_cons]; omega
      · simp only [backOnto_seg, backOnto_is, setIs_seg, withSeg_seg, moveHighwater_seg, setIs_is, moveHighwater_is]
        rw [hmid.1]
        rcases List.eq_nil_or_concat a with ha | ⟨a', x, ha⟩
        · subst ha
          simp only [List.getLast?_nil, List.nil_append]
          rw [heq]
          refine .inr (.inr ⟨i, rfl, hib, ?_, ?_, ?_, ?_⟩)
          · simp only [addGlyphs_get]; rw [(ssd.slot i).2.2.1, gi]; rfl
          · simp only [addGlyphs_get]; rw [(ssd.slot i).1, gi]; simpa using hmid.2.1
          · simp only [addGlyphs_get]; rw [(ssd.slot i).2.1, gi]; simpa using hmid.1
          · simp only [addGlyphs_get]; rw [(ssd.slot i).2.2.2, gi]; simpa using (hj.clean.live i hil).2
        · rw [List.concat_eq_append] at ha
          subst ha
          rw [getLast?_concat']
          exact .inr (.inl ⟨x, rfl, by simp⟩)
      · -- the high-water mark moves on when its own slot is deleted, and otherwise was not the deleted slot
        simp only [backOnto_highwater, setIs_highwater, withSeg_highwater]
        rw [moveHighwater_highwater]
        intro x hx
        split at hx
        · -- it now is the successor of the deleted slot
          rw [hmid.2.1] at hx
          exact List.mem_append_right _ (head?_mem hx)
        · rename_i hne
          have hxl := hj.hw x hx
          have hxi : x ≠ i := fun e => hne (by rw [heq, hx, e])
          rcases List.mem_append.mp hxl with h1 | h1
          · exact List.mem_append_left _ h1
          · rcases List.mem_cons.mp h1 with h2 | h2
            · exact absurd h2 hxi
            · exact List.mem_append_right _ h2
      · -- every other slot in use that is live was in the stream before and still is; the deleted one is marked
        simp only [backOnto_seg, setIs_seg, withSeg_seg, moveHighwater_seg]
        intro j h1 h2 h3 h4
        simp only [addGlyphs_size, addGlyphs_free, addGlyphs_get] at h1 h2 h3 h4
        rw [ssd.size, t1.size] at h1; rw [ssd.free, t1.free] at h2
        rw [(ssd.slot j).2.2.2, (t1.flags j).2] at h3; rw [(ssd.slot j).2.2.1, (t1.flags j).1] at h4
        have hji : j ≠ i := fun hh => by
          rw [hh, get_upd_self _ _ _ his] at h4; simp at h4
        rw [get_upd_ne _ _ _ _ hji] at h3 h4
        have hjl := hj.alloc j (by simpa using h1) (by simpa using h2) h3 h4
        rcases List.mem_append.mp hjl with hx | hx
        · exact List.mem_append_left _ hx
        · rcases List.mem_cons.mp hx with hx | hx
          · exact absurd hx hji
          · exact List.mem_append_right _ hx

/-- `delete_` -/
theorem delete_J (c : Ctx) {l : List Nat} (hj : J c l) : OutcomeP (DelOut c l) (opDelete c) := by
  have h := delete_J2 c hj
  cases ho : opDelete c with
  | cont c' => rw [ho] at h; exact .inr h
  | died c' => rw [ho] at h; exact .inl h
  | fault w => trivial

theorem delete_PS (c : Ctx) (h : PS c) : OutcomeP PS (opDelete c) := by
  obtain ⟨l, hj⟩ := h
  refine (delete_J c hj).mono (fun c' h => ?_)
  rcases h with ⟨_, h⟩ | ⟨a, i, b, sg, _, _, h, _⟩
  · exact ⟨l, h⟩
  · exact ⟨a ++ b, h⟩

/-- where `insert` puts the new slot: in front of the current slot, of the first slot when the current one is the
deleted former first slot, or at the end -/
theorem skip_split {s : Seg} {l : List Nat} {is : Option Nat} (hc : Clean s l) (hi : IsOK s l is) (fuel : Nat) :
    ∃ a b, l = a ++ b ∧ skipDeleted s (fuel + 2) is = b.head? ∧ (∀ x, is = some x → x ∈ l → b.head? = some x) ∧ (is = none → b = []) ∧
      (∀ x, is = some x → x ∉ l → a = []) := by
  rcases hi with h0 | ⟨i, h1, h2⟩ | ⟨d, h1, h2, h3, h4, h5, h6⟩
  · subst h0
    exact ⟨l, [], by simp, by simp [skipDeleted], fun x hx => (by cases hx), fun _ => rfl, fun x hx => (by cases hx)⟩
  · subst h1
    obtain ⟨a, b, rfl⟩ := List.append_of_mem h2
    refine ⟨a, i :: b, rfl, ?_, fun x hx _ => (by cases hx; rfl), fun hh => (by cases hh), fun x hx hn => (by cases hx; exact absurd h2 hn)⟩
    simp [skipDeleted, (hc.live i h2).1]
  · subst h1
    refine ⟨[], l, by simp, ?_, fun x hx hxl => (by cases hx; exact absurd hxl h2), fun hh => (by cases hh), fun _ _ _ => rfl⟩
    simp only [skipDeleted, h3, if_true, h4]
    cases hq : l.head? with
    | none => rfl
    | some x =>
      have := (hc.live x (head?_mem hq)).1
      simp [skipDeleted, this]

/-- what `insert` does: it dies (budget used up, or no slot), or a new slot `n` enters the stream in front of the cursor's slot
(at the end when the cursor is null) and becomes the cursor -/
def InsOut (c : Ctx) (l : List Nat) (c' : Ctx) : Prop :=
  (c' = (((c.setMaxSize (c.maxSize - 1)).setIs c.seg.last).setStatus .died_early) ∧ J c' l) ∨
  ∃ a b n sg mp, l = a ++ b ∧ n ∉ l ∧ J c' (a ++ n :: b) ∧ (∀ x, c.is = some x → x ∈ l → b.head? = some x) ∧ (c.is = none → b = []) ∧
    ¬ (c.maxSize - 1 ≤ 0) ∧
    c' = ((((c.setMaxSize (c.maxSize - 1)).markHighpassed false).withSeg sg).setIs (some n)).setMap mp ∧
    (∀ x, c.is = some x → x ∉ l → a = [])

def InsCont (c : Ctx) (l : List Nat) (c' : Ctx) : Prop :=
  ∃ a b n sg mp, l = a ++ b ∧ n ∉ l ∧ J c' (a ++ n :: b) ∧ (∀ x, c.is = some x → x ∈ l → b.head? = some x) ∧ (c.is = none → b = []) ∧
    ¬ (c.maxSize - 1 ≤ 0) ∧
    c' = ((((c.setMaxSize (c.maxSize - 1)).markHighpassed false).withSeg sg).setIs (some n)).setMap mp ∧
    (∀ x, c.is = some x → x ∉ l → a = [])

def InsOutcome (c : Ctx) (l : List Nat) : Outcome → Prop
  | .cont c' => InsCont c l c'
  | .died c' => c' = (((c.setMaxSize (c.maxSize - 1)).setIs c.seg.last).setStatus .died_early) ∧ J c' l
  | .fault _ => True

theorem insert_J2 (c : Ctx) {l : List Nat} (hj : J c l) : InsOutcome c l (opInsert c) := by
  unfold opInsert
  simp only []
  have h' : J (c.setMaxSize (c.maxSize - 1)) l := ⟨hj.linked, hj.clean, hj.isok, hj.hw, hj.alloc⟩
  split
  · exact ⟨rfl, die_J _ h'⟩
  · rename_i hbud
    split
    · exact ⟨rfl, die_J _ h'⟩
    · rename_i k seg heq
      simp only [setMaxSize_seg] at heq
      obtain ⟨l1, i1, hkl, hks, hkf, hkp, hkd, hkc, c1⟩ := newSlot_spec hj.linked hj.clean hj.isok heq
      simp only [setMaxSize_is]
      obtain ⟨a, b, hab, hsk, hsx, hsn, hsd⟩ := skip_split c1 i1 (seg.slots.size - 1)
      have hfuel : seg.slots.size - 1 + 2 = seg.slots.size + 1 := by omega
      rw [hfuel] at hsk
      rw [hsk]
      subst hab
      obtain ⟨l2, t2⟩ := linkNew_linked l1 hkl hks hkp
      have hsub : ∀ x, x ∈ a ++ b → x ∈ a ++ k :: b := fun x hx => by
        rcases List.mem_append.mp hx with hx | hx
        · exact List.mem_append_left _ hx
        · exact List.mem_append_right _ (List.mem_cons_of_mem _ hx)
      refine ⟨a, b, k, _, _, rfl, hkl, ⟨?_, ?_, ?_, ?_, ?_⟩, hsx, hsn, hbud, rfl, hsd⟩
      · simp only [setMap_seg, setIs_seg, withSeg_seg]
        exact l2.addGlyphs _
      · simp only [setMap_seg, setIs_seg, withSeg_seg]
        refine ⟨fun j hj' => ?_, ?_, ?_, ?_, ?_, ?_⟩
        · simp only [addGlyphs_get]
          rw [(t2.flags j).1, (t2.flags j).2]
          rcases List.mem_append.mp hj' with hx | hx
          · exact c1.live j (List.mem_append_left _ hx)
          · rcases List.mem_cons.mp hx with hx | hx
            · rw [hx]; exact ⟨hkd, hkc⟩
            · exact c1.live j (List.mem_append_right _ hx)
        · simp only [addGlyphs_free]; rw [t2.free]; exact c1.freeNodup
        · intro f hf; simp only [addGlyphs_free] at hf; rw [t2.free] at hf
          simp only [addGlyphs_size]; rw [t2.size]; exact c1.freeInb f hf
        · intro f hf; simp only [addGlyphs_free] at hf; rw [t2.free] at hf
          intro hh
          rcases List.mem_append.mp hh with hx | hx
          · exact c1.freeOut f hf (List.mem_append_left _ hx)
          · rcases List.mem_cons.mp hx with hx | hx
            · exact hkf (hx ▸ hf)
            · exact c1.freeOut f hf (List.mem_append_right _ hx)
        · intro f hf; simp only [addGlyphs_free] at hf; rw [t2.free] at hf
          simp only [addGlyphs_get]
          have hfo : f ∉ a ++ k :: b := by
            intro hh
            rcases List.mem_append.mp hh with hx | hx
            · exact c1.freeOut f hf (List.mem_append_left _ hx)
            · rcases List.mem_cons.mp hx with hx | hx
              · exact hkf (hx ▸ hf)
              · exact c1.freeOut f hf (List.mem_append_right _ hx)
          rw [t2.out f hfo]; exact c1.freeClean f hf
        · simp only [addGlyphs_num]; rw [t2.numGlyphs, c1.count]
          simp only [List.length_append, List.length_cons]; omega
      · simp only [setMap_seg, setIs_seg, withSeg_seg, setMap_is, setIs_is]
        exact .inr (.inl ⟨k, rfl, by simp⟩)
      · simp only [setMap_highwater, setIs_highwater, withSeg_highwater, markHighpassed_highwater, setMaxSize_highwater]
        intro x hx
        exact hsub x (hj.hw x hx)
      · simp only [setMap_seg, setIs_seg, withSeg_seg]
        intro j h1 h2 h3 h4
        simp only [addGlyphs_size, addGlyphs_free, addGlyphs_get] at h1 h2 h3 h4
        rw [t2.size] at h1; rw [t2.free] at h2; rw [(t2.flags j).2] at h3; rw [(t2.flags j).1] at h4
        rcases newSlot_alloc hj.alloc heq j h1 h2 h3 h4 with hx | hx
        · exact hsub j hx
        · rw [hx]; simp

theorem insert_J (c : Ctx) {l : List Nat} (hj : J c l) : OutcomeP (InsOut c l) (opInsert c) := by
  have h := insert_J2 c hj
  cases ho : opInsert c with
  | cont c' => rw [ho] at h; exact .inr h
  | died c' => rw [ho] at h; exact .inl h
  | fault w => trivial

theorem insert_PS (c : Ctx) (h : PS c) : OutcomeP PS (opInsert c) := by
  obtain ⟨l, hj⟩ := h
  refine (insert_J c hj).mono (fun c' h => ?_)
  rcases h with ⟨_, h⟩ | ⟨a, b, n, sg, mp, _, _, h, _⟩
  · exact ⟨l, h⟩
  · exact ⟨a ++ n :: b, h⟩

end GrVerif.Action

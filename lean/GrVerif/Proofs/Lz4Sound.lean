import GrVerif.Proofs.Lz4Copy
import GrVerif.Spec.Lz4Ref
/-!
# `lz4_sound`: whatever the decoder returns is what the block format says   (C14)

If the model of `lz4::decompress` returns a byte count, the reference decoder of `Spec/Lz4Ref.lean` accepts the block and produces
exactly the first `count` bytes of the output buffer.  Hypotheses: the input consists of bytes, and it is shorter than 2^32/255 bytes, so
that the decoder's 32-bit length accumulators cannot wrap (a run of 16 843 009 bytes 0xFF in a length is the shortest that does).
-/
set_option linter.unusedSimpArgs false
set_option linter.unusedVariables false
namespace GrVerif.Lz4
open GrVerif

/-- the first `L.length` bytes of `b` are `L` -/
def Agree (b : Buf) (L : List Nat) : Prop := ∀ i, i < L.length → b.getD i 0 = L.getD i 0

theorem getD_lt (b : Buf) (i : Nat) (h : i < b.size) : b.getD i 0 = b[i] := by
  simp [Array.getD_eq_getD_getElem?, h]
theorem getElem?_lt (b : Buf) (i : Nat) (h : i < b.size) : b[i]? = some (b.getD i 0) := by
  simp [Array.getD_eq_getD_getElem?, h]

theorem list_getD_append (L M : List Nat) (i : Nat) : (L ++ M).getD i 0 = if i < L.length then L.getD i 0 else M.getD (i - L.length) 0 := by
  simp only [List.getD_eq_getElem?_getD, List.getElem?_append]
  by_cases h : i < L.length <;> simp [h]

theorem lits_length (src : Buf) (s n : Nat) : (Lz4Ref.lits src s n).length = n := by simp [Lz4Ref.lits]
theorem lits_getD (src : Buf) (s n j : Nat) (h : j < n) : (Lz4Ref.lits src s n).getD j 0 = src.getD (s + j) 0 := by
  simp [Lz4Ref.lits, List.getD_eq_getElem?_getD, h]

/-- literals copied behind an agreeing prefix -/
theorem agree_lits (src out o : Buf) (L : List Nat) (s d ll k : Nat) (hL : L.length = d) (ha : Agree out L) (hk : ll ≤ k)
    (ho : ∀ i, o.getD i 0 = if d ≤ i ∧ i < d + k then src.getD (s + (i - d)) 0 else out.getD i 0) : Agree o (L ++ Lz4Ref.lits src s ll) := by
  intro i hi
  rw [List.length_append, lits_length] at hi
  rw [list_getD_append, ho i]
  by_cases h : i < L.length
  · rw [if_pos h, if_neg (by omega)]; exact ha i h
  · rw [if_neg h, if_pos (by omega), lits_getD _ _ _ _ (by omega), hL]

/-- a buffer whose bytes from `d` on repeat the bytes `dist` before them agrees with the reference's match copy -/
theorem agree_match (o : Buf) (dist : Nat) : ∀ n (L : List Nat), 0 < dist → dist ≤ L.length → Agree o L →
    (∀ i, i < n → o.getD (L.length + i) 0 = o.getD (L.length - dist + i) 0) →
    Agree o (Lz4Ref.copyMatch dist n L) ∧ (Lz4Ref.copyMatch dist n L).length = L.length + n := by
  intro n
  induction n with
  | zero => intro L _ _ ha _; exact ⟨ha, rfl⟩
  | succ n ih =>
    intro L h0 hd ha hrep
    unfold Lz4Ref.copyMatch
    have hlen : (L ++ [L.getD (L.length - dist) 0]).length = L.length + 1 := by simp
    have hA : Agree o (L ++ [L.getD (L.length - dist) 0]) := by
      intro i hi
      rw [hlen] at hi
      rw [list_getD_append]
      by_cases h : i < L.length
      · rw [if_pos h]; exact ha i h
      · rw [if_neg h]
        have : i = L.length := by omega
        subst this
        rw [Nat.sub_self, List.getD_cons_zero]
        have := hrep 0 (by omega)
        rw [Nat.add_zero, Nat.add_zero] at this
        rw [this]; exact ha _ (by omega)
    have hR : ∀ i, i < n → o.getD ((L ++ [L.getD (L.length - dist) 0]).length + i) 0 = o.getD ((L ++ [L.getD (L.length - dist) 0]).length - dist + i) 0 := by
      intro i hi
      rw [hlen]
      have := hrep (i + 1) (by omega)
      rw [show L.length + 1 + i = L.length + (i + 1) by omega, show L.length + 1 - dist + i = L.length - dist + (i + 1) by omega]
      exact this
    obtain ⟨a, b⟩ := ih (L ++ [L.getD (L.length - dist) 0]) h0 (by rw [hlen]; omega) hA hR
    exact ⟨a, by rw [b, hlen]; omega⟩

/-! ## the length fields -/

theorem sat32_max (b : Nat) : sat32 (2 ^ 32 - 1 + b) = 2 ^ 32 - 1 := by
  unfold sat32; by_cases h : 2 ^ 32 - 1 + b > 2 ^ 32 - 1
  · rw [if_pos h]
  · rw [if_neg h]; omega

/-- once the accumulator is at its maximum it stays there -/
theorem readLitGo_sat (src : Buf) : ∀ fuel s s' l', readLitGo src src.size fuel s (2 ^ 32 - 1) = .ok (s', l') → l' = 2 ^ 32 - 1 := by
  intro fuel
  induction fuel with
  | zero => intro s s' l' h; simp only [readLitGo] at h; cases h; rfl
  | succ fuel ih =>
    intro s s' l' h
    simp only [readLitGo, bind, Except.bind, pure, Except.pure] at h
    cases hr : rd src s with
    | error e => rw [hr] at h; cases h
    | ok v =>
      rw [hr] at h
      simp only [sat32_max] at h
      by_cases hc : v = 0xff ∧ s + 1 ≠ src.size
      · rw [if_pos hc] at h; exact ih _ _ _ h
      · rw [if_neg hc] at h; cases h; rfl

theorem readLitGo_ref (src : Buf) (hbyte : ∀ i (h : i < src.size), src[i] < 256) :
    ∀ fuel s l s' l', readLitGo src src.size fuel s l = .ok (s', l') → s < src.size → src.size - s ≤ fuel → l < 2 ^ 32 - 1 → 15 ≤ l →
      (Lz4Ref.ext src (src.size - s + 1) s l = some (s', l') ∧ l' < 2 ^ 32 - 1) ∨ (s' = src.size ∧ 15 ≤ l') ∨ l' = 2 ^ 32 - 1 := by
  intro fuel
  induction fuel with
  | zero => intro s l s' l' _ h1 h2; omega
  | succ fuel ih =>
    intro s l s' l' h hs hf hl hl15
    have hr : rd src s = .ok (src[s]'hs) := rd_ok hs
    simp only [readLitGo, hr, bind, Except.bind, pure, Except.pure] at h
    have hlt := hbyte s hs
    by_cases hsat : l + src[s] ≥ 2 ^ 32 - 1
    · -- the accumulator reaches its maximum
      have hm : sat32 (l + src[s]) = 2 ^ 32 - 1 := by
        unfold sat32; by_cases h2 : l + src[s] > 2 ^ 32 - 1
        · rw [if_pos h2]
        · rw [if_neg h2]; omega
      rw [hm] at h
      right; right
      by_cases hc : src[s]'hs = 0xff ∧ s + 1 ≠ src.size
      · rw [if_pos hc] at h; exact readLitGo_sat src _ _ _ _ h
      · rw [if_neg hc] at h; cases h; rfl
    · have hu : sat32 (l + src[s]) = l + src[s] := by unfold sat32; rw [if_neg (by omega)]
      rw [hu] at h
      have hext : src.size - s + 1 = (src.size - s) + 1 := rfl
      rw [hext]
      unfold Lz4Ref.ext
      rw [getElem?_lt src s hs, getD_lt src s hs]
      simp only []
      by_cases hc : src[s]'hs = 0xff ∧ s + 1 ≠ src.size
      · rw [if_pos hc] at h
        rw [if_pos hc.1]
        rw [hc.1] at h hsat
        have := ih (s + 1) (l + 255) s' l' h (by omega) (by omega) (by omega) (by omega)
        rw [show src.size - (s + 1) + 1 = src.size - s by omega] at this
        exact this
      · rw [if_neg hc] at h
        cases h
        by_cases hb : src[s]'hs = 0xff
        · right; left
          exact ⟨by apply Classical.byContradiction; intro hne; exact hc ⟨hb, hne⟩, by omega⟩
        · left
          rw [if_neg hb]
          exact ⟨rfl, by omega⟩

/-- a length field as the decoder reads it is the length the format defines – unless it runs into the end of the input or does not fit 32
bits, which the decoder turns into a failure later -/
theorem readLiteral_ref (src : Buf) (hbyte : ∀ i (h : i < src.size), src[i] < 256)
    (s l s' l' : Nat) (h : readLiteral src src.size s l = .ok (s', l')) (hs : s ≤ src.size) (hl : l ≤ 15) :
    (Lz4Ref.len src s l = some (s', l') ∧ l' < 2 ^ 32 - 1) ∨ (s' = src.size ∧ 15 ≤ l') ∨ l' = 2 ^ 32 - 1 := by
  unfold readLiteral at h
  unfold Lz4Ref.len
  by_cases hc : l = 15 ∧ s ≠ src.size
  · rw [if_pos hc] at h
    rw [if_pos hc.1]
    have := readLitGo_ref src hbyte (src.size - s) s l s' l' h (by omega) (by omega) (by omega) (by omega)
    rw [hc.1] at this
    exact this
  · rw [if_neg hc] at h
    cases h
    by_cases h15 : l = 15
    · right; left; exact ⟨by apply Classical.byContradiction; intro hne; exact hc ⟨h15, hne⟩, by omega⟩
    · left; rw [if_neg h15]; exact ⟨rfl, by omega⟩

/-- the pieces of `read_sequence` -/
theorem readSequence_parts (src : Buf) (s ml0 md0 : Nat) (q : Seq) (hs : s < src.size) (h : readSequence src s ml0 md0 = .ok q) :
    ∃ s1 ll, readLiteral src src.size (s + 1) (src.getD s 0 >>> 4) = .ok (s1, ll) ∧ s + 1 ≤ s1 ∧ s1 ≤ src.size ∧ q.literal = s1 ∧ q.literalLen = ll ∧
      (q.more = true → s1 + ll + 2 ≤ src.size ∧ ∃ s2 ml, readLiteral src src.size (s1 + ll + 2) (src.getD s 0 &&& 0xf) = .ok (s2, ml) ∧
        q.matchLen = u32 (ml + 4) ∧ q.matchDist = (src.getD (s1 + ll) 0 ||| (src.getD (s1 + ll + 1) 0 <<< 8)) ∧ q.src = s2 ∧ s2 + 6 ≤ src.size) := by
  have hr : rd src s = .ok (src[s]'hs) := rd_ok hs
  obtain ⟨s1, ll, h1, h1a, h1b⟩ := readLiteral_ok src src.size (s + 1) (src[s] >>> 4) (Nat.le_refl _) (by omega)
  simp only [readSequence, hr, h1, bind, Except.bind, pure, Except.pure] at h
  rw [getD_lt src s hs]
  refine ⟨s1, ll, h1, h1a, h1b, ?_⟩
  by_cases hc : s1 + ll + 2 > src.size
  · simp only [hc, if_true] at h
    cases h
    exact ⟨rfl, rfl, fun hm => by cases hm⟩
  · simp only [hc, if_false] at h
    have r0 : rd src (s1 + ll) = .ok (src[s1 + ll]'(by omega)) := rd_ok (by omega)
    have r1 : rd src (s1 + ll + 1) = .ok (src[s1 + ll + 1]'(by omega)) := rd_ok (by omega)
    obtain ⟨s2, ml, h2, h2a, h2b⟩ := readLiteral_ok src src.size (s1 + ll + 2) (src[s] &&& 0xf) (Nat.le_refl _) (by omega)
    simp only [r0, r1, h2] at h
    cases h
    refine ⟨rfl, rfl, fun hm => ⟨by omega, s2, ml, h2, rfl, ?_, rfl, ?_⟩⟩
    · rw [getD_lt src (s1 + ll) (by omega), getD_lt src (s1 + ll + 1) (by omega)]
    · simp only [Gen.MINCODA] at hm; exact of_decide_eq_true hm

theorem dist_eq (a b : Nat) (ha : a < 256) : a ||| (b <<< 8) = a + 256 * b := by
  rw [Nat.or_comm, ← Nat.shiftLeft_add_eq_or_of_lt (by omega : a < 2 ^ 8), Nat.shiftLeft_eq]; omega

/-- **soundness of the main loop**: from a state whose output so far is `L`, a returned count means the reference decoder, continuing from
`L`, accepts the rest of the block and produces what the buffer holds -/
theorem loop_sound (src : Buf) (hbyte : ∀ i (h : i < src.size), src[i] < 256) (hsz : src.size < 2 ^ 32) :
    ∀ fuel s d rem ml0 md0 (out : Buf) (L : List Nat) n (out' : Buf), s < src.size → d + rem = out.size → L.length = d → Agree out L →
      loop src fuel s d rem ml0 md0 out = .ok (some n, out') →
      ∃ R, Lz4Ref.decode src fuel s L = some R ∧ R.length = n ∧ Agree out' R := by
  intro fuel
  induction fuel with
  | zero => intro s d rem ml0 md0 out L n out' _ _ _ _ h; simp only [loop] at h; cases h
  | succ fuel ih =>
    intro s d rem ml0 md0 out L n out' hs hinv hL ha h
    obtain ⟨q, hq, hok⟩ := readSequence_ok src s ml0 md0 hs
    obtain ⟨s1, ll, hl1, hs1a, hs1b, hql, hqll, hmore⟩ := readSequence_parts src s ml0 md0 q hs hq
    simp only [loop, hq, bind, Except.bind, pure, Except.pure] at h
    have hbt := hbyte s hs
    have htok4 : src.getD s 0 >>> 4 ≤ 15 := by rw [getD_lt _ _ hs, Nat.shiftRight_eq_div_pow]; omega
    have htokf : src.getD s 0 &&& 0xf ≤ 15 := Nat.and_le_right
    have hlit := readLiteral_ref src hbyte (s + 1) _ s1 ll hl1 (by omega) htok4
    unfold Lz4Ref.decode
    rw [getElem?_lt src s hs]
    simp only []
    by_cases hm : q.more = true
    · -- a sequence with a match
      obtain ⟨hlit2, s2, ml, hl2, hqml, hqmd, hqsrc, hs2⟩ := hmore hm
      have hmat := readLiteral_ref src hbyte (s1 + ll + 2) _ s2 ml hl2 (by omega) htokf
      have hml_le : ml ≤ 2 ^ 32 - 1 := by rcases hmat with ⟨_, hh⟩ | ⟨he2, _⟩ | hh <;> omega
      rcases hlit with ⟨hlen1, _⟩ | ⟨he, _⟩ | hsat
      · have hdist : q.matchDist = src.getD (s1 + ll) 0 + 256 * src.getD (s1 + ll + 1) 0 := by
          rw [hqmd]; exact dist_eq _ _ (by rw [getD_lt src (s1 + ll) (by omega)]; exact hbyte _ _)
        simp only [hm, Bool.not_true, Bool.false_eq_true, if_false] at h
        -- the match step from any state that agrees with a list
        have step : ∀ d' rem' (o1 : Buf) (L1 : List Nat), d' + rem' = o1.size → L1.length = d' → Agree o1 L1 →
            (do
              let lim := ((rem' + 2^64 - Gen.LASTLITERALS) % 2^64) % 2^32
              if q.matchDist > d' ∨ q.matchLen < Gen.MINMATCH ∨ q.matchLen > lim ∨ rem' < Gen.LASTLITERALS ∨ q.matchDist = 0 then pure (none, o1) else
              let pcpy := d' - q.matchDist
              let o ← if d' > pcpy + WS ∧ align q.matchLen ≤ rem' then overrunSelf (nWords q.matchLen) pcpy d' o1
                        else safeSelf q.matchLen pcpy d' o1
              loop src fuel q.src (d' + q.matchLen) (rem' - q.matchLen) q.matchLen q.matchDist o : Except Fault (Option Nat × Buf)) = .ok (some n, out') →
            ¬ (q.matchDist = 0 ∨ q.matchDist > L1.length) ∧ q.matchLen = ml + 4 ∧
              ∃ R, Lz4Ref.decode src fuel s2 (Lz4Ref.copyMatch q.matchDist (ml + 4) L1) = some R ∧ R.length = n ∧ Agree out' R := by
          intro d' rem' o1 L1 hinv' hL1 ha1 hstep
          simp only [Gen.LASTLITERALS, Gen.MINMATCH, Nat.reducePow] at hstep
          by_cases hbad : q.matchDist > d' ∨ q.matchLen < 4 ∨ q.matchLen > ((rem' + 18446744073709551616 - 5) % 18446744073709551616) % 4294967296 ∨ rem' < 5 ∨ q.matchDist = 0
          · simp only [hbad, if_true, pure, Except.pure] at hstep
            cases hstep
          · simp only [hbad, if_false, bind, Except.bind] at hstep
            have hml : q.matchLen + 5 ≤ rem' := by omega
            have hdst : 0 < q.matchDist ∧ q.matchDist ≤ d' := by omega
            -- a match length of at least MINMATCH did not wrap when MINMATCH was added
            have hml4 : q.matchLen = ml + 4 := by
              have h4 : 4 ≤ q.matchLen := by omega
              rw [hqml] at h4 ⊢
              unfold u32 at h4 ⊢
              simp only [Nat.reducePow] at h4 ⊢ hml_le
              omega
            refine ⟨by omega, hml4, ?_⟩
            -- whichever copy was used, the buffer now repeats the bytes `matchDist` back
            have hcopy : ∀ o2 : Buf, o2.size = o1.size → (∀ i, i < d' → o2.getD i 0 = o1.getD i 0) →
                (∀ i, i < q.matchLen → o2.getD (d' + i) 0 = o2.getD (d' - q.matchDist + i) 0) →
                loop src fuel q.src (d' + q.matchLen) (rem' - q.matchLen) q.matchLen q.matchDist o2 = .ok (some n, out') →
                ∃ R, Lz4Ref.decode src fuel s2 (Lz4Ref.copyMatch q.matchDist (ml + 4) L1) = some R ∧ R.length = n ∧ Agree out' R := by
              intro o2 hsz2 hpre hrep hloop
              have ha2 : Agree o2 L1 := fun i hi => by rw [hpre i (by omega)]; exact ha1 i hi
              obtain ⟨am, lm⟩ := agree_match o2 q.matchDist q.matchLen L1 hdst.1 (by omega) ha2 (by rw [hL1]; exact hrep)
              rw [hml4] at am lm
              rw [hqsrc] at hloop
              exact ih s2 (d' + q.matchLen) (rem' - q.matchLen) q.matchLen q.matchDist o2 _ n out' (by omega) (by omega) (by rw [lm, hL1, hml4]) am hloop
            by_cases hov : d' > d' - q.matchDist + WS ∧ align q.matchLen ≤ rem'
            · simp only [hov, and_self, if_true] at hstep
              cases hc : overrunSelf (nWords q.matchLen) (d' - q.matchDist) d' o1 with
              | error e => rw [hc] at hstep; cases hstep
              | ok o2 =>
                rw [hc] at hstep
                simp only [] at hstep
                obtain ⟨z1, z2, z3⟩ := overrunSelf_eq _ _ _ _ _ (by omega) hc
                have hal := align_le q.matchLen
                exact hcopy o2 z1 z2 (fun i hi => z3 i (by rw [nWords_mul _ (by omega)]; omega)) hstep
            · simp only [hov, if_false] at hstep
              cases hc : safeSelf q.matchLen (d' - q.matchDist) d' o1 with
              | error e => rw [hc] at hstep; cases hstep
              | ok o2 =>
                rw [hc] at hstep
                simp only [] at hstep
                obtain ⟨z1, z2, z3⟩ := safeSelf_eq _ _ _ _ _ (by omega) hc
                exact hcopy o2 z1 z2 z3 hstep
        -- the reference decoder's side, once the model's step is known to have succeeded from `L ++ literals`
        have fin : (¬ (q.matchDist = 0 ∨ q.matchDist > (L ++ Lz4Ref.lits src s1 ll).length) ∧ q.matchLen = ml + 4 ∧
              ∃ R, Lz4Ref.decode src fuel s2 (Lz4Ref.copyMatch q.matchDist (ml + 4) (L ++ Lz4Ref.lits src s1 ll)) = some R ∧ R.length = n ∧ Agree out' R) →
            ∃ R, (match Lz4Ref.len src (s + 1) (src.getD s 0 >>> 4) with
              | none => none
              | some (s1, ll) =>
                if s1 + ll > src.size then none else
                let out := L ++ Lz4Ref.lits src s1 ll
                if s1 + ll = src.size then some out else
                if s1 + ll + 2 > src.size then none else
                let dist := src.getD (s1 + ll) 0 + 256 * src.getD (s1 + ll + 1) 0
                match Lz4Ref.len src (s1 + ll + 2) (src.getD s 0 &&& 0xf) with
                | none => none
                | some (s2, ml) =>
                  if dist = 0 ∨ dist > out.length then none else
                  Lz4Ref.decode src fuel s2 (Lz4Ref.copyMatch dist (ml + 4) out)) = some R ∧ R.length = n ∧ Agree out' R := by
          intro g
          rcases hmat with ⟨hlen2, _⟩ | ⟨he2, _⟩ | hsat2
          · rw [hlen1]
            simp only []
            rw [if_neg (by omega), if_neg (by omega), if_neg (by omega), hlen2]
            simp only []
            rw [← hdist, if_neg g.1]
            exact g.2.2
          · omega
          · have := g.2.1
            rw [hqml, hsat2] at this
            unfold u32 at this
            omega
        by_cases hll : q.literalLen = 0
        · simp only [hll, ne_eq, not_true_eq_false, if_false] at h
          have hl0 : ll = 0 := by omega
          apply fin
          have : L ++ Lz4Ref.lits src s1 ll = L := by rw [hl0]; exact List.append_nil L
          rw [this]
          exact step d rem out L hinv hL ha h
        · simp only [hll, ne_eq, not_false_eq_true, if_true] at h
          by_cases hal : align q.literalLen > rem
          · simp only [hal, if_true] at h
            cases h
          · simp only [hal, if_false] at h
            cases hc : overrunFrom src (nWords q.literalLen) q.literal d out with
            | error e => rw [hc] at h; cases h
            | ok o1 =>
              rw [hc] at h
              simp only [] at h
              obtain ⟨z1, z2⟩ := overrunFrom_eq _ _ _ _ _ _ hc
              have hal2 := align_le q.literalLen
              rw [nWords_mul _ hll, hql] at z2
              have ha1 : Agree o1 (L ++ Lz4Ref.lits src s1 ll) := agree_lits src out o1 L s1 d ll (align q.literalLen) hL ha (by omega) z2
              apply fin
              exact step (d + q.literalLen) (rem - q.literalLen) o1 (L ++ Lz4Ref.lits src s1 ll) (by omega)
                (by rw [List.length_append, lits_length]; omega) ha1 h
      · omega
      · omega
    · -- the last sequence: literals only
      simp only [hm, Bool.not_false, if_true] at h
      by_cases hbad : q.literal + q.literalLen > src.size ∨ q.literalLen > rem ∨ q.literal + q.literalLen ≠ src.size
      · simp only [hbad, if_true] at h
        cases h
      · simp only [hbad, if_false] at h
        cases hc : fastFrom src q.literalLen q.literal d out with
        | error e => rw [hc] at h; cases h
        | ok o1 =>
          rw [hc] at h
          simp only [] at h
          obtain ⟨z1, z2⟩ := fastFrom_eq _ _ _ _ _ _ hc
          rcases hlit with ⟨hlen1, _⟩ | ⟨he, h15⟩ | hsat
          · rw [hlen1]
            simp only []
            rw [if_neg (by omega), if_pos (by omega)]
            injection h with h
            injection h with hn ho
            injection hn with hn
            subst hn; subst ho
            refine ⟨_, rfl, by rw [List.length_append, lits_length]; omega, ?_⟩
            rw [hql] at z2
            exact agree_lits src out o1 L s1 d ll q.literalLen hL ha (by omega) z2
          · omega
          · omega

end GrVerif.Lz4

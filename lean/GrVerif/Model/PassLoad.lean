import GrVerif.Model.Loader
import GrVerif.Gen.Err
/-!
# `Pass::readPass`: the layout of a pass   (C01)

The first half of `Pass::readPass` (`src/Pass.cpp`): the 40-byte header, the consistency tests on its numbers, and the walk
over the variable-length arrays (ranges, rule map, start states, sort keys, pre-context lengths, code offsets, transition
table, the three code blocks) that establishes where each of them lies.  Everything after that – `readRanges`, `readRules`,
the code loader, `readStates` – works with the pointers computed here.

`b` is exactly the bytes of the pass (`pass_start … pass_end`); a read outside them is a `Fault`.  Pointers are offsets from
`pass_start`; the three code pointers `pass_start + <u32> - subtable_base` may lie anywhere (`Int`).  Error codes are the
regenerated values of `enum error`.
-/
namespace GrVerif.Loader
open GrVerif.Gen.Err

def byteAt (b : List Nat) (i : Nat) : Except Fault Nat :=
  match b[i]? with
  | some x => .ok x
  | none => .error (.read "byte")

/-- the 40-byte header -/
structure PassHdr where
  flags : Nat
  maxLoop : Nat
  numRules : Nat
  pc : Nat
  rc : Nat
  ac : Nat
  numStates : Nat
  numTransition : Nat
  numSuccess : Nat
  numColumns : Nat
  numRanges : Nat
  deriving Repr, DecidableEq

/-- where the variable-length arrays lie -/
structure PassArrays where
  numGlyphs : Nat
  ranges : Nat
  oRuleMap : Nat
  numEntries : Nat
  ruleMap : Nat
  minPre : Nat
  maxPre : Nat
  startStates : Nat
  sortKeys : Nat
  precontext : Nat
  colThreshold : Nat
  pcLen : Nat
  oConstraint : Nat
  oActions : Nat
  states : Nat
  deriving Repr, DecidableEq

/-- the three code blocks -/
structure PassCodes where
  pcCode : Nat
  rcCode : Nat
  aCode : Nat
  rcLen : Nat
  acLen : Nat
  endp : Nat
  deriving Repr, DecidableEq

structure PassLayout where
  hdr : PassHdr
  arr : PassArrays
  codes : PassCodes
  deriving Repr, DecidableEq

/-- the header and the consistency tests on its numbers.  `collOK`: the pass may carry collision flags (a positioning pass of a
font with collision attribute, glyph boxes and the Silf flag 0x20).  The inner `Except Nat` carries the loader's error code. -/
def readHdr (b : List Nat) (collOK : Bool) : Except Fault (Except Nat PassHdr) := do
  if b.length < passHeaderSize then return .error E_BADPASSLENGTH
  let flags ← byteAt b 0
  if flags % 32 ≠ 0 ∧ !collOK then return .error E_BADCOLLISIONPASS
  let numCollRuns := flags % 8
  let ml ← byteAt b 1
  let maxLoop := if ml < 1 then 1 else ml
  let numRules ← be16 b 4
  if numRules = 0 ∧ numCollRuns = 0 then return .error E_BADEMPTYPASS
  let pc ← be32 b 8
  let rc ← be32 b 12
  let ac ← be32 b 16
  let numStates ← be16 b 24
  let numTransition ← be16 b 26
  let numSuccess ← be16 b 28
  let numColumns ← be16 b 30
  let numRanges ← be16 b 32
  if numTransition > numStates then return .error E_BADNUMTRANS
  if numSuccess > numStates then return .error E_BADNUMSUCCESS
  if numSuccess + numTransition < numStates then return .error E_BADNUMSTATES
  if numRules ≠ 0 ∧ numRanges = 0 then return .error E_NORANGES
  if numColumns > maxColumns then return .error E_BADNUMCOLUMNS
  return .ok { flags, maxLoop, numRules, pc, rc, ac, numStates, numTransition, numSuccess, numColumns, numRanges }

/-- the walk over the arrays up to the transition table -/
def readArrays (b : List Nat) (h : PassHdr) : Except Fault (Except Nat PassArrays) := do
  let len := b.length
  let p := passHeaderSize
  -- `p + numRanges * 6 - 2 > pass_end`
  if p + h.numRanges * 6 - 2 > len then return .error E_BADPASSLENGTH
  let lastGlyph ← be16 b (p + h.numRanges * 6 - 4)
  let numGlyphs := (lastGlyph + 1) % 65536            -- `m_numGlyphs` is a uint16
  let ranges := p
  let p := p + h.numRanges * 6
  let oRuleMap := p
  let p := p + (h.numSuccess + 1) * 2
  if oRuleMap + h.numSuccess * 2 > len ∨ p > len then return .error E_BADRULEMAPLEN
  let numEntries ← be16 b (oRuleMap + h.numSuccess * 2)
  let ruleMap := p
  let p := p + numEntries * 2
  if p + 2 > len then return .error E_BADPASSLENGTH
  let minPre ← byteAt b p
  let maxPre ← byteAt b (p + 1)
  let p := p + 2
  if minPre > maxPre then return .error E_BADCTXTLENBOUNDS
  let startStates := p
  let p := p + (maxPre - minPre + 1) * 2
  let sortKeys := p
  let p := p + h.numRules * 2
  let precontext := p
  let p := p + h.numRules
  if p + 3 > len then return .error E_BADCTXTLENS
  let ct ← byteAt b p
  let colThreshold := if ct = 0 then 10 else ct
  let pcLen ← be16 b (p + 1)
  let p := p + 3
  let oConstraint := p
  let p := p + (h.numRules + 1) * 2
  let oActions := p
  let p := p + (h.numRules + 1) * 2
  -- `2u*m_numTransition*m_numColumns >= (unsigned)(pass_end - p) || p >= pass_end`
  if p ≥ len ∨ 2 * h.numTransition * h.numColumns ≥ len - p then return .error E_BADPASSLENGTH
  return .ok { numGlyphs, ranges, oRuleMap, numEntries, ruleMap, minPre, maxPre, startStates, sortKeys, precontext, colThreshold, pcLen,
               oConstraint, oActions, states := p }

/-- the code pointers `pass_start + <u32> - subtable_base` must be where the walk arrives -/
def readCodes (b : List Nat) (base : Nat) (h : PassHdr) (a : PassArrays) : Except Fault (Except Nat PassCodes) := do
  let p := a.states + h.numTransition * h.numColumns * 2 + 1
  if (p : Int) ≠ (h.pc : Int) - base then return .error E_BADPASSCCODEPTR
  let pcCode := p
  let p := p + a.pcLen
  if (p : Int) ≠ (h.rc : Int) - base then return .error E_BADRULECCODEPTR
  if (h.rc : Int) - (h.pc : Int) ≠ a.pcLen then return .error E_BADCCODELEN
  let rcCode := p
  let rcLen ← be16 b (a.oConstraint + h.numRules * 2)
  let p := p + rcLen
  if (p : Int) ≠ (h.ac : Int) - base then return .error E_BADACTIONCODEPTR
  let aCode := p
  let acLen ← be16 b (a.oActions + h.numRules * 2)
  let p := p + acLen
  if p > b.length then return .error E_BADPASSLENGTH
  return .ok { pcCode, rcCode, aCode, rcLen, acLen, endp := p }

/-- `Pass::readPass` up to the point where the code blocks have been located -/
def readPassLayout (b : List Nat) (base : Nat) (collOK : Bool) : Except Fault (Except Nat PassLayout) :=
  match readHdr b collOK with
  | .error f => .error f
  | .ok (.error e) => .ok (.error e)
  | .ok (.ok h) =>
    match readArrays b h with
    | .error f => .error f
    | .ok (.error e) => .ok (.error e)
    | .ok (.ok a) =>
      match readCodes b base h a with
      | .error f => .error f
      | .ok (.error e) => .ok (.error e)
      | .ok (.ok c) => .ok (.ok { hdr := h, arr := a, codes := c })

/-! ## `Pass::readStates` and the rule map of `Pass::readRules` -/

/-- `n` consecutive big-endian 16-bit numbers from offset `off` -/
def readU16s (b : List Nat) (off : Nat) : Nat → Except Fault (List Nat)
  | 0 => .ok []
  | n + 1 => do
    let v ← be16 b off
    let vs ← readU16s b (off + 2) n
    return v :: vs

/-- the state machine's tables as `readStates` leaves them -/
structure PassTables where
  starts : List Nat                 -- `m_startStates`
  trans : List Nat                  -- `m_transitions`, row by row
  ruleRange : List (Nat × Nat)      -- per success state: `[begin, end)` into the rule map
  deriving Repr, DecidableEq

/-- `Pass::readStates`: start states, transition table, and the rule-map range of each success state -/
def readStates (b : List Nat) (L : PassLayout) : Except Fault (Except Nat PassTables) := do
  let starts ← readU16s b L.arr.startStates (L.arr.maxPre - L.arr.minPre + 1)
  if starts.any (· ≥ L.hdr.numStates) then return .error E_BADSTATE
  let trans ← readU16s b L.arr.states (L.hdr.numTransition * L.hdr.numColumns)
  if trans.any (· ≥ L.hdr.numStates) then return .error E_BADSTATE
  let offs ← readU16s b L.arr.oRuleMap (L.hdr.numSuccess + 1)
  let numEntries := offs.getLastD 0          -- `be::peek<uint16>(o_rule_map + m_numSuccess*sizeof(uint16))`
  let ranges := offs.zip (offs.drop 1)
  -- `begin >= rule_map_end || end > rule_map_end || begin > end`
  if ranges.any (fun r => r.1 ≥ numEntries ∨ r.2 > numEntries ∨ r.1 > r.2) then return .error E_BADRULEMAPPING
  return .ok { starts, trans, ruleRange := ranges }

/-- the rule map loaded at the end of `Pass::readRules`: every entry must name a rule -/
def readRuleMap (b : List Nat) (L : PassLayout) : Except Fault (Except Nat (List Nat)) := do
  let es ← readU16s b L.arr.ruleMap L.arr.numEntries
  if es.any (· ≥ L.hdr.numRules) then return .error E_BADRULENUM
  return .ok es

end GrVerif.Loader

import GrVerif.Model.Seg
import GrVerif.Gen.Justify
/-!
# Line breaking and the line-end sentinels of justification   (C19)

`gr_slot_linebreak_before` (`src/gr_slot.cpp`), `Segment::addLineEnd` / `Segment::delLineEnd` (`src/Justifier.cpp`) on the
slot heap of `Model/Seg.lean`, and the stream-level skeleton of `Segment::justify` for the case in which it does not
reverse the slot list: which links it writes, in which order, and what it restores.  The float arithmetic of the
stretch/shrink distribution and the justification passes themselves are not part of this model.
-/
namespace GrVerif.Seg

/-- `gr_slot_linebreak_before(p)`: `none` when `p` has no predecessor (the C++ dereferences the null `prev`) -/
def Seg.linebreakBefore (s : Seg) (p : Nat) : Option Seg :=
  match (s.get p).prev with
  | none => none
  | some q => some ((s.upd q fun sl => (sl.setSibling none).setNext none).upd p fun sl => sl.setPrev none)

/-- `Segment::addLineEnd(nSlot)`: returns the sentinel slot; `none` when no slot could be allocated or (null `nSlot`)
the segment has no last slot -/
def Seg.addLineEnd (s : Seg) (nSlot : Option Nat) (growthFactor : Nat) : Option (Nat × Seg) :=
  match s.newSlot growthFactor with
  | none => none
  | some (e, s) =>
    match nSlot with
    | some n =>
      let s := s.upd e fun sl => (sl.setNext (some n)).setPrev (s.get n).prev
      let s := s.upd n fun sl => sl.setPrev (some e)
      let s := s.upd e fun sl => sl.setBefore (s.get n).before
      let s := match (s.get e).prev with
        | some q => s.upd e fun sl => sl.setAfter (s.get q).after
        | none => s.upd e fun sl => sl.setAfter (s.get n).before
      some (e, s)
    | none =>
      match s.last with
      | none => none
      | some l =>
        let s := s.upd e fun sl => sl.setPrev (some l)
        let s := s.upd l fun sl => sl.setNext (some e)
        let s := s.upd e fun sl => sl.setAfter (s.get l).after
        let s := s.upd e fun sl => sl.setBefore (s.get l).after
        some (e, s)

/-- `Segment::delLineEnd(s)`; `none` when the C++ dereferences a null `prev` -/
def Seg.delLineEnd (s : Seg) (e : Nat) : Option Seg :=
  match (s.get e).next with
  | some n =>
    let s := s.upd n fun sl => sl.setPrev (s.get e).prev
    let s := match (s.get e).prev with
      | some q => s.upd q fun sl => sl.setNext (some n)
      | none => s
    some (s.freeSlot e)
  | none =>
    match (s.get e).prev with
    | some q => some ((s.upd q fun sl => sl.setNext none).freeSlot e)
    | none => none

/-- The bracket of `Segment::justify` in a font with line-end contextuals: `m_first = addLineEnd(first)`, `m_last = addLineEnd(end)`, (the
justification passes and `positionSlots` leave the links of the stream alone), then the two `delLineEnd` calls in the order
`src/Justifier.cpp` has them on this run (`Gen.Justify.bracketRemovedLastInsertedFirst`, regenerated). -/
def Seg.justifyBracket (s : Seg) (first «end» : Nat) (growthFactor : Nat) : Option Seg :=
  match s.addLineEnd (some first) growthFactor with
  | none => none
  | some (e1, s1) =>
    match s1.addLineEnd (some «end») growthFactor with
    | none => none
    | some (e2, s2) =>
      if Gen.Justify.bracketRemovedLastInsertedFirst then (s2.delLineEnd e2).bind fun s3 => s3.delLineEnd e1
      else (s2.delLineEnd e1).bind fun s3 => s3.delLineEnd e2

/-- The level-0 distribution loop of `Segment::justify` with its body abstracted:
`int rounds = 0; do { body } while (again && ++rounds <= numSlots);` - `body` is one round over the slots of the line and answers
`i == 0 && int(abs(error)) > 0 && tWeight`.  The first argument is `numSlots - rounds`.  Returns the final state and the number of rounds. -/
def distLoop {σ : Type} (body : σ → σ × Bool) : Nat → σ → σ × Nat
  | 0, st => ((body st).1, 1)
  | left + 1, st =>
    let (st', again) := body st
    if again then
      let (st'', c) := distLoop body left st'
      (st'', c + 1)
    else (st', 1)

end GrVerif.Seg

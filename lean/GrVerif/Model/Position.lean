import GrVerif.Model.Seg
/-!
# Final positioning   (C15, C03, C06)

`Segment::positionSlots` and `Slot::finalise` / `Slot::floodShift` (`src/Segment.cpp`, `src/Slot.cpp`) for an unhinted font (or none), no collision information and no justification: every slot's origin and the advance of the
run, as exact rationals.  `k` is the font's scale (`ppm / upem`; 1 when no font is given); all attributes are design units.
-/
namespace GrVerif.Pos
open GrVerif.Seg

abbrev P := Rat × Rat
def P.add (a b : P) : P := (a.1 + b.1, a.2 + b.2)

structure St where
  pos : Array P            -- origin of every slot of the arena
  clusterMin : Rat
  deriving Repr

def St.setPos (st : St) (i : Nat) (p : P) : St := { st with pos := st.pos.setIfInBounds i p }
def St.getPos (st : St) (i : Nat) : P := st.pos.getD i (0, 0)

/-- `Slot::floodShift(adj, depth)`; `fuel` = levels left before `depth > 100` -/
def floodShift (seg : Seg) (adj : P) : Nat → Nat → St → St
  | 0, _, st => st
  | fuel + 1, s, st =>
    let st := st.setPos s (P.add (st.getPos s) adj)
    let st := match (seg.get s).child with
      | some c => floodShift seg adj fuel c st
      | none => st
    match (seg.get s).sibling with
    | some b => floodShift seg adj fuel b st
    | none => st

/-- `m_shift.x * (rtl * -2 + 1)` -/
def _root_.GrVerif.Seg.Slot.shiftDir (sl : Slot) (rtl : Bool) : Int := if rtl then -sl.shiftX else sl.shiftX

/-- the slot's own origin: `(result so far, origin, clusterMin)` from the base point – the first part of `Slot::finalise` -/
def place (sl : Slot) (k : Rat) (base : P) (cm : Rat) (rtl : Bool := false) : P × P × Rat :=
  -- `Position shift(m_shift.x * (rtl * -2 + 1) + m_just, m_shift.y)`
  let shift : P := (k * sl.shiftDir rtl, k * sl.shiftY)
  let tAdvance : Rat := k * sl.advX
  let pos : P := P.add base shift
  match sl.parent with
  | none => ((base.1 + tAdvance, base.2 + k * sl.advY), pos, pos.1)
  | some _ =>
    let pos : P := (pos.1 + k * (sl.attX - sl.withX), pos.2 + k * (sl.attY - sl.withY))
    let tAdv : Rat := if sl.advX ≥ 1 then pos.1 + tAdvance - shift.1 else 0          -- `m_advance.x >= 0.5f` on an integer
    let cm := if (sl.advX ≥ 1 ∨ pos.1 < 0) ∧ pos.1 < cm then pos.1 else cm
    ((tAdv, 0), pos, cm)

/-- `if (cond && tRes.x > res.x) res = tRes;` -/
def pickMax (cond : Bool) (res : P) (r : P × St) : P × St :=
  if cond ∧ r.1.1 > res.1 then (r.1, r.2) else (res, r.2)

/-- the end of `Slot::finalise` for a base: a cluster that reaches left of its base point is moved right -/
def adjustCluster (seg : Seg) (sl : Slot) (s : Nat) (base : P) (res : P) (st : St) : P × St :=
  if sl.parent.isNone ∧ st.clusterMin < base.1 then
    let adj : P := ((st.getPos s).1 - st.clusterMin, 0)
    let st := st.setPos s (P.add (st.getPos s) adj)
    let st := match sl.child with
      | some c => floodShift seg adj 101 c st
      | none => st
    (P.add res adj, st)
  else (res, st)

/-- the recursion of `Slot::finalise` into the first child: the child is positioned from this slot's origin -/
def childStage (seg : Seg) (sl : Slot) (s : Nat) (res pos : P) (st : St) (rec : Nat → P → St → P × St) : P × St :=
  match sl.child with
  | some c =>
    if c ≠ s ∧ (seg.get c).parent = some s then
      pickMax (sl.parent.isNone || decide (sl.advX ≥ 1)) res (rec c pos st)
    else (res, st)
  | none => (res, st)

/-- the recursion of `Slot::finalise` into the next sibling (attached slots only): positioned from the same base point -/
def siblingStage (seg : Seg) (sl : Slot) (s : Nat) (base : P) (r1 : P × St) (rec : Nat → P → St → P × St) : P × St :=
  match sl.parent, sl.sibling with
  | some p, some b =>
    if b ≠ s ∧ (seg.get b).parent = some p then pickMax true r1.1 (rec b base r1.2)
    else r1
  | _, _ => r1

/-- `Slot::finalise(seg, font, base, bbox, 0, clusterMin, rtl, isFinal = true, depth)` -/
def finalise (seg : Seg) (k : Rat) (rtl : Bool := false) : Nat → Nat → P → St → P × St
  | 0, _, _, st => ((0, 0), st)
  | fuel + 1, s, base, st =>
    let sl := seg.get s
    let pl := place sl k base st.clusterMin rtl
    let st := ({ st with clusterMin := pl.2.2 } : St).setPos s pl.2.1
    let r1 := childStage seg sl s pl.1 pl.2.1 st (fun c b t => finalise seg k rtl fuel c b t)
    let r2 := siblingStage seg sl s base r1 (fun c b t => finalise seg k rtl fuel c b t)
    adjustCluster seg sl s base r2.1 r2.2

/-- `Segment::positionSlots(font, first, last, isRtl)` over the stream `l` (already in the direction `isRtl` asks for): origins
and the run's advance; a right-to-left run is walked from its last slot back -/
def positionSlots (seg : Seg) (k : Rat) (l : List Nat) (rtl : Bool := false) : P × St :=
  (if rtl then l.reverse else l).foldl (fun (acc : P × St) s =>
    if (seg.get s).parent.isNone then
      finalise seg k rtl 101 s acc.1 { acc.2 with clusterMin := acc.1.1 }
    else acc) ((0, 0), { pos := Array.replicate seg.slots.size (0, 0), clusterMin := 0 })

end GrVerif.Pos

import GrVerif.Gen.Vm
/-!
# The stack machine: loader (scalar subset) and run loop   (C07, C02)

`load` transcribes `Machine::Code::Code` / `decoder::load` / `fetch_opcode` / `validate_opcode` / `emit_opcode`
(`src/Code.cpp`) for byte programs made of the scalar opcodes; any other implemented opcode makes the model answer
`outsideSubset` (the slot-manipulating opcodes are modelled elsewhere).  `run` transcribes `Machine::run` of both drivers:
start at `sp = sb = _stack + STACK_GUARD`, execute, test `(sp - sb)/STACK_MAX` after every opcode, epilogue.
-/
namespace GrVerif.Vm
open GrVerif.Gen.Vm

inductive LoadStatus where
  | loaded | alloc_failed | invalid_opcode | unimplemented_opcode_used | out_of_range_data | jump_past_end
  | arguments_exhausted | missing_return | nested_context_item | underfull_stack
  | empty            -- `loaded` but no code: an empty program
  | outsideSubset    -- not a failure of the loader: the model does not cover this opcode
  deriving Repr, DecidableEq

structure Program where
  instrs : List Nat
  data : List Nat
  deriving Repr, DecidableEq

def MAX_OPCODE : Nat := (opcodeEnum.lookup "MAX_OPCODE").getD 0

/-- stack-depth bookkeeping of `fetch_opcode` for the scalar opcodes: new depth or the failure -/
def depthAfter (opc : Nat) (depth : Int) : Except LoadStatus Int :=
  if opc = 0 then .ok depth                                             -- NOP
  else if 1 ≤ opc ∧ opc ≤ 5 then .ok (depth + 1)                        -- PUSH_*
  else if (6 ≤ opc ∧ opc ≤ 11) ∨ opc = 16 ∨ opc = 17 ∨ (19 ≤ opc ∧ opc ≤ 24) ∨ opc = 62 ∨ opc = 63 then
    if depth - 1 ≤ 0 then .error .underfull_stack else .ok (depth - 1)  -- binary operators
  else if (12 ≤ opc ∧ opc ≤ 14) ∨ opc = 18 ∨ opc = 64 ∨ opc = 65 then
    if depth ≤ 0 then .error .underfull_stack else .ok depth            -- unary operators, BITSET
  else if opc = 15 then
    if depth - 2 ≤ 0 then .error .underfull_stack else .ok (depth - 2)  -- COND
  else if opc = 48 then
    if depth - 1 < 0 then .error .underfull_stack else .ok (depth - 1)  -- POP_RET
  else if opc = 49 ∨ opc = 50 then .ok depth                            -- RET_ZERO, RET_TRUE
  else if opc = 54 ∨ opc = 55 then .ok (depth + 1)                      -- PUSH_PROC_STATE, PUSH_VERSION
  else .error .outsideSubset

def isReturn (opc : Nat) : Bool := opc = 48 ∨ opc = 49 ∨ opc = 50

/-- `decoder::load` over the remaining bytes `bc` (`fuel` = their number): the instructions and the operand bytes, in order -/
def loadLoop (constraint : Bool) : Nat → List Nat → Int → Except LoadStatus (List Nat × List Nat)
  | 0, _, _ => .ok ([], [])
  | _ + 1, [], _ => .ok ([], [])
  | fuel + 1, opc :: rest, depth =>
    -- validate_opcode
    if opc ≥ MAX_OPCODE then .error .invalid_opcode else
    match opcodeTable[opc]? with
    | none => .error .invalid_opcode
    | some (_, psz, implA, implC) =>
      if !(if constraint then implC else implA) then .error .unimplemented_opcode_used else
      if psz = 255 then .error .outsideSubset else
      -- `bc - 1 + param_sz >= _max.bytecode`: the parameters must end before the end of the bytecode
      if psz > rest.length then .error .arguments_exhausted else
      match depthAfter opc depth with
      | .error e => .error e
      | .ok d =>
        match loadLoop constraint fuel (rest.drop psz) d with
        | .error e => .error e
        | .ok (is, ds) => .ok (opc :: is, rest.take psz ++ ds)

/-- `Machine::Code::Code(is_constraint, begin, end, …)` -/
def load (constraint : Bool) (bytes : List Nat) : LoadStatus × Option Program :=
  if bytes.isEmpty then (.empty, none) else
  match loadLoop constraint bytes.length bytes 0 with
  | .error e => (e, none)
  | .ok (is, ds) =>
    if is.isEmpty then (.empty, none)
    else if !(isReturn (is.getLast?.getD 0)) then (.missing_return, none)
    else (.loaded, some ⟨is, ds⟩)

/-! ## running -/
def stackSize : Nat := STACK_MAX + 2 * STACK_GUARD

def initVm (data : List Nat) : Vm :=
  { stack := Array.replicate stackSize 0, sp := STACK_GUARD, dp := 0, data := data.toArray, status := .finished }

inductive RunEnd where
  | normal (s : Vm)                 -- reached `end:` (EXIT, or the continuation test failed)
  | fault (why : Stop) (s : Vm)     -- the model's explicit out-of-bounds access
  | ranOff (s : Vm)                 -- fell off the instruction list (cannot happen for loaded programs)

/-- the dispatch loop; `cont` is the driver's `ENDOP` test on `sp - sb` -/
def runLoop (cont : Int → Bool) : Nat → List Nat → Vm → RunEnd
  | 0, _, s => .ranOff s
  | _ + 1, [], s => .ranOff s
  | fuel + 1, opc :: rest, s =>
    match scalarOp opc with
    | none => .ranOff s
    | some op =>
      match op s with
      | .stop .exited s' => .normal s'
      | .stop w s' => .fault w s'
      | .ok () s' => if cont (s'.sp - STACK_GUARD) then runLoop cont fuel rest s' else .normal s'

/-- `check_final_stack(sp)` -/
def checkFinalStack (status : Status) (sp : Int) : Status :=
  if status ≠ .finished then status
  else if sp < STACK_GUARD then .stack_underflow
  else if sp ≥ STACK_GUARD + STACK_MAX then .stack_overflow
  else if sp ≠ STACK_GUARD then .stack_not_empty
  else .finished

/-- `Machine::run` epilogue: `ret = sp == _stack+STACK_GUARD+1 ? *sp-- : 0; check_final_stack(sp);` -/
def epilogue (s : Vm) : Except Stop (Int × Status) :=
  if s.sp = STACK_GUARD + 1 then
    match rdStack s.sp s with
    | .ok v _ => .ok (v, checkFinalStack s.status (s.sp - 1))
    | .stop w _ => .error w
  else .ok (0, checkFinalStack s.status s.sp)

inductive Driver | direct | call
  deriving DecidableEq, Repr

def Driver.cont : Driver → Int → Bool
  | .direct => directContinues
  | .call => callContinues

/-- `Machine::run(program, data, map)` → `(returned value, machine status)` -/
def run (drv : Driver) (p : Program) : Except Stop (Int × Status) :=
  match runLoop drv.cont p.instrs.length p.instrs (initVm p.data) with
  | .normal s => epilogue s
  | .fault w _ => .error w
  | .ranOff _ => .error (.dataFault 0)

end GrVerif.Vm

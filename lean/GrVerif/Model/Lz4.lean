import GrVerif.Model.Basic
import GrVerif.Gen.Lz4
/-!
# The LZ4 block decoder and the compressed-table wrapper  (C14)

Transcribed from `src/Decompressor.cpp`, `src/inc/Compression.h` and `Face::Table::decompress`
(`src/Face.cpp`).  Pointers are indices; `src` is exactly the compressed input, `out` exactly the
`out_size` bytes the caller provided (with whatever they contained before the call); every read goes
through `rd`, every store through `wr`.  Word copies (`unaligned_copy<8>`) read eight bytes and then
write eight bytes, as `memcpy` does.  `u32` quantities wrap; the length accumulator of `read_literal` saturates.
Not modelled: pointer wrap-around (`src < literal` can never hold for indices).
-/
namespace GrVerif.Lz4
open GrVerif

/-- checked store -/
def wr (b : Buf) (i v : Nat) : Except Fault Buf :=
  if i < b.size then .ok (b.setIfInBounds i v) else .error (.oob i b.size)

def WS : Nat := Gen.wordSize
def u32 (x : Nat) : Nat := x % 2^32
/-- `l > 0xffffffffu - b ? 0xffffffffu : l + b` -/
def sat32 (x : Nat) : Nat := if x > 2^32 - 1 then 2^32 - 1 else x
/-- `align(p)` -/
def align (p : Nat) : Nat := (p + (WS - 1)) / WS * WS

def readN (b : Buf) (s : Nat) : Nat → Except Fault (List Nat)
  | 0 => .ok []
  | n + 1 => do let v ← rd b s; let vs ← readN b (s + 1) n; pure (v :: vs)

def writeL (out : Buf) (d : Nat) : List Nat → Except Fault Buf
  | [] => .ok out
  | v :: vs => do let out ← wr out d v; writeL out (d + 1) vs

/-- `unaligned_copy<WS>(d, s)` from another buffer / within the output buffer -/
def copyWordFrom (src : Buf) (s d : Nat) (out : Buf) : Except Fault Buf := do
  let vs ← readN src s WS; writeL out d vs
def copyWordSelf (s d : Nat) (out : Buf) : Except Fault Buf := do
  let vs ← readN out s WS; writeL out d vs

/-- number of words `overrun_copy` moves for `n` bytes (`do … while (s < e)`) -/
def nWords (n : Nat) : Nat := max 1 ((n + (WS - 1)) / WS)

def overrunFrom (src : Buf) : Nat → Nat → Nat → Buf → Except Fault Buf
  | 0, _, _, out => .ok out
  | w + 1, s, d, out => do let out ← copyWordFrom src s d out; overrunFrom src w (s + WS) (d + WS) out

def overrunSelf : Nat → Nat → Nat → Buf → Except Fault Buf
  | 0, _, _, out => .ok out
  | w + 1, s, d, out => do let out ← copyWordSelf s d out; overrunSelf w (s + WS) (d + WS) out

/-- `safe_copy` within the output buffer: byte by byte, so overlapping matches repeat -/
def safeSelf : Nat → Nat → Nat → Buf → Except Fault Buf
  | 0, _, _, out => .ok out
  | n + 1, s, d, out => do let v ← rd out s; let out ← wr out d v; safeSelf n (s + 1) (d + 1) out

def safeFrom (src : Buf) : Nat → Nat → Nat → Buf → Except Fault Buf
  | 0, _, _, out => .ok out
  | n + 1, s, d, out => do let v ← rd src s; let out ← wr out d v; safeFrom src n (s + 1) (d + 1) out

/-- `fast_copy`: whole words, then the remaining bytes -/
def fastFrom (src : Buf) (n s d : Nat) (out : Buf) : Except Fault Buf := do
  let w := n / WS
  let out ← overrunFrom src w s d out
  safeFrom src (n % WS) (s + w * WS) (d + w * WS) out

/-- the `do … while` of `read_literal`; `e` = end of input -/
def readLitGo (src : Buf) (e : Nat) : Nat → Nat → Nat → Except Fault (Nat × Nat)
  | 0, s, l => .ok (s, l)
  | fuel + 1, s, l => do
    let b ← rd src s
    let l := sat32 (l + b)
    let s := s + 1
    if b = 0xff ∧ s ≠ e then readLitGo src e fuel s l else pure (s, l)

def readLiteral (src : Buf) (e s l : Nat) : Except Fault (Nat × Nat) :=
  if l = 15 ∧ s ≠ e then readLitGo src e (e - s) s l else .ok (s, l)

structure Seq where
  more : Bool          -- return value of `read_sequence`
  src : Nat            -- `src` afterwards
  literal : Nat
  literalLen : Nat
  matchLen : Nat
  matchDist : Nat
  deriving Repr

/-- `read_sequence`; `ml0`, `md0` are the previous values of `match_len`, `match_dist` (left untouched on the early exit) -/
def readSequence (src : Buf) (s : Nat) (ml0 md0 : Nat) : Except Fault Seq := do
  let e := src.size
  let token ← rd src s
  let (s, ll) ← readLiteral src e (s + 1) (token >>> 4)
  let literal := s
  let s := s + ll
  if s + 2 > e then pure ⟨false, s, literal, ll, ml0, md0⟩ else
  let b0 ← rd src s
  let b1 ← rd src (s + 1)
  let dist := b0 ||| (b1 <<< 8)
  let (s, ml) ← readLiteral src e (s + 2) (token &&& 0xf)
  let ml := u32 (ml + Gen.MINMATCH)
  pure ⟨decide (s + Gen.MINCODA ≤ e), s, literal, ll, ml, dist⟩

/-- the main loop; `d` = `dst - out`, `rem` = `out_size` as it is decremented -/
def loop (src : Buf) : Nat → Nat → Nat → Nat → Nat → Nat → Buf → Except Fault (Option Nat × Buf)
  | 0, _, _, _, _, _, out => .ok (none, out)          -- unreachable: fuel = input size
  | fuel + 1, s, d, rem, ml0, md0, out => do
    let q ← readSequence src s ml0 md0
    if !q.more then
      -- after the loop: the final literals
      if q.literal + q.literalLen > src.size ∨ q.literalLen > rem ∨ q.literal + q.literalLen ≠ src.size then pure (none, out) else
      let out ← fastFrom src q.literalLen q.literal d out
      pure (some (d + q.literalLen), out)
    else
      let step (d rem : Nat) (out : Buf) : Except Fault (Option Nat × Buf) := do
        -- `match_len > unsigned(out_size - LASTLITERALS)` with size_t wrap-around and truncation to 32 bits
        let lim := ((rem + 2^64 - Gen.LASTLITERALS) % 2^64) % 2^32
        if q.matchDist > d ∨ q.matchLen < Gen.MINMATCH ∨ q.matchLen > lim ∨ rem < Gen.LASTLITERALS ∨ q.matchDist = 0 then pure (none, out) else
        let pcpy := d - q.matchDist
        let out ← if d > pcpy + WS ∧ align q.matchLen ≤ rem then overrunSelf (nWords q.matchLen) pcpy d out
                  else safeSelf q.matchLen pcpy d out
        loop src fuel q.src (d + q.matchLen) (rem - q.matchLen) q.matchLen q.matchDist out
      if q.literalLen ≠ 0 then
        if align q.literalLen > rem then pure (none, out) else
        let out ← overrunFrom src (nWords q.literalLen) q.literal d out
        step (d + q.literalLen) (rem - q.literalLen) out
      else step d rem out

/-- `lz4::decompress(in, in_size, out, out_size)`: `none` = `-1` -/
def decompress (src out : Buf) : Except Fault (Option Nat × Buf) :=
  if out.size ≤ src.size ∨ src.size < Gen.MINSRCSIZE then .ok (none, out)
  else loop src src.size 0 0 out.size 0 0 out

/-! ## `Face::Table::decompress` -/
def be32 (b : Buf) (i : Nat) : Except Fault Nat := do
  let a ← rd b i; let b1 ← rd b (i + 1); let c ← rd b (i + 2); let d ← rd b (i + 3)
  pure ((a <<< 24) ||| (b1 <<< 16) ||| (c <<< 8) ||| d)

inductive TableResult where
  | unchanged                 -- scheme NONE: the table is used as it is
  | replaced (t : Buf)        -- the decompressed copy replaces the borrowed table
  | failed (code : String)    -- the table becomes empty
  deriving Repr

/-- `tbl` = the whole compressed table as served by the application; `fill` = what `gralloc` returned (arbitrary bytes) -/
def tableDecompress (tbl : Buf) (fill : Nat) : Except Fault TableResult := do
  -- E_BADSIZE is returned before anything is released or replaced, and the constructor ignores the result
  if tbl.size < Gen.minCompressedTable then return .unchanged
  let version ← be32 tbl 0
  let hdr ← be32 tbl 4
  let scheme := hdr >>> Gen.schemeShift
  if scheme = Gen.schemeNONE then return .unchanged
  if scheme ≠ Gen.schemeLZ4 then return .failed "E_BADSCHEME"
  let usize := hdr &&& Gen.sizeMask
  if usize < Gen.minUncompressed then return .failed "E_OUTOFMEM"
  let out0 : Buf := (Array.replicate usize fill).set! 0 0 |>.set! 1 0 |>.set! 2 0 |>.set! 3 0     -- memset(.., 0, 4)
  let (r, out) ← decompress (tbl.extract 8 tbl.size) out0
  if r ≠ some usize then return .failed "E_SHRINKERFAILED"
  let v ← be32 out 0
  if v ≠ version then return .failed "E_SHRINKERFAILED"
  return .replaced out

/-- the `Face::Table` constructor as far as compression goes: `CheckTable` for a Graphite table only needs four bytes;
tables whose version is at least `threshold` (0x00050000 for Silf, 0x00030000 for Glat) go through `decompress` -/
def tableLoad (tbl : Buf) (threshold fill : Nat) : Except Fault TableResult := do
  if tbl.size < 4 then return .failed "CheckTable"
  let v ← be32 tbl 0
  if v ≥ threshold then tableDecompress tbl fill else return .unchanged

end GrVerif.Lz4

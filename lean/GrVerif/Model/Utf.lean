import GrVerif.Model.Basic
import GrVerif.Gen.Utf
/-!
# UTF-8/16/32 codecs, the iterator and `count_unicode_chars`   (C11, C12)

Transcribed from `src/inc/UtfCodec.h` and `src/gr_segment.cpp`.  A *pointer* into the caller's
text is modelled as the list of code units from that pointer to the end of the memory the caller
owns; dereferencing past the end (`[]`) is a `Fault`.  Tables and constants come from `Gen.Utf`
(regenerated from the source on every run).
-/
namespace GrVerif.Utf

abbrev Mem := List Nat

def oob : Fault := .oob 0 0

/-- result of `codec::get`: the scalar and the signed length `l` (`l < 1` = error) -/
abbrev Got := Nat × Int

/-! ## UTF-32 -/
def get32 : Mem → Except Fault Got
  | [] => .error oob
  | c :: _ => if c < Gen.utf32Limit ∧ (c < 0xD800 ∨ c > 0xDFFF) then .ok (c, 1) else .ok (0xFFFD, -1)

/-- `validate(s,e)` for UTF-32 is `s <= e`; with `s = begin` and `e` inside the buffer always true -/
def validate32 (_ : Mem) : Bool := true

/-! ## UTF-16 -/
def get16 : Mem → Except Fault Got
  | [] => .error oob
  | uh :: rest =>
    if uh < 0xD800 ∨ uh > 0xDFFF then .ok (uh, 1)
    else if uh > 0xDBFF then .ok (0xFFFD, -1)
    else match rest with
      | [] => .error oob                               -- `cp[1]` outside the caller's memory
      | ul :: _ =>
        if ul < 0xDC00 ∨ ul > 0xDFFF then .ok (0xFFFD, -1)
        else .ok ((((uh <<< 10 : Nat) : Int) + ul + Gen.surrogateOffset).toNat % 2^32, 2)

/-- `validate(s,e)`: the whole text `[s,e)` is given; only its last unit is inspected -/
def validate16 (text : Mem) : Bool :=
  match text.getLast? with
  | none => true
  | some u => u < 0xD800 ∨ u > 0xDBFF

/-! ## UTF-8 -/
def seqSz (c : Nat) : Nat := Gen.szLut.getD (c >>> 4) 0
def mask (n : Nat) : Nat := Gen.maskLut.getD n 0

/-- thresholds of the `toolong` tests still ahead when entering the fall-through `switch` at `case n` -/
def thresholds : Nat → List Nat
  | 4 => [Gen.tooLong4, Gen.tooLong3, Gen.tooLong2]
  | 3 => [Gen.tooLong3, Gen.tooLong2]
  | 2 => [Gen.tooLong2]
  | _ => []

/-- the fall-through `switch`: one iteration per `case` with a continuation byte still expected.
`mem` starts at `cp+1`. -/
def contLoop : Mem → List Nat → Nat → Nat → Bool → Except Fault (Nat × Nat × Bool)
  | _, [], u, l, t => .ok (u, l, t)
  | [], _ :: _, _, _, _ => .error oob
  | c :: cs, th :: ths, u, l, t =>
    let u' := (u <<< 6) ||| (c &&& 0x3F)
    if c >>> 6 ≠ 2 then .ok (u', l, t) else contLoop cs ths u' (l + 1) (t || decide (u' < th))

def get8 : Mem → Except Fault Got
  | [] => .error oob
  | c0 :: rest =>
    let n := seqSz c0
    if n = 0 then .ok (0xFFFD, -1) else
    match contLoop rest (thresholds n) (c0 &&& mask n) 1 false with
    | .error e => .error e
    | .ok (u, l, t) =>
      if l ≠ n ∨ t ∨ u ≥ Gen.utf8Limit ∨ (0xD800 ≤ u ∧ u ≤ 0xDFFF) then .ok (0xFFFD, -(l : Int)) else .ok (u, (l : Int))

/-- `validate(s,e)` for UTF-8: looks at up to the last three bytes of the text -/
def validate8 (text : Mem) : Bool :=
  match text.reverse with
  | [] => true
  | x :: r1 =>
    if x < 0x80 then true else if x ≥ 0xC0 then false else
    match r1 with
    | [] => true                                        -- n == 1
    | y :: r2 =>
      if y < 0x80 then true else if y ≥ 0xE0 then false else
      match r2 with
      | [] => true                                      -- n == 2
      | z :: _ =>
        if y ≥ 0xC0 then true else
        if z < 0x80 then true else if z ≥ 0xF0 then false else true

/-! ## encodings, iterator, counting -/
inductive Enc | utf8 | utf16 | utf32
  deriving DecidableEq, Repr

def get : Enc → Mem → Except Fault Got
  | .utf8 => get8 | .utf16 => get16 | .utf32 => get32

def validate : Enc → Mem → Bool
  | .utf8 => validate8 | .utf16 => validate16 | .utf32 => validate32

/-- bounded branch of `count_unicode_chars` after `validate` succeeded.
`mem` = text from `first` to `last` (all the caller owns), `off` = `first - begin`.
Returns the count and the iterator state at exit: (offset, error flag). -/
def countLoop (enc : Enc) : Nat → Mem → Nat → Nat → Except Fault (Nat × Nat × Bool)
  | 0, _, off, n => .ok (n, off, false)                -- unreachable: fuel = remaining units + 1
  | fuel + 1, mem, off, n =>
    if mem.isEmpty then .ok (n, off, false)             -- first == last
    else match get enc mem with
      | .error e => .error e
      | .ok (usv, sl) =>
        if usv = 0 ∨ sl < 1 then .ok (n, off, decide (sl < 1))
        else countLoop enc fuel (mem.drop sl.natAbs) (off + sl.natAbs) (n + 1)

/-- `gr_count_unicode_characters(enc, begin, end, &err)`: `text` is exactly `[begin,end)`.
Result: `(count, error offset in code units)`. -/
def countBounded (enc : Enc) (text : Mem) : Except Fault (Nat × Option Nat) :=
  if ¬ validate enc text then .ok (0, some (text.length - 1))      -- *error = last - 1
  else match countLoop enc (text.length + 1) text 0 0 with
    | .error e => .error e
    | .ok (n, off, err) => .ok (n, if err then some off else none)

/-- NUL-terminated branch (`buffer_end == NULL`): `mem` is everything the caller owns from `begin`. -/
def countNulLoop (enc : Enc) : Nat → Mem → Nat → Nat → Except Fault (Nat × Nat × Bool)
  | 0, _, off, n => .ok (n, off, false)
  | fuel + 1, mem, off, n =>
    match get enc mem with
    | .error e => .error e
    | .ok (usv, sl) =>
      if usv ≠ 0 ∧ ¬ sl < 1 then countNulLoop enc fuel (mem.drop sl.natAbs) (off + sl.natAbs) (n + 1)
      else .ok (n, off, decide (sl < 1))

def countNul (enc : Enc) (mem : Mem) : Except Fault (Nat × Option Nat) :=
  match countNulLoop enc (mem.length + 1) mem 0 0 with
  | .error e => .error e
  | .ok (n, off, err) => .ok (n, if err then some off else none)

/-! ## `process_utf_data` (text consumption of `gr_make_seg`, C12/C05)
After the fix for D-1 the loop stops at a NUL scalar that is not a decoding error. Returns the
char-infos `(scalar, base offset)` in order. -/
def readText (enc : Enc) : Nat → Mem → Nat → List (Nat × Nat) → Except Fault (List (Nat × Nat))
  | 0, _, _, acc => .ok acc.reverse
  | nChars + 1, mem, off, acc =>
    match get enc mem with
    | .error e => .error e
    | .ok (usv, sl) =>
      if usv = 0 ∧ ¬ sl < 1 then .ok acc.reverse
      else readText enc nChars (mem.drop sl.natAbs) (off + sl.natAbs) ((usv, off) :: acc)

/-! ## `put` -/
def put8 (usv : Nat) : List Nat :=
  if usv < 0x80 then [usv]
  else if usv < 0x800 then [0xC0 + (usv >>> 6), 0x80 + (usv &&& 0x3F)]
  else if usv < 0x10000 then [0xE0 + (usv >>> 12), 0x80 + ((usv >>> 6) &&& 0x3F), 0x80 + (usv &&& 0x3F)]
  else [0xF0 + (usv >>> 18), 0x80 + ((usv >>> 12) &&& 0x3F), 0x80 + ((usv >>> 6) &&& 0x3F), 0x80 + (usv &&& 0x3F)]

def put16 (usv : Nat) : List Nat :=
  if usv < 0x10000 then [usv % 2^16]
  else [((Gen.leadOffset + (usv >>> 10 : Nat)).toNat) % 2^16, (0xDC00 + (usv &&& 0x3FF)) % 2^16]

def put32 (usv : Nat) : List Nat := [usv]

def put : Enc → Nat → List Nat
  | .utf8 => put8 | .utf16 => put16 | .utf32 => put32

end GrVerif.Utf

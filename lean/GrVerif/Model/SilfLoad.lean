import GrVerif.Model.PassLoad
import GrVerif.Model.ClassMap
import GrVerif.Model.RulesLoad
/-!
# `Silf::readGraphite`: one Silf sub-table   (C01)

`src/Silf.cpp`, `Silf::readGraphite(silf_start, lSilf, face, version)`: the fixed fields, the justification levels, the
critical-feature and script-tag arrays that are skipped, the plausibility tests on the attribute and pass numbers, the pass
offset table, the pseudo-glyph map, the class map (`readClassMap`, `Model/ClassMap.lean`) and – per pass – the range tests
that produce the `pass_start`, `pass_length` and `subtable_base` `Pass::readPass` (`Model/PassLoad.lean`) is called with.

`b` is exactly the bytes of the sub-table (`lSilf = b.length`); a read outside them is a `Fault`.  `numGlyphs`, `numAttrs` and
`hasBoxes` are what the face's glyph cache answers.  Offsets are from `silf_start`.  `num_attrs - 5` is computed in `size_t`
(64 bits here) and wraps for fonts with fewer than five glyph attributes, as in the C++.
-/
namespace GrVerif.Loader
open GrVerif.Gen.Err

/-- the fixed fields up to and including the justification levels -/
structure SilfFixed where
  maxGlyph : Nat
  extraAscent : Nat
  extraDescent : Nat
  numPasses : Nat
  sPass : Nat
  pPass : Nat
  jPass : Nat
  bPass : Nat
  flags : Nat
  aPseudo : Nat
  aBreak : Nat
  aBidi : Nat
  aMirror : Nat
  aPassBits : Nat
  numJusts : Nat
  justs : List (Nat × Nat × Nat × Nat)
  p : Nat                       -- where the reading stands afterwards
  deriving Repr, DecidableEq

/-- `Justinfo(p[0], p[1], p[2], p[3])` for each of the `n` eight-byte records -/
def readJusts (b : List Nat) : Nat → Nat → Except Fault (List (Nat × Nat × Nat × Nat))
  | 0, _ => .ok []
  | n + 1, p => do
    let a0 ← byteAt b p
    let a1 ← byteAt b (p + 1)
    let a2 ← byteAt b (p + 2)
    let a3 ← byteAt b (p + 3)
    let rest ← readJusts b n (p + 8)
    return (a0, a1, a2, a3) :: rest

def readSilfFixed (b : List Nat) (version numGlyphs : Nat) : Except Fault (Except Nat SilfFixed) := do
  if version ≥ 0x00060000 then return .error E_BADSILFVERSION
  if b.length < (if version ≥ 0x00030000 then 28 else 20) then return .error E_BADSIZE
  let p := if version ≥ 0x00030000 then 8 else 0
  let maxGlyph ← be16 b p
  let extraAscent ← be16 b (p + 2)
  let extraDescent ← be16 b (p + 4)
  let numPasses ← byteAt b (p + 6)
  let sPass ← byteAt b (p + 7)
  let pPass ← byteAt b (p + 8)
  let jPass ← byteAt b (p + 9)
  let bPass ← byteAt b (p + 10)
  let flags ← byteAt b (p + 11)
  let aPseudo ← byteAt b (p + 14)
  let aBreak ← byteAt b (p + 15)
  let aBidi ← byteAt b (p + 16)
  let aMirror ← byteAt b (p + 17)
  let aPassBits ← byteAt b (p + 18)
  let numJusts ← byteAt b (p + 19)
  let p := p + 20
  if maxGlyph ≥ numGlyphs then return .error E_BADMAXGLYPH
  if p + numJusts * 8 ≥ b.length then return .error E_BADNUMJUSTS
  let justs ← readJusts b numJusts p
  return .ok { maxGlyph, extraAscent, extraDescent, numPasses, sPass, pPass, jPass, bPass, flags, aPseudo, aBreak, aBidi, aMirror,
               aPassBits, numJusts, justs, p := p + numJusts * 8 }

/-- the fields between the justification levels and the pass offset table -/
structure SilfMid where
  aLig : Nat
  aUser : Nat
  iMaxComp : Nat
  dir : Nat                     -- `m_dir = read<uint8> - 1` in a `uint8`
  aCollision : Nat
  gEndLine : Nat
  oPasses : Nat                 -- where the pass offset table starts
  passesStart : Nat             -- its first entry
  p : Nat                       -- just behind that first entry
  deriving Repr, DecidableEq

def readSilfMid (b : List Nat) (p : Nat) : Except Fault (Except Nat SilfMid) := do
  if p + 10 ≥ b.length then return .error E_BADENDJUSTS
  let aLig ← be16 b p
  let aUser ← byteAt b (p + 2)
  let iMaxComp ← byteAt b (p + 3)
  let d ← byteAt b (p + 4)
  let aCollision ← byteAt b (p + 5)
  let numCrit ← byteAt b (p + 9)
  let p := p + 10 + numCrit * 2 + 1
  if p ≥ b.length then return .error E_BADCRITFEATURES
  let numScript ← byteAt b p
  let p := p + 1 + numScript * 4
  if p + 6 ≥ b.length then return .error E_BADSCRIPTTAGS
  let gEndLine ← be16 b p
  let passesStart ← be32 b (p + 2)
  return .ok { aLig, aUser, iMaxComp, dir := (d + 255) % 256, aCollision, gEndLine, oPasses := p + 2, passesStart, p := p + 6 }

/-- the plausibility tests on the attribute numbers and the pass numbers, in the order of the C++ (the first that fails gives the code) -/
def silfChecks (len numAttrs : Nat) (f : SilfFixed) (m : SilfMid) : Option Nat :=
  if f.aPseudo ≥ numAttrs then some E_BADAPSEUDO
  else if f.aBreak ≥ numAttrs then some E_BADABREAK
  else if f.aBidi ≥ numAttrs then some E_BADABIDI
  else if f.aMirror ≥ numAttrs then some E_BADAMIRROR
  else if m.aCollision ≠ 0 ∧ m.aCollision ≥ (numAttrs + 18446744073709551616 - 5) % 18446744073709551616 then some E_BADACOLLISION
  else if f.numPasses > 128 then some E_BADNUMPASSES
  else if m.passesStart ≥ len then some E_BADPASSESSTART
  else if f.pPass < f.sPass then some E_BADPASSBOUND
  else if f.pPass > f.numPasses then some E_BADPPASS
  else if f.sPass > f.numPasses then some E_BADSPASS
  else if f.jPass < f.pPass then some E_BADJPASSBOUND
  else if f.jPass > f.numPasses then some E_BADJPASS
  else if f.bPass ≠ 255 ∧ (f.bPass < f.jPass ∨ f.bPass > f.numPasses) then some E_BADBPASS
  else if m.aLig > 127 then some E_BADALIG
  else none

/-- `m_pseudos`: `n` records of a 32-bit code point and a 16-bit glyph -/
def readPseudos (b : List Nat) : Nat → Nat → Except Fault (List (Nat × Nat))
  | 0, _ => .ok []
  | n + 1, p => do
    let uid ← be32 b p
    let gid ← be16 b (p + 4)
    let rest ← readPseudos b n (p + 6)
    return (uid, gid) :: rest

/-- the pseudo-glyph map; returns it and where the class map starts -/
def readSilfPseudos (b : List Nat) (f : SilfFixed) (m : SilfMid) : Except Fault (Except Nat (List (Nat × Nat) × Nat)) := do
  let p := m.p + f.numPasses * 4
  if p + 2 ≥ m.passesStart then return .error E_BADPASSESSTART
  let numPseudo ← be16 b p
  let p := p + 8
  if p + numPseudo * 6 ≥ m.passesStart then return .error E_BADNUMPSEUDO
  let ps ← readPseudos b numPseudo p
  return .ok (ps, p + numPseudo * 6)

/-- `enum passtype` as the loop of `readGraphite` assigns it: 0 line-break, 1 substitution, 2 positioning, 3 justification -/
def passType (f : SilfFixed) (i : Nat) : Nat :=
  if i ≥ f.jPass then 3 else if i ≥ f.pPass then 2 else if i ≥ f.sPass then 1 else 0

/-- may pass `i` carry collision flags?  (`Pass::readPass`: positioning or later, collision attribute, glyph boxes, Silf flag 0x20) -/
def passCollOK (f : SilfFixed) (m : SilfMid) (hasBoxes : Bool) (i : Nat) : Bool :=
  decide (passType f i ≥ 2) && decide (m.aCollision ≠ 0) && hasBoxes && decide ((f.flags / 32) % 2 = 1)

/-- one pass as the loop hands it to `Pass::readPass` -/
structure PassSlot where
  start : Nat
  stop : Nat
  pt : Nat
  pass : PassAll
  deriving Repr, DecidableEq

/-- an error of the sub-table itself, or of pass `i` -/
inductive SilfErr where
  | silf (code : Nat)
  | pass (i : Nat) (code : Nat)
  deriving Repr, DecidableEq

/-- the loop over the passes: offsets `o_passes[i]`, `o_passes[i+1]`, the three range tests, `Pass::readPass` on exactly the bytes
`[pass_start, pass_end)` with `subtable_base = pass_start`, the pass type of `enum passtype` (`passType + 1`) and the limits `fl` the
code loader takes from the font and the sub-table -/
def readSilfPasses (b : List Nat) (f : SilfFixed) (m : SilfMid) (hasBoxes : Bool) (fl : FontLimits) : Nat → Nat → Except Fault (Except SilfErr (List PassSlot))
  | 0, _ => .ok (.ok [])
  | n + 1, i => do
    let ps ← be32 b (m.oPasses + i * 4)
    let pe ← be32 b (m.oPasses + (i + 1) * 4)
    if ps > pe then return .error (.pass i E_BADPASSSTART)
    if ps < m.passesStart then return .error (.pass i E_BADPASSSTART)
    if pe > b.length then return .error (.pass i E_BADPASSEND)
    match ← readPassAll ((b.drop ps).take (pe - ps)) ps (passCollOK f m hasBoxes i) fl (passType f i + 1) with
    | .error e => return .error (.pass i e)
    | .ok P =>
      match ← readSilfPasses b f m hasBoxes fl n (i + 1) with
      | .error e => return .error e
      | .ok rest => return .ok ({ start := ps, stop := pe, pt := passType f i, pass := P } :: rest)

/-- what `Silf::readGraphite` has established when it returns true (the code loader and the rule records aside) -/
structure SilfTable where
  fixed : SilfFixed
  mid : SilfMid
  pseudos : List (Nat × Nat)
  classAt : Nat
  classes : ClassMap
  passes : List PassSlot
  deriving Repr, DecidableEq

def liftE {α} (r : Except Fault (Except Nat α)) : Except Fault (Except SilfErr α) :=
  match r with
  | .error f => .error f
  | .ok (.error e) => .ok (.error (.silf e))
  | .ok (.ok a) => .ok (.ok a)

/-- `Silf::readGraphite` -/
def readSilf (b : List Nat) (version numGlyphs numAttrs : Nat) (hasBoxes : Bool) (numFeats : Nat := 0) : Except Fault (Except SilfErr SilfTable) :=
  match liftE (readSilfFixed b version numGlyphs) with
  | .error f => .error f
  | .ok (.error e) => .ok (.error e)
  | .ok (.ok f) =>
  match liftE (readSilfMid b f.p) with
  | .error x => .error x
  | .ok (.error e) => .ok (.error e)
  | .ok (.ok m) =>
  match silfChecks b.length numAttrs f m with
  | some e => .ok (.error (.silf e))
  | none =>
  match liftE (readSilfPseudos b f m) with
  | .error x => .error x
  | .ok (.error e) => .ok (.error e)
  | .ok (.ok (pseudos, classAt)) =>
  match liftE (readClassMap ((b.drop classAt).take (m.passesStart - classAt)) (decide (version ≥ 0x00040000))) with
  | .error x => .error x
  | .ok (.error e) => .ok (.error e)
  | .ok (.ok cm) =>
  -- `clen > unsigned(passes_start + silf_start - p)`: the number of 16-bit class data against the bytes left
  if cm.data.length > m.passesStart - classAt then .ok (.error (.silf E_BADPASSESSTART)) else
  -- the limits of the code loader: `silf.numClasses()`, `face.glyphs().numAttrs()`, `face.numFeatures()`, `silf.numUser()`
  match readSilfPasses b f m hasBoxes { classes := cm.nClass, glyfAttrs := numAttrs, features := numFeats, numUser := m.aUser } f.numPasses 0 with
  | .error x => .error x
  | .ok (.error e) => .ok (.error e)
  | .ok (.ok passes) => .ok (.ok { fixed := f, mid := m, pseudos, classAt, classes := cm, passes })

/-! ## `Face::readGraphite`: the Silf table and its sub-tables -/

/-- the loop of `Face::readGraphite` over the sub-table offsets, which start at `base`: `offset = read<uint32>(p)`,
`next = i == numSilf - 1 ? size : peek<uint32>(p)`, `next > size || offset >= next` refuses; `n` sub-tables are still to come.
(The length of the offset table itself is never tested – `silf_subtable_offsets_in_bounds` is why that is all right.) -/
def readSilfSubs (b : List Nat) (version numGlyphs numAttrs : Nat) (hasBoxes : Bool) (numFeats : Nat) (base : Nat) :
    Nat → Nat → Except Fault (Except SilfErr (List SilfTable))
  | 0, _ => .ok (.ok [])
  | n + 1, i => do
    let offset ← be32 b (base + i * 4)
    let next ← (if n = 0 then pure b.length else be32 b (base + (i + 1) * 4))
    if next > b.length ∨ offset ≥ next then return .error (.silf E_BADSIZE)
    match ← readSilf ((b.drop offset).take (next - offset)) version numGlyphs numAttrs hasBoxes numFeats with
    | .error e => return .error e
    | .ok t =>
      match ← readSilfSubs b version numGlyphs numAttrs hasBoxes numFeats base n (i + 1) with
      | .error e => return .error e
      | .ok rest => return .ok (t :: rest)

/-- `Face::readGraphite(silf)` on the bytes of the Silf table (which exists: `E_NOSILF` is the caller's case) -/
def readSilfTable (b : List Nat) (numGlyphs numAttrs : Nat) (hasBoxes : Bool) (numFeats : Nat := 0) : Except Fault (Except SilfErr (List SilfTable)) := do
  if b.length < 20 then return .error (.silf E_BADSIZE)
  let version ← be32 b 0
  if version < 0x00020000 then return .error (.silf E_TOOOLD)
  let base := if version ≥ 0x00030000 then 12 else 8
  let numSilf ← be16 b (base - 4)
  readSilfSubs b version numGlyphs numAttrs hasBoxes numFeats base numSilf 0

end GrVerif.Loader

import GrVerif.Model.Basic
/-!
# Table borrowing (`Face::Table`) and the glyph cache   (C16, C08, C09, C10)

`Face::Table` (`src/Face.cpp`, `src/inc/Face.h`): the constructor borrows a table from the application's `get_table`,
`release` gives it back (or frees the library's own decompressed copy), `decompress` swaps the borrowed table for an owned
buffer, move-assignment releases what the target held before adopting the source.  Every interaction with the outside is
recorded in a log of events.

`GlyphCache` (`src/GlyphCache.cpp`): glyphs are read on demand from immutable tables (lazy) or all at once (preload).
-/
namespace GrVerif.Borrow

inductive Ev where
  | get (id : Nat)       -- get_table returned pointer `id`
  | rel (id : Nat)       -- release_table(id)
  | alloc (id : Nat)     -- the library allocated buffer `id`
  | free (id : Nat)      -- the library freed buffer `id`
  deriving Repr, DecidableEq

structure Tbl where
  p : Option Nat := none
  compressed : Bool := false
  deriving Repr, DecidableEq

structure World where
  next : Nat := 0
  log : List Ev := []       -- newest first
  deriving Repr

/-- outcome of `Face::Table::decompress` -/
inductive Dz where
  | badsize      -- table shorter than 20 bytes: returns before touching anything
  | none         -- scheme NONE
  | ok           -- LZ4 decoded
  | fail         -- allocation failure, decoder failure, version mismatch or unknown scheme
  deriving Repr, DecidableEq

/-- `Face::Table::release` -/
def release (w : World) (t : Tbl) : World × Tbl :=
  match t.p with
  | none => (w, { t with p := none })
  | some id =>
    if t.compressed then ({ w with log := .free id :: w.log }, { t with p := none })
    else ({ w with log := .rel id :: w.log }, { t with p := none })

/-- `Face::Table::decompress` -/
def decompress (w : World) (t : Tbl) (dz : Dz) : World × Tbl :=
  match dz with
  | .badsize => (w, t)
  | .none => (w, t)
  | .ok =>
    let buf := w.next
    let w := { w with next := w.next + 1, log := .alloc buf :: w.log }
    let (w, t) := release w t
    (w, { p := some buf, compressed := true })
  | .fail =>
    -- the buffer may or may not have been allocated; when it was, it is freed again
    let buf := w.next
    let w := { w with next := w.next + 1, log := .alloc buf :: w.log }
    let (w, t) := release w t
    ({ w with log := .free buf :: w.log }, { p := none, compressed := true })

structure Params where
  present : Bool          -- get_table returned a table
  checkOK : Bool          -- TtfUtil::CheckTable
  wantsDecompress : Bool  -- first word >= version
  dz : Dz
  deriving Repr, DecidableEq

/-- `Face::Table::Table(face, tag, version)` -/
def ctor (w : World) (q : Params) : World × Tbl :=
  let (w, t) : World × Tbl :=
    if q.present then ({ w with next := w.next + 1, log := .get w.next :: w.log }, { p := some w.next, compressed := false })
    else (w, { p := none, compressed := false })
  if ¬ (q.present ∧ q.checkOK) then release w t
  else if q.wantsDecompress then decompress w t q.dz
  else (w, t)

/-- one table object's life: constructed, re-assigned from freshly constructed temporaries any number of times
(`table = Face::Table(face, tag)`), destroyed -/
def life (q : Params) (moves : List Params) : World :=
  let (w, t) := ctor {} q
  let (w, t) := moves.foldl (fun (acc : World × Tbl) m =>
    let (w, tmp) := ctor acc.1 m
    let (w, _) := release w acc.2         -- operator=: release(), then adopt the source, which is left empty
    (w, tmp)) (w, t)
  (release w t).1

/-- the borrow discipline on a log (oldest first): no release of something not outstanding, no second `get`/`alloc` of an
outstanding id, nothing outstanding at the end -/
def disciplined : List Ev → List Nat → List Nat → Bool
  | [], borrowed, owned => borrowed.isEmpty && owned.isEmpty
  | .get id :: rest, b, o => !b.contains id && disciplined rest (id :: b) o
  | .rel id :: rest, b, o => b.contains id && disciplined rest (b.erase id) o
  | .alloc id :: rest, b, o => !o.contains id && disciplined rest b (id :: o)
  | .free id :: rest, b, o => o.contains id && disciplined rest b (o.erase id)

/-! ## glyph cache -/

structure GCache (G : Type) where
  cache : List (Option G)
  loader : Bool

/-- `GlyphCache::glyph(gid)`: the glyph handed out and the cache afterwards -/
def glyph {G : Type} (load : Nat → Option G) (c : GCache G) (gid : Nat) : Option G × GCache G :=
  if gid ≥ c.cache.length then (c.cache.headD none, c) else
  match c.cache.getD gid none with
  | some g => (some g, c)
  | none =>
    if c.loader then
      match load gid with
      | some g => (some g, { c with cache := c.cache.set gid (some g) })
      | none => (c.cache.headD none, c)
    else (none, c)

/-- the preloading constructor: every glyph read, the loader dropped -/
def preload {G : Type} (load : Nat → Option G) (n : Nat) : Option (GCache G) :=
  if (List.range n).all (fun g => (load g).isSome) then some { cache := (List.range n).map load, loader := false } else none

def lazy {G : Type} (n : Nat) : GCache G := { cache := List.replicate n none, loader := true }

/-! ## `Font::advance`: the hinted-advance cache (`Font::m_advances`)

`V` is whatever the application's callback returns (a float in the code; the cache never computes with it), `sent` is
`INVALID_ADVANCE`.  The cache holds one cell per glyph, all `sent` at construction. -/

/-- `Font::advance(gid)`: the value returned, the cache afterwards, and whether the application's callback was called.
`none` outside the array (the callers only ask for glyphs of the face). -/
def advance {V : Type} [DecidableEq V] (sent : V) (f : Nat → V) (c : List V) (gid : Nat) : Option (V × List V × Bool) :=
  match c[gid]? with
  | none => none
  | some v =>
    if v = sent then some ((c.set gid (f gid)).getD gid sent, c.set gid (f gid), true)   -- miss: store, then return the cell
    else some (v, c, false)

/-- `Font::Font`: every cell invalid -/
def advInit {V : Type} (sent : V) (n : Nat) : List V := List.replicate n sent

/-- a history of requests: the values returned (oldest first) and the final cache -/
def advRun {V : Type} [DecidableEq V] (sent : V) (f : Nat → V) : List V → List Nat → List (Option (V × Bool)) × List V
  | c, [] => ([], c)
  | c, g :: rest =>
    match advance sent f c g with
    | none => let r := advRun sent f c rest; (none :: r.1, r.2)
    | some (v, c', called) => let r := advRun sent f c' rest; (some (v, called) :: r.1, r.2)

end GrVerif.Borrow

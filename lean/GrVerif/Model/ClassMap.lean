import GrVerif.Model.PassLoad
/-!
# The Silf class map: `Silf::readClassMap` and the two look-ups that use it   (C01, C02)

`b` is exactly the bytes between the start of the class map and `passes_start` (`data_len = b.length`); `wide` says whether the
Silf table version is 4 or later (32-bit class offsets) or earlier (16-bit).  Integer types as in the C++ after the repair
`fix: Silf::readClassOffsets …`: `cls_off` and `max_off` are `uint32`, so `peek<T> - cls_off` wraps modulo 2³².
`getClassGlyph` / `findClassIndex` are transcribed with every access to `m_classOffsets` and `m_classData` checked.
-/
namespace GrVerif.Loader
open GrVerif.Gen.Err

structure ClassMap where
  nClass : Nat
  nLinear : Nat
  offsets : List Nat      -- `m_classOffsets`, `nClass + 1` entries, in units of uint16 into `data`
  data : List Nat         -- `m_classData`
  deriving Repr, DecidableEq

def rdT (b : List Nat) (wide : Bool) (i : Nat) : Except Fault Nat := if wide then be32 b i else be16 b i

/-- `(x - cls_off) / sizeof(uint16)` in `uint32` arithmetic -/
def relOff (x clsOff : Nat) : Nat := ((x + 4294967296 - clsOff) % 4294967296) / 2

def readOffsets (b : List Nat) (wide : Bool) (clsOff maxOff : Nat) : Nat → Nat → Except Fault (Option (List Nat))
  | 0, _ => .ok (some [])
  | n + 1, p => do
    let x ← rdT b wide p
    let o := relOff x clsOff
    if o > maxOff then return none
    match ← readOffsets b wide clsOff maxOff n (p + (if wide then 4 else 2)) with
    | none => return none
    | some os => return some (o :: os)

/-- the invariants of one non-linear class (`o` its offset, `o1` the next one) -/
def lookupBad (data : List Nat) (maxOff o o1 : Nat) : Except Fault (Option Nat) := do
  if o + 4 > maxOff then return some E_HIGHCLASSOFFSET
  let l0 ← (match data[o]? with | some v => .ok v | none => .error (.read "m_classData"))
  let l1 ← (match data[o + 1]? with | some v => .ok v | none => .error (.read "m_classData"))
  let l3 ← (match data[o + 3]? with | some v => .ok v | none => .error (.read "m_classData"))
  if l0 = 0 ∨ l0 * 2 + o + 4 > maxOff ∨ l3 + l1 ≠ l0 then return some E_BADCLASSLOOKUPINFO
  if ((o1 + 4294967296 - o) % 4294967296) % 2 ≠ 0 then return some ERROROFFSET
  return none

def checkLookups (data : List Nat) (maxOff : Nat) : List Nat → Except Fault (Option Nat)
  | o :: o1 :: rest => do
    match ← lookupBad data maxOff o o1 with
    | some e => return some e
    | none => checkLookups data maxOff (o1 :: rest)
  | _ => .ok none

/-- the second half of `Silf::readClassMap`, once the offsets have been read: the size test, the order of the linear classes,
the class data, the invariants of the non-linear classes -/
def finishClassMap (b : List Nat) (nClass nLinear clsOff maxOff : Nat) (offsets : List Nat) : Except Fault (Except Nat ClassMap) := do
  -- `(int)max_off < m_nLinear + (m_nClass - m_nLinear) * 6`
  if maxOff ≥ 2147483648 ∨ maxOff < nLinear + (nClass - nLinear) * 6 then return .error E_CLASSESTOOBIG
  if ((offsets.take (nLinear + 1)).zip ((offsets.take (nLinear + 1)).drop 1)).any (fun (r : Nat × Nat) => r.1 > r.2) then return .error E_BADCLASSOFFSET
  let data ← readU16s b clsOff maxOff
  match ← checkLookups data maxOff (offsets.drop nLinear) with
  | some e => return .error e
  | none => return .ok { nClass, nLinear, offsets, data }

/-- `Silf::readClassMap` -/
def readClassMap (b : List Nat) (wide : Bool) : Except Fault (Except Nat ClassMap) := do
  let len := b.length
  if len < 4 then return .error E_BADCLASSSIZE
  let nClass ← be16 b 0
  let nLinear ← be16 b 2
  let sz := if wide then 4 else 2
  if nLinear > nClass then return .error E_TOOMANYLINEAR
  if (nClass + 1) * sz > len - 4 then return .error E_CLASSESTOOBIG
  let clsOff := 4 + sz * (nClass + 1)
  let lastRaw ← rdT b wide (4 + sz * nClass)
  let maxOff := relOff lastRaw clsOff
  let firstRaw ← rdT b wide 4
  if firstRaw ≠ clsOff then return .error E_MISALIGNEDCLASSES
  if maxOff > (len - clsOff) / 2 then return .error E_HIGHCLASSOFFSET
  match ← readOffsets b wide clsOff maxOff (nClass + 1) 4 with
  | none => return .error E_HIGHCLASSOFFSET
  | some offsets => finishClassMap b nClass nLinear clsOff maxOff offsets

/-! ## the look-ups -/

def off? (m : ClassMap) (i : Nat) : Except Fault Nat := match m.offsets[i]? with | some v => .ok v | none => .error (.read "m_classOffsets")
def dat? (m : ClassMap) (i : Nat) : Except Fault Nat := match m.data[i]? with | some v => .ok v | none => .error (.read "m_classData")

/-- the scan of `getClassGlyph` over the pairs of a non-linear class -/
def scanPairs (m : ClassMap) (index : Nat) : Nat → Nat → Nat → Except Fault Nat
  | 0, _, _ => .ok 0
  | fuel + 1, i, stop =>
    if i < stop then do
      let v ← dat? m (i + 1)
      if v = index then dat? m i else scanPairs m index fuel (i + 2) stop
    else .ok 0

/-- `Silf::getClassGlyph(cid, index)` -/
def getClassGlyph (m : ClassMap) (cid index : Nat) : Except Fault Nat := do
  if cid > m.nClass then return 0
  let loc ← off? m cid
  let nxt ← off? m (cid + 1)
  if cid < m.nLinear then
    if index < (nxt + 4294967296 - loc) % 4294967296 then dat? m (index + loc) else return 0
  else scanPairs m index (m.data.length + 1) (loc + 4) nxt

/-- the linear search of `findClassIndex` in a linear class -/
def scanLinear (m : ClassMap) (gid : Nat) (base : Nat) : Nat → Nat → Nat → Except Fault Nat
  | 0, _, _ => .ok 0xFFFF
  | fuel + 1, i, n =>
    if i < n then do
      let v ← dat? m (base + i)
      if v = gid then return i else scanLinear m gid base fuel (i + 1) n
    else .ok 0xFFFF

/-- the `do … while (max - min > 2)` of `findClassIndex`; `mn`, `mx` are indices into `m_classData` -/
def bsearch (m : ClassMap) (gid : Nat) : Nat → Nat → Nat → Except Fault Nat
  | 0, mn, _ => .ok mn
  | fuel + 1, mn, mx => do
    let p := mn + ((mx - mn) / 2) / 2 * 2            -- `min + (-2 & ((max-min)/2))`
    let v ← dat? m p
    let (mn, mx) := if v > gid then (mn, p) else (p, mx)
    if mx - mn > 2 then bsearch m gid fuel mn mx else .ok mn

/-- `Silf::findClassIndex(cid, gid)`; 0xFFFF is the C++'s `-1` -/
def findClassIndex (m : ClassMap) (cid gid : Nat) : Except Fault Nat := do
  if cid > m.nClass then return 0xFFFF
  let loc ← off? m cid
  if cid < m.nLinear then
    let nxt ← off? m (cid + 1)
    scanLinear m gid loc (m.data.length + 1) 0 ((nxt + 4294967296 - loc) % 4294967296)
  else
    let n ← dat? m loc
    let mn ← bsearch m gid (n + 1) (loc + 4) (loc + 4 + n * 2)
    let k ← dat? m mn
    if k = gid then dat? m (mn + 1) else return 0xFFFF

end GrVerif.Loader

import GrVerif.Model.PassLoad
/-!
# Glyph attributes: `Gloc`/`Glat`, `GlyphCache::Loader` and `sparse`   (C01)

`src/GlyphCache.cpp`: the part of `GlyphCache::Loader::Loader` that reads the headers of `Gloc` and `Glat`; the attribute half of
`Loader::read_glyph` (the two offsets of the glyph in `Gloc`, the tests on them, the octabox header of a version 3 `Glat`, the
`_glat_iterator`s over the run-length entries); the byte-level half of `Loader::read_box`; `src/inc/Sparse.h` / `src/Sparse.cpp`:
the constructor of `sparse` from such an iterator (two passes: extent of the key space, then chunks and values in one allocation)
and `sparse::operator[]`.

`gloc`, `glat` are exactly the bytes of the two tables; a read outside them is a `Fault`, and so is a write or read outside the
array a `sparse` allocates.  That array is `cells`: per chunk its `mask` and `offset` (two 16-bit numbers), then the values.
Integer types as in the C++: the table versions are read into an `int` in the constructor (so 0x80000000 and above are negative
there) but into a `uint32` in `read_glyph`; `tmpnumgattrs` is a `ptrdiff_t` computed in `size_t`; `gloce - glocs` is a `size_t`.
The graphics half of `read_glyph` (`loca`, `glyf`, `hmtx`) is not part of this file.
-/
namespace GrVerif.Loader

def s32 (x : Nat) : Int := if x < 2147483648 then x else (x : Int) - 4294967296

def popcount16 (x : Nat) : Nat := ((List.range 16).filter fun i => x.testBit i).length

/-- what `Loader::Loader` keeps of the two tables -/
structure GlyphTables where
  longFmt : Bool
  numAttrs : Nat
  numGlyphsAttr : Nat
  hasBoxes : Bool
  deriving Repr, DecidableEq

/-- `tmpnumgattrs`: `(size - 8 - 2·(flags & 2 ? numAttrs : 0)) / (long ? 4 : 2) - 1`, computed in `size_t` and read as a `ptrdiff_t`
(`glocLen ≥ 8`).  Written by cases: either the attribute-id array fits behind the header and nothing wraps – then the quotient may still
be 0 and the result -1 – or the subtraction wraps to just below 2⁶⁴. -/
def tmpNumGAttrs (glocLen flags numAttrs : Nat) : Int :=
  let a := if (flags / 2) % 2 = 1 then 2 * numAttrs else 0
  let w := if flags % 2 = 1 then 4 else 2
  if a ≤ glocLen - 8 then ((glocLen - 8 - a) / w : Nat) - 1
  else (((18446744073709551616 - (a - (glocLen - 8))) / w : Nat) : Int) - 1

/-- the headers of `Gloc` and `Glat` (`numGlyphsGraphics` is what `maxp` says) -/
def readGlyphTables (gloc glat : List Nat) (numGlyphsGraphics : Nat) : Except Fault (Option GlyphTables) := do
  if gloc.length < 8 then return none
  let version ← be32 gloc 0
  let flags ← be16 gloc 4
  let numAttrs ← be16 gloc 6
  let tmp := tmpNumGAttrs gloc.length flags numAttrs
  if s32 version ≥ 0x00020000 ∨ tmp < 0 ∨ tmp > 65535 ∨ numAttrs = 0 ∨ numAttrs > 0x3000 ∨ (numGlyphsGraphics : Int) > tmp ∨ glat.length < 4 then return none
  let gv ← be32 glat 0
  if s32 gv ≥ 0x00040000 ∨ (s32 gv ≥ 0x00030000 ∧ glat.length < 8) then return none
  if s32 gv ≥ 0x00030000 then
    let _glatflags ← be32 glat 4
    return some { longFmt := flags % 2 = 1, numAttrs, numGlyphsAttr := tmp.toNat, hasBoxes := true }
  return some { longFmt := flags % 2 = 1, numAttrs, numGlyphsAttr := tmp.toNat, hasBoxes := false }

/-- `glocs`, `gloce` of glyph `gid` as `read_glyph` reads them (with its test `8 + gid·w > size`) -/
def glocPair (T : GlyphTables) (gloc : List Nat) (gid : Nat) : Except Fault (Option (Nat × Nat)) := do
  if T.longFmt then
    if 8 + gid * 4 > gloc.length then return none
    let s ← be32 gloc (8 + gid * 4)
    let e ← be32 gloc (8 + (gid + 1) * 4)
    return some (s, e)
  else
    if 8 + gid * 2 > gloc.length then return none
    let s ← be16 gloc (8 + gid * 2)
    let e ← be16 gloc (8 + (gid + 1) * 2)
    return some (s, e)

/-- `be::peek<W>` for the two entry widths -/
def peekW (wide : Bool) (glat : List Nat) (i : Nat) : Except Fault Nat := if wide then be16 glat i else byteAt glat i

/-- the pairs a `_glat_iterator<W>` yields between `first` and `last`: `e` the current entry, `v` the current value, `n` its number in
the entry; `stop = last._e`.  (`i != last` is `!(_v >= last._e - 1)`.) -/
def glatPairs (wide : Bool) (glat : List Nat) (stop : Nat) : Nat → Nat → Nat → Nat → Except Fault (List (Nat × Nat))
  | 0, _, _, _ => .ok []
  | fuel + 1, e, v, n =>
    if v + 1 ≥ stop then .ok [] else do
      let k ← peekW wide glat e
      let val ← be16 glat v
      -- operator ++
      let run ← peekW wide glat (e + (if wide then 2 else 1))
      let n1 := n + 1
      let v1 := v + 2
      let rest ← (if n1 = run then glatPairs wide glat stop fuel v1 (v1 + (if wide then 4 else 2)) 0 else glatPairs wide glat stop fuel e v1 n1)
      return ((k + n) % 65536, val) :: rest

/-! ## `sparse`

`mask_t` is `unsigned long` – 8 bytes here – so a chunk covers `SIZEOF_CHUNK = (8 - 2)·8 = 48` keys and is 8 bytes: a 48-bit mask
and a 16-bit offset.  (The harness reports the engine's `SIZEOF_CHUNK`; the check refuses to compare if it is not 48.)  The one
allocation holds the chunks and then the values; offsets and `operator[]`'s index count 16-bit cells from its start, four per chunk. -/

def chunkBits : Nat := 48
def chunkCells : Nat := 4

/-- a chunk: which of its 48 keys are present (`bits[r]` is bit `47 - r` of `mask`: keys in ascending order are bits in descending
order), and the cell index of its first value -/
structure Chunk where
  bits : List Bool
  offset : Nat
  deriving Repr, DecidableEq

def Chunk.empty : Chunk := { bits := List.replicate 48 false, offset := 0 }

/-- the 48-bit number `mask` -/
def Chunk.mask (c : Chunk) : Nat := c.bits.foldl (fun acc b => 2 * acc + (if b then 1 else 0)) 0

structure Sparse where
  nchunks : Nat
  chunks : List Chunk
  values : List Nat
  deriving Repr, DecidableEq

/-- the first pass of the constructor: `none` if the keys of the non-zero values are not strictly increasing, else the number of
chunks and of values -/
def sparseExtent : List (Nat × Nat) → Int → Nat → Nat → Option (Nat × Nat)
  | [], _, nchunks, nvalues => some (nchunks, nvalues)
  | (k, v) :: rest, lastkey, nchunks, nvalues =>
    if v = 0 then sparseExtent rest lastkey nchunks nvalues
    else if (k : Int) ≤ lastkey then none
    else sparseExtent rest k (if k / chunkBits ≥ nchunks then k / chunkBits + 1 else nchunks) (nvalues + 1)

def updChunk (s : Sparse) (j : Nat) (f : Chunk → Chunk) : Except Fault Sparse :=
  match s.chunks[j]? with
  | some c => .ok { s with chunks := s.chunks.set j (f c) }
  | none => .error (.read "sparse chunk")

/-- `*vi = x` with `vi` a cell index of the allocation -/
def setValue (s : Sparse) (vi : Nat) (x : Nat) : Except Fault Sparse :=
  if chunkCells * s.nchunks ≤ vi ∧ vi - chunkCells * s.nchunks < s.values.length then .ok { s with values := s.values.set (vi - chunkCells * s.nchunks) x }
  else .error (.read "sparse value")

/-- the second pass: `ci` the chunk being filled, `vi` the cell the next value goes to -/
def sparseFill : List (Nat × Nat) → Nat → Nat → Sparse → Except Fault Sparse
  | [], _, _, s => .ok s
  | (k, v) :: rest, ci, vi, s =>
    if v = 0 then sparseFill rest ci vi s else do
      let ci' := k / chunkBits
      let s ← (if ci ≠ ci' then updChunk s ci' fun c => { c with offset := vi % 65536 } else pure s)
      -- `ci->mask |= 1UL << (SIZEOF_CHUNK - 1 - (k % SIZEOF_CHUNK))`
      let s ← updChunk s ci' fun c => { c with bits := c.bits.set (k % chunkBits) true }
      let s ← setValue s vi v
      sparseFill rest ci' (vi + 1) s

/-- `sparse::sparse(first, last)`; `none`: `m_array.map == 0` (keys out of order) -/
def sparseBuild (pairs : List (Nat × Nat)) : Except Fault (Option Sparse) :=
  match sparseExtent pairs (-1) 0 0 with
  | none => .ok none
  | some (nchunks, nvalues) =>
    if nchunks = 0 then .ok (some { nchunks := 0, chunks := [], values := [] })          -- `empty_chunk`
    else do
      let s : Sparse := { nchunks, chunks := List.replicate nchunks Chunk.empty, values := List.replicate nvalues 0 }
      let s ← updChunk s 0 fun c => { c with offset := chunkCells * nchunks }
      let s ← sparseFill pairs 0 (chunkCells * nchunks) s
      return some s

/-- `sparse::capacity()` -/
def Sparse.capacity (s : Sparse) : Nat := (s.chunks.map fun c => c.bits.count true).sum

/-- `m_array.map[j]`; an empty `sparse` points at the static `empty_chunk` -/
def Sparse.chunk (s : Sparse) (j : Nat) : Except Fault Chunk :=
  if s.nchunks = 0 then (if j = 0 then .ok Chunk.empty else .error (.read "empty_chunk"))
  else match s.chunks[j]? with
    | some c => .ok c
    | none => .error (.read "sparse chunk")

/-- `m_array.values[i]`: a 16-bit cell of the allocation – of a chunk, or a value -/
def Sparse.cell (s : Sparse) (i : Nat) : Except Fault Nat :=
  if s.nchunks = 0 then (if i < chunkCells then .ok 0 else .error (.read "empty_chunk"))
  else if i < chunkCells * s.nchunks then
    match s.chunks[i / chunkCells]? with
    | some c => .ok (if i % chunkCells = 3 then c.offset else (c.mask >>> (16 * (i % chunkCells))) % 65536)
    | none => .error (.read "sparse chunk")
  else match s.values[i - chunkCells * s.nchunks]? with
    | some v => .ok v
    | none => .error (.read "sparse value")

/-- `sparse::operator[]`: `g` = is the key's chunk there, `m & 1` = is the key's bit set, `bit_set_count(m >> 1)` = how many keys of
the chunk come before it -/
def Sparse.get (s : Sparse) (k : Nat) : Except Fault Nat := do
  let g := if k / chunkBits < s.nchunks then 1 else 0
  let c ← s.chunk (g * k / chunkBits)
  let g := g * (if c.bits.getD (k % chunkBits) false then 1 else 0)
  let v ← s.cell (g * (c.offset + (c.bits.take (k % chunkBits)).count true))
  return g * v

/-! ## the attribute half of `read_glyph`, and `read_box` -/

/-- the octabox header in front of a glyph's attributes in a version 3 `Glat`: where the attributes start and the number of sub-boxes;
`none` = `return 0` -/
def boxHeader (glat : List Nat) (gv glocs gloce : Nat) : Except Fault (Option (Nat × Nat)) :=
  if gv ≥ 0x00030000 then
    if glocs ≥ gloce then .ok none else
      match be16 glat glocs with
      | .error e => .error e
      | .ok bmap => if glocs + 6 + 8 * popcount16 bmap > gloce then .ok none else .ok (some (glocs + 6 + 8 * popcount16 bmap, popcount16 bmap))
  else .ok (some (glocs, 0))

/-- `read_glyph(gid, …)` for `gid < _num_glyphs_attributes`: `none` = `return 0`; else the attributes and the number of sub-boxes
added to `*numsubs` -/
def readGlyphAttrs (T : GlyphTables) (gloc glat : List Nat) (gid : Nat) : Except Fault (Option (Sparse × Nat)) := do
  match ← glocPair T gloc gid with
  | none => return none
  | some (glocs, gloce) =>
    if glocs ≥ glat.length - 1 ∨ gloce > glat.length then return none
    let gv ← be32 glat 0
    -- version 3: the octabox header
    let r ← boxHeader glat gv glocs gloce
    match r with
    | none => return none
    | some (glocs, num) =>
      let wide := decide (gv ≥ 0x00020000)
      let unit := if wide then 6 else 4
      -- `gloce - glocs` is a size_t: it wraps when gloce < glocs and is then larger than any `_num_attrs * unit`
      if gloce < glocs then return none
      if gloce - glocs < unit ∨ gloce - glocs > T.numAttrs * unit then return none
      if wide ∧ glocs > glat.length - 4 then return none
      let pairs ← glatPairs wide glat gloce (glat.length + 1) glocs (glocs + (if wide then 4 else 2)) 0
      match ← sparseBuild pairs with
      | none => return none
      | some s =>
        if s.capacity > T.numAttrs then return none
        return some (s, num)

/-- `glocs`, `gloce` of glyph `gid` as `read_box` reads them (no test) -/
def glocPairRaw (T : GlyphTables) (gloc : List Nat) (gid : Nat) : Except Fault (Nat × Nat) :=
  if T.longFmt then
    match be32 gloc (8 + gid * 4), be32 gloc (8 + (gid + 1) * 4) with
    | .ok s, .ok e => .ok (s, e)
    | _, _ => .error (.read "Gloc")
  else
    match be16 gloc (8 + gid * 2), be16 gloc (8 + (gid + 1) * 2) with
    | .ok s, .ok e => .ok (s, e)
    | _, _ => .error (.read "Gloc")

def readU8s (b : List Nat) (off : Nat) : Nat → Except Fault (List Nat)
  | 0 => .ok []
  | n + 1 => do
    let v ← byteAt b off
    let vs ← readU8s b (off + 1) n
    return v :: vs

/-- `read_box(gid, …)` as far as bytes go: `none` = `return 0`; else the bitmap and its number of sub-boxes (the 4 + 8·num bytes of
box data are read) -/
def readBoxBytes (T : GlyphTables) (gloc glat : List Nat) (gid : Nat) : Except Fault (Option (Nat × Nat)) := do
  if gid ≥ T.numGlyphsAttr then return none
  let se ← glocPairRaw T gloc gid
  if se.2 > glat.length ∨ se.1 + 6 ≥ se.2 then return none
  let bmap ← be16 glat se.1
  let num := popcount16 bmap
  let _ ← readU8s glat (se.1 + 2) 4
  if se.1 + 6 + num * 8 ≥ se.2 then return none
  let _ ← readU8s glat (se.1 + 6) (num * 8)
  return some (bmap, num)

/-! ## `GlyphCache` -/

/-- `read_glyph(gid, …)`, attribute half: a glyph without attributes keeps the empty `sparse` of `GlyphFace()` -/
def readGlyph (T : GlyphTables) (gloc glat : List Nat) (gid : Nat) : Except Fault (Option (Sparse × Nat)) :=
  if gid < T.numGlyphsAttr then readGlyphAttrs T gloc glat gid else .ok (some ({ nchunks := 0, chunks := [], values := [] }, 0))

/-- the glyphs of a preloading cache: all of them, or nothing -/
def preloadGlyphs (T : GlyphTables) (gloc glat : List Nat) : Nat → Nat → Except Fault (Option (List (Sparse × Nat)))
  | 0, _ => .ok (some [])
  | n + 1, gid => do
    match ← readGlyph T gloc glat gid with
    | none => return none
    | some g =>
      match ← preloadGlyphs T gloc glat n (gid + 1) with
      | none => return none
      | some rest => return some (g :: rest)

/-- the boxes of a preloading cache: `read_box` for every glyph, stopping at the first that fails (then all are dropped) -/
def preloadBoxes (T : GlyphTables) (gloc glat : List Nat) : Nat → Nat → Except Fault (Option (List (Nat × Nat)))
  | 0, _ => .ok (some [])
  | n + 1, gid => do
    match ← readBoxBytes T gloc glat gid with
    | none => return none
    | some bx =>
      match ← preloadBoxes T gloc glat n (gid + 1) with
      | none => return none
      | some rest => return some (bx :: rest)

/-- what a `GlyphCache` answers about glyph `gid` -/
inductive GlyphAns where
  | noSuch
  | notLoaded
  | loaded (attrs : Sparse) (box : Option (Nat × Nat))
  deriving Repr, DecidableEq

structure GlyphCacheM where
  numGlyphs : Nat
  numAttrs : Nat
  hasBoxes : Bool
  glyphs : List GlyphAns          -- for the glyph ids asked about
  deriving Repr, DecidableEq

/-- `GlyphCache::glyph(gid)` of a cache that loads on demand -/
def askGlyph (T : GlyphTables) (gloc glat : List Nat) (ng gid : Nat) : Except Fault GlyphAns :=
  if gid ≥ ng then .ok .noSuch else
  match readGlyph T gloc glat gid with
  | .error e => .error e
  | .ok none => .ok .notLoaded
  | .ok (some g) =>
    if T.hasBoxes then
      match readBoxBytes T gloc glat gid with
      | .error e => .error e
      | .ok bx => .ok (.loaded g.1 bx)
    else .ok (.loaded g.1 none)

def askGlyphs (T : GlyphTables) (gloc glat : List Nat) (ng : Nat) : List Nat → Except Fault (List GlyphAns)
  | [] => .ok []
  | gid :: rest =>
    match askGlyph T gloc glat ng gid with
    | .error e => .error e
    | .ok a =>
      match askGlyphs T gloc glat ng rest with
      | .error e => .error e
      | .ok as => .ok (a :: as)

/-- `GlyphCache::GlyphCache(face, options)` followed by `glyph(gid)` for each of `gids`; `none`: a cache without glyphs -/
def glyphCache (gloc glat : List Nat) (numGlyphsGraphics : Nat) (preload : Bool) (gids : List Nat) : Except Fault (Option GlyphCacheM) := do
  match ← readGlyphTables gloc glat numGlyphsGraphics with
  | none => return none
  | some T =>
    let ng := max numGlyphsGraphics T.numGlyphsAttr
    if ng = 0 then return none
    if preload then
      match ← preloadGlyphs T gloc glat ng 0 with
      | none => return none
      | some gs =>
        let numsubs := (gs.map (·.2)).sum
        -- (the pinned tree read the boxes only `if (numsubs > 0 && _boxes)`: a font without sub-boxes then had no boxes when preloaded)
        let boxes ← (if T.hasBoxes then preloadBoxes T gloc glat ng 0 else pure none)
        let ans := gids.map fun gid =>
          match gs[gid]? with
          | none => GlyphAns.noSuch
          | some g => GlyphAns.loaded g.1 (match boxes with | some bs => bs[gid]? | none => none)
        return some { numGlyphs := ng, numAttrs := T.numAttrs, hasBoxes := T.hasBoxes, glyphs := ans }
    else
      -- `glyph(0) == 0` tears the cache down
      match ← readGlyph T gloc glat 0 with
      | none => return none
      | some _ =>
        let ans ← askGlyphs T gloc glat ng gids
        return some { numGlyphs := ng, numAttrs := T.numAttrs, hasBoxes := T.hasBoxes, glyphs := ans }

end GrVerif.Loader

import GrVerif.Model.Zones
/-!
# The shift collider (`ShiftCollider`, `src/Collider.cpp`)   (C17)

`initSlot`, `mergeSlot` (main octabox and sub-octaboxes; no sequence-order regions, no exclusion glyph) and `resolve`,
transcribed computation by computation.  Coordinates are integers (design units; the harness uses integer-valued floats
so that every float operation of the code is exact), costs are rationals as in `Model/Zones.lean`.

The one quantity of the code that is not rational is `margin / ISQRT2` (the margin on the two diagonal axes): it is a
parameter `dmargin` of the model.  The correspondence check compares the diagonal axes only for margin 0.

An octabox is eight numbers: the bounding box in `x`, `y` and the slant box in `s = x + y`, `d = x − y`.
-/
namespace GrVerif.Collider
open GrVerif.Zones

structure Box where
  xi : Int
  yi : Int
  xa : Int
  ya : Int
  si : Int
  di : Int
  sa : Int
  da : Int
  deriving Repr, DecidableEq, Inhabited

structure Glyph where
  box : Box
  subs : List Box := []
  deriving Repr, Inhabited

structure Rect where
  blx : Int
  bly : Int
  trx : Int
  try_ : Int
  deriving Repr, DecidableEq, Inhabited

/-- `Zones::Exclusion::weighted<XY|SD>` by axis -/
def weightedAxis (axis : Nat) (xmin xmax : Int) (f a0 m xi ai c : Rat) (nega : Bool) : Excl :=
  if axis < 2 then weightedXY xmin xmax f a0 m xi c else weightedSD xmin xmax f a0 m xi ai c nega

/-- `Zones::exclude_with_margins(xmin, xmax, axis)` with the set's own margin length and weight -/
def excludeWithMargins (axis : Nat) (ml : Int) (mw : Rat) (xmin xmax : Int) : List Op :=
  [ .exclude xmin xmax,
    .weighted (weightedAxis axis (xmin - ml) xmin 0 0 mw (xmin - ml) 0 0 false),
    .weighted (weightedAxis axis xmax (xmax + ml) 0 0 mw (xmax + ml) 0 0 false) ]

/-- what `initSlot` records about the target -/
structure Params where
  limit : Rect            -- `_limit` (after the left-to-right adjustment)
  shx : Int
  shy : Int               -- `_currShift`
  offx : Int
  offy : Int              -- `_currOffset`
  margin : Int
  dmargin : Int           -- `_margin / ISQRT2`
  marginWt : Int
  tbox : Box              -- the target glyph's bounding octabox
  deriving Repr

/-- the collider after `initSlot`: the parameters and one interval set per axis -/
structure Coll where
  p : Params
  r0 : Zones
  r1 : Zones
  r2 : Zones
  r3 : Zones
  deriving Repr

def Coll.range (c : Coll) : Nat → Zones
  | 0 => c.r0
  | 1 => c.r1
  | 2 => c.r2
  | _ => c.r3

/-- the margin length of axis `i`'s interval set -/
def Params.lmargin (c : Params) (i : Nat) : Int := if i < 2 then c.margin else c.dmargin

/-- `(mn, mx, a)` of `initSlot` for axis `i`, with `l` = limit − offset -/
def initAxis (i : Nat) (l : Rect) (shx shy offx offy : Int) : Int × Int × Int :=
  match i with
  | 0 => (l.blx + offx, l.trx + offx, offy + shy)
  | 1 => (l.bly + offy, l.try_ + offy, offx + shx)
  | 2 => (-2 * min (shx - l.blx) (shy - l.bly) + (offx + offy + shx + shy),
          2 * min (l.trx - shx) (l.try_ - shy) + (offx + offy + shx + shy),
          offx - offy + shx - shy)
  | _ => (-2 * min (shx - l.blx) (l.try_ - shy) + (offx - offy + shx - shy),
          2 * min (l.trx - shx) (shy - l.bly) + (offx - offy + shx - shy),
          offx + offy + shx + shy)

/-- `Zones::initialise<O>(mn, mx, margin_len, margin_weight, a)` – unlike `Zones.initialise` this keeps the C++'s behaviour
for an empty or inverted range (`mn ≥ mx`): the single interval is pushed regardless -/
def initZone (i : Nat) (mn mx a : Int) : Zones :=
  let e := weightedAxis i mn mx 1 a 0 0 0 0 false
  ⟨mn, mx, [{ e with «open» := true }]⟩

/-- the interval set of axis `i` as `initSlot` sets it up -/
def initRange (i : Nat) (limit : Rect) (shx shy offx offy : Int) : Zones :=
  let l : Rect := ⟨limit.blx - offx, limit.bly - offy, limit.trx - offx, limit.try_ - offy⟩
  let q := initAxis i l shx shy offx offy
  initZone i q.1 q.2.1 q.2.2

/-- `ShiftCollider::initSlot` (the glyph is known to have boxes) -/
def initSlot (tbox : Box) (limit : Rect) (margin dmargin marginWt : Int) (shx shy offx offy : Int) (dir : Nat) : Coll :=
  let l : Rect := ⟨limit.blx - offx, limit.bly - offy, limit.trx - offx, limit.try_ - offy⟩
  { r0 := initRange 0 limit shx shy offx offy, r1 := initRange 1 limit shx shy offx offy,
    r2 := initRange 2 limit shx shy offx offy, r3 := initRange 3 limit shx shy offx offy,
    p := { limit := if dir % 2 = 0 then { l with blx := -limit.trx - offx } else l,
           shx := shx, shy := shy, offx := offx, offy := offy, margin := margin, dmargin := dmargin, marginWt := marginWt, tbox := tbox } }

/-- the numbers `mergeSlot` computes per axis for a neighbour box `b` at `(sx, sy)` relative to the target's origin -/
structure AxisData where
  vmin : Int
  vmax : Int
  omin : Int
  omax : Int
  otmin : Int
  otmax : Int
  deriving Repr, DecidableEq

def axisData (i : Nat) (t b : Box) (sx sy tx ty : Int) : AxisData :=
  let sd := sx - sy
  let ss := sx + sy
  let td := tx - ty
  let ts := tx + ty
  match i with
  | 0 => ⟨max (max (b.xi - t.xa + sx) (b.di - t.da + ty + sd)) (b.si - t.sa - ty + ss),
          min (min (b.xa - t.xi + sx) (b.da - t.di + ty + sd)) (b.sa - t.si - ty + ss),
          b.yi + sy, b.ya + sy, t.yi + ty, t.ya + ty⟩
  | 1 => ⟨max (max (b.yi - t.ya + sy) (t.di - b.da + tx - sd)) (b.si - t.sa - tx + ss),
          min (min (b.ya - t.yi + sy) (t.da - b.di + tx - sd)) (b.sa - t.si - tx + ss),
          b.xi + sx, b.xa + sx, t.xi + tx, t.xa + tx⟩
  | 2 => ⟨max (max (b.si - t.sa + ss) (2 * (b.yi - t.ya + sy) + td)) (2 * (b.xi - t.xa + sx) - td),
          min (min (b.sa - t.si + ss) (2 * (b.ya - t.yi + sy) + td)) (2 * (b.xa - t.xi + sx) - td),
          b.di + sd, b.da + sd, t.di + td, t.da + td⟩
  | _ => ⟨max (max (b.di - t.da + sd) (2 * (b.xi - t.xa + sx) - ts)) (-2 * (b.ya - t.yi + sy) + ts),
          min (min (b.da - t.di + sd) (2 * (b.xa - t.xi + sx) - ts)) (-2 * (b.yi - t.ya + sy) + ts),
          b.si + ss, b.sa + ss, t.si + ts, t.sa + ts⟩

/-- `(cmin, cmax)`: the target's limits along axis `i` -/
def climits (i : Nat) (c : Params) : Int × Int :=
  let t := c.tbox
  match i with
  | 0 => (c.limit.blx + c.offx, c.limit.trx - t.xi + t.xa + c.offx)
  | 1 => (c.limit.bly + c.offy, c.limit.try_ - t.yi + t.ya + c.offy)
  | 2 => (c.limit.blx + c.limit.bly + (c.offx + c.offy), c.limit.trx + c.limit.try_ - t.si + t.sa + (c.offx + c.offy))
  | _ => (c.limit.blx - c.limit.try_ + (c.offx - c.offy), c.limit.trx - c.limit.bly - t.di + t.da + (c.offx - c.offy))

/-- the quick-reject test -/
def rejects (d : AxisData) (cl : Int × Int) (lm : Int) : Bool :=
  d.vmax < cl.1 - lm || d.vmin > cl.2 + lm || d.omax < d.otmin - lm || d.omin > d.otmax + lm

/-- what one box contributes to one axis once it is not rejected -/
def boxOps (i : Nat) (d : AxisData) (lm ml : Int) (mwt : Int) : List Op :=
  if d.omin > d.otmax then
    [.weighted (weightedAxis i (d.vmin - lm) (d.vmax + lm) 0 0 0 0 0 (((lm - d.omin + d.otmax) * (lm - d.omin + d.otmax) * mwt : Int) : Rat) false)]
  else if d.omax < d.otmin then
    [.weighted (weightedAxis i (d.vmin - lm) (d.vmax + lm) 0 0 0 0 0 (((lm - d.otmin + d.omax) * (lm - d.otmin + d.omax) * mwt : Int) : Rat) false)]
  else excludeWithMargins i ml mwt d.vmin d.vmax

/-- the operations a neighbour glyph causes on axis `i`, and whether it counts as a collision there -/
def axisOps (i : Nat) (c : Params) (g : Glyph) (sx sy : Int) : List Op × Bool :=
  let tx := c.offx + c.shx
  let ty := c.offy + c.shy
  let lm := c.lmargin i
  let cl := climits i c
  let d := axisData i c.tbox g.box sx sy tx ty
  if rejects d cl lm then ([], false) else
  if g.subs.isEmpty then (boxOps i d lm lm c.marginWt, true)
  else
    let hits := g.subs.filterMap fun sb =>
      let ds := axisData i c.tbox sb sx sy tx ty
      -- the sub-box keeps the main box's `otmin/otmax`
      if rejects ds cl lm then none else some (boxOps i ds lm lm c.marginWt)
    (hits.flatten, !hits.isEmpty)

/-- the short-circuit at the top of `mergeSlot` -/
def inReach (c : Params) (b : Box) (sx sy : Int) : Bool :=
  -- `sx, sy` are relative to the target's anchor; so is `_limit + _currOffset`; what can reach the neighbour is the target's box
  (sx + b.xa + c.margin ≥ c.limit.blx + c.offx + c.tbox.xi && sx + b.xi - c.margin ≤ c.limit.trx + c.offx + c.tbox.xa) ||
  (sy + b.ya + c.margin ≥ c.limit.bly + c.offy + c.tbox.yi && sy + b.yi - c.margin ≤ c.limit.try_ + c.offy + c.tbox.ya)

/-- `ShiftCollider::mergeSlot` for a neighbour glyph `g` whose origin (plus its own shift) is `(sx, sy)` away from the
target's anchor; returns the collider and `isCol` -/
def mergeSlot (c : Coll) (g : Glyph) (sx sy : Int) : Coll × Bool :=
  if ¬ inReach c.p g.box sx sy then (c, false) else
  ({ p := c.p,
     r0 := (axisOps 0 c.p g sx sy).1.foldl Zones.step c.r0,
     r1 := (axisOps 1 c.p g sx sy).1.foldl Zones.step c.r1,
     r2 := (axisOps 2 c.p g sx sy).1.foldl Zones.step c.r2,
     r3 := (axisOps 3 c.p g sx sy).1.foldl Zones.step c.r3 },
   (axisOps 0 c.p g sx sy).2 || (axisOps 1 c.p g sx sy).2 || (axisOps 2 c.p g sx sy).2 || (axisOps 3 c.p g sx sy).2)

/-- the shift `resolve` would return for position `v` on axis `i` (`bestPos = v − tbase`) -/
def shiftOn (c : Params) (i : Nat) (v : Rat) : Rat × Rat :=
  match i with
  | 0 => (v - c.offx, c.shy)
  | 1 => (c.shx, v - c.offy)
  | 2 => ((c.shx - c.shy + (v - (c.offx + c.offy : Int))) / 2, (c.shy - c.shx + (v - (c.offx + c.offy : Int))) / 2)
  | _ => ((c.shx + c.shy + (v - (c.offx - c.offy : Int))) / 2, (c.shx + c.shy - (v - (c.offx - c.offy : Int))) / 2)

/-- one axis of `resolve`'s loop: `acc` = (result so far, `isCol`, `totalCost`) -/
def resolveStep (c : Coll) (acc : (Rat × Rat) × Bool × Option Rat) (i : Nat) : (Rat × Rat) × Bool × Option Rat :=
  let r := (c.range i).closest 0
  if r.2 ≥ 0 then
    let better := match acc.2.2 with
      | none => true
      | some total => r.2 < total - 1 / 100
    if better then (shiftOn c.p i r.1, false, some r.2) else (acc.1, false, acc.2.2)
  else acc

/-- `ShiftCollider::resolve`: `(shift x, shift y, isCol)`; positions are rationals -/
def resolve (c : Coll) : Rat × Rat × Bool :=
  let r := [0, 1, 2, 3].foldl (resolveStep c) (((0 : Rat), (0 : Rat)), true, none)
  (r.1.1, r.1.2, r.2.1)

end GrVerif.Collider

import GrVerif.Model.GlyphLoad
/-!
# The graphics half of `Loader::read_glyph`: `loca`, `glyf`, `hmtx`   (C01)

`src/TtfUtil.cpp`: `LocaLookup`, `GlyfLookup(pGlyf, offset, len)`, `GlyfBox`, `HorMetrics`, as `GlyphCache::Loader::read_glyph` uses them
for a glyph below `maxp`'s glyph count.  The tables are the bytes `Face::Table` hands out, i.e. after `TtfUtil::CheckTable`: `head` at
least 54 bytes with `indexToLocFormat` 0 or 1, `hhea` at least 36, `glyf` at least 10, every table at least 4.  `LocaLookup` answers
`size_t(-2)` for a glyph the table has no entry for, `size_t(-1)` for an empty glyph, else the offset into `glyf`: here −2, −1, offset.
-/
namespace GrVerif.Loader

def s16' (x : Nat) : Int := if x < 32768 then x else (x : Int) - 65536

/-- `TtfUtil::LocaLookup(gid, loca, size, head)` -/
def locaLookup (long : Bool) (loca : List Nat) (gid : Nat) : Except Fault Int := do
  if long then
    if loca.length > 3 ∧ gid + 1 < loca.length / 4 then
      let a ← be32 loca (gid * 4)
      let b ← be32 loca ((gid + 1) * 4)
      return if a = b then -1 else (a : Int)
    else return -2
  else
    if loca.length > 1 ∧ gid + 1 < loca.length / 2 then
      let a ← be16 loca (gid * 2)
      let b ← be16 loca ((gid + 1) * 2)
      return if a * 2 = b * 2 then -1 else ((a * 2 : Nat) : Int)
    else return -2

/-- `TtfUtil::GlyfLookup(glyf, offset, len)`: `none` = NULL.  (`OVERFLOW_OFFSET_CHECK` catches the two negative answers of
`LocaLookup`; `len ≥ 10` by `CheckTable`, so `len - sizeof(Glyph)` does not wrap.) -/
def glyfLookup (glyf : List Nat) (off : Int) : Option Nat :=
  if off < 0 ∨ off ≥ (glyf.length : Int) - 10 then none else some off.toNat

/-- `TtfUtil::GlyfBox`: xMin, yMin, xMax, yMax of the glyph header at `off` -/
def glyfBox (glyf : List Nat) (off : Nat) : Except Fault (Int × Int × Int × Int) := do
  let a ← be16 glyf (off + 2)
  let b ← be16 glyf (off + 4)
  let c ← be16 glyf (off + 6)
  let d ← be16 glyf (off + 8)
  return (s16' a, s16' b, s16' c, s16' d)

/-- `TtfUtil::HorMetrics(gid, hmtx, size, hhea, lsb, advance)`: `none` = false; else (lsb, advance width) -/
def horMetrics (hmtx hhea : List Nat) (gid : Nat) : Except Fault (Option (Int × Nat)) := do
  let c ← be16 hhea 34
  if gid < c then
    if (gid + 1) * 4 > hmtx.length then return none
    let adv ← be16 hmtx (gid * 4)
    let lsb ← be16 hmtx (gid * 4 + 2)
    return some (s16' lsb, adv)
  else
    let o := 4 * c + 2 * (gid - c)
    if o ≥ hmtx.length - 2 ∨ c = 0 then return none
    let adv ← be16 hmtx ((c - 1) * 4)
    let lsb ← be16 hmtx o
    return some (s16' lsb, adv)

/-- the bounding box `read_glyph` finds for a glyph: `none` = `return 0` (inverted box); `some none` = no outline / no `glyf` -/
def glyphBBox (head : List Nat) (glyfLoca : Option (List Nat × List Nat)) (gid : Nat) : Except Fault (Option (Option (Int × Int × Int × Int))) :=
  match glyfLoca with
  | none => .ok (some none)
  | some (glyf, loca) =>
    match be16 head 50 with
    | .error e => .error e
    | .ok fmt =>
      match locaLookup (fmt = 1) loca gid with
      | .error e => .error e
      | .ok off =>
        match glyfLookup glyf off with
        | none => .ok (some none)
        | some o =>
          match glyfBox glyf o with
          | .error e => .error e
          | .ok bx => if bx.1 > bx.2.2.1 ∨ bx.2.1 > bx.2.2.2 then .ok none else .ok (some (some bx))

/-- the graphics half of `read_glyph(gid, …)` for `gid < _num_glyphs_graphics`: `none` = `return 0` (an inverted bounding box); else
the bounding box (if the glyph has an outline) and the advance width (if `hmtx` has one) -/
def readGlyphGfx (head hhea hmtx : List Nat) (glyfLoca : Option (List Nat × List Nat)) (gid : Nat) :
    Except Fault (Option (Option (Int × Int × Int × Int) × Option Nat)) :=
  match glyphBBox head glyfLoca gid with
  | .error e => .error e
  | .ok none => .ok none
  | .ok (some bb) =>
    match horMetrics hmtx hhea gid with
    | .error e => .error e
    | .ok none => .ok (some (bb, none))
    | .ok (some la) => .ok (some (bb, some la.2))

end GrVerif.Loader

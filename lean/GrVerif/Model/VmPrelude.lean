/-!
# Fixed vocabulary of the stack-machine model

The regenerated opcode bodies (`Gen.Vm`, produced by `tools/vmtrans.py` from `src/inc/opcodes.h`) are written in terms of the
primitives defined here; their meaning is the meaning of the corresponding C++ macros, whose `#define` texts the
translator compares with the expected ones on every run (`push`, `pop`, `declare_params`, `use_params`, `DIE`, `binop`, `sbinop`).

* the stack is the array `_stack[STACK_MAX + 2*STACK_GUARD]`, `sp` an index into it (`Int`, so that a pointer below the array is
  representable); any access outside the array is a `stackFault`;
* cells hold `int32` values as mathematical integers in range; `i32/u32/…` are the C++ conversions (two's complement wrap);
* `dp` indexes the parameter bytes of the program; reading past them is a `dataFault`.
-/
namespace GrVerif.Vm

def u32 (x : Int) : Int := x % 4294967296
def i32 (x : Int) : Int := (x + 2147483648) % 4294967296 - 2147483648
def u16 (x : Int) : Int := x % 65536
def i16 (x : Int) : Int := (x + 32768) % 65536 - 32768
def u8 (x : Int) : Int := x % 256
def i8 (x : Int) : Int := (x + 128) % 256 - 128
def b2i (b : Bool) : Int := if b then 1 else 0
/-- C `/` and `%` truncate towards zero -/
def cdiv (a b : Int) : Int := Int.tdiv a b
def cmod (a b : Int) : Int := Int.tmod a b
/-- bit operations are taken on the 32-bit two's-complement pattern; the caller re-casts the (non-negative) result -/
def band32 (a b : Int) : Int := ((u32 a).toNat &&& (u32 b).toNat : Nat)
def bor32 (a b : Int) : Int := ((u32 a).toNat ||| (u32 b).toNat : Nat)
def bxor32 (a b : Int) : Int := ((u32 a).toNat ^^^ (u32 b).toNat : Nat)
def bnot32 (a : Int) : Int := 4294967295 - u32 a
def shl32 (a b : Int) : Int := a * 2 ^ b.toNat
def shr32 (a b : Int) : Int := a / 2 ^ b.toNat

inductive Stop where
  | exited                      -- `EXIT(..)`: normal end of the program
  | stackFault (idx : Int)      -- access outside `_stack[]`
  | dataFault (idx : Nat)       -- parameter read outside the program's data
  deriving Repr, DecidableEq

/-- `Machine::status_t` values the scalar opcodes can set -/
inductive Status where
  | finished | stack_underflow | stack_not_empty | stack_overflow | slot_offset_out_bounds | died_early
  deriving Repr, DecidableEq

structure Vm where
  stack : Array Int
  sp : Int
  dp : Nat
  data : Array Nat
  status : Status
  deriving Repr

inductive Res (α : Type) where
  | ok (a : α) (s : Vm)
  | stop (why : Stop) (s : Vm)

def VmM (α : Type) := Vm → Res α

instance : Monad VmM where
  pure a := fun s => .ok a s
  bind m f := fun s => match m s with
    | .ok a s' => f a s'
    | .stop w s' => .stop w s'

@[simp] theorem pure_apply {α} (a : α) (s : Vm) : (pure a : VmM α) s = .ok a s := rfl
@[simp] theorem bind_apply {α β} (m : VmM α) (f : α → VmM β) (s : Vm) :
    (m >>= f) s = match m s with | .ok a s' => f a s' | .stop w s' => .stop w s' := rfl

def rdStack (i : Int) : VmM Int := fun s =>
  if 0 ≤ i then (match s.stack[i.toNat]? with
    | some v => .ok v s
    | none => .stop (.stackFault i) s)
  else .stop (.stackFault i) s
def wrStack (i : Int) (v : Int) : VmM Unit := fun s =>
  if 0 ≤ i ∧ i.toNat < s.stack.size then .ok () { s with stack := s.stack.setIfInBounds i.toNat v } else .stop (.stackFault i) s

/-- `*sp` -/
def top : VmM Int := fun s => rdStack s.sp s
/-- `*sp = v` -/
def setTop (v : Int) : VmM Unit := fun s => wrStack s.sp v s
/-- `pop()` = `(*sp--)` -/
def pop : VmM Int := fun s => match rdStack s.sp s with
  | .ok v s' => .ok v { s' with sp := s'.sp - 1 }
  | .stop w s' => .stop w s'
/-- `push(n)` = `{ *++sp = n; }` -/
def push (v : Int) : VmM Unit := fun s => wrStack (s.sp + 1) v { s with sp := s.sp + 1 }
/-- `declare_params(n)`: `param = dp; dp += n`; returns `param` -/
def declareParams (n : Nat) : VmM Nat := fun s => .ok s.dp { s with dp := s.dp + n }
def useParams (n : Nat) : VmM Unit := fun s => .ok () { s with dp := s.dp + n }
/-- `param[i]` -/
def param (base : Nat) (i : Int) : VmM Int := fun s =>
  match s.data[base + i.toNat]? with
  | some v => .ok (v : Nat) s
  | none => .stop (.dataFault (base + i.toNat)) s
/-- `EXIT(status)` = `{ push(status); goto end; }` -/
def exit (v : Int) : VmM Unit := fun s => match push v s with
  | .ok _ s' => .stop .exited s'
  | .stop w s' => .stop w s'
/-- `DIE` = `{ is = seg.last(); status = Machine::died_early; EXIT(1); }` (the slot cursor is not part of the scalar state) -/
def die : VmM Unit := fun s => exit 1 { s with status := .died_early }

end GrVerif.Vm

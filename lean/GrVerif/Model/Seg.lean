import GrVerif.Model.Vm
/-!
# The slot heap and the slot-manipulating opcodes   (C03, C04, C05, C02, C19)

The segment is modelled as a **heap**, not as a list: an arena of slot records linked by `next/prev/parent/child/sibling`
indices, exactly as `Segment`/`Slot` link them by pointers, so that a forgotten relink is representable.
Transcribed from `src/Segment.cpp` (`newSlot`, `freeSlot`, `appendSlot`), `src/Slot.cpp` (`child`, `sibling`,
`removeChild`, `setAttr(gr_slatAttTo)`), `src/inc/opcodes.h` (`next`, `insert`, `delete_`, `put_copy`, `assoc`, `attr_set`,
`attr_set_slot`, `temp_copy`), `src/Pass.cpp` (`SlotMap::collectGarbage`) and the `slotat`/`DIE` macros.
Positions, advances and user attributes are not part of this model.
-/
namespace GrVerif.Seg
open GrVerif.Vm

structure Slot where
  next : Option Nat := none
  prev : Option Nat := none
  parent : Option Nat := none
  child : Option Nat := none
  sibling : Option Nat := none
  gid : Nat := 0
  original : Int := 0
  before : Int := 0
  after : Int := 0
  index : Nat := 0
  deleted : Bool := false
  copied : Bool := false
  deriving Repr, DecidableEq, Inhabited

structure Seg where
  slots : Array Slot := #[]        -- the arena; a slot's identity is its index
  first : Option Nat := none
  last : Option Nat := none
  free : List Nat := []            -- `m_freeSlots` chain
  numGlyphs : Int := 0
  numChars : Nat := 0
  defaultOriginal : Int := 0
  bufSize : Nat := 1               -- `m_bufSize`: slots are allocated in blocks of this many
  deriving Repr

def Seg.get (s : Seg) (i : Nat) : Slot := s.slots.getD i {}
def Seg.upd (s : Seg) (i : Nat) (f : Slot → Slot) : Seg := { s with slots := s.slots.modify i f }

/-- `Segment::newSlot()`: from the free chain, else (growth test) a new block of `bufSize` slots whose first slot is
returned and whose other slots are chained as free -/
def Seg.newSlot (s : Seg) (growthFactor : Nat) : Option (Nat × Seg) :=
  match s.free with
  | i :: rest => some (i, { (s.upd i fun sl => { sl with next := none }) with free := rest })
  | [] =>
    if s.numGlyphs > (s.numChars * growthFactor : Nat) then none
    else
      let base := s.slots.size
      let n := max s.bufSize 1
      some (base, { s with slots := s.slots ++ Array.replicate n {}, free := (List.range (n - 1)).map (· + base + 1) })

/-- `Slot::sibling(ap)` on the chain starting at `i`; fuel = arena size -/
def sibling (s : Seg) : Nat → Nat → Option Nat → Bool × Seg
  | 0, _, _ => (false, s)
  | fuel + 1, i, ap =>
    if some i = ap then (false, s)
    else if ap = (s.get i).sibling then (true, s)
    else match (s.get i).sibling, ap with
      | none, _ => (true, s.upd i fun sl => { sl with sibling := ap })
      | some _, none => (true, s.upd i fun sl => { sl with sibling := none })
      | some j, some _ => sibling s fuel j ap

/-- `Slot::child(ap)` -/
def child (s : Seg) (i ap : Nat) : Bool × Seg :=
  if i = ap then (false, s)
  else if some ap = (s.get i).child then (true, s)
  else match (s.get i).child with
    | none => (true, s.upd i fun sl => { sl with child := some ap })
    | some c => sibling s (s.slots.size + 1) c (some ap)

/-- the loop of `Slot::removeChild` over the sibling chain -/
def removeSib (s : Seg) (ap : Nat) : Nat → Option Nat → Bool × Seg
  | 0, _ => (false, s)
  | _ + 1, none => (false, s)
  | fuel + 1, some p =>
    if (s.get p).sibling = some ap then
      let s := s.upd p fun sl => { sl with sibling := (s.get ap).sibling }
      (true, s.upd ap fun sl => { sl with sibling := none })
    else removeSib s ap fuel (s.get p).sibling

/-- `Slot::removeChild(ap)` -/
def removeChild (s : Seg) (i ap : Nat) : Bool × Seg :=
  if i = ap then (false, s) else
  match (s.get i).child with
  | none => (false, s)
  | some c =>
    if c = ap then
      let n := (s.get c).sibling
      let s := s.upd c fun sl => { sl with sibling := none }
      (true, s.upd i fun sl => { sl with child := n })
    else removeSib s ap (s.slots.size + 1) (some c)

/-- the `while (aSlot->firstChild())` loop of `freeSlot` -/
def detachChildren (s : Seg) (a : Nat) : Nat → Seg
  | 0 => s
  | fuel + 1 =>
    match (s.get a).child with
    | none => s
    | some c =>
      if (s.get c).parent = some a then
        let s := s.upd c fun sl => { sl with parent := none }
        detachChildren (removeChild s a c).2 a fuel
      else detachChildren (s.upd a fun sl => { sl with child := none }) a fuel

/-- `Segment::freeSlot(aSlot)` -/
def Seg.freeSlot (s : Seg) (a : Nat) : Seg :=
  let sa := s.get a
  let s := if s.last = some a then { s with last := sa.prev } else s
  let s := if s.first = some a then { s with first := sa.next } else s
  let s := match sa.parent with
    | some p => (removeChild s p a).2
    | none => s
  let s := detachChildren s a (s.slots.size + 1)
  -- `::new (aSlot) Slot(...)`, then chained in front of the free list
  let s := s.upd a fun _ => { next := s.free.head? }
  { s with free := a :: s.free }

/-- `Segment::appendSlot(id, cid, gid, …)` as far as the heap goes -/
def Seg.appendSlot (s : Seg) (id gid : Nat) (growthFactor : Nat) : Seg :=
  match s.newSlot growthFactor with
  | none => s
  | some (a, s) =>
    let s := s.upd a fun sl => { sl with child := none, gid := gid, original := id, before := id, after := id }
    let s := match s.last with
      | some l => s.upd l fun sl => { sl with next := some a }
      | none => s
    let s := s.upd a fun sl => { sl with prev := s.last }
    let s := { s with last := some a }
    if s.first.isNone then { s with first := some a } else s

/-! ## the rule context (`SlotMap`) and the machine registers of an action -/

structure Ctx where
  seg : Seg
  smap : Array (Option Nat)        -- `m_slot_map[MAX_SLOTS+1]`; `smap[n]` of the C++ is cell `n + 1`
  size : Nat                       -- `m_size`
  context : Nat                    -- `m_precontext`
  highwater : Option Nat := none
  highpassed : Bool := false
  maxSize : Int                    -- `m_maxSize`
  dir : Nat := 0
  map : Int                        -- the `map` register as an index into `m_slot_map`
  is : Option Nat                  -- the `is` register
  status : Status := .finished
  growthFactor : Nat := 64
  deriving Repr

inductive Outcome where
  | cont (c : Ctx)
  | died (c : Ctx)          -- `DIE`
  | fault (what : String)   -- an access outside `m_slot_map` or through a null slot pointer that the C++ does not guard
  deriving Repr

/-- `slotat(x)`: `none` with the status set when the offset is outside the map -/
def slotat (c : Ctx) (x : Int) : Option Nat × Ctx :=
  let i := c.map + x
  if 0 ≤ i ∧ i < (c.size : Int) + 1 then ((c.smap.getD i.toNat none), c)
  else (none, { c with status := .slot_offset_out_bounds })

def die (c : Ctx) : Outcome := .died { c with is := c.seg.last, status := .died_early }

/-- `next` -/
def opNext (c : Ctx) : Outcome :=
  if c.map - 1 ≥ (c.size : Int) then die c else
  let c := match c.is with
    | some i =>
      let c := if c.is = c.highwater then { c with highpassed := true } else c
      { c with is := (c.seg.get i).next }
    | none => c
  .cont { c with map := c.map + 1 }

/-- `insert` -/
def opInsert (c : Ctx) : Outcome :=
  let c := { c with maxSize := c.maxSize - 1 }
  if c.maxSize ≤ 0 then die c else
  match c.seg.newSlot c.growthFactor with
  | none => die c
  | some (n, seg) =>
    -- `while (iss && iss->isDeleted()) iss = iss->next();`
    let rec skip (fuel : Nat) (iss : Option Nat) : Option Nat :=
      match fuel, iss with
      | 0, _ => iss
      | _, none => none
      | f + 1, some i => if (seg.get i).deleted then skip f (seg.get i).next else some i
    let iss := skip (seg.slots.size + 1) c.is
    let seg := match iss with
      | none =>
        (match seg.last with
         | some l =>
           let seg := seg.upd l fun sl => { sl with next := some n }
           let seg := seg.upd n fun sl => { sl with prev := some l, before := (seg.get l).before }
           { seg with last := some n }
         | none => { seg with first := some n, last := some n })
      | some i =>
        (match (seg.get i).prev with
         | some p =>
           let seg := seg.upd p fun sl => { sl with next := some n }
           seg.upd n fun sl => { sl with prev := some p, before := (seg.get p).after }
         | none =>
           let seg := seg.upd n fun sl => { sl with prev := none, before := (seg.get i).before }
           { seg with first := some n })
    let seg := seg.upd n fun sl => { sl with next := iss }
    let seg := match iss with
      | some i =>
        let seg := seg.upd i fun sl => { sl with prev := some n }
        seg.upd n fun sl => { sl with original := (seg.get i).original, after := (seg.get i).before }
      | none =>
        (match (seg.get n).prev with
         | some p => seg.upd n fun sl => { sl with original := (seg.get p).original, after := (seg.get p).after }
         | none => seg.upd n fun sl => { sl with original := seg.defaultOriginal })
    let c := if c.is = c.highwater then { c with highpassed := false } else c
    let seg := { seg with numGlyphs := seg.numGlyphs + 1 }
    .cont { c with seg := seg, is := some n, map := if c.map ≠ 0 then c.map - 1 else c.map }

/-- `delete_` -/
def opDelete (c : Ctx) : Outcome :=
  match c.is with
  | none => die c
  | some i =>
    let si := c.seg.get i
    if si.deleted then die c else
    let seg := c.seg.upd i fun sl => { sl with deleted := true }
    let seg := match si.prev with
      | some p => seg.upd p fun sl => { sl with next := si.next }
      | none => { seg with first := si.next }
    let seg := match si.next with
      | some n => seg.upd n fun sl => { sl with prev := si.prev }
      | none => { seg with last := si.prev }
    -- the slot leaves the stream: it is taken out of the attachment tree as well (it may never reach `freeSlot`)
    let seg := match si.parent with
      | some p => ((removeChild seg p i).2).upd i fun sl => { sl with parent := none }
      | none => seg
    let seg := detachChildren seg i (seg.slots.size + 1)
    let c := if c.is = c.highwater then { c with highwater := si.next, highpassed := false } else c
    let is' := match si.prev with | some p => some p | none => c.is
    .cont { c with seg := { seg with numGlyphs := seg.numGlyphs - 1 }, is := is' }

/-- `put_copy <slot_ref>` -/
def opPutCopy (c : Ctx) (ref : Int) : Outcome :=
  match c.is with
  | none => .cont c
  | some i =>
    if (c.seg.get i).deleted then .cont c else
    let (r, c) := slotat c ref
    let res : Outcome := match r with
      | some rf =>
        if rf ≠ i then
          let si := c.seg.get i
          if si.parent.isSome ∨ si.child.isSome then die c else
          let sr := c.seg.get rf
          -- memcpy(is, ref), then the pointer fields of `is` are restored / cleared
          let seg := c.seg.upd i fun _ => { sr with child := none, sibling := none, next := si.next, prev := si.prev }
          let seg := match sr.parent with
            | some p => (child seg p i).2
            | none => seg
          .cont { c with seg := seg }
        else .cont c
      | none => .cont c
    match res with
    | .cont c => .cont { c with seg := c.seg.upd i fun sl => { sl with copied := false, deleted := false } }
    | o => o

/-- `assoc <n> <slot_ref>…` -/
def opAssoc (c : Ctx) (refs : List Int) : Outcome :=
  let (mn, mx, c) := refs.foldl (fun (acc : Int × Int × Ctx) sr =>
    let (mn, mx, c) := acc
    let (ts, c) := slotat c sr
    match ts with
    | some t =>
      let st := c.seg.get t
      let mn := if mn = -1 ∨ st.before < mn then st.before else mn
      let mx := if st.after > mx then st.after else mx
      (mn, mx, c)
    | none => (mn, mx, c)) (-1, -1, c)
  if mn > -1 then
    match c.is with
    | some i => .cont { c with seg := c.seg.upd i fun sl => { sl with before := mn, after := mx } }
    | none => .fault "assoc: store through a null `is`"
  else .cont c

/-- `Slot::setAttr(seg, gr_slatAttTo, subindex, value, map)` for slot `i` -/
def setAttTo (c : Ctx) (i : Nat) (subindex : Nat) (value : Int) : Ctx :=
  let idx := (value % 65536).toNat                         -- uint16(value)
  if idx < c.size then
    match c.smap.getD (idx + 1) none with
    | none => c
    | some other =>
      let si := c.seg.get i
      if other = i ∨ some other = si.parent ∨ (c.seg.get other).copied ∨ (c.seg.get other).deleted then c else
      let seg := match si.parent with
        | some p => ((removeChild c.seg p i).2).upd i fun sl => { sl with parent := none }
        | none => c.seg
      -- count the parent chain of `other`, the child chain and the sibling chain of `this`
      let rec up (fuel : Nat) (p : Option Nat) (cnt : Nat) (found : Bool) : Nat × Bool :=
        match fuel, p with
        | 0, _ => (cnt, found)
        | _, none => (cnt, found)
        | f + 1, some q => up f (seg.get q).parent (cnt + 1) (found || q == i)
      let (cnt, found) := up 200 (some other) 0 false
      let rec down (fuel : Nat) (p : Option Nat) (sel : Slot → Option Nat) (cnt : Nat) : Nat :=
        match fuel, p with
        | 0, _ => cnt
        | _, none => cnt
        | f + 1, some q => down f (sel (seg.get q)) sel (cnt + 1)
      let cnt := down 200 (seg.get i).child (·.child) cnt
      let cnt := down 200 (seg.get i).sibling (·.sibling) cnt
      if cnt < 100 ∧ !found then
        let (ok, seg') := child seg other i
        if ok then { c with seg := seg'.upd i fun sl => { sl with parent := some other } } else { c with seg := seg }
      else { c with seg := seg }
  else c

/-- `attr_set <slat>` / `attr_set_slot <slat>` as far as the heap goes (`value` already popped) -/
def opAttrSet (c : Ctx) (slat : Nat) (subindex : Nat) (value : Int) : Outcome :=
  match c.is with
  | none => .fault "attr_set: `is` is null"
  | some i => if slat = 2 then .cont (setAttTo c i subindex value) else .cont c

/-- `temp_copy` -/
def opTempCopy (c : Ctx) : Outcome :=
  match c.seg.newSlot c.growthFactor, c.is with
  | some (n, seg), some i =>
    let si := seg.get i
    let seg := seg.upd n fun _ => { si with copied := true }
    if 0 ≤ c.map ∧ c.map.toNat < c.smap.size then .cont { c with seg := seg, smap := c.smap.setIfInBounds c.map.toNat (some n) }
    else .fault "temp_copy: *map outside m_slot_map"
  | _, _ => die c

/-- `SlotMap::collectGarbage(aSlot)` -/
def collectGarbage (c : Ctx) (aSlot : Option Nat) : Ctx × Option Nat :=
  -- `for (s = begin(); s != end() - 1; ++s)`: the last cell of the map is not visited
  (List.range (c.size - 1)).foldl (fun (acc : Ctx × Option Nat) k =>
    let (c, a) := acc
    match c.smap.getD (k + 1) none with
    | some sl =>
      let s := c.seg.get sl
      if s.deleted ∨ s.copied then
        let a := if a = some sl then (match s.prev with | some p => some p | none => s.next) else a
        ({ c with seg := c.seg.freeSlot sl }, a)
      else (c, a)
    | none => (c, a)) (c, aSlot)

end GrVerif.Seg
